(* C04 — node by node, switch routers (wait_for_response / split_by_value / split_by_group rows): a switch router node that
   is [node_ok] is [node_good].  The edges that leave the row: one per case (in case order; a loose_exit row when the
   category of the case leads nowhere), the blank default edge, the "No Response" edge.  The reference folds them with
   add_case / set_default / noresp_edge. *)
From Coq Require Import String.
From Coq Require Import List NArith Bool Arith Lia Permutation.
From RPFT Require Import Base.Sexp Base.PyStr Base.PyStrFacts Base.SexpEq Base.Result Gen.Tables Flow.Lts Flow.Flow Flow.FlowFacts Flow.RowSem
     Exp.FlatSem Exp.ToRows Exp.RowIdFacts Exp.Means Exp.MeansFamily Exp.MeansDfs Exp.MeansDfsFacts
     Exp.MeansRun Exp.MeansOrder Exp.MeansSim Exp.MeansFacts Exp.MeansLocal Exp.MeansRouters.
Import ListNotations.

Opaque no_args_tests short_types strip_excluded frm_field_headers.
Opaque loose_exit_rows pairs_follow_cases has_group_case_by_name split_rows_carry_save_name group_split_without_cases_exports.

Lemma Forall2_in_cons {A B} (R : A -> B -> Prop) (S : list B) z l l' :
  Forall2 (fun a b => In b S /\ R a b) l l' -> Forall2 (fun a b => In b (z :: S) /\ R a b) l l'.
Proof. induction 1 as [|x y l0 l0' [H1 H2] _ IH]; constructor; [split; [right; exact H1|exact H2]|exact IH]. Qed.

Lemma Forall2_and_in {A B} (R : A -> B -> Prop) l l' : Forall2 R l l' -> Forall2 (fun a b => In b l' /\ R a b) l l'.
Proof.
  induction 1 as [|a b l l' Hab _ IH]; constructor; [split; [left; reflexivity|exact Hab]|]. apply Forall2_in_cons, IH.
Qed.

Lemma nth_error_app1_some {X} (l l' : list X) i x : nth_error l i = Some x -> nth_error (l ++ l') i = Some x.
Proof. intros H. rewrite nth_error_app1; [exact H|]. apply nth_error_Some. congruence. Qed.

(* ---------------------------------------------------------------- lists of categories of a decision *)
Lemma update_same {X} (l : list X) i x : nth_error l i = Some x -> update l i x = l.
Proof. revert i. induction l as [|a l IH]; intros [|i] H; cbn in *; try discriminate; [injection H as ->; reflexivity|rewrite IH by exact H; reflexivity]. Qed.

Lemma find_cat_some (l : list (cname * dest)) nm : forall i0 ci, find_cat l nm i0 = Some ci ->
  exists d, nth_error l (ci - i0) = Some (CFixed nm, d) /\ (i0 <= ci)%nat.
Proof.
  induction l as [|[c d] l IH]; intros i0 ci H; cbn [find_cat] in H; [discriminate|].
  destruct (cname_is c nm) eqn:E.
  - injection H as <-. rewrite Nat.sub_diag. destruct c as [t|]; cbn [cname_is] in E; [|discriminate]. apply str_eqb_eq in E. subst t.
    exists d. split; [reflexivity|lia].
  - destruct (IH _ _ H) as (d' & A & B). exists d'. split; [|lia]. replace (ci - i0)%nat with (S (ci - S i0)) by lia. exact A.
Qed.

(* ---------------------------------------------------------------- int(str(n)) = n *)
Lemma parse_dec_aux_app a b acc :
  parse_dec_aux (a ++ b) acc = match parse_dec_aux a acc with Some x => parse_dec_aux b x | None => None end.
Proof.
  revert acc. induction a as [|c a IH]; intros acc; cbn [app parse_dec_aux]; [reflexivity|].
  destruct ((48 <=? c) && (c <=? 57))%N; [apply IH|reflexivity].
Qed.

Lemma parse_dec_le l : Forall is_digit l -> parse_dec_aux (rev l) 0%N = Some (val_le l).
Proof.
  induction l as [|d l IH]; intros H; [reflexivity|]. inversion H as [|? ? Hd Hl]; subst. cbn [rev val_le].
  rewrite parse_dec_aux_app, (IH Hl). cbn [parse_dec_aux]. destruct Hd as [H1 H2].
  assert (E : ((48 <=? d) && (d <=? 57))%N = true) by (apply andb_true_iff; split; apply N.leb_le; assumption).
  rewrite E. f_equal. lia.
Qed.

Lemma parse_dec_of_N w : parse_dec (dec_of_N w) = Some w.
Proof.
  unfold parse_dec, dec_of_N. pose proof (dec_le_digits (S (N.to_nat w)) w) as Hd. pose proof (dec_le_val (S (N.to_nat w)) w ltac:(lia)) as Hv.
  rewrite (parse_dec_le _ Hd), Hv. destruct (rev (dec_le (S (N.to_nat w)) w)) eqn:E; [|reflexivity].
  exfalso. apply (f_equal (@rev N)) in E. rewrite rev_involutive in E. cbn [dec_le rev] in E. destruct (N.ltb w 10); discriminate.
Qed.

Section Switch.
Variable U : Type.
Variable ueqb : U -> U -> bool.
Hypothesis ueqb_spec : forall a b, ueqb a b = true <-> a = b.
Variable ustr : U -> str.
Variable strip : bool.
Hypothesis Hrep : repaired.
Notation P_loose := (rep_loose Hrep).
Notation P_cases := (rep_cases Hrep).
Notation P_save := (rep_save Hrep).
Notation P_group := (rep_group Hrep).

Variables (m : node U) (r : srouter U).
Hypothesis Hk : n_kind m = NRouter U KSwitch r.
Hypothesis Ha : n_actions m = [].
Hypothesis Hok : switch_ok U ueqb r = true.

Notation cats_all := (all_categories r).
Definition isg : bool := str_eqb (sw_operand r) groups_operand.

(* ---------------------------------------------------------------- what switch_ok says *)
Lemma sw_facts :
  sw_operand r <> [] /\ str_eqb (sw_operand r) child_status_operand = false /\ wait_ok U r = true
  /\ NoDup (map (@c_uuid U) cats_all)
  /\ (forall k, In k (sw_cases r) -> cat_in U ueqb (sw_cats r) (k_cat k) = true)
  /\ nodupb (case_sig_eqb U) (sw_cases r) = true
  /\ (if isg then (forall k, In k (sw_cases r) -> group_case_ok U k = true) /\ sw_wait r = None
      else (forall k, In k (sw_cases r) -> value_case_ok U k = true) /\ NoDup (map (@c_name U) (sw_cats r))
           /\ (sw_wait r <> None -> sw_cases r = [] -> sw_operand r = s_input_text)).
Proof.
  unfold switch_ok in Hok. fold isg in Hok.
  apply andb_true_iff in Hok as [H H7]. apply andb_true_iff in H as [H H6]. apply andb_true_iff in H as [H H5].
  apply andb_true_iff in H as [H H4]. apply andb_true_iff in H as [H H3]. apply andb_true_iff in H as [H1 H2].
  split; [destruct (sw_operand r); [discriminate|discriminate]|]. split; [apply negb_true_iff, H2|]. split; [exact H3|].
  split; [apply (nodupb_NoDup ueqb); [intros a b ->; apply ueqb_spec; reflexivity|exact H4]|].
  split; [intros k Hin; rewrite forallb_forall in H5; apply H5, Hin|]. split; [exact H6|].
  destruct isg.
  - apply andb_true_iff in H7 as [A B]. split; [intros k Hin; rewrite forallb_forall in A; apply A, Hin|]. destruct (sw_wait r); [discriminate|reflexivity].
  - apply andb_true_iff in H7 as [A C]. apply andb_true_iff in A as [A B]. split; [intros k Hin; rewrite forallb_forall in A; apply A, Hin|].
    split; [apply (nodupb_NoDup str_eqb); [intros a b ->; apply str_eqb_refl|exact B]|].
    intros Hw Hc. destruct (sw_wait r); [|contradiction]. rewrite Hc in C. apply str_eqb_eq, C.
Qed.

Lemma ueqb_r u : ueqb u u = true.
Proof. apply ueqb_spec. reflexivity. Qed.

(* ---------------------------------------------------------------- the category and the condition of a case *)
Definition catof (k : rcase U) : category U :=
  match cat_of_uuid U ueqb (sw_cats r) (k_cat k) with Some c => c | None => sw_default r end.

Lemma find_app_l {T} (p : T -> bool) l l' x : find p l = Some x -> find p (l ++ l') = Some x.
Proof. induction l as [|a l IH]; cbn [find app]; [discriminate|]. destruct (p a); [auto|exact IH]. Qed.

Lemma cat_of_case k : In k (sw_cases r) ->
  cat_of_uuid U ueqb cats_all (k_cat k) = Some (catof k) /\ In (catof k) (sw_cats r) /\ c_uuid (catof k) = k_cat k.
Proof.
  intros Hin. destruct sw_facts as (_ & _ & _ & _ & Hc & _). specialize (Hc k Hin). unfold cat_in in Hc. apply existsb_exists in Hc as (c & Hc & Hu).
  unfold catof, cat_of_uuid. destruct (find (fun c0 => ueqb (k_cat k) (c_uuid c0)) (sw_cats r)) as [c'|] eqn:Ef.
  - split; [unfold all_categories; apply find_app_l, Ef|]. apply find_some in Ef as [A B]. split; [exact A|]. apply ueqb_spec in B. symmetry. exact B.
  - exfalso. pose proof (find_none _ _ Ef c Hc) as Hn. cbv beta in Hn. congruence.
Qed.

Definition evVAL (k : rcase U) : str :=
  if isg then hd [] (k_args k) else if nab (k_type k) then [] else hd [] (k_args k).
Definition ccond (k : rcase U) (c : category U) : cond U :=
  if isg then {| cd_value := PS (evVAL k); cd_variable := []; cd_type := []; cd_name := [] |}
  else {| cd_value := PS (evVAL k); cd_variable := sw_operand r; cd_type := k_type k; cd_name := c_name c |}.

Lemma case_cond_ok k c : In k (sw_cases r) -> case_cond r k c = Ok (ccond k c).
Proof.
  intros Hin. destruct sw_facts as (_ & Hch & _ & _ & _ & _ & Hg). unfold case_cond, cond_arg, ccond, evVAL. fold isg. rewrite Hch.
  destruct isg eqn:Eg.
  - destruct Hg as [Hg _]. specialize (Hg k Hin). unfold group_case_ok in Hg. apply andb_true_iff in Hg as [Hg H3]. apply andb_true_iff in Hg as [H1 H2].
    cbn [orb]. unfold case_arg1. destruct (k_group k); [|discriminate]. destruct (k_args k) as [|g [|g' l]]; try discriminate. reflexivity.
  - destruct Hg as [Hg _]. specialize (Hg k Hin). unfold value_case_ok in Hg. apply andb_true_iff in Hg as [Hg H4]. apply andb_true_iff in Hg as [Hg H3].
    apply andb_true_iff in Hg as [H1 H2]. apply negb_true_iff in H2. cbn [orb]. rewrite H2, andb_false_r.
    change (mem_str (k_type k) no_args_tests) with (nab (k_type k)). destruct (nab (k_type k)); cbn [bind]; [reflexivity|].
    unfold case_arg0. destruct (k_group k); [discriminate|]. destruct (k_args k) as [|v [|v' l]]; try discriminate. reflexivity.
Qed.

Definition case_pair (last : tid U) (k : rcase U) : option U * edge U (tid U) :=
  (c_dest (catof k), {| e_from := last; e_cond := ccond k (catof k) |}).

Lemma case_pairs_all last : forall l covered, (forall k, In k l -> In k (sw_cases r)) ->
  case_pairs ueqb r last cats_all l covered = Ok (map (case_pair last) l, rev (map (fun k => c_uuid (catof k)) l) ++ covered).
Proof.
  induction l as [|k l IH]; intros covered Hl; cbn [case_pairs map rev app]; [reflexivity|].
  destruct (cat_of_case k (Hl k (or_introl eq_refl))) as (A & _ & _). unfold cat_of_uuid in A. rewrite A.
  rewrite (case_cond_ok k (catof k) (Hl k (or_introl eq_refl))). cbn [bind].
  rewrite IH by (intros k' Hk'; apply Hl; right; exact Hk'). cbn [bind fst snd]. rewrite <- app_assoc. reflexivity.
Qed.

Lemma default_not_case k : In k (sw_cases r) -> c_uuid (catof k) <> c_uuid (sw_default r).
Proof.
  intros Hin E. destruct (cat_of_case k Hin) as (_ & B & _). destruct sw_facts as (_ & _ & _ & Hnd & _).
  unfold all_categories in Hnd. rewrite map_app in Hnd. cbn [app map] in Hnd.
  apply NoDup_remove_2 in Hnd. apply Hnd. apply in_or_app. left. rewrite <- E. apply in_map, B.
Qed.

Lemma sw_pairs last : exit_edge_pairs ueqb m last =
  Ok (map (case_pair last) (sw_cases r) ++ [(c_dest (sw_default r), {| e_from := last; e_cond := no_cond |})] ++ noresp_pairs r last).
Proof.
  unfold exit_edge_pairs, switch_pairs. rewrite Hk, P_cases, (case_pairs_all last (sw_cases r) [] (fun k H => H)). cbn [bind fst snd].
  assert (E : mem_u ueqb (c_uuid (sw_default r)) (rev (map (fun k => c_uuid (catof k)) (sw_cases r)) ++ []) = false).
  { rewrite app_nil_r. unfold mem_u. destruct (existsb _ _) eqn:Ex; [|reflexivity]. apply existsb_exists in Ex as (u & Hu & Eu).
    apply in_rev in Hu. apply in_map_iff in Hu as (k & <- & Hin). apply ueqb_spec in Eu. exfalso. apply (default_not_case k Hin). symmetry. exact Eu. }
  rewrite E. reflexivity.
Qed.

(* ---------------------------------------------------------------- the row of the router *)
Definition swcls : eclass := match sw_wait r with Some _ => EWait | None => if isg then EGroup else ESplit end.
Definition swd0 : rdec :=
  match sw_wait r with Some w => dec_wait w (sw_result r) | None => dec_split (sw_operand r) (sw_result r) end.

Lemma isg_operand : isg = true -> sw_operand r = groups_operand.
Proof. unfold isg. apply str_eqb_eq. Qed.

Lemma sw_kwargs : exists tp q, node_kwargs m = Ok (Some (tp, q)) /\ is_node_type tp = true /\ abs_nkind U tp q = (swcls, [], Some swd0).
Proof.
  unfold node_kwargs, router_kwargs, swcls, swd0. rewrite Hk. fold isg. destruct sw_facts as (_ & _ & _ & _ & _ & _ & Hg).
  destruct (sw_wait r) as [w|] eqn:Ew; cbn [bind].
  - eexists. eexists. split; [reflexivity|]. split; [reflexivity|]. unfold abs_nkind. cbn [str_eqb N.eqb Pos.eqb andb t_wait].
    change (fld_s U _ (lit "save_name")) with (sw_result r).
    change (fld_s U _ (lit "no_response")) with (if N.eqb w 0 then [] else dec_of_N w). destruct (N.eqb w 0) eqn:E0.
    + apply N.eqb_eq in E0. subst w. reflexivity.
    + rewrite parse_dec_of_N. reflexivity.
  - destruct isg eqn:Eg.
    + destruct Hg as [Hg _]. pose proof (isg_operand Eg) as Eop.
      assert (Hab : forall q0 : pay U, abs_nkind U (lit "split_by_group") (q0 ++ split_save_name (sw_result r)) = (EGroup, [], Some (dec_split (sw_operand r) (sw_result r))) ->
                    forall a0 g0, q0 = [(lit "mainarg_groups", PL g0); (lit "obj_id", a0)] -> True) by auto.
      assert (Hn : forall g0 a0, abs_nkind U (lit "split_by_group") ([(lit "mainarg_groups", PL g0); (lit "obj_id", a0)] ++ split_save_name (sw_result r))
                                 = (EGroup, [], Some (dec_split (sw_operand r) (sw_result r)))).
      { intros g0 a0. unfold abs_nkind. cbn [str_eqb N.eqb Pos.eqb andb t_wait t_split_value t_split_group].
        assert (Ef : fld_s U ([(lit "mainarg_groups", PL g0); (lit "obj_id", a0)] ++ split_save_name (sw_result r)) (lit "save_name") = sw_result r).
        { unfold fld_s. cbn [app assoc_str str_eqb N.eqb Pos.eqb andb]. apply (save_name_fld U Hrep). }
        rewrite Ef, Eop. reflexivity. }
      destruct (sw_cases r) as [|k l] eqn:Ec.
      * rewrite P_group. eexists. eexists. split; [reflexivity|]. split; [reflexivity|]. apply Hn.
      * specialize (Hg k (or_introl eq_refl)). unfold group_case_ok in Hg. apply andb_true_iff in Hg as [Hg H3]. apply andb_true_iff in Hg as [H1 H2].
        unfold case_arg1, case_arg0. destruct (k_group k); [|discriminate]. destruct (k_args k) as [|g [|g' l']]; try discriminate.
        eexists. eexists. split; [reflexivity|]. split; [reflexivity|]. apply Hn.
    + eexists. eexists. split; [reflexivity|]. split; [reflexivity|]. unfold abs_nkind. cbn [str_eqb N.eqb Pos.eqb andb t_wait t_split_value].
      assert (Ef : fld_s U ([(lit "mainarg_expression", PS (sw_operand r))] ++ split_save_name (sw_result r)) (lit "save_name") = sw_result r).
      { unfold fld_s. cbn [app assoc_str str_eqb N.eqb Pos.eqb andb]. apply (save_name_fld U Hrep). }
      rewrite Ef. reflexivity.
Qed.

(* ---------------------------------------------------------------- what the cases look like *)
Lemma no_wait_when_groups : isg = true -> sw_wait r = None.
Proof. intros E. destruct sw_facts as (_ & _ & _ & _ & _ & _ & Hg). rewrite E in Hg. apply Hg. Qed.

Lemma group_facts k : isg = true -> In k (sw_cases r) ->
  k_type k = has_group_type /\ exists u g, k_group k = Some u /\ k_args k = [g] /\ g <> [] /\ is_no_response g = false.
Proof.
  intros E Hin. destruct sw_facts as (_ & _ & _ & _ & _ & _ & Hg). rewrite E in Hg. destruct Hg as [Hg _]. specialize (Hg k Hin).
  unfold group_case_ok in Hg. apply andb_true_iff in Hg as [Hg H3]. apply andb_true_iff in Hg as [H1 H2]. apply str_eqb_eq in H1. split; [exact H1|].
  destruct (k_group k) as [u|]; [|discriminate]. destruct (k_args k) as [|g [|g' l]]; try discriminate. apply andb_true_iff in H3 as [H3 H4].
  exists u, g. repeat split; [destruct g; [discriminate|discriminate]|apply negb_true_iff, H4].
Qed.

Lemma value_facts k : isg = false -> In k (sw_cases r) ->
  k_group k = None /\ str_eqb (k_type k) has_group_type = false /\ k_type k <> []
  /\ (if nab (k_type k) then k_args k = [] else exists v, k_args k = [v] /\ is_no_response v = false).
Proof.
  intros E Hin. destruct sw_facts as (_ & _ & _ & _ & _ & _ & Hg). rewrite E in Hg. destruct Hg as [Hg _]. specialize (Hg k Hin).
  unfold value_case_ok in Hg. apply andb_true_iff in Hg as [Hg H4]. apply andb_true_iff in Hg as [Hg H3]. apply andb_true_iff in Hg as [H1 H2].
  split; [destruct (k_group k); [discriminate|reflexivity]|]. split; [apply negb_true_iff, H2|]. split; [destruct (k_type k); [discriminate|discriminate]|].
  destruct (nab (k_type k)); [destruct (k_args k); [reflexivity|discriminate]|].
  destruct (k_args k) as [|v [|v' l]]; try discriminate. exists v. split; [reflexivity|apply negb_true_iff, H4].
Qed.

Lemma nab_has_group : nab has_group_s = false.
Proof. reflexivity. Qed.

(* the value of a case edge is not "no response" and its condition is not blank *)
Lemma evVAL_ok k : In k (sw_cases r) -> str_eqb (lower (evVAL k)) s_no_response = false.
Proof.
  intros Hin. unfold evVAL. destruct isg eqn:Eg.
  - destruct (group_facts k Eg Hin) as (_ & u & g & _ & Ea & _ & Hn). rewrite Ea. exact Hn.
  - destruct (value_facts k Eg Hin) as (_ & _ & _ & Hv). destruct (nab (k_type k)); [reflexivity|]. destruct Hv as (v & Ea & Hn). rewrite Ea. exact Hn.
Qed.

Lemma ccond_not_blank k c : In k (sw_cases r) -> RowSem.cond_blank (abs_cond U ustr (ccond k c)) = false.
Proof.
  intros Hin. unfold ccond, abs_cond. destruct isg eqn:Eg; cbn [cd_value cd_variable cd_type cd_name pv_str PS].
  - unfold evVAL. rewrite Eg. destruct (group_facts k Eg Hin) as (_ & u & g & _ & Ea & Hne & _). rewrite Ea. cbn [hd].
    unfold RowSem.cond_blank. cbn [c_value]. destruct g; [contradiction|reflexivity].
  - destruct sw_facts as (Hop & _). unfold RowSem.cond_blank. cbn [c_value c_variable c_type c_cname].
    destruct (evVAL k); [|reflexivity]. destruct (sw_operand r); [contradiction|reflexivity].
Qed.

(* ---------------------------------------------------------------- how the reference reads the edge of a case *)
Section Kp.
Variable kp : U -> nat.
Definition tof (c : category U) : dest := dest_of U kp (c_dest c).

Definition evOP (dd : rdec) : str := match sw_wait r with Some _ => sw_operand r | None => rd_operand dd end.
Definition evTY (k : rcase U) : str := if isg then has_group_s else k_type k.
Definition evARGS (k : rcase U) : list (option str) := if isg then [None; Some (evVAL k)] else [Some (evVAL k)].
Definition evNAME (k : rcase U) : str := if isg then [] else c_name (catof k).

Definition with_dec (N : rnode) (dd : rdec) : rnode := mkRNode (rn_actions N) (Some dd) (rn_cont N).

Lemma fL_case N dd k t : In k (sw_cases r) -> rn_dec N = Some dd ->
  fL U ustr swcls N (ccond k (catof k), t) = Some (with_dec N (add_case nab dd (evOP dd) (evTY k) (evVAL k) (evARGS k) (evNAME k) t)).
Proof.
  intros Hin Hd. unfold fL, apply_row_edge. cbn [fst snd]. rewrite (ccond_not_blank k _ Hin), Hd.
  assert (Ev : c_value (abs_cond U ustr (ccond k (catof k))) = evVAL k) by (unfold ccond; destruct isg; reflexivity).
  assert (Er : isg = false -> ref_args (abs_cond U ustr (ccond k (catof k))) = [Some (evVAL k)]).
  { intros Eg. destruct (value_facts k Eg Hin) as (_ & Hty & _). unfold ref_args. rewrite Ev. unfold ccond. rewrite Eg.
    cbn [abs_cond cd_type c_type]. change has_group_s with has_group_type. rewrite Hty. reflexivity. }
  rewrite Ev, (evVAL_ok k Hin). unfold swcls, evOP, evTY, evARGS, evNAME, with_dec.
  destruct (sw_wait r) as [w|] eqn:Ew.
  - assert (Eg : isg = false) by (destruct isg eqn:E; [rewrite (no_wait_when_groups E) in Ew; discriminate|reflexivity]).
    rewrite (Er Eg). unfold ccond. rewrite Eg. cbn [abs_cond cd_variable cd_type cd_name c_variable c_type c_cname].
    destruct sw_facts as (Hop & _). destruct (sw_operand r) as [|c0 op]; [contradiction|]. reflexivity.
  - destruct isg eqn:Eg; [|rewrite (Er eq_refl)]; unfold ccond; rewrite Eg; reflexivity.
Qed.

(* ---------------------------------------------------------------- folding the edges of the cases *)
Definition stored (k : rcase U) : list (option str) := if nab (evTY k) then [] else evARGS k.

Definition name_of (cn : cname) (c : category U) : Prop := match cn with CFixed t => t = c_name c | CWild => True end.

Definition cwf (x : cname * dest) : Prop :=
  match fst x with
  | CFixed nm => nm <> [] /\ exists c, In c (sw_cats r) /\ c_name c = nm /\ snd x = tof c
  | CWild => True
  end.

Definition crel (cats : list (cname * dest)) (e : str * list (option str) * nat) (k : rcase U) : Prop :=
  fst (fst e) = evTY k /\ snd (fst e) = stored k
  /\ exists x, nth_error cats (snd e) = Some x /\ name_of (fst x) (catof k) /\ snd x = tof (catof k).

Record CInv (P : list (rcase U)) (dd : rdec) : Prop := {
  ci_random : rd_random dd = false;
  ci_wait : rd_wait dd = rd_wait swd0;
  ci_result : rd_result dd = rd_result swd0;
  ci_default : rd_default dd = rd_default swd0;
  ci_noresp : rd_noresp dd = rd_noresp swd0;
  ci_operand : rd_operand dd = match P with [] => rd_operand swd0 | _ => sw_operand r end;
  ci_cases : Forall2 (crel (rd_cats dd)) (rd_cases dd) P;
  ci_cats : Forall cwf (rd_cats dd) }.

Lemma swd0_operand : sw_wait r = None -> rd_operand swd0 = sw_operand r.
Proof. intros E. unfold swd0. rewrite E. reflexivity. Qed.

Lemma new_op P dd : CInv P dd -> new_operand (rd_operand dd) (evOP dd) = sw_operand r.
Proof.
  intros Hi. unfold evOP, new_operand. destruct sw_facts as (Hop & _). destruct (sw_wait r) as [w|] eqn:Ew.
  - destruct (sw_operand r); [contradiction|reflexivity].
  - rewrite (ci_operand _ _ Hi). destruct P; [rewrite (swd0_operand Ew)|]; destruct (sw_operand r); try contradiction; reflexivity.
Qed.

Lemma evTY_ne k : In k (sw_cases r) -> evTY k <> [].
Proof.
  intros Hin. unfold evTY. destruct isg eqn:Eg; [discriminate|]. destruct (value_facts k Eg Hin) as (_ & _ & H & _). exact H.
Qed.

Lemma crel_mono cats extra e k : crel cats e k -> crel (cats ++ extra) e k.
Proof.
  intros (A & B & x & C & D). split; [exact A|]. split; [exact B|]. exists x. split; [|exact D].
  rewrite nth_error_app1; [exact C|]. apply nth_error_Some. congruence.
Qed.

Lemma ostr_list_eqb_eq a b : ostr_list_eqb a b = true -> a = b.
Proof.
  revert b. induction a as [|[x|] a IH]; intros [|[y|] b]; cbn [ostr_list_eqb]; try discriminate; [reflexivity| |].
  - intros H. apply andb_true_iff in H as [H1 H2]. apply str_eqb_eq in H1. rewrite H1, (IH b H2). reflexivity.
  - intros H. rewrite (IH b H). reflexivity.
Qed.

Lemma nodupb_app_false {T} (eqb : T -> T -> bool) P k rest x : nodupb eqb (P ++ k :: rest) = true -> In x P -> eqb x k = false.
Proof.
  induction P as [|y P IH]; intros H Hin; [contradiction|]. cbn [app nodupb] in H. apply andb_true_iff in H as [H1 H2]. destruct Hin as [->|Hin]; [|apply IH; assumption].
  apply negb_true_iff in H1. destruct (eqb x k) eqn:E; [|reflexivity]. assert (existsb (eqb x) (P ++ k :: rest) = true); [|congruence].
  apply existsb_exists. exists k. split; [apply in_or_app; right; left; reflexivity|exact E].
Qed.

Lemma strs_eqb_refl a : strs_eqb a a = true.
Proof. induction a as [|x a IH]; [reflexivity|]. cbn [strs_eqb]. rewrite str_eqb_refl, IH. reflexivity. Qed.

Lemma Forall2_In_left {A B} (R : A -> B -> Prop) l l' x : Forall2 R l l' -> In x l -> exists y, In y l' /\ R x y.
Proof.
  induction 1 as [|a b l l' Hab _ IH]; [intros []|]. intros [<-|Hin]; [exists b; split; [left; reflexivity|exact Hab]|].
  destruct (IH Hin) as (y & Hy & Hr). exists y. split; [right; exact Hy|exact Hr].
Qed.

(* no earlier case has the test of case k *)
Lemma fresh_case P k rest dd : sw_cases r = P ++ k :: rest -> CInv P dd ->
  find (fun e : str * list (option str) * nat => str_eqb (fst (fst e)) (evTY k) && ostr_list_eqb (snd (fst e)) (evARGS k)) (rd_cases dd) = None.
Proof.
  intros Ec Hi. destruct (find _ (rd_cases dd)) as [e|] eqn:Ef; [|reflexivity]. exfalso. apply find_some in Ef as [Hin He].
  apply andb_true_iff in He as [H1 H2]. apply str_eqb_eq in H1. apply ostr_list_eqb_eq in H2.
  destruct (Forall2_In_left _ _ _ _ (ci_cases _ _ Hi) Hin) as (k' & Hk' & (A & B & _)).
  assert (Hk'c : In k' (sw_cases r)) by (rewrite Ec; apply in_or_app; left; exact Hk').
  assert (Hkc : In k (sw_cases r)) by (rewrite Ec; apply in_or_app; right; left; reflexivity).
  destruct sw_facts as (_ & _ & _ & _ & _ & Hnd & _). rewrite Ec in Hnd. pose proof (nodupb_app_false _ _ _ _ _ Hnd Hk') as Hs.
  unfold case_sig_eqb in Hs. rewrite A in H1. rewrite B in H2. unfold stored, evTY, evARGS, evVAL in *. destruct isg eqn:Eg.
  - destruct (group_facts k' Eg Hk'c) as (T1 & u1 & g1 & _ & A1 & _). destruct (group_facts k Eg Hkc) as (T2 & u2 & g2 & _ & A2 & _).
    rewrite nab_has_group in H2. rewrite A1, A2 in H2. cbn [hd] in H2. injection H2 as H2. rewrite T1, T2, A1, A2, H2, str_eqb_refl, strs_eqb_refl in Hs. discriminate.
  - destruct (value_facts k' Eg Hk'c) as (_ & _ & _ & V1). destruct (value_facts k Eg Hkc) as (_ & _ & _ & V2). rewrite H1 in *.
    destruct (nab (k_type k)); [discriminate|]. destruct V1 as (v1 & A1 & _). destruct V2 as (v2 & A2 & _). rewrite A1, A2 in H2. cbn [hd] in H2. injection H2 as H2.
    rewrite A1, A2, H2, str_eqb_refl, strs_eqb_refl in Hs. discriminate.
Qed.

Lemma Forall2_snoc {A B} (R : A -> B -> Prop) l l' x y : Forall2 R l l' -> R x y -> Forall2 R (l ++ [x]) (l' ++ [y]).
Proof. intros H Hxy. apply Forall2_app; [exact H|constructor; [exact Hxy|constructor]]. Qed.

Lemma Forall2_weaken {A B} (R R' : A -> B -> Prop) l l' : (forall a b, R a b -> R' a b) -> Forall2 R l l' -> Forall2 R' l l'.
Proof. intros H. induction 1; constructor; auto. Qed.

Lemma catof_named k : In k (sw_cases r) -> In (catof k) (sw_cats r).
Proof. intros Hin. apply (cat_of_case k Hin). Qed.

Lemma names_inj c c' : isg = false -> In c (sw_cats r) -> In c' (sw_cats r) -> c_name c = c_name c' -> c = c'.
Proof.
  intros Eg Hc Hc' E. destruct sw_facts as (_ & _ & _ & _ & _ & _ & Hg). rewrite Eg in Hg. destruct Hg as (_ & Hnd & _).
  apply (NoDup_map_eq (@c_name U) (sw_cats r) c c' Hnd Hc Hc' E).
Qed.

Lemma cinv_step P k rest dd : sw_cases r = P ++ k :: rest -> CInv P dd ->
  CInv (P ++ [k]) (add_case nab dd (evOP dd) (evTY k) (evVAL k) (evARGS k) (evNAME k) (tof (catof k))).
Proof.
  intros Ec Hi. assert (Hkc : In k (sw_cases r)) by (rewrite Ec; apply in_or_app; right; left; reflexivity).
  pose proof (fresh_case P k rest dd Ec Hi) as Hfresh. pose proof (new_op P dd Hi) as Hop. pose proof (evTY_ne k Hkc) as Hty.
  destruct Hi as [I1 I2 I3 I4 I5 I6 I7 I8].
  assert (Hnil : match P ++ [k] with [] => rd_operand swd0 | _ :: _ => sw_operand r end = sw_operand r) by (destruct P; reflexivity).
  unfold add_case. destruct (evTY k) as [|c0 ty] eqn:Ety; [contradiction|].
  cbn [rd_random rd_operand rd_wait rd_result rd_cases rd_cats rd_default rd_noresp]. rewrite Hfresh, Hop.
  fold (stored k). assert (Est : (if nab (c0 :: ty) then [] else evARGS k) = stored k) by (unfold stored; rewrite Ety; reflexivity). rewrite Est.
  destruct (evNAME k) as [|n0 nm] eqn:Enm.
  - (* a category the sheet does not name *)
    constructor; cbn [rd_random rd_operand rd_wait rd_result rd_cases rd_cats rd_default rd_noresp]; try assumption; [exact (eq_sym Hnil)| |].
    + apply Forall2_snoc; [eapply Forall2_weaken; [|exact I7]; intros a b; apply crel_mono|].
      split; [exact (eq_sym Ety)|]. split; [reflexivity|]. eexists. cbn [fst snd]. split; [rewrite nth_error_app2, Nat.sub_diag by lia; reflexivity|].
      split; [exact I|reflexivity].
    + apply Forall_app. split; [exact I8|constructor; [exact I|constructor]].
  - assert (Eg : isg = false) by (unfold evNAME in Enm; destruct isg; [discriminate|reflexivity]).
    assert (Ecn : c_name (catof k) = n0 :: nm) by (unfold evNAME in Enm; rewrite Eg in Enm; exact Enm).
    destruct (find_cat (rd_cats dd) (n0 :: nm) 0) as [ci|] eqn:Efc.
    + (* the category of an earlier case *)
      destruct (find_cat_some _ _ _ _ Efc) as (d & Hn & _). rewrite Nat.sub_0_r in Hn.
      assert (Hd : d = tof (catof k)).
      { rewrite Forall_forall in I8. pose proof (I8 _ (nth_error_In _ _ Hn)) as Hw. unfold cwf in Hw. cbn [fst snd] in Hw.
        destruct Hw as (_ & c & Hc & Hcn & Hcd). rewrite Hcd. f_equal. apply (names_inj c (catof k) Eg Hc (catof_named k Hkc)). congruence. }
      assert (Esame : set_cat_dest (rd_cats dd) ci (tof (catof k)) = rd_cats dd).
      { unfold set_cat_dest. rewrite Hn. apply update_same. rewrite Hn, Hd. reflexivity. }
      rewrite Esame.
      constructor; cbn [rd_random rd_operand rd_wait rd_result rd_cases rd_cats rd_default rd_noresp]; try assumption; [exact (eq_sym Hnil)|].
      apply Forall2_snoc; [exact I7|]. split; [exact (eq_sym Ety)|]. split; [reflexivity|]. exists (CFixed (n0 :: nm), d). cbn [fst snd].
      split; [exact Hn|]. split; [symmetry; exact Ecn|exact Hd].
    + (* a new named category *)
      constructor; cbn [rd_random rd_operand rd_wait rd_result rd_cases rd_cats rd_default rd_noresp]; try assumption; [exact (eq_sym Hnil)| |].
      * apply Forall2_snoc; [eapply Forall2_weaken; [|exact I7]; intros a b; apply crel_mono|].
        split; [exact (eq_sym Ety)|]. split; [reflexivity|]. eexists. cbn [fst snd]. split; [rewrite nth_error_app2, Nat.sub_diag by lia; reflexivity|].
        split; [symmetry; exact Ecn|reflexivity].
      * apply Forall_app. split; [exact I8|constructor; [|constructor]]. unfold cwf. cbn [fst snd]. split; [discriminate|].
        exists (catof k). split; [apply (catof_named k Hkc)|]. split; [exact Ecn|reflexivity].
Qed.

(* ---------------------------------------------------------------- the three kinds of edges *)
Definition cev (k : rcase U) : cond U * dest := (ccond k (catof k), tof (catof k)).
Definition N0 : rnode := mkRNode [] (Some swd0) DNone.

Lemma cinv0 : CInv [] swd0.
Proof.
  constructor; try reflexivity.
  - unfold swd0. destruct (sw_wait r); cbn; reflexivity.
  - unfold swd0. destruct (sw_wait r); cbn; constructor.
  - unfold swd0. destruct (sw_wait r); cbn; constructor.
Qed.

Lemma fold_cases : forall rest P dd N, sw_cases r = P ++ rest -> CInv P dd -> rn_dec N = Some dd ->
  exists dd', fold_opt (fL U ustr swcls) (map cev rest) N = Some (with_dec N dd') /\ CInv (sw_cases r) dd'.
Proof.
  induction rest as [|k rest IH]; intros P dd N Ec Hi Hd.
  - rewrite app_nil_r in Ec. rewrite Ec. exists dd. split; [|exact Hi]. cbn [map]. unfold fold_opt. cbn [fold_left]. unfold with_dec. destruct N; cbn in *. rewrite Hd. reflexivity.
  - assert (Hkc : In k (sw_cases r)) by (rewrite Ec; apply in_or_app; right; left; reflexivity).
    cbn [map]. unfold fold_opt. cbn [fold_left]. change (cev k) with (ccond k (catof k), tof (catof k)). rewrite (fL_case N dd k _ Hkc Hd).
    destruct (IH (P ++ [k]) (add_case nab dd (evOP dd) (evTY k) (evVAL k) (evARGS k) (evNAME k) (tof (catof k)))
                 (with_dec N (add_case nab dd (evOP dd) (evTY k) (evVAL k) (evARGS k) (evNAME k) (tof (catof k))))) as (dd' & A & B).
    + rewrite <- app_assoc. exact Ec.
    + apply (cinv_step P k rest dd Ec Hi).
    + reflexivity.
    + exists dd'. split; [|exact B]. exact A.
Qed.

Lemma swcls_cases : swcls = EWait \/ swcls = ESplit \/ swcls = EGroup.
Proof. unfold swcls. destruct (sw_wait r); [auto|]. destruct isg; auto. Qed.

Lemma fL_default N dd t : rn_dec N = Some dd -> fL U ustr swcls N (no_cond, t) = Some (with_dec N (set_default dd t)).
Proof. intros Hd. unfold fL, apply_row_edge. cbn [fst snd]. rewrite Hd. destruct swcls_cases as [E|[E|E]]; rewrite E; reflexivity. Qed.

Lemma fL_noresp N dd nm t : rn_dec N = Some dd -> str_eqb (lower nm) s_no_response = true ->
  fL U ustr swcls N (value_cond nm, t) = Some (noresp_edge N dd t).
Proof.
  intros Hd Hn. unfold fL, apply_row_edge. cbn [fst snd abs_cond value_cond cd_value cd_variable cd_type cd_name pv_str PS c_value]. rewrite Hd, Hn.
  assert (Hb : RowSem.cond_blank (abs_cond U ustr (@value_cond U nm)) = false) by (destruct nm; [discriminate|reflexivity]). rewrite Hb.
  destruct swcls_cases as [E|[E|E]]; rewrite E; reflexivity.
Qed.

(* ---------------------------------------------------------------- which pairs are kept, which are sensitive *)
Lemma sw_keep : nkeep U m = true.
Proof. unfold nkeep, has_free_cases. rewrite Hk, P_loose. reflexivity. Qed.

Lemma ccond_not_blank' k c : In k (sw_cases r) -> cond_blank (ccond k c) = false.
Proof.
  intros Hin. unfold ccond, cond_blank. destruct isg eqn:Eg; cbn [cd_value cd_variable cd_type cd_name PS].
  - unfold evVAL. rewrite Eg. destruct (group_facts k Eg Hin) as (_ & u & g & _ & Ea & Hne & _). rewrite Ea. cbn [hd]. destruct g; [contradiction|reflexivity].
  - destruct sw_facts as (Hop & _). destruct (sw_operand r); [contradiction|]. cbn [nonempty negb]. rewrite !andb_false_r. destruct (evVAL k); reflexivity.
Qed.

Lemma case_kept last k : In k (sw_cases r) -> kept U m (case_pair last k) = true.
Proof. intros Hin. unfold kept, case_pair. cbn [fst snd e_cond]. destruct (c_dest (catof k)); [reflexivity|]. rewrite sw_keep, (ccond_not_blank' k _ Hin). reflexivity. Qed.

Lemma case_sens k : In k (sw_cases r) -> sens U m (ccond k (catof k)) = true.
Proof.
  intros Hin. unfold sens. rewrite Hk. unfold cond_is_blank. rewrite (ccond_not_blank' k _ Hin). cbn [negb andb].
  assert (Ev : cd_value (ccond k (catof k)) = PS (evVAL k)) by (unfold ccond; destruct isg; reflexivity). rewrite Ev. unfold PS.
  unfold is_no_response. rewrite (evVAL_ok k Hin). reflexivity.
Qed.

Lemma default_sens : sens U m (@no_cond U) = false.
Proof. unfold sens. rewrite Hk. reflexivity. Qed.

Lemma noresp_name cn : sw_noresp r = Some cn -> c_name cn = s_NoResponse.
Proof.
  intros E. destruct sw_facts as (_ & _ & Hw & _). unfold wait_ok in Hw. rewrite E in Hw. destruct (sw_wait r); [|discriminate].
  apply andb_true_iff in Hw as [_ Hw]. apply str_eqb_eq, Hw.
Qed.

Lemma noresp_sens cn : sw_noresp r = Some cn -> sens U m (value_cond (c_name cn)) = false.
Proof. intros E. unfold sens. rewrite Hk, (noresp_name cn E). reflexivity. Qed.

(* ---------------------------------------------------------------- the default and the No Response edge commute with the rest *)
Definition set_nr (d : rdec) (t : dest) : rdec :=
  match rd_noresp d with
  | Some (nm, _) => mkDec (rd_random d) (rd_operand d) (rd_wait d) (rd_result d) (rd_cases d) (rd_cats d) (rd_default d) (Some (nm, t))
  | None => d
  end.

Lemma with_dec_same N dd : rn_dec N = Some dd -> with_dec N dd = N.
Proof. intros H. unfold with_dec. destruct N; cbn in *. rewrite H. reflexivity. Qed.

Lemma noresp_edge_nr N dd t : rn_dec N = Some dd -> noresp_edge N dd t = with_dec N (set_nr dd t).
Proof. intros H. unfold noresp_edge, set_nr. destruct (rd_noresp dd) as [[nm x]|]; [reflexivity|]. symmetry. apply with_dec_same, H. Qed.

Lemma add_case_default d t op ty v args nm t' : add_case nab (set_default d t) op ty v args nm t' = set_default (add_case nab d op ty v args nm t') t.
Proof.
  unfold add_case, set_default. cbn [rd_random rd_operand rd_wait rd_result rd_cases rd_cats rd_default rd_noresp].
  destruct (find _ (rd_cases d)) as [[[a b] ci]|]; [reflexivity|]. destruct nm; [reflexivity|]. destruct (find_cat (rd_cats d) _ 0); reflexivity.
Qed.

Lemma add_case_nr d t op ty v args nm t' : add_case nab (set_nr d t) op ty v args nm t' = set_nr (add_case nab d op ty v args nm t') t.
Proof.
  destruct (rd_noresp d) as [[n0 x]|] eqn:En.
  - assert (E : set_nr d t = mkDec (rd_random d) (rd_operand d) (rd_wait d) (rd_result d) (rd_cases d) (rd_cats d) (rd_default d) (Some (n0, t)))
      by (unfold set_nr; rewrite En; reflexivity).
    rewrite E. unfold add_case. cbn [rd_random rd_operand rd_wait rd_result rd_cases rd_cats rd_default rd_noresp].
    destruct (find _ (rd_cases d)) as [[[a b] ci]|]; [unfold set_nr; cbn [rd_random rd_operand rd_wait rd_result rd_cases rd_cats rd_default rd_noresp]; rewrite En; reflexivity|].
    destruct nm; [unfold set_nr; cbn [rd_random rd_operand rd_wait rd_result rd_cases rd_cats rd_default rd_noresp]; rewrite En; reflexivity|].
    destruct (find_cat (rd_cats d) _ 0); unfold set_nr; cbn [rd_random rd_operand rd_wait rd_result rd_cases rd_cats rd_default rd_noresp]; rewrite En; reflexivity.
  - assert (E : set_nr d t = d) by (unfold set_nr; rewrite En; reflexivity). rewrite E. unfold add_case.
    cbn [rd_random rd_operand rd_wait rd_result rd_cases rd_cats rd_default rd_noresp].
    destruct (find _ (rd_cases d)) as [[[a b] ci]|]; [unfold set_nr; cbn [rd_noresp]; rewrite En; reflexivity|].
    destruct nm; [unfold set_nr; cbn [rd_noresp]; rewrite En; reflexivity|].
    destruct (find_cat (rd_cats d) _ 0); unfold set_nr; cbn [rd_noresp]; rewrite En; reflexivity.
Qed.

Lemma default_nr d t t' : set_default (set_nr d t) t' = set_nr (set_default d t') t.
Proof. unfold set_default, set_nr. destruct (rd_noresp d) as [[n0 x]|] eqn:En; cbn [rd_random rd_operand rd_wait rd_result rd_cases rd_cats rd_default rd_noresp]; rewrite ?En; reflexivity. Qed.

Lemma evOP_default d t : evOP (set_default d t) = evOP d.
Proof. reflexivity. Qed.
Lemma evOP_nr d t : evOP (set_nr d t) = evOP d.
Proof. unfold evOP, set_nr. destruct (rd_noresp d) as [[n0 x]|]; reflexivity. Qed.

(* the kinds of edges *)
Inductive xkind : cond U * dest -> Prop :=
| XCase k : In k (sw_cases r) -> xkind (cev k)
| XDefault : xkind (no_cond, tof (sw_default r))
| XNoresp cn : sw_noresp r = Some cn -> xkind (value_cond (c_name cn), tof cn).

Definition hasdec (N : rnode) : Prop := exists dd, rn_dec N = Some dd.

Lemma fL_kind N x : xkind x -> hasdec N -> exists dd dd', rn_dec N = Some dd /\ fL U ustr swcls N x = Some (with_dec N dd').
Proof.
  intros Hx (dd & Hd). exists dd. destruct Hx as [k Hin| |cn Hcn].
  - eexists. split; [exact Hd|]. apply (fL_case N dd k _ Hin Hd).
  - eexists. split; [exact Hd|]. apply (fL_default N dd _ Hd).
  - eexists. split; [exact Hd|]. rewrite (fL_noresp N dd _ _ Hd) by (rewrite (noresp_name cn Hcn); reflexivity). f_equal. apply (noresp_edge_nr N dd _ Hd).
Qed.

Lemma wd_dec N d : rn_dec (with_dec N d) = Some d.
Proof. reflexivity. Qed.
Lemma wd_wd N d d' : with_dec (with_dec N d) d' = with_dec N d'.
Proof. reflexivity. Qed.

Lemma comm_default N y : xkind y -> hasdec N ->
  step2 _ _ (fL U ustr swcls) N (no_cond, tof (sw_default r)) y = step2 _ _ (fL U ustr swcls) N y (no_cond, tof (sw_default r)).
Proof.
  intros Hy (dd & Hd). unfold step2, obind. rewrite (fL_default N dd _ Hd). destruct Hy as [k Hin| |cn Hcn].
  - unfold cev. rewrite (fL_case (with_dec N _) _ k _ Hin (wd_dec N _)), (fL_case N dd k _ Hin Hd), (fL_default (with_dec N _) _ _ (wd_dec N _)).
    rewrite !wd_wd, evOP_default, add_case_default. reflexivity.
  - rewrite (fL_default N dd _ Hd). reflexivity.
  - assert (Hl : str_eqb (lower (c_name cn)) s_no_response = true) by (rewrite (noresp_name cn Hcn); reflexivity).
    rewrite (fL_noresp (with_dec N _) _ _ _ (wd_dec N _) Hl), (fL_noresp N dd _ _ Hd Hl), (noresp_edge_nr (with_dec N _) _ _ (wd_dec N _)), (noresp_edge_nr N dd _ Hd),
            (fL_default (with_dec N _) _ _ (wd_dec N _)).
    rewrite !wd_wd, default_nr. reflexivity.
Qed.

Lemma comm_noresp N cn y : sw_noresp r = Some cn -> xkind y -> hasdec N ->
  step2 _ _ (fL U ustr swcls) N (value_cond (c_name cn), tof cn) y = step2 _ _ (fL U ustr swcls) N y (value_cond (c_name cn), tof cn).
Proof.
  intros Hcn Hy (dd & Hd). unfold step2, obind.
  assert (Hl : str_eqb (lower (c_name cn)) s_no_response = true) by (rewrite (noresp_name cn Hcn); reflexivity).
  rewrite (fL_noresp N dd _ _ Hd Hl), (noresp_edge_nr N dd _ Hd). destruct Hy as [k Hin| |cn' Hcn'].
  - unfold cev. rewrite (fL_case (with_dec N _) _ k _ Hin (wd_dec N _)), (fL_case N dd k _ Hin Hd), (fL_noresp (with_dec N _) _ _ _ (wd_dec N _) Hl),
            (noresp_edge_nr (with_dec N _) _ _ (wd_dec N _)).
    rewrite !wd_wd, evOP_nr, add_case_nr. reflexivity.
  - rewrite (fL_default (with_dec N _) _ _ (wd_dec N _)), (fL_default N dd _ Hd), (fL_noresp (with_dec N _) _ _ _ (wd_dec N _) Hl), (noresp_edge_nr (with_dec N _) _ _ (wd_dec N _)).
    rewrite !wd_wd, default_nr. reflexivity.
  - assert (cn' = cn) by congruence. subst cn'. rewrite (fL_noresp N dd _ _ Hd Hl), (noresp_edge_nr N dd _ Hd). reflexivity.
Qed.

(* ---------------------------------------------------------------- all the edges, in the order of the pairs *)
Definition dflt_ev : list (cond U * dest) :=
  match c_dest (sw_default r) with Some _ => [(no_cond, tof (sw_default r))] | None => [] end.
Definition nr_ev : list (cond U * dest) :=
  match sw_noresp r with
  | Some cn => match c_dest cn with Some _ => [(value_cond (c_name cn), tof cn)] | None => [] end
  | None => []
  end.

Lemma sw_X sn prs : exit_edge_pairs ueqb m (last_row_id m sn) = Ok prs -> Xabs U kp m prs = map cev (sw_cases r) ++ dflt_ev ++ nr_ev.
Proof.
  rewrite sw_pairs. intros H. injection H as <-. unfold Xabs. rewrite !filter_app, !map_app.
  change ((c_dest (sw_default r), {| e_from := last_row_id m sn; e_cond := no_cond |}) :: noresp_pairs r (last_row_id m sn))
    with ([(c_dest (sw_default r), {| e_from := last_row_id m sn; e_cond := @no_cond U |})] ++ noresp_pairs r (last_row_id m sn)).
  rewrite filter_app, map_app.
  assert (E1 : map (fun p : option U * edge U (tid U) => (e_cond (snd p), dest_of U kp (fst p)))
                   (filter (kept U m) (map (case_pair (last_row_id m sn)) (sw_cases r))) = map cev (sw_cases r)).
  { rewrite filter_all_true by (intros p Hp; apply in_map_iff in Hp as (k & <- & Hin); apply (case_kept _ k Hin)). rewrite map_map. reflexivity. }
  assert (E2 : map (fun p : option U * edge U (tid U) => (e_cond (snd p), dest_of U kp (fst p)))
                   (filter (kept U m) [(c_dest (sw_default r), {| e_from := last_row_id m sn; e_cond := no_cond |})]) = dflt_ev).
  { unfold dflt_ev, kept. cbn [filter fst snd e_cond]. destruct (c_dest (sw_default r)) eqn:Ed; cbn [map fst snd e_cond]; [unfold tof; rewrite Ed; reflexivity|].
    assert (E : cond_blank (@no_cond U) = true) by reflexivity. rewrite E, andb_false_r. reflexivity. }
  assert (E3 : map (fun p : option U * edge U (tid U) => (e_cond (snd p), dest_of U kp (fst p)))
                   (filter (kept U m) (noresp_pairs r (last_row_id m sn))) = nr_ev).
  { unfold nr_ev, noresp_pairs. destruct (sw_noresp r) as [cn|]; [|reflexivity]. destruct (c_dest cn) eqn:Ed; [|rewrite P_loose; reflexivity].
    unfold kept. cbn [filter map fst snd e_cond]. unfold tof. rewrite Ed. reflexivity. }
  rewrite E1, E2, E3. reflexivity.
Qed.

Lemma X_kinds x : In x (map cev (sw_cases r) ++ dflt_ev ++ nr_ev) -> xkind x.
Proof.
  intros H. apply in_app_or in H as [H|H]; [apply in_map_iff in H as (k & <- & Hin); apply (XCase k Hin)|]. apply in_app_or in H as [H|H].
  - unfold dflt_ev in H. destruct (c_dest (sw_default r)); [|contradiction]. destruct H as [<-|[]]. apply XDefault.
  - unfold nr_ev in H. destruct (sw_noresp r) as [cn|] eqn:En; [|contradiction]. destruct (c_dest cn); [|contradiction]. destruct H as [<-|[]]. apply (XNoresp cn En).
Qed.

Definition dflt_step (dd : rdec) : rdec := match c_dest (sw_default r) with Some _ => set_default dd (tof (sw_default r)) | None => dd end.
Definition nr_step (dd : rdec) : rdec :=
  match sw_noresp r with
  | Some cn => match c_dest cn with Some _ => set_nr dd (tof cn) | None => dd end
  | None => dd
  end.

Lemma sw_fold : exists dd1, CInv (sw_cases r) dd1 /\
  fold_opt (fL U ustr swcls) (map cev (sw_cases r) ++ dflt_ev ++ nr_ev) N0 = Some (with_dec N0 (nr_step (dflt_step dd1))).
Proof.
  destruct (fold_cases (sw_cases r) [] swd0 N0 eq_refl cinv0 eq_refl) as (dd1 & A & B). exists dd1. split; [exact B|].
  rewrite fold_opt_app, A. cbv iota beta. rewrite fold_opt_app.
  assert (E2 : fold_opt (fL U ustr swcls) dflt_ev (with_dec N0 dd1) = Some (with_dec N0 (dflt_step dd1))).
  { unfold dflt_ev, dflt_step. destruct (c_dest (sw_default r)); [|reflexivity]. unfold fold_opt. cbn [fold_left]. rewrite (fL_default _ _ _ (wd_dec N0 dd1)). reflexivity. }
  rewrite E2. cbv iota beta. unfold nr_ev, nr_step. destruct (sw_noresp r) as [cn|] eqn:En; [|reflexivity]. destruct (c_dest cn); [|reflexivity].
  unfold fold_opt. cbn [fold_left]. rewrite (fL_noresp _ _ _ _ (wd_dec N0 _)) by (rewrite (noresp_name cn En); reflexivity).
  rewrite (noresp_edge_nr _ _ _ (wd_dec N0 _)). reflexivity.
Qed.

(* ---------------------------------------------------------------- the reference decision reads like the router *)
Ltac steps_proj := unfold nr_step, dflt_step, set_nr, set_default;
  destruct (sw_noresp r) as [cn|]; [destruct (c_dest cn)|]; destruct (c_dest (sw_default r)); cbn [rd_noresp];
  try match goal with |- context [rd_noresp ?d] => destruct (rd_noresp d) as [[? ?]|] end; reflexivity.

Lemma steps_random dd : rd_random (nr_step (dflt_step dd)) = rd_random dd. Proof. steps_proj. Qed.
Lemma steps_operand dd : rd_operand (nr_step (dflt_step dd)) = rd_operand dd. Proof. steps_proj. Qed.
Lemma steps_wait dd : rd_wait (nr_step (dflt_step dd)) = rd_wait dd. Proof. steps_proj. Qed.
Lemma steps_result dd : rd_result (nr_step (dflt_step dd)) = rd_result dd. Proof. steps_proj. Qed.
Lemma steps_cases dd : rd_cases (nr_step (dflt_step dd)) = rd_cases dd. Proof. steps_proj. Qed.
Lemma steps_cats dd : rd_cats (nr_step (dflt_step dd)) = rd_cats dd. Proof. steps_proj. Qed.

Lemma steps_default dd : rd_default dd = wild0 -> rd_default (nr_step (dflt_step dd)) = (CWild, tof (sw_default r)).
Proof.
  intros H. unfold nr_step, dflt_step, set_nr, set_default, tof. destruct (sw_noresp r) as [cn|]; [destruct (c_dest cn)|];
    destruct (c_dest (sw_default r)); cbn [rd_noresp rd_default]; try (destruct (rd_noresp dd) as [[? ?]|]); cbn [rd_default dest_of]; rewrite H; reflexivity.
Qed.

Lemma steps_noresp dd cn nm : sw_noresp r = Some cn -> rd_noresp dd = Some (nm, DNone) -> rd_noresp (nr_step (dflt_step dd)) = Some (nm, tof cn).
Proof.
  intros E H. unfold nr_step, dflt_step, set_nr, set_default, tof. rewrite E. destruct (c_dest cn); destruct (c_dest (sw_default r)); cbn [rd_noresp dest_of]; rewrite H; reflexivity.
Qed.

Lemma sw_sim dn sn dd1 : CInv (sw_cases r) dd1 ->
  (forall d e, In (Some d, e) (map (case_pair (last_row_id m sn)) (sw_cases r) ++ [(c_dest (sw_default r), {| e_from := last_row_id m sn; e_cond := no_cond |})]
                              ++ noresp_pairs r (last_row_id m sn)) -> In d dn) ->
  switch_sim U ueqb ustr dn kp r (nr_step (dflt_step dd1)).
Proof.
  intros Hi Hdn. destruct Hi as [I1 I2 I3 I4 I5 I6 I7 I8]. destruct sw_facts as (Hop & Hch & Hw & Hnd & Hcat & Hsig & Hg).
  assert (Hdk : forall k, In k (sw_cases r) -> dest_ok U dn (c_dest (catof k))).
  { intros k Hin d' Ed. apply (Hdn d' {| e_from := last_row_id m sn; e_cond := ccond k (catof k) |}). apply in_or_app. left. apply in_map_iff. exists k.
    unfold case_pair. rewrite Ed. auto. }
  constructor.
  - rewrite steps_random. exact I1.
  - rewrite steps_operand, I6. destruct (sw_cases r) as [|k0 l] eqn:Ec; [|reflexivity]. unfold swd0. destruct (sw_wait r) as [w|] eqn:Ew; [|reflexivity].
    destruct isg eqn:Eg; [rewrite (no_wait_when_groups Eg) in Ew; discriminate|]. destruct Hg as (_ & _ & Hg). symmetry. apply Hg; [discriminate|reflexivity].
  - rewrite steps_result, I3. unfold swd0. destruct (sw_wait r); reflexivity.
  - rewrite steps_cases. eapply Forall2_weaken; [|apply Forall2_and_in; exact I7].
    intros e k [Hin (A & B & x & C & D & E)]. cbv beta in Hin. destruct (cat_of_case k Hin) as (F1 & F2 & F3).
    split; [|split].
    + rewrite A. unfold evTY. destruct isg eqn:Eg; [|reflexivity]. destruct (group_facts k Eg Hin) as (T & _). rewrite T. reflexivity.
    + rewrite B. unfold stored, evTY, evARGS, evVAL, case_args. destruct isg eqn:Eg.
      * destruct (group_facts k Eg Hin) as (T & u & g & G1 & G2 & _). rewrite nab_has_group, T, G1, G2. reflexivity.
      * destruct (value_facts k Eg Hin) as (V1 & V2 & _ & V4). rewrite V2. destruct (nab (k_type k)); [rewrite V4; reflexivity|].
        destruct V4 as (v & V4 & _). rewrite V4. reflexivity.
    + exists x, (catof k). split; [|split; [exact F1|]].
      * unfold all_cats. rewrite steps_random, I1, steps_cats. apply nth_error_app1_some. exact C.
      * split; [|split; [exact E|apply (Hdk k Hin)]]. destruct (fst x); cbn [name_ok name_of] in *; [exact D|exact I].
  - rewrite (steps_default dd1) by (rewrite I4; unfold swd0; destruct (sw_wait r); reflexivity). split; [exact I|]. split; [reflexivity|].
    intros d' Ed. apply (Hdn d' {| e_from := last_row_id m sn; e_cond := no_cond |}). apply in_or_app. right. left. rewrite Ed. reflexivity.
  - apply (cat_find_self U ueqb ueqb_spec cats_all (sw_default r) Hnd). unfold all_categories. apply in_or_app. right. left. reflexivity.
  - unfold wait_sim, wait_of. rewrite steps_wait, I2. unfold wait_ok in Hw. unfold swd0. destruct (sw_wait r) as [w|] eqn:Ew; [|reflexivity].
    destruct (sw_noresp r) as [cn|] eqn:En.
    + apply andb_true_iff in Hw as [Hw1 Hw2]. apply negb_true_iff in Hw1. rewrite Hw1. apply str_eqb_eq in Hw2.
      assert (Ewd : rd_wait (dec_wait w (sw_result r)) = WTimeout w [] /\ rd_noresp (dec_wait w (sw_result r)) = Some (CFixed s_NoResponse, DNone)).
      { unfold dec_wait. destruct w; [discriminate|split; reflexivity]. }
      destruct Ewd as [E1 E2]. exists [], (CFixed s_NoResponse, tof cn), cn. split; [exact E1|].
      split; [apply (steps_noresp dd1 cn (CFixed s_NoResponse) En); rewrite I5; unfold swd0; rewrite Ew; exact E2|]. split; [reflexivity|].
      split; [apply (cat_find_self U ueqb ueqb_spec cats_all cn Hnd); unfold all_categories; rewrite En; apply in_or_app; right; right; left; reflexivity|].
      split; [cbn [fst name_ok]; symmetry; exact Hw2|]. split; [reflexivity|].
      intros d' Ed. apply (Hdn d' {| e_from := last_row_id m sn; e_cond := value_cond (c_name cn) |}). apply in_or_app. right. right. unfold noresp_pairs. rewrite En, Ed. left. reflexivity.
    + rewrite Hw. apply N.eqb_eq in Hw. subst w. reflexivity.
Qed.

End Kp.

(* ---------------------------------------------------------------- the conditions of the cases are pairwise distinct *)
Definition ccondK (k : rcase U) : cond U := ccond k (catof k).

Lemma ccond_sig k k' : In k (sw_cases r) -> In k' (sw_cases r) -> ccondK k = ccondK k' -> case_sig_eqb U k k' = true.
Proof.
  intros Hk1 Hk2 E. unfold ccondK, ccond, evVAL, case_sig_eqb in *. destruct isg eqn:Eg.
  - destruct (group_facts k Eg Hk1) as (T1 & u1 & g1 & _ & A1 & _). destruct (group_facts k' Eg Hk2) as (T2 & u2 & g2 & _ & A2 & _).
    rewrite A1, A2 in E. cbn [hd] in E. injection E as E. rewrite T1, T2, A1, A2, E, str_eqb_refl, strs_eqb_refl. reflexivity.
  - injection E as E1 E2 E3. destruct (value_facts k Eg Hk1) as (_ & _ & _ & V1). destruct (value_facts k' Eg Hk2) as (_ & _ & _ & V2).
    rewrite E2 in *. destruct (nab (k_type k')).
    + rewrite V1, V2, str_eqb_refl. reflexivity.
    + destruct V1 as (v1 & A1 & _). destruct V2 as (v2 & A2 & _). rewrite A1, A2 in *. cbn [hd] in E1. rewrite E1, str_eqb_refl, strs_eqb_refl. reflexivity.
Qed.

Lemma ccond_nodup : NoDup (map ccondK (sw_cases r)).
Proof.
  destruct sw_facts as (_ & _ & _ & _ & _ & Hsig & _).
  assert (G : forall l, (forall k, In k l -> In k (sw_cases r)) -> nodupb (case_sig_eqb U) l = true -> NoDup (map ccondK l)).
  { induction l as [|k l IH]; intros Hl Hn; [constructor|]. cbn [nodupb] in Hn. apply andb_true_iff in Hn as [H1 H2]. cbn [map]. constructor.
    - intros Hin. apply in_map_iff in Hin as (k' & E & Hk'). apply negb_true_iff in H1.
      assert (existsb (case_sig_eqb U k) l = true); [|congruence]. apply existsb_exists. exists k'. split; [exact Hk'|].
      apply ccond_sig; [apply Hl; left; reflexivity|apply Hl; right; exact Hk'|symmetry; exact E].
    - apply IH; [intros k' Hk'; apply Hl; right; exact Hk'|exact H2]. }
  apply G; auto.
Qed.

Theorem switch_good : node_good U ueqb ustr strip m.
Proof.
  destruct sw_kwargs as (tp & q & Hkw & Htp & Hnk).
  split; [apply (router_runnable U strip m tp q Ha Hkw Htp)|]. intros sn prs Hsn Hp.
  pose proof (sw_pairs (last_row_id m sn)) as Hp'. rewrite Hp in Hp'. injection Hp' as Eprs.
  destruct (all_acts_router U m tp q _ _ Ha Hkw Hnk) as [Ei Ec].
  split; [|split].
  - intros p Hin Hs. rewrite Eprs in Hin. apply in_app_or in Hin as [Hin|Hin].
    + apply in_map_iff in Hin as (k & <- & Hk'). apply (case_kept _ k Hk').
    + destruct Hin as [<-|Hin]; [cbn [snd e_cond] in Hs; rewrite default_sens in Hs; discriminate|].
      unfold noresp_pairs in Hin. destruct (sw_noresp r) as [cn|] eqn:En; [|contradiction].
      assert (Hs' : forall p', p' = (c_dest cn, {| e_from := last_row_id m sn; e_cond := value_cond (c_name cn) |}) -> sens U m (e_cond (snd p')) = false)
        by (intros p' ->; apply (noresp_sens cn En)).
      destruct (c_dest cn); [destruct Hin as [<-|[]]; rewrite (Hs' _ eq_refl) in Hs; discriminate|].
      rewrite P_loose in Hin. contradiction.
  - assert (Eprs' : prs = map (case_pair (last_row_id m sn)) (sw_cases r) ++ [(c_dest (sw_default r), {| e_from := last_row_id m sn; e_cond := @no_cond U |})]
                          ++ noresp_pairs r (last_row_id m sn)) by exact Eprs.
    rewrite Eprs', !map_app, !filter_app.
    assert (E1 : filter (sens U m) (map (fun p : option U * edge U (tid U) => e_cond (snd p)) (map (case_pair (last_row_id m sn)) (sw_cases r))) = map ccondK (sw_cases r)).
    { rewrite map_map. apply filter_all_true. intros c Hc. apply in_map_iff in Hc as (k & <- & Hk'). apply (case_sens k Hk'). }
    assert (E2 : filter (sens U m) (map (fun p : option U * edge U (tid U) => e_cond (snd p)) [(c_dest (sw_default r), {| e_from := last_row_id m sn; e_cond := no_cond |})]) = []).
    { cbn [map filter snd e_cond]. rewrite default_sens. reflexivity. }
    assert (E3 : filter (sens U m) (map (fun p : option U * edge U (tid U) => e_cond (snd p)) (noresp_pairs r (last_row_id m sn))) = []).
    { unfold noresp_pairs. destruct (sw_noresp r) as [cn|] eqn:En; [|reflexivity].
      destruct (c_dest cn); [|rewrite P_loose; reflexivity]. cbn [map filter snd e_cond]. rewrite (noresp_sens cn En). reflexivity. }
    rewrite E1, E2, E3, !app_nil_r. apply ccond_nodup.
  - intros kp dn Hdn. rewrite Ei, Ec. exists hasdec. rewrite (sw_X kp sn prs Hp).
    split; [exists swd0; reflexivity|]. split; [|split].
    + intros a y b Hy Ha' Hb. destruct (fL_kind kp a y (X_kinds kp y Hy) Ha') as (dd & dd' & _ & E). rewrite E in Hb. injection Hb as <-. exists dd'. reflexivity.
    + intros x y Hx Hy Hs a Ha'. destruct (X_kinds kp x Hx) as [k Hk'| |cn Hcn].
      * unfold cev in Hs. cbn [fst] in Hs. rewrite (case_sens k Hk') in Hs. discriminate.
      * apply (comm_default kp a y (X_kinds kp y Hy) Ha').
      * apply (comm_noresp kp a cn y Hcn (X_kinds kp y Hy) Ha').
    + destruct (sw_fold kp) as (dd1 & Hi & Hf). eexists. split; [exact Hf|].
      apply (NS_switch U ueqb ustr dn kp m _ KSwitch r (nr_step kp (dflt_step kp dd1)) Hk); [rewrite Ha; reflexivity|reflexivity|].
      apply (sw_sim kp dn sn dd1 Hi). intros d e Hd. apply (Hdn d e). rewrite Eprs. exact Hd.
Qed.

End Switch.
