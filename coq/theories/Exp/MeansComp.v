(* C04 — corollary: the round trip over the models.  On the intersection of the family of to_rows_means_flow_partial with the
   fragment of C02 (Comp/Refine.v: fragb), the flow compiled from the exported rows (compiler model Comp/Compile.v) and the
   original flow are both trace-equal, up to the names the sheet does not fix, to ONE reference flow: the meaning of the rows.
   This file is the only one of Exp/ that depends on Comp/ (which is still moving): it only composes the two theorems. *)
From Coq Require Import String.
From Coq Require Import List NArith Bool Arith.
From RPFT Require Import Base.Sexp Base.PyStr Base.SexpEq Base.Result Gen.Tables Flow.Lts Flow.Flow Flow.FlowFacts Flow.RowSem
     Comp.Compile Comp.Refine Comp.RefineExamples Exp.FlatSem Exp.ToRows Exp.Means Exp.MeansFamily Exp.MeansTheorem.
Import ListNotations.

Section Comp.
Variable U : Type.
Variable ustr : U -> str.

(* which constructor FlowParser._get_row_node selects for an exported row (harness/comp_corr.py: kind_sexp) *)
Definition kind_of (r : ToRows.row U str) : Compile.nkind :=
  let tp := ToRows.r_type r in
  let p := ToRows.r_pay r in
  let sv := fld_s U p (lit "save_name") in
  if str_eqb tp t_send_message || str_eqb tp t_save_value || str_eqb tp t_add_to_group || str_eqb tp t_remove_from_group
     || str_eqb tp t_save_flow_result then Compile.KBasic2
  else if str_eqb tp t_wait then Compile.KWait (match parse_dec (fld_s U p (lit "no_response")) with Some t => t | None => 0%N end) sv
  else if str_eqb tp t_split_value then Compile.KSplitValue (fld_s U p (lit "mainarg_expression")) sv
  else if str_eqb tp t_split_group then Compile.KSplitGroup sv
  else if str_eqb tp t_split_random then Compile.KRandom sv
  else if str_eqb tp t_start_new_flow then Compile.KEnterFlow (fld_s U p (lit "mainarg_flow_name"))
  else if str_eqb tp t_call_webhook then Compile.KWebhook sv
  else if str_eqb tp t_transfer_airtime then Compile.KAirtime sv
  else Compile.KBasic1.

(* the exported rows as the compiler model takes them: the `_nodeId` column is the row's node name (input encoding of
   Comp/Refine.v: row_okb); with strip_uuids no `_nodeId` is given *)
Definition crow_of (strip : bool) (r : ToRows.row U str) : crow :=
  mkCRow (abs_row U ustr strip r) (kind_of r) (abs_name U ustr strip r).
Definition crows_of (strip : bool) (rows : list (ToRows.row U str)) : list crow := map (crow_of strip) rows.

Lemma crows_rows strip rows : map cr_row (crows_of strip rows) = abs_rows U ustr strip rows.
Proof. unfold crows_of, abs_rows. rewrite map_map. reflexivity. Qed.
End Comp.

Theorem roundtrip_model_partial :
  loose_exit_rows = true -> pairs_follow_cases = true -> split_rows_carry_save_name = true -> group_split_without_cases_exports = true ->
  compile_checks_node_uuids = true ->
  forall (U : Type) (ueqb : U -> U -> bool), (forall a b, ueqb a b = true <-> a = b) ->
  forall (ustr : U -> str), (forall a b, ustr a = ustr b -> a = b) -> (forall a, ustr a <> []) ->
  forall numbered strip_uuids (ns : list (ToRows.node U)) rows name f,
    exportable U ueqb ns = true -> (strip_uuids = true -> single_rows U ns = true) ->
    to_rows ueqb numbered ns = Ok rows -> fragb (crows_of U ustr strip_uuids rows) = true ->
    compile std_fresh name (crows_of U ustr strip_uuids rows) = Ok f ->
    exists ref, rowsem Means.nab (abs_rows U ustr strip_uuids rows) = Some ref
      /\ (forall t, traces (flow_of U ustr ns) t -> exists t', traces ref t' /\ Forall2 (ematch sexp (fun a b => smatch b a)) t t')
      /\ (forall t, traces ref t -> exists t', traces (flow_of U ustr ns) t' /\ Forall2 (ematch sexp smatch) t t')
      /\ (forall t, traces ref t -> exists t', traces f t' /\ Forall2 (ematch sexp smatch) t t')
      /\ (forall t, traces f t -> exists t', traces ref t' /\ Forall2 (ematch sexp (fun a b => smatch b a)) t t').
Proof.
  intros P1 P2 P3 P4 Pc U ueqb Hu ustr Hi Hn nb strip ns rows name f He Hs Hrows Hfr Hf.
  destruct (to_rows_means_flow_partial P1 P2 P3 P4 U ueqb Hu ustr Hi Hn nb strip ns He Hs rows Hrows) as (ref & A & B & C).
  exists ref. split; [exact A|]. split; [exact B|]. split; [exact C|].
  apply (compile_refines_rowsem_std name (crows_of U ustr strip rows) f ref Pc Hfr Hf). rewrite crows_rows. exact A.
Qed.

(* non-vacuity: a chain with a cycle and a group split lies in both families, compiles, and the statement's premises hold -
   without node names (strip_uuids) and with them; with them also for a node of two actions (two rows merged through the
   node name: ex_cycle) *)
Definition ex_group_cat (u : N) (nm : string) (d : option N) : ToRows.category N := {| ToRows.c_uuid := u; ToRows.c_name := lit_fn nm; ToRows.c_dest := d |}.
Definition ex_rt : list (ToRows.node N) :=
  [ ex_msg 1 "one" (Some 2%N);
    {| ToRows.n_uuid := 2%N; ToRows.n_actions := []; n_ui := None;
       n_kind := NRouter N KSwitch
         {| ToRows.sw_operand := lit "@contact.groups"; ToRows.sw_result := []; ToRows.sw_wait := None;
            ToRows.sw_cases := [{| ToRows.k_type := lit "has_group"; k_group := Some 77%N; ToRows.k_args := [lit "testers"]; ToRows.k_cat := 21%N |}];
            ToRows.sw_cats := [ex_group_cat 21 "testers" (Some 3%N)];
            ToRows.sw_default := ex_group_cat 22 "Other" (Some 1%N); sw_noresp := None |} |};
    ex_msg 3 "three" None ].

Definition rt_outcome (strip : bool) (ns : list (ToRows.node N)) : option (bool * bool * nat) :=
  match to_rows N.eqb true ns with
  | Ok rows => match compile std_fresh (lit "f") (crows_of N ustrN strip rows) with
               | Ok f => Some (exportable N N.eqb ns && (negb strip || single_rows N ns), fragb (crows_of N ustrN strip rows), List.length (f_nodes f))
               | Err _ => None
               end
  | Err _ => None
  end.

Lemma ex_rt_facts : if all_repairs then rt_outcome true ex_rt = Some (true, true, 3%nat) else True.
Proof. vm_compute. first [exact I | reflexivity]. Qed.

Lemma ex_rt_named_facts :
  if all_repairs then rt_outcome false ex_rt = Some (true, true, 3%nat) /\ rt_outcome false ex_cycle = Some (true, true, 3%nat) else True.
Proof. vm_compute. first [exact I | split; reflexivity]. Qed.
