(* C04 — the flat reference reading (Exp/FlatSem.v) of an exported sheet, row group by row group.
   Result (run_sheet): the reading succeeds, it makes one reference node per exported node of the flow (numbered in the
   order of their first rows), and the node of m is
       the fold of apply_row_edge over the edges that leave the last row of m, IN SHEET ORDER,
       starting from the node that carries all the actions of m and the initial decision of its first row. *)
From Coq Require Import String.
From Coq Require Import List NArith Bool Arith Lia Permutation.
From RPFT Require Import Base.Sexp Base.PyStr Base.PyStrFacts Base.SexpEq Base.Result Gen.Tables Flow.Lts Flow.Flow Flow.RowSem
     Exp.FlatSem Exp.ToRows Exp.RowIdFacts Exp.Means Exp.MeansDfs Exp.MeansDfsFacts.
Import ListNotations.

Opaque no_args_tests short_types strip_excluded frm_field_headers.
Opaque loose_exit_rows pairs_follow_cases has_group_case_by_name split_rows_carry_save_name group_split_without_cases_exports.

(* ---------------------------------------------------------------- folds in the option monad *)
Definition fold_opt {A X} (f : A -> X -> option A) (l : list X) (a : A) : option A :=
  fold_left (fun o x => match o with Some n => f n x | None => None end) l (Some a).

Lemma fold_opt_none {A X} (f : A -> X -> option A) (l : list X) :
  fold_left (fun o x => match o with Some n => f n x | None => None end) l None = None.
Proof. induction l as [|x l IH]; [reflexivity|exact IH]. Qed.

Lemma fold_opt_app {A X} (f : A -> X -> option A) (l1 l2 : list X) (a : A) :
  fold_opt f (l1 ++ l2) a = match fold_opt f l1 a with Some b => fold_opt f l2 b | None => None end.
Proof.
  unfold fold_opt. rewrite fold_left_app. destruct (fold_left _ l1 (Some a)); [reflexivity|apply fold_opt_none].
Qed.

Lemma fold_opt_snoc {A X} (f : A -> X -> option A) (l : list X) (x : X) (a : A) :
  fold_opt f (l ++ [x]) a = match fold_opt f l a with Some b => f b x | None => None end.
Proof. rewrite fold_opt_app. destruct (fold_opt f l a); reflexivity. Qed.

Lemma fold_opt_prefix {A X} (f : A -> X -> option A) (l1 l2 : list X) (a : A) :
  fold_opt f (l1 ++ l2) a <> None -> fold_opt f l1 a <> None.
Proof. rewrite fold_opt_app. destruct (fold_opt f l1 a); [discriminate|auto]. Qed.

Section Run.
Variable U : Type.
Variable ueqb : U -> U -> bool.
Hypothesis ueqb_spec : forall a b, ueqb a b = true <-> a = b.
Variable ustr : U -> str.
Hypothesis ustr_inj : forall a b, ustr a = ustr b -> a = b.
Hypothesis ustr_ne : forall a, ustr a <> [].
Variable nodes : list (node U).
Variable strip : bool.

Notation tidU := (tid U).
Notation trow := (row U (tid U)).
Notation fnode := (find_node ueqb nodes).
Notation ev := (edge U (tid U) * option (tid U))%type.
Notation teqb := (tid_eqb ueqb).
Notation fabs := (fabs_row U ustr strip).
Notation events := (events U).
Notation nrows m := (Nat.max 1 (List.length (n_actions m))).

Lemma ueqb_refl u : ueqb u u = true.
Proof. apply ueqb_spec. reflexivity. Qed.
Lemma ueqb_false u v : u <> v -> ueqb u v = false.
Proof. intros H. destruct (ueqb u v) eqn:E; [apply ueqb_spec in E; contradiction|reflexivity]. Qed.
Lemma teqb_refl (t : tidU) : teqb t t = true.
Proof. apply (tid_eqb_eq U ueqb ueqb_spec). reflexivity. Qed.
Lemma teqb_true (a b : tidU) : teqb a b = true -> a = b.
Proof. apply (tid_eqb_eq U ueqb ueqb_spec). Qed.
Lemma teqb_false (a b : tidU) : a <> b -> teqb a b = false.
Proof. intros H. destruct (teqb a b) eqn:E; [apply teqb_true in E; contradiction|reflexivity]. Qed.

(* ---------------------------------------------------------------- how the reference reading sees the rows of a node *)
Definition row_tp (m : node U) (j : nat) : option (str * pay U) :=
  match n_actions m with
  | [] => match j with
          | O => match node_kwargs m with Ok (Some (tp, q)) => Some (tp, node_base_pay m ++ q) | _ => None end
          | S _ => None
          end
  | acts => match nth_error acts j with
            | Some a => match action_fields a with Ok (tp, q) => Some (tp, node_base_pay m ++ q) | Err _ => None end
            | None => None
            end
  end.
Definition nk (m : node U) (j : nat) : eclass * list sexp * option rdec :=
  match row_tp m j with Some (tp, p) => abs_nkind U tp p | None => (EAction, [], None) end.
Definition cls_of (m : node U) : eclass := fst (fst (nk m 0)).
Definition dec0_of (m : node U) : option rdec := snd (nk m 0).
Definition acts_at (m : node U) (j : nat) : list sexp := snd (fst (nk m j)).
Definition all_acts (m : node U) : list sexp := flat_map (acts_at m) (seq 0 (nrows m)).
Definition init_node (m : node U) : rnode := mkRNode (all_acts m) (dec0_of m) DNone.

(* what the section needs to know about a node: its rows are node rows; rows after the first carry an action (so that
   they are merged through the node name: RowSem.merge_actions); without node names (strip_uuids) it has one row *)
Definition is_node_type (tp : str) : bool := negb (str_eqb tp t_go_to) && negb (str_eqb tp t_loose_exit).
Definition runnable (m : node U) : Prop :=
  (forall j, (j < nrows m)%nat -> exists tp p, row_tp m j = Some (tp, p) /\ is_node_type tp = true)
  /\ (forall j, (0 < j < nrows m)%nat -> merge_actions (fst (fst (nk m j))) (acts_at m j) <> [])
  /\ (strip = true -> nrows m = 1%nat).

Lemma node_row_tp m sn j es r : node_row U m sn j es r -> row_tp m j = Some (r_type r, r_pay r).
Proof.
  intros (_ & Hc & _ & _). unfold row_tp. destruct Hc as [(a & q & H1 & H2 & H3)|(H1 & H2 & q & H3 & H4)].
  - destruct (n_actions m) as [|a0 rest] eqn:Ea; [destruct j; discriminate|]. rewrite H1, H2, H3. reflexivity.
  - rewrite H1, H2, H3, H4. reflexivity.
Qed.

(* ---------------------------------------------------------------- numbering of the exported nodes *)
Definition first_of (r : trow) : list U :=
  match r_id r with
  | TNode u s => match fnode u with
                 | Some m => match short_name m with Ok sn => if str_eqb s sn then [u] else [] | Err _ => [] end
                 | None => []
                 end
  | _ => []
  end.
Definition firsts (l : list trow) : list U := flat_map first_of l.

Fixpoint idx (l : list U) (u : U) : nat :=
  match l with [] => O | x :: r => if ueqb x u then O else S (idx r u) end.

Lemma idx_app_l l l' u : In u l -> idx (l ++ l') u = idx l u.
Proof.
  induction l as [|x l IH]; [intros []|]. intros [H|H]; cbn [app idx].
  - subst. rewrite ueqb_refl. reflexivity.
  - destruct (ueqb x u); [reflexivity|]. rewrite IH by exact H. reflexivity.
Qed.

Lemma idx_app_r l l' u : ~ In u l -> idx (l ++ l') u = (List.length l + idx l' u)%nat.
Proof.
  induction l as [|x l IH]; intros H; cbn [app idx List.length]; [reflexivity|].
  rewrite ueqb_false by (intros E; apply H; left; exact E). rewrite IH by (intros E; apply H; right; exact E). reflexivity.
Qed.

Lemma idx_lt l u : In u l -> (idx l u < List.length l)%nat.
Proof.
  induction l as [|x l IH]; [intros []|]. intros H. cbn [idx List.length]. destruct (ueqb x u) eqn:E; [lia|].
  destruct H as [H|H]; [subst; rewrite ueqb_refl in E; discriminate|]. apply IH in H. lia.
Qed.

Lemma idx_inj l u v : In u l -> In v l -> idx l u = idx l v -> u = v.
Proof.
  induction l as [|x l IH]; [intros []|]. intros Hu Hv. cbn [idx].
  destruct (ueqb x u) eqn:Eu, (ueqb x v) eqn:Ev; try discriminate.
  - intros _. apply ueqb_spec in Eu, Ev. congruence.
  - intros H. injection H as H. apply IH; [| |exact H].
    + destruct Hu as [Hu|Hu]; [subst; rewrite ueqb_refl in Eu; discriminate|exact Hu].
    + destruct Hv as [Hv|Hv]; [subst; rewrite ueqb_refl in Ev; discriminate|exact Hv].
Qed.

Lemma firsts_app a b : firsts (a ++ b) = firsts a ++ firsts b.
Proof. unfold firsts. apply flat_map_app. Qed.

Lemma first_of_in r u : In u (first_of r) -> exists m sn, fnode u = Some m /\ short_name m = Ok sn /\ r_id r = TNode u sn.
Proof.
  unfold first_of. destruct (r_id r) as [|u' s|k s]; try (intros []).
  destruct (fnode u') as [m|] eqn:Ef; [|intros []]. destruct (short_name m) as [sn|] eqn:Es; [|intros []].
  destruct (str_eqb s sn) eqn:E; [|intros []]. intros [H|[]]. subst u'. apply str_eqb_eq in E. subst s. exists m, sn. auto.
Qed.

Lemma firsts_in l u : In u (firsts l) -> exists r m sn, In r l /\ fnode u = Some m /\ short_name m = Ok sn /\ r_id r = TNode u sn.
Proof.
  unfold firsts. intros H. apply in_flat_map in H as (r & Hr & Hu). destruct (first_of_in r u Hu) as (m & sn & A & B & C).
  exists r, m, sn. auto.
Qed.

Lemma firsts_nodup l : NoDup (map (@r_id U tidU) l) -> NoDup (firsts l).
Proof.
  induction l as [|r l IH]; intros H; cbn [firsts flat_map]; [constructor|]. inversion H as [|? ? Hn Hl]; subst.
  apply (NoDup_app_intro); [| apply IH, Hl |].
  - unfold first_of. destruct (r_id r) as [|u s|k s]; try constructor. destruct (fnode u); [|constructor].
    destruct (short_name n); [|constructor]. destruct (str_eqb s v); constructor; [intros []|constructor].
  - intros u Hu Hu'. destruct (first_of_in r u Hu) as (m & sn & A & B & C).
    destruct (firsts_in l u Hu') as (r' & m' & sn' & A' & B' & C' & D'). apply Hn. rewrite C.
    assert (m' = m) by congruence. subst m'. assert (sn' = sn) by congruence. subst sn'. rewrite <- D'. apply in_map, A'.
Qed.

(* ---------------------------------------------------------------- RowSem.update *)
Lemma update_length {X} (l : list X) k x : List.length (update l k x) = List.length l.
Proof. revert k. induction l as [|a l IH]; intros [|k]; cbn; auto. Qed.
Lemma update_nth_same {X} (l : list X) k x : (k < List.length l)%nat -> nth_error (update l k x) k = Some x.
Proof. revert k. induction l as [|a l IH]; intros [|k] H; cbn in *; try lia; [reflexivity|apply IH; lia]. Qed.
Lemma update_nth_other {X} (l : list X) k i x : i <> k -> nth_error (update l k x) i = nth_error l i.
Proof. revert k i. induction l as [|a l IH]; intros [|k] [|i] H; cbn; try reflexivity; try contradiction. apply IH. lia. Qed.

(* ---------------------------------------------------------------- the sheet *)
Variable rows : list trow.
Hypothesis Hnd : NoDup (map (@r_id U tidU) rows).

Definition kap (u : U) : nat := idx (firsts rows) u.
Definition tgt_dest (o : option tidU) : dest := match o with Some (TNode u _) => DNode (kap u) | _ => DNone end.
Definition aev (x : ev) : econd * dest := (abs_cond U ustr (e_cond (fst x)), tgt_dest (snd x)).
Definition evs_from (E : list ev) (t : tidU) : list (econd * dest) :=
  map aev (filter (fun x => teqb (e_from (fst x)) t) E).
Definition napply (cls : eclass) (n : rnode) (x : econd * dest) : option rnode := apply_row_edge nab n cls (fst x) (snd x).
Definition nfinal (E : list ev) (m : node U) (sn : str) : option rnode :=
  fold_opt (napply (cls_of m)) (evs_from E (last_row_id m sn)) (init_node m).

Lemma evs_from_app E1 E2 t : evs_from (E1 ++ E2) t = evs_from E1 t ++ evs_from E2 t.
Proof. unfold evs_from. rewrite filter_app, map_app. reflexivity. Qed.

Lemma nfinal_prefix E1 E2 m sn : nfinal (E1 ++ E2) m sn <> None -> nfinal E1 m sn <> None.
Proof. unfold nfinal. rewrite evs_from_app. apply fold_opt_prefix. Qed.

Lemma nfinal_snoc E x m sn :
  nfinal (E ++ [x]) m sn =
  if teqb (e_from (fst x)) (last_row_id m sn)
  then match nfinal E m sn with Some N => napply (cls_of m) N (aev x) | None => None end
  else nfinal E m sn.
Proof.
  unfold nfinal. rewrite evs_from_app. unfold evs_from at 2. cbn [filter].
  destruct (teqb (e_from (fst x)) (last_row_id m sn)); cbn [map]; [apply fold_opt_snoc|rewrite app_nil_r; reflexivity].
Qed.

Lemma last_row_id_inj m sn m' sn' :
  fnode (n_uuid m) = Some m -> fnode (n_uuid m') = Some m' -> last_row_id m sn = last_row_id m' sn' -> m = m'.
Proof. intros H1 H2 E. unfold last_row_id in E. injection E as E _. apply (fnode_inj U ueqb nodes _ _ H1 H2 E). Qed.

Lemma kap_inj a b u v : rows = a ++ b -> In u (firsts a) -> In v (firsts a) -> kap u = kap v -> u = v.
Proof.
  intros E Hu Hv. unfold kap. rewrite E, firsts_app. apply idx_inj; apply in_or_app; left; assumption.
Qed.

Lemma kap_lt a b u : rows = a ++ b -> In u (firsts a) -> (kap u < List.length (firsts a))%nat.
Proof. intros E Hu. unfold kap. rewrite E, firsts_app, idx_app_l by exact Hu. apply idx_lt, Hu. Qed.

(* the nodes made so far carry the edges read so far *)
Definition R4 (a : list trow) (E : list ev) (s : @fstate tidU) : Prop :=
  forall m sn, fnode (n_uuid m) = Some m -> short_name m = Ok sn -> In (n_uuid m) (firsts a) ->
    nth_error (fs_nodes s) (kap (n_uuid m)) = nfinal E m sn /\ nfinal E m sn <> None.

(* an edge that can be applied: it comes from "start" or from the last row of an exported node, which is registered *)
Definition src_ok (a : list trow) (s : @fstate tidU) (e : edge U tidU) : Prop :=
  e_from e = TStart \/
  exists m sn, fnode (n_uuid m) = Some m /\ short_name m = Ok sn /\ In (n_uuid m) (firsts a)
               /\ e_from e = last_row_id m sn /\ flook teqb (fs_rowmap s) (e_from e) = Some (kap (n_uuid m), cls_of m).

Lemma apply_edges a b tgt : rows = a ++ b -> forall es E1 s,
  R4 a E1 s -> Forall (src_ok a s) es ->
  (forall m sn, fnode (n_uuid m) = Some m -> short_name m = Ok sn -> In (n_uuid m) (firsts a) ->
                nfinal (E1 ++ map (fun e => (e, tgt)) es) m sn <> None) ->
  exists s', fapply_all teqb nab s (map (fabs_edge U ustr) es) (tgt_dest tgt) = Some s'
             /\ fs_rowmap s' = fs_rowmap s /\ fs_names s' = fs_names s /\ List.length (fs_nodes s') = List.length (fs_nodes s)
             /\ R4 a (E1 ++ map (fun e => (e, tgt)) es) s'
             /\ (forall i, (List.length (firsts a) <= i)%nat -> nth_error (fs_nodes s') i = nth_error (fs_nodes s) i).
Proof.
  intros Erows. unfold fapply_all. induction es as [|e es IH]; intros E1 s H4 Hsrc Hsucc; cbn [map fold_left].
  - exists s. rewrite app_nil_r. split; [reflexivity|]. split; [reflexivity|]. split; [reflexivity|]. split; [reflexivity|]. split; [exact H4|]. intros; reflexivity.
  - inversion Hsrc as [|? ? He Hes]; subst.
    assert (Eapp : forall l, E1 ++ (e, tgt) :: l = (E1 ++ [(e, tgt)]) ++ l) by (intros l; rewrite <- app_assoc; reflexivity).
    assert (Hstep : exists s1, fapply teqb nab s (fabs_edge U ustr e) (tgt_dest tgt) = Some s1
                     /\ fs_rowmap s1 = fs_rowmap s /\ fs_names s1 = fs_names s /\ List.length (fs_nodes s1) = List.length (fs_nodes s)
                     /\ R4 a (E1 ++ [(e, tgt)]) s1
                     /\ (forall i, (List.length (firsts a) <= i)%nat -> nth_error (fs_nodes s1) i = nth_error (fs_nodes s) i)).
    { unfold fapply. cbn [fabs_edge fe_from fe_cond]. destruct He as [He|(m & sn & Hm & Hsn & Hin & He & Hl)].
      - rewrite He. cbn [fabs_from]. exists s. split; [reflexivity|]. split; [reflexivity|]. split; [reflexivity|]. split; [reflexivity|]. split; [|intros; reflexivity].
        intros m0 sn0 Hm0 Hsn0 Hin0. rewrite nfinal_snoc. cbn [fst]. rewrite He.
        cbn [tid_eqb last_row_id]. apply (H4 m0 sn0 Hm0 Hsn0 Hin0).
      - assert (Hff : fabs_from U (e_from e) = FFRow (e_from e)) by (rewrite He; reflexivity). rewrite Hff, Hl.
        destruct (H4 m sn Hm Hsn Hin) as [Hn Hne]. rewrite Hn.
        destruct (nfinal E1 m sn) as [N|] eqn:EN; [|contradiction].
        pose proof (Hsucc m sn Hm Hsn Hin) as Hs1. cbn [map] in Hs1. rewrite Eapp in Hs1. apply nfinal_prefix in Hs1.
        rewrite nfinal_snoc in Hs1. cbn [fst] in Hs1. rewrite He, teqb_refl, EN in Hs1. unfold napply, aev in Hs1. cbn [fst snd] in Hs1.
        destruct (apply_row_edge nab N (cls_of m) (abs_cond U ustr (e_cond e)) (tgt_dest tgt)) as [N'|] eqn:EN'; [|contradiction].
        eexists. split; [reflexivity|]. cbn [fs_rowmap fs_names fs_nodes]. split; [reflexivity|]. split; [reflexivity|]. split; [apply update_length|]. split.
        + intros m' sn' Hm' Hsn' Hin'. rewrite nfinal_snoc. cbn [fst]. rewrite He.
          destruct (teqb (last_row_id m sn) (last_row_id m' sn')) eqn:Et.
          * apply teqb_true in Et. pose proof (last_row_id_inj _ _ _ _ Hm Hm' Et) as <-. assert (sn' = sn) by congruence. subst sn'.
            rewrite EN. unfold napply, aev. cbn [fst snd]. rewrite EN'. split; [|discriminate].
            apply update_nth_same. apply nth_error_Some. rewrite Hn. discriminate.
          * destruct (H4 m' sn' Hm' Hsn' Hin') as [Hn' Hne']. split; [|exact Hne']. rewrite <- Hn'. apply update_nth_other.
            intros Ek. apply (kap_inj a b _ _ Erows Hin' Hin) in Ek.
            assert (m' = m) by (apply (fnode_inj U ueqb nodes); assumption). subst m'. assert (sn' = sn) by congruence. subst sn'.
            rewrite teqb_refl in Et. discriminate.
        + intros i Hi. apply update_nth_other. pose proof (kap_lt a b _ Erows Hin). lia. }
    destruct Hstep as (s1 & A1 & A2 & A3 & A4 & A5 & A6). rewrite A1.
    destruct (IH (E1 ++ [(e, tgt)]) s1 A5) as (s' & B1 & B2 & B3 & B4 & B5 & B6).
    + eapply Forall_impl; [|exact Hes]. intros e' [H|(m & sn & X1 & X2 & X3 & X4 & X5)]; [left; exact H|right]. exists m, sn. rewrite A2. repeat split; assumption.
    + intros m sn Hm Hsn Hin. rewrite <- Eapp. apply (Hsucc m sn Hm Hsn Hin).
    + exists s'. rewrite Eapp. split; [exact B1|]. split; [congruence|]. split; [congruence|]. split; [congruence|]. split; [exact B5|].
      intros i Hi. rewrite (B6 i Hi). apply (A6 i Hi).
Qed.

(* ---------------------------------------------------------------- what the reading sees of each kind of row *)
Lemma abs_kind_goto k t sfx e : @abs_kind U tidU (goto_row k t sfx e) = FKGoto [t].
Proof. reflexivity. Qed.
Lemma abs_kind_loose k sn e : @abs_kind U tidU (loose_row k sn e) = FKLoose.
Proof. reflexivity. Qed.
Lemma abs_kind_node (r : trow) : is_node_type (r_type r) = true ->
  @abs_kind U tidU r = let '(c, a, d) := abs_nkind U (r_type r) (r_pay r) in FKNode c a d.
Proof.
  unfold is_node_type, abs_kind. intros H. apply andb_true_iff in H as [H1 H2].
  apply negb_true_iff in H1, H2. rewrite H1, H2. reflexivity.
Qed.
Lemma abs_name_node (r : trow) m q : r_pay r = node_base_pay m ++ q -> abs_name U ustr false r = ustr (n_uuid m).
Proof. intros H. unfold abs_name. rewrite H. reflexivity. Qed.
Lemma abs_name_strip (r : trow) : abs_name U ustr true r = [].
Proof. reflexivity. Qed.

Lemma node_row_kind m sn j es r : runnable m -> (j < nrows m)%nat -> node_row U m sn j es r ->
  @abs_kind U tidU r = FKNode (fst (fst (nk m j))) (acts_at m j) (snd (nk m j)).
Proof.
  intros (Hk & _ & _) Hj Hr. destruct (Hk j Hj) as (tp & p & E & Ht). pose proof (node_row_tp _ _ _ _ _ Hr) as E'.
  rewrite E in E'. injection E' as E1 E2. rewrite abs_kind_node by (rewrite <- E1; exact Ht).
  unfold acts_at, nk. rewrite E, E1, E2. destruct (abs_nkind U (r_type r) (r_pay r)) as [[c a] d]. reflexivity.
Qed.

Lemma node_row_name m sn j es r : node_row U m sn j es r ->
  abs_name U ustr strip r = if strip then [] else ustr (n_uuid m).
Proof.
  intros (_ & Hc & _ & _). destruct strip; [reflexivity|].
  destruct Hc as [(a & q & _ & _ & H3)|(_ & _ & q & _ & H4)]; eapply abs_name_node; eassumption.
Qed.

(* ---------------------------------------------------------------- the invariant of the reading *)
Hypothesis Hback : back U [] rows.
Hypothesis Hrun : forall m, fnode (n_uuid m) = Some m -> runnable m.
Hypothesis Hsucc : forall m sn, fnode (n_uuid m) = Some m -> short_name m = Ok sn -> In (n_uuid m) (firsts rows) ->
  nfinal (events rows) m sn <> None.
(* every edge of the sheet comes from "start", is the chain edge into a later row of a row group, or leaves the last row of
   an exported node *)
Hypothesis Hsrc : forall x, In x (events rows) ->
  e_from (fst x) = TStart
  \/ (exists m sn j, fnode (n_uuid m) = Some m /\ short_name m = Ok sn /\ fst x = chain_edge U (n_uuid m) sn j
                     /\ snd x = Some (TNode (n_uuid m) (sub_short sn (S j))))
  \/ (exists m sn, fnode (n_uuid m) = Some m /\ short_name m = Ok sn /\ e_from (fst x) = last_row_id m sn).

Record RInv (a : list trow) (s : @fstate tidU) : Prop := {
  ri_len : List.length (fs_nodes s) = List.length (firsts a);
  ri_map : forall r u sfx, In r a -> r_id r = TNode u sfx ->
             exists m, fnode u = Some m /\ In u (firsts a) /\ flook teqb (fs_rowmap s) (r_id r) = Some (kap u, cls_of m);
  ri_names : if strip then fs_names s = []
             else (forall u, In u (firsts a) -> alookup (fs_names s) (ustr u) = Some (kap u))
                  /\ (forall nm k, alookup (fs_names s) nm = Some k -> exists u, In u (firsts a) /\ nm = ustr u);
  ri_nodes : R4 a (events a) s }.

Lemma refs_in_prefix a r b : rows = a ++ r :: b -> Forall (fun t => t = TStart \/ In t (map (@r_id U tidU) a)) (row_refs U r).
Proof.
  intros E. pose proof Hback as H. rewrite E in H. apply back_app in H as [_ H]. cbn [back] in H. destruct H as [H _].
  eapply Forall_impl; [|exact H]. intros t [Ht|Ht]; [left; exact Ht|right]. rewrite app_nil_r in Ht. apply in_rev. exact Ht.
Qed.

Lemma in_ids_row (l : list trow) t : In t (map (@r_id U tidU) l) -> exists r, In r l /\ r_id r = t.
Proof. intros H. apply in_map_iff in H as (r & E & Hr). exists r. auto. Qed.

Lemma ids_disjoint a b r r' : rows = a ++ b -> In r a -> In r' b -> r_id r <> r_id r'.
Proof.
  intros E Ha Hb Heq. pose proof Hnd as H. rewrite E, map_app in H. revert H. generalize (in_map (@r_id U tidU) _ _ Ha) (in_map (@r_id U tidU) _ _ Hb). rewrite Heq.
  generalize (map (@r_id U tidU) a) (map (@r_id U tidU) b) (r_id r'). clear. intros la lb t Ha Hb H.
  induction la as [|x la IH]; [contradiction|]. cbn [app] in H. inversion H as [|? ? Hx Hr]; subst. destruct Ha as [Ha|Ha].
  - subst. apply Hx. apply in_or_app. right. exact Hb.
  - apply IH; assumption.
Qed.

(* the source of an edge carried by the row that follows the prefix a *)
Lemma src_ok_of a r b s e :
  rows = a ++ r :: b -> RInv a s -> In e (r_edges r) ->
  (forall m sn j, fnode (n_uuid m) = Some m -> short_name m = Ok sn -> row_tgt U r <> Some (TNode (n_uuid m) (sub_short sn (S j)))) ->
  src_ok a s e.
Proof.
  intros E Hi He Hnc.
  assert (Hx : In (e, row_tgt U r) (events rows)).
  { rewrite E, events_app. apply in_or_app. right. unfold MeansDfsFacts.events. cbn [flat_map]. apply in_or_app. left.
    unfold row_events. apply in_map_iff. exists e. auto. }
  destruct (Hsrc _ Hx) as [H|[(m & sn & j & Hm & Hsn & _ & Ht)|(m & sn & Hm & Hsn & Hf)]]; cbn [fst snd] in *.
  - left. exact H.
  - exfalso. apply (Hnc m sn j Hm Hsn Ht).
  - right. pose proof (refs_in_prefix a r b E) as Hr. rewrite Forall_forall in Hr.
    assert (Hin : In (e_from e) (row_refs U r)) by (unfold row_refs; apply in_or_app; left; apply in_map, He).
    destruct (Hr _ Hin) as [H|H]; [rewrite Hf in H; discriminate|].
    destruct (in_ids_row _ _ H) as (r1 & Hr1 & Eid). rewrite Hf in Eid. unfold last_row_id in Eid.
    destruct (ri_map _ _ Hi r1 _ _ Hr1 Eid) as (m' & Hm' & Hin' & Hl). assert (m' = m) by congruence. subst m'.
    exists m, sn. repeat split; try assumption. rewrite Hf. unfold last_row_id. rewrite <- Eid. exact Hl.
Qed.

Lemma firsts_incl a b u : rows = a ++ b -> In u (firsts a) -> In u (firsts rows).
Proof. intros E H. rewrite E, firsts_app. apply in_or_app. left. exact H. Qed.

Lemma succ_prefix a r b : rows = a ++ r :: b ->
  forall m sn, fnode (n_uuid m) = Some m -> short_name m = Ok sn -> In (n_uuid m) (firsts a) ->
    nfinal (events a ++ map (fun e => (e, row_tgt U r)) (r_edges r)) m sn <> None.
Proof.
  intros E m sn Hm Hsn Hin. pose proof (Hsucc m sn Hm Hsn (firsts_incl _ _ _ E Hin)) as H.
  rewrite E, events_app in H. unfold MeansDfsFacts.events at 2 in H. cbn [flat_map] in H. rewrite app_assoc in H.
  apply nfinal_prefix in H. exact H.
Qed.

(* ---------------------------------------------------------------- go_to and loose_exit rows *)
Lemma events_snoc (a : list trow) r : events (a ++ [r]) = events a ++ map (fun e => (e, row_tgt U r)) (r_edges r).
Proof. rewrite events_app. unfold MeansDfsFacts.events at 2. cbn [flat_map]. rewrite app_nil_r. reflexivity. Qed.

Lemma plain_row a r b s k sfx :
  rows = a ++ r :: b -> RInv a s -> r_id r = TGoto k sfx ->
  (forall m sn j, fnode (n_uuid m) = Some m -> short_name m = Ok sn -> row_tgt U r <> Some (TNode (n_uuid m) (sub_short sn (S j)))) ->
  exists s', fapply_all teqb nab s (map (fabs_edge U ustr) (r_edges r)) (tgt_dest (row_tgt U r)) = Some s' /\ RInv (a ++ [r]) s'.
Proof.
  intros E Hi Hid Hnc.
  destruct (apply_edges a (r :: b) (row_tgt U r) E (r_edges r) (events a) s (ri_nodes _ _ Hi)) as (s' & A1 & A2 & A3 & A4 & A5 & _).
  - apply Forall_forall. intros e He. apply (src_ok_of a r b s e E Hi He Hnc).
  - apply (succ_prefix a r b E).
  - exists s'. split; [exact A1|].
    assert (Ef : firsts (a ++ [r]) = firsts a).
    { rewrite firsts_app. unfold firsts at 2. cbn [flat_map]. unfold first_of. rewrite Hid. cbn [app]. apply app_nil_r. }
    constructor.
    + rewrite Ef, A4. apply (ri_len _ _ Hi).
    + intros r1 u s1 Hr1 Eid. apply in_app_or in Hr1 as [Hr1|[Hr1|[]]].
      * destruct (ri_map _ _ Hi r1 u s1 Hr1 Eid) as (m & X1 & X2 & X3). exists m. rewrite Ef, A2. auto.
      * subst r1. rewrite Hid in Eid. discriminate.
    + rewrite Ef, A3. apply (ri_names _ _ Hi).
    + rewrite events_snoc. intros m sn Hm Hsn Hin. rewrite Ef in Hin. apply (A5 m sn Hm Hsn Hin).
Qed.

Lemma goto_row_step a kk child csn e b s :
  rows = a ++ goto_row kk (TNode (n_uuid child) csn) csn e :: b -> fnode (n_uuid child) = Some child -> short_name child = Ok csn ->
  RInv a s ->
  exists s', fstep teqb nab s (fabs (goto_row kk (TNode (n_uuid child) csn) csn e)) = Some s'
             /\ RInv (a ++ [goto_row kk (TNode (n_uuid child) csn) csn e]) s'.
Proof.
  intros E Hc Hcs Hi. set (g := goto_row kk (TNode (n_uuid child) csn) csn e) in *.
  destruct (plain_row a g b s kk (lit "goto." ++ csn) E Hi eq_refl) as (s' & A & B).
  - intros m sn j Hm Hsn Heq. cbn in Heq. injection Heq as Eu Es. pose proof (fnode_inj U ueqb nodes _ _ Hc Hm Eu) as <-.
    assert (Ecs : sn = csn) by congruence. rewrite Ecs in Es. apply (sub_short_inj csn 0 (S j)) in Es. discriminate.
  - exists s'. split; [|exact B]. rewrite <- A.
    pose proof (refs_in_prefix a g b E) as Hr. unfold row_refs in Hr. unfold g in Hr. cbn [goto_row r_edges r_goto map app] in Hr.
    inversion Hr as [|? ? _ Hr']; subst. inversion Hr' as [|? ? Ht _]; subst. destruct Ht as [Ht|Ht]; [discriminate|].
    destruct (in_ids_row _ _ Ht) as (r1 & Hr1 & Eid). destruct (ri_map _ _ Hi r1 _ _ Hr1 Eid) as (m' & _ & _ & Hl). rewrite Eid in Hl.
    unfold g. unfold fstep. cbn [fabs_row fr_kind]. rewrite abs_kind_goto. unfold fstep_goto.
    unfold fapply_all, row_tgt, tgt_dest.
    cbn [fabs_row fr_edges goto_row r_edges r_goto r_id hd_error map List.length repeat Nat.eqb negb combine fold_left fst snd].
    rewrite Hl. reflexivity.
Qed.

Lemma loose_row_step a kk sn0 e b s :
  rows = a ++ loose_row kk sn0 e :: b -> RInv a s ->
  exists s', fstep teqb nab s (fabs (loose_row kk sn0 e)) = Some s' /\ RInv (a ++ [loose_row kk sn0 e]) s'.
Proof.
  intros E Hi. destruct (plain_row a (loose_row kk sn0 e) b s kk (lit "exit." ++ sn0) E Hi eq_refl) as (s' & A & B).
  - intros m sn j _ _ Heq. discriminate.
  - exists s'. split; [|exact B]. rewrite <- A. reflexivity.
Qed.

(* ---------------------------------------------------------------- the rows of a node after the first: merged *)
Lemma frun_cons (x : @frow tidU) l s :
  frun teqb nab (x :: l) s = match fstep teqb nab s x with Some s1 => frun teqb nab l s1 | None => None end.
Proof. unfold frun. cbn [fold_left]. destruct (fstep teqb nab s x); [reflexivity|apply fold_opt_none]. Qed.

Lemma frun_app (l1 l2 : list (@frow tidU)) s :
  frun teqb nab (l1 ++ l2) s = match frun teqb nab l1 s with Some s1 => frun teqb nab l2 s1 | None => None end.
Proof. unfold frun. rewrite fold_left_app. destruct (fold_left _ l1 (Some s)); [reflexivity|apply fold_opt_none]. Qed.

Lemma abs_cond_blank : RowSem.cond_blank (abs_cond U ustr (@no_cond U)) = true.
Proof. reflexivity. Qed.

Lemma merge_run m sn k c d : fnode (n_uuid m) = Some m -> strip = false -> runnable m ->
  forall l j0 s acc, (1 <= j0)%nat -> (j0 + List.length l <= nrows m)%nat ->
  (forall i r, nth_error l i = Some r -> node_row U m sn (j0 + i) [chain_edge U (n_uuid m) sn (pred (j0 + i))] r) ->
  nth_error (fs_nodes s) k = Some (mkRNode acc d DNone) ->
  flook teqb (fs_rowmap s) (TNode (n_uuid m) (sub_short sn (pred j0))) = Some (k, c) ->
  alookup (fs_names s) (ustr (n_uuid m)) = Some k ->
  exists s', frun teqb nab (map fabs l) s = Some s'
    /\ nth_error (fs_nodes s') k = Some (mkRNode (acc ++ flat_map (acts_at m) (seq j0 (List.length l))) d DNone)
    /\ (forall i, i <> k -> nth_error (fs_nodes s') i = nth_error (fs_nodes s) i)
    /\ List.length (fs_nodes s') = List.length (fs_nodes s)
    /\ fs_names s' = fs_names s
    /\ fs_rowmap s' = rev (map (fun r : trow => (r_id r, (k, c))) l) ++ fs_rowmap s.
Proof.
  intros Hm Hstrip Hrn. induction l as [|r l IH]; intros j0 s acc Hj0 Hlen Hrows Hnode Hlook Hname.
  - exists s. cbn [map List.length seq flat_map rev app]. rewrite app_nil_r. repeat split; auto.
  - cbn [List.length] in Hlen. pose proof (Hrows 0%nat r eq_refl) as Hr. rewrite Nat.add_0_r in Hr.
    assert (Hj : (j0 < nrows m)%nat) by lia.
    pose proof (node_row_kind m sn j0 _ r Hrn Hj Hr) as Hk. pose proof (node_row_name m sn j0 _ r Hr) as Hnm.
    destruct Hr as (Rid & _ & _ & Redges).
    destruct Hrn as (_ & Hacts & _). pose proof (Hacts j0 (conj Hj0 Hj)) as Hne.
    cbn [map]. rewrite frun_cons.
    assert (Hstep : fstep teqb nab s (fabs r) =
                    Some (mkFS (update (fs_nodes s) k (mkRNode (acc ++ acts_at m j0) d DNone)) ((r_id r, (k, c)) :: fs_rowmap s) (fs_names s))).
    { unfold fstep. cbn [fabs_row fr_kind]. rewrite Hk. unfold merges. cbn [fabs_row fr_name]. rewrite Hnm, Hstrip.
      destruct (ustr (n_uuid m)) as [|c1 nm] eqn:Eu; [exfalso; apply (ustr_ne _ Eu)|].
      destruct (merge_actions (fst (fst (nk m j0))) (acts_at m j0)) as [|a0 al] eqn:Ea; [contradiction|]. rewrite Hname.
      unfold fstep_merge. cbn [fabs_row fr_edges fr_id]. rewrite Redges. cbn [map fabs_edge fe_cond fe_from chain_edge e_cond e_from].
      rewrite abs_cond_blank. cbn [negb fabs_from]. rewrite Hlook, Hnode, Nat.eqb_refl. cbn [rn_actions rn_dec rn_cont]. reflexivity. }
    rewrite Hstep.
    destruct (IH (S j0) (mkFS (update (fs_nodes s) k (mkRNode (acc ++ acts_at m j0) d DNone)) ((r_id r, (k, c)) :: fs_rowmap s) (fs_names s)) (acc ++ acts_at m j0))
      as (s' & A1 & A2 & A3 & A4 & A5 & A6); cbn [fs_nodes fs_rowmap fs_names]; try lia.
    + intros i r' Hr'. pose proof (Hrows (S i) r' Hr') as H. replace (j0 + S i)%nat with (S j0 + i)%nat in H by lia. exact H.
    + apply update_nth_same. apply nth_error_Some. rewrite Hnode. discriminate.
    + cbn [flook pred]. rewrite Rid, teqb_refl. reflexivity.
    + exact Hname.
    + exists s'. split; [exact A1|]. split; [|split; [|split; [|split]]].
      * rewrite A2. cbn [List.length seq flat_map]. rewrite <- app_assoc. reflexivity.
      * intros i Hi. rewrite (A3 i Hi). apply update_nth_other, Hi.
      * rewrite A4. apply update_length.
      * exact A5.
      * rewrite A6. cbn [map rev]. rewrite <- app_assoc. reflexivity.
Qed.

(* ---------------------------------------------------------------- the row group of a node *)
Lemma flook_skip {X} (new old : list (tidU * X)) t :
  (forall p, In p new -> fst p <> t) -> flook teqb (new ++ old) t = flook teqb old t.
Proof.
  induction new as [|[j x] new IH]; intros H; cbn [app flook]; [reflexivity|].
  rewrite teqb_false by (apply (H (j, x)); left; reflexivity). apply IH. intros p Hp. apply H. right. exact Hp.
Qed.

Lemma flook_const {X} (new old : list (tidU * X)) t v :
  (forall p, In p new -> snd p = v) -> In t (map fst new) -> flook teqb (new ++ old) t = Some v.
Proof.
  induction new as [|[j x] new IH]; intros H Hin; [contradiction|]. cbn [app flook].
  destruct (teqb j t) eqn:E; [f_equal; apply (H (j, x) (or_introl eq_refl))|].
  apply IH; [intros p Hp; apply H; right; exact Hp|]. destruct Hin as [Hin|Hin]; [cbn in Hin; subst; rewrite teqb_refl in E; discriminate|exact Hin].
Qed.

Lemma evs_from_skip E1 E2 t : (forall x, In x E2 -> e_from (fst x) <> t) -> evs_from (E1 ++ E2) t = evs_from E1 t.
Proof.
  intros H. rewrite evs_from_app. unfold evs_from at 2.
  assert (Ef : filter (fun x : ev => teqb (e_from (fst x)) t) E2 = []).
  { induction E2 as [|x E2 IH]; [reflexivity|]. cbn [filter]. rewrite teqb_false by (apply H; left; reflexivity).
    apply IH. intros y Hy. apply H. right. exact Hy. }
  rewrite Ef. cbn [map]. apply app_nil_r.
Qed.

Lemma event_src l1 l2 x : rows = l1 ++ l2 -> In x (events l1) -> e_from (fst x) = TStart \/ In (e_from (fst x)) (map (@r_id U tidU) l1).
Proof.
  intros E Hx. unfold MeansDfsFacts.events in Hx. apply in_flat_map in Hx as (r & Hr & Hx). unfold row_events in Hx.
  apply in_map_iff in Hx as (e & <- & He). cbn [fst]. apply in_split in Hr as (p & q & ->).
  pose proof (refs_in_prefix p r (q ++ l2)) as H. rewrite <- app_assoc in E. cbn [app] in E. specialize (H E). rewrite Forall_forall in H.
  destruct (H (e_from e)) as [H1|H1]; [unfold row_refs; apply in_or_app; left; apply in_map, He|left; exact H1|right].
  rewrite map_app. apply in_or_app. left. exact H1.
Qed.

Section Block.
Variables (a b : list trow) (m : node U) (sn : str) (pe : edge U tidU) (r0 : trow) (rest : list trow) (extras : list (edge U tidU)).
Variable s : @fstate tidU.
Hypothesis Hm : fnode (n_uuid m) = Some m.
Hypothesis Hsn : short_name m = Ok sn.
Hypothesis Hi : initiate_row_models m sn pe = Ok (r0 :: rest).
Hypothesis E : rows = a ++ add_edges U extras r0 :: rest ++ b.
Hypothesis Hinv : RInv a s.

Let u := n_uuid m.
Let r0' := add_edges U extras r0.
Let blk := r0' :: rest.

Lemma blk_len : List.length blk = nrows m.
Proof. destruct (initiate_spec U _ _ _ _ Hi) as [Hl _]. exact Hl. Qed.

Lemma blk_row j r : nth_error (r0 :: rest) j = Some r ->
  node_row U m sn j [match j with O => pe | S j' => chain_edge U u sn j' end] r.
Proof. destruct (initiate_spec U _ _ _ _ Hi) as [_ Hs]. apply Hs. Qed.

Lemma r0'_row : node_row U m sn 0 (extras ++ [pe]) r0'.
Proof.
  destruct (blk_row 0 r0 eq_refl) as (A1 & A2 & A3 & A4). unfold r0', add_edges, node_row. cbn [r_id r_type r_pay r_goto r_edges].
  rewrite A4. auto.
Qed.

Lemma r0'_id : r_id r0' = TNode u sn.
Proof. destruct r0'_row as (A & _). exact A. Qed.

Lemma blk_ids r : In r blk -> exists j, (j < nrows m)%nat /\ r_id r = TNode u (sub_short sn j).
Proof.
  intros [H|H].
  - subst r. exists 0%nat. split; [lia|apply r0'_id].
  - apply In_nth_error in H as [j Hj]. exists (S j). split.
    + rewrite <- blk_len. unfold blk. cbn [List.length]. apply -> Nat.succ_lt_mono. apply nth_error_Some. congruence.
    + destruct (blk_row (S j) r Hj) as (A & _). exact A.
Qed.

Lemma E' : rows = a ++ blk ++ b.
Proof. exact E. Qed.

Lemma u_not_first : ~ In u (firsts a).
Proof.
  intros H. destruct (firsts_in a u H) as (r & m' & sn' & Hr & Hm' & Hsn' & Hid).
  assert (m' = m) by (unfold u in Hm'; congruence). subst m'. assert (sn' = sn) by congruence. subst sn'.
  apply (ids_disjoint a (blk ++ b) r r0' E' Hr); [left; reflexivity|]. rewrite Hid, r0'_id. reflexivity.
Qed.

Lemma first_of_r0' : first_of r0' = [u].
Proof. unfold first_of. rewrite r0'_id. unfold u. rewrite Hm, Hsn, str_eqb_refl. reflexivity. Qed.

Lemma firsts_rest : firsts rest = [].
Proof.
  assert (G : forall l, (forall r, In r l -> first_of r = []) -> firsts l = []).
  { induction l as [|r l IH]; intros H; [reflexivity|]. unfold firsts. cbn [flat_map]. rewrite (H r (or_introl eq_refl)).
    apply IH. intros r' Hr'. apply H. right. exact Hr'. }
  apply G. intros r Hr. apply In_nth_error in Hr as [j Hj]. destruct (blk_row (S j) r Hj) as (A & _).
  unfold first_of. rewrite A. unfold u. rewrite Hm, Hsn.
  destruct (str_eqb (sub_short sn (S j)) sn) eqn:Eq; [|reflexivity]. apply str_eqb_eq in Eq. apply (sub_short_inj sn (S j) 0) in Eq. discriminate.
Qed.

Lemma firsts_blk : firsts (a ++ blk) = firsts a ++ [u].
Proof. rewrite firsts_app. unfold blk, firsts at 2. cbn [flat_map]. fold (firsts rest). rewrite first_of_r0', firsts_rest. reflexivity. Qed.

Lemma kap_u : kap u = List.length (firsts a).
Proof.
  unfold kap. rewrite E', app_assoc, firsts_app, firsts_blk, <- app_assoc. rewrite idx_app_r by apply u_not_first.
  cbn [app idx]. rewrite ueqb_refl. lia.
Qed.

Let c := cls_of m.
Let d := dec0_of m.
Let a0 := acts_at m 0.
Let k := List.length (fs_nodes s).

Lemma k_kap : kap u = k.
Proof. unfold k. rewrite (ri_len _ _ Hinv). apply kap_u. Qed.

Lemma r0'_kind : @abs_kind U tidU r0' = FKNode c a0 d.
Proof. rewrite (node_row_kind m sn 0 _ r0' (Hrun m Hm) ltac:(lia) r0'_row). reflexivity. Qed.

Lemma r0'_name : abs_name U ustr strip r0' = if strip then [] else ustr u.
Proof. apply (node_row_name m sn 0 _ r0' r0'_row). Qed.

Lemma r0'_merges : merges s (fabs r0') c a0 = None.
Proof.
  unfold merges. cbn [fabs_row fr_name]. rewrite r0'_name. pose proof (ri_names _ _ Hinv) as Hn. destruct strip; [reflexivity|].
  destruct (ustr u) as [|c1 nm] eqn:Eu; [reflexivity|]. destruct (merge_actions c a0); [reflexivity|].
  destruct (alookup (fs_names s) (c1 :: nm)) as [k'|] eqn:Ea; [|reflexivity]. exfalso.
  destruct Hn as [_ Hn]. destruct (Hn _ _ Ea) as (u' & Hu' & Eq). rewrite <- Eu in Eq. apply ustr_inj in Eq. subst u'. exact (u_not_first Hu').
Qed.

Lemma r0'_tgt : row_tgt U r0' = Some (TNode u sn).
Proof. unfold row_tgt. rewrite r0'_id. reflexivity. Qed.

Lemma r0'_edges : r_edges r0' = extras ++ [pe].
Proof. destruct r0'_row as (_ & _ & _ & A). exact A. Qed.

Lemma r0'_nochain m' sn' j : fnode (n_uuid m') = Some m' -> short_name m' = Ok sn' ->
  row_tgt U r0' <> Some (TNode (n_uuid m') (sub_short sn' (S j))).
Proof.
  intros Hm' Hsn'. rewrite r0'_tgt. intros Heq. injection Heq as Eu Es. pose proof (fnode_inj U ueqb nodes _ _ Hm Hm' Eu) as <-.
  assert (Ecs : sn' = sn) by congruence. rewrite Ecs in Es. apply (sub_short_inj sn 0 (S j)) in Es. discriminate.
Qed.

Let s1 : @fstate tidU := mkFS (fs_nodes s ++ [mkRNode a0 d DNone]) (fs_rowmap s) (fs_names s).

Lemma R4_s1 : R4 a (events a) s1.
Proof.
  intros m' sn' Hm' Hsn' Hin. destruct (ri_nodes _ _ Hinv m' sn' Hm' Hsn' Hin) as [A B]. split; [|exact B].
  rewrite <- A. unfold s1. cbn [fs_nodes]. apply nth_error_app1. rewrite (ri_len _ _ Hinv). apply (kap_lt a (blk ++ b) _ E' Hin).
Qed.

(* the first row: a new node, its incoming edges applied *)
Lemma first_row_step : exists s2,
  fapply_all teqb nab s1 (map (fabs_edge U ustr) (r_edges r0')) (DNode k) = Some s2
  /\ fs_rowmap s2 = fs_rowmap s /\ fs_names s2 = fs_names s /\ List.length (fs_nodes s2) = S k
  /\ R4 a (events a ++ row_events U r0') s2
  /\ nth_error (fs_nodes s2) k = Some (mkRNode a0 d DNone).
Proof.
  destruct (apply_edges a (blk ++ b) (row_tgt U r0') E' (r_edges r0') (events a) s1 R4_s1) as (s2 & A1 & A2 & A3 & A4 & A5 & A6).
  - apply Forall_forall. intros e He. apply (src_ok_of a r0' (rest ++ b) s e E Hinv He r0'_nochain).
  - apply (succ_prefix a r0' (rest ++ b) E).
  - exists s2. rewrite r0'_tgt in A1. unfold tgt_dest in A1. rewrite k_kap in A1. split; [exact A1|].
    split; [exact A2|]. split; [exact A3|]. split; [rewrite A4; unfold s1; cbn [fs_nodes]; rewrite app_length; cbn [List.length]; unfold k; lia|].
    split; [exact A5|]. rewrite A6 by (rewrite <- (ri_len _ _ Hinv); unfold k; lia).
    unfold s1. cbn [fs_nodes]. unfold k. rewrite nth_error_app2, Nat.sub_diag by lia. reflexivity.
Qed.

Lemma rest_events (x : ev) : In x (events rest) -> exists j, (S j < nrows m)%nat /\ e_from (fst x) = TNode u (sub_short sn j).
Proof.
  intros Hx. unfold MeansDfsFacts.events in Hx. apply in_flat_map in Hx as (r & Hr & Hx). apply In_nth_error in Hr as [j Hj].
  destruct (blk_row (S j) r Hj) as (_ & _ & _ & A). unfold row_events in Hx. rewrite A in Hx. cbn [map] in Hx. destruct Hx as [<-|[]].
  exists j. split; [|reflexivity]. rewrite <- blk_len. unfold blk. cbn [List.length]. apply -> Nat.succ_lt_mono. apply nth_error_Some. congruence.
Qed.

Lemma last_in_blk : exists r, In r blk /\ r_id r = last_row_id m sn.
Proof.
  pose proof (last_in_node_row_ids U m sn) as H. rewrite <- (initiate_ids U _ _ _ _ Hi) in H. apply in_map_iff in H as (r & Er & Hr).
  destruct Hr as [Hr|Hr].
  - subst r. exists r0'. split; [left; reflexivity|]. rewrite <- Er. reflexivity.
  - exists r. split; [right; exact Hr|exact Er].
Qed.

Lemma not_from_a (x : ev) : (e_from (fst x) = TStart \/ In (e_from (fst x)) (map (@r_id U tidU) a)) -> e_from (fst x) <> last_row_id m sn.
Proof.
  intros [H|H] Heq; [rewrite Heq in H; discriminate|]. destruct (in_ids_row _ _ H) as (r & Hr & Er). destruct last_in_blk as (r' & Hr' & Er').
  apply (ids_disjoint a (blk ++ b) r r' E' Hr); [apply in_or_app; left; exact Hr'|congruence].
Qed.

Lemma no_event_from_last (x : ev) : In x (events (a ++ blk)) -> e_from (fst x) <> last_row_id m sn.
Proof.
  intros Hx. rewrite events_app in Hx. apply in_app_or in Hx as [Hx|Hx].
  - apply not_from_a. apply (event_src a (blk ++ b) x E' Hx).
  - unfold blk, MeansDfsFacts.events in Hx. cbn [flat_map] in Hx. apply in_app_or in Hx as [Hx|Hx].
    + apply not_from_a. unfold row_events in Hx. apply in_map_iff in Hx as (e & <- & He). cbn [fst].
      pose proof (refs_in_prefix a r0' (rest ++ b) E) as H. rewrite Forall_forall in H. apply H. unfold row_refs. apply in_or_app. left. apply in_map, He.
    + destruct (rest_events x Hx) as (j & Hj & Ej). rewrite Ej. unfold last_row_id. intros Heq. injection Heq as Heq.
      apply sub_short_inj in Heq. lia.
Qed.

Lemma block_step : exists s', frun teqb nab (map fabs blk) s = Some s' /\ RInv (a ++ blk) s'.
Proof.
  destruct first_row_step as (s2 & A1 & A2 & A3 & A4 & A5 & A6).
  set (nm := abs_name U ustr strip r0').
  set (s3 := mkFS (fs_nodes s2) ((r_id r0', (k, c)) :: fs_rowmap s2) (match nm with [] => fs_names s2 | _ => (nm, k) :: fs_names s2 end)).
  assert (Hstep : fstep teqb nab s (fabs r0') = Some s3).
  { unfold fstep. cbn [fabs_row fr_kind]. rewrite r0'_kind, r0'_merges. unfold fstep_new. cbn [fabs_row fr_edges fr_id fr_name].
    unfold s1, k in A1. rewrite A1. reflexivity. }
  assert (Hrest : exists s4, frun teqb nab (map fabs rest) s3 = Some s4
      /\ nth_error (fs_nodes s4) k = Some (mkRNode (a0 ++ flat_map (acts_at m) (seq 1 (List.length rest))) d DNone)
      /\ (forall i, i <> k -> nth_error (fs_nodes s4) i = nth_error (fs_nodes s3) i)
      /\ List.length (fs_nodes s4) = List.length (fs_nodes s3)
      /\ fs_names s4 = fs_names s3
      /\ fs_rowmap s4 = rev (map (fun r : trow => (r_id r, (k, c))) rest) ++ fs_rowmap s3).
  { assert (Hb : strip = true \/ strip = false) by (destruct strip; auto). destruct Hb as [Es|Es].
    - destruct (Hrun m Hm) as (_ & _ & H1). specialize (H1 Es). pose proof blk_len as Hl. rewrite H1 in Hl. unfold blk in Hl. cbn [List.length] in Hl.
      assert (Er : rest = []) by (apply length_zero_iff_nil; lia). rewrite Er. exists s3. cbn [map List.length seq flat_map rev app]. rewrite app_nil_r.
      repeat split; auto.
    - apply (merge_run m sn k c d Hm Es (Hrun m Hm) rest 1 s3 a0); [lia| | | | |].
      + pose proof blk_len as Hl. unfold blk in Hl. cbn [List.length] in Hl. lia.
      + intros i r Hr. apply (blk_row (S i) r Hr).
      + exact A6.
      + cbn [s3 fs_rowmap flook pred sub_short]. rewrite r0'_id, teqb_refl. reflexivity.
      + unfold s3, nm. cbn [fs_names]. rewrite r0'_name, Es. destruct (ustr u) as [|c1 l] eqn:Eu; [exfalso; apply (ustr_ne _ Eu)|].
        change (ustr (n_uuid m)) with (ustr u). rewrite Eu. cbn [alookup]. rewrite str_eqb_refl. reflexivity. }
  destruct Hrest as (s4 & B1 & B2 & B3 & B4 & B5 & B6).
  exists s4. split.
  { unfold blk. cbn [map]. rewrite frun_cons, Hstep. exact B1. }
  assert (Hk : k = List.length (firsts a)) by (unfold k; apply (ri_len _ _ Hinv)).
  constructor.
  - rewrite firsts_blk, app_length, B4. cbn [s3 fs_nodes List.length]. rewrite A4. lia.
  - intros r u' sfx Hr Eid. apply in_app_or in Hr as [Hr|Hr].
    + destruct (ri_map _ _ Hinv r u' sfx Hr Eid) as (m' & X1 & X2 & X3). exists m'. split; [exact X1|]. split; [rewrite firsts_blk; apply in_or_app; left; exact X2|].
      rewrite B6. cbn [s3 fs_rowmap]. rewrite flook_skip.
      * cbn [flook]. rewrite teqb_false; [rewrite A2; exact X3|]. apply not_eq_sym. apply (ids_disjoint a (blk ++ b) r r0' E' Hr). left. reflexivity.
      * intros p Hp. apply in_rev in Hp. apply in_map_iff in Hp as (r' & <- & Hr'). cbn [fst]. apply not_eq_sym.
        apply (ids_disjoint a (blk ++ b) r r' E' Hr). right. apply in_or_app. left. exact Hr'.
    + destruct (blk_ids r Hr) as (j & Hj & Ej). rewrite Ej in Eid. injection Eid as <- _. exists m. split; [exact Hm|].
      split; [rewrite firsts_blk; apply in_or_app; right; left; reflexivity|]. rewrite k_kap. fold c.
      rewrite B6. change (fs_rowmap s3) with ([(r_id r0', (k, c))] ++ fs_rowmap s2). rewrite app_assoc. apply flook_const.
      * intros p Hp. apply in_app_or in Hp as [Hp|[<-|[]]]; [|reflexivity]. apply in_rev in Hp. apply in_map_iff in Hp as (r' & <- & _). reflexivity.
      * rewrite map_app. apply in_or_app. destruct Hr as [Hr|Hr].
        -- right. left. subst r. reflexivity.
        -- left. rewrite map_rev, map_map. cbn [fst]. apply -> in_rev. apply in_map, Hr.
  - pose proof (ri_names _ _ Hinv) as Hn. rewrite B5. unfold s3, nm. cbn [fs_names]. rewrite r0'_name, A3. destruct strip; [exact Hn|].
    destruct Hn as [Hn1 Hn2]. destruct (ustr u) as [|c1 l] eqn:Eu; [exfalso; apply (ustr_ne _ Eu)|]. rewrite <- Eu. split.
    + intros u' Hu'. rewrite firsts_blk in Hu'. cbn [alookup]. apply in_app_or in Hu' as [Hu'|[<-|[]]].
      * rewrite str_eqb_neq; [apply (Hn1 u' Hu')|]. intros Heq. apply ustr_inj in Heq. subst u'. exact (u_not_first Hu').
      * rewrite str_eqb_refl, k_kap. reflexivity.
    + intros nm' k' H. cbn [alookup] in H. destruct (str_eqb (ustr u) nm') eqn:Eq.
      * apply str_eqb_eq in Eq. exists u. split; [rewrite firsts_blk; apply in_or_app; right; left; reflexivity|auto].
      * destruct (Hn2 _ _ H) as (u' & X1 & X2). exists u'. split; [rewrite firsts_blk; apply in_or_app; left; exact X1|exact X2].
  - intros m' sn' Hm' Hsn' Hin. rewrite firsts_blk in Hin. apply in_app_or in Hin as [Hin|[Hin|[]]].
    + assert (Ee : events (a ++ blk) = (events a ++ row_events U r0') ++ events rest).
      { rewrite events_app. unfold blk, MeansDfsFacts.events at 2. cbn [flat_map]. rewrite app_assoc. reflexivity. }
      destruct (A5 m' sn' Hm' Hsn' Hin) as [X1 X2].
      assert (Ef : nfinal (events (a ++ blk)) m' sn' = nfinal (events a ++ row_events U r0') m' sn').
      { unfold nfinal. rewrite Ee, evs_from_skip; [reflexivity|]. intros x Hx. destruct (rest_events x Hx) as (j & _ & Ej). rewrite Ej.
        unfold last_row_id. intros Heq. injection Heq as Heq _.
        exact (u_not_first (eq_ind_r (fun z => In z (firsts a)) Hin Heq)). }
      rewrite Ef. split; [|exact X2]. rewrite <- X1. rewrite B3; [reflexivity|]. pose proof (kap_lt a (blk ++ b) _ E' Hin). lia.
    + assert (m' = m) by (apply (fnode_inj U ueqb nodes _ _ Hm' Hm); exact (eq_sym Hin)). subst m'. assert (sn' = sn) by congruence. subst sn'.
      assert (Ef : nfinal (events (a ++ blk)) m sn = Some (init_node m)).
      { unfold nfinal. rewrite <- (app_nil_l (events (a ++ blk))). rewrite evs_from_skip by apply no_event_from_last. reflexivity. }
      rewrite Ef. split; [|discriminate]. fold u. rewrite k_kap, B2. unfold init_node, all_acts. fold d. f_equal. f_equal.
      rewrite <- blk_len. unfold blk. cbn [List.length seq flat_map]. reflexivity.
Qed.

End Block.

(* ---------------------------------------------------------------- the whole sheet *)
Lemma run_blocks : forall bl, blocks U ueqb nodes bl -> forall a s, rows = a ++ bl -> RInv a s ->
  exists s', frun teqb nab (map fabs bl) s = Some s' /\ RInv rows s'.
Proof.
  induction 1 as [|kk child csn e bl Hc Hcs Hb IH|kk sn0 e bl Hb IH|m sn pe r0 rest extras bl Hm Hsn Hi Hb IH]; intros a s E Hinv.
  - rewrite app_nil_r in E. subst a. exists s. split; [reflexivity|exact Hinv].
  - destruct (goto_row_step a kk child csn e bl s E Hc Hcs Hinv) as (s1 & A1 & A2).
    destruct (IH (a ++ [goto_row kk (TNode (n_uuid child) csn) csn e]) s1) as (s' & B1 & B2); [rewrite <- app_assoc; exact E|exact A2|].
    exists s'. split; [|exact B2]. cbn [map]. rewrite frun_cons, A1. exact B1.
  - destruct (loose_row_step a kk sn0 e bl s E Hinv) as (s1 & A1 & A2).
    destruct (IH (a ++ [loose_row kk sn0 e]) s1) as (s' & B1 & B2); [rewrite <- app_assoc; exact E|exact A2|].
    exists s'. split; [|exact B2]. cbn [map]. rewrite frun_cons, A1. exact B1.
  - destruct (block_step a bl m sn pe r0 rest extras s Hm Hsn Hi E Hinv) as (s1 & A1 & A2).
    destruct (IH (a ++ add_edges U extras r0 :: rest) s1) as (s' & B1 & B2); [rewrite <- app_assoc; exact E|exact A2|].
    exists s'. split; [|exact B2]. change (add_edges U extras r0 :: rest ++ bl) with ((add_edges U extras r0 :: rest) ++ bl).
    rewrite map_app, frun_app, A1. exact B1.
Qed.

Theorem run_sheet : blocks U ueqb nodes rows ->
  exists s, frun teqb nab (map fabs rows) fs0 = Some s
            /\ List.length (fs_nodes s) = List.length (firsts rows)
            /\ forall m sn, fnode (n_uuid m) = Some m -> short_name m = Ok sn -> In (n_uuid m) (firsts rows) ->
                  nth_error (fs_nodes s) (kap (n_uuid m)) = nfinal (events rows) m sn.
Proof.
  intros Hb. destruct (run_blocks rows Hb [] fs0 eq_refl) as (s & A & B).
  - constructor.
    + reflexivity.
    + intros r u sfx [].
    + destruct strip; [reflexivity|]. split; [intros u []|intros nm k H; discriminate].
    + intros m sn _ _ [].
  - exists s. split; [exact A|]. split; [apply (ri_len _ _ B)|]. intros m sn Hm Hsn Hin. apply (ri_nodes _ _ B m sn Hm Hsn Hin).
Qed.

End Run.
