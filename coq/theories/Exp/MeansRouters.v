(* C04 — node by node, routers: a router node that is [node_ok] (Exp/MeansFamily.v) is [node_good] (Exp/MeansFacts.v).
   Random routers; the routers behind start_new_flow / call_webhook / transfer_airtime rows; switch routers. *)
From Coq Require Import String.
From Coq Require Import List NArith Bool Arith Lia Permutation.
From RPFT Require Import Base.Sexp Base.PyStr Base.PyStrFacts Base.SexpEq Base.Result Gen.Tables Flow.Lts Flow.Flow Flow.FlowFacts Flow.RowSem
     Exp.FlatSem Exp.ToRows Exp.RowIdFacts Exp.Means Exp.MeansFamily Exp.MeansDfs Exp.MeansDfsFacts
     Exp.MeansRun Exp.MeansOrder Exp.MeansSim Exp.MeansFacts Exp.MeansLocal.
Import ListNotations.

Opaque no_args_tests short_types strip_excluded frm_field_headers.
Opaque loose_exit_rows pairs_follow_cases has_group_case_by_name split_rows_carry_save_name group_split_without_cases_exports.

Section Routers.
Variable U : Type.
Variable ueqb : U -> U -> bool.
Hypothesis ueqb_spec : forall a b, ueqb a b = true <-> a = b.
Variable ustr : U -> str.
Variable strip : bool.
Hypothesis Hrep : repaired.
Notation P_loose := (rep_loose Hrep).
Notation P_cases := (rep_cases Hrep).
Notation P_save := (rep_save Hrep).
Notation P_group := (rep_group Hrep).

Lemma ueqb_refl' u : ueqb u u = true.
Proof. apply ueqb_spec. reflexivity. Qed.

Lemma nodupb_NoDup {T} (eqb : T -> T -> bool) (l : list T) : (forall a b, a = b -> eqb a b = true) -> nodupb eqb l = true -> NoDup l.
Proof.
  intros Hr. induction l as [|x l IH]; cbn [nodupb]; [constructor|]. intros H. apply andb_true_iff in H as [H1 H2]. constructor; [|apply IH, H2].
  intros Hin. apply negb_true_iff in H1. assert (existsb (eqb x) l = true) by (apply existsb_exists; exists x; split; [exact Hin|apply Hr; reflexivity]). congruence.
Qed.

(* ---------------------------------------------------------------- a node that is one router row *)
Lemma router_row_tp (m : node U) tp q : n_actions m = [] -> node_kwargs m = Ok (Some (tp, q)) ->
  row_tp U m 0 = Some (tp, node_base_pay m ++ q).
Proof. intros Ha Hk. unfold row_tp. rewrite Ha, Hk. reflexivity. Qed.

Lemma router_runnable (m : node U) tp q : n_actions m = [] -> node_kwargs m = Ok (Some (tp, q)) -> is_node_type tp = true ->
  runnable U strip m.
Proof.
  intros Ha Hk Ht. unfold runnable. rewrite Ha. cbn [List.length Nat.max]. split; [|split].
  - intros j Hj. assert (j = 0%nat) by lia. subst j. exists tp, (node_base_pay m ++ q). split; [apply router_row_tp; assumption|exact Ht].
  - intros j Hj. lia.
  - reflexivity.
Qed.

Lemma router_nk (m : node U) tp q : n_actions m = [] -> node_kwargs m = Ok (Some (tp, q)) -> nk U m 0 = abs_nkind U tp q.
Proof. intros Ha Hk. unfold nk. rewrite (router_row_tp m tp q Ha Hk). apply abs_nkind_base. Qed.

Lemma all_acts_router (m : node U) tp q c d : n_actions m = [] -> node_kwargs m = Ok (Some (tp, q)) -> abs_nkind U tp q = (c, [], d) ->
  init_node U m = mkRNode [] d DNone /\ cls_of U m = c.
Proof.
  intros Ha Hk Hn. unfold init_node, all_acts, dec0_of, cls_of, acts_at. rewrite Ha. cbn [List.length Nat.max seq flat_map].
  rewrite (router_nk m tp q Ha Hk), Hn. split; reflexivity.
Qed.

Lemma save_name_fld (res : str) : fld_s U (split_save_name res) (lit "save_name") = res.
Proof. unfold split_save_name. rewrite P_save. reflexivity. Qed.

(* ---------------------------------------------------------------- random routers *)
Section RandomNode.
Variables (m : node U) (res : str) (cats : list (category U)).
Hypothesis Hk : n_kind m = NRandom U res cats.
Hypothesis Ha : n_actions m = [].
Hypothesis Hne : forall c, In c cats -> c_name c <> [].
Hypothesis Hnames : NoDup (map (@c_name U) cats).
Hypothesis Huuids : NoDup (map (@c_uuid U) cats).

Lemma rnd_kwargs : node_kwargs m = Ok (Some (lit "split_random", split_save_name res)).
Proof. unfold node_kwargs. rewrite Hk. reflexivity. Qed.

Lemma rnd_nkind : abs_nkind U (lit "split_random") (split_save_name res) = (ERandom, [], Some (dec_random res)).
Proof. unfold abs_nkind. cbn [str_eqb N.eqb Pos.eqb andb t_wait t_split_value t_split_group t_split_random]. rewrite save_name_fld. reflexivity. Qed.

Lemma rnd_pairs last : exit_edge_pairs ueqb m last = Ok (map (fun c => (c_dest c, {| e_from := last; e_cond := value_cond (c_name c) |})) cats).
Proof. unfold exit_edge_pairs. rewrite Hk. reflexivity. Qed.

Lemma rnd_keep : nkeep U m = true.
Proof. unfold nkeep, has_free_cases. rewrite Hk, P_loose. reflexivity. Qed.

Lemma value_cond_blank nm : nm <> [] -> cond_blank (@value_cond U nm) = false.
Proof. intros H. unfold cond_blank, value_cond. cbn [cd_value]. destruct nm; [contradiction|reflexivity]. Qed.

Lemma rnd_kept last c : In c cats -> kept U m (c_dest c, {| e_from := last; e_cond := value_cond (c_name c) |}) = true.
Proof. intros Hc. unfold kept. cbn [fst snd e_cond]. destruct (c_dest c); [reflexivity|]. rewrite rnd_keep, (value_cond_blank _ (Hne c Hc)). reflexivity. Qed.

Lemma rnd_sens c : sens U m c = true.
Proof. unfold sens. rewrite Hk. reflexivity. Qed.

(* folding the buckets: one category per bucket, in order *)
Definition bucket_cat (kp : U -> nat) (c : category U) : cname * dest := (CFixed (c_name c), dest_of U kp (c_dest c)).

Lemma find_cat_none (l : list (cname * dest)) nm i0 : (forall x, In x l -> fst x <> CFixed nm) -> find_cat l nm i0 = None.
Proof.
  revert i0. induction l as [|[c d] l IH]; intros i0 H; cbn [find_cat]; [reflexivity|].
  destruct c as [t|]; cbn [cname_is].
  - rewrite str_eqb_neq; [apply IH; intros x Hx; apply H; right; exact Hx|]. intros E. apply (H (CFixed t, d) (or_introl eq_refl)). cbn. rewrite E. reflexivity.
  - apply IH. intros x Hx. apply H. right. exact Hx.
Qed.

Lemma rnd_fold kp : forall l acc, NoDup (map (@c_name U) (acc ++ l)) -> (forall c, In c l -> c_name c <> []) ->
  fold_opt (fL U ustr ERandom) (map (fun c => (value_cond (c_name c), dest_of U kp (c_dest c))) l)
           (mkRNode [] (Some (mkDec true [] WNone (result_of res) [] (map (bucket_cat kp) acc) wild0 None)) DNone)
  = Some (mkRNode [] (Some (mkDec true [] WNone (result_of res) [] (map (bucket_cat kp) (acc ++ l)) wild0 None)) DNone).
Proof.
  induction l as [|c l IH]; intros acc Hnd Hn; [rewrite app_nil_r; reflexivity|]. cbn [map]. unfold fold_opt. cbn [fold_left].
  assert (Hstep : fL U ustr ERandom (mkRNode [] (Some (mkDec true [] WNone (result_of res) [] (map (bucket_cat kp) acc) wild0 None)) DNone)
                     (value_cond (c_name c), dest_of U kp (c_dest c))
                  = Some (mkRNode [] (Some (mkDec true [] WNone (result_of res) [] (map (bucket_cat kp) (acc ++ [c])) wild0 None)) DNone)).
  { unfold fL, apply_row_edge. cbn [fst snd rn_dec rn_actions rn_cont abs_cond value_cond cd_value cd_variable cd_type cd_name pv_str PS c_cname c_value].
    unfold add_bucket. destruct (c_name c) as [|ch nm] eqn:En; [exfalso; apply (Hn c (or_introl eq_refl)); exact En|].
    cbn [rd_cats rd_operand rd_wait rd_result rd_cases rd_default rd_noresp]. rewrite find_cat_none.
    - rewrite map_app. cbn [map]. unfold bucket_cat. rewrite En. reflexivity.
    - intros x Hx E. apply in_map_iff in Hx as (c' & <- & Hc'). cbn [bucket_cat fst] in E. injection E as E.
      rewrite map_app in Hnd. cbn [map] in Hnd. apply NoDup_remove_2 in Hnd. apply Hnd. apply in_or_app. left. rewrite En, <- E. apply in_map, Hc'. }
  rewrite Hstep. replace (acc ++ c :: l) with ((acc ++ [c]) ++ l) by (rewrite <- app_assoc; reflexivity).
  apply IH; [rewrite <- app_assoc; exact Hnd|intros c' Hc'; apply Hn; right; exact Hc'].
Qed.

Lemma cat_find_self (l : list (category U)) c : NoDup (map (@c_uuid U) l) -> In c l -> cat_of_uuid U ueqb l (c_uuid c) = Some c.
Proof.
  unfold cat_of_uuid. induction l as [|x l IH]; intros Hnd Hin; [contradiction|]. inversion Hnd as [|? ? Hx Hl]; subst. cbn [find].
  destruct Hin as [->|Hin]; [rewrite ueqb_refl'; reflexivity|].
  destruct (ueqb (c_uuid c) (c_uuid x)) eqn:E; [|apply IH; assumption]. apply ueqb_spec in E. exfalso. apply Hx. rewrite <- E. apply in_map, Hin.
Qed.

Theorem random_good : node_good U ueqb ustr strip m.
Proof.
  split; [apply (router_runnable m _ _ Ha rnd_kwargs); reflexivity|]. intros sn prs Hsn Hp. rewrite rnd_pairs in Hp. injection Hp as <-.
  destruct (all_acts_router m _ _ _ _ Ha rnd_kwargs rnd_nkind) as [Ei Ec].
  assert (Hfilter : filter (kept U m) (map (fun c => (c_dest c, {| e_from := last_row_id m sn; e_cond := value_cond (c_name c) |})) cats)
                    = map (fun c => (c_dest c, {| e_from := last_row_id m sn; e_cond := value_cond (c_name c) |})) cats).
  { apply filter_all_true. intros p Hp. apply in_map_iff in Hp as (c & <- & Hc). apply (rnd_kept _ c Hc). }
  split; [|split].
  - intros p Hp _. apply in_map_iff in Hp as (c & <- & Hc). apply (rnd_kept _ c Hc).
  - rewrite map_map. cbn [snd e_cond]. rewrite filter_all_true by (intros x _; apply rnd_sens).
    rewrite <- (map_map (@c_name U) (fun nm => @value_cond U nm)). apply NoDup_map_inj; [|exact Hnames].
    intros a b _ _ E. injection E as E. exact E.
  - intros kp dn Hdn. exists (fun _ => True). split; [exact I|]. split; [auto|]. split.
    + intros x y _ _ Hs. rewrite rnd_sens in Hs. discriminate.
    + unfold Xabs. rewrite Hfilter, map_map. cbn [fst snd e_cond]. rewrite Ei, Ec.
      pose proof (rnd_fold kp cats [] Hnames Hne) as Hf. cbn [map app] in Hf. unfold dec_random.
      eexists. split; [exact Hf|].
      apply (NS_random U ueqb ustr dn kp m _ res cats (mkDec true [] WNone (result_of res) [] (map (bucket_cat kp) cats) wild0 None) Hk); cbn [rn_actions rn_dec]; [rewrite Ha; reflexivity|reflexivity|].
      constructor; cbn [rd_random rd_result rd_cats].
      * reflexivity.
      * reflexivity.
      * clear -Hdn. assert (G : forall l, (forall c, In c l -> In c cats) -> Forall2 (catd_sim U dn kp) (map (bucket_cat kp) l) l).
        { induction l as [|c l IH]; intros Hl; cbn [map]; constructor; [|apply IH; intros c' Hc'; apply Hl; right; exact Hc'].
          split; [reflexivity|]. split; [reflexivity|]. intros d' Ed. apply (Hdn d' {| e_from := last_row_id m sn; e_cond := value_cond (c_name c) |}).
          apply in_map_iff. exists c. rewrite Ed. split; [reflexivity|apply Hl; left; reflexivity]. }
        apply G. auto.
      * intros c Hc. apply (cat_find_self cats c Huuids Hc).
Qed.
End RandomNode.

(* ---------------------------------------------------------------- routers with two fixed branches
   (start_new_flow: Complete / Expired; call_webhook, transfer_airtime: Success / Failure): one action row whose initial
   decision has its final shape; the two edges set the two destinations *)
Section TwoSlot.
Variables (m : node U) (kd : rkind) (r : srouter U) (a : action U) (tp : str) (q : pay U) (cls : eclass) (d0 : rdec)
          (c1 c2 : cond U) (cat1 : category U) (n1 n2 : str).
Hypothesis Hk : n_kind m = NRouter U kd r.
Hypothesis Hkd : kd <> KSwitch.
Hypothesis Hact : n_actions m = [a].
Hypothesis Hok : action_ok U a = true.
Hypothesis Hfields : action_fields a = Ok (tp, q).
Hypothesis Hnk : abs_nkind U tp q = (cls, acts_of U tp q, Some d0).
Hypothesis Htp : is_node_type tp = true.
Hypothesis Hpairs : forall last, exit_edge_pairs ueqb m last =
  Ok [(c_dest cat1, {| e_from := last; e_cond := c1 |}); (c_dest (sw_default r), {| e_from := last; e_cond := c2 |})].
Hypothesis Hcats : rd_cats d0 = [(CFixed n1, DNone)] /\ rd_default d0 = (CFixed n2, DNone) /\ rd_noresp d0 = None /\ rd_wait d0 = WNone /\ rd_random d0 = false.

Definition slot_dec (t1 t2 : dest) : rdec :=
  mkDec false (rd_operand d0) WNone (rd_result d0) (rd_cases d0) [(CFixed n1, t1)] (CFixed n2, t2) None.
Definition slotN (t1 t2 : dest) : rnode := mkRNode [act_payload U a] (Some (slot_dec t1 t2)) DNone.

Hypothesis Hstep1 : forall t1 t2 t, fL U ustr cls (slotN t1 t2) (c1, t) = Some (slotN t t2).
Hypothesis Hstep2 : forall t1 t2 t, fL U ustr cls (slotN t1 t2) (c2, t) = Some (slotN t1 t).
Hypothesis Hsim : forall kp dn, dest_ok U dn (c_dest cat1) -> dest_ok U dn (c_dest (sw_default r)) ->
  switch_sim U ueqb ustr dn kp r (slot_dec (dest_of U kp (c_dest cat1)) (dest_of U kp (c_dest (sw_default r)))).

Lemma two_payload : row_payload U tp q = Some (act_payload U a).
Proof. destruct (action_ok_spec U a Hok) as (tp' & q' & E1 & E2). rewrite Hfields in E1. injection E1 as <- <-. exact E2. Qed.

Lemma two_row_tp : row_tp U m 0 = Some (tp, node_base_pay m ++ q).
Proof. apply (row_tp_action U m 0 a tp q); [rewrite Hact; reflexivity|exact Hfields]. Qed.

Lemma two_nk : nk U m 0 = (cls, [act_payload U a], Some d0).
Proof. unfold nk. rewrite two_row_tp, abs_nkind_base, Hnk. unfold acts_of. rewrite two_payload. reflexivity. Qed.

Lemma two_runnable : runnable U strip m.
Proof.
  unfold runnable. rewrite Hact. cbn [List.length Nat.max]. split; [|split].
  - intros j Hj. assert (j = 0%nat) by lia. subst j. exists tp, (node_base_pay m ++ q). split; [exact two_row_tp|exact Htp].
  - intros j Hj. lia.
  - reflexivity.
Qed.

Lemma two_init : init_node U m = slotN DNone DNone /\ cls_of U m = cls.
Proof.
  unfold init_node, all_acts, dec0_of, cls_of, acts_at. rewrite Hact. cbn [List.length Nat.max seq flat_map]. rewrite two_nk. cbn [fst snd app].
  split; [|reflexivity]. unfold slotN, slot_dec. destruct Hcats as (E1 & E2 & E3 & E4 & E5). destruct d0; cbn in *. subst. reflexivity.
Qed.

Lemma two_sens c : sens U m c = false.
Proof. unfold sens. rewrite Hk. destruct kd; [contradiction| | |]; reflexivity. Qed.

Lemma two_kept p : kept U m p = match fst p with Some _ => true | None => false end.
Proof.
  unfold kept. destruct (fst p); [reflexivity|]. unfold nkeep, has_free_cases. rewrite Hk.
  destruct kd; [contradiction| | |]; rewrite andb_false_r; reflexivity.
Qed.

Theorem two_good : node_good U ueqb ustr strip m.
Proof.
  split; [apply two_runnable|]. intros sn prs Hsn Hp. rewrite Hpairs in Hp. injection Hp as <-.
  split; [intros p _ Hs; rewrite two_sens in Hs; discriminate|].
  split; [cbn [map filter]; rewrite !two_sens; constructor|].
  intros kp dn Hdn. destruct two_init as [Ei Ec]. rewrite Ei, Ec.
  exists (fun N => exists t1 t2, N = slotN t1 t2).
  assert (HX : forall x, In x (Xabs U kp m [(c_dest cat1, {| e_from := last_row_id m sn; e_cond := c1 |}); (c_dest (sw_default r), {| e_from := last_row_id m sn; e_cond := c2 |})]) ->
               x = (c1, dest_of U kp (c_dest cat1)) \/ x = (c2, dest_of U kp (c_dest (sw_default r)))).
  { unfold Xabs. intros x Hx. apply in_map_iff in Hx as (p & <- & Hp). apply filter_In in Hp as [[<-|[<-|[]]] _]; cbn [fst snd e_cond]; auto. }
  split; [exists DNone, DNone; reflexivity|]. split; [|split].
  - intros N y b Hy (t1 & t2 & ->) Hb. destruct (HX y Hy) as [-> | ->].
    + rewrite Hstep1 in Hb. injection Hb as <-. eauto.
    + rewrite Hstep2 in Hb. injection Hb as <-. eauto.
  - intros x y Hx Hy _ N (t1 & t2 & ->). destruct (HX x Hx) as [-> | ->]; destruct (HX y Hy) as [-> | ->]; unfold step2, obind;
      repeat (first [rewrite Hstep1 | rewrite Hstep2]; cbn iota); reflexivity.
  - assert (D1 : dest_ok U dn (c_dest cat1)) by (intros d' Ed; apply (Hdn d' {| e_from := last_row_id m sn; e_cond := c1 |}); rewrite <- Ed; left; reflexivity).
    assert (D2 : dest_ok U dn (c_dest (sw_default r))) by (intros d' Ed; apply (Hdn d' {| e_from := last_row_id m sn; e_cond := c2 |}); rewrite <- Ed; right; left; reflexivity).
    exists (slotN (dest_of U kp (c_dest cat1)) (dest_of U kp (c_dest (sw_default r)))). split.
    + unfold Xabs. cbn [filter]. rewrite !two_kept. cbn [fst snd e_cond]. unfold fold_opt.
      destruct (c_dest cat1) as [x1|], (c_dest (sw_default r)) as [x2|]; cbn [map fold_left dest_of]; repeat (first [rewrite Hstep1 | rewrite Hstep2]; cbn iota); reflexivity.
    + apply (NS_switch U ueqb ustr dn kp m _ kd r (slot_dec (dest_of U kp (c_dest cat1)) (dest_of U kp (c_dest (sw_default r)))) Hk); cbn [slotN rn_actions rn_dec]; [rewrite Hact; reflexivity|reflexivity|].
      apply (Hsim kp dn D1 D2).
Qed.
End TwoSlot.

(* ---------------------------------------------------------------- booleans *)
Lemma strs_eqb_eq a b : strs_eqb a b = true -> a = b.
Proof.
  revert b. induction a as [|x a IH]; intros [|y b]; cbn [strs_eqb]; try discriminate; [reflexivity|].
  intros H. apply andb_true_iff in H as [H1 H2]. apply str_eqb_eq in H1. rewrite H1, (IH b H2). reflexivity.
Qed.

Lemma one_case_spec (k : rcase U) tp arg cat : one_case U ueqb k tp arg cat = true ->
  k = {| k_type := tp; k_group := None; k_args := [arg]; k_cat := cat |}.
Proof.
  unfold one_case. intros H. apply andb_true_iff in H as [H H4]. apply andb_true_iff in H as [H H3]. apply andb_true_iff in H as [H1 H2].
  apply str_eqb_eq in H1. apply strs_eqb_eq in H2. apply ueqb_spec in H3. destruct k as [t g a c]. cbn in *. destruct g; [discriminate|]. subst. reflexivity.
Qed.

Lemma ueqb_neq a b : ueqb a b = false -> ueqb b a = false.
Proof. intros H. destruct (ueqb b a) eqn:E; [|reflexivity]. apply ueqb_spec in E. subst. rewrite ueqb_refl' in H. discriminate. Qed.

(* ---------------------------------------------------------------- start_new_flow *)
Section EnterNode.
Variables (m : node U) (r : srouter U) (nm : str) (fu : option U).
Hypothesis Hk : n_kind m = NRouter U KEnterFlow r.
Hypothesis Hact : n_actions m = [ActEnterFlow U nm fu].
Hypothesis Hok : action_ok U (ActEnterFlow U nm fu) = true.
Hypothesis Hr : enter_ok U ueqb r = true.

Definition cv (s : str) : cond U := {| cd_value := PS s; cd_variable := []; cd_type := []; cd_name := [] |}.

Lemma case_cond_child (r0 : srouter U) (k : rcase U) c v :
  sw_operand r0 = child_status_operand -> k_type k = s_has_only_text -> k_group k = None -> k_args k = [v] ->
  case_cond r0 k c = Ok (cv v).
Proof.
  intros H1 H2 H3 H4. unfold case_cond, cond_arg. rewrite H1, H2.
  cbn [str_eqb N.eqb Pos.eqb andb orb groups_operand child_status_operand has_group_type s_has_only_text]. rewrite andb_false_r.
  unfold case_arg0. rewrite H3, H4. reflexivity.
Qed.

Theorem enter_good : node_good U ueqb ustr strip m.
Proof.
  destruct r as [op rs w cases cats dflt nr]. unfold enter_ok, plain_router in Hr. cbn [sw_wait sw_noresp sw_result sw_operand sw_cats sw_cases sw_default] in Hr.
  apply andb_true_iff in Hr as [Hr1 Hr2]. apply andb_true_iff in Hr1 as [Hp Hop].
  destruct w; [discriminate|]. destruct nr; [discriminate|]. destruct rs; [|discriminate]. apply str_eqb_eq in Hop. subst op.
  destruct cats as [|c [|c' cats]]; try discriminate. destruct cases as [|k1 [|k2 [|k3 cases]]]; try discriminate.
  apply andb_true_iff in Hr2 as [Hr2 Hk2]. apply andb_true_iff in Hr2 as [Hr2 Hk1]. apply andb_true_iff in Hr2 as [Hr2 Hne]. apply andb_true_iff in Hr2 as [Hn1 Hn2].
  apply str_eqb_eq in Hn1, Hn2. apply negb_true_iff in Hne. apply one_case_spec in Hk1, Hk2. subst k1 k2.
  pose proof (ueqb_neq _ _ Hne) as Hne'.
  apply (two_good m KEnterFlow _ (ActEnterFlow U nm fu) (lit "start_new_flow") _ EFlow dec_enter (cv s_completed) (cv s_expired) c s_Complete s_Expired Hk
           ltac:(discriminate) Hact Hok eq_refl).
  - reflexivity.
  - reflexivity.
  - intros last. unfold exit_edge_pairs, switch_pairs. rewrite Hk, P_cases.
    cbn [all_categories sw_cats sw_default sw_noresp sw_cases app case_pairs find k_cat].
    rewrite ueqb_refl'. cbn iota. rewrite (case_cond_child _ _ _ s_completed) by reflexivity. cbn [bind].
    rewrite Hne', ueqb_refl'. cbn iota. rewrite (case_cond_child _ _ _ s_expired) by reflexivity. cbn [bind fst snd mem_u existsb]. rewrite ueqb_refl'.
    cbn [orb app noresp_pairs sw_noresp]. reflexivity.
  - repeat split; reflexivity.
  - intros t1 t2 t. reflexivity.
  - intros t1 t2 t. reflexivity.
  - intros kp dn D1 D2. constructor; cbn [slot_dec rd_random rd_operand rd_result rd_cases rd_default sw_operand sw_result sw_cases sw_default].
    + reflexivity.
    + reflexivity.
    + reflexivity.
    + constructor; [|constructor; [|constructor]].
      * split; [reflexivity|]. split; [reflexivity|]. exists (CFixed s_Complete, dest_of U kp (c_dest c)), c. split; [reflexivity|].
        split; [unfold cat_of_uuid; cbn [all_categories sw_cats app find k_cat]; rewrite ueqb_refl'; reflexivity|].
        split; [symmetry; exact Hn1|split; [reflexivity|exact D1]].
      * split; [reflexivity|]. split; [reflexivity|]. exists (CFixed s_Expired, dest_of U kp (c_dest dflt)), dflt. split; [reflexivity|].
        split; [unfold cat_of_uuid; cbn [all_categories sw_cats sw_default sw_noresp app find k_cat]; rewrite Hne', ueqb_refl'; reflexivity|].
        split; [symmetry; exact Hn2|split; [reflexivity|exact D2]].
    + split; [symmetry; exact Hn2|split; [reflexivity|exact D2]].
    + unfold cat_of_uuid. cbn [all_categories sw_cats sw_default sw_noresp app find]. rewrite Hne', ueqb_refl'. reflexivity.
    + unfold wait_sim, wait_of. cbn [sw_wait]. reflexivity.
Qed.
End EnterNode.

(* ---------------------------------------------------------------- call_webhook, transfer_airtime *)
Definition odec (operand test : str) : rdec :=
  mkDec false operand WNone None [(test, [Some s_Success], 0%nat)] [(CFixed s_Success, DNone)] (CFixed s_Failure, DNone) None.

Section OutcomeNode.
Variables (m : node U) (kd : rkind) (r : srouter U) (a : action U) (tp : str) (q : pay U) (operand test : str).
Hypothesis Hk : n_kind m = NRouter U kd r.
Hypothesis Hkd : kd <> KSwitch.
Hypothesis Hact : n_actions m = [a].
Hypothesis Hok : action_ok U a = true.
Hypothesis Hfields : action_fields a = Ok (tp, q).
Hypothesis Hnk : abs_nkind U tp q = (EOutcome, acts_of U tp q, Some (odec operand test)).
Hypothesis Htp : is_node_type tp = true.
Hypothesis Hr : outcome_ok U ueqb r operand test = true.
Hypothesis Hnab : mem_str test no_args_tests = false.
Hypothesis Hop : str_eqb operand groups_operand = false /\ str_eqb operand child_status_operand = false.
Hypothesis Htest : str_eqb test has_group_type = false.

Definition ocond : cond U := {| cd_value := PS s_Success; cd_variable := operand; cd_type := test; cd_name := s_Success |}.

Theorem outcome_good : node_good U ueqb ustr strip m.
Proof.
  destruct r as [op rs w cases cats dflt nr]. unfold outcome_ok, plain_router in Hr. cbn [sw_wait sw_noresp sw_result sw_operand sw_cats sw_cases sw_default] in Hr.
  apply andb_true_iff in Hr as [Hr1 Hr2]. apply andb_true_iff in Hr1 as [Hp Hopr].
  destruct w; [discriminate|]. destruct nr; [discriminate|]. destruct rs; [|discriminate]. apply str_eqb_eq in Hopr. subst op.
  destruct cats as [|c [|c' cats]]; try discriminate. destruct cases as [|k1 [|k2 cases]]; try discriminate.
  apply andb_true_iff in Hr2 as [Hr2 Hk1]. apply andb_true_iff in Hr2 as [Hr2 Hne]. apply andb_true_iff in Hr2 as [Hn1 Hn2].
  apply str_eqb_eq in Hn1, Hn2. apply negb_true_iff in Hne. apply one_case_spec in Hk1. subst k1.
  pose proof (ueqb_neq _ _ Hne) as Hne'. destruct Hop as [Hop1 Hop2].
  apply (two_good m kd _ a tp q EOutcome (odec operand test) ocond no_cond c s_Success s_Failure Hk Hkd Hact Hok Hfields Hnk Htp).
  - intros last. unfold exit_edge_pairs, switch_pairs. rewrite Hk, P_cases.
    cbn [all_categories sw_cats sw_default sw_noresp sw_cases app case_pairs find k_cat]. rewrite ueqb_refl'. cbn iota.
    unfold case_cond, cond_arg. cbn [sw_operand k_type k_group k_args]. rewrite Hop1, Hop2, Hnab, Htest. cbn [orb andb]. rewrite andb_false_r.
    cbn [case_arg0 k_group k_args bind fst snd mem_u existsb]. rewrite Hne'. cbn [orb app noresp_pairs sw_noresp]. rewrite Hn1. reflexivity.
  - repeat split; reflexivity.
  - intros t1 t2 t. reflexivity.
  - intros t1 t2 t. reflexivity.
  - intros kp dn D1 D2. constructor; cbn [slot_dec odec rd_random rd_operand rd_result rd_cases rd_default sw_operand sw_result sw_cases sw_default].
    + reflexivity.
    + reflexivity.
    + reflexivity.
    + constructor; [|constructor].
      split; [reflexivity|]. split; [cbn [k_type]; unfold case_args; cbn [k_type k_args]; rewrite Htest; reflexivity|].
      exists (CFixed s_Success, dest_of U kp (c_dest c)), c. split; [reflexivity|].
      split; [unfold cat_of_uuid; cbn [all_categories sw_cats app find k_cat]; rewrite ueqb_refl'; reflexivity|].
      split; [symmetry; exact Hn1|split; [reflexivity|exact D1]].
    + split; [symmetry; exact Hn2|split; [reflexivity|exact D2]].
    + unfold cat_of_uuid. cbn [all_categories sw_cats sw_default sw_noresp app find]. rewrite Hne', ueqb_refl'. reflexivity.
    + unfold wait_sim, wait_of. cbn [sw_wait]. reflexivity.
Qed.
End OutcomeNode.

Lemma nab_only_text : mem_str s_has_only_text no_args_tests = false.
Proof. reflexivity. Qed.
Lemma nab_has_category : mem_str s_has_category no_args_tests = false.
Proof. reflexivity. Qed.

Theorem webhook_good (m : node U) (r : srouter U) url method body headers result key :
  n_kind m = NRouter U KWebhook r -> n_actions m = [ActWebhook U url method body headers result] ->
  action_ok U (ActWebhook U url method body headers result) = true -> field_key_chk result = Some key ->
  outcome_ok U ueqb r (lit "@results." ++ key ++ lit ".category") s_has_only_text = true ->
  node_good U ueqb ustr strip m.
Proof.
  intros Hk Hact Hok Hkey Hr.
  apply (outcome_good m KWebhook r _ (lit "call_webhook") _ (lit "@results." ++ key ++ lit ".category") s_has_only_text Hk ltac:(discriminate) Hact Hok eq_refl).
  - unfold abs_nkind. cbn [str_eqb N.eqb Pos.eqb andb t_wait t_split_value t_split_group t_split_random t_start_new_flow t_call_webhook].
    unfold dec_webhook. change (fld_s U _ (lit "save_name")) with result. rewrite Hkey. reflexivity.
  - reflexivity.
  - exact Hr.
  - apply nab_only_text.
  - split; reflexivity.
  - reflexivity.
Qed.

Theorem airtime_good (m : node U) (r : srouter U) amounts result key :
  n_kind m = NRouter U KAirtime r -> n_actions m = [ActAirtime U amounts result] ->
  action_ok U (ActAirtime U amounts result) = true -> field_key_chk result = Some key ->
  outcome_ok U ueqb r (lit "@results." ++ key) s_has_category = true ->
  node_good U ueqb ustr strip m.
Proof.
  intros Hk Hact Hok Hkey Hr.
  apply (outcome_good m KAirtime r _ (lit "transfer_airtime") _ (lit "@results." ++ key) s_has_category Hk ltac:(discriminate) Hact Hok eq_refl).
  - unfold abs_nkind. cbn [str_eqb N.eqb Pos.eqb andb t_wait t_split_value t_split_group t_split_random t_start_new_flow t_call_webhook t_transfer_airtime].
    unfold dec_airtime. change (fld_s U _ (lit "save_name")) with result. rewrite Hkey. reflexivity.
  - reflexivity.
  - exact Hr.
  - apply nab_has_category.
  - split; reflexivity.
  - reflexivity.
Qed.

End Routers.
