(* Facts about Exp/ToRows.v.
   Part A: equivariance of the export under an injective renaming of uuids.
   Part D: no uuid reaches a stripped sheet (over the regenerated exclusion table).
   The row ids (decimal printing, temporary ids pairwise distinct, numbered "1".."n", readable
   ids pairwise distinct, references resolve) are in Exp/RowIdFacts.v. *)
From Coq Require Import String.
From Coq Require Import List NArith Bool Arith Lia.
From RPFT Require Import Base.Sexp Base.PyStr Base.Result Gen.Tables Exp.ToRows.
Import ListNotations.

(* the regenerated tables stay folded in the inductive proofs: nothing below depends on their
   contents except the finite checks of Part D, which are vm_compute facts *)
Opaque no_args_tests short_types strip_excluded frm_field_headers.
(* the repair probes of translator/tables_c04.py stay folded as well: every proof below holds for
   both values (a proof that went through by computing the value of the tree at hand would break
   on the other tree) *)
Opaque split_rows_carry_save_name group_split_without_cases_exports loose_exit_rows pairs_follow_cases.

(* ------------------------------------------------------------------ generic helpers *)
Lemma rmap_bind {E S T V} (g : T -> V) (r : result E S) (k : S -> result E T) :
  rmap g (bind r k) = bind r (fun x => rmap g (k x)).
Proof. destruct r; reflexivity. Qed.

Lemma bind_rmap {E S T V} (g : S -> T) (r : result E S) (k : T -> result E V) :
  bind (rmap g r) k = bind r (fun x => k (g x)).
Proof. destruct r; reflexivity. Qed.

Lemma mapM_rn {E S S' T T'} (g : S -> S') (h : T -> T') (f : S -> result E T) (f' : S' -> result E T') :
  (forall x, f' (g x) = rmap h (f x)) ->
  forall l, mapM f' (map g l) = rmap (map h) (mapM f l).
Proof.
  intros H l. induction l as [|x r IH]; cbn; [reflexivity|].
  rewrite H. destruct (f x) as [y|e]; cbn; [|reflexivity].
  rewrite IH. destruct (mapM f r); reflexivity.
Qed.

Lemma foldM_rn {E S S' A A'} (fs : S -> S') (fa : A -> A')
      (f : A -> S -> result E A) (f' : A' -> S' -> result E A') :
  (forall a s, f' (fa a) (fs s) = rmap fa (f a s)) ->
  forall l a, foldM f' (map fs l) (fa a) = rmap fa (foldM f l a).
Proof.
  intros H l. induction l as [|x r IH]; intros a; cbn; [reflexivity|].
  rewrite H. destruct (f a x) as [a'|e]; cbn; [apply IH|reflexivity].
Qed.

Lemma find_map {S S'} (g : S -> S') (p : S -> bool) (p' : S' -> bool) :
  (forall x, p' (g x) = p x) -> forall l, find p' (map g l) = option_map g (find p l).
Proof.
  intros H l. induction l as [|x r IH]; cbn; [reflexivity|].
  rewrite H. destruct (p x); [reflexivity|exact IH].
Qed.

Lemma existsb_map {S S'} (g : S -> S') (p : S -> bool) (p' : S' -> bool) :
  (forall x, p' (g x) = p x) -> forall l, existsb p' (map g l) = existsb p l.
Proof.
  intros H l. induction l as [|x r IH]; cbn; [reflexivity|]. rewrite H, IH. reflexivity.
Qed.

(* ================================================================== Part A *)
Section Rename.
Variables (U U' : Type) (ueqb : U -> U -> bool) (ueqb' : U' -> U' -> bool).
Hypothesis ueqb_spec : forall a b, ueqb a b = true <-> a = b.
Hypothesis ueqb'_spec : forall a b, ueqb' a b = true <-> a = b.
Variable sg : U -> U'.
Hypothesis sg_inj : forall a b, sg a = sg b -> a = b.

Lemma ueqb_rn a b : ueqb' (sg a) (sg b) = ueqb a b.
Proof.
  destruct (ueqb a b) eqn:E.
  - apply ueqb_spec in E. subst. apply ueqb'_spec. reflexivity.
  - destruct (ueqb' (sg a) (sg b)) eqn:E'; [|reflexivity].
    apply ueqb'_spec in E'. apply sg_inj in E'. subst.
    assert (ueqb b b = true) as H by (apply ueqb_spec; reflexivity). congruence.
Qed.

(* ---- the renaming on every type *)
Definition rn_ou (o : option U) : option U' := option_map sg o.
Definition rn_pv (v : pv U) : pv U' := match v with PU u => PU (sg u) | PV v => PV v end.
Definition rn_cell (hc : str * pv U) : str * pv U' := (fst hc, rn_pv (snd hc)).
Definition rn_pay (p : pay U) : pay U' := map rn_cell p.
Definition rn_cat (c : category U) : category U' :=
  {| c_uuid := sg (c_uuid c); c_name := c_name c; c_dest := rn_ou (c_dest c) |}.
Definition rn_case (k : rcase U) : rcase U' :=
  {| k_type := k_type k; k_group := rn_ou (k_group k); k_args := k_args k; k_cat := sg (k_cat k) |}.
Definition rn_router (r : srouter U) : srouter U' :=
  {| sw_operand := sw_operand r; sw_result := sw_result r; sw_wait := sw_wait r;
     sw_cases := map rn_case (sw_cases r); sw_cats := map rn_cat (sw_cats r);
     sw_default := rn_cat (sw_default r); sw_noresp := option_map rn_cat (sw_noresp r) |}.
Definition rn_action (a : action U) : action U' :=
  match a with
  | ActSendMsg _ t q at_ tm => ActSendMsg U' t q at_ tm
  | ActSetField _ n v => ActSetField U' n v
  | ActSetProp _ p v => ActSetProp U' p v
  | ActGroups _ add gs => ActGroups U' add (map (fun g => (fst g, rn_ou (snd g))) gs)
  | ActSetResult _ n v c => ActSetResult U' n v c
  | ActUrn _ p s => ActUrn U' p s
  | ActEnterFlow _ n fu => ActEnterFlow U' n (rn_ou fu)
  | ActWebhook _ u m b h r => ActWebhook U' u m b h r
  | ActAirtime _ am r => ActAirtime U' am r
  | ActOther _ t => ActOther U' t
  end.
Definition rn_nkind (k : nkind U) : nkind U' :=
  match k with
  | NBasic _ d => NBasic U' (rn_ou d)
  | NRouter _ rk r => NRouter U' rk (rn_router r)
  | NRandom _ rs cats => NRandom U' rs (map rn_cat cats)
  end.
Definition rn_node (n : node U) : node U' :=
  {| n_uuid := sg (n_uuid n); n_actions := map rn_action (n_actions n); n_ui := n_ui n; n_kind := rn_nkind (n_kind n) |}.
Definition rn_cond (c : cond U) : cond U' :=
  {| cd_value := rn_pv (cd_value c); cd_variable := cd_variable c; cd_type := cd_type c; cd_name := cd_name c |}.
Definition rn_tid (t : tid U) : tid U' :=
  match t with TStart => TStart | TNode u s => TNode (sg u) s | TGoto k s => TGoto k s end.
Definition rn_edge {I J} (g : I -> J) (e : edge U I) : edge U' J :=
  {| e_from := g (e_from e); e_cond := rn_cond (e_cond e) |}.
Definition rn_row {I J} (g : I -> J) (r : row U I) : row U' J :=
  {| r_id := g (r_id r); r_type := r_type r; r_edges := map (rn_edge g) (r_edges r);
     r_goto := map g (r_goto r); r_pay := rn_pay (r_pay r) |}.
Definition rn_trow := rn_row rn_tid.
Definition rn_tedge := rn_edge rn_tid.
Definition rn_state (st : state U) : state U' :=
  {| st_vis := map sg (st_vis st); st_done := map sg (st_done st); st_rows := map rn_trow (st_rows st); st_k := st_k st |}.
Definition rn_pair (p : option U * edge U (tid U)) : option U' * edge U' (tid U') := (rn_ou (fst p), rn_tedge (snd p)).

(* ---- leaves *)
Lemma tid_eqb_rn a b : tid_eqb ueqb' (rn_tid a) (rn_tid b) = tid_eqb ueqb a b.
Proof. destruct a, b; cbn; try reflexivity. rewrite ueqb_rn. reflexivity. Qed.

Lemma tid_short_rn t : tid_short (rn_tid t) = tid_short t.
Proof. destruct t; reflexivity. Qed.

Lemma mem_u_rn u l : mem_u ueqb' (sg u) (map sg l) = mem_u ueqb u l.
Proof. unfold mem_u. apply existsb_map. intros x. apply ueqb_rn. Qed.

Lemma action_short_rn a : action_short (rn_action a) = action_short a.
Proof.
  destruct a; cbn; try reflexivity.
  destruct groups as [|[nm u] r]; reflexivity.
Qed.

Definition rn_tp (tp : str * pay U) : str * pay U' := (fst tp, rn_pay (snd tp)).

Lemma opt_uuid_rn o : opt_uuid (rn_ou o) = rn_pv (opt_uuid o).
Proof. destruct o; reflexivity. Qed.

Lemma action_fields_rn a : action_fields (rn_action a) = rmap rn_tp (action_fields a).
Proof.
  destruct a; cbn; try reflexivity.
  - destruct (split_attachments attachments) as [[[img aud] vid] rest].
    destruct templ as [[[nm tu] vars]|]; reflexivity.
  - destruct groups as [|[nm u] r]; cbn; [reflexivity|].
    unfold rn_tp; cbn. rewrite opt_uuid_rn, map_map. reflexivity.
  - destruct (nonempty category); reflexivity.
  - unfold rn_tp; cbn. rewrite opt_uuid_rn. reflexivity.
Qed.

Lemma case_arg0_rn k : case_arg0 (rn_case k) = option_map rn_pv (case_arg0 k).
Proof. unfold case_arg0; cbn. destruct (k_group k); cbn; [reflexivity|]. destruct (k_args k); reflexivity. Qed.

Lemma case_arg1_rn k : case_arg1 (rn_case k) = case_arg1 k.
Proof. unfold case_arg1; cbn. destruct (k_group k); reflexivity. Qed.

Lemma short_name_rn n : short_name (rn_node n) = short_name n.
Proof.
  unfold short_name; cbn. destruct (n_kind n) as [d|rk r|rs cats]; cbn.
  - destruct (n_actions n); cbn; [reflexivity|apply action_short_rn].
  - destruct rk; cbn; try reflexivity.
    + destruct (n_actions n); cbn; [reflexivity|apply action_short_rn].
    + destruct (n_actions n) as [|a r']; cbn; [reflexivity|]. destruct a; reflexivity.
    + destruct (n_actions n) as [|a r']; cbn; [reflexivity|]. destruct a; reflexivity.
  - reflexivity.
Qed.

Lemma split_save_name_rn s : rn_pay (split_save_name (U:=U) s) = split_save_name (U:=U') s.
Proof. unfold split_save_name. destruct split_rows_carry_save_name; reflexivity. Qed.

Lemma rn_tp_save t (a : pay U) s :
  (t, rn_pay a ++ split_save_name (U:=U') s) = rn_tp (t, a ++ split_save_name (U:=U) s).
Proof. unfold rn_tp; cbn [fst snd]. unfold rn_pay at 2. rewrite map_app. fold (rn_pay (split_save_name (U:=U) s)). rewrite split_save_name_rn. reflexivity. Qed.

Lemma router_kwargs_rn r : router_kwargs (rn_router r) = rmap rn_tp (router_kwargs r).
Proof.
  unfold router_kwargs; cbn [sw_wait sw_operand sw_cases sw_result rn_router].
  destruct (sw_wait r); [reflexivity|].
  destruct (str_eqb (sw_operand r) groups_operand).
  - destruct (sw_cases r) as [|k ks]; cbn [map].
    + destruct group_split_without_cases_exports; [|reflexivity].
      cbn [rmap]. rewrite <- rn_tp_save. reflexivity.
    + rewrite case_arg1_rn, case_arg0_rn.
      destruct (case_arg1 k); [|reflexivity]. destruct (case_arg0 k); [|reflexivity].
      cbn [option_map rmap]. rewrite <- rn_tp_save. reflexivity.
  - cbn [rmap]. rewrite <- rn_tp_save. reflexivity.
Qed.

Lemma node_kwargs_rn n : node_kwargs (rn_node n) = rmap (option_map rn_tp) (node_kwargs n).
Proof.
  unfold node_kwargs; cbn [n_kind rn_node]. destruct (n_kind n) as [d|rk r|rs cats]; cbn [rn_nkind rmap option_map].
  - reflexivity.
  - destruct rk; cbn; try reflexivity.
    rewrite router_kwargs_rn. destruct (router_kwargs r); reflexivity.
  - unfold rn_tp; cbn [fst snd]. rewrite split_save_name_rn. reflexivity.
Qed.

Lemma node_base_pay_rn n : node_base_pay (rn_node n) = rn_pay (node_base_pay n).
Proof. unfold node_base_pay; cbn. destruct (n_ui n) as [[l t]|]; reflexivity. Qed.

Lemma rn_pay_app a b : rn_pay (a ++ b) = rn_pay a ++ rn_pay b.
Proof. apply map_app. Qed.

Lemma action_rows_rn u sn base acts : forall i pe,
  action_rows (sg u) sn (rn_pay base) (map rn_action acts) i (rn_tedge pe)
  = rmap (map rn_trow) (action_rows u sn base acts i pe).
Proof.
  induction acts as [|a rest IH]; intros i pe; cbn [action_rows map]; [reflexivity|].
  rewrite action_fields_rn. destruct (action_fields a) as [tp|e]; cbn [rmap bind]; [|reflexivity].
  assert (Hpe : forall s, {| e_from := TNode (sg u) s; e_cond := @no_cond U' |}
                          = rn_tedge {| e_from := TNode u s; e_cond := no_cond |}) by reflexivity.
  cbn [fst snd rn_tp]. rewrite Hpe, IH.
  destruct (action_rows u sn base rest (S i) _); cbn [rmap bind]; [|reflexivity].
  cbn [map]. unfold rn_trow at 2, rn_row. cbn. rewrite rn_pay_app. reflexivity.
Qed.

Lemma initiate_row_models_rn n sn pe :
  initiate_row_models (rn_node n) sn (rn_tedge pe) = rmap (map rn_trow) (initiate_row_models n sn pe).
Proof.
  unfold initiate_row_models. rewrite node_kwargs_rn.
  destruct (node_kwargs n) as [kw|e]; cbn [rmap bind]; [|reflexivity].
  rewrite node_base_pay_rn. cbn [n_actions rn_node n_uuid].
  destruct (n_actions n) as [|a rest]; cbn [map].
  - destruct kw as [[tp p]|]; cbn [option_map rn_tp fst snd rmap]; [|reflexivity].
    unfold rn_trow, rn_row; cbn. rewrite rn_pay_app. reflexivity.
  - change (rn_action a :: map rn_action rest) with (map rn_action (a :: rest)).
    apply action_rows_rn.
Qed.

Lemma last_row_id_rn n sn : last_row_id (rn_node n) sn = rn_tid (last_row_id n sn).
Proof. unfold last_row_id; cbn. rewrite map_length. reflexivity. Qed.

Lemma cond_arg_rn r k : cond_arg (rn_router r) (rn_case k) = option_map rn_pv (cond_arg r k).
Proof.
  unfold cond_arg. cbn [sw_operand rn_router k_type rn_case].
  destruct (str_eqb (sw_operand r) groups_operand || (has_group_case_by_name && str_eqb (k_type k) has_group_type)).
  - rewrite case_arg1_rn. destruct (case_arg1 k); reflexivity.
  - apply case_arg0_rn.
Qed.

Lemma case_cond_rn r k c : case_cond (rn_router r) (rn_case k) (rn_cat c) = rmap rn_cond (case_cond r k c).
Proof.
  unfold case_cond. rewrite cond_arg_rn. cbn [sw_operand rn_router k_type rn_case c_name rn_cat].
  destruct (str_eqb (sw_operand r) groups_operand || str_eqb (sw_operand r) child_status_operand).
  - destruct (cond_arg r k); reflexivity.
  - destruct (mem_str (k_type k) no_args_tests); cbn [bind]; [reflexivity|].
    destruct (cond_arg r k); reflexivity.
Qed.

Definition rn_pc (pc : pairs U * list U) : pairs U' * list U' := (map rn_pair (fst pc), map sg (snd pc)).

Lemma category_pairs_rn r last cats : forall covered,
  category_pairs ueqb' (rn_router r) (rn_tid last) (map rn_cat cats) (map sg covered)
  = rmap rn_pc (category_pairs ueqb r last cats covered).
Proof.
  induction cats as [|c rest IH]; intros covered; cbn; [reflexivity|].
  rewrite (find_map rn_case (fun k => ueqb (k_cat k) (c_uuid c))) by (intros x; cbn; apply ueqb_rn).
  destruct (find _ (sw_cases r)) as [k|]; cbn; [|apply IH].
  rewrite case_cond_rn. destruct (case_cond r k c) as [cd|e]; cbn; [|reflexivity].
  specialize (IH (c_uuid c :: covered)). cbn in IH. rewrite IH.
  destruct (category_pairs ueqb r last rest (c_uuid c :: covered)) as [[ps cv]|e]; reflexivity.
Qed.

Lemma case_pairs_rn r last cats cases : forall covered,
  case_pairs ueqb' (rn_router r) (rn_tid last) (map rn_cat cats) (map rn_case cases) (map sg covered)
  = rmap rn_pc (case_pairs ueqb r last cats cases covered).
Proof.
  induction cases as [|k rest IH]; intros covered; cbn [case_pairs map]; [reflexivity|].
  rewrite (find_map rn_cat (fun c => ueqb (k_cat k) (c_uuid c))) by (intros x; cbn; apply ueqb_rn).
  destruct (find _ cats) as [c|]; cbn [option_map]; [|apply IH].
  rewrite case_cond_rn. destruct (case_cond r k c) as [cd|e]; cbn [rmap bind]; [|reflexivity].
  specialize (IH (c_uuid c :: covered)). cbn [map] in IH. cbn [c_uuid rn_cat]. rewrite IH.
  destruct (case_pairs ueqb r last cats rest (c_uuid c :: covered)) as [[ps cv]|e]; reflexivity.
Qed.

Lemma noresp_pairs_rn r last : noresp_pairs (rn_router r) (rn_tid last) = map rn_pair (noresp_pairs r last).
Proof.
  unfold noresp_pairs; cbn [sw_noresp rn_router]. destruct (sw_noresp r) as [c|]; cbn [option_map]; [|reflexivity].
  cbn [c_dest rn_cat]. destruct (c_dest c); cbn [option_map]; [reflexivity|].
  destruct loose_exit_rows; reflexivity.
Qed.

Lemma all_categories_rn r : all_categories (rn_router r) = map rn_cat (all_categories r).
Proof.
  unfold all_categories; cbn. rewrite !map_app. cbn. destruct (sw_noresp r); reflexivity.
Qed.

Lemma switch_pairs_rn r last :
  switch_pairs ueqb' (rn_router r) (rn_tid last) = rmap (map rn_pair) (switch_pairs ueqb r last).
Proof.
  unfold switch_pairs. rewrite all_categories_rn, noresp_pairs_rn.
  change (@nil U') with (map sg (@nil U)).
  assert (Htail : forall ps cv,
    map rn_pair ps
    ++ (if mem_u ueqb' (c_uuid (sw_default (rn_router r))) (map sg cv) then []
        else [(c_dest (sw_default (rn_router r)), {| e_from := rn_tid last; e_cond := no_cond |})])
    ++ map rn_pair (noresp_pairs r last)
    = map rn_pair (ps ++ (if mem_u ueqb (c_uuid (sw_default r)) cv then []
                          else [(c_dest (sw_default r), {| e_from := last; e_cond := no_cond |})])
                      ++ noresp_pairs r last)).
  { intros ps cv. cbn [sw_default rn_router c_uuid c_dest rn_cat]. rewrite mem_u_rn, !map_app.
    destruct (mem_u ueqb (c_uuid (sw_default r)) cv); reflexivity. }
  destruct pairs_follow_cases.
  - cbn [sw_cases rn_router]. rewrite case_pairs_rn.
    destruct (case_pairs ueqb r last (all_categories r) (sw_cases r) []) as [[ps cv]|e]; cbn [rmap bind rn_pc fst snd]; [|reflexivity].
    rewrite Htail. reflexivity.
  - rewrite category_pairs_rn.
    destruct (category_pairs ueqb r last (all_categories r) []) as [[ps cv]|e]; cbn [rmap bind rn_pc fst snd]; [|reflexivity].
    rewrite Htail. reflexivity.
Qed.

Lemma exit_edge_pairs_rn n last :
  exit_edge_pairs ueqb' (rn_node n) (rn_tid last) = rmap (map rn_pair) (exit_edge_pairs ueqb n last).
Proof.
  unfold exit_edge_pairs; cbn. destruct (n_kind n) as [d|rk r|rs cats]; cbn.
  - reflexivity.
  - apply switch_pairs_rn.
  - rewrite !map_map. reflexivity.
Qed.

Lemma find_node_rn nodes u :
  find_node ueqb' (map rn_node nodes) (sg u) = option_map rn_node (find_node ueqb nodes u).
Proof.
  induction nodes as [|n rest IH]; cbn; [reflexivity|].
  rewrite ueqb_rn. destruct (ueqb (n_uuid n) u); [reflexivity|exact IH].
Qed.

Lemma prepend_edge_rn t e rows :
  prepend_edge ueqb' (rn_tid t) (rn_tedge e) (map rn_trow rows) = option_map (map rn_trow) (prepend_edge ueqb t e rows).
Proof.
  induction rows as [|r rest IH]; cbn; [reflexivity|].
  rewrite tid_eqb_rn. destruct (tid_eqb ueqb (r_id r) t); [reflexivity|].
  rewrite IH. destruct (prepend_edge ueqb t e rest); reflexivity.
Qed.

Lemma step_rn nodes rec rec' :
  (forall c e s, rec' (rn_node c) (rn_tedge e) (rn_state s) = rmap rn_state (rec c e s)) ->
  forall st p, step ueqb' (map rn_node nodes) rec' (rn_state st) (rn_pair p) = rmap rn_state (step ueqb nodes rec st p).
Proof.
  intros Hrec st [d e]. unfold step. cbn [fst snd rn_pair rn_ou option_map].
  destruct d as [d|]; cbn [rn_ou option_map]; [|reflexivity].
  rewrite find_node_rn. destruct (find_node ueqb nodes d) as [child|]; cbn [option_map]; [|reflexivity].
  cbn [n_uuid rn_node st_done st_vis rn_state st_rows st_k].
  rewrite !mem_u_rn, short_name_rn.
  destruct (mem_u ueqb (n_uuid child) (st_done st)).
  - destruct (short_name child) as [csn|er]; cbn; [|reflexivity].
    change (TNode (sg (n_uuid child)) csn) with (rn_tid (TNode (n_uuid child) csn)).
    rewrite prepend_edge_rn. destruct (prepend_edge ueqb _ e (st_rows st)); reflexivity.
  - destruct (mem_u ueqb (n_uuid child) (st_vis st)).
    + destruct (short_name child) as [csn|er]; reflexivity.
    + apply Hrec.
Qed.

Lemma cond_blank_rn c : cond_blank (rn_cond c) = cond_blank c.
Proof. unfold cond_blank; cbn. destruct (cd_value c) as [u|[v|l|l]]; reflexivity. Qed.

Lemma has_free_cases_rn n : has_free_cases (rn_node n) = has_free_cases n.
Proof. unfold has_free_cases; cbn [n_kind rn_node]. destruct (n_kind n) as [d|rk r|rs cats]; [reflexivity| |reflexivity]. destruct rk; reflexivity. Qed.

Lemma step_fx_rn nodes keep sn rec rec' :
  (forall c e s, rec' (rn_node c) (rn_tedge e) (rn_state s) = rmap rn_state (rec c e s)) ->
  forall st p, step_fx ueqb' (map rn_node nodes) keep sn rec' (rn_state st) (rn_pair p)
               = rmap rn_state (step_fx ueqb nodes keep sn rec st p).
Proof.
  intros Hrec st [d e]. unfold step_fx. cbn [fst snd rn_pair].
  destruct d as [d|]; cbn [rn_ou option_map].
  - apply (step_rn nodes rec rec' Hrec st (Some d, e)).
  - cbn [e_cond rn_tedge rn_edge]. rewrite cond_blank_rn.
    destruct (keep && negb (cond_blank (e_cond e))); reflexivity.
Qed.

Lemma visit_rn nodes : forall fuel n pe st,
  visit ueqb' (map rn_node nodes) fuel (rn_node n) (rn_tedge pe) (rn_state st)
  = rmap rn_state (visit ueqb nodes fuel n pe st).
Proof.
  induction fuel as [|fuel IH]; intros n pe st; cbn; [reflexivity|].
  rewrite short_name_rn. destruct (short_name n) as [sn|e]; cbn; [|reflexivity].
  rewrite initiate_row_models_rn. destruct (initiate_row_models n sn pe) as [rms|e]; cbn; [|reflexivity].
  rewrite last_row_id_rn, exit_edge_pairs_rn.
  destruct (exit_edge_pairs ueqb n (last_row_id n sn)) as [prs|e]; cbn; [|reflexivity].
  rewrite <- map_rev.
  match goal with |- context [foldM _ _ ?s0] =>
    change s0 with (rn_state {| st_vis := n_uuid n :: st_vis st; st_done := st_done st; st_rows := st_rows st; st_k := st_k st |}) end.
  rewrite has_free_cases_rn.
  rewrite (foldM_rn rn_pair rn_state (step_fx ueqb nodes (loose_exit_rows && has_free_cases n) sn (visit ueqb nodes fuel))).
  2:{ intros a s. apply step_fx_rn. exact IH. }
  destruct (foldM _ (rev prs) _) as [st'|e]; cbn; [|reflexivity].
  unfold rn_state; cbn. rewrite map_app. reflexivity.
Qed.

Lemma to_rows_tmp_rn nodes :
  to_rows_tmp ueqb' (map rn_node nodes) = rmap (map rn_trow) (to_rows_tmp ueqb nodes).
Proof.
  unfold to_rows_tmp. destruct nodes as [|n0 rest]; cbn [map]; [reflexivity|].
  change (rn_node n0 :: map rn_node rest) with (map rn_node (n0 :: rest)). rewrite map_length.
  change (@start_edge U') with (rn_tedge (@start_edge U)).
  change (@state0 U') with (rn_state (@state0 U)).
  rewrite visit_rn. destruct (visit ueqb _ _ n0 _ _); reflexivity.
Qed.

(* ---- remapping *)
Definition rn_map (m : idmap U) : idmap U' := map (fun ts => (rn_tid (fst ts), snd ts)) m.

Lemma mget_rn m t : mget ueqb' (rn_map m) (rn_tid t) = mget ueqb m t.
Proof.
  induction m as [|[t' s] r IH]; cbn; [reflexivity|].
  rewrite tid_eqb_rn. destruct (tid_eqb ueqb t' t); [reflexivity|exact IH].
Qed.

Lemma mset_rn m t s : mset ueqb' (rn_map m) (rn_tid t) s = rn_map (mset ueqb m t s).
Proof.
  induction m as [|[t' s'] r IH]; cbn [rn_map map mset fst snd]; [reflexivity|].
  fold (rn_map r). rewrite tid_eqb_rn.
  destruct (tid_eqb ueqb t' t); cbn [rn_map map fst snd]; [reflexivity|].
  fold (rn_map (mset ueqb r t s)). rewrite IH. reflexivity.
Qed.

Lemma rn_map_values m : map snd (rn_map m) = map snd m.
Proof. unfold rn_map. rewrite map_map. reflexivity. Qed.

Lemma build_map_rn nb rows : forall idx m,
  build_map ueqb' nb (map rn_trow rows) idx (rn_map m) = rmap rn_map (build_map ueqb nb rows idx m).
Proof.
  induction rows as [|r rest IH]; intros idx m; cbn; [reflexivity|].
  rewrite tid_short_rn, rn_map_values.
  destruct nb; cbn.
  - rewrite mset_rn. apply IH.
  - destruct (tid_short (r_id r)) as [base|e]; cbn; [|reflexivity].
    destruct (fresh_id base (map snd m)) as [new|e]; cbn; [|reflexivity].
    rewrite mset_rn. apply IH.
Qed.

Definition idf (s : str) : str := s.
Definition rn_frow := rn_row idf.

Lemma remap_edge_rn m e :
  remap_edge ueqb' (rn_map m) (rn_tedge e) = rmap (rn_edge idf) (remap_edge ueqb m e).
Proof.
  unfold remap_edge; cbn. rewrite mget_rn. destruct (mget ueqb m (e_from e)); reflexivity.
Qed.

Lemma remap_row_rn m r :
  remap_row ueqb' (rn_map m) (rn_trow r) = rmap rn_frow (remap_row ueqb m r).
Proof.
  unfold remap_row; cbn. rewrite mget_rn. destruct (mget ueqb m (r_id r)) as [id|e]; cbn; [|reflexivity].
  rewrite (mapM_rn rn_tid idf (mget ueqb m)) by (intros x; rewrite mget_rn; destruct (mget ueqb m x); reflexivity).
  destruct (mapM (mget ueqb m) (r_goto r)) as [gt|e]; cbn; [|reflexivity].
  rewrite (mapM_rn rn_tedge (rn_edge idf) (remap_edge ueqb m)) by (intros x; apply remap_edge_rn).
  destruct (mapM (remap_edge ueqb m) (r_edges r)) as [es|e]; cbn; [|reflexivity].
  unfold rn_frow, rn_row; cbn. unfold idf. rewrite (map_id gt). reflexivity.
Qed.

Lemma to_rows_rn nb nodes :
  to_rows ueqb' nb (map rn_node nodes) = rmap (map rn_frow) (to_rows ueqb nb nodes).
Proof.
  unfold to_rows. rewrite to_rows_tmp_rn.
  destruct (to_rows_tmp ueqb nodes) as [rows|e]; cbn; [|reflexivity].
  change (@idmap0 U') with (rn_map (@idmap0 U)). rewrite build_map_rn.
  destruct (build_map ueqb nb rows 0 idmap0) as [m|e]; cbn; [|reflexivity].
  apply mapM_rn. intros r. apply remap_row_rn.
Qed.

(* ---- cells *)
Lemma edges_cells_rn es : forall i,
  edges_cells i (map (rn_edge idf) es) = map rn_cell (edges_cells i es).
Proof.
  induction es as [|e rest IH]; intros i; cbn; [reflexivity|]. rewrite IH. reflexivity.
Qed.

Lemma row_cells_rn r : row_cells (rn_frow r) = map rn_cell (row_cells r).
Proof.
  unfold row_cells; cbn. rewrite edges_cells_rn. rewrite !map_app. cbn.
  unfold rn_pay. rewrite !map_map. unfold idf. rewrite map_id. reflexivity.
Qed.

Lemma strip_cells_rn excl cells : strip_cells excl (map rn_cell cells) = map rn_cell (strip_cells excl cells).
Proof.
  unfold strip_cells. induction cells as [|hc r IH]; cbn; [reflexivity|].
  destruct (negb (excluded excl (fst hc))); cbn; rewrite IH; reflexivity.
Qed.

(* export, every exclusion set: the sheet of the renamed flow is the renamed sheet *)
Lemma export_rn excl nb nodes :
  export ueqb' excl nb (map rn_node nodes) = rmap (map (map rn_cell)) (export ueqb excl nb nodes).
Proof.
  unfold export. rewrite to_rows_rn. destruct (to_rows ueqb nb nodes) as [rows|e]; cbn [rmap bind]; [|reflexivity].
  f_equal. rewrite !map_map. apply map_ext. intros r. rewrite row_cells_rn, strip_cells_rn. reflexivity.
Qed.

Lemma close_cells_rn cells : close_cells (map rn_cell cells) = close_cells cells.
Proof.
  induction cells as [|[h v] r IH]; cbn; [reflexivity|]. rewrite IH.
  destruct v; reflexivity.
Qed.

Lemma close_sheet_rn sh : close_sheet (map (map rn_cell) sh) = close_sheet sh.
Proof.
  induction sh as [|r rest IH]; cbn; [reflexivity|]. rewrite IH, close_cells_rn. reflexivity.
Qed.

(* C17-1.  The stripped export does not change under an injective renaming of the uuids
   (result type without uuids: [Ok None] = some uuid reached a cell, on both sides alike). *)
Theorem export_equivariant nb nodes :
  export_strip ueqb' nb (map rn_node nodes) = export_strip ueqb nb nodes.
Proof.
  unfold export_strip. rewrite export_rn.
  destruct (export ueqb strip_excluded nb nodes) as [sh|e]; cbn [rmap bind]; [|reflexivity].
  rewrite close_sheet_rn. reflexivity.
Qed.

End Rename.

(* ================================================================== Part D *)
(* No uuid reaches a stripped sheet.  Every [PU] that the row builders produce sits under a
   field listed in the regenerated [frm_uuid_fields]; the header of each such field matches
   the regenerated [strip_excluded] (finite check, recomputed over today's tables). *)

Lemma str_eqb_true s : forall t, str_eqb s t = true -> s = t.
Proof.
  induction s as [|a s IH]; intros [|b t] H; cbn in H; try discriminate; [reflexivity|].
  apply andb_true_iff in H. destruct H as [H1 H2]. apply N.eqb_eq in H1. subst. f_equal. apply IH, H2.
Qed.

Definition header_of_uuid_fields_excluded : bool :=
  forallb (fun fd => excluded strip_excluded (header_of fd)) frm_uuid_fields.

(* C17-4 (partial: relative to the model's inventory of uuid-typed fields). *)
Lemma excluded_cover : header_of_uuid_fields_excluded = true.
Proof. vm_compute. reflexivity. Qed.

Lemma obj_id_is_uuid_field : mem_str (lit "obj_id") frm_uuid_fields = true.
Proof. vm_compute. reflexivity. Qed.
Lemma node_uuid_is_uuid_field : mem_str (lit "node_uuid") frm_uuid_fields = true.
Proof. vm_compute. reflexivity. Qed.

Lemma uuid_field_excluded fd : mem_str fd frm_uuid_fields = true -> excluded strip_excluded (header_of fd) = true.
Proof.
  intros H. unfold mem_str in H. apply existsb_exists in H. destruct H as [x [Hin Hx]].
  apply str_eqb_true in Hx. subst x.
  pose proof excluded_cover as HC. unfold header_of_uuid_fields_excluded in HC.
  rewrite forallb_forall in HC. apply HC, Hin.
Qed.

Section NoUuid.
Variable U : Type.
Variable ueqb : U -> U -> bool.
Hypothesis ueqb_spec : forall a b, ueqb a b = true <-> a = b.

Definition pv_closed (v : pv U) : bool := match v with PU _ => false | PV _ => true end.
Definition edge_ok {I} (e : edge U I) : bool := pv_closed (cd_value (e_cond e)).
Definition fv_ok (fv : str * pv U) : bool := pv_closed (snd fv) || mem_str (fst fv) frm_uuid_fields.
Definition row_ok {I} (r : row U I) : bool := forallb edge_ok (r_edges r) && forallb fv_ok (r_pay r).
Definition rows_ok {I} (rows : list (row U I)) : Prop := Forall (fun r => row_ok r = true) rows.
Definition pairs_ok (prs : pairs U) : Prop := Forall (fun p => edge_ok (snd p) = true) prs.

Lemma fv_ok_obj v : fv_ok (lit "obj_id", v) = true.
Proof. unfold fv_ok. cbn [fst snd]. rewrite obj_id_is_uuid_field. apply orb_true_r. Qed.
Lemma fv_ok_node v : fv_ok (lit "node_uuid", v) = true.
Proof. unfold fv_ok. cbn [fst snd]. rewrite node_uuid_is_uuid_field. apply orb_true_r. Qed.
Lemma fv_ok_closed fd v : pv_closed v = true -> fv_ok (fd, v) = true.
Proof. intros H. unfold fv_ok. cbn [fst snd]. rewrite H. reflexivity. Qed.

Lemma action_fields_ok a tp : action_fields a = Ok tp -> forallb fv_ok (snd tp) = true.
Proof.
  destruct a; cbn [action_fields]; intros H; try discriminate.
  - destruct (split_attachments attachments) as [[[img aud] vid] rest].
    destruct templ as [[[nm tu] vars]|]; inversion H; subst; reflexivity.
  - inversion H; subst; reflexivity.
  - inversion H; subst; reflexivity.
  - destruct groups as [|[nm u0] r]; [discriminate|]. inversion H; subst. cbn [snd forallb].
    rewrite fv_ok_obj. reflexivity.
  - destruct (nonempty category); inversion H; subst; reflexivity.
  - inversion H; subst; reflexivity.
  - inversion H; subst. cbn [snd forallb]. rewrite fv_ok_obj. reflexivity.
  - inversion H; subst; reflexivity.
  - inversion H; subst; reflexivity.
Qed.

Lemma split_save_name_ok s : forallb fv_ok (split_save_name (U:=U) s) = true.
Proof. unfold split_save_name. destruct split_rows_carry_save_name; reflexivity. Qed.

Lemma router_kwargs_ok r tp : router_kwargs r = Ok tp -> forallb fv_ok (snd tp) = true.
Proof.
  unfold router_kwargs. destruct (sw_wait r).
  - intros H; inversion H; subst; reflexivity.
  - destruct (str_eqb (sw_operand r) groups_operand).
    + destruct (sw_cases r) as [|k ks].
      * destruct group_split_without_cases_exports; [|discriminate].
        intros H; injection H as <-. cbn [snd forallb]. rewrite split_save_name_ok, fv_ok_obj. reflexivity.
      * destruct (case_arg1 k); [|discriminate]. destruct (case_arg0 k); [|discriminate].
        intros H; injection H as <-. cbn [snd forallb]. rewrite split_save_name_ok, fv_ok_obj. reflexivity.
    + intros H; injection H as <-. cbn [snd forallb]. rewrite split_save_name_ok. reflexivity.
Qed.

Lemma node_base_pay_ok n : forallb fv_ok (node_base_pay n) = true.
Proof.
  unfold node_base_pay. cbn [forallb]. rewrite fv_ok_node. destruct (n_ui n) as [[l t]|]; reflexivity.
Qed.

Lemma action_rows_ok u sn base acts : forall i pe rms,
  forallb fv_ok base = true -> edge_ok pe = true ->
  action_rows u sn base acts i pe = Ok rms -> rows_ok rms.
Proof.
  induction acts as [|a rest IH]; intros i pe rms Hb Hpe H; cbn [action_rows] in H.
  - inversion H; subst. constructor.
  - destruct (action_fields a) as [tp|e] eqn:Ea; cbn [bind] in H; [|discriminate].
    destruct (action_rows u sn base rest (S i) _) as [more|e] eqn:Em; cbn [bind] in H; [|discriminate].
    inversion H; subst. constructor.
    + unfold row_ok. cbn [r_edges r_pay forallb]. rewrite Hpe. cbn [andb].
      rewrite forallb_app, Hb. apply (action_fields_ok _ _ Ea).
    + apply (IH _ _ _ Hb) in Em; [exact Em|reflexivity].
Qed.

Lemma initiate_row_models_ok n sn pe rms :
  edge_ok pe = true -> initiate_row_models n sn pe = Ok rms -> rows_ok rms.
Proof.
  intros Hpe H. unfold initiate_row_models in H.
  destruct (node_kwargs n) as [kw|e] eqn:Ek; cbn [bind] in H; [|discriminate].
  destruct (n_actions n) as [|a rest] eqn:Ea.
  - destruct kw as [[tp p]|]; [|discriminate].
    pose proof (node_base_pay_ok n) as Hb. set (bp := node_base_pay n) in *. clearbody bp.
    inversion H; subst. constructor; [|constructor].
    unfold row_ok. cbn [r_edges r_pay forallb]. rewrite Hpe. cbn [andb].
    rewrite forallb_app, Hb. cbn [andb].
    unfold node_kwargs in Ek. destruct (n_kind n) as [d|rk r|rs cats]; try discriminate.
    + destruct rk; try discriminate.
      destruct (router_kwargs r) as [kw'|e'] eqn:Er; cbn [bind] in Ek; [|discriminate].
      inversion Ek; subst. apply (router_kwargs_ok _ _ Er).
    + inversion Ek; subst. apply split_save_name_ok.
  - apply (action_rows_ok _ _ _ _ _ _ _ (node_base_pay_ok n) Hpe H).
Qed.

Lemma cond_arg_ok r k v :
  router_ok r = true -> In k (sw_cases r) -> cond_arg r k = Some v -> pv_closed v = true.
Proof.
  unfold router_ok, cond_arg. intros Hr Hin H.
  destruct (str_eqb (sw_operand r) groups_operand) eqn:Eg; cbn [orb] in *.
  - destruct (case_arg1 k); inversion H; subst; reflexivity.
  - rewrite forallb_forall in Hr. specialize (Hr k Hin). unfold case_ok in Hr.
    destruct (has_group_case_by_name && str_eqb (k_type k) has_group_type) eqn:Eh.
    + destruct (case_arg1 k); inversion H; subst; reflexivity.
    + unfold case_arg0 in H. destruct (k_group k); [discriminate|].
      destruct (k_args k); inversion H; subst; reflexivity.
Qed.

Lemma case_cond_ok r k c cd :
  router_ok r = true -> In k (sw_cases r) -> case_cond r k c = Ok cd -> pv_closed (cd_value cd) = true.
Proof.
  unfold case_cond. intros Hr Hin H.
  destruct (str_eqb (sw_operand r) groups_operand || str_eqb (sw_operand r) child_status_operand).
  - destruct (cond_arg r k) as [v|] eqn:E0; inversion H; subst. cbn [cd_value]. apply (cond_arg_ok _ _ _ Hr Hin E0).
  - destruct (mem_str (k_type k) no_args_tests); cbn [bind] in H.
    + inversion H; subst; reflexivity.
    + destruct (cond_arg r k) as [v|] eqn:E0; cbn [bind] in H; inversion H; subst. cbn [cd_value].
      apply (cond_arg_ok _ _ _ Hr Hin E0).
Qed.

Lemma category_pairs_ok r last cats : forall covered pc,
  router_ok r = true -> category_pairs ueqb r last cats covered = Ok pc -> pairs_ok (fst pc).
Proof.
  induction cats as [|c rest IH]; intros covered pc Hr H; cbn [category_pairs] in H.
  - inversion H; subst. constructor.
  - destruct (find _ (sw_cases r)) as [k|] eqn:Ef.
    + apply find_some in Ef. destruct Ef as [Hin _].
      destruct (case_cond r k c) as [cd|e] eqn:Ec; cbn [bind] in H; [|discriminate].
      destruct (category_pairs ueqb r last rest (c_uuid c :: covered)) as [more|e] eqn:Em; cbn [bind] in H; [|discriminate].
      inversion H; subst. cbn [fst]. constructor.
      * unfold edge_ok. cbn [snd e_cond]. apply (case_cond_ok _ _ _ _ Hr Hin Ec).
      * apply (IH _ _ Hr Em).
    + apply (IH _ _ Hr H).
Qed.

Lemma case_pairs_ok r last cats cases : forall covered pc,
  router_ok r = true -> (forall k, In k cases -> In k (sw_cases r)) ->
  case_pairs ueqb r last cats cases covered = Ok pc -> pairs_ok (fst pc).
Proof.
  induction cases as [|k rest IH]; intros covered pc Hr Hsub H; cbn [case_pairs] in H.
  - inversion H; subst. constructor.
  - assert (Hrest : forall k', In k' rest -> In k' (sw_cases r)) by (intros k' Hk'; apply Hsub; right; exact Hk').
    destruct (find _ cats) as [c|] eqn:Ef.
    + destruct (case_cond r k c) as [cd|e] eqn:Ec; cbn [bind] in H; [|discriminate].
      destruct (case_pairs ueqb r last cats rest (c_uuid c :: covered)) as [more|e] eqn:Em; cbn [bind] in H; [|discriminate].
      inversion H; subst. cbn [fst]. constructor.
      * unfold edge_ok. cbn [snd e_cond]. apply (case_cond_ok _ _ _ _ Hr (Hsub k (or_introl eq_refl)) Ec).
      * apply (IH _ _ Hr Hrest Em).
    + apply (IH _ _ Hr Hrest H).
Qed.

Lemma noresp_pairs_ok r last : pairs_ok (noresp_pairs r last).
Proof.
  unfold noresp_pairs. destruct (sw_noresp r) as [c|]; [|constructor].
  destruct (c_dest c); [constructor; [reflexivity|constructor]|].
  destruct loose_exit_rows; constructor; [reflexivity|constructor].
Qed.

Lemma exit_edge_pairs_ok n last prs :
  node_ok n = true -> exit_edge_pairs ueqb n last = Ok prs -> pairs_ok prs.
Proof.
  unfold node_ok, exit_edge_pairs. destruct (n_kind n) as [d|rk r|rs cats]; intros Hn H.
  - inversion H; subst. constructor; [reflexivity|constructor].
  - unfold switch_pairs in H.
    destruct (if pairs_follow_cases then _ else _) as [pc|e] eqn:Ec; cbn [bind] in H; [|discriminate].
    inversion H; subst. unfold pairs_ok. rewrite !Forall_app. split; [|split].
    + destruct pairs_follow_cases.
      * apply (case_pairs_ok _ _ _ _ _ _ Hn (fun k Hk => Hk) Ec).
      * apply (category_pairs_ok _ _ _ _ _ Hn Ec).
    + destruct (mem_u ueqb _ _); constructor; [reflexivity|constructor].
    + apply noresp_pairs_ok.
  - inversion H; subst. unfold pairs_ok. rewrite Forall_map. apply Forall_forall. intros c _. reflexivity.
Qed.

Lemma prepend_edge_ok t e rows rows' :
  edge_ok e = true -> rows_ok rows -> prepend_edge ueqb t e rows = Some rows' -> rows_ok rows'.
Proof.
  intros He. revert rows'. induction rows as [|r rest IH]; intros rows' Hok H; cbn [prepend_edge] in H; [discriminate|].
  inversion Hok as [|r0 l0 Hr Hrest]; subst.
  destruct (tid_eqb ueqb (r_id r) t).
  - inversion H; subst. constructor; [|exact Hrest].
    unfold row_ok in *. cbn [r_edges r_pay forallb]. rewrite He. exact Hr.
  - destruct (prepend_edge ueqb t e rest) as [rest'|] eqn:Ep; [|discriminate].
    inversion H; subst. constructor; [exact Hr|]. apply IH; [exact Hrest|reflexivity].
Qed.

Lemma find_node_in nodes u n : find_node ueqb nodes u = Some n -> In n nodes.
Proof.
  induction nodes as [|m rest IH]; cbn [find_node]; [discriminate|].
  destruct (ueqb (n_uuid m) u); intros H; [inversion H; subst; left; reflexivity|right; apply IH, H].
Qed.

Section Dfs.
Variable nodes : list (node U).
Hypothesis Hflow : flow_ok nodes = true.

Lemma node_in_ok n : In n nodes -> node_ok n = true.
Proof. unfold flow_ok in Hflow. rewrite forallb_forall in Hflow. apply Hflow. Qed.

Lemma step_ok rec :
  (forall c e s s', In c nodes -> edge_ok e = true -> rows_ok (st_rows s) -> rec c e s = Ok s' -> rows_ok (st_rows s')) ->
  forall st p st', edge_ok (snd p) = true -> rows_ok (st_rows st) ->
                   step ueqb nodes rec st p = Ok st' -> rows_ok (st_rows st').
Proof.
  intros Hrec st [d e] st' He Hok H. unfold step in H. cbn [fst snd] in *.
  destruct d as [d|]; [|inversion H; subst; exact Hok].
  destruct (find_node ueqb nodes d) as [child|] eqn:Ef; [|discriminate].
  apply find_node_in in Ef.
  destruct (mem_u ueqb (n_uuid child) (st_done st)).
  - destruct (short_name child) as [csn|er]; cbn [bind] in H; [|discriminate].
    destruct (prepend_edge ueqb _ e (st_rows st)) as [rows'|] eqn:Ep; [|discriminate].
    inversion H; subst. cbn [st_rows]. apply (prepend_edge_ok _ _ _ _ He Hok Ep).
  - destruct (mem_u ueqb (n_uuid child) (st_vis st)).
    + destruct (short_name child) as [csn|er]; cbn [bind] in H; [|discriminate].
      inversion H; subst. cbn [st_rows]. constructor; [|exact Hok].
      unfold row_ok, goto_row. cbn [r_edges r_pay forallb]. rewrite He. reflexivity.
    + apply (Hrec _ _ _ _ Ef He Hok H).
Qed.

Lemma step_fx_ok keep sn rec :
  (forall c e s s', In c nodes -> edge_ok e = true -> rows_ok (st_rows s) -> rec c e s = Ok s' -> rows_ok (st_rows s')) ->
  forall st p st', edge_ok (snd p) = true -> rows_ok (st_rows st) ->
                   step_fx ueqb nodes keep sn rec st p = Ok st' -> rows_ok (st_rows st').
Proof.
  intros Hrec st [d e] st' He Hok H. unfold step_fx in H. cbn [fst snd] in *.
  destruct d as [d|]; [apply (step_ok rec Hrec st (Some d, e) st' He Hok H)|].
  destruct (keep && negb (cond_blank (e_cond e))); inversion H; subst; [|exact Hok].
  cbn [st_rows]. constructor; [|exact Hok].
  unfold row_ok, loose_row. cbn [r_edges r_pay forallb]. rewrite He. reflexivity.
Qed.

Lemma foldM_step_ok keep sn rec :
  (forall c e s s', In c nodes -> edge_ok e = true -> rows_ok (st_rows s) -> rec c e s = Ok s' -> rows_ok (st_rows s')) ->
  forall prs st st', pairs_ok prs -> rows_ok (st_rows st) ->
                     foldM (step_fx ueqb nodes keep sn rec) prs st = Ok st' -> rows_ok (st_rows st').
Proof.
  intros Hrec prs. induction prs as [|p rest IH]; intros st st' Hp Hok H; cbn [foldM] in H.
  - inversion H; subst; exact Hok.
  - inversion Hp as [|p0 l0 Hp1 Hp2]; subst.
    destruct (step_fx ueqb nodes keep sn rec st p) as [st1|e] eqn:Es; [|discriminate].
    apply (IH _ _ Hp2 (step_fx_ok keep sn rec Hrec _ _ _ Hp1 Hok Es) H).
Qed.

Lemma visit_ok : forall fuel n pe st st',
  In n nodes -> edge_ok pe = true -> rows_ok (st_rows st) ->
  visit ueqb nodes fuel n pe st = Ok st' -> rows_ok (st_rows st').
Proof.
  induction fuel as [|fuel IH]; intros n pe st st' Hin Hpe Hok H; cbn [visit] in H; [discriminate|].
  destruct (short_name n) as [sn|e]; cbn [bind] in H; [|discriminate].
  destruct (initiate_row_models n sn pe) as [rms|e] eqn:Ei; cbn [bind] in H; [|discriminate].
  destruct (exit_edge_pairs ueqb n (last_row_id n sn)) as [prs|e] eqn:Ee; cbn [bind] in H; [|discriminate].
  destruct (foldM _ (rev prs) _) as [st1|e] eqn:Ef; cbn [bind] in H; [|discriminate].
  inversion H; subst. cbn [st_rows]. unfold rows_ok. rewrite Forall_app. split.
  - apply (initiate_row_models_ok _ _ _ _ Hpe Ei).
  - apply (foldM_step_ok _ _ _ IH _ _ _) in Ef; [exact Ef| |exact Hok].
    unfold pairs_ok. apply Forall_rev. apply (exit_edge_pairs_ok _ _ _ (node_in_ok _ Hin) Ee).
Qed.

End Dfs.

Lemma to_rows_tmp_ok nodes rows : flow_ok nodes = true -> to_rows_tmp ueqb nodes = Ok rows -> rows_ok rows.
Proof.
  intros Hflow. unfold to_rows_tmp. destruct nodes as [|n0 rest].
  - intros H; inversion H; subst; constructor.
  - destruct (visit ueqb (n0 :: rest) _ n0 start_edge state0) as [st|e] eqn:Ev; cbn [bind]; [|discriminate].
    intros H; inversion H; subst.
    apply (visit_ok (n0 :: rest) Hflow) in Ev; [exact Ev|left; reflexivity|reflexivity|constructor].
Qed.

Lemma remap_row_ok m r r' : row_ok r = true -> remap_row ueqb m r = Ok r' -> row_ok r' = true.
Proof.
  unfold remap_row. intros Hr H.
  destruct (mget ueqb m (r_id r)); cbn [bind] in H; [|discriminate].
  destruct (mapM (mget ueqb m) (r_goto r)); cbn [bind] in H; [|discriminate].
  destruct (mapM (remap_edge ueqb m) (r_edges r)) as [es|e] eqn:Ee; cbn [bind] in H; [|discriminate].
  inversion H; subst. unfold row_ok in *. cbn [r_edges r_pay].
  apply andb_true_iff in Hr. destruct Hr as [Hr1 Hr2]. rewrite Hr2, andb_true_r.
  clear H Hr2. revert es Ee. induction (r_edges r) as [|e0 rest IH]; intros es Ee; cbn [mapM] in Ee.
  - inversion Ee; subst; reflexivity.
  - cbn [forallb] in Hr1. apply andb_true_iff in Hr1. destruct Hr1 as [Ha Hb].
    unfold remap_edge at 1 in Ee. destruct (mget ueqb m (e_from e0)); cbn [bind] in Ee; [|discriminate].
    destruct (mapM (remap_edge ueqb m) rest) as [es'|e'] eqn:Er; [|discriminate].
    inversion Ee; subst. cbn [forallb]. rewrite (IH Hb _ eq_refl), andb_true_r. exact Ha.
Qed.

Lemma to_rows_ok nodes nb rows : flow_ok nodes = true -> to_rows ueqb nb nodes = Ok rows -> rows_ok rows.
Proof.
  intros Hflow. unfold to_rows. destruct (to_rows_tmp ueqb nodes) as [trows|e] eqn:Et; cbn [bind]; [|discriminate].
  destruct (build_map ueqb nb trows 0 idmap0) as [m|e]; cbn [bind]; [|discriminate].
  apply (to_rows_tmp_ok _ _ Hflow) in Et. revert rows. induction trows as [|r rest IH]; intros rows H; cbn [mapM] in H.
  - inversion H; subst; constructor.
  - inversion Et as [|r0 l0 Hr Hrest]; subst.
    destruct (remap_row ueqb m r) as [r'|e] eqn:Er; [|discriminate].
    destruct (mapM (remap_row ueqb m) rest) as [rest'|e]; [|discriminate].
    inversion H; subst. constructor; [apply (remap_row_ok _ _ _ Hr Er)|apply (IH Hrest _ eq_refl)].
Qed.

(* the stripped cells of an ok row are closed *)
Lemma close_cells_some cells :
  Forall (fun hc => pv_closed (snd hc) = true) cells -> close_cells cells <> None.
Proof.
  induction 1 as [|[h v] rest Hv _ IH]; cbn [close_cells]; [discriminate|].
  unfold close_cell. cbn [fst snd] in *. destruct v; [discriminate|].
  destruct (close_cells rest); [discriminate|contradiction].
Qed.

Lemma edges_cells_closed (es : list (edge U str)) : forall i,
  forallb edge_ok es = true -> Forall (fun hc => pv_closed (snd hc) = true) (edges_cells i es).
Proof.
  induction es as [|e rest IH]; intros i H; cbn [edges_cells]; [constructor|].
  cbn [forallb] in H. apply andb_true_iff in H. destruct H as [Ha Hb].
  apply Forall_app. split; [|apply IH, Hb].
  unfold edge_cells. repeat constructor. exact Ha.
Qed.

Lemma strip_row_closed (r : row U str) :
  row_ok r = true ->
  Forall (fun hc => pv_closed (snd hc) = true) (strip_cells strip_excluded (row_cells r)).
Proof.
  intros Hr. unfold row_ok in Hr. apply andb_true_iff in Hr. destruct Hr as [He Hp].
  unfold strip_cells. apply Forall_forall. intros hc Hin. apply filter_In in Hin. destruct Hin as [Hin Hex].
  unfold row_cells in Hin. rewrite !in_app_iff in Hin. destruct Hin as [Hin|[Hin|[Hin|Hin]]].
  - destruct Hin as [Hin|[Hin|[]]]; subst; reflexivity.
  - pose proof (edges_cells_closed _ 1 He) as HF. rewrite Forall_forall in HF. apply HF, Hin.
  - destruct Hin as [Hin|[]]; subst; reflexivity.
  - apply in_map_iff in Hin. destruct Hin as [fv [Heq Hin]]. subst hc. cbn [fst snd] in *.
    rewrite forallb_forall in Hp. specialize (Hp fv Hin). unfold fv_ok in Hp.
    destruct (pv_closed (snd fv)); [reflexivity|]. cbn [orb] in Hp.
    apply uuid_field_excluded in Hp. rewrite Hp in Hex. discriminate.
Qed.

Lemma close_sheet_some (rows : list (row U str)) :
  rows_ok rows -> close_sheet (map (fun r => strip_cells strip_excluded (row_cells r)) rows) <> None.
Proof.
  induction 1 as [|r rest Hr _ IH]; cbn [map close_sheet]; [discriminate|].
  pose proof (close_cells_some _ (strip_row_closed r Hr)) as Hc.
  destruct (close_cells _); [|contradiction]. destruct (close_sheet _); [discriminate|contradiction].
Qed.

(* C17-2.  No uuid reaches a cell of the stripped sheet, on flows that satisfy [flow_ok]: every
   case that carries a group uuid sits in a group split or -- on a tree with the repair, decided
   by the regenerated probe [has_group_case_by_name] -- is a has_group case. *)
Theorem no_uuid_in_sheet nb nodes :
  flow_ok nodes = true -> export_strip ueqb nb nodes <> Ok None.
Proof.
  intros Hf. unfold export_strip, export.
  destruct (to_rows ueqb nb nodes) as [rows|e] eqn:Et; cbn [bind]; [|discriminate].
  apply (to_rows_ok _ _ _ Hf) in Et. pose proof (close_sheet_some _ Et) as Hc.
  intros H. inversion H as [H1]. contradiction.
Qed.

(* on a repaired tree the guard is the invariant of the representation, not a restriction *)
Lemma flow_wf_ok (nodes : list (node U)) : has_group_case_by_name = true -> flow_wf nodes = true -> flow_ok nodes = true.
Proof.
  intros Hp. unfold flow_wf, flow_ok. rewrite !forallb_forall. intros H n Hn. specialize (H n Hn).
  unfold node_wf in H. unfold node_ok, router_ok. destruct (n_kind n) as [d|rk r|rs cats]; try reflexivity.
  apply orb_true_iff. right. rewrite forallb_forall in *. intros k Hk. specialize (H k Hk).
  unfold case_wf in H. unfold case_ok. destruct (k_group k); [|reflexivity]. rewrite Hp, H. reflexivity.
Qed.

Theorem no_uuid_in_sheet_repaired nb nodes :
  has_group_case_by_name = true -> flow_wf nodes = true -> export_strip ueqb nb nodes <> Ok None.
Proof. intros Hp Hw. apply no_uuid_in_sheet, flow_wf_ok; assumption. Qed.

End NoUuid.

(* ================================================================== witnesses *)
Local Open Scope N_scope.

Definition demo_msg (u : N) (txt : str) (dest : option N) : node N :=
  {| n_uuid := u; n_actions := [ActSendMsg N txt [] [] None]; n_ui := None; n_kind := NBasic N dest |}.

(* 1: two messages -> 2; 2: wait for response, A -> 3, B -> 1 (back edge), Other -> 3 (join);
   3: message, end *)
Definition demo_flow : list (node N) :=
  [ {| n_uuid := 1; n_actions := [ActSendMsg N (lit "hello") [] [] None; ActSendMsg N (lit "again") [] [] None];
       n_ui := Some (lit "10", lit "20"); n_kind := NBasic N (Some 2) |};
    {| n_uuid := 2; n_actions := []; n_ui := None;
       n_kind := NRouter N KSwitch
         {| sw_operand := lit "@input.text"; sw_result := lit "Result"; sw_wait := Some 0;
            sw_cases := [ {| k_type := lit "has_any_word"; k_group := None; k_args := [lit "a"]; k_cat := 21 |};
                          {| k_type := lit "has_any_word"; k_group := None; k_args := [lit "b"]; k_cat := 22 |} ];
            sw_cats := [ {| c_uuid := 21; c_name := lit "A"; c_dest := Some 3 |};
                         {| c_uuid := 22; c_name := lit "B"; c_dest := Some 1 |} ];
            sw_default := {| c_uuid := 23; c_name := lit "Other"; c_dest := Some 3 |};
            sw_noresp := None |} |};
    demo_msg 3 (lit "hello") None ].

(* the same router with a has_group case (group uuid 77) under the operand @input.text *)
Definition leak_flow : list (node N) :=
  [ {| n_uuid := 1; n_actions := []; n_ui := None;
       n_kind := NRouter N KSwitch
         {| sw_operand := lit "@input.text"; sw_result := []; sw_wait := None;
            sw_cases := [ {| k_type := lit "has_group"; k_group := Some 77; k_args := [lit "my group"]; k_cat := 21 |} ];
            sw_cats := [ {| c_uuid := 21; c_name := lit "G"; c_dest := Some 2 |} ];
            sw_default := {| c_uuid := 23; c_name := lit "Other"; c_dest := None |};
            sw_noresp := None |} |};
    demo_msg 2 (lit "in group") None ].

Lemma demo_flow_exports :
  exists sheet, export_strip N.eqb false demo_flow = Ok (Some sheet) /\ length sheet = 5%nat
                /\ flow_ok demo_flow = true.
Proof. eexists. vm_compute. repeat split. Qed.

Lemma demo_flow_ids :
  rmap (map r_id) (to_rows N.eqb false demo_flow)
  = Ok [lit "msg.hello"; lit "msg.hello.1"; lit "switch.Result"; lit "goto.msg.hello"; lit "msg.hello.2"].
Proof. vm_compute. reflexivity. Qed.

(* C17-2 at full strength (for every flow of the representation, without the restriction to
   group splits): refuted by [leak_flow] on the unrepaired tree, holds of it on a repaired one.
   One script for both trees. *)
Lemma no_uuid_in_sheet_witness :
  flow_wf leak_flow = true /\
  if has_group_case_by_name then export_strip N.eqb false leak_flow <> Ok None
  else export_strip N.eqb false leak_flow = Ok None.
Proof.
  split; [vm_compute; reflexivity|].
  destruct has_group_case_by_name eqn:E;
    first [ vm_compute; reflexivity
          | let H := fresh "H" in intros H; vm_compute in H; discriminate H
          | exfalso; vm_compute in E; discriminate E ].
Qed.

(* kept under its old name while the finding is open: the unrestricted statement is false of the
   faithful model of the tree at hand iff the probe says "unrepaired" *)
Lemma no_uuid_in_sheet_refuted :
  has_group_case_by_name = false ->
  exists nodes : list (node N), flow_wf nodes = true /\ export_strip N.eqb false nodes = Ok None.
Proof.
  intros Hp. exists leak_flow. destruct no_uuid_in_sheet_witness as [Hw Hl]. rewrite Hp in Hl. split; assumption.
Qed.
