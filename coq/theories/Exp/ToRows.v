(* E8 — model of the sheet export of a flow: FlowContainer.to_rows / _to_rows_recurse /
   to_row_data_sheet (containers.py), initiate_row_models / get_row_models /
   prepend_edge_to_row_models / get_exit_edge_pairs / short_name (nodes.py, routers.py),
   Action.short_name / get_row_model_fields (actions.py), mangle_string (common.py).

   Written over an ABSTRACT uuid type [U] with a boolean equality: the model can only
   compare uuids, exactly like the code (set membership, ==, dict keys).  Definitions only;
   facts are in ToRowsFacts.v.

   What is abstracted: the input is the flow as loaded by RapidProContainer.from_dict (nodes
   with their actions, routers with categories whose exits are already resolved to
   destinations); temporary row ids "uuid|short" are triples, not strings (assumption: a
   uuid contains no '|'); the uuid4 of a go_to row is a counter.  Errors: every exception of
   the Python ([IndexError], [NotImplementedError], [TypeError], [ValueError],
   pydantic [ValidationError], [KeyError]) is [Err ECrash]; [EFuel] and [EInternal] are
   never produced on any input (RowIdFacts: to_rows_tmp_err, to_rows_err, remap_total). *)
From Coq Require Import List NArith Bool String Ascii Arith.
From RPFT Require Import Base.Sexp Base.PyStr Base.Result Gen.Tables.
Import ListNotations.
Local Open Scope N_scope.

(* ---------------------------------------------------------------- literals, decimal, mangle *)
(* string literals are turned into lists of code points at elaboration time, so that the
   extracted program does not mention Coq's [string] *)
Definition lit_fn (s : string) : str := map (fun a => N_of_ascii a) (list_ascii_of_string s).
Notation "'lit' s" := ltac:(let v := eval vm_compute in (lit_fn s) in exact v) (at level 9, s at level 0, only parsing).

(* str(n) for a natural number: little-endian digits by repeated division, then reversed *)
Fixpoint dec_le (fuel : nat) (n : N) : list N :=
  match fuel with
  | O => []
  | S f => if n <? 10 then [48 + n] else (48 + n mod 10) :: dec_le f (n / 10)
  end.
Definition dec_of_N (n : N) : str := rev (dec_le (S (N.to_nat n)) n).
Definition dec_of_nat (n : nat) : str := dec_of_N (N.of_nat n).

(* common.mangle_string: re.sub("[. ]","_"), re.sub("[^A-Za-z0-9_-]+",""), [:15] *)
Definition mangle_keep (c : N) : bool :=
  ((65 <=? c) && (c <=? 90)) || ((97 <=? c) && (c <=? 122)) || ((48 <=? c) && (c <=? 57))
  || (c =? 95) || (c =? 45).
Definition mangle_string (s : str) : str :=
  firstn 15 (filter mangle_keep (map (fun c => if (c =? 46) || (c =? 32) then 95 else c) s)).

Definition nonempty (s : str) : bool := match s with [] => false | _ => true end.
Definition str_or (a b : str) : str := if nonempty a then a else b.

Fixpoint assoc_str {T} (k : str) (l : list (str * T)) : option T :=
  match l with
  | [] => None
  | (k', v) :: r => if str_eqb k' k then Some v else assoc_str k r
  end.
Definition mem_str (k : str) (l : list str) : bool := existsb (str_eqb k) l.

Inductive xerr := EFuel | ECrash | EInternal.
Definition res := result xerr.

(* uuid-free cell values: a string, a list of strings, a list of lists of strings *)
Inductive upv := VS (s : str) | VL (l : list str) | VLL (l : list (list str)).

Section ToRows.
Variable U : Type.
Variable ueqb : U -> U -> bool.

(* a value that reaches a row field: a uuid, or something uuid-free *)
Inductive pv := PU (u : U) | PV (v : upv).
Definition PS (s : str) : pv := PV (VS s).
Definition opt_uuid (o : option U) : pv := match o with Some u => PU u | None => PS [] end.

(* ---------------------------------------------------------------- the loaded flow *)
Record category := { c_uuid : U; c_name : str; c_dest : option U }.

(* RouterCase: arguments = [k_group] ++ k_args; k_group is the group uuid that a has_group
   case carries as its first argument (the only uuid-typed argument in the flow spec) *)
Record rcase := { k_type : str; k_group : option U; k_args : list str; k_cat : U }.

Record srouter := {
  sw_operand : str;
  sw_result : str;                 (* result_name, "" for None *)
  sw_wait : option N;              (* wait_timeout *)
  sw_cases : list rcase;
  sw_cats : list category;         (* self.categories: all but default / no response *)
  sw_default : category;
  sw_noresp : option category }.

Inductive action :=
| ActSendMsg (text : str) (quick_replies attachments : list str) (templ : option (str * str * list str))
| ActSetField (name value : str)
| ActSetProp (prop value : str)                    (* set_contact_<prop> *)
| ActGroups (add : bool) (groups : list (str * option U))
| ActSetResult (name value category : str)
| ActUrn (path scheme : str)
| ActEnterFlow (name : str) (fuuid : option U)
| ActWebhook (url method body : str) (headers : list (str * str)) (result : str)
| ActAirtime (amounts : list (str * str)) (result : str)
| ActOther (type_ : str).                          (* kinds the sheet vocabulary cannot express *)

Inductive rkind := KSwitch | KEnterFlow | KWebhook | KAirtime.
Inductive nkind :=
| NBasic (dest : option U)
| NRouter (k : rkind) (r : srouter)
| NRandom (result : str) (cats : list category).
Record node := { n_uuid : U; n_actions : list action; n_ui : option (str * str); n_kind : nkind }.

(* ---------------------------------------------------------------- rows *)
Record cond := { cd_value : pv; cd_variable : str; cd_type : str; cd_name : str }.
Record edge (I : Type) := { e_from : I; e_cond : cond }.
Record row (I : Type) := {
  r_id : I; r_type : str; r_edges : list (edge I);
  r_goto : list I;                       (* mainarg_destination_row_ids *)
  r_pay : list (str * pv) }.             (* the other FlowRowModel fields that are filled *)
Arguments e_from {I}. Arguments e_cond {I}.
Arguments r_id {I}. Arguments r_type {I}. Arguments r_edges {I}. Arguments r_goto {I}. Arguments r_pay {I}.

Definition no_cond : cond := {| cd_value := PS []; cd_variable := []; cd_type := []; cd_name := [] |}.
Definition value_cond (s : str) : cond := {| cd_value := PS s; cd_variable := []; cd_type := []; cd_name := [] |}.

(* temporary row ids: "start", "<node uuid>|<short>", "<fresh uuid>|goto.<short>" *)
Inductive tid := TStart | TNode (u : U) (s : str) | TGoto (k : nat) (s : str).
Definition tid_eqb (a b : tid) : bool :=
  match a, b with
  | TStart, TStart => true
  | TNode u s, TNode u' s' => ueqb u u' && str_eqb s s'
  | TGoto k s, TGoto k' s' => Nat.eqb k k' && str_eqb s s'
  | _, _ => false
  end.
(* row_id.split("|")[1] *)
Definition tid_short (t : tid) : res str :=
  match t with TStart => Err ECrash | TNode _ s => Ok s | TGoto _ s => Ok s end.

(* ---------------------------------------------------------------- actions *)
Definition short_type (t : str) : str :=
  match assoc_str t short_types with Some s => s | None => t end.
Definition short_of (type_ main : str) : str := short_type type_ ++ [46] ++ mangle_string main.

Definition action_short (a : action) : res str :=
  match a with
  | ActSendMsg text _ _ _ => Ok (short_of (lit "send_msg") text)
  | ActSetField name _ => Ok (short_of (lit "set_contact_field") name)
  | ActSetProp prop _ => Ok (short_of (lit "set_contact_" ++ prop) prop)
  | ActGroups add groups =>
    match groups with
    | [] => Err ECrash
    | (nm, _) :: _ => Ok (short_of (if add then lit "add_contact_groups" else lit "remove_contact_groups") nm)
    end
  | ActSetResult name _ _ => Ok (short_of (lit "set_run_result") name)
  | ActUrn path _ => Ok (short_of (lit "add_contact_urn") path)
  | ActEnterFlow name _ => Ok (short_of (lit "enter_flow") name)
  | ActWebhook _ _ body _ _ => Ok (short_of (lit "call_webhook") body)
  | ActAirtime _ _ => Err ECrash            (* main_value is a dict: re.sub raises TypeError *)
  | ActOther _ => Err ECrash                (* main_value raises NotImplementedError *)
  end.

Definition pay := list (str * pv).
Notation "'fld' s v" := (lit s, v) (at level 9, s at level 0, v at level 0, only parsing).
Definition PL (l : list str) : pv := PV (VL l).
Definition PLL (l : list (list str)) : pv := PV (VLL l).

(* SendMessageAction.get_row_model_fields: one non-empty attachment of type image/audio/video
   goes to its own column (prefix of 6 characters removed), otherwise the list is kept *)
Definition split_attachments (atts : list str) : str * str * str * list str :=
  let atts := filter nonempty atts in
  match atts with
  | [a] =>
    if starts_with (lit "image:") a then (skipn 6 a, [], [], [])
    else if starts_with (lit "audio:") a then ([], skipn 6 a, [], [])
    else if starts_with (lit "video:") a then ([], [], skipn 6 a, [])
    else ([], [], [], atts)
  | _ => ([], [], [], atts)
  end.

Definition action_fields (a : action) : res (str * pay) :=
  match a with
  | ActSendMsg text qr atts templ =>
    let '(img, aud, vid, rest) := split_attachments atts in
    Ok (lit "send_message",
        [fld "mainarg_message_text" (PS text); fld "choices" (PL qr); fld "image" (PS img); fld "audio" (PS aud);
         fld "video" (PS vid); fld "attachments" (PL rest)]
        ++ match templ with
           | Some (nm, tu, vars) => [fld "wa_template.name" (PS nm); fld "wa_template.uuid" (PS tu); fld "wa_template.variables" (PL vars)]
           | None => []
           end)
  | ActSetField name value => Ok (lit "save_value", [fld "mainarg_value" (PS value); fld "save_name" (PS name)])
  | ActSetProp prop value => Ok (lit "set_contact_" ++ prop, [fld "mainarg_value" (PS value)])
  | ActGroups add groups =>
    match groups with
    | [] => Err ECrash
    | (_, u0) :: _ =>
      Ok ((if add then lit "add_to_group" else lit "remove_from_group"),
          [fld "mainarg_groups" (PL (map fst groups)); fld "obj_id" (opt_uuid u0)])
    end
  | ActSetResult name value cat =>
    Ok (lit "save_flow_result",
        [fld "mainarg_value" (PS value); fld "save_name" (PS name)]
        ++ (if nonempty cat then [fld "result_category" (PS cat)] else []))
  | ActUrn path scheme =>
    Ok (lit "add_contact_urn",
        [fld "mainarg_value" (PS path); fld "urn_scheme" (PS (if str_eqb scheme (lit "tel") then [] else scheme))])
  | ActEnterFlow name fu => Ok (lit "start_new_flow", [fld "mainarg_flow_name" (PS name); fld "obj_id" (opt_uuid fu)])
  | ActWebhook url method body headers result =>
    Ok (lit "call_webhook",
        [fld "webhook.body" (PS body); fld "webhook.url" (PS url);
         fld "webhook.headers" (PLL (map (fun kv => [fst kv; snd kv]) headers));
         fld "webhook.method" (PS method); fld "save_name" (PS result)])
  | ActAirtime amounts result =>
    Ok (lit "transfer_airtime",
        [fld "mainarg_dict" (PLL (map (fun kv => [fst kv; snd kv]) amounts)); fld "save_name" (PS result)])
  | ActOther _ => Err ECrash                (* get_row_model_fields returns an exception class *)
  end.

(* ---------------------------------------------------------------- nodes *)
Definition case_arg0 (k : rcase) : option pv :=
  match k_group k with
  | Some u => Some (PU u)
  | None => match k_args k with s :: _ => Some (PS s) | [] => None end
  end.
Definition case_arg1 (k : rcase) : option str :=
  match k_group k with
  | Some _ => match k_args k with s :: _ => Some s | [] => None end
  | None => match k_args k with _ :: s :: _ => Some s | _ => None end
  end.

Definition groups_operand : str := lit "@contact.groups".
Definition child_status_operand : str := lit "@child.run.status".

Definition short_name (n : node) : res str :=
  match n_kind n with
  | NBasic _ | NRouter KEnterFlow _ =>
    match n_actions n with a :: _ => action_short a | [] => Err ECrash end
  | NRouter KSwitch r =>
    let v := mangle_string (str_or (sw_result r) (sw_operand r)) in
    Ok ((match sw_wait r with
         | Some w => if w =? 0 then lit "switch." else lit "wait_for."
         | None => lit "switch."
         end) ++ v)
  | NRouter KWebhook r =>
    match n_actions n with
    | ActWebhook url _ _ _ _ :: _ => Ok (lit "webhook." ++ mangle_string (str_or (sw_result r) url))
    | _ => Err ECrash
    end
  | NRouter KAirtime r =>
    match n_actions n with
    | ActAirtime _ result :: _ => Ok (lit "airtime." ++ mangle_string result)
    | _ => Err ECrash
    end
  | NRandom result _ =>
    Ok (if nonempty result then lit "random." ++ mangle_string result else lit "random")
  end.

(* keyword arguments a router node passes to BaseNode.initiate_row_models: row type + fields.
   Two regenerated probes (translator/tables_c04.py) select between the behaviour recorded in
   findings.d/C04.json and its repair:
   [split_rows_carry_save_name]: the rows of routers that do not wait carry the result name too;
   [group_split_without_cases_exports]: a group split without any case gets a row naming no group
   (router.cases[0] raised IndexError before). *)
Definition split_save_name (result : str) : pay :=
  if split_rows_carry_save_name then [fld "save_name" (PS result)] else [].

Definition router_kwargs (r : srouter) : res (str * pay) :=
  match sw_wait r with
  | Some w =>
    Ok (lit "wait_for_response",
        [fld "save_name" (PS (sw_result r)); fld "no_response" (PS (if w =? 0 then [] else dec_of_N w))])
  | None =>
    if str_eqb (sw_operand r) groups_operand then
      match sw_cases r with
      | [] =>
        if group_split_without_cases_exports
        then Ok (lit "split_by_group", [fld "mainarg_groups" (PL []); fld "obj_id" (PS [])] ++ split_save_name (sw_result r))
        else Err ECrash
      | k :: _ =>
        match case_arg1 k, case_arg0 k with
        | Some g, Some a0 =>
          Ok (lit "split_by_group", [fld "mainarg_groups" (PL [g]); fld "obj_id" a0] ++ split_save_name (sw_result r))
        | _, _ => Err ECrash
        end
      end
    else Ok (lit "split_by_value", [fld "mainarg_expression" (PS (sw_operand r))] ++ split_save_name (sw_result r))
  end.

Definition node_kwargs (n : node) : res (option (str * pay)) :=
  match n_kind n with
  | NRouter KSwitch r => do kw <- router_kwargs r; Ok (Some kw)
  | NRandom result _ => Ok (Some (lit "split_random", split_save_name result))
  | _ => Ok None
  end.

Definition node_base_pay (n : node) : pay :=
  fld "node_uuid" (PU (n_uuid n))
  :: match n_ui n with Some (l, t) => [fld "ui_position" (PL [l; t])] | None => [] end.

Definition sub_short (sn : str) (i : nat) : str :=
  match i with O => sn | _ => sn ++ [46] ++ dec_of_nat i end.

(* BaseNode.initiate_row_models, the branch with actions: one row per action, chained *)
Fixpoint action_rows (u : U) (sn : str) (base : pay) (acts : list action) (i : nat) (pe : edge tid)
  : res (list (row tid)) :=
  match acts with
  | [] => Ok []
  | a :: rest =>
    do tp <- action_fields a;
    let id := TNode u (sub_short sn i) in
    do more <- action_rows u sn base rest (S i) {| e_from := id; e_cond := no_cond |};
    Ok ({| r_id := id; r_type := fst tp; r_edges := [pe]; r_goto := []; r_pay := base ++ snd tp |} :: more)
  end.

Definition initiate_row_models (n : node) (sn : str) (pe : edge tid) : res (list (row tid)) :=
  do kw <- node_kwargs n;
  match n_actions n with
  | _ :: _ => action_rows (n_uuid n) sn (node_base_pay n) (n_actions n) 0 pe
  | [] =>
    match kw with
    | Some (tp, p) =>
      Ok [{| r_id := TNode (n_uuid n) sn; r_type := tp; r_edges := [pe]; r_goto := []; r_pay := node_base_pay n ++ p |}]
    | None => Err ECrash        (* FlowRowModel without a type: pydantic ValidationError *)
    end
  end.

(* id of the last row model of a node *)
Definition last_row_id (n : node) (sn : str) : tid :=
  TNode (n_uuid n) (sub_short sn (pred (List.length (n_actions n)))).

(* SwitchRouter.get_exit_edge_pairs.
   The argument of the case that is written into the condition: arguments[1] (the group name) in
   a group split, arguments[0] otherwise.  A tree with the repair of finding
   has_group-case-outside-group-split (regenerated probe [has_group_case_by_name]) takes
   arguments[1] for every has_group case, whatever the operand. *)
Definition has_group_type : str := lit "has_group".
Definition cond_arg (r : srouter) (k : rcase) : option pv :=
  if str_eqb (sw_operand r) groups_operand || (has_group_case_by_name && str_eqb (k_type k) has_group_type)
  then match case_arg1 k with Some s => Some (PS s) | None => None end
  else case_arg0 k.

Definition case_cond (r : srouter) (k : rcase) (c : category) : res cond :=
  if str_eqb (sw_operand r) groups_operand || str_eqb (sw_operand r) child_status_operand then
    match cond_arg r k with
    | Some v => Ok {| cd_value := v; cd_variable := []; cd_type := []; cd_name := [] |}
    | None => Err ECrash
    end
  else
    do v <- (if mem_str (k_type k) no_args_tests then Ok (PS [])
             else match cond_arg r k with Some v => Ok v | None => Err ECrash end);
    Ok {| cd_value := v; cd_variable := sw_operand r; cd_type := k_type k; cd_name := c_name c |}.

Definition mem_u (u : U) (l : list U) : bool := existsb (ueqb u) l.

Definition all_categories (r : srouter) : list category :=
  sw_cats r ++ [sw_default r] ++ match sw_noresp r with Some c => [c] | None => [] end.

Definition pairs := list (option U * edge tid).

Fixpoint category_pairs (r : srouter) (last : tid) (cats : list category) (covered : list U)
  : res (pairs * list U) :=
  match cats with
  | [] => Ok ([], covered)
  | c :: rest =>
    match find (fun k => ueqb (k_cat k) (c_uuid c)) (sw_cases r) with
    | None => category_pairs r last rest covered
    | Some k =>
      do cd <- case_cond r k c;
      do more <- category_pairs r last rest (c_uuid c :: covered);
      Ok ((c_dest c, {| e_from := last; e_cond := cd |}) :: fst more, snd more)
    end
  end.

(* the repaired loop ([pairs_follow_cases], finding cases-sharing-a-category): one pair per case, in
   the order of the cases; the category of a case is the first of get_categories() with its uuid; a
   case whose category does not exist gives no pair *)
Fixpoint case_pairs (r : srouter) (last : tid) (cats : list category) (cases : list rcase) (covered : list U)
  : res (pairs * list U) :=
  match cases with
  | [] => Ok ([], covered)
  | k :: rest =>
    match find (fun c => ueqb (k_cat k) (c_uuid c)) cats with
    | None => case_pairs r last cats rest covered
    | Some c =>
      do cd <- case_cond r k c;
      do more <- case_pairs r last cats rest (c_uuid c :: covered);
      Ok ((c_dest c, {| e_from := last; e_cond := cd |}) :: fst more, snd more)
    end
  end.

(* [loose_exit_rows] (finding unconnected-non-default-category): the No Response category comes
   with the row; with the repair it gives no pair when it leads nowhere *)
Definition noresp_pairs (r : srouter) (last : tid) : pairs :=
  match sw_noresp r with
  | Some c =>
    match c_dest c with
    | None => if loose_exit_rows then [] else [(c_dest c, {| e_from := last; e_cond := value_cond (c_name c) |})]
    | Some _ => [(c_dest c, {| e_from := last; e_cond := value_cond (c_name c) |})]
    end
  | None => []
  end.

Definition switch_pairs (r : srouter) (last : tid) : res pairs :=
  do pc <- (if pairs_follow_cases then case_pairs r last (all_categories r) (sw_cases r) []
            else category_pairs r last (all_categories r) []);
  Ok (fst pc
      ++ (if mem_u (c_uuid (sw_default r)) (snd pc) then []
          else [(c_dest (sw_default r), {| e_from := last; e_cond := no_cond |})])
      ++ noresp_pairs r last).

Definition exit_edge_pairs (n : node) (last : tid) : res pairs :=
  match n_kind n with
  | NBasic d => Ok [(d, {| e_from := last; e_cond := no_cond |})]
  | NRouter _ r => switch_pairs r last
  | NRandom _ cats => Ok (map (fun c => (c_dest c, {| e_from := last; e_cond := value_cond (c_name c) |})) cats)
  end.

(* ---------------------------------------------------------------- the DFS *)
Record state := { st_vis : list U; st_done : list U; st_rows : list (row tid); st_k : nat }.

Fixpoint find_node (nodes : list node) (u : U) : option node :=
  match nodes with
  | [] => None
  | n :: rest => if ueqb (n_uuid n) u then Some n else find_node rest u
  end.

(* child_node.prepend_edge_to_row_models(edge): the first row model of the (completed) child
   is the row of [st_rows] whose temporary id is the child's node row id *)
Fixpoint prepend_edge (t : tid) (e : edge tid) (rows : list (row tid)) : option (list (row tid)) :=
  match rows with
  | [] => None
  | r :: rest =>
    if tid_eqb (r_id r) t
    then Some ({| r_id := r_id r; r_type := r_type r; r_edges := e :: r_edges r; r_goto := r_goto r; r_pay := r_pay r |} :: rest)
    else match prepend_edge t e rest with Some rest' => Some (r :: rest') | None => None end
  end.

Definition goto_row (k : nat) (child_id : tid) (child_short : str) (e : edge tid) : row tid :=
  {| r_id := TGoto k (lit "goto." ++ child_short); r_type := lit "go_to"; r_edges := [e];
     r_goto := [child_id]; r_pay := [] |}.

Section Visit.
Variable nodes : list node.

Definition step (rec : node -> edge tid -> state -> res state) (st : state) (p : option U * edge tid) : res state :=
  match fst p with
  | None => Ok st
  | Some d =>
    match find_node nodes d with
    | None => Err ECrash            (* ValueError: destination does not exist *)
    | Some child =>
      if mem_u (n_uuid child) (st_done st) then
        do csn <- short_name child;
        match prepend_edge (TNode (n_uuid child) csn) (snd p) (st_rows st) with
        | Some rows' => Ok {| st_vis := st_vis st; st_done := st_done st; st_rows := rows'; st_k := st_k st |}
        | None => Err EInternal
        end
      else if mem_u (n_uuid child) (st_vis st) then
        do csn <- short_name child;
        Ok {| st_vis := st_vis st; st_done := st_done st;
              st_rows := goto_row (st_k st) (TNode (n_uuid child) csn) csn (snd p) :: st_rows st;
              st_k := S (st_k st) |}
      else rec child (snd p) st
    end
  end.

(* [loose_exit_rows]: an edge that leads nowhere but carries a condition, leaving a node whose
   cases/categories exist only through such edges (BaseNode.has_free_cases: a switch router node, a
   random router node), is kept by a loose_exit row; its temporary id is
   "<fresh uuid>|exit.<short name of the node>" *)
Definition has_free_cases (n : node) : bool :=
  match n_kind n with NRouter KSwitch _ | NRandom _ _ => true | _ => false end.
Definition cond_blank (c : cond) : bool :=
  match cd_value c with
  | PV (VS v) => negb (nonempty v) && negb (nonempty (cd_variable c)) && negb (nonempty (cd_type c)) && negb (nonempty (cd_name c))
  | _ => false
  end.
Definition loose_row (k : nat) (sn : str) (e : edge tid) : row tid :=
  {| r_id := TGoto k (lit "exit." ++ sn); r_type := lit "loose_exit"; r_edges := [e]; r_goto := []; r_pay := [] |}.

Definition step_fx (keep : bool) (sn : str) (rec : node -> edge tid -> state -> res state) (st : state)
           (p : option U * edge tid) : res state :=
  match fst p with
  | None =>
    if keep && negb (cond_blank (e_cond (snd p)))
    then Ok {| st_vis := st_vis st; st_done := st_done st;
               st_rows := loose_row (st_k st) sn (snd p) :: st_rows st; st_k := S (st_k st) |}
    else Ok st
  | Some _ => step rec st p
  end.

Fixpoint visit (fuel : nat) (n : node) (pe : edge tid) (st : state) : res state :=
  match fuel with
  | O => Err EFuel
  | S fuel' =>
    do sn <- short_name n;
    do rms <- initiate_row_models n sn pe;
    do prs <- exit_edge_pairs n (last_row_id n sn);
    do st' <- foldM (step_fx (loose_exit_rows && has_free_cases n) sn (visit fuel'))
                    (rev prs)
                    {| st_vis := n_uuid n :: st_vis st; st_done := st_done st; st_rows := st_rows st; st_k := st_k st |};
    Ok {| st_vis := st_vis st'; st_done := n_uuid n :: st_done st'; st_rows := rms ++ st_rows st'; st_k := st_k st' |}
  end.
End Visit.

Definition start_edge : edge tid := {| e_from := TStart; e_cond := no_cond |}.
Definition state0 : state := {| st_vis := []; st_done := []; st_rows := []; st_k := 0 |}.

Definition to_rows_tmp (nodes : list node) : res (list (row tid)) :=
  match nodes with
  | [] => Ok []
  | n0 :: _ => do st <- visit nodes (S (List.length nodes)) n0 start_edge state0; Ok (st_rows st)
  end.

(* ---------------------------------------------------------------- remapping of the ids *)
Definition idmap := list (tid * str).

Fixpoint mget (m : idmap) (t : tid) : res str :=
  match m with
  | [] => Err ECrash              (* KeyError *)
  | (t', s) :: r => if tid_eqb t' t then Ok s else mget r t
  end.
Fixpoint mset (m : idmap) (t : tid) (s : str) : idmap :=
  match m with
  | [] => [(t, s)]
  | (t', s') :: r => if tid_eqb t' t then (t', s) :: r else (t', s') :: mset r t s
  end.

(* the `while new_id in values: new_id = f"{base}.{counter}"; counter += 1` loop *)
Fixpoint find_free (fuel : nat) (counter : nat) (base : str) (values : list str) : res str :=
  match fuel with
  | O => Err EFuel
  | S fu =>
    let cand := base ++ [46] ++ dec_of_nat counter in
    if mem_str cand values then find_free fu (S counter) base values else Ok cand
  end.
Definition fresh_id (base : str) (values : list str) : res str :=
  if mem_str base values then find_free (S (List.length values)) 1 base values else Ok base.

Fixpoint build_map (numbered : bool) (rows : list (row tid)) (idx : nat) (m : idmap) : res idmap :=
  match rows with
  | [] => Ok m
  | r :: rest =>
    do new <- (if numbered then Ok (dec_of_nat (S idx))
               else do base <- tid_short (r_id r); fresh_id base (map snd m));
    build_map numbered rest (S idx) (mset m (r_id r) new)
  end.

Definition remap_edge (m : idmap) (e : edge tid) : res (edge str) :=
  do fr <- mget m (e_from e); Ok {| e_from := fr; e_cond := e_cond e |}.

Definition remap_row (m : idmap) (r : row tid) : res (row str) :=
  do id <- mget m (r_id r);
  do gt <- mapM (mget m) (r_goto r);
  do es <- mapM (remap_edge m) (r_edges r);
  Ok {| r_id := id; r_type := r_type r; r_edges := es; r_goto := gt; r_pay := r_pay r |}.

Definition idmap0 : idmap := [(TStart, lit "start")].

Definition to_rows (numbered : bool) (nodes : list node) : res (list (row str)) :=
  do rows <- to_rows_tmp nodes;
  do m <- build_map numbered rows 0 idmap0;
  mapM (remap_row m) rows.

(* ---------------------------------------------------------------- cells, exclusion *)
(* header of a FlowRowModel field (table regenerated from FlowRowModel.field_name_to_header_name
   over the top-level fields) *)
Definition header_of (field : str) : str :=
  match assoc_str field frm_field_headers with Some h => h | None => field end.

Definition edge_cells (i : nat) (e : edge str) : list (str * pv) :=
  let p := lit "edges." ++ dec_of_nat i in
  [(p ++ lit ".from", PS (e_from e));
   (p ++ lit ".condition.value", cd_value (e_cond e));
   (p ++ lit ".condition.variable", PS (cd_variable (e_cond e)));
   (p ++ lit ".condition.type", PS (cd_type (e_cond e)));
   (p ++ lit ".condition.name", PS (cd_name (e_cond e)))].

Fixpoint edges_cells (i : nat) (es : list (edge str)) : list (str * pv) :=
  match es with
  | [] => []
  | e :: rest => edge_cells i e ++ edges_cells (S i) rest
  end.

Definition row_cells (r : row str) : list (str * pv) :=
  [(lit "row_id", PS (r_id r)); (lit "type", PS (r_type r))]
  ++ edges_cells 1 (r_edges r)
  ++ [(header_of (lit "mainarg_destination_row_ids"), PL (r_goto r))]
  ++ map (fun fv => (header_of (fst fv), snd fv)) (r_pay r).

(* RowParser.matches_headers for patterns without '*': re.match("^" + pattern, header) *)
Definition excluded (excl : list str) (h : str) : bool := existsb (fun p => starts_with p h) excl.

Definition strip_cells (excl : list str) (cells : list (str * pv)) : list (str * pv) :=
  filter (fun hc => negb (excluded excl (fst hc))) cells.

Definition export (excl : list str) (numbered : bool) (nodes : list node) : res (list (list (str * pv))) :=
  do rows <- to_rows numbered nodes;
  Ok (map (fun r => strip_cells excl (row_cells r)) rows).

(* a sheet in which no uuid occurs *)
Definition close_cell (hc : str * pv) : option (str * upv) :=
  match snd hc with PU _ => None | PV v => Some (fst hc, v) end.
Fixpoint close_cells (l : list (str * pv)) : option (list (str * upv)) :=
  match l with
  | [] => Some []
  | hc :: r => match close_cell hc, close_cells r with
               | Some c, Some cs => Some (c :: cs)
               | _, _ => None
               end
  end.
Fixpoint close_sheet (l : list (list (str * pv))) : option (list (list (str * upv))) :=
  match l with
  | [] => Some []
  | r :: rest => match close_cells r, close_sheet rest with
                 | Some c, Some cs => Some (c :: cs)
                 | _, _ => None
                 end
  end.

(* to_row_data_sheet(strip_uuids=True, numbered): [Ok None] = "a uuid reached a cell" *)
Definition export_strip (numbered : bool) (nodes : list node) : res (option (list (list (str * upv)))) :=
  do sh <- export strip_excluded numbered nodes; Ok (close_sheet sh).

(* the guard of C17_no_uuid_in_sheet.  A case that carries a group uuid (the only uuid-typed
   argument of the flow spec) must not have it written into a condition: on the unrepaired tree
   such cases must sit in routers that split by group membership (a restriction of the inputs);
   on a tree with the repair ([has_group_case_by_name]) it is enough that they are has_group
   cases, which is the invariant of the representation ([flow_wf]: only has_group cases have
   [k_group]) and no restriction at all. *)
Definition case_ok (k : rcase) : bool :=
  match k_group k with
  | None => true
  | Some _ => has_group_case_by_name && str_eqb (k_type k) has_group_type
  end.
Definition router_ok (r : srouter) : bool :=
  str_eqb (sw_operand r) groups_operand || forallb case_ok (sw_cases r).
Definition node_ok (n : node) : bool :=
  match n_kind n with NRouter _ r => router_ok r | _ => true end.
Definition flow_ok (nodes : list node) : bool := forallb node_ok nodes.

(* invariant of the representation: [k_group] is the first argument of a has_group case *)
Definition case_wf (k : rcase) : bool :=
  match k_group k with None => true | Some _ => str_eqb (k_type k) has_group_type end.
Definition node_wf (n : node) : bool :=
  match n_kind n with NRouter _ r => forallb case_wf (sw_cases r) | _ => true end.
Definition flow_wf (nodes : list node) : bool := forallb node_wf nodes.

End ToRows.

Arguments PU {U}. Arguments PV {U}. Arguments PS {U}.
Arguments TStart {U}. Arguments TNode {U}. Arguments TGoto {U}.
Arguments e_from {U I}. Arguments e_cond {U I}.
Arguments r_id {U I}. Arguments r_type {U I}. Arguments r_edges {U I}. Arguments r_goto {U I}. Arguments r_pay {U I}.
Arguments cd_value {U}. Arguments cd_variable {U}. Arguments cd_type {U}. Arguments cd_name {U}.
Arguments c_uuid {U}. Arguments c_name {U}. Arguments c_dest {U}.
Arguments k_type {U}. Arguments k_group {U}. Arguments k_args {U}. Arguments k_cat {U}.
Arguments sw_operand {U}. Arguments sw_result {U}. Arguments sw_wait {U}. Arguments sw_cases {U}.
Arguments sw_cats {U}. Arguments sw_default {U}. Arguments sw_noresp {U}.
Arguments n_uuid {U}. Arguments n_actions {U}. Arguments n_ui {U}. Arguments n_kind {U}.
Arguments st_vis {U}. Arguments st_done {U}. Arguments st_rows {U}. Arguments st_k {U}.
Arguments opt_uuid {U}. Arguments PL {U}. Arguments PLL {U}. Arguments no_cond {U}. Arguments value_cond {U}.
Arguments tid_eqb {U}. Arguments tid_short {U}. Arguments action_short {U}. Arguments action_fields {U}.
Arguments case_arg0 {U}. Arguments case_arg1 {U}. Arguments short_name {U}. Arguments router_kwargs {U}.
Arguments node_kwargs {U}. Arguments node_base_pay {U}. Arguments action_rows {U}. Arguments initiate_row_models {U}.
Arguments last_row_id {U}. Arguments cond_arg {U}. Arguments case_cond {U}. Arguments mem_u {U}. Arguments all_categories {U}.
Arguments category_pairs {U}. Arguments case_pairs {U}. Arguments noresp_pairs {U}. Arguments switch_pairs {U}. Arguments exit_edge_pairs {U}. Arguments find_node {U}.
Arguments prepend_edge {U}. Arguments goto_row {U}. Arguments step {U}. Arguments visit {U}. Arguments start_edge {U}.
Arguments state0 {U}. Arguments to_rows_tmp {U}. Arguments mget {U}. Arguments mset {U}. Arguments build_map {U}.
Arguments remap_edge {U}. Arguments remap_row {U}. Arguments idmap0 {U}. Arguments to_rows {U}. Arguments edge_cells {U}.
Arguments edges_cells {U}. Arguments row_cells {U}. Arguments strip_cells {U}. Arguments export {U}. Arguments close_cell {U}.
Arguments close_cells {U}. Arguments close_sheet {U}. Arguments export_strip {U}. Arguments router_ok {U}.
Arguments node_ok {U}. Arguments flow_ok {U}. Arguments case_ok {U}. Arguments case_wf {U}. Arguments node_wf {U}. Arguments flow_wf {U}.
Arguments split_save_name {U}. Arguments has_free_cases {U}. Arguments cond_blank {U}. Arguments loose_row {U}. Arguments step_fx {U}.
