(* E8 — the exits a router node writes: facts behind the repair of the finding
   exit-shared-by-categories ("fix: an exit shared by several categories of a router is rendered
   once").  [uniq_exits] (Exp/Render.v) mirrors the repaired BaseRouter.get_exits. *)
From Coq Require Import List NArith ZArith Bool Lia.
From RPFT Require Import Base.Sexp Base.PyStr Base.Result Base.Json Gen.Tables
  Exp.Load Exp.Render Exp.ExportDoc Exp.ExportFacts Exp.GroupFacts.
Import ListNotations.

Arguments router_lists_shared_exit_once : simpl never.

(* no exit of the list has the uuid of an earlier one *)
Fixpoint exits_once (l : list exit_t) : Prop :=
  match l with
  | [] => True
  | e :: r => (forall x, In x r -> json_eqb (e_uuid x) (e_uuid e) = false) /\ exits_once r
  end.

Lemma exits_once_filter p l : exits_once l -> exits_once (filter p l).
Proof.
  induction l as [|e r IH]; intros H; [exact I|]. destruct H as [He Hr]. cbn [filter].
  destruct (p e); [|exact (IH Hr)]. split; [|exact (IH Hr)].
  intros x Hin. apply filter_In in Hin. destruct Hin as [Hin _]. exact (He x Hin).
Qed.

(* whatever the categories reference, the list written has every exit once *)
Lemma uniq_exits_once l : exits_once (uniq_exits l).
Proof.
  induction l as [|e r IH]; [exact I|]. cbn [uniq_exits]. split; [|apply exits_once_filter; exact IH].
  intros x Hin. apply filter_In in Hin. destruct Hin as [_ Hx]. apply negb_true_iff in Hx. exact Hx.
Qed.

(* nothing else changes: a list that has every exit once is written as it is *)
Lemma uniq_exits_id l : exits_once l -> uniq_exits l = l.
Proof.
  induction l as [|e r IH]; intros H; [reflexivity|]. destruct H as [He Hr]. cbn [uniq_exits].
  rewrite (IH Hr). f_equal. apply filter_all. intros x Hin. rewrite (He x Hin). reflexivity.
Qed.

(* only exits that some category references are written *)
Lemma uniq_exits_in l x : In x (uniq_exits l) -> In x l.
Proof.
  revert x. induction l as [|e r IH]; intros x; cbn [uniq_exits]; intros H; [destruct H|].
  destruct H as [<-|H]; [left; reflexivity|]. right. apply IH. apply filter_In in H. exact (proj1 H).
Qed.

(* on a tree that carries the repair, a rendered router node never has two exits with one uuid *)
Theorem node_exits_once_repaired :
  router_lists_shared_exit_once = true -> forall n, n_router n <> None -> exits_once (exits_of n).
Proof.
  intros Hfix n Hr. unfold exits_of. destruct (n_router n) as [r|]; [|congruence].
  cbn zeta. rewrite Hfix. apply uniq_exits_once.
Qed.

(* either tree: what get_exits returns, in terms of the categories *)
Lemma exits_of_router n r :
  n_router n = Some r ->
  exits_of n = (if router_lists_shared_exit_once then uniq_exits (map c_exit (categories_of r)) else map c_exit (categories_of r)).
Proof. intros H. unfold exits_of. rewrite H. reflexivity. Qed.

(* a router whose categories have an exit each (every document in canonical order) is not affected *)
Theorem distinct_exits_unchanged n r :
  n_router n = Some r -> exits_once (map c_exit (categories_of r)) -> exits_of n = map c_exit (categories_of r).
Proof.
  intros H Ho. rewrite (exits_of_router n r H). destruct router_lists_shared_exit_once; [apply uniq_exits_id; exact Ho|reflexivity].
Qed.

(* non-vacuity: the router of the witness document w_shared_exit, as loaded *)
Definition ex_exit (u : N) : exit_t := {| e_uuid := s2 101 u; e_dest := JNull |}.
Definition ex_shared_node : node_t :=
  {| n_kind := NSwitch; n_uuid := s1 110; n_actions := []; n_default_exit := None;
     n_router := Some (RSwitch (s1 111) JNull None []
                               [{| c_uuid := s2 99 50; c_name := s1 89; c_exit := ex_exit 49 |};
                                {| c_uuid := s2 99 51; c_name := s1 90; c_exit := ex_exit 50 |}]
                               {| c_uuid := s2 99 49; c_name := s1 79; c_exit := ex_exit 49 |} None);
     n_ui := None |}.

Lemma exits_once_nonvacuous :
  n_router ex_shared_node <> None
  /\ ~ exits_once (map c_exit (categories_of (match n_router ex_shared_node with Some r => r | None => RRandom JNull [] end)))
  /\ uniq_exits [ex_exit 49; ex_exit 50; ex_exit 49] = [ex_exit 49; ex_exit 50]
  /\ exits_once [ex_exit 49; ex_exit 50] /\ uniq_exits [ex_exit 49; ex_exit 50] = [ex_exit 49; ex_exit 50].
Proof.
  split; [discriminate|]. split.
  - cbn. intros [H _]. specialize (H (ex_exit 49) (or_intror (or_introl eq_refl))). vm_compute in H. discriminate H.
  - split; [vm_compute; reflexivity|]. split; [|vm_compute; reflexivity].
    cbn. repeat split; intros x Hin; repeat (destruct Hin as [<-|Hin]; [vm_compute; reflexivity|]); destruct Hin.
Qed.
