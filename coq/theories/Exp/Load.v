(* E8 — from_dict of every class of rpft.rapidpro.models over JSON trees, and the
   container-level validate step (uuid dictionary).  Mirrors the Python as coded:
   containers.py, nodes.py, routers.py, actions.py, common.py, campaigns.py, triggers.py.
   Definitions only.  Python object state is modelled by the records below; the
   `__dict__`-based action classes keep the member list of the input, as the code does. *)
From Coq Require Import List NArith ZArith Bool.
From RPFT Require Import Base.Sexp Base.PyStr Base.Result Base.Json Gen.Tables.
Import ListNotations.

Inductive err := KeyError | TypeError | ValueError | AssertionError | AttributeError | IndexError | TriggerError.
Definition res := result err.

(* ---------------------------------------------------------------- Python helpers *)
(* == on the values the code compares (uuids, names, type tags): structural *)
Fixpoint json_eqb (a b : json) {struct a} : bool :=
  match a, b with
  | JNull, JNull => true
  | JBool x, JBool y => Bool.eqb x y
  | JInt x, JInt y => Z.eqb x y
  | JRaw x, JRaw y => str_eqb x y
  | JStr x, JStr y => str_eqb x y
  | JArr l, JArr m =>
    (fix go (l m : list json) : bool :=
       match l, m with
       | [], [] => true
       | x :: l', y :: m' => json_eqb x y && go l' m'
       | _, _ => false
       end) l m
  | JObj l, JObj m =>
    (fix go (l m : list (str * json)) : bool :=
       match l, m with
       | [], [] => true
       | (k, x) :: l', (k', y) :: m' => str_eqb k k' && json_eqb x y && go l' m'
       | _, _ => false
       end) l m
  | _, _ => false
  end.

(* bool(v) *)
Definition truthy (j : json) : bool :=
  match j with
  | JNull => false
  | JBool b => b
  | JInt z => negb (Z.eqb z 0)
  | JRaw _ => true
  | JStr s => match s with [] => false | _ => true end
  | JArr l => match l with [] => false | _ => true end
  | JObj m => match m with [] => false | _ => true end
  end.

Definition is_null (j : json) : bool := match j with JNull => true | _ => false end.

(* a uuid invented by generate_new_uuid(): anonymous marker *)
Definition fresh : json := JRaw [35%N].

(* x or generate_new_uuid() *)
Definition or_fresh (j : json) : json := if truthy j then j else fresh.
Definition or_else (j d : json) : json := if truthy j then j else d.

Definition as_obj (j : json) : res (list (str * json)) :=
  match j with JObj m => Ok m | _ => Err TypeError end.
Definition as_arr (j : json) : res (list json) :=
  match j with JArr l => Ok l | _ => Err TypeError end.

(* d[k] *)
Definition req (m : list (str * json)) (k : str) : res json :=
  match jget m k with Some v => Ok v | None => Err KeyError end.
(* d.get(k) *)
Definition getd (m : list (str * json)) (k : str) (d : json) : json :=
  match jget m k with Some v => v | None => d end.
Definition has (m : list (str * json)) (k : str) : bool :=
  match jget m k with Some _ => true | None => false end.
(* self.k on an object whose __dict__ is m *)
Definition attr (m : list (str * json)) (k : str) : res json :=
  match jget m k with Some v => Ok v | None => Err AttributeError end.
(* hasattr(self, k) and self.k *)
Definition attr_truthy (m : list (str * json)) (k : str) : bool :=
  match jget m k with Some v => truthy v | None => false end.

Fixpoint mem_str (k : str) (l : list str) : bool :=
  match l with [] => false | x :: r => str_eqb x k || mem_str k r end.

Fixpoint remove_key (m : list (str * json)) (k : str) : list (str * json) :=
  match m with
  | [] => []
  | (k', v) :: r => if str_eqb k' k then remove_key r k else (k', v) :: remove_key r k
  end.

(* Cls applied to keyword arguments m: every key must be a parameter, every required parameter must be given *)
Definition check_kwargs (params : list (str * bool)) (m : list (str * json)) : res unit :=
  if forallb (fun kv => mem_str (fst kv) (map fst params)) m
     && forallb (fun p => negb (snd p) || has m (fst p)) params
  then Ok tt else Err TypeError.

(* ---------------------------------------------------------------- common.py *)
Record exit_t := { e_uuid : json; e_dest : json }.

Definition load_exit (j : json) : res exit_t :=
  do m <- as_obj j;
  do _ <- check_kwargs exit_params m;
  Ok {| e_uuid := or_fresh (getd m k_uuid JNull); e_dest := getd m k_destination_uuid JNull |}.

Record group_t := { g_name : json; g_uuid : json; g_opt : list json }.

Definition load_group (j : json) : res group_t :=
  do m <- as_obj j;
  do _ <- check_kwargs group_params m;
  do n <- req m k_name;
  Ok {| g_name := n; g_uuid := getd m k_uuid JNull;
        g_opt := map (fun k => getd m k JNull) group_optional_attrs |}.

Record flowref_t := { fr_name : json; fr_uuid : json }.

Definition load_flowref (j : json) : res flowref_t :=
  do m <- as_obj j;
  do _ <- check_kwargs flowref_params m;
  do n <- req m k_name;
  Ok {| fr_name := n; fr_uuid := getd m k_uuid JNull |}.

Record fieldref_t := { cf_name : json; cf_key : json; cf_type : json }.

Definition is_ascii_letter (c : char) : bool :=
  (((65 <=? c) && (c <=? 90)) || ((97 <=? c) && (c <=? 122)))%N.

(* generate_field_key(name) *)
Definition generate_field_key (name : json) : res json :=
  match name with
  | JStr s =>
    let k := replace1 32%N [95%N] (lower (strip s)) in
    if Nat.leb (length k) 36 && existsb is_ascii_letter k then Ok (JStr k) else Err ValueError
  | _ => Err AttributeError
  end.

(* ContactFieldReference(name, key, type) *)
Definition mk_fieldref (name key ty : json) : res fieldref_t :=
  do k <- (if truthy key then Ok key else generate_field_key name);
  Ok {| cf_name := name; cf_key := k; cf_type := ty |}.

Definition load_fieldref (j : json) : res fieldref_t :=
  do m <- as_obj j;
  do _ <- check_kwargs fieldref_params m;
  do n <- req m k_name;
  mk_fieldref n (getd m k_key JNull) (getd m k_type JNull).

(* ---------------------------------------------------------------- actions.py *)
Record templ_t := { tp_name : json; tp_uuid : json; tp_template_uuid : json; tp_variables : json }.

(* WhatsAppMessageTemplating.from_rapid_pro_templating *)
Definition load_templating (j : json) : res templ_t :=
  do m <- as_obj j;
  do t <- req m k_template;
  do tm <- as_obj t;
  do n <- req tm k_name;
  do tu <- req tm k_uuid;
  do vs <- req m k_variables;
  do u <- req m k_uuid;
  Ok {| tp_name := n; tp_uuid := or_fresh u; tp_template_uuid := tu; tp_variables := vs |}.

(* one constructor per class of action_map; [d] is the instance's __dict__ as copied from
   the input (typed sub-objects kept beside it) *)
Inductive action_t :=
| APass (d : list (str * json))
| ASendMsg (d : list (str * json)) (templ : option templ_t)
| ASetField (d : list (str * json)) (f : fieldref_t)
| ASetProp (d : list (str * json)) (prop : str) (value : json)
| AGroups (remove : bool) (d : list (str * json)) (gs : list group_t)
| ARunResult (d : list (str * json)) (category : json)
| AEnterFlow (d : list (str * json)) (fl : flowref_t).

Fixpoint lookup_cls (t : str) (tbl : list (str * acls)) : option acls :=
  match tbl with
  | [] => None
  | (k, c) :: r => if str_eqb k t then Some c else lookup_cls t r
  end.

Fixpoint drop_prefix (p s : str) : option str :=
  match p, s with
  | [], _ => Some s
  | a :: p', b :: s' => if N.eqb a b then drop_prefix p' s' else None
  | _ :: _, [] => None
  end.

Definition load_action (j : json) : res action_t :=
  do m <- as_obj j;
  do t <- (match jget m k_type with Some v => Ok v | None => Err ValueError end);
  do ts <- (match t with JStr s => Ok s | _ => Err KeyError end);
  do cls <- (match lookup_cls ts action_map with Some c => Ok c | None => Err KeyError end);
  match cls with
  | CPass => Ok (APass m)
  | CSendMsg =>
    match jget m k_templating with
    | Some tj => do tp <- load_templating tj; Ok (ASendMsg (remove_key m k_templating) (Some tp))
    | None => Ok (ASendMsg m None)
    end
  | CSetField =>
    do fj <- (match jget m k_field with Some v => Ok v | None => Err AssertionError end);
    do f <- load_fieldref fj;
    Ok (ASetField m f)
  | CSetProp =>
    do p <- (match drop_prefix k_set_contact_ ts with Some p => Ok p | None => Err AssertionError end);
    do v <- (match jget m p with Some v => Ok v | None => Err AssertionError end);
    if mem_str p set_contact_properties then Ok (ASetProp m p v) else Err AssertionError
  | CAddGroups | CRemoveGroups =>
    do gj <- (match jget m k_groups with Some v => Ok v | None => Err AssertionError end);
    do gl <- as_arr gj;
    do gs <- mapM load_group gl;
    Ok (AGroups (match cls with CRemoveGroups => true | _ => false end) m gs)
  | CRunResult =>
    if has m k_name && has m k_value then Ok (ARunResult m (getd m k_category (JStr []))) else Err AssertionError
  | CEnterFlow =>
    do fj <- (match jget m k_flow with Some v => Ok v | None => Err AssertionError end);
    do f <- load_flowref fj;
    Ok (AEnterFlow m f)
  end.

Definition action_type (a : action_t) : json :=
  let d := match a with
           | APass d | ASendMsg d _ | ASetField d _ | ASetProp d _ _ | AGroups _ d _ | ARunResult d _ | AEnterFlow d _ => d
           end in
  getd d k_type JNull.

(* ---------------------------------------------------------------- routers.py *)
Record cat_t := { c_uuid : json; c_name : json; c_exit : exit_t }.

Fixpoint find_exit (u : json) (exits : list exit_t) : option exit_t :=
  match exits with
  | [] => None
  | e :: r => if json_eqb (e_uuid e) u then Some e else find_exit u r
  end.

(* RouterCategory.from_dict(data, exits) *)
Definition load_category (exits : list exit_t) (j : json) : res cat_t :=
  do m <- as_obj j;
  do eu <- req m k_exit_uuid;
  do e <- (match find_exit eu exits with Some e => Ok e | None => Err ValueError end);
  do n <- req m k_name;
  do u <- req m k_uuid;
  match n with
  | JStr s => if Nat.ltb 115 (length s) then Err ValueError
              else Ok {| c_uuid := or_fresh u; c_name := n; c_exit := e |}
  | _ => Err TypeError
  end.

Record case_t := { cs_uuid : json; cs_type : json; cs_cat : json; cs_args : list json }.

(* RouterCase.from_dict *)
Definition load_case (j : json) : res case_t :=
  do m <- as_obj j;
  do t <- req m k_type;
  do a <- req m k_arguments;
  do c <- req m k_category_uuid;
  do u <- req m k_uuid;
  match t with
  | JStr ts =>
    if mem_str ts test_names then
      if mem_str ts no_args_tests then Ok {| cs_uuid := or_fresh u; cs_type := t; cs_cat := c; cs_args := [] |}
      else do al <- as_arr a; Ok {| cs_uuid := or_fresh u; cs_type := t; cs_cat := c; cs_args := al |}
    else Err ValueError
  | _ => Err ValueError
  end.

Inductive router_t :=
| RSwitch (operand result_name : json) (wait_timeout : option Z) (cases : list case_t)
          (others : list cat_t) (default : cat_t) (noresp : option cat_t)
| RRandom (result_name : json) (cats : list cat_t).

Definition result_name_of (m : list (str * json)) : json := getd m k_result_name JNull.

(* int(x) for the values an export carries *)
Definition py_int (j : json) : res Z :=
  match j with
  | JInt z => Ok z
  | JBool b => Ok (if b then 1%Z else 0%Z)
  | _ => Err TypeError
  end.

Definition first_cat (u : json) (cats : list cat_t) : option cat_t :=
  match filter (fun c => json_eqb (c_uuid c) u) cats with c :: _ => Some c | [] => None end.

(* SwitchRouter.from_dict(data, exits) followed by SwitchRouter.__init__ *)
Definition load_switch (exits : list exit_t) (m : list (str * json)) : res router_t :=
  do cj <- req m k_categories;
  do cl <- as_arr cj;
  do cats <- mapM (load_category exits) cl;
  do kj <- req m k_cases;
  do kl <- as_arr kj;
  do cases <- mapM load_case kl;
  do du <- req m k_default_category_uuid;
  do dflt <- (match first_cat du cats with Some c => Ok c | None => Err ValueError end);
  do w <- (match jget m k_wait with
           | None => Ok (None, None, JNull)
           | Some wj =>
             do wm <- as_obj wj;
             match jget wm k_timeout with
             | None => Ok (Some 0%Z, None, JNull)
             | Some tj =>
               do tm <- as_obj tj;
               do nid <- req tm k_category_uuid;
               do sj <- req tm k_seconds;
               do s <- py_int sj;
               do nr <- (match first_cat nid cats with Some c => Ok c | None => Err ValueError end);
               Ok (Some s, Some nr, nid)
             end
           end);
  let '(wt, nr, nid) := w in
  let others := filter (fun c => negb (json_eqb (c_uuid c) du || json_eqb (c_uuid c) nid)) cats in
  do op <- req m k_operand;
  let positive := match wt with Some z => negb (Z.eqb z 0) | None => false end in
  Ok (RSwitch op (result_name_of m) wt cases others dflt (if positive then nr else None)).

Definition load_random (exits : list exit_t) (m : list (str * json)) : res router_t :=
  do cj <- req m k_categories;
  do cl <- as_arr cj;
  do cats <- mapM (load_category exits) cl;
  Ok (RRandom (result_name_of m) cats).

(* ---------------------------------------------------------------- nodes.py *)
Inductive node_kind := NBasic | NSwitch | NRandom | NEnterFlow | NWebhook | NAirtime.

Record node_t := { n_kind : node_kind; n_uuid : json; n_actions : list action_t;
                   n_default_exit : option exit_t; n_router : option router_t;
                   n_ui : option (json * json) }.

Definition load_exits (m : list (str * json)) : res (list exit_t) :=
  do ej <- req m k_exits;
  do el <- as_arr ej;
  mapM load_exit el.

Definition load_actions (m : list (str * json)) : res (list action_t) :=
  do aj <- req m k_actions;
  do al <- as_arr aj;
  mapM load_action al.

(* BaseNode.from_dict dispatch and the from_dict of the chosen subclass *)
Definition load_node (j : json) : res node_t :=
  do m <- as_obj j;
  match jget m k_router with
  | None =>
    do exits <- load_exits m;
    match exits with
    | [e] =>
      do acts <- load_actions m;
      do u <- req m k_uuid;
      Ok {| n_kind := NBasic; n_uuid := or_fresh u; n_actions := acts; n_default_exit := Some e;
            n_router := None; n_ui := None |}
    | _ => Err ValueError
    end
  | Some rj =>
    do rm <- as_obj rj;
    do rt <- req rm k_type;
    if json_eqb rt (JStr k_random) then
      do exits <- load_exits m;
      do r <- load_random exits rm;
      do u <- req m k_uuid;
      Ok {| n_kind := NRandom; n_uuid := or_fresh u; n_actions := []; n_default_exit := None;
            n_router := Some r; n_ui := None |}
    else if json_eqb rt (JStr k_switch) then
      do aj <- req m k_actions;
      if truthy aj then
        do al <- as_arr aj;
        do a0 <- (match al with a :: _ => Ok a | [] => Err IndexError end);
        do a0m <- as_obj a0;
        do a0t <- req a0m k_type;
        do kind <- (if json_eqb a0t (JStr k_enter_flow) then Ok NEnterFlow
                    else if json_eqb a0t (JStr k_call_webhook) then Ok NWebhook
                    else if json_eqb a0t (JStr k_transfer_airtime) then Ok NAirtime
                    else Err ValueError);
        do exits <- load_exits m;
        do r <- load_switch exits rm;
        do acts <- mapM load_action al;
        match acts with
        | [a] =>
          do u <- req m k_uuid;
          Ok {| n_kind := kind; n_uuid := or_fresh u; n_actions := [a]; n_default_exit := None;
                n_router := Some r; n_ui := None |}
        | _ => Err ValueError
        end
      else
        do exits <- load_exits m;
        do r <- load_switch exits rm;
        do u <- req m k_uuid;
        Ok {| n_kind := NSwitch; n_uuid := or_fresh u; n_actions := []; n_default_exit := None;
              n_router := Some r; n_ui := None |}
    else Err ValueError
  end.

(* node.add_ui_from_dict(ui["nodes"]) *)
Definition add_ui (uin : list (str * json)) (n : node_t) : res node_t :=
  match n_uuid n with
  | JStr u =>
    match jget uin u with
    | Some ent =>
      do em <- as_obj ent;
      do pj <- req em k_position;
      do pm <- as_obj pj;
      do l <- req pm k_left;
      do t <- req pm k_top;
      Ok {| n_kind := n_kind n; n_uuid := n_uuid n; n_actions := n_actions n;
            n_default_exit := n_default_exit n; n_router := n_router n; n_ui := Some (l, t) |}
    | None => Ok n
    end
  | _ => Ok n
  end.

(* ---------------------------------------------------------------- containers.py: FlowContainer *)
Record flow_t := { f_uuid : json; f_name : json; f_language : json; f_type : json;
                   f_nodes : list node_t; f_spec : json; f_revision : json; f_expire : json;
                   f_metadata : json; f_localization : json }.

Definition load_flow (j : json) : res flow_t :=
  do m <- as_obj j;
  do name <- req m k_name;
  do nj <- req m k_nodes;
  do nl <- as_arr nj;
  do nodes <- mapM load_node nl;
  do nodes' <- (match jget m k__ui with
                | None => Ok nodes
                | Some uj =>
                  do um <- as_obj uj;
                  match jget um k_nodes with
                  | None => Ok nodes
                  | Some unj => do unm <- as_obj unj; mapM (add_ui unm) nodes
                  end
                end);
  let m' := (k_flow_name, name) :: remove_key (remove_key (remove_key (remove_key m k_name) k_nodes) k__ui) k_flow_name in
  do _ <- check_kwargs flow_params m';
  Ok {| f_uuid := or_fresh (getd m' k_uuid JNull); f_name := name;
        f_language := getd m' k_language flow_default_language;
        f_type := getd m' k_type flow_default_type;
        f_nodes := nodes';
        f_spec := getd m' k_spec_version flow_default_spec_version;
        f_revision := getd m' k_revision flow_default_revision;
        f_expire := getd m' k_expire_after_minutes flow_default_expire_after_minutes;
        f_metadata := or_else (getd m' k_metadata JNull) (JObj []);
        f_localization := or_else (getd m' k_localization JNull) (JObj []) |}.

(* ---------------------------------------------------------------- campaigns.py *)
Record event_t := { ev_uuid : json; ev_offset : json; ev_unit : json; ev_type : json; ev_hour : json;
                    ev_message : json; ev_rel : fieldref_t; ev_start : json; ev_flow : flowref_t;
                    ev_base : json }.

Definition load_event (j : json) : res event_t :=
  do m <- as_obj j;
  do rj <- req m k_relative_to;
  do rm <- as_obj rj;
  do lbl <- req rm k_label;
  do key <- req rm k_key;
  do rel <- mk_fieldref lbl key JNull;
  do fl <- (match jget m k_flow with
            | Some fj => load_flowref fj
            | None => Ok {| fr_name := getd m k_flow_name JNull; fr_uuid := getd m k_flow_uuid JNull |}
            end);
  do _ <- check_kwargs event_params m;
  let et := getd m k_event_type JNull in
  let msg := getd m k_message JNull in
  let bl := getd m k_base_language JNull in
  if json_eqb et (JStr k_M) && (is_null msg || is_null bl) then Err ValueError
  else Ok {| ev_uuid := or_fresh (getd m k_uuid JNull); ev_offset := getd m k_offset JNull;
             ev_unit := getd m k_unit JNull; ev_type := et; ev_hour := getd m k_delivery_hour JNull;
             ev_message := msg; ev_rel := rel; ev_start := getd m k_start_mode JNull; ev_flow := fl;
             ev_base := bl |}.

Record campaign_t := { cp_uuid : json; cp_name : json; cp_group : group_t; cp_events : list event_t }.

Definition load_campaign (j : json) : res campaign_t :=
  do m <- as_obj j;
  if has m k_group && has m k_name && has m k_events then
    do g <- load_group (getd m k_group JNull);
    do el <- as_arr (getd m k_events JNull);
    do evs <- mapM load_event el;
    Ok {| cp_uuid := or_fresh (getd m k_uuid JNull); cp_name := getd m k_name JNull; cp_group := g;
          cp_events := evs |}
  else Err AssertionError.

(* ---------------------------------------------------------------- triggers.py *)
Record trigger_t := { tr_type : json; tr_keywords : json; tr_channel : json; tr_match : json;
                      tr_flow : flowref_t; tr_groups : list group_t; tr_exclude : list group_t }.

Definition load_trigger (j : json) : res trigger_t :=
  do m <- as_obj j;
  do fl <- (match jget m k_flow with
            | Some fj => do f <- load_flowref fj; Ok (Some f)
            | None => Ok None
            end);
  do gj <- req m k_groups;
  do gl <- as_arr gj;
  do gs <- mapM load_group gl;
  do ex <- (match jget m k_exclude_groups with
            | Some ej => do el <- as_arr ej; mapM load_group el
            | None => Ok []
            end);
  do kws <- (match jget m k_keywords with
             | Some k => Ok k
             | None => match jget m k_keyword with
                       | Some k => Ok (JArr (if is_null k then [] else [k]))
                       | None => Err AssertionError
                       end
             end);
  do _ <- check_kwargs trigger_params (remove_key (remove_key m k_keyword) k_keywords);
  do tty <- (match jget m k_trigger_type with Some t => Ok t | None => Err TypeError end);
  let mt := getd m k_match_type JNull in
  do kw0 <- (match kws with
             | JArr (k :: _) => Ok k
             | JArr [] | JNull => Ok JNull
             | _ => Err TypeError
             end);
  let is_k := json_eqb tty (JStr k_K) in
  if is_k && negb (truthy kws && truthy kw0) then Err ValueError else
  let flow_name := getd m k_flow_name JNull in
  do f <- (match fl with
           | Some f => Ok f
           | None => if truthy flow_name then Ok {| fr_name := flow_name; fr_uuid := getd m k_flow_uuid JNull |}
                     else Err ValueError
           end);
  Ok {| tr_type := tty; tr_keywords := or_else kws (JArr []);
        tr_channel := or_else (getd m k_channel JNull) JNull;
        tr_match := (if truthy mt then mt else if is_k then JStr k_F else JNull);
        tr_flow := f; tr_groups := gs; tr_exclude := ex |}.

(* ---------------------------------------------------------------- containers.py: RapidProContainer *)
Record container_t := { ct_campaigns : list campaign_t; ct_fields : json; ct_flows : list flow_t;
                        ct_groups : list group_t; ct_site : json; ct_triggers : list trigger_t;
                        ct_version : json }.

Definition from_dict (j : json) : res container_t :=
  do m <- as_obj j;
  do fj <- req m k_flows;
  do fl <- as_arr fj;
  do flows <- mapM load_flow fl;
  do gj <- req m k_groups;
  do gl <- as_arr gj;
  do groups <- mapM load_group gl;
  do cj <- req m k_campaigns;
  do cl <- as_arr cj;
  do camps <- mapM load_campaign cl;
  let m' := remove_key (remove_key (remove_key m k_flows) k_groups) k_campaigns in
  do _ <- check_kwargs container_params m';
  do tj <- req m' k_triggers;
  do tl <- as_arr tj;
  do trigs <- mapM load_trigger tl;
  Ok {| ct_campaigns := camps; ct_fields := or_else (getd m' k_fields JNull) (JArr []);
        ct_flows := flows; ct_groups := groups;
        ct_site := or_else (getd m' k_site JNull) container_default_site;
        ct_triggers := trigs; ct_version := getd m' k_version container_default_version |}.

(* ================================================================ validate(): the uuid dictionary *)
(* a dict keyed by names (str or None), insertion ordered *)
Definition udict := list (json * json).

Fixpoint uget (d : udict) (n : json) : option json :=
  match d with
  | [] => None
  | (k, v) :: r => if json_eqb k n then Some v else uget r n
  end.

Fixpoint uset (d : udict) (n v : json) : udict :=
  match d with
  | [] => [(n, v)]
  | (k, v') :: r => if json_eqb k n then (k, v) :: r else (k, v') :: uset r n v
  end.

(* UUIDDict._record_uuid *)
Definition record1 (d : udict) (n u : json) : res udict :=
  match uget d n with
  | Some r => if truthy r then (if truthy u && negb (json_eqb u r) then Err ValueError else Ok d)
              else Ok (uset d n u)
  | None => Ok (uset d n u)
  end.

(* the calls a record_global_uuids method makes, in order *)
Inductive occ := OGroup (n u : json) | OFlow (n u : json) | ONeedFlow (n : json).

Definition occs_group (g : group_t) : list occ := [OGroup (g_name g) (g_uuid g)].
Definition occs_flowref (f : flowref_t) : list occ := [OFlow (fr_name f) (fr_uuid f)].

Definition occs_action (a : action_t) : list occ :=
  match a with
  | AGroups _ _ gs => flat_map occs_group gs
  | AEnterFlow _ f => occs_flowref f
  | _ => []
  end.

Definition occs_case (c : case_t) : res (list occ) :=
  if json_eqb (cs_type c) (JStr k_has_group) then
    match cs_args c with
    | u :: n :: _ => Ok [OGroup n u]
    | _ => Err IndexError
    end
  else Ok [].

Definition occs_router (r : router_t) : res (list occ) :=
  match r with
  | RSwitch _ _ _ cases _ _ _ => do l <- mapM occs_case cases; Ok (concat l)
  | RRandom _ _ => Ok []
  end.

Definition occs_node (n : node_t) : res (list occ) :=
  do r <- (match n_router n with Some r => occs_router r | None => Ok [] end);
  Ok (flat_map occs_action (n_actions n) ++ r).

Definition occs_flow (f : flow_t) : res (list occ) :=
  do l <- mapM occs_node (f_nodes f); Ok (concat l).

Definition occs_campaign (c : campaign_t) : list occ :=
  flat_map (fun e => occs_flowref (ev_flow e)) (cp_events c) ++ occs_group (cp_group c).

Definition occs_trigger (t : trigger_t) : list occ :=
  ONeedFlow (fr_name (tr_flow t)) :: occs_flowref (tr_flow t)
  ++ flat_map occs_group (tr_groups t) ++ flat_map occs_group (tr_exclude t).

(* RapidProContainer.update_global_uuids, recording half *)
Definition occs_container (c : container_t) : res (list occ) :=
  do fl <- mapM occs_flow (ct_flows c);
  Ok (flat_map occs_group (ct_groups c)
      ++ map (fun f => OFlow (f_name f) (f_uuid f)) (ct_flows c)
      ++ concat fl
      ++ flat_map occs_campaign (ct_campaigns c)
      ++ flat_map occs_trigger (ct_triggers c)).

Record uuids := { flow_dict : udict; group_dict : udict }.

Definition apply_occ (s : uuids) (o : occ) : res uuids :=
  match o with
  | OGroup n u => do g <- record1 (group_dict s) n u; Ok {| flow_dict := flow_dict s; group_dict := g |}
  | OFlow n u => do f <- record1 (flow_dict s) n u; Ok {| flow_dict := f; group_dict := group_dict s |}
  | ONeedFlow n => match uget (flow_dict s) n with Some _ => Ok s | None => Err TriggerError end
  end.

(* UUIDDict.generate_missing_uuids *)
Definition fill_missing (d : udict) : udict := map (fun kv => (fst kv, or_fresh (snd kv))) d.

(* the assigning half *)
Definition lookup (d : udict) (n : json) : res json :=
  match uget d n with Some v => Ok v | None => Err KeyError end.

Definition assign_group (s : uuids) (g : group_t) : res group_t :=
  do u <- lookup (group_dict s) (g_name g); Ok {| g_name := g_name g; g_uuid := u; g_opt := g_opt g |}.

Definition assign_flowref (s : uuids) (f : flowref_t) : res flowref_t :=
  do u <- lookup (flow_dict s) (fr_name f); Ok {| fr_name := fr_name f; fr_uuid := u |}.

Definition assign_action (s : uuids) (a : action_t) : res action_t :=
  match a with
  | AGroups rm d gs => do gs' <- mapM (assign_group s) gs; Ok (AGroups rm d gs')
  | AEnterFlow d f => do f' <- assign_flowref s f; Ok (AEnterFlow d f')
  | _ => Ok a
  end.

Definition assign_case (s : uuids) (c : case_t) : res case_t :=
  if json_eqb (cs_type c) (JStr k_has_group) then
    match cs_args c with
    | _ :: n :: r => do u <- lookup (group_dict s) n;
                     Ok {| cs_uuid := cs_uuid c; cs_type := cs_type c; cs_cat := cs_cat c; cs_args := u :: n :: r |}
    | _ => Err IndexError
    end
  else Ok c.

Definition assign_router (s : uuids) (r : router_t) : res router_t :=
  match r with
  | RSwitch op rn wt cases others d nr => do cs <- mapM (assign_case s) cases; Ok (RSwitch op rn wt cs others d nr)
  | RRandom _ _ => Ok r
  end.

Definition assign_node (s : uuids) (n : node_t) : res node_t :=
  do acts <- mapM (assign_action s) (n_actions n);
  do r <- (match n_router n with Some r => do r' <- assign_router s r; Ok (Some r') | None => Ok None end);
  Ok {| n_kind := n_kind n; n_uuid := n_uuid n; n_actions := acts; n_default_exit := n_default_exit n;
        n_router := r; n_ui := n_ui n |}.

Definition assign_flow (s : uuids) (f : flow_t) : res flow_t :=
  do ns <- mapM (assign_node s) (f_nodes f);
  Ok {| f_uuid := f_uuid f; f_name := f_name f; f_language := f_language f; f_type := f_type f;
        f_nodes := ns; f_spec := f_spec f; f_revision := f_revision f; f_expire := f_expire f;
        f_metadata := f_metadata f; f_localization := f_localization f |}.

Definition assign_event (s : uuids) (e : event_t) : res event_t :=
  do f <- assign_flowref s (ev_flow e);
  Ok {| ev_uuid := ev_uuid e; ev_offset := ev_offset e; ev_unit := ev_unit e; ev_type := ev_type e;
        ev_hour := ev_hour e; ev_message := ev_message e; ev_rel := ev_rel e; ev_start := ev_start e;
        ev_flow := f; ev_base := ev_base e |}.

Definition assign_campaign (s : uuids) (c : campaign_t) : res campaign_t :=
  do evs <- mapM (assign_event s) (cp_events c);
  do g <- assign_group s (cp_group c);
  Ok {| cp_uuid := cp_uuid c; cp_name := cp_name c; cp_group := g; cp_events := evs |}.

Definition assign_trigger (s : uuids) (t : trigger_t) : res trigger_t :=
  do f <- assign_flowref s (tr_flow t);
  do gs <- mapM (assign_group s) (tr_groups t);
  do ex <- mapM (assign_group s) (tr_exclude t);
  Ok {| tr_type := tr_type t; tr_keywords := tr_keywords t; tr_channel := tr_channel t; tr_match := tr_match t;
        tr_flow := f; tr_groups := gs; tr_exclude := ex |}.

(* existing.setdefault(group.name, group) ... existing.get(name): the first group of that name *)
Fixpoint find_group (n : json) (gs : list group_t) : option group_t :=
  match gs with
  | [] => None
  | g :: r => if json_eqb (g_name g) n then Some g else find_group n r
  end.

Definition no_attrs : list json := map (fun _ => JNull) group_optional_attrs.

(* one entry of the rebuilt self.groups.  Repaired tree ("fix: validate() keeps query/status/
   system/count of the container's groups"): the Group the container already holds under that
   name, with the resolved uuid assigned; a fresh Group(name, uuid) for a group that is only
   referenced.  Before the repair: always Group(name, uuid).  The regenerated probe
   [validate_keeps_group_attrs] (Gen/Tables.v) tells which code is under check. *)
Definition listed_group (held : list group_t) (kv : json * json) : group_t :=
  {| g_name := fst kv; g_uuid := snd kv;
     g_opt := if validate_keeps_group_attrs
              then match find_group (fst kv) held with Some g => g_opt g | None => no_attrs end
              else no_attrs |}.

(* RapidProContainer.validate(): update_global_uuids, then self.groups rebuilt from the
   group dictionary: one entry per name, in the dictionary's order *)
Definition validate (c : container_t) : res container_t :=
  do os <- occs_container c;
  do s0 <- foldM apply_occ os {| flow_dict := []; group_dict := [] |};
  let s := {| flow_dict := fill_missing (flow_dict s0); group_dict := fill_missing (group_dict s0) |} in
  do flows <- mapM (assign_flow s) (ct_flows c);
  do camps <- mapM (assign_campaign s) (ct_campaigns c);
  do trigs <- mapM (assign_trigger s) (ct_triggers c);
  Ok {| ct_campaigns := camps; ct_fields := ct_fields c; ct_flows := flows;
        ct_groups := map (listed_group (ct_groups c)) (group_dict s);
        ct_site := ct_site c; ct_triggers := trigs; ct_version := ct_version c |}.

(* load : json -> result err container — what render() sees *)
Definition load (j : json) : res container_t := do c <- from_dict j; validate c.
