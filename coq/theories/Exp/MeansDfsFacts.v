(* C04 — invariants of the depth-first export, by rule induction on Exp/MeansDfs.v:
   shapes     every row of the sheet is a row of a node of the flow (row j of its row group, with the payload of its
              j-th action), a go_to row to the first row of a node, or a loose_exit row;
   back       every edge origin / go_to target is the id of an EARLIER row of the sheet;
   complete   every exported node has all its rows in the sheet;
   events     the edges of the sheet (with the rows they lead to) are, up to order, the entry edge plus, for every
              exported node, the chain of its row group and one edge per kept exit pair;
   closed     every destination of an exported node is exported. *)
From Coq Require Import String.
From Coq Require Import List NArith Bool Arith Lia Permutation.
From RPFT Require Import Base.Sexp Base.PyStr Base.PyStrFacts Base.Result Gen.Tables Exp.ToRows Exp.RowIdFacts Exp.MeansDfs.
Import ListNotations.

Opaque no_args_tests short_types strip_excluded frm_field_headers.
Opaque loose_exit_rows pairs_follow_cases has_group_case_by_name split_rows_carry_save_name group_split_without_cases_exports.

Section Facts.
Variable U : Type.
Variable ueqb : U -> U -> bool.
Hypothesis ueqb_spec : forall a b, ueqb a b = true <-> a = b.
Variable nodes : list (node U).

Notation tidU := (tid U).
Notation trow := (row U (tid U)).
Notation pair := (option U * edge U (tid U))%type.
Notation fnode := (find_node ueqb nodes).
Notation Step := (Step U ueqb nodes).
Notation Steps := (Steps U ueqb nodes).
Notation Visit := (Visit U ueqb nodes).
Notation Ext := (Ext U).

(* ---------------------------------------------------------------- the states grow *)
Lemma Step_ext n sn st p st' : Step n sn st p st' -> Ext st st'.
Proof.
  intros H. destruct H as [n sn st e _|n sn st e _|n sn st d e child csn rows' _ _ _ Ep|n sn st d e child csn _ _ _ _|n sn st d e child st' fuel _ _ Hv Hr _].
  - apply Ext_refl.
  - constructor; cbn [push_row st_vis st_done st_rows st_k]; try apply incl_refl;
      [intros u Hu; left; exact Hu|intros u Hu; left; exact Hu|lia|cbn [map]; apply incl_tl, incl_refl].
  - apply (prepend_edge_ids U ueqb) in Ep.
    constructor; cbn [with_rows st_vis st_done st_rows st_k]; try apply incl_refl;
      [intros u Hu; left; exact Hu|intros u Hu; left; exact Hu|lia|rewrite Ep; apply incl_refl].
  - constructor; cbn [push_row st_vis st_done st_rows st_k]; try apply incl_refl;
      [intros u Hu; left; exact Hu|intros u Hu; left; exact Hu|lia|cbn [map]; apply incl_tl, incl_refl].
  - apply (visit_ext U ueqb ueqb_spec nodes fuel child e st st' Hv Hr).
Qed.

Lemma Steps_ext n sn st prs st' : Steps n sn st prs st' -> Ext st st'.
Proof.
  induction 1 as [n sn st|n sn st p st1 rest st2 H1 _ IH]; [apply Ext_refl|].
  eapply Ext_trans; [apply (Step_ext _ _ _ _ _ H1)|exact IH].
Qed.

(* the node whose exits are being followed *)
Definition Ctx (n : node U) (sn : str) (st : state U) : Prop :=
  In (n_uuid n) (st_vis st) /\ fnode (n_uuid n) = Some n /\ short_name n = Ok sn.

Lemma Ctx_ext n sn st st' : Ext st st' -> Ctx n sn st -> Ctx n sn st'.
Proof. intros He (H1 & H2 & H3). split; [apply (ext_vis _ _ _ He), H1|split; assumption]. Qed.

Lemma fnode_uuid d c : fnode d = Some c -> n_uuid c = d.
Proof. apply (find_node_uuid U ueqb ueqb_spec). Qed.

Lemma fnode_self d c : fnode d = Some c -> fnode (n_uuid c) = Some c.
Proof. intros H. rewrite (fnode_uuid _ _ H). exact H. Qed.

Lemma fnode_inj m m' : fnode (n_uuid m) = Some m -> fnode (n_uuid m') = Some m' -> n_uuid m = n_uuid m' -> m = m'.
Proof. intros H1 H2 E. rewrite E in H1. congruence. Qed.

(* ---------------------------------------------------------------- the rows of a node *)
Definition chain_edge (u : U) (sn : str) (j : nat) : edge U tidU := {| e_from := TNode u (sub_short sn j); e_cond := no_cond |}.

(* type and payload of row j of node m *)
Definition row_content (m : node U) (j : nat) (tp : str) (p : pay U) : Prop :=
  (exists a q, nth_error (n_actions m) j = Some a /\ action_fields a = Ok (tp, q) /\ p = node_base_pay m ++ q)
  \/ (n_actions m = [] /\ j = 0%nat /\ exists q, node_kwargs m = Ok (Some (tp, q)) /\ p = node_base_pay m ++ q).

Definition node_row (m : node U) (sn : str) (j : nat) (es : list (edge U tidU)) (r : trow) : Prop :=
  r_id r = TNode (n_uuid m) (sub_short sn j) /\ row_content m j (r_type r) (r_pay r) /\ r_goto r = [] /\ r_edges r = es.

Lemma action_rows_spec u sn base acts : forall i pe (rms : list trow),
  action_rows u sn base acts i pe = Ok rms ->
  List.length rms = List.length acts /\
  forall j r, nth_error rms j = Some r ->
    r_id r = TNode u (sub_short sn (i + j)) /\ r_goto r = []
    /\ r_edges r = [match j with O => pe | S j' => chain_edge u sn (i + j') end]
    /\ exists a q, nth_error acts j = Some a /\ action_fields a = Ok (r_type r, q) /\ r_pay r = base ++ q.
Proof.
  induction acts as [|a rest IH]; intros i pe rms H; cbn [action_rows] in H.
  - inversion H; subst. split; [reflexivity|]. intros [|j] r Hr; discriminate.
  - destruct (action_fields a) as [[tp q]|e] eqn:Ea; cbn [bind] in H; [|discriminate].
    destruct (action_rows u sn base rest (S i) _) as [more|e] eqn:Em; cbn [bind] in H; [|discriminate].
    inversion H; subst. destruct (IH _ _ _ Em) as [Hl Hs]. split; [cbn [List.length]; rewrite Hl; reflexivity|].
    intros [|j] r Hr; cbn [nth_error] in Hr.
    + inversion Hr; subst r. cbn [r_id r_goto r_edges r_type r_pay fst snd]. rewrite Nat.add_0_r.
      repeat split. exists a, q. repeat split. exact Ea.
    + destruct (Hs j r Hr) as (A1 & A2 & A3 & A4). replace (i + S j)%nat with (S i + j)%nat by lia.
      repeat split; try assumption. rewrite A3. f_equal. destruct j as [|j'].
      * unfold chain_edge. rewrite Nat.add_0_r. reflexivity.
      * replace (i + S j')%nat with (S i + j')%nat by lia. reflexivity.
Qed.

Lemma initiate_spec m sn pe (rms : list trow) :
  initiate_row_models m sn pe = Ok rms ->
  List.length rms = Nat.max 1 (List.length (n_actions m)) /\
  forall j r, nth_error rms j = Some r ->
    node_row m sn j [match j with O => pe | S j' => chain_edge (n_uuid m) sn j' end] r.
Proof.
  unfold initiate_row_models. intros H.
  destruct (node_kwargs m) as [kw|e] eqn:Ek; cbn [bind] in H; [|discriminate].
  destruct (n_actions m) as [|a rest] eqn:Ea.
  - destruct kw as [[tp p]|]; [|discriminate]. injection H as <-. split; [reflexivity|].
    intros [|[|j]] r Hr; cbn [nth_error] in Hr; try discriminate. injection Hr as <-.
    unfold node_row, row_content. cbn [r_id r_goto r_edges r_type r_pay sub_short].
    split; [reflexivity|]. split; [|split; reflexivity].
    right. split; [exact Ea|]. split; [reflexivity|]. exists p. split; [exact Ek|reflexivity].
  - destruct (action_rows_spec _ _ _ _ _ _ _ H) as [Hl Hs]. split; [rewrite Hl; cbn [List.length]; lia|].
    intros j r Hr. destruct (Hs j r Hr) as (A1 & A2 & A3 & a' & q & B1 & B2 & B3). cbn [Nat.add] in A1, A3.
    unfold node_row, row_content. split; [exact A1|]. split; [|split; [exact A2|exact A3]].
    left. exists a', q. split; [rewrite Ea; exact B1|]. split; [exact B2|exact B3].
Qed.

(* ---------------------------------------------------------------- shapes *)
Inductive shape (r : trow) : Prop :=
| Sh_node m sn j es :
    fnode (n_uuid m) = Some m -> short_name m = Ok sn -> node_row m sn j es r ->
    match j with O => es <> [] | S j' => es = [chain_edge (n_uuid m) sn j'] end -> shape r
| Sh_goto k child csn e :
    fnode (n_uuid child) = Some child -> short_name child = Ok csn ->
    r = goto_row k (TNode (n_uuid child) csn) csn e -> shape r
| Sh_loose k sn e : r = loose_row k sn e -> shape r.

Definition add_edge (e : edge U tidU) (r : trow) : trow :=
  {| r_id := r_id r; r_type := r_type r; r_edges := e :: r_edges r; r_goto := r_goto r; r_pay := r_pay r |}.

Lemma tid_eqb_true (a b : tidU) : tid_eqb ueqb a b = true -> a = b.
Proof. apply (tid_eqb_eq U ueqb ueqb_spec). Qed.

(* prepend_edge changes exactly one row: the first one with that id *)
Lemma prepend_edge_split t e rows rows' :
  prepend_edge ueqb t e rows = Some rows' ->
  exists a r b, rows = a ++ r :: b /\ rows' = a ++ add_edge e r :: b /\ r_id r = t /\ ~ In t (map r_id a).
Proof.
  revert rows'. induction rows as [|r rest IH]; intros rows' H; cbn [prepend_edge] in H; [discriminate|].
  destruct (tid_eqb ueqb (r_id r) t) eqn:E.
  - injection H as <-. exists [], r, rest. repeat split. + apply tid_eqb_true, E. + intros [].
  - destruct (prepend_edge ueqb t e rest) as [rest'|] eqn:Ep; [|discriminate]. injection H as <-.
    destruct (IH _ eq_refl) as (a & r0 & b & E1 & E2 & E3 & E4). exists (r :: a), r0, b. subst rest rest'. repeat split; [exact E3|].
    intros [Hin|Hin]; [|exact (E4 Hin)].
    assert (X : tid_eqb ueqb (r_id r) t = true) by (apply (tid_eqb_eq U ueqb ueqb_spec); exact Hin). congruence.
Qed.

Lemma add_edge_shape child csn e r :
  fnode (n_uuid child) = Some child -> short_name child = Ok csn -> r_id r = TNode (n_uuid child) csn ->
  shape r -> shape (add_edge e r).
Proof.
  intros Hc Hs Hid Hr. destruct Hr as [m sn j es Hm Hsn (A1 & A2 & A3 & A4) Hj|k c cs e' _ _ ->|k sn e' ->]; try discriminate.
  rewrite A1 in Hid. injection Hid as Eu Es. pose proof (fnode_inj _ _ Hm Hc Eu) as ->.
  assert (Ecs : sn = csn) by congruence.
  assert (j = 0%nat) by (apply (sub_short_inj sn); rewrite Es, <- Ecs; reflexivity). subst j.
  apply (Sh_node _ child sn 0%nat (e :: es) Hm Hsn); [|discriminate].
  unfold node_row, add_edge. cbn [r_id r_type r_pay r_goto r_edges]. rewrite A4. repeat split; assumption.
Qed.

Lemma initiate_shapes n sn pe rms :
  fnode (n_uuid n) = Some n -> short_name n = Ok sn -> initiate_row_models n sn pe = Ok rms -> Forall shape rms.
Proof.
  intros Hn Hsn Hi. destruct (initiate_spec _ _ _ _ Hi) as [_ Hs]. apply Forall_forall. intros r Hr.
  apply In_nth_error in Hr as [j Hj]. apply (Sh_node r n sn j _ Hn Hsn (Hs j r Hj)). destruct j; [discriminate|reflexivity].
Qed.

Lemma shapes_all :
  (forall n sn st p st', Step n sn st p st' -> Forall shape (st_rows st) -> Forall shape (st_rows st'))
  /\ (forall n sn st prs st', Steps n sn st prs st' -> Forall shape (st_rows st) -> Forall shape (st_rows st'))
  /\ (forall n pe st st', Visit n pe st st' -> fnode (n_uuid n) = Some n -> Forall shape (st_rows st) -> Forall shape (st_rows st')).
Proof.
  apply dfs_mind.
  - intros n sn st e _ H. exact H.
  - intros n sn st e _ H. cbn [push_row st_rows]. constructor; [eapply Sh_loose; reflexivity|exact H].
  - intros n sn st d e child csn rows' Hf _ Hs Hp H. cbn [with_rows st_rows].
    destruct (prepend_edge_split _ _ _ _ Hp) as (a & r & b & E1 & E2 & Hid & _). rewrite E1 in H. rewrite E2.
    apply Forall_app in H as [Ha Hb]. inversion Hb as [|? ? Hr Hb']; subst. apply Forall_app. split; [exact Ha|].
    constructor; [|exact Hb']. apply (add_edge_shape child csn e r (fnode_self _ _ Hf) Hs Hid Hr).
  - intros n sn st d e child csn Hf _ _ Hs H. cbn [push_row st_rows].
    constructor; [eapply (Sh_goto _ _ child csn e (fnode_self _ _ Hf) Hs); reflexivity|exact H].
  - intros n sn st d e child st' fuel Hf _ _ _ _ IH H. apply IH; [apply (fnode_self _ _ Hf)|exact H].
  - intros n sn st H. exact H.
  - intros n sn st p st1 rest st2 _ IH1 _ IH2 H. apply IH2, IH1, H.
  - intros n pe st sn rms prs st' Hsn Hi _ _ IH Hn H. cbn [leave st_rows]. apply Forall_app. split.
    + apply (initiate_shapes n sn pe rms Hn Hsn Hi).
    + apply IH. cbn [enter st_rows]. exact H.
Qed.

(* ---------------------------------------------------------------- references point backwards *)
Definition allowedB (P : list tidU) (t : tidU) : Prop := t = TStart \/ In t P.
Fixpoint back (P : list tidU) (rows : list trow) : Prop :=
  match rows with
  | [] => True
  | r :: rest => Forall (allowedB P) (row_refs U r) /\ back (r_id r :: P) rest
  end.

Lemma allowedB_mono P P' t : incl P P' -> allowedB P t -> allowedB P' t.
Proof. intros Hi [H|H]; [left; exact H|right; apply Hi, H]. Qed.

Lemma back_mono rows : forall P P', incl P P' -> back P rows -> back P' rows.
Proof.
  induction rows as [|r rest IH]; intros P P' Hi H; cbn [back] in *; [exact I|]. destruct H as [H1 H2]. split.
  - eapply Forall_impl; [|exact H1]. intros t. apply allowedB_mono, Hi.
  - apply (IH (r_id r :: P)); [|exact H2]. intros x [Hx|Hx]; [left; exact Hx|right; apply Hi, Hx].
Qed.

Lemma back_app a : forall P b, back P (a ++ b) <-> back P a /\ back (rev (map (@r_id U tidU) a) ++ P) b.
Proof.
  induction a as [|r a IH]; intros P b; cbn [app back map rev].
  - tauto.
  - rewrite (IH (r_id r :: P) b). rewrite <- app_assoc. cbn [app]. tauto.
Qed.

Lemma back_add_edge P a r b e : allowedB P (e_from e) -> back P (a ++ r :: b) -> back P (a ++ add_edge e r :: b).
Proof.
  intros He H. apply back_app in H as [Ha Hb]. apply back_app. split; [exact Ha|]. cbn [back] in *. destruct Hb as [H1 H2]. split; [|exact H2].
  unfold row_refs, add_edge in *. cbn [r_edges r_goto map app]. constructor; [|exact H1].
  eapply allowedB_mono; [|exact He]. apply incl_appr, incl_refl.
Qed.

(* the rows of a node that is on the stack are promised: their ids may be used *)
Definition Pvis (P : list tidU) (st : state U) : Prop :=
  forall u m sn, In u (st_vis st) -> ~ In u (st_done st) -> fnode u = Some m -> short_name m = Ok sn ->
                 In (TNode u sn) P /\ In (last_row_id m sn) P.

Lemma Pvis_ext P st st' : Ext st st' -> Pvis P st -> Pvis P st'.
Proof.
  intros [v1 d1 nd1 nv1 k1 i1] Hp u m sn Hv Hd Hf Hs. apply (Hp u m sn); try assumption.
  - destruct (nv1 _ Hv) as [H|H]; [exact H|contradiction].
  - intros H. apply Hd, d1, H.
Qed.

Definition CtxB (n : node U) (sn : str) (st : state U) : Prop := Ctx n sn st /\ ~ In (n_uuid n) (st_done st).

Lemma CtxB_ext n sn st st' : Ext st st' -> CtxB n sn st -> CtxB n sn st'.
Proof.
  intros He [Hc Hd]. split; [apply (Ctx_ext _ _ _ _ He Hc)|]. intros H.
  destruct (ext_new_done _ _ _ He _ H) as [H1|H1]; [exact (Hd H1)|]. apply H1. destruct Hc as (Hv & _). exact Hv.
Qed.

Lemma back_chain rows : forall Q,
  (forall j r, nth_error rows j = Some r ->
     r_goto r = [] /\ exists e, r_edges r = [e] /\
       match j with O => allowedB Q (e_from e) | S j' => exists r', nth_error rows j' = Some r' /\ e_from e = r_id r' end) ->
  back Q rows.
Proof.
  induction rows as [|r0 rest IH]; intros Q H; cbn [back]; [exact I|]. split.
  - destruct (H 0%nat r0 eq_refl) as (Hg & e & He & Ha). unfold row_refs. rewrite Hg, He. cbn [map app]. constructor; [exact Ha|constructor].
  - apply IH. intros j r Hr. destruct (H (S j) r Hr) as (Hg & e & He & r' & Hr' & Hf). split; [exact Hg|]. exists e. split; [exact He|].
    destruct j as [|j'].
    + cbn [nth_error] in Hr'. injection Hr' as <-. right. left. symmetry. exact Hf.
    + exists r'. split; [exact Hr'|exact Hf].
Qed.

Lemma initiate_back P n sn pe rms : initiate_row_models n sn pe = Ok rms -> allowedB P (e_from pe) -> back P rms.
Proof.
  intros Hi Hpe. destruct (initiate_spec _ _ _ _ Hi) as [_ Hs]. apply back_chain. intros j r Hr.
  destruct (Hs j r Hr) as (A1 & _ & A3 & A4). split; [exact A3|]. eexists. split; [exact A4|]. destruct j as [|j']; [exact Hpe|].
  assert (Hlt : (j' < List.length rms)%nat) by (apply Nat.lt_le_incl, nth_error_Some; congruence).
  destruct (nth_error rms j') as [r'|] eqn:Er'; [|apply nth_error_None in Er'; lia].
  exists r'. split; [reflexivity|]. destruct (Hs j' r' Er') as (B1 & _). rewrite B1. reflexivity.
Qed.

Lemma back_all :
  (forall n sn st p st', Step n sn st p st' ->
     forall P, CtxB n sn st -> e_from (snd p) = last_row_id n sn -> Pvis P st -> back P (st_rows st) -> back P (st_rows st'))
  /\ (forall n sn st prs st', Steps n sn st prs st' ->
     forall P, CtxB n sn st -> Forall (fun p => e_from (snd p) = last_row_id n sn) prs -> Pvis P st -> back P (st_rows st) -> back P (st_rows st'))
  /\ (forall n pe st st', Visit n pe st st' ->
     forall P, fnode (n_uuid n) = Some n -> ~ In (n_uuid n) (st_vis st) -> ~ In (n_uuid n) (st_done st) ->
               Pvis P st -> allowedB P (e_from pe) -> back P (st_rows st) -> back P (st_rows st')).
Proof.
  apply dfs_mind.
  - intros n sn st e _ P _ _ _ H. exact H.
  - intros n sn st e _ P [(Hv & Hn & Hsn) Hd] He Hp H. cbn [push_row st_rows back snd] in *. split.
    + unfold row_refs, loose_row. cbn [r_edges r_goto map app]. constructor; [|constructor]. right. rewrite He.
      apply (Hp _ n sn Hv Hd Hn Hsn).
    + eapply back_mono; [|exact H]. apply incl_tl, incl_refl.
  - intros n sn st d e child csn rows' Hf _ Hs Hpe P [(Hv & Hn & Hsn) Hd] He Hp H. cbn [with_rows st_rows snd] in *.
    destruct (prepend_edge_split _ _ _ _ Hpe) as (a & r & b & E1 & E2 & _ & _). rewrite E1 in H. rewrite E2.
    apply back_add_edge; [|exact H]. right. rewrite He. apply (Hp _ n sn Hv Hd Hn Hsn).
  - intros n sn st d e child csn Hf Hcd Hcv Hs P [(Hv & Hn & Hsn) Hd] He Hp H. cbn [push_row st_rows back snd] in *. split.
    + unfold row_refs, goto_row. cbn [r_edges r_goto map app]. constructor; [|constructor; [|constructor]].
      * right. rewrite He. apply (Hp _ n sn Hv Hd Hn Hsn).
      * right. apply (Hp _ child csn Hcv Hcd (fnode_self _ _ Hf) Hs).
    + eapply back_mono; [|exact H]. apply incl_tl, incl_refl.
  - intros n sn st d e child st' fuel Hf Hcd Hcv _ _ IH P [(Hv & Hn & Hsn) Hd] He Hp H. cbn [snd] in He.
    apply IH; try assumption; [apply (fnode_self _ _ Hf)|]. right. rewrite He. apply (Hp _ n sn Hv Hd Hn Hsn).
  - intros n sn st P _ _ _ H. exact H.
  - intros n sn st p st1 rest st2 H1 IH1 _ IH2 P Hc Hf Hp H. inversion Hf as [|? ? Hf1 Hf2]; subst.
    pose proof (Step_ext _ _ _ _ _ H1) as He. apply IH2; [apply (CtxB_ext _ _ _ _ He Hc)|exact Hf2|apply (Pvis_ext _ _ _ He Hp)|].
    apply IH1; assumption.
  - intros n pe st sn rms prs st' Hsn Hi He _ IH P Hn Hv Hd Hp Hpe H. cbn [leave st_rows].
    pose proof (initiate_ids U _ _ _ _ Hi) as Hids.
    apply back_app. split; [apply (initiate_back P n sn pe rms Hi Hpe)|].
    apply (back_mono _ (node_row_ids U n sn ++ P)).
    { rewrite Hids. intros x Hx. apply in_app_or in Hx as [Hx|Hx]; apply in_or_app; [left; apply in_rev; rewrite rev_involutive; exact Hx|right; exact Hx]. }
    apply IH.
    + split; [split; [left; reflexivity|split; assumption]|exact Hd].
    + apply Forall_rev. apply (exit_edge_pairs_from U ueqb) in He. exact He.
    + intros u m sn' Hu Hud Hm Hsn'. cbn [enter st_vis st_done] in Hu, Hud. destruct Hu as [Hu|Hu].
      * subst u. assert (m = n) by congruence. subst m. assert (sn' = sn) by congruence. subst sn'.
        split; apply in_or_app; left; [apply first_in_node_row_ids|apply last_in_node_row_ids].
      * destruct (Hp u m sn' Hu Hud Hm Hsn') as [A B]. split; apply in_or_app; right; assumption.
    + cbn [enter st_rows]. eapply back_mono; [|exact H]. apply incl_appr, incl_refl.
Qed.

(* ---------------------------------------------------------------- every exported node has all its rows *)
Definition complete (st : state U) : Prop :=
  forall u, In u (st_done st) ->
    exists m sn prs, fnode u = Some m /\ short_name m = Ok sn /\ exit_edge_pairs ueqb m (last_row_id m sn) = Ok prs
                     /\ incl (node_row_ids U m sn) (map (@r_id U tidU) (st_rows st)).

Lemma complete_ids st st' : st_done st' = st_done st -> incl (map (@r_id U tidU) (st_rows st)) (map (@r_id U tidU) (st_rows st')) ->
  complete st -> complete st'.
Proof.
  intros Hd Hi Hc u Hu. rewrite Hd in Hu. destruct (Hc u Hu) as (m & sn & prs & A & B & B' & C). exists m, sn, prs. repeat split; try assumption.
  eapply incl_tran; [exact C|exact Hi].
Qed.

Lemma complete_all :
  (forall n sn st p st', Step n sn st p st' -> complete st -> complete st')
  /\ (forall n sn st prs st', Steps n sn st prs st' -> complete st -> complete st')
  /\ (forall n pe st st', Visit n pe st st' -> fnode (n_uuid n) = Some n -> complete st -> complete st').
Proof.
  apply dfs_mind.
  - intros n sn st e _ H. exact H.
  - intros n sn st e _ H. apply (complete_ids st); [reflexivity|cbn [push_row st_rows map]; apply incl_tl, incl_refl|exact H].
  - intros n sn st d e child csn rows' _ _ _ Hp H. apply (complete_ids st); [reflexivity| |exact H].
    cbn [with_rows st_rows]. rewrite (prepend_edge_ids U ueqb _ _ _ _ Hp). apply incl_refl.
  - intros n sn st d e child csn _ _ _ _ H. apply (complete_ids st); [reflexivity|cbn [push_row st_rows map]; apply incl_tl, incl_refl|exact H].
  - intros n sn st d e child st' fuel Hf _ _ _ _ IH H. apply IH; [apply (fnode_self _ _ Hf)|exact H].
  - intros n sn st H. exact H.
  - intros n sn st p st1 rest st2 _ IH1 _ IH2 H. apply IH2, IH1, H.
  - intros n pe st sn rms prs st' Hsn Hi He _ IH Hn H u Hu. cbn [leave st_done st_rows] in *. rewrite map_app.
    destruct Hu as [Hu|Hu].
    + subst u. exists n, sn, prs. repeat split; try assumption. rewrite (initiate_ids U _ _ _ _ Hi). apply incl_appl, incl_refl.
    + destruct (IH H u Hu) as (m & sn' & prs' & A & B & B' & C). exists m, sn', prs'. repeat split; try assumption. apply incl_appr, C.
Qed.

(* ---------------------------------------------------------------- every destination of an exported node is exported *)
Definition seen (st : state U) (d : U) : Prop := (In d (st_done st) \/ In d (st_vis st)) /\ fnode d <> None.
Definition closed (st : state U) : Prop :=
  forall u m sn prs d e, In u (st_done st) -> fnode u = Some m -> short_name m = Ok sn ->
    exit_edge_pairs ueqb m (last_row_id m sn) = Ok prs -> In (Some d, e) prs -> seen st d.

Lemma seen_ext st st' d : Ext st st' -> seen st d -> seen st' d.
Proof. intros He [[H|H] Hf]; (split; [|exact Hf]); [left; apply (ext_done _ _ _ He), H|right; apply (ext_vis _ _ _ He), H]. Qed.

Lemma closed_same st st' : st_done st' = st_done st -> st_vis st' = st_vis st -> closed st -> closed st'.
Proof.
  intros Hd Hv Hc u m sn prs d e Hu Hm Hsn Hp Hin. rewrite Hd in Hu. destruct (Hc u m sn prs d e Hu Hm Hsn Hp Hin) as [H Hf].
  split; [|exact Hf]. rewrite Hd, Hv. exact H.
Qed.

Lemma closed_all :
  (forall n sn st p st', Step n sn st p st' -> (closed st -> closed st') /\ (forall d, fst p = Some d -> seen st' d))
  /\ (forall n sn st prs st', Steps n sn st prs st' -> (closed st -> closed st') /\ (forall d e, In (Some d, e) prs -> seen st' d))
  /\ (forall n pe st st', Visit n pe st st' -> fnode (n_uuid n) = Some n -> (closed st -> closed st') /\ In (n_uuid n) (st_done st')).
Proof.
  apply dfs_mind.
  - intros n sn st e _. split; [auto|discriminate].
  - intros n sn st e _. split; [apply closed_same; reflexivity|discriminate].
  - intros n sn st d e child csn rows' Hf Hd _ _. split; [apply closed_same; reflexivity|].
    intros d' E. cbn [fst] in E. injection E as <-. split; [left; cbn [with_rows st_done]; rewrite <- (fnode_uuid _ _ Hf); exact Hd|congruence].
  - intros n sn st d e child csn Hf _ Hv _. split; [apply closed_same; reflexivity|].
    intros d' E. cbn [fst] in E. injection E as <-. split; [right; cbn [push_row st_vis]; rewrite <- (fnode_uuid _ _ Hf); exact Hv|congruence].
  - intros n sn st d e child st' fuel Hf _ _ _ _ IH. destruct (IH (fnode_self _ _ Hf)) as [A B]. split; [exact A|].
    intros d' E. cbn [fst] in E. injection E as <-. split; [left; rewrite <- (fnode_uuid _ _ Hf); exact B|congruence].
  - intros n sn st. split; [auto|intros d e []].
  - intros n sn st p st1 rest st2 H1 [A1 B1] H2 [A2 B2]. split; [auto|]. intros d e [E|Hin].
    + subst p. apply (seen_ext st1); [apply (Steps_ext _ _ _ _ _ H2)|apply B1; reflexivity].
    + apply (B2 d e Hin).
  - intros n pe st sn rms prs st' Hsn Hi He Hst [A B] Hn. split; [|left; reflexivity].
    intros Hc u m sn' prs' d e Hu Hm Hsn' Hp Hin.
    assert (Hc1 : closed (enter U st (n_uuid n))).
    { intros u0 m0 sn0 prs0 d0 e0 Hu0 Hm0 Hsn0 Hp0 Hin0. destruct (Hc u0 m0 sn0 prs0 d0 e0 Hu0 Hm0 Hsn0 Hp0 Hin0) as [[X|X] Y]; (split; [|exact Y]);
        [left; exact X|right; right; exact X]. }
    assert (Hl : forall x, seen st' x -> seen (leave U st' (n_uuid n) rms) x).
    { intros x [[X|X] Y]; (split; [|exact Y]); [left; right; exact X|right; exact X]. }
    apply Hl. cbn [leave st_done] in Hu. destruct Hu as [Hu|Hu].
    + subst u. assert (m = n) by congruence. subst m. assert (sn' = sn) by congruence. subst sn'. assert (prs' = prs) by congruence. subst prs'.
      apply (B d e). apply in_rev. rewrite rev_involutive. exact Hin.
    + apply (A Hc1 u m sn' prs' d e Hu Hm Hsn' Hp Hin).
Qed.

(* ---------------------------------------------------------------- the edges of the sheet *)
(* the row an edge leads to: the row that carries it, the target of the go_to row that carries it, nothing (loose_exit) *)
Definition row_tgt (r : trow) : option tidU :=
  match r_id r with TNode _ _ => Some (r_id r) | TGoto _ _ => hd_error (r_goto r) | TStart => None end.
Notation ev := (edge U (tid U) * option (tid U))%type.
Definition row_events (r : trow) : list ev := map (fun e => (e, row_tgt r)) (r_edges r).
Definition events (rows : list trow) : list ev := flat_map row_events rows.

(* the first row of the node an exit leads to *)
Definition dest_id (d : option U) : option tidU :=
  match d with
  | None => None
  | Some d => match fnode d with
              | Some c => match short_name c with Ok csn => Some (TNode d csn) | Err _ => None end
              | None => None
              end
  end.
Definition pair_ev (p : pair) : ev := (snd p, dest_id (fst p)).
Definition kept (n : node U) (p : pair) : bool :=
  match fst p with Some _ => true | None => nkeep U n && negb (cond_blank (e_cond (snd p))) end.
Definition chain_from (u : U) (sn : str) (i len : nat) : list ev :=
  map (fun j => (chain_edge u sn j, Some (TNode u (sub_short sn (S j))))) (seq i len).
Definition chain_events (m : node U) (sn : str) : list ev := chain_from (n_uuid m) sn 0 (pred (List.length (n_actions m))).
Definition node_events (m : node U) : list ev :=
  match short_name m with
  | Ok sn => match exit_edge_pairs ueqb m (last_row_id m sn) with
             | Ok prs => chain_events m sn ++ map pair_ev (filter (kept m) prs)
             | Err _ => []
             end
  | Err _ => []
  end.
Definition done_nodes (l : list U) : list (node U) := flat_map (fun u => match fnode u with Some m => [m] | None => [] end) l.
Definition done_events (l : list U) : list ev := flat_map node_events (done_nodes l).

Lemma events_app a b : events (a ++ b) = events a ++ events b.
Proof. unfold events. apply flat_map_app. Qed.

Lemma done_events_app a b : done_events (a ++ b) = done_events a ++ done_events b.
Proof. unfold done_events, done_nodes. rewrite !flat_map_app. reflexivity. Qed.

Lemma action_rows_events u sn base acts : forall i pe (rms : list trow),
  action_rows u sn base acts i pe = Ok rms -> acts <> [] ->
  events rms = (pe, Some (TNode u (sub_short sn i))) :: chain_from u sn i (pred (List.length acts)).
Proof.
  induction acts as [|a rest IH]; intros i pe rms H Hne; [contradiction|]. cbn [action_rows] in H.
  destruct (action_fields a) as [[tp q]|e]; cbn [bind] in H; [|discriminate].
  destruct (action_rows u sn base rest (S i) _) as [more|e] eqn:Em; cbn [bind] in H; [|discriminate].
  injection H as <-. unfold events. cbn [flat_map]. unfold row_events at 1, row_tgt at 1. cbn [r_id r_edges map app]. f_equal.
  destruct rest as [|a' rest'].
  - cbn [action_rows] in Em. injection Em as <-. reflexivity.
  - change (flat_map row_events more) with (events more). rewrite (IH _ _ _ Em) by discriminate.
    cbn [List.length pred]. unfold chain_from. cbn [seq map]. reflexivity.
Qed.

Lemma initiate_events n sn pe rms : initiate_row_models n sn pe = Ok rms ->
  events rms = (pe, Some (TNode (n_uuid n) sn)) :: chain_events n sn.
Proof.
  unfold initiate_row_models, chain_events. intros H.
  destruct (node_kwargs n) as [kw|e]; cbn [bind] in H; [|discriminate].
  destruct (n_actions n) as [|a rest] eqn:Ea.
  - destruct kw as [[tp p]|]; [|discriminate]. injection H as <-. reflexivity.
  - rewrite (action_rows_events _ _ _ _ _ _ _ H) by discriminate. reflexivity.
Qed.

Lemma events_add_edge a r b e u s : r_id r = TNode u s ->
  Permutation (events (a ++ add_edge e r :: b)) ((e, Some (TNode u s)) :: events (a ++ r :: b)).
Proof.
  intros Hid.
  assert (E : row_events (add_edge e r) = (e, Some (TNode u s)) :: row_events r).
  { unfold row_events, row_tgt, add_edge. cbn [r_id r_edges r_goto map]. rewrite Hid. reflexivity. }
  rewrite !events_app. change (events (add_edge e r :: b)) with (row_events (add_edge e r) ++ events b).
  change (events (r :: b)) with (row_events r ++ events b). rewrite E. cbn [app]. symmetry. apply Permutation_middle.
Qed.

Lemma dest_id_child d child csn : fnode d = Some child -> short_name child = Ok csn -> dest_id (Some d) = Some (TNode (n_uuid child) csn).
Proof. intros Hf Hs. unfold dest_id. rewrite Hf, Hs, (fnode_uuid _ _ Hf). reflexivity. Qed.

Lemma perm_mix {T} (x a b c d : list T) : Permutation (a ++ b ++ (x ++ c ++ d)) ((x ++ a) ++ (b ++ c) ++ d).
Proof.
  rewrite <- !app_assoc. rewrite (Permutation_app_swap_app b x). rewrite (Permutation_app_swap_app a x). apply Permutation_refl.
Qed.

Lemma filter_rev' {T} (f : T -> bool) (l : list T) : filter f (rev l) = rev (filter f l).
Proof.
  induction l as [|x l IH]; [reflexivity|]. cbn [rev filter]. rewrite filter_app, IH. cbn [filter].
  destruct (f x); cbn [rev app]; [reflexivity|apply app_nil_r].
Qed.

Lemma perm_map_filter_rev {S T} (g : S -> T) (f : S -> bool) (l : list S) :
  Permutation (map g (filter f (rev l))) (map g (filter f l)).
Proof. rewrite filter_rev', map_rev. symmetry. apply Permutation_rev. Qed.

Lemma events_all :
  (forall n sn st p st', Step n sn st p st' ->
     exists nd, st_done st' = nd ++ st_done st /\
       Permutation (events (st_rows st')) ((if kept n p then [pair_ev p] else []) ++ done_events nd ++ events (st_rows st)))
  /\ (forall n sn st prs st', Steps n sn st prs st' ->
     exists nd, st_done st' = nd ++ st_done st /\
       Permutation (events (st_rows st')) (map pair_ev (filter (kept n) prs) ++ done_events nd ++ events (st_rows st)))
  /\ (forall n pe st st', Visit n pe st st' -> fnode (n_uuid n) = Some n ->
     exists nd, st_done st' = nd ++ st_done st /\
       Permutation (events (st_rows st')) ((pe, dest_id (Some (n_uuid n))) :: done_events nd ++ events (st_rows st))).
Proof.
  apply dfs_mind.
  - intros n sn st e Hk. exists []. split; [reflexivity|]. unfold kept. cbn [fst snd]. rewrite Hk. apply Permutation_refl.
  - intros n sn st e Hk. exists []. split; [reflexivity|]. unfold kept. cbn [fst snd]. rewrite Hk. apply Permutation_refl.
  - intros n sn st d e child csn rows' Hf _ Hs Hp. exists []. split; [reflexivity|]. unfold kept, pair_ev. cbn [fst snd with_rows st_rows app done_events done_nodes flat_map].
    destruct (prepend_edge_split _ _ _ _ Hp) as (a & r & b & E1 & E2 & Hid & _). rewrite E1, E2, (dest_id_child _ _ _ Hf Hs).
    apply (events_add_edge a r b e _ _ Hid).
  - intros n sn st d e child csn Hf _ _ Hs. exists []. split; [reflexivity|]. unfold kept, pair_ev. cbn [fst snd push_row st_rows app done_events done_nodes flat_map].
    rewrite (dest_id_child _ _ _ Hf Hs). apply Permutation_refl.
  - intros n sn st d e child st' fuel Hf _ _ _ _ IH. destruct (IH (fnode_self _ _ Hf)) as (nd & E & Hperm). exists nd. split; [exact E|].
    unfold kept, pair_ev. cbn [fst snd app]. rewrite (fnode_uuid _ _ Hf) in Hperm. exact Hperm.
  - intros n sn st. exists []. split; [reflexivity|apply Permutation_refl].
  - intros n sn st p st1 rest st2 _ (nd1 & E1 & P1) _ (nd2 & E2 & P2). exists (nd2 ++ nd1). split; [rewrite E2, E1, app_assoc; reflexivity|].
    rewrite P2, P1, done_events_app.
    assert (Ef : map pair_ev (filter (kept n) (p :: rest)) = (if kept n p then [pair_ev p] else []) ++ map pair_ev (filter (kept n) rest)).
    { cbn [filter]. destruct (kept n p); reflexivity. }
    rewrite Ef. apply perm_mix.
  - intros n pe st sn rms prs st' Hsn Hi He _ (nd & E & Hperm) Hn. exists (n_uuid n :: nd). cbn [leave st_done st_rows enter] in *. split; [rewrite E; reflexivity|].
    rewrite events_app, (initiate_events _ _ _ _ Hi), Hperm.
    unfold dest_id. rewrite Hn, Hsn. cbn [app]. apply perm_skip.
    change (n_uuid n :: nd) with ([n_uuid n] ++ nd). rewrite done_events_app. unfold done_events at 2, done_nodes. cbn [flat_map]. rewrite Hn. cbn [app flat_map].
    rewrite app_nil_r. unfold node_events. rewrite Hsn, He. rewrite <- !app_assoc. apply Permutation_app_head. apply Permutation_app_tail.
    apply perm_map_filter_rev.
Qed.

(* ---------------------------------------------------------------- the sheet is a sequence of row groups *)
Definition add_edges (extras : list (edge U tidU)) (r : trow) : trow :=
  {| r_id := r_id r; r_type := r_type r; r_edges := extras ++ r_edges r; r_goto := r_goto r; r_pay := r_pay r |}.

Inductive blocks : list trow -> Prop :=
| B_nil : blocks []
| B_goto k child csn e rows :
    fnode (n_uuid child) = Some child -> short_name child = Ok csn -> blocks rows ->
    blocks (goto_row k (TNode (n_uuid child) csn) csn e :: rows)
| B_loose k sn e rows : blocks rows -> blocks (loose_row k sn e :: rows)
| B_node m sn pe r0 rest extras rows :
    fnode (n_uuid m) = Some m -> short_name m = Ok sn -> initiate_row_models m sn pe = Ok (r0 :: rest) -> blocks rows ->
    blocks (add_edges extras r0 :: rest ++ rows).

Lemma prepend_edge_skip t e l : forall rows, (forall r, In r l -> tid_eqb ueqb (r_id r) t = false) ->
  prepend_edge ueqb t e (l ++ rows) = option_map (app l) (prepend_edge ueqb t e rows).
Proof.
  induction l as [|r l IH]; intros rows H; cbn [app prepend_edge].
  - destruct (prepend_edge ueqb t e rows); reflexivity.
  - rewrite (H r (or_introl eq_refl)). rewrite IH by (intros r' Hr'; apply H; right; exact Hr').
    destruct (prepend_edge ueqb t e rows); reflexivity.
Qed.

Lemma tid_eqb_false (a b : tidU) : a <> b -> tid_eqb ueqb a b = false.
Proof. intros H. destruct (tid_eqb ueqb a b) eqn:E; [|reflexivity]. apply tid_eqb_true in E. contradiction. Qed.

Lemma prepend_edge_blocks child csn e rows : blocks rows -> forall rows',
  fnode (n_uuid child) = Some child -> short_name child = Ok csn ->
  prepend_edge ueqb (TNode (n_uuid child) csn) e rows = Some rows' -> blocks rows'.
Proof.
  induction 1 as [|k c cs e0 rows Hc Hcs Hb IH|k sn e0 rows Hb IH|m sn pe r0 rest extras rows Hm Hsn Hi Hb IH]; intros rows' Hch Hcsn H.
  - discriminate.
  - cbn [prepend_edge goto_row r_id tid_eqb] in H. destruct (prepend_edge ueqb _ e rows) as [r'|] eqn:E; [|discriminate]. injection H as <-.
    apply (B_goto k c cs e0 r' Hc Hcs). apply IH; auto.
  - cbn [prepend_edge loose_row r_id tid_eqb] in H. destruct (prepend_edge ueqb _ e rows) as [r'|] eqn:E; [|discriminate]. injection H as <-.
    apply (B_loose k sn e0 r'). apply IH; auto.
  - destruct (initiate_spec _ _ _ _ Hi) as [_ Hs]. destruct (Hs 0%nat r0 eq_refl) as (A1 & _). cbn [sub_short] in A1.
    cbn [prepend_edge add_edges r_id] in H. rewrite A1 in H.
    destruct (tid_eqb ueqb (TNode (n_uuid m) sn) (TNode (n_uuid child) csn)) eqn:E.
    + injection H as <-. rewrite <- A1. apply (B_node m sn pe r0 rest (e :: extras) rows Hm Hsn Hi Hb).
    + rewrite prepend_edge_skip in H.
      * destruct (prepend_edge ueqb _ e rows) as [r'|] eqn:E'; [|discriminate]. injection H as <-.
        apply (B_node m sn pe r0 rest extras r' Hm Hsn Hi). apply IH; auto.
      * intros r Hr. apply In_nth_error in Hr as [j Hj]. destruct (Hs (S j) r Hj) as (B1 & _). rewrite B1. apply tid_eqb_false.
        intros Heq. injection Heq as Eu Es. pose proof (fnode_inj _ _ Hm Hch Eu) as ->. assert (Ecs : sn = csn) by congruence. rewrite <- Ecs in Es.
        apply (sub_short_inj sn (S j) 0) in Es. discriminate.
Qed.

Lemma blocks_all :
  (forall n sn st p st', Step n sn st p st' -> blocks (st_rows st) -> blocks (st_rows st'))
  /\ (forall n sn st prs st', Steps n sn st prs st' -> blocks (st_rows st) -> blocks (st_rows st'))
  /\ (forall n pe st st', Visit n pe st st' -> fnode (n_uuid n) = Some n -> blocks (st_rows st) -> blocks (st_rows st')).
Proof.
  apply dfs_mind.
  - intros n sn st e _ H. exact H.
  - intros n sn st e _ H. cbn [push_row st_rows]. apply B_loose, H.
  - intros n sn st d e child csn rows' Hf _ Hs Hp H. cbn [with_rows st_rows].
    apply (prepend_edge_blocks child csn e _ H rows' (fnode_self _ _ Hf) Hs Hp).
  - intros n sn st d e child csn Hf _ _ Hs H. cbn [push_row st_rows]. apply (B_goto _ child csn e _ (fnode_self _ _ Hf) Hs H).
  - intros n sn st d e child st' fuel Hf _ _ _ _ IH H. apply IH; [apply (fnode_self _ _ Hf)|exact H].
  - intros n sn st H. exact H.
  - intros n sn st p st1 rest st2 _ IH1 _ IH2 H. apply IH2, IH1, H.
  - intros n pe st sn rms prs st' Hsn Hi _ _ IH Hn H. cbn [leave st_rows].
    destruct (initiate_spec _ _ _ _ Hi) as [Hl _]. destruct rms as [|r0 rest]; [cbn [List.length] in Hl; lia|].
    assert (E : r0 = add_edges [] r0) by (destruct r0; reflexivity). cbn [app]. rewrite E.
    apply (B_node n sn pe r0 rest [] _ Hn Hsn Hi). apply IH. exact H.
Qed.

(* ---------------------------------------------------------------- exported nodes are listed once *)
Lemma nodup_all :
  (forall n sn st p st', Step n sn st p st' -> NoDup (st_done st) -> NoDup (st_done st'))
  /\ (forall n sn st prs st', Steps n sn st prs st' -> NoDup (st_done st) -> NoDup (st_done st'))
  /\ (forall n pe st st', Visit n pe st st' -> ~ In (n_uuid n) (st_done st) -> NoDup (st_done st) -> NoDup (st_done st')).
Proof.
  apply dfs_mind; try (intros; assumption).
  - intros n sn st d e child st' fuel _ Hd _ _ _ IH H. apply IH; assumption.
  - intros n sn st p st1 rest st2 _ IH1 _ IH2 H. apply IH2, IH1, H.
  - intros n pe st sn rms prs st' _ _ _ Hst IH Hd H. cbn [leave st_done]. constructor; [|apply IH; exact H].
    intros Hin. destruct (ext_new_done _ _ _ (Steps_ext _ _ _ _ _ Hst) _ Hin) as [H1|H1]; [exact (Hd H1)|]. apply H1. left. reflexivity.
Qed.

End Facts.

(* ---------------------------------------------------------------- the exported sheet *)
Section Sheet.
Variable U : Type.
Variable ueqb : U -> U -> bool.
Hypothesis ueqb_spec : forall a b, ueqb a b = true <-> a = b.

Record sheet_facts (nodes : list (node U)) (n0 : node U) (rows : list (row U (tid U))) (done : list U) : Prop := {
  sf_first : exists sn0 r0 rest, short_name n0 = Ok sn0 /\ rows = r0 :: rest /\ r_id r0 = TNode (n_uuid n0) sn0;
  sf_n0 : find_node ueqb nodes (n_uuid n0) = Some n0 /\ In (n_uuid n0) done;
  sf_ids : NoDup (map (@r_id U (tid U)) rows);
  sf_idok : Forall (fun t => match t with TStart => False | TNode u _ => In u done | TGoto _ _ => True end) (map (@r_id U (tid U)) rows);
  sf_shape : Forall (shape U ueqb nodes) rows;
  sf_blocks : blocks U ueqb nodes rows;
  sf_back : back U [] rows;
  sf_done : NoDup done;
  sf_complete : forall u, In u done ->
      exists m sn prs, find_node ueqb nodes u = Some m /\ short_name m = Ok sn /\ exit_edge_pairs ueqb m (last_row_id m sn) = Ok prs
                       /\ incl (node_row_ids U m sn) (map (@r_id U (tid U)) rows);
  sf_closed : forall u m sn prs d e, In u done -> find_node ueqb nodes u = Some m -> short_name m = Ok sn ->
      exit_edge_pairs ueqb m (last_row_id m sn) = Ok prs -> In (Some d, e) prs -> In d done /\ find_node ueqb nodes d <> None;
  sf_events : Permutation (events U rows) ((start_edge, dest_id U ueqb nodes (Some (n_uuid n0))) :: done_events U ueqb nodes done) }.

Theorem to_rows_tmp_facts n0 rest rows :
  to_rows_tmp ueqb (n0 :: rest) = Ok rows -> exists done, sheet_facts (n0 :: rest) n0 rows done.
Proof.
  unfold to_rows_tmp. set (nodes := n0 :: rest).
  destruct (visit ueqb nodes _ n0 start_edge state0) as [st|e] eqn:Ev; cbn [bind]; [|discriminate]. intros H. injection H as <-.
  pose proof (visit_Visit U ueqb ueqb_spec nodes _ _ _ _ _ Ev) as HV.
  assert (Hn0 : find_node ueqb nodes (n_uuid n0) = Some n0).
  { unfold nodes. cbn [find_node]. rewrite (proj2 (ueqb_spec _ _) eq_refl). reflexivity. }
  pose proof (visit_ext U ueqb ueqb_spec nodes _ n0 start_edge state0 st (fun x => x) Ev) as He.
  destruct (visit_inv U ueqb ueqb_spec nodes _ n0 start_edge state0 st (fun x => x) (fun x => x) (conj (NoDup_nil _) (Forall_nil _)) Ev) as [Hnd Hok].
  exists (st_done st).
  destruct (shapes_all U ueqb ueqb_spec nodes) as (_ & _ & Hsh).
  destruct (back_all U ueqb ueqb_spec nodes) as (_ & _ & Hbk).
  destruct (complete_all U ueqb ueqb_spec nodes) as (_ & _ & Hcp).
  destruct (closed_all U ueqb ueqb_spec nodes) as (_ & _ & Hcl).
  destruct (events_all U ueqb ueqb_spec nodes) as (_ & _ & Hev).
  destruct (nodup_all U ueqb ueqb_spec nodes) as (_ & _ & Hdd).
  destruct (blocks_all U ueqb ueqb_spec nodes) as (_ & _ & Hbl).
  destruct (Hcl _ _ _ _ HV Hn0) as [Hcl1 Hcl2].
  constructor.
  - inversion HV as [n pe st0 sn rms prs st' Hsn Hi _ _]; subst. destruct (initiate_spec U _ _ _ _ Hi) as [Hl Hs].
    destruct rms as [|r0 rms']; [cbn [List.length] in Hl; lia|]. destruct (Hs 0%nat r0 eq_refl) as (A & _).
    exists sn, r0, (rms' ++ st_rows st'). repeat split; [exact Hsn|exact A].
  - split; [exact Hn0|exact Hcl2].
  - exact Hnd.
  - eapply Forall_impl; [|exact Hok]. intros [|u s|k s]; cbn [id_ok]; auto.
  - apply (Hsh _ _ _ _ HV Hn0). constructor.
  - apply (Hbl _ _ _ _ HV Hn0). constructor.
  - apply (Hbk _ _ _ _ HV [] Hn0 (fun x => x) (fun x => x)); [intros u m sn []|left; reflexivity|exact I].
  - apply (Hdd _ _ _ _ HV (fun x => x)). constructor.
  - apply (Hcp _ _ _ _ HV Hn0). intros u [].
  - intros u m sn prs d e Hu Hm Hsn Hp Hin.
    assert (Hc0 : closed U ueqb nodes state0) by (intros ? ? ? ? ? ? []).
    destruct (Hcl1 Hc0 u m sn prs d e Hu Hm Hsn Hp Hin) as [[X|X] Y]; (split; [|exact Y]); [exact X|].
    destruct (ext_new_vis _ _ _ He _ X) as [[]|Z]. exact Z.
  - destruct (Hev _ _ _ _ HV Hn0) as (nd & E & Hperm). cbn [state0 st_done st_rows] in E, Hperm. rewrite app_nil_r in E. subst nd.
    unfold events at 2 in Hperm. cbn [flat_map] in Hperm. rewrite app_nil_r in Hperm. exact Hperm.
Qed.
End Sheet.
