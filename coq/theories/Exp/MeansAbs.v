(* C04 — from the exported rows (string ids) to the flat sheet over the temporary ids:
   abs_rows of the relabelled rows is the RowSem image of the relabelled flat sheet (abs_relabel), row ids are never
   empty (to_rows_ids_nonempty), hence (rowsem_of_fsem) the reference meaning of the exported rows is the flat reading of
   the temporary rows. *)
From Coq Require Import String.
From Coq Require Import List NArith Bool Arith Lia.
From RPFT Require Import Base.Sexp Base.PyStr Base.PyStrFacts Base.SexpEq Base.Result Gen.Tables Flow.Lts Flow.Flow Flow.RowSem
     Exp.FlatSem Exp.FlatSemFacts Exp.ToRows Exp.RowIdFacts Exp.ToRowsFixFacts Exp.Means Exp.MeansDfs Exp.MeansDfsFacts.
Import ListNotations.

Opaque no_args_tests short_types strip_excluded frm_field_headers.
Opaque loose_exit_rows pairs_follow_cases has_group_case_by_name split_rows_carry_save_name group_split_without_cases_exports.

Section Abs.
Variable U : Type.
Variable ueqb : U -> U -> bool.
Hypothesis ueqb_spec : forall a b, ueqb a b = true <-> a = b.
Variable ustr : U -> str.

Notation tidU := (tid U).
Notation trow := (row U (tid U)).

(* ---------------------------------------------------------------- row ids are not empty *)
Lemma app_mid_ne {T} (a b : list T) x : a ++ x :: b <> [].
Proof. destruct a; discriminate. Qed.

Lemma action_short_ne (a : action U) s : action_short a = Ok s -> s <> [].
Proof.
  destruct a as [t q at' tm|n v|p v|ad gs|n v c|p sc|n fu|u' me b hs rs|am rs|tp]; cbn [action_short]; try discriminate;
    try (intros H; injection H as <-; unfold short_of; apply app_mid_ne).
  destruct gs as [|[nm g] gs]; [discriminate|]. intros H; injection H as <-. unfold short_of. apply app_mid_ne.
Qed.

Lemma lit_app_ne (p s : str) : p <> [] -> p ++ s <> [].
Proof. destruct p; [contradiction|discriminate]. Qed.

Lemma short_name_ne (n : node U) sn : short_name n = Ok sn -> sn <> [].
Proof.
  unfold short_name. destruct (n_kind n) as [d|[| | |] r|rs cats].
  - destruct (n_actions n) as [|a l]; [discriminate|apply action_short_ne].
  - intros H. injection H as <-. destruct (sw_wait r) as [w|]; [destruct (N.eqb w 0)|]; first [discriminate|apply lit_app_ne; discriminate].
  - destruct (n_actions n) as [|a l]; [discriminate|apply action_short_ne].
  - destruct (n_actions n) as [|[] l]; try discriminate. intros H. injection H as <-. first [discriminate|apply lit_app_ne; discriminate].
  - destruct (n_actions n) as [|[] l]; try discriminate. intros H. injection H as <-. first [discriminate|apply lit_app_ne; discriminate].
  - intros H. injection H as <-. destruct (nonempty rs); first [discriminate|apply lit_app_ne; discriminate].
Qed.

Lemma sub_short_ne sn j : sn <> [] -> sub_short sn j <> [].
Proof. intros H. destruct j; cbn [sub_short]; [exact H|apply lit_app_ne, H]. Qed.

Lemma shape_short nodes (r : trow) base : shape U ueqb nodes r -> tid_short (r_id r) = Ok base -> base <> [].
Proof.
  intros [m sn j es Hm Hsn (Hid & _) _|k c cs e _ _ ->|k sn e ->]; cbn [goto_row loose_row r_id tid_short]; try rewrite Hid; cbn [tid_short];
    intros H; injection H as <-.
  - apply sub_short_ne. apply (short_name_ne m sn Hsn).
  - discriminate.
  - discriminate.
Qed.

Lemma dec_of_nat_ne k : dec_of_nat k <> [].
Proof.
  unfold dec_of_nat, dec_of_N. set (n := N.of_nat k). generalize (N.to_nat n). intros f H.
  assert (G : dec_le (S f) n <> []) by (cbn [dec_le]; destruct (N.ltb n 10); discriminate).
  apply G. destruct (dec_le (S f) n) as [|x l]; [reflexivity|]. cbn [rev] in H. exfalso. revert H. apply app_mid_ne.
Qed.

Lemma find_free_ne base vals : forall fuel c s, find_free fuel c base vals = Ok s -> s <> [].
Proof.
  induction fuel as [|f IH]; intros c s H; cbn [find_free] in H; [discriminate|].
  destruct (mem_str _ vals); [apply (IH _ _ H)|]. injection H as <-. apply app_mid_ne.
Qed.

Lemma fresh_id_ne base vals s : base <> [] -> fresh_id base vals = Ok s -> s <> [].
Proof. unfold fresh_id. intros Hb. destruct (mem_str base vals); [apply find_free_ne|]. intros H. injection H as <-. exact Hb. Qed.

Definition vals_ne (m : idmap U) : Prop := Forall (fun p => snd p <> []) m.

Lemma mset_vals (m : idmap U) t s : vals_ne m -> s <> [] -> vals_ne (mset ueqb m t s).
Proof.
  intros Hm Hs. induction m as [|[t' s'] r IH]; cbn [mset]; [constructor; [exact Hs|constructor]|].
  inversion Hm as [|? ? H1 H2]; subst. destruct (tid_eqb ueqb t' t); constructor; [exact Hs|exact H2|exact H1|apply IH, H2].
Qed.

Lemma build_map_vals nb : forall (rows : list trow) idx (m m' : idmap U),
  vals_ne m -> (forall r base, In r rows -> tid_short (r_id r) = Ok base -> base <> []) ->
  build_map ueqb nb rows idx m = Ok m' -> vals_ne m'.
Proof.
  induction rows as [|r rest IH]; intros idx m m' Hm Hb H; cbn [build_map] in H; [injection H as <-; exact Hm|].
  destruct (if nb then Ok (dec_of_nat (S idx)) else (do base <- tid_short (r_id r); fresh_id base (map snd m))) as [new|e] eqn:En;
    cbn [bind] in H; [|discriminate].
  assert (Hnew : new <> []).
  { destruct nb.
    - injection En as <-. apply dec_of_nat_ne.
    - destruct (tid_short (r_id r)) as [base|e] eqn:Eb; cbn [bind] in En; [|discriminate].
      apply (fresh_id_ne base (map snd m) new); [apply (Hb r base (or_introl eq_refl) Eb)|exact En]. }
  apply (IH (S idx) (mset ueqb m (r_id r) new) m' (mset_vals m (r_id r) new Hm Hnew)); [|exact H]. intros r' b Hr'. apply Hb. right. exact Hr'.
Qed.

Lemma mget_in_map (m : idmap U) t s : mget ueqb m t = Ok s -> In s (map snd m).
Proof.
  induction m as [|[t' s'] r IH]; cbn [mget]; [discriminate|]. destruct (tid_eqb ueqb t' t).
  - intros H. injection H as <-. left. reflexivity.
  - intros H. right. apply IH, H.
Qed.

Lemma mapM_in {E S T} (g : S -> result E T) : forall l l' y, mapM g l = Ok l' -> In y l' -> exists x, In x l /\ g x = Ok y.
Proof.
  induction l as [|x l IH]; intros l' y H Hy; cbn [mapM] in H; [injection H as <-; contradiction|].
  destruct (g x) as [y0|e] eqn:Ex; [|discriminate]. destruct (mapM g l) as [ys|e]; [|discriminate]. injection H as <-.
  destruct Hy as [Hy|Hy]; [subst; exists x; split; [left; reflexivity|exact Ex]|].
  destruct (IH ys y eq_refl Hy) as (x' & A & B). exists x'. split; [right; exact A|exact B].
Qed.

Theorem to_rows_ids_nonempty nb nodes rows : to_rows ueqb nb nodes = Ok rows -> Forall (fun r => r_id r <> []) rows.
Proof.
  unfold to_rows. intros H.
  destruct (to_rows_tmp ueqb nodes) as [tmp|e] eqn:Et; cbn [bind] in H; [|discriminate].
  destruct (build_map ueqb nb tmp 0 idmap0) as [m|e] eqn:Em; cbn [bind] in H; [|discriminate].
  assert (Hsh : Forall (shape U ueqb nodes) tmp).
  { destruct nodes as [|n0 rest]; [cbn in Et; injection Et as <-; constructor|].
    destruct (to_rows_tmp_facts U ueqb ueqb_spec n0 rest tmp Et) as (done & Hf). apply (sf_shape _ _ _ _ _ _ Hf). }
  assert (Hv : vals_ne m).
  { apply (build_map_vals nb tmp 0 idmap0 m); [constructor; [discriminate|constructor]| |exact Em].
    intros r base Hr Hb. rewrite Forall_forall in Hsh. apply (shape_short nodes r base (Hsh r Hr) Hb). }
  apply Forall_forall. intros r' Hr'. destruct (mapM_in _ _ _ _ H Hr') as (r & _ & Hrr). unfold remap_row in Hrr.
  destruct (mget ueqb m (r_id r)) as [id|e] eqn:Ei; cbn [bind] in Hrr; [|discriminate].
  destruct (mapM (mget ueqb m) (r_goto r)) as [gt|e]; cbn [bind] in Hrr; [|discriminate].
  destruct (mapM (remap_edge ueqb m) (r_edges r)) as [es|e]; cbn [bind] in Hrr; [|discriminate].
  injection Hrr as <-. cbn [r_id]. apply mget_in_map in Ei. apply in_map_iff in Ei as (p & <- & Hp).
  unfold vals_ne in Hv. rewrite Forall_forall in Hv. apply (Hv p Hp).
Qed.

(* ---------------------------------------------------------------- abs_rows of relabelled rows *)
Variable strip : bool.
Variable f : tidU -> str.
Hypothesis f_start : f TStart = start_id.

Definition tid_ok (t : tidU) : Prop := t = TStart \/ (f t <> [] /\ f t <> start_id).

Lemma abs_kind_relabel (r : trow) : @abs_kind U str (relabel U f r) = fkind_map f (@abs_kind U tidU r).
Proof.
  unfold abs_kind, relabel. cbn [r_type r_goto r_pay].
  destruct (str_eqb (r_type r) t_go_to); [reflexivity|]. destruct (str_eqb (r_type r) t_loose_exit); [reflexivity|].
  destruct (abs_nkind U (r_type r) (r_pay r)) as [[c a] d]. reflexivity.
Qed.

Lemma abs_edge_relabel (e : edge U tidU) : tid_ok (e_from e) ->
  abs_edge U ustr {| e_from := f (e_from e); e_cond := e_cond e |} = to_redge (fedge_map f (fabs_edge U ustr e)).
Proof.
  intros Hok. unfold abs_edge, to_redge, fedge_map, fabs_edge. cbn [ToRows.e_from ToRows.e_cond fe_from fe_cond]. f_equal.
  destruct Hok as [H|[H1 H2]].
  - rewrite H, f_start. reflexivity.
  - unfold abs_from. destruct (f (e_from e)) as [|c0 l] eqn:Ef; [contradiction|].
    rewrite str_eqb_neq by exact H2. destruct (e_from e); [exfalso; apply H2; rewrite <- Ef; exact f_start| |]; cbn [fabs_from ffrom_map to_efrom]; rewrite Ef; reflexivity.
Qed.

Lemma abs_row_relabel (r : trow) : Forall (fun e => tid_ok (e_from e)) (r_edges r) ->
  abs_row U ustr strip (relabel U f r) = to_rsrow (frow_map f (fabs_row U ustr strip r)).
Proof.
  intros He. unfold abs_row, to_rsrow, frow_map, fabs_row. cbn [fr_kind fr_id fr_name fr_edges]. f_equal.
  - unfold abs_type. rewrite abs_kind_relabel. reflexivity.
  - unfold relabel. cbn [ToRows.r_edges]. rewrite !map_map. apply map_ext_in. intros e Hin. rewrite Forall_forall in He.
    apply (abs_edge_relabel e (He e Hin)).
Qed.

End Abs.
