(* C04 — general facts about the reference flow (Flow/RowSem.v: to_flow, to_node) and about what a flow does at a node
   (Flow/Flow.v: lts_of_flow).  They do not mention the compiler model; the same lemmas are proved, for C02, at the head of
   Comp/RefineFlow.v — they are repeated here so that Exp/ does not depend on Comp/. *)
From Coq Require Import List NArith Bool Arith Lia.
From RPFT Require Import Base.Sexp Base.PyStr Base.PyStrFacts Base.SexpEq Flow.Lts Flow.Flow Flow.FlowFacts Flow.RowSem.
Import ListNotations.

(* ---------------------------------------------------------------- lists *)
Lemma number_from_nth {X} (l : list X) i0 i : nth_error (number_from i0 l) i = option_map (fun x => (i0 + i, x)) (nth_error l i).
Proof.
  revert i0 i. induction l as [|a r IH]; intros i0 [|i]; cbn; try reflexivity.
  - rewrite Nat.add_0_r. reflexivity.
  - rewrite IH. destruct (nth_error r i); cbn; [|reflexivity]. f_equal. f_equal. lia.
Qed.

Lemma number_from_length {X} (l : list X) i0 : length (number_from i0 l) = length l.
Proof. revert i0. induction l as [|a r IH]; intros i0; cbn; [reflexivity|]. rewrite IH. reflexivity. Qed.

Lemma smatch_refl a : smatch a a = true.
Proof.
  induction a as [n|l IH] using sexp_ind'; cbn.
  - destruct (N.eqb n WILD); [reflexivity|apply N.eqb_refl].
  - induction IH as [|x r Hx _ IHr]; [reflexivity|]. rewrite Hx, IHr. reflexivity.
Qed.

(* find over a mapped list with distinct keys *)
Lemma find_key {X Y} (key : X -> str) (g : X -> Y) (key' : Y -> str) (l : list X) i x :
  (forall y, key' (g y) = key y) -> NoDup (map key l) -> nth_error l i = Some x ->
  find (fun y => str_eqb (key' y) (key x)) (map g l) = Some (g x).
Proof.
  intros Hk. revert i. induction l as [|a r IH]; intros [|i]; cbn; try discriminate.
  - intros _ E. injection E as ->. rewrite Hk, str_eqb_refl. reflexivity.
  - intros Hnd E. inversion Hnd as [|? ? Ha Hr]; subst. rewrite Hk.
    destruct (str_eqb (key a) (key x)) eqn:Eq.
    + apply str_eqb_eq in Eq. exfalso. apply Ha. rewrite Eq. apply in_map. eapply nth_error_In, E.
    + eapply IH; eauto.
Qed.

Lemma find_idx_key {X} (key : X -> str) (l : list X) i x :
  NoDup (map key l) -> nth_error l i = Some x -> find_idx (fun y => str_eqb (key y) (key x)) l = Some i.
Proof.
  revert i. induction l as [|a r IH]; intros [|i]; cbn; try discriminate.
  - intros _ E. injection E as ->. rewrite str_eqb_refl. reflexivity.
  - intros Hnd E. inversion Hnd as [|? ? Ha Hr]; subst.
    destruct (str_eqb (key a) (key x)) eqn:Eq.
    + apply str_eqb_eq in Eq. exfalso. apply Ha. rewrite Eq. apply in_map. eapply nth_error_In, E.
    + rewrite (IH i Hr E). reflexivity.
Qed.

(* ---------------------------------------------------------------- the reference flow *)
Lemma nid_inj a b : nid a = nid b -> a = b.
Proof. unfold nid. intros H. injection H as H. apply Nat2N.inj, H. Qed.
Lemma cid_inj k a b : cid k a = cid k b -> a = b.
Proof. unfold cid. intros H. injection H as H. apply Nat2N.inj, H. Qed.
Lemma xid_inj k a b : xid k a = xid k b -> a = b.
Proof. unfold xid. intros H. injection H as H. apply Nat2N.inj, H. Qed.

Lemma to_node_uuid k n : n_uuid (to_node k n) = nid k.
Proof. unfold to_node. destruct (rn_dec n); reflexivity. Qed.

(* the reference flow of a FLAT sheet: its nodes in the order they were made (for a flat sheet that is sheet order:
   FlatSemFacts.to_flow_flat) *)
Definition flat_flow (nodes : list rnode) : flow :=
  mkFlow [0%N] [] (map (fun kn => to_node (fst kn) (snd kn)) (number_from 0 nodes)).

Lemma ref_nth nodes k n : nth_error nodes k = Some n -> nth_error (f_nodes (flat_flow nodes)) k = Some (to_node k n).
Proof. intros H. unfold flat_flow. cbn. rewrite nth_error_map, number_from_nth, H. reflexivity. Qed.

Lemma ref_length nodes : length (f_nodes (flat_flow nodes)) = length nodes.
Proof. unfold flat_flow. cbn. rewrite map_length, number_from_length. reflexivity. Qed.

Lemma ref_node_index nodes k : k < length nodes -> node_index (flat_flow nodes) (nid k) = Some k.
Proof.
  intros Hk. unfold node_index, flat_flow. cbn.
  assert (G : forall (l : list rnode) i0 j, j < length l ->
            find_idx (fun nd => str_eqb (n_uuid nd) (nid (i0 + j))) (map (fun kn => to_node (fst kn) (snd kn)) (number_from i0 l)) = Some j).
  { induction l as [|a r IH]; intros i0 j Hj; cbn in *; [lia|]. rewrite to_node_uuid. destruct j as [|j].
    - rewrite Nat.add_0_r, str_eqb_refl. reflexivity.
    - destruct (str_eqb (nid i0) (nid (i0 + S j))) eqn:E; [apply str_eqb_eq, nid_inj in E; lia|].
      replace (i0 + S j) with (S i0 + j) by lia. rewrite IH by lia. reflexivity. }
  apply (G nodes 0 k Hk).
Qed.

(* ---------------------------------------------------------------- what a flow does at a node *)
Lemma lts_act F i nd pc u p :
  nth_error (f_nodes F) i = Some nd -> nth_error (n_actions nd) pc = Some (u, p) -> lts_of_flow F (i, pc) = KAct p (i, S pc).
Proof. intros H1 H2. unfold lts_of_flow. cbn [fst snd]. rewrite H1, H2. reflexivity. Qed.

Lemma lts_tail F i nd pc :
  nth_error (f_nodes F) i = Some nd -> nth_error (n_actions nd) pc = None ->
  lts_of_flow F (i, pc) = match n_router nd with
                          | None => match n_exits nd with [e] => KTau (dest_state F (e_dest e)) | _ => KBad end
                          | Some r => KDec (router_sig r) (router_branches F nd r)
                          end.
Proof. intros H1 H2. unfold lts_of_flow. cbn [fst snd]. rewrite H1, H2. reflexivity. Qed.

Lemma lts_end F : lts_of_flow F (end_state F) = KEnd.
Proof.
  unfold lts_of_flow, end_state. cbn [fst snd].
  assert (E : nth_error (f_nodes F) (length (f_nodes F)) = None) by (apply nth_error_None; lia). rewrite E, Nat.eqb_refl. reflexivity.
Qed.

(* the reference node *)
Lemma ref_actions_nth k n pc :
  nth_error (n_actions (to_node k n)) pc = option_map (fun p => ([5%N; N.of_nat k; N.of_nat pc], p)) (nth_error (rn_actions n) pc).
Proof.
  assert (E : n_actions (to_node k n) = map (fun ip => ([5%N; N.of_nat k; N.of_nat (fst ip)], snd ip)) (number_from 0 (rn_actions n)))
    by (unfold to_node; destruct (rn_dec n); reflexivity).
  rewrite E, nth_error_map, number_from_nth. destruct (nth_error (rn_actions n) pc); reflexivity.
Qed.

Lemma cid_keys_nodup {X} k (l : list X) i0 : NoDup (map (fun ic : nat * X => cid k (fst ic)) (number_from i0 l)).
Proof.
  revert i0. induction l as [|a r IH]; intros i0; cbn; constructor; [|apply IH].
  intros Hin. apply in_map_iff in Hin as ([j y] & E & Hj). cbn in E. apply cid_inj in E. subst j.
  assert (G : forall (l' : list X) s j0 y0, In (j0, y0) (number_from s l') -> s <= j0).
  { induction l' as [|b r' IH']; intros s j0 y0 H; cbn in H; [contradiction|]. destruct H as [H|H]; [injection H as <- _; lia|]. apply IH' in H. lia. }
  apply G in Hj. lia.
Qed.

Lemma xid_keys_nodup {X} k (l : list X) i0 : NoDup (map (fun ic : nat * X => xid k (fst ic)) (number_from i0 l)).
Proof.
  revert i0. induction l as [|a r IH]; intros i0; cbn; constructor; [|apply IH].
  intros Hin. apply in_map_iff in Hin as ([j y] & E & Hj). cbn in E. apply xid_inj in E. subst j.
  assert (G : forall (l' : list X) s j0 y0, In (j0, y0) (number_from s l') -> s <= j0).
  { induction l' as [|b r' IH']; intros s j0 y0 H; cbn in H; [contradiction|]. destruct H as [H|H]; [injection H as <- _; lia|]. apply IH' in H. lia. }
  apply G in Hj. lia.
Qed.

Definition ref_cats k (all : list (cname * dest)) : list category :=
  map (fun ic => mkCat (cid k (fst ic)) (cname_str (fst (snd ic))) (xid k (fst ic))) (number_from 0 all).
Definition ref_exits k (all : list (cname * dest)) : list exit_ :=
  map (fun ic => mkExit (xid k (fst ic)) (dest_id (snd (snd ic)))) (number_from 0 all).

Lemma ref_cat_find k all i x : nth_error all i = Some x ->
  find (fun c => str_eqb (c_uuid c) (cid k i)) (ref_cats k all) = Some (mkCat (cid k i) (cname_str (fst x)) (xid k i)).
Proof.
  intros H. unfold ref_cats.
  assert (Hn : nth_error (number_from 0 all) i = Some (i, x)) by (rewrite number_from_nth, H; reflexivity).
  exact (find_key (fun ic : nat * (cname * dest) => cid k (fst ic))
                  (fun ic : nat * (cname * dest) => mkCat (cid k (fst ic)) (cname_str (fst (snd ic))) (xid k (fst ic)))
                  c_uuid (number_from 0 all) i (i, x) (fun y => eq_refl) (cid_keys_nodup k all 0) Hn).
Qed.

Lemma ref_exit_find k all i x : nth_error all i = Some x ->
  find (fun e => str_eqb (e_uuid e) (xid k i)) (ref_exits k all) = Some (mkExit (xid k i) (dest_id (snd x))).
Proof.
  intros H. unfold ref_exits.
  assert (Hn : nth_error (number_from 0 all) i = Some (i, x)) by (rewrite number_from_nth, H; reflexivity).
  exact (find_key (fun ic : nat * (cname * dest) => xid k (fst ic))
                  (fun ic : nat * (cname * dest) => mkExit (xid k (fst ic)) (dest_id (snd (snd ic))))
                  e_uuid (number_from 0 all) i (i, x) (fun y => eq_refl) (xid_keys_nodup k all 0) Hn).
Qed.


Definition ref_wait k (d : rdec) : wait_spec :=
  match rd_wait d, rd_noresp d with
  | WTimeout sec _, Some _ => WTimeout sec (cid k (S (length (rd_cats d))))
  | WTimeout _ _, None => WMsg
  | w, _ => w
  end.

Definition ref_router k (d : rdec) : router :=
  RSwitch (rd_operand d)
          (map (fun ik => mkCase (kid k (fst ik)) (fst (fst (snd ik))) (snd (fst (snd ik))) (cid k (snd (snd ik)))) (number_from 0 (rd_cases d)))
          (ref_cats k (all_cats d)) (cid k (length (rd_cats d))) (ref_wait k d) (rd_result d).

Lemma to_node_dec k n d : rn_dec n = Some d -> rd_random d = false ->
  n_exits (to_node k n) = ref_exits k (all_cats d) /\ n_router (to_node k n) = Some (ref_router k d).
Proof. intros H1 H2. unfold to_node. rewrite H1. cbn. rewrite H2. split; reflexivity. Qed.

Lemma to_node_basic k n : rn_dec n = None ->
  n_exits (to_node k n) = [mkExit (xid k 0) (dest_id (rn_cont n))] /\ n_router (to_node k n) = None.
Proof. intros H. unfold to_node. rewrite H. split; reflexivity. Qed.

Lemma ref_cat_name k all i x : nth_error all i = Some x -> cat_name (ref_cats k all) (cid k i) = name_sexp (cname_str (fst x)).
Proof. intros H. unfold cat_name. rewrite (ref_cat_find k all i x H). reflexivity. Qed.

Lemma Forall2_map2 {A B C D} (P : C -> D -> Prop) (f : A -> C) (g : B -> D) l l' :
  Forall2 (fun a b => P (f a) (g b)) l l' -> Forall2 P (map f l) (map g l').
Proof. intros H. induction H; cbn; constructor; auto. Qed.

Lemma smatch_list (l l' : list sexp) : Forall2 (fun a b => smatch a b = true) l l' -> smatch (L l) (L l') = true.
Proof. intros H. cbn. induction H as [|a b r r' Hab _ IH]; [reflexivity|]. rewrite Hab, IH. reflexivity. Qed.

Lemma number_from_map {X Y} (f : X -> Y) l i0 : number_from i0 (map f l) = map (fun ix => (fst ix, f (snd ix))) (number_from i0 l).
Proof. revert i0. induction l as [|a r IH]; intros i0; cbn; [reflexivity|]. rewrite IH. reflexivity. Qed.
