(* C04 — folds over permuted lists.  The edges that leave a node are read by the reference in the order of the rows
   that carry them, which is the order of the exit pairs only up to a permutation.  If the elements whose order matters
   (`sens`) occur in the same order in both lists, and every other element commutes with all elements, the two folds agree.
   Also: two lists that are permutations of each other and have the same sequence of (distinct) keys are equal. *)
From Coq Require Import List Bool Arith Lia Permutation.
From RPFT Require Import Exp.MeansRun.
Import ListNotations.

Section FoldPerm.
Variables (A Y : Type) (f : A -> Y -> option A) (sens : Y -> bool) (Inv : A -> Prop).
Variable X : list Y.
Hypothesis inv_step : forall a y b, In y X -> Inv a -> f a y = Some b -> Inv b.

Definition obind (o : option A) (y : Y) : option A := match o with Some a => f a y | None => None end.
Definition step2 (a : A) (x y : Y) : option A := obind (f a x) y.

Definition ofold (l : list Y) (o : option A) : option A := fold_left obind l o.

Lemma fold_opt_ofold l a : fold_opt f l a = ofold l (Some a).
Proof. reflexivity. Qed.

Lemma ofold_none l : ofold l None = None.
Proof. induction l as [|x l IH]; [reflexivity|exact IH]. Qed.

Lemma ofold_app l1 l2 o : ofold (l1 ++ l2) o = ofold l2 (ofold l1 o).
Proof. unfold ofold. apply fold_left_app. Qed.

(* an element whose order does not matter commutes with every element *)
Hypothesis comm : forall x y, In x X -> In y X -> sens x = false -> forall a, Inv a -> step2 a x y = step2 a y x.

Definition oinv (o : option A) : Prop := match o with Some a => Inv a | None => True end.

Lemma oinv_step o y : In y X -> oinv o -> oinv (obind o y).
Proof. intros Hy. destruct o as [a|]; [|auto]. cbn. intros H. destruct (f a y) as [b|] eqn:E; [apply (inv_step a y b Hy H E)|exact I]. Qed.

Lemma comm_o x y o : In x X -> In y X -> sens x = false -> oinv o -> obind (obind o x) y = obind (obind o y) x.
Proof. intros Hx Hy Hs Ho. destruct o as [a|]; [apply (comm x y Hx Hy Hs a Ho)|reflexivity]. Qed.

(* an element moves to the right past elements whose order does not matter *)
Lemma move_right x I' : forall o, In x X -> incl I' X -> (forall y, In y I' -> sens y = false) -> oinv o ->
  ofold I' (obind o x) = obind (ofold I' o) x.
Proof.
  induction I' as [|y I' IH]; intros o Hx Hi Hs Ho; [reflexivity|]. cbn [ofold fold_left].
  change (fold_left obind I' (obind (obind o x) y)) with (ofold I' (obind (obind o x) y)).
  rewrite <- (comm_o y x o) by (auto using in_eq; apply Hi || apply Hs; left; reflexivity).
  rewrite IH; [reflexivity|exact Hx|intros z Hz; apply Hi; right; exact Hz|intros z Hz; apply Hs; right; exact Hz|apply oinv_step; [apply Hi; left; reflexivity|exact Ho]].
Qed.

(* a list folds like its insensitive elements followed by its sensitive ones *)
Lemma split_fold l : forall o, incl l X -> oinv o ->
  ofold l o = ofold (filter sens l) (ofold (filter (fun y => negb (sens y)) l) o).
Proof.
  induction l as [|x l IH]; intros o Hi Ho; [reflexivity|].
  assert (Hx : In x X) by (apply Hi; left; reflexivity).
  assert (Hl : incl l X) by (intros z Hz; apply Hi; right; exact Hz).
  cbn [filter]. destruct (sens x) eqn:Es; cbn [negb].
  - cbn [ofold fold_left]. change (fold_left obind l (obind o x)) with (ofold l (obind o x)).
    rewrite IH by (auto using (oinv_step o x Hx)). change (fold_left obind (filter sens l) ?z) with (ofold (filter sens l) z).
    f_equal. apply move_right; auto.
    + intros z Hz. apply filter_In in Hz as [Hz _]. apply Hl, Hz.
    + intros z Hz. apply filter_In in Hz as [_ Hz]. apply negb_true_iff in Hz. exact Hz.
  - cbn [ofold fold_left]. apply IH; auto using (oinv_step o x Hx).
Qed.

(* insensitive elements commute with one another *)
Lemma perm_fold I1 I2 : Permutation I1 I2 -> incl I1 X -> (forall y, In y I1 -> sens y = false) ->
  forall o, oinv o -> ofold I1 o = ofold I2 o.
Proof.
  induction 1 as [|x l l' Hp IH|x y l|l l' l'' H1 IH1 H2 IH2]; intros Hi Hs o Ho.
  - reflexivity.
  - cbn [ofold fold_left]. apply IH; [intros z Hz; apply Hi; right; exact Hz|intros z Hz; apply Hs; right; exact Hz|apply oinv_step; [apply Hi; left; reflexivity|exact Ho]].
  - cbn [ofold fold_left]. f_equal. apply comm_o; [apply Hi; left; reflexivity|apply Hi; right; left; reflexivity|apply Hs; left; reflexivity|exact Ho].
  - rewrite IH1 by assumption. apply IH2; [|intros z Hz; apply Hs; apply (Permutation_in _ (Permutation_sym H1)), Hz|exact Ho].
    intros z Hz. apply Hi. apply (Permutation_in _ (Permutation_sym H1)), Hz.
Qed.

Lemma perm_filter (p : Y -> bool) l l' : Permutation l l' -> Permutation (filter p l) (filter p l').
Proof.
  induction 1 as [|x l l' _ IH|x y l|l l' l'' _ IH1 _ IH2]; cbn [filter].
  - constructor.
  - destruct (p x); [constructor|]; exact IH.
  - destruct (p x), (p y); try apply Permutation_refl. apply perm_swap.
  - eapply perm_trans; eassumption.
Qed.

Theorem fold_perm P a : Inv a -> Permutation P X -> filter sens P = filter sens X -> fold_opt f P a = fold_opt f X a.
Proof.
  intros Ha Hp Hf. rewrite !fold_opt_ofold.
  assert (HiP : incl P X) by (intros z Hz; apply (Permutation_in _ Hp), Hz).
  rewrite (split_fold P (Some a) HiP Ha), (split_fold X (Some a) (incl_refl _) Ha), Hf. f_equal.
  apply perm_fold; [apply perm_filter, Hp| | |exact Ha].
  - intros z Hz. apply filter_In in Hz as [Hz _]. apply HiP, Hz.
  - intros z Hz. apply filter_In in Hz as [_ Hz]. apply negb_true_iff in Hz. exact Hz.
Qed.
End FoldPerm.

(* two permutations of one another with the same sequence of distinct keys are equal *)
Lemma perm_same_keys {Y K} (key : Y -> K) (P X : list Y) :
  Permutation P X -> map key P = map key X -> NoDup (map key X) -> P = X.
Proof.
  revert P. induction X as [|x X IH]; intros P Hp Hk Hn.
  - apply Permutation_sym, Permutation_nil in Hp. exact Hp.
  - destruct P as [|p P]; [discriminate|]. cbn [map] in Hk, Hn. injection Hk as Hk1 Hk2. inversion Hn as [|? ? Hx Hn']; subst.
    assert (p = x).
    { assert (Hin : In p (x :: X)) by (apply (Permutation_in _ Hp); left; reflexivity). destruct Hin as [Hin|Hin]; [auto|].
      exfalso. apply Hx. rewrite <- Hk1. apply in_map, Hin. }
    subst p. f_equal. apply IH; [apply (Permutation_cons_inv Hp)|exact Hk2|exact Hn'].
Qed.
