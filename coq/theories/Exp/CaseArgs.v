(* C04, finding has_group-edge-outside-group-split.  RowNodeGroup.add_exit (flowparser.py) turns a
   conditional edge into a case of the router the edge leaves: the type of the case and its arguments.
   A has_group case carries [group uuid, group name]; SwitchRouter.record_global_uuids reads
   arguments[1] of every has_group case.  On the tree with the finding only the edges of a
   split_by_group row get the two arguments ([None, name]); a has_group condition on an edge of any other
   row (what the exporter writes for a has_group test outside a group split) got [name] and the validation
   of the container raised IndexError.  The regenerated probe [has_group_edges_by_name]
   (translator/tables_c04.py) says which tree is under check.  Small file: definitions, then facts. *)
From Coq Require Import String.
From Coq Require Import List NArith Bool.
From RPFT Require Import Base.Sexp Base.PyStr Base.PyStrFacts Base.Result Gen.Tables Exp.ToRows.
Import ListNotations.

Definition t_split_by_group : str := lit "split_by_group".
Definition t_has_group : str := lit "has_group".
Definition t_has_any_word : str := lit "has_any_word".
Definition t_wait_for_response : str := lit "wait_for_response".
Definition w_my_group : str := lit "my group".

(* comparison_type: forced to has_group in a split_by_group row, else the condition's type, "has_any_word" when blank *)
Definition edge_case_type (row_type cond_type : str) : str :=
  if str_eqb row_type t_split_by_group then t_has_group
  else if nonempty cond_type then cond_type else t_has_any_word.

(* comparison_arguments ([None] stands for the uuid that is filled in later) *)
Definition edge_case_arguments (row_type cond_type value : str) : list (option str) :=
  if str_eqb row_type t_split_by_group then [None; Some value]
  else if has_group_edges_by_name && str_eqb cond_type t_has_group then [None; Some value]
  else [Some value].

(* record_global_uuids: case.arguments[1] of a has_group case (None = IndexError) *)
Definition recorded_group_name (case_type : str) (args : list (option str)) : option (option str) :=
  if str_eqb case_type t_has_group then nth_error args 1 else Some None.

(* The repair: whatever the row, a has_group case made from an edge carries [uuid placeholder, name] ... *)
Theorem has_group_edge_arguments_repaired :
  has_group_edges_by_name = true ->
  forall row_type cond_type value,
    edge_case_type row_type cond_type = t_has_group ->
    edge_case_arguments row_type cond_type value = [None; Some value].
Proof.
  intros Hfix rt ct v. unfold edge_case_type, edge_case_arguments.
  destruct (str_eqb rt t_split_by_group); [reflexivity|].
  rewrite Hfix. destruct (nonempty ct).
  - intros ->. rewrite str_eqb_refl. reflexivity.
  - intros H. discriminate H.
Qed.

(* ... so that recording the group uuids never fails on it *)
Corollary has_group_edge_records_repaired :
  has_group_edges_by_name = true ->
  forall row_type cond_type value,
    recorded_group_name (edge_case_type row_type cond_type) (edge_case_arguments row_type cond_type value) <> None.
Proof.
  intros Hfix rt ct v. unfold recorded_group_name.
  destruct (str_eqb (edge_case_type rt ct) t_has_group) eqn:E; [|discriminate].
  apply str_eqb_eq in E. rewrite (has_group_edge_arguments_repaired Hfix rt ct v E). discriminate.
Qed.

(* the witness: a has_group condition on an edge leaving a wait_for_response row *)
Lemma has_group_edge_witness :
  recorded_group_name (edge_case_type t_wait_for_response t_has_group)
                      (edge_case_arguments t_wait_for_response t_has_group w_my_group)
  = if has_group_edges_by_name then Some (Some w_my_group) else None.
Proof. destruct has_group_edges_by_name eqn:E; first [ vm_compute; reflexivity | exfalso; vm_compute in E; discriminate E ]. Qed.
