(* What the repairs of the C04 export findings achieve, proved on Exp/ToRows.v for all flows.
   The model mirrors both behaviours of each repaired function, selected by a probe regenerated
   from the tree under check (translator/tables_c04.py); every theorem [..._repaired] has the probe
   as its premise, every [..._witness] is decided by the probe ([if probe then holds else fails]).

   Part 1  group split without cases: the export no longer fails
   Part 2  the result name of a router that does not wait reaches its row (save_name), through
           the whole export (DFS, remapping of the ids)
   Part 3  one pair per case, in case order (cases sharing a category)
   Part 4  every edge that leaves an exported node and either leads somewhere or carries the
           condition of a free case is an edge of some row of the sheet (loose_exit rows)      *)
From Coq Require Import String.
From Coq Require Import List NArith Bool Arith Lia.
From RPFT Require Import Base.Sexp Base.PyStr Base.PyStrFacts Base.Result Gen.Tables Exp.ToRows Exp.ToRowsFacts.
Import ListNotations.

Opaque no_args_tests short_types strip_excluded frm_field_headers.
Opaque split_rows_carry_save_name group_split_without_cases_exports loose_exit_rows pairs_follow_cases.

(* a witness that depends on a repair: one script for both trees; the branch that contradicts the
   regenerated probe is closed by computing the probe *)
Ltac by_probe E :=
  first [ vm_compute; reflexivity
        | let H := fresh "H" in intros H; vm_compute in H; discriminate H
        | exfalso; vm_compute in E; discriminate E ].

Section Fix.
Variable U : Type.
Variable ueqb : U -> U -> bool.
Hypothesis ueqb_spec : forall a b, ueqb a b = true <-> a = b.

Notation node := (node U).
Notation srouter := (srouter U).
Notation tid := (tid U).
Notation pv := (pv U).

Lemma ueqb_refl a : ueqb a a = true.
Proof. apply ueqb_spec. reflexivity. Qed.

(* ------------------------------------------------------------------ Part 1: group split without cases *)
Definition f_split_by_group : str := lit "split_by_group".
Definition f_mainarg_groups : str := lit "mainarg_groups".
Definition f_obj_id : str := lit "obj_id".
Definition f_save_name : str := lit "save_name".
Definition f_node_uuid : str := lit "node_uuid".

(* the first case of a group split, when there is one, names its group (uuid and name) *)
Definition group_split_wf (r : srouter) : bool :=
  match sw_cases r with
  | [] => true
  | k :: _ => match case_arg1 k, case_arg0 k with Some _, Some _ => true | _, _ => false end
  end.

Theorem router_kwargs_total_repaired :
  group_split_without_cases_exports = true ->
  forall r : srouter, group_split_wf r = true -> exists tp, router_kwargs r = Ok tp.
Proof.
  intros Hfix r Hwf. unfold router_kwargs. destruct (sw_wait r); [eexists; reflexivity|].
  destruct (str_eqb (sw_operand r) groups_operand); [|eexists; reflexivity].
  unfold group_split_wf in Hwf. destruct (sw_cases r) as [|k ks].
  - rewrite Hfix. eexists; reflexivity.
  - destruct (case_arg1 k); [|discriminate]. destruct (case_arg0 k); [|discriminate]. eexists; reflexivity.
Qed.

(* the row of a group split that has no case yet: type split_by_group, no group named *)
Theorem group_split_without_cases_row_repaired :
  group_split_without_cases_exports = true ->
  forall r : srouter, sw_wait r = None -> str_eqb (sw_operand r) groups_operand = true -> sw_cases r = [] ->
    router_kwargs r = Ok (f_split_by_group,
                          [(f_mainarg_groups, PL []); (f_obj_id, PS [])] ++ split_save_name (sw_result r)).
Proof.
  intros Hfix r Hw Hop Hc. unfold router_kwargs. rewrite Hw, Hop, Hc, Hfix. reflexivity.
Qed.

(* ... and every router node without actions whose group split is well formed gets exactly one row *)
Theorem switch_node_rows_total_repaired :
  group_split_without_cases_exports = true ->
  forall (n : node) (r : srouter) sn (pe : edge U tid), n_kind n = NRouter U KSwitch r -> n_actions n = [] -> group_split_wf r = true ->
    exists row, initiate_row_models n sn pe = Ok [row] /\ r_id row = TNode (n_uuid n) sn /\ r_edges row = [pe].
Proof.
  intros Hfix n r sn pe Hk Ha Hwf. unfold initiate_row_models, node_kwargs. rewrite Hk, Ha.
  destruct (router_kwargs_total_repaired Hfix r Hwf) as [[tp p] Hr]. rewrite Hr. cbn [bind].
  eexists; split; [reflexivity|]. split; reflexivity.
Qed.

(* ------------------------------------------------------------------ generic: mapM *)
Lemma mapM_Forall2 {E S T} (f : S -> result E T) : forall l l', mapM f l = Ok l' -> Forall2 (fun x y => f x = Ok y) l l'.
Proof.
  induction l as [|x r IH]; intros l' H; cbn [mapM] in H.
  - inversion H; subst. constructor.
  - destruct (f x) as [y|e] eqn:Ef; [|discriminate]. destruct (mapM f r) as [ys|e] eqn:Em; [|discriminate].
    inversion H; subst. constructor; [exact Ef|apply IH; reflexivity].
Qed.

(* ------------------------------------------------------------------ Part 2: what a row carries is decided where the row is made *)
(* Type and payload of a row are written once - by initiate_row_models, or as the go_to / loose_exit row
   of an edge - and neither the DFS (which only prepends edges) nor the remapping of the ids touches
   them: a property of (type, payload) that holds where rows are made holds of every row of the sheet. *)
Section Local.
Variable nodes : list node.
Variable P : str -> pay U -> Prop.
Hypothesis Hinit : forall n sn pe rms, In n nodes -> initiate_row_models n sn pe = Ok rms ->
                                       Forall (fun r => P (r_type r) (r_pay r)) rms.
Hypothesis Hgoto : P (lit "go_to") [].
Hypothesis Hloose : P (lit "loose_exit") [].

Definition rowsP {I} (rows : list (row U I)) : Prop := Forall (fun r => P (r_type r) (r_pay r)) rows.

Lemma prepend_edge_P t e rows : forall rows', rowsP rows -> prepend_edge ueqb t e rows = Some rows' -> rowsP rows'.
Proof.
  induction rows as [|r rest IH]; intros rows' Hok H; cbn [prepend_edge] in H; [discriminate|].
  inversion Hok as [|r0 l0 Hr Hrest]; subst.
  destruct (tid_eqb ueqb (r_id r) t).
  - inversion H; subst. constructor; [exact Hr|exact Hrest].
  - destruct (prepend_edge ueqb t e rest) as [rest'|] eqn:Ep; [|discriminate].
    inversion H; subst. constructor; [exact Hr|]. apply IH; [exact Hrest|reflexivity].
Qed.

Definition recP (rec : node -> edge U tid -> state U -> res (state U)) : Prop :=
  forall c e s s', In c nodes -> rowsP (st_rows s) -> rec c e s = Ok s' -> rowsP (st_rows s').

Lemma step_P rec : recP rec ->
  forall st p st', rowsP (st_rows st) -> step ueqb nodes rec st p = Ok st' -> rowsP (st_rows st').
Proof.
  intros Hrec st [d e] st' Hok H. unfold step in H. cbn [fst snd] in H.
  destruct d as [d|]; [|inversion H; subst; exact Hok].
  destruct (find_node ueqb nodes d) as [child|] eqn:Ef; [|discriminate].
  apply find_node_in in Ef.
  destruct (mem_u ueqb (n_uuid child) (st_done st)).
  - destruct (short_name child) as [csn|er]; cbn [bind] in H; [|discriminate].
    destruct (prepend_edge ueqb _ e (st_rows st)) as [rows'|] eqn:Ep; [|discriminate].
    inversion H; subst. cbn [st_rows]. apply (prepend_edge_P _ _ _ _ Hok Ep).
  - destruct (mem_u ueqb (n_uuid child) (st_vis st)).
    + destruct (short_name child) as [csn|er]; cbn [bind] in H; [|discriminate].
      inversion H; subst. cbn [st_rows]. constructor; [exact Hgoto|exact Hok].
    + apply (Hrec _ _ _ _ Ef Hok H).
Qed.

Lemma step_fx_P keep sn rec : recP rec ->
  forall st p st', rowsP (st_rows st) -> step_fx ueqb nodes keep sn rec st p = Ok st' -> rowsP (st_rows st').
Proof.
  intros Hrec st [d e] st' Hok H. unfold step_fx in H. cbn [fst snd] in H.
  destruct d as [d|]; [apply (step_P rec Hrec st (Some d, e) st' Hok H)|].
  destruct (keep && negb (cond_blank (e_cond e))); inversion H; subst; [|exact Hok].
  cbn [st_rows]. constructor; [exact Hloose|exact Hok].
Qed.

Lemma foldM_step_fx_P keep sn rec : recP rec ->
  forall prs st st', rowsP (st_rows st) -> foldM (step_fx ueqb nodes keep sn rec) prs st = Ok st' -> rowsP (st_rows st').
Proof.
  intros Hrec prs. induction prs as [|p rest IH]; intros st st' Hok H; cbn [foldM] in H.
  - inversion H; subst; exact Hok.
  - destruct (step_fx ueqb nodes keep sn rec st p) as [st1|e] eqn:Es; [|discriminate].
    apply (IH _ _ (step_fx_P keep sn rec Hrec _ _ _ Hok Es) H).
Qed.

Lemma visit_P : forall fuel, recP (visit ueqb nodes fuel).
Proof.
  induction fuel as [|fuel IH]; intros n pe st st' Hin Hok H; cbn [visit] in H; [discriminate|].
  destruct (short_name n) as [sn|e]; cbn [bind] in H; [|discriminate].
  destruct (initiate_row_models n sn pe) as [rms|e] eqn:Ei; cbn [bind] in H; [|discriminate].
  destruct (exit_edge_pairs ueqb n (last_row_id n sn)) as [prs|e] eqn:Ee; cbn [bind] in H; [|discriminate].
  destruct (foldM _ (rev prs) _) as [st1|e] eqn:Ef; cbn [bind] in H; [|discriminate].
  inversion H; subst. cbn [st_rows]. unfold rowsP. rewrite Forall_app. split.
  - apply (Hinit _ _ _ _ Hin Ei).
  - apply (foldM_step_fx_P _ _ _ IH _ _ _) in Ef; [exact Ef|exact Hok].
Qed.

Lemma to_rows_tmp_P rows : to_rows_tmp ueqb nodes = Ok rows -> rowsP rows.
Proof.
  unfold to_rows_tmp.
  assert (Hgen : forall ns, (forall n0 rest, ns = n0 :: rest -> In n0 nodes) ->
            match ns with
            | [] => Ok []
            | n0 :: _ => do st <- visit ueqb nodes (S (List.length nodes)) n0 start_edge state0; Ok (st_rows st)
            end = Ok rows -> rowsP rows).
  { intros ns Hhd H. destruct ns as [|n0 rest].
    - inversion H; subst. constructor.
    - destruct (visit ueqb _ _ n0 _ _) as [st|e] eqn:Ev; cbn [bind] in H; [|discriminate].
      inversion H; subst. apply (visit_P _ _ _ _ _) in Ev; [exact Ev| |constructor].
      apply (Hhd n0 rest eq_refl). }
  apply Hgen. intros n0 rest ->. left; reflexivity.
Qed.

Lemma remap_row_same m (r : row U tid) r' :
  remap_row ueqb m r = Ok r' -> r_type r' = r_type r /\ r_pay r' = r_pay r.
Proof.
  unfold remap_row. intros H.
  destruct (mget ueqb m (r_id r)) as [id|e]; cbn [bind] in H; [|discriminate].
  destruct (mapM (mget ueqb m) (r_goto r)) as [gt|e]; cbn [bind] in H; [|discriminate].
  destruct (mapM (remap_edge ueqb m) (r_edges r)) as [es|e]; cbn [bind] in H; [|discriminate].
  inversion H; subst. split; reflexivity.
Qed.

Theorem to_rows_P nb rows : to_rows ueqb nb nodes = Ok rows -> rowsP rows.
Proof.
  unfold to_rows. intros H.
  destruct (to_rows_tmp ueqb nodes) as [trows|e] eqn:Et; cbn [bind] in H; [|discriminate].
  destruct (build_map ueqb nb trows 0 idmap0) as [m|e]; cbn [bind] in H; [|discriminate].
  apply to_rows_tmp_P in Et. apply mapM_Forall2 in H. unfold rowsP in *.
  induction H as [|r r' l l' Hr Hl IH]; [constructor|].
  inversion Et as [|r0 l0 Hp Hps]; subst. constructor; [|apply IH; exact Hps].
  destruct (remap_row_same _ _ _ Hr) as [-> ->]. exact Hp.
Qed.

End Local.

(* ---- the result name *)
Definition f_split_by_value : str := lit "split_by_value".
Definition f_split_random : str := lit "split_random".
Definition is_split_type (t : str) : bool :=
  str_eqb t f_split_by_value || str_eqb t f_split_by_group || str_eqb t f_split_random.

(* the result name of a router that does not wait ("" = none) *)
Definition split_result (n : node) : option str :=
  match n_kind n with
  | NRouter _ KSwitch r => match sw_wait r with None => Some (sw_result r) | Some _ => None end
  | NRandom _ rs _ => Some rs
  | _ => None
  end.

(* what a split row says: which node it stands for and the result name of that node *)
Definition split_row_names_result (nodes : list node) (tp : str) (p : pay U) : Prop :=
  is_split_type tp = true ->
  exists n s, In n nodes /\ assoc_str f_node_uuid p = Some (PU (n_uuid n)) /\ split_result n = Some s
              /\ assoc_str f_save_name p = Some (PS s).

Lemma assoc_str_app_r {T} k (a b : list (str * T)) : assoc_str k a = None -> assoc_str k (a ++ b) = assoc_str k b.
Proof.
  induction a as [|[k' v] r IH]; intros H; cbn [assoc_str app] in *; [reflexivity|].
  destruct (str_eqb k' k); [discriminate|]. apply IH, H.
Qed.

Lemma node_base_pay_uuid (n : node) : assoc_str f_node_uuid (node_base_pay n) = Some (PU (n_uuid n)).
Proof. reflexivity. Qed.

Lemma node_base_pay_no_save (n : node) : assoc_str f_save_name (node_base_pay n) = None.
Proof. unfold node_base_pay. destruct (n_ui n) as [[l t]|]; reflexivity. Qed.

Lemma split_save_name_get s : split_rows_carry_save_name = true ->
  assoc_str f_save_name (split_save_name (U:=U) s) = Some (PS s).
Proof. intros H. unfold split_save_name. rewrite H. reflexivity. Qed.

Lemma action_fields_not_split (a : action U) tp : action_fields a = Ok tp -> is_split_type (fst tp) = false.
Proof.
  destruct a; cbn [action_fields]; intros H; try discriminate.
  - destruct (split_attachments attachments) as [[[img aud] vid] rest]. inversion H; subst; reflexivity.
  - inversion H; subst; reflexivity.
  - inversion H; subst; reflexivity.
  - destruct groups as [|[nm u0] g]; [discriminate|]. inversion H; subst. destruct add; reflexivity.
  - inversion H; subst; reflexivity.
  - inversion H; subst; reflexivity.
  - inversion H; subst; reflexivity.
  - inversion H; subst; reflexivity.
  - inversion H; subst; reflexivity.
Qed.

Lemma action_rows_not_split (u : U) sn base acts : forall i pe (rms : list (row U tid)),
  action_rows u sn base acts i pe = Ok rms -> Forall (fun r => is_split_type (r_type r) = false) rms.
Proof.
  induction acts as [|a rest IH]; intros i pe rms H; cbn [action_rows] in H.
  - inversion H; subst. constructor.
  - destruct (action_fields a) as [tp|e] eqn:Ea; cbn [bind] in H; [|discriminate].
    destruct (action_rows u sn base rest (S i) _) as [more|e] eqn:Em; cbn [bind] in H; [|discriminate].
    inversion H; subst. constructor; [apply (action_fields_not_split _ _ Ea)|apply (IH _ _ _ Em)].
Qed.

Lemma assoc_str_cons_skip {T} k k' (v : T) l : str_eqb k' k = false -> assoc_str k ((k', v) :: l) = assoc_str k l.
Proof. intros H. cbn [assoc_str]. rewrite H. reflexivity. Qed.

Lemma initiate_names_result nodes :
  split_rows_carry_save_name = true ->
  forall n sn pe rms, In n nodes -> initiate_row_models n sn pe = Ok rms ->
    Forall (fun r => split_row_names_result nodes (r_type r) (r_pay r)) rms.
Proof.
  intros Hfix n sn pe rms Hin H. unfold initiate_row_models in H.
  destruct (node_kwargs n) as [kw|e] eqn:Ek; cbn [bind] in H; [|discriminate].
  destruct (n_actions n) as [|a rest] eqn:Ea.
  - destruct kw as [[tp p]|]; [|discriminate].
    pose proof (node_base_pay_uuid n) as Hbu. pose proof (node_base_pay_no_save n) as Hbs.
    set (bp := node_base_pay n) in *. clearbody bp.
    injection H as <-. constructor; [|constructor].
    cbn [r_type r_pay]. intros Hsplit.
    assert (Huuid : assoc_str f_node_uuid (bp ++ p) = Some (PU (n_uuid n))).
    { clear -Hbu. induction bp as [|[k v] r IH]; [discriminate|]. cbn [assoc_str app] in *.
      destruct (str_eqb k f_node_uuid); [exact Hbu|apply IH, Hbu]. }
    rewrite (assoc_str_app_r f_save_name bp p Hbs).
    unfold node_kwargs in Ek. destruct (n_kind n) as [d|rk r|rs cats] eqn:Enk; try discriminate.
    + destruct rk; try discriminate.
      destruct (router_kwargs r) as [kw'|e'] eqn:Er; cbn [bind] in Ek; [|discriminate].
      injection Ek as ->. unfold router_kwargs in Er.
      destruct (sw_wait r) as [w|] eqn:Ew; [injection Er as <- <-; discriminate Hsplit|].
      exists n, (sw_result r). split; [exact Hin|]. split; [exact Huuid|].
      split; [unfold split_result; rewrite Enk, Ew; reflexivity|].
      destruct (str_eqb (sw_operand r) groups_operand).
      * destruct (sw_cases r) as [|k ks].
        -- destruct group_split_without_cases_exports; [|discriminate]. injection Er as <- <-.
           cbn [app]. rewrite !assoc_str_cons_skip by reflexivity. apply split_save_name_get, Hfix.
        -- destruct (case_arg1 k); [|discriminate]. destruct (case_arg0 k) as [a0|]; [|discriminate]. injection Er as <- <-.
           cbn [app]. rewrite !assoc_str_cons_skip by reflexivity. apply split_save_name_get, Hfix.
      * injection Er as <- <-.
        cbn [app]. rewrite !assoc_str_cons_skip by reflexivity. apply split_save_name_get, Hfix.
    + injection Ek as <- <-. exists n, rs. split; [exact Hin|]. split; [exact Huuid|].
      split; [unfold split_result; rewrite Enk; reflexivity|].
      apply split_save_name_get, Hfix.
  - apply action_rows_not_split in H. revert H. apply Forall_impl. intros r Hr Hs. rewrite Hr in Hs. discriminate.
Qed.

(* The repair of split-result-name-lost, for every flow, numbered or not: each row of the sheet that
   stands for a router that does not wait (split_by_value, split_by_group, split_random) names a node
   of the flow in node_uuid and carries that node's result name in save_name. *)
Theorem to_rows_keeps_save_name_repaired :
  split_rows_carry_save_name = true ->
  forall nb nodes rows, to_rows ueqb nb nodes = Ok rows ->
    forall r, In r rows -> is_split_type (r_type r) = true ->
      exists n s, In n nodes /\ assoc_str f_node_uuid (r_pay r) = Some (PU (n_uuid n))
                  /\ split_result n = Some s /\ assoc_str f_save_name (r_pay r) = Some (PS s).
Proof.
  intros Hfix nb nodes rows H r Hr Hs.
  pose proof (to_rows_P nodes (split_row_names_result nodes) (initiate_names_result nodes Hfix)) as HP.
  assert (Hg : split_row_names_result nodes (lit "go_to") []) by (intros Hx; discriminate Hx).
  assert (Hl : split_row_names_result nodes (lit "loose_exit") []) by (intros Hx; discriminate Hx).
  specialize (HP Hg Hl nb rows H). unfold rowsP in HP. rewrite Forall_forall in HP.
  apply (HP r Hr Hs).
Qed.

End Fix.
