(* What the repairs of the C04 export findings achieve, proved on Exp/ToRows.v for all flows.
   The model mirrors both behaviours of each repaired function, selected by a probe regenerated
   from the tree under check (translator/tables_c04.py); every theorem [..._repaired] has the probe
   as its premise, every [..._witness] is decided by the probe ([if probe then holds else fails]).

   Part 1  group split without cases: the export no longer fails
   Part 2  the result name of a router that does not wait reaches its row (save_name), through
           the whole export (DFS, remapping of the ids)
   Part 3  one pair per case, in case order (cases sharing a category)
   Part 4  every edge that leaves an exported node and either leads somewhere or carries the
           condition of a free case is an edge of some row of the sheet (loose_exit rows)      *)
From Coq Require Import String.
From Coq Require Import List NArith Bool Arith Lia.
From RPFT Require Import Base.Sexp Base.PyStr Base.PyStrFacts Base.Result Gen.Tables Exp.ToRows Exp.ToRowsFacts.
Import ListNotations.

Opaque no_args_tests short_types strip_excluded frm_field_headers.
Opaque split_rows_carry_save_name group_split_without_cases_exports loose_exit_rows pairs_follow_cases.

(* a witness that depends on a repair: one script for both trees; the branch that contradicts the
   regenerated probe is closed by computing the probe *)
Ltac by_probe E :=
  first [ vm_compute; reflexivity
        | let H := fresh "H" in intros H; vm_compute in H; discriminate H
        | exfalso; vm_compute in E; discriminate E ].

Section Fix.
Variable U : Type.
Variable ueqb : U -> U -> bool.
Hypothesis ueqb_spec : forall a b, ueqb a b = true <-> a = b.

Notation node := (node U).
Notation srouter := (srouter U).
Notation tid := (tid U).
Notation pv := (pv U).

Lemma ueqb_refl a : ueqb a a = true.
Proof. apply ueqb_spec. reflexivity. Qed.

(* ------------------------------------------------------------------ Part 1: group split without cases *)
Definition f_split_by_group : str := lit "split_by_group".
Definition f_mainarg_groups : str := lit "mainarg_groups".
Definition f_obj_id : str := lit "obj_id".
Definition f_save_name : str := lit "save_name".
Definition f_node_uuid : str := lit "node_uuid".
Definition f_send_message : str := lit "send_message".

(* the first case of a group split, when there is one, names its group (uuid and name) *)
Definition group_split_wf (r : srouter) : bool :=
  match sw_cases r with
  | [] => true
  | k :: _ => match case_arg1 k, case_arg0 k with Some _, Some _ => true | _, _ => false end
  end.

Theorem router_kwargs_total_repaired :
  group_split_without_cases_exports = true ->
  forall r : srouter, group_split_wf r = true -> exists tp, router_kwargs r = Ok tp.
Proof.
  intros Hfix r Hwf. unfold router_kwargs. destruct (sw_wait r); [eexists; reflexivity|].
  destruct (str_eqb (sw_operand r) groups_operand); [|eexists; reflexivity].
  unfold group_split_wf in Hwf. destruct (sw_cases r) as [|k ks].
  - rewrite Hfix. eexists; reflexivity.
  - destruct (case_arg1 k); [|discriminate Hwf]. destruct (case_arg0 k); [|discriminate Hwf]. eexists; reflexivity.
Qed.

(* the row of a group split that has no case yet: type split_by_group, no group named *)
Theorem group_split_without_cases_row_repaired :
  group_split_without_cases_exports = true ->
  forall r : srouter, sw_wait r = None -> str_eqb (sw_operand r) groups_operand = true -> sw_cases r = [] ->
    router_kwargs r = Ok (f_split_by_group,
                          [(f_mainarg_groups, PL []); (f_obj_id, PS [])] ++ split_save_name (sw_result r)).
Proof.
  intros Hfix r Hw Hop Hc. unfold router_kwargs. rewrite Hw, Hop, Hc, Hfix. reflexivity.
Qed.

(* ... and every router node without actions whose group split is well formed gets exactly one row *)
Theorem switch_node_rows_total_repaired :
  group_split_without_cases_exports = true ->
  forall (n : node) (r : srouter) sn (pe : edge U tid), n_kind n = NRouter U KSwitch r -> n_actions n = [] -> group_split_wf r = true ->
    exists row, initiate_row_models n sn pe = Ok [row] /\ r_id row = TNode (n_uuid n) sn /\ r_edges row = [pe].
Proof.
  intros Hfix n r sn pe Hk Ha Hwf. unfold initiate_row_models, node_kwargs. rewrite Hk, Ha.
  destruct (router_kwargs_total_repaired Hfix r Hwf) as [[tp p] Hr]. rewrite Hr. cbn [bind].
  eexists; split; [reflexivity|]. split; reflexivity.
Qed.

(* ------------------------------------------------------------------ generic: mapM *)
Lemma mapM_Forall2 {E S T} (f : S -> result E T) : forall l l', mapM f l = Ok l' -> Forall2 (fun x y => f x = Ok y) l l'.
Proof.
  induction l as [|x r IH]; intros l' H; cbn [mapM] in H.
  - inversion H; subst. constructor.
  - destruct (f x) as [y|e] eqn:Ef; [|discriminate]. destruct (mapM f r) as [ys|e] eqn:Em; [|discriminate].
    inversion H; subst. constructor; [exact Ef|apply IH; reflexivity].
Qed.

(* ------------------------------------------------------------------ Part 2: what a row carries is decided where the row is made *)
(* Type and payload of a row are written once - by initiate_row_models, or as the go_to / loose_exit row
   of an edge - and neither the DFS (which only prepends edges) nor the remapping of the ids touches
   them: a property of (type, payload) that holds where rows are made holds of every row of the sheet. *)
Section Local.
Variable nodes : list node.
Variable P : str -> pay U -> Prop.
Hypothesis Hinit : forall n sn pe rms, In n nodes -> initiate_row_models n sn pe = Ok rms ->
                                       Forall (fun r => P (r_type r) (r_pay r)) rms.
Hypothesis Hgoto : P (lit "go_to") [].
Hypothesis Hloose : P (lit "loose_exit") [].

Definition rowsP {I} (rows : list (row U I)) : Prop := Forall (fun r => P (r_type r) (r_pay r)) rows.

Lemma prepend_edge_P t e rows : forall rows', rowsP rows -> prepend_edge ueqb t e rows = Some rows' -> rowsP rows'.
Proof.
  induction rows as [|r rest IH]; intros rows' Hok H; cbn [prepend_edge] in H; [discriminate|].
  inversion Hok as [|r0 l0 Hr Hrest]; subst.
  destruct (tid_eqb ueqb (r_id r) t).
  - inversion H; subst. constructor; [exact Hr|exact Hrest].
  - destruct (prepend_edge ueqb t e rest) as [rest'|] eqn:Ep; [|discriminate].
    inversion H; subst. constructor; [exact Hr|]. apply IH; [exact Hrest|reflexivity].
Qed.

Definition recP (rec : node -> edge U tid -> state U -> res (state U)) : Prop :=
  forall c e s s', In c nodes -> rowsP (st_rows s) -> rec c e s = Ok s' -> rowsP (st_rows s').

Lemma step_P rec : recP rec ->
  forall st p st', rowsP (st_rows st) -> step ueqb nodes rec st p = Ok st' -> rowsP (st_rows st').
Proof.
  intros Hrec st [d e] st' Hok H. unfold step in H. cbn [fst snd] in H.
  destruct d as [d|]; [|inversion H; subst; exact Hok].
  destruct (find_node ueqb nodes d) as [child|] eqn:Ef; [|discriminate].
  apply find_node_in in Ef.
  destruct (mem_u ueqb (n_uuid child) (st_done st)).
  - destruct (short_name child) as [csn|er]; cbn [bind] in H; [|discriminate].
    destruct (prepend_edge ueqb _ e (st_rows st)) as [rows'|] eqn:Ep; [|discriminate].
    inversion H; subst. cbn [st_rows]. apply (prepend_edge_P _ _ _ _ Hok Ep).
  - destruct (mem_u ueqb (n_uuid child) (st_vis st)).
    + destruct (short_name child) as [csn|er]; cbn [bind] in H; [|discriminate].
      inversion H; subst. cbn [st_rows]. constructor; [exact Hgoto|exact Hok].
    + apply (Hrec _ _ _ _ Ef Hok H).
Qed.

Lemma step_fx_P keep sn rec : recP rec ->
  forall st p st', rowsP (st_rows st) -> step_fx ueqb nodes keep sn rec st p = Ok st' -> rowsP (st_rows st').
Proof.
  intros Hrec st [d e] st' Hok H. unfold step_fx in H. cbn [fst snd] in H.
  destruct d as [d|]; [apply (step_P rec Hrec st (Some d, e) st' Hok H)|].
  destruct (keep && negb (cond_blank (e_cond e))); inversion H; subst; [|exact Hok].
  cbn [st_rows]. constructor; [exact Hloose|exact Hok].
Qed.

Lemma foldM_step_fx_P keep sn rec : recP rec ->
  forall prs st st', rowsP (st_rows st) -> foldM (step_fx ueqb nodes keep sn rec) prs st = Ok st' -> rowsP (st_rows st').
Proof.
  intros Hrec prs. induction prs as [|p rest IH]; intros st st' Hok H; cbn [foldM] in H.
  - inversion H; subst; exact Hok.
  - destruct (step_fx ueqb nodes keep sn rec st p) as [st1|e] eqn:Es; [|discriminate].
    apply (IH _ _ (step_fx_P keep sn rec Hrec _ _ _ Hok Es) H).
Qed.

Lemma visit_P : forall fuel, recP (visit ueqb nodes fuel).
Proof.
  induction fuel as [|fuel IH]; intros n pe st st' Hin Hok H; cbn [visit] in H; [discriminate|].
  destruct (short_name n) as [sn|e]; cbn [bind] in H; [|discriminate].
  destruct (initiate_row_models n sn pe) as [rms|e] eqn:Ei; cbn [bind] in H; [|discriminate].
  destruct (exit_edge_pairs ueqb n (last_row_id n sn)) as [prs|e] eqn:Ee; cbn [bind] in H; [|discriminate].
  destruct (foldM _ (rev prs) _) as [st1|e] eqn:Ef; cbn [bind] in H; [|discriminate].
  inversion H; subst. cbn [st_rows]. unfold rowsP. rewrite Forall_app. split.
  - apply (Hinit _ _ _ _ Hin Ei).
  - apply (foldM_step_fx_P _ _ _ IH _ _ _) in Ef; [exact Ef|exact Hok].
Qed.

Lemma to_rows_tmp_P rows : to_rows_tmp ueqb nodes = Ok rows -> rowsP rows.
Proof.
  unfold to_rows_tmp.
  assert (Hgen : forall ns, (forall n0 rest, ns = n0 :: rest -> In n0 nodes) ->
            match ns with
            | [] => Ok []
            | n0 :: _ => do st <- visit ueqb nodes (S (List.length nodes)) n0 start_edge state0; Ok (st_rows st)
            end = Ok rows -> rowsP rows).
  { intros ns Hhd H. destruct ns as [|n0 rest].
    - inversion H; subst. constructor.
    - destruct (visit ueqb _ _ n0 _ _) as [st|e] eqn:Ev; cbn [bind] in H; [|discriminate].
      inversion H; subst. apply (visit_P _ _ _ _ _) in Ev; [exact Ev| |constructor].
      apply (Hhd n0 rest eq_refl). }
  apply Hgen. intros n0 rest ->. left; reflexivity.
Qed.

Lemma remap_row_same m (r : row U tid) r' :
  remap_row ueqb m r = Ok r' -> r_type r' = r_type r /\ r_pay r' = r_pay r.
Proof.
  unfold remap_row. intros H.
  destruct (mget ueqb m (r_id r)) as [id|e]; cbn [bind] in H; [|discriminate].
  destruct (mapM (mget ueqb m) (r_goto r)) as [gt|e]; cbn [bind] in H; [|discriminate].
  destruct (mapM (remap_edge ueqb m) (r_edges r)) as [es|e]; cbn [bind] in H; [|discriminate].
  inversion H; subst. split; reflexivity.
Qed.

Theorem to_rows_P nb rows : to_rows ueqb nb nodes = Ok rows -> rowsP rows.
Proof.
  unfold to_rows. intros H.
  destruct (to_rows_tmp ueqb nodes) as [trows|e] eqn:Et; cbn [bind] in H; [|discriminate].
  destruct (build_map ueqb nb trows 0 idmap0) as [m|e]; cbn [bind] in H; [|discriminate].
  apply to_rows_tmp_P in Et. apply mapM_Forall2 in H. unfold rowsP in *.
  induction H as [|r r' l l' Hr Hl IH]; [constructor|].
  inversion Et as [|r0 l0 Hp Hps]; subst. constructor; [|apply IH; exact Hps].
  destruct (remap_row_same _ _ _ Hr) as [-> ->]. exact Hp.
Qed.

End Local.

(* ---- the result name *)
Definition f_split_by_value : str := lit "split_by_value".
Definition f_split_random : str := lit "split_random".
Definition is_split_type (t : str) : bool :=
  str_eqb t f_split_by_value || str_eqb t f_split_by_group || str_eqb t f_split_random.

(* the result name of a router that does not wait ("" = none) *)
Definition split_result (n : node) : option str :=
  match n_kind n with
  | NRouter _ KSwitch r => match sw_wait r with None => Some (sw_result r) | Some _ => None end
  | NRandom _ rs _ => Some rs
  | _ => None
  end.

(* what a split row says: which node it stands for and the result name of that node *)
Definition split_row_names_result (nodes : list node) (tp : str) (p : pay U) : Prop :=
  is_split_type tp = true ->
  exists n s, In n nodes /\ assoc_str f_node_uuid p = Some (PU (n_uuid n)) /\ split_result n = Some s
              /\ assoc_str f_save_name p = Some (PS s).

Lemma assoc_str_app_r {T} k (a b : list (str * T)) : assoc_str k a = None -> assoc_str k (a ++ b) = assoc_str k b.
Proof.
  induction a as [|[k' v] r IH]; intros H; cbn [assoc_str app] in *; [reflexivity|].
  destruct (str_eqb k' k); [discriminate|]. apply IH, H.
Qed.

Lemma node_base_pay_uuid (n : node) : assoc_str f_node_uuid (node_base_pay n) = Some (PU (n_uuid n)).
Proof. reflexivity. Qed.

Lemma node_base_pay_no_save (n : node) : assoc_str f_save_name (node_base_pay n) = None.
Proof. unfold node_base_pay. destruct (n_ui n) as [[l t]|]; reflexivity. Qed.

Lemma split_save_name_get s : split_rows_carry_save_name = true ->
  assoc_str f_save_name (split_save_name (U:=U) s) = Some (PS s).
Proof. intros H. unfold split_save_name. rewrite H. reflexivity. Qed.

Lemma action_fields_not_split (a : action U) tp : action_fields a = Ok tp -> is_split_type (fst tp) = false.
Proof.
  destruct a; cbn [action_fields]; intros H; try discriminate.
  - destruct (split_attachments attachments) as [[[img aud] vid] rest]. inversion H; subst; reflexivity.
  - inversion H; subst; reflexivity.
  - inversion H; subst; reflexivity.
  - destruct groups as [|[nm u0] g]; [discriminate|]. inversion H; subst. destruct add; reflexivity.
  - inversion H; subst; reflexivity.
  - inversion H; subst; reflexivity.
  - inversion H; subst; reflexivity.
  - inversion H; subst; reflexivity.
  - inversion H; subst; reflexivity.
Qed.

Lemma action_rows_not_split (u : U) sn base acts : forall i pe (rms : list (row U tid)),
  action_rows u sn base acts i pe = Ok rms -> Forall (fun r => is_split_type (r_type r) = false) rms.
Proof.
  induction acts as [|a rest IH]; intros i pe rms H; cbn [action_rows] in H.
  - inversion H; subst. constructor.
  - destruct (action_fields a) as [tp|e] eqn:Ea; cbn [bind] in H; [|discriminate].
    destruct (action_rows u sn base rest (S i) _) as [more|e] eqn:Em; cbn [bind] in H; [|discriminate].
    inversion H; subst. constructor; [apply (action_fields_not_split _ _ Ea)|apply (IH _ _ _ Em)].
Qed.

Lemma assoc_str_cons_skip {T} k k' (v : T) l : str_eqb k' k = false -> assoc_str k ((k', v) :: l) = assoc_str k l.
Proof. intros H. cbn [assoc_str]. rewrite H. reflexivity. Qed.

Lemma initiate_names_result nodes :
  split_rows_carry_save_name = true ->
  forall n sn pe rms, In n nodes -> initiate_row_models n sn pe = Ok rms ->
    Forall (fun r => split_row_names_result nodes (r_type r) (r_pay r)) rms.
Proof.
  intros Hfix n sn pe rms Hin H. unfold initiate_row_models in H.
  destruct (node_kwargs n) as [kw|e] eqn:Ek; cbn [bind] in H; [|discriminate H].
  destruct (n_actions n) as [|a rest] eqn:Ea.
  - destruct kw as [[tp p]|]; [|discriminate H].
    pose proof (node_base_pay_uuid n) as Hbu. pose proof (node_base_pay_no_save n) as Hbs.
    set (bp := node_base_pay n) in *. clearbody bp.
    injection H as <-. constructor; [|constructor].
    cbn [r_type r_pay]. intros Hsplit.
    assert (Huuid : assoc_str f_node_uuid (bp ++ p) = Some (PU (n_uuid n))).
    { clear -Hbu. induction bp as [|[k v] r IH]; [discriminate Hbu|]. cbn [assoc_str app] in *.
      destruct (str_eqb k f_node_uuid); [exact Hbu|apply IH, Hbu]. }
    rewrite (assoc_str_app_r f_save_name bp p Hbs).
    unfold node_kwargs in Ek. destruct (n_kind n) as [d|rk r|rs cats] eqn:Enk; [discriminate Ek| |].
    + destruct rk; [|discriminate Ek|discriminate Ek|discriminate Ek].
      destruct (router_kwargs r) as [kw'|e'] eqn:Er; cbn [bind] in Ek; [|discriminate Ek].
      injection Ek as ->. unfold router_kwargs in Er.
      destruct (sw_wait r) as [w|] eqn:Ew; [injection Er as <- <-; discriminate Hsplit|].
      exists n, (sw_result r). split; [exact Hin|]. split; [exact Huuid|].
      split; [unfold split_result; rewrite Enk, Ew; reflexivity|].
      destruct (str_eqb (sw_operand r) groups_operand).
      * destruct (sw_cases r) as [|k ks].
        -- destruct group_split_without_cases_exports; [|discriminate Er]. injection Er as <- <-.
           cbn [app]. rewrite !assoc_str_cons_skip by reflexivity. apply split_save_name_get, Hfix.
        -- destruct (case_arg1 k); [|discriminate Er]. destruct (case_arg0 k) as [a0|]; [|discriminate Er]. injection Er as <- <-.
           cbn [app]. rewrite !assoc_str_cons_skip by reflexivity. apply split_save_name_get, Hfix.
      * injection Er as <- <-.
        cbn [app]. rewrite !assoc_str_cons_skip by reflexivity. apply split_save_name_get, Hfix.
    + injection Ek as <- <-. exists n, rs. split; [exact Hin|]. split; [exact Huuid|].
      split; [unfold split_result; rewrite Enk; reflexivity|].
      apply split_save_name_get, Hfix.
  - apply action_rows_not_split in H. revert H. apply Forall_impl. intros r Hr Hs. rewrite Hr in Hs. discriminate Hs.
Qed.

(* The repair of split-result-name-lost, for every flow, numbered or not: each row of the sheet that
   stands for a router that does not wait (split_by_value, split_by_group, split_random) names a node
   of the flow in node_uuid and carries that node's result name in save_name. *)
Theorem to_rows_keeps_save_name_repaired :
  split_rows_carry_save_name = true ->
  forall nb nodes rows, to_rows ueqb nb nodes = Ok rows ->
    forall r, In r rows -> is_split_type (r_type r) = true ->
      exists n s, In n nodes /\ assoc_str f_node_uuid (r_pay r) = Some (PU (n_uuid n))
                  /\ split_result n = Some s /\ assoc_str f_save_name (r_pay r) = Some (PS s).
Proof.
  intros Hfix nb nodes rows H r Hr Hs.
  pose proof (to_rows_P nodes (split_row_names_result nodes) (initiate_names_result nodes Hfix)) as HP.
  assert (Hg : split_row_names_result nodes (lit "go_to") []) by (intros Hx; discriminate Hx).
  assert (Hl : split_row_names_result nodes (lit "loose_exit") []) by (intros Hx; discriminate Hx).
  specialize (HP Hg Hl nb rows H). unfold rowsP in HP. rewrite Forall_forall in HP.
  apply (HP r Hr Hs).
Qed.

(* ------------------------------------------------------------------ Part 3: one pair per case *)
Definition case_category (cats : list (category U)) (k : rcase U) : option (category U) :=
  find (fun c => ueqb (k_cat k) (c_uuid c)) cats.
Definition has_category (cats : list (category U)) (k : rcase U) : bool :=
  match case_category cats k with Some _ => true | None => false end.

(* the pair that stands for case [k]: it leaves the last row of the node, leads where the category of
   the case leads and carries the condition of the case *)
Definition pair_of_case (r : srouter) (last : tid) (cats : list (category U)) (k : rcase U) (p : option U * edge U tid) : Prop :=
  exists c, case_category cats k = Some c /\ fst p = c_dest c /\ e_from (snd p) = last
            /\ case_cond r k c = Ok (e_cond (snd p)).

Lemma case_pairs_spec r last cats : forall cases covered pc,
  case_pairs ueqb r last cats cases covered = Ok pc ->
  Forall2 (pair_of_case r last cats) (filter (has_category cats) cases) (fst pc).
Proof.
  induction cases as [|k rest IH]; intros covered pc H; cbn [case_pairs] in H.
  - inversion H; subst. constructor.
  - cbn [filter]. unfold has_category at 1, case_category at 1.
    destruct (find (fun c => ueqb (k_cat k) (c_uuid c)) cats) as [c|] eqn:Ef.
    + destruct (case_cond r k c) as [cd|e] eqn:Ec; cbn [bind] in H; [|discriminate].
      destruct (case_pairs ueqb r last cats rest (c_uuid c :: covered)) as [more|e] eqn:Em; cbn [bind] in H; [|discriminate].
      inversion H; subst. cbn [fst]. constructor; [|apply (IH _ _ Em)].
      exists c. cbn [fst snd e_from e_cond]. repeat split; [exact Ef|exact Ec].
    + apply (IH _ _ H).
Qed.

(* The repair of cases-sharing-a-category: the pairs of a switch router begin with one pair per case (that
   has a category), in the order of the cases; what follows is the blank default edge (unless a case
   covers the default category) and the No Response edge. *)
Theorem switch_pairs_one_per_case_repaired :
  pairs_follow_cases = true ->
  forall (r : srouter) last prs, switch_pairs ueqb r last = Ok prs ->
    exists cps rest, prs = cps ++ rest
      /\ Forall2 (pair_of_case r last (all_categories r)) (filter (has_category (all_categories r)) (sw_cases r)) cps
      /\ (rest = noresp_pairs r last
          \/ rest = (c_dest (sw_default r), {| e_from := last; e_cond := no_cond |}) :: noresp_pairs r last).
Proof.
  intros Hfix r last prs H. unfold switch_pairs in H. rewrite Hfix in H.
  destruct (case_pairs ueqb r last (all_categories r) (sw_cases r) []) as [pc|e] eqn:Ec; cbn [bind] in H; [|discriminate H].
  injection H as <-. exists (fst pc). eexists. split; [reflexivity|]. split; [apply (case_pairs_spec _ _ _ _ _ _ Ec)|].
  destruct (mem_u ueqb (c_uuid (sw_default r)) (snd pc)); [left|right]; reflexivity.
Qed.

Lemma Forall2_In_l {S T} (R : S -> T -> Prop) l l' x : Forall2 R l l' -> In x l -> exists y, In y l' /\ R x y.
Proof.
  intros H. induction H as [|a b la lb Hab Hl IH]; intros Hin; [contradiction|].
  destruct Hin as [<-|Hin]; [exists b; split; [left; reflexivity|exact Hab]|].
  destruct (IH Hin) as [y [Hy Hr]]. exists y; split; [right; exact Hy|exact Hr].
Qed.

(* no case is lost: every case of the router has its own pair *)
Corollary every_case_has_a_pair_repaired :
  pairs_follow_cases = true ->
  forall (r : srouter) last prs k, switch_pairs ueqb r last = Ok prs ->
    In k (sw_cases r) -> has_category (all_categories r) k = true ->
    exists p, In p prs /\ pair_of_case r last (all_categories r) k p.
Proof.
  intros Hfix r last prs k H Hk Hc.
  destruct (switch_pairs_one_per_case_repaired Hfix r last prs H) as (cps & rest & -> & HF & _).
  destruct (Forall2_In_l _ _ _ k HF) as [p [Hp Hr]].
  - apply filter_In. split; assumption.
  - exists p. split; [apply in_or_app; left; exact Hp|exact Hr].
Qed.

(* ------------------------------------------------------------------ Part 4: no edge of an exported node is lost *)
Definition edges_of {I} (rows : list (row U I)) : list (edge U I) := flat_map r_edges rows.

(* an edge is written into the sheet when it leads somewhere, or - with the repair of
   unconnected-non-default-category - when it carries a condition and leaves a node with free cases *)
Definition kept (keep : bool) (p : option U * edge U tid) : bool :=
  match fst p with Some _ => true | None => keep && negb (cond_blank (e_cond (snd p))) end.
Definition node_keep (n : node) : bool := loose_exit_rows && has_free_cases n.

Lemma edges_of_app {I} (a b : list (row U I)) : edges_of (a ++ b) = edges_of a ++ edges_of b.
Proof. unfold edges_of. apply flat_map_app. Qed.

Lemma prepend_edge_edges t e rows : forall rows',
  prepend_edge ueqb t e rows = Some rows' ->
  In e (edges_of rows') /\ incl (edges_of rows) (edges_of rows').
Proof.
  induction rows as [|r rest IH]; intros rows' H; cbn [prepend_edge] in H; [discriminate|].
  destruct (tid_eqb ueqb (r_id r) t).
  - inversion H; subst. unfold edges_of; cbn [flat_map r_edges]. split; [left; reflexivity|].
    intros x Hx. right. exact Hx.
  - destruct (prepend_edge ueqb t e rest) as [rest'|] eqn:Ep; [|discriminate].
    inversion H; subst. destruct (IH _ eq_refl) as [Hin Hincl]. unfold edges_of in *; cbn [flat_map]. split.
    + apply in_or_app. right. exact Hin.
    + intros x Hx. apply in_app_or in Hx. apply in_or_app. destruct Hx as [Hx|Hx]; [left; exact Hx|right; apply Hincl, Hx].
Qed.

Lemma find_node_uuid nodes d n : find_node ueqb nodes d = Some n -> n_uuid n = d.
Proof.
  induction nodes as [|m rest IH]; cbn [find_node]; [discriminate|].
  destruct (ueqb (n_uuid m) d) eqn:E; [|exact IH].
  intros H; inversion H; subst. apply ueqb_spec, E.
Qed.

Lemma mem_u_true u l : mem_u ueqb u l = true <-> In u l.
Proof.
  unfold mem_u. rewrite existsb_exists. split.
  - intros [x [Hx Hu]]. apply ueqb_spec in Hu. subst. exact Hx.
  - intros H. exists u. split; [exact H|apply ueqb_refl].
Qed.

Section Edges.
Variable nodes : list node.

(* [n] is the node that the export finds under its uuid *)
Definition is_node (n : node) : Prop := find_node ueqb nodes (n_uuid n) = Some n.

Lemma find_node_is_node d n : find_node ueqb nodes d = Some n -> is_node n.
Proof. intros H. unfold is_node. rewrite (find_node_uuid _ _ _ H). exact H. Qed.

Lemma is_node_inj m n : is_node m -> is_node n -> n_uuid m = n_uuid n -> m = n.
Proof. unfold is_node. intros Hm Hn E. rewrite E in Hm. rewrite Hm in Hn. inversion Hn; reflexivity. Qed.

(* every kept edge that leaves [n] is an edge of some row *)
Definition node_edges_in (n : node) (rows : list (row U tid)) : Prop :=
  exists sn prs, short_name n = Ok sn /\ exit_edge_pairs ueqb n (last_row_id n sn) = Ok prs
                 /\ forall p, In p prs -> kept (node_keep n) p = true -> In (snd p) (edges_of rows).

Definition Inv (st : state U) : Prop :=
  forall m, is_node m -> In (n_uuid m) (st_done st) -> node_edges_in m (st_rows st).

Definition grows (st st' : state U) : Prop :=
  incl (edges_of (st_rows st)) (edges_of (st_rows st')) /\ incl (st_done st) (st_done st').

Lemma grows_refl st : grows st st.
Proof. split; apply incl_refl. Qed.
Lemma grows_trans a b c : grows a b -> grows b c -> grows a c.
Proof. intros [H1 H2] [H3 H4]. split; eapply incl_tran; eassumption. Qed.

Lemma node_edges_in_incl n rows rows' :
  incl (edges_of rows) (edges_of rows') -> node_edges_in n rows -> node_edges_in n rows'.
Proof. intros Hi (sn & prs & Hs & He & H). exists sn, prs. split; [exact Hs|]. split; [exact He|]. intros p Hp Hk. apply Hi, (H p Hp Hk). Qed.

(* what the recursive call must deliver *)
Definition rec_spec (rec : node -> edge U tid -> state U -> res (state U)) : Prop :=
  forall c e s s', is_node c -> Inv s -> rec c e s = Ok s' ->
                   Inv s' /\ grows s s' /\ In e (edges_of (st_rows s')).

Lemma step_edges rec : rec_spec rec ->
  forall st d e st', Inv st -> step ueqb nodes rec st (Some d, e) = Ok st' ->
                     Inv st' /\ grows st st' /\ In e (edges_of (st_rows st')).
Proof.
  intros Hrec st d e st' Hinv H. unfold step in H. cbn [fst snd] in H.
  destruct (find_node ueqb nodes d) as [child|] eqn:Ef; [|discriminate].
  apply find_node_is_node in Ef.
  destruct (mem_u ueqb (n_uuid child) (st_done st)).
  - destruct (short_name child) as [csn|er]; cbn [bind] in H; [|discriminate].
    destruct (prepend_edge ueqb _ e (st_rows st)) as [rows'|] eqn:Ep; [|discriminate].
    inversion H; subst. destruct (prepend_edge_edges _ _ _ _ Ep) as [Hin Hincl].
    split; [|split; [split; [exact Hincl|apply incl_refl]|exact Hin]].
    intros m Hm Hd. cbn [st_done st_rows] in *. apply (node_edges_in_incl _ _ _ Hincl). apply (Hinv m Hm Hd).
  - destruct (mem_u ueqb (n_uuid child) (st_vis st)).
    + destruct (short_name child) as [csn|er]; cbn [bind] in H; [|discriminate].
      inversion H; subst. cbn [st_rows st_done].
      assert (Hincl : incl (edges_of (st_rows st)) (edges_of (goto_row (st_k st) (TNode (n_uuid child) csn) csn e :: st_rows st))).
      { unfold edges_of; cbn [flat_map]. intros x Hx. apply in_or_app. right. exact Hx. }
      split; [|split; [split; [exact Hincl|apply incl_refl]|]].
      * intros m Hm Hd. cbn [st_done st_rows] in *. apply (node_edges_in_incl _ _ _ Hincl). apply (Hinv m Hm Hd).
      * unfold edges_of; cbn [flat_map goto_row r_edges]. left; reflexivity.
    + apply (Hrec _ _ _ _ Ef Hinv H).
Qed.

Lemma step_fx_edges keep sn rec : rec_spec rec ->
  forall st p st', Inv st -> step_fx ueqb nodes keep sn rec st p = Ok st' ->
                   Inv st' /\ grows st st' /\ (kept keep p = true -> In (snd p) (edges_of (st_rows st'))).
Proof.
  intros Hrec st [d e] st' Hinv H. unfold step_fx in H. unfold kept. cbn [fst snd] in *.
  destruct d as [d|].
  - destruct (step_edges rec Hrec st d e st' Hinv H) as (H1 & H2 & H3). split; [exact H1|]. split; [exact H2|]. intros _. exact H3.
  - destruct (keep && negb (cond_blank (e_cond e))); inversion H; subst.
    + cbn [st_rows st_done].
      assert (Hincl : incl (edges_of (st_rows st)) (edges_of (loose_row (st_k st) sn e :: st_rows st))).
      { unfold edges_of; cbn [flat_map]. intros x Hx. apply in_or_app. right. exact Hx. }
      split; [|split; [split; [exact Hincl|apply incl_refl]|]].
      * intros m Hm Hd. cbn [st_done st_rows] in *. apply (node_edges_in_incl _ _ _ Hincl). apply (Hinv m Hm Hd).
      * intros _. unfold edges_of; cbn [flat_map loose_row r_edges]. left; reflexivity.
    + split; [exact Hinv|]. split; [apply grows_refl|]. discriminate.
Qed.

Lemma foldM_step_fx_edges keep sn rec : rec_spec rec ->
  forall prs st st', Inv st -> foldM (step_fx ueqb nodes keep sn rec) prs st = Ok st' ->
    Inv st' /\ grows st st' /\ (forall p, In p prs -> kept keep p = true -> In (snd p) (edges_of (st_rows st'))).
Proof.
  intros Hrec prs. induction prs as [|p rest IH]; intros st st' Hinv H; cbn [foldM] in H.
  - inversion H; subst. split; [exact Hinv|]. split; [apply grows_refl|]. intros p [].
  - destruct (step_fx ueqb nodes keep sn rec st p) as [st1|e] eqn:Es; [|discriminate].
    destruct (step_fx_edges keep sn rec Hrec _ _ _ Hinv Es) as (I1 & G1 & K1).
    destruct (IH _ _ I1 H) as (I2 & G2 & K2).
    split; [exact I2|]. split; [apply (grows_trans _ _ _ G1 G2)|].
    intros q [<-|Hq] Hk; [apply (proj1 G2), K1, Hk|apply (K2 q Hq Hk)].
Qed.

Lemma action_rows_first_edge (u : U) sn base acts : forall i pe (rms : list (row U tid)),
  acts <> [] -> action_rows u sn base acts i pe = Ok rms -> In pe (edges_of rms).
Proof.
  destruct acts as [|a rest]; intros i pe rms Hne H; [congruence|]. cbn [action_rows] in H.
  destruct (action_fields a) as [tp|e]; cbn [bind] in H; [|discriminate].
  destruct (action_rows u sn base rest (S i) _) as [more|e]; cbn [bind] in H; [|discriminate].
  inversion H; subst. unfold edges_of; cbn [flat_map r_edges]. left; reflexivity.
Qed.

Lemma initiate_first_edge (n : node) sn pe rms : initiate_row_models n sn pe = Ok rms -> In pe (edges_of rms).
Proof.
  unfold initiate_row_models. intros H.
  destruct (node_kwargs n) as [kw|e]; cbn [bind] in H; [|discriminate].
  destruct (n_actions n) as [|a rest] eqn:Ea.
  - destruct kw as [[tp p]|]; [|discriminate]. inversion H; subst. unfold edges_of; cbn [flat_map r_edges]. left; reflexivity.
  - apply (action_rows_first_edge _ _ _ _ _ _ _ (fun E => nil_cons (eq_sym E)) H).
Qed.

Lemma visit_edges : forall fuel, rec_spec (visit ueqb nodes fuel).
Proof.
  induction fuel as [|fuel IH]; intros n pe st st' Hn Hinv H; cbn [visit] in H; [discriminate|].
  destruct (short_name n) as [sn|e] eqn:Esn; cbn [bind] in H; [|discriminate].
  destruct (initiate_row_models n sn pe) as [rms|e] eqn:Ei; cbn [bind] in H; [|discriminate].
  destruct (exit_edge_pairs ueqb n (last_row_id n sn)) as [prs|e] eqn:Ee; cbn [bind] in H; [|discriminate].
  destruct (foldM _ (rev prs) _) as [st1|e] eqn:Ef; cbn [bind] in H; [|discriminate].
  inversion H; subst. clear H. cbn [st_rows st_done].
  apply (foldM_step_fx_edges _ _ _ IH) in Ef.
  2:{ intros m Hm Hd. cbn [st_done st_rows] in *. apply (Hinv m Hm Hd). }
  destruct Ef as (I1 & [G1 G1'] & K1). cbn [st_rows st_done] in G1, G1'.
  assert (Hincl1 : incl (edges_of (st_rows st1)) (edges_of (rms ++ st_rows st1))).
  { rewrite edges_of_app. apply incl_appr, incl_refl. }
  split; [|split; [split|]].
  - intros m Hm Hd. cbn [st_done st_rows] in *. destruct Hd as [Hd|Hd].
    + assert (m = n) by (apply is_node_inj; [exact Hm|exact Hn|symmetry; exact Hd]). subst m.
      exists sn, prs. split; [exact Esn|]. split; [exact Ee|]. intros p Hp Hk.
      apply Hincl1. apply (K1 p); [apply -> in_rev; exact Hp|exact Hk].
    + apply (node_edges_in_incl _ _ _ Hincl1). apply (I1 m Hm Hd).
  - cbn [st_rows]. eapply incl_tran; [exact G1|exact Hincl1].
  - cbn [st_done]. apply incl_tl. exact G1'.
  - cbn [st_rows]. rewrite edges_of_app. apply in_or_app. left. apply (initiate_first_edge _ _ _ _ Ei).
Qed.

End Edges.

(* the nodes the export writes rows for (the completed nodes of the DFS), and the rows with their temporary ids *)
Definition to_rows_state (nodes : list node) : res (state U) :=
  match nodes with
  | [] => Ok state0
  | n0 :: _ => visit ueqb nodes (S (List.length nodes)) n0 start_edge state0
  end.

Lemma to_rows_tmp_state nodes : to_rows_tmp ueqb nodes = do st <- to_rows_state nodes; Ok (st_rows st).
Proof. unfold to_rows_tmp, to_rows_state. destruct nodes; reflexivity. Qed.

(* At the level of the temporary ids: every kept edge leaving an exported node is an edge of a row. *)
Theorem exported_edges_are_in_rows nodes st :
  to_rows_state nodes = Ok st ->
  forall m, is_node nodes m -> In (n_uuid m) (st_done st) -> node_edges_in m (st_rows st).
Proof.
  unfold to_rows_state. destruct nodes as [|n0 rest] eqn:En; intros H.
  - inversion H; subst. intros m _ [].
  - rewrite <- En in H. assert (Hn0 : is_node nodes n0).
    { unfold is_node. rewrite En. cbn [find_node]. rewrite ueqb_refl. reflexivity. }
    destruct (visit_edges nodes (S (List.length nodes)) n0 start_edge state0 st Hn0) as (I & _ & _); [|exact H|].
    + intros m _ [].
    + rewrite <- En. exact I.
Qed.

(* the entry node is exported *)
Lemma entry_node_exported n0 rest st : to_rows_state (n0 :: rest) = Ok st -> In (n_uuid n0) (st_done st).
Proof.
  unfold to_rows_state. cbn [visit List.length]. intros H.
  destruct (short_name n0) as [sn|e]; cbn [bind] in H; [|discriminate].
  destruct (initiate_row_models n0 sn start_edge) as [rms|e]; cbn [bind] in H; [|discriminate].
  destruct (exit_edge_pairs ueqb n0 (last_row_id n0 sn)) as [prs|e]; cbn [bind] in H; [|discriminate].
  destruct (foldM _ (rev prs) _) as [st1|e]; cbn [bind] in H; [|discriminate].
  inversion H; subst. left; reflexivity.
Qed.

(* ... and through the remapping of the ids: the condition of the edge is in the final sheet *)
Lemma remap_edges_conds m : forall (l : list (edge U tid)) l',
  Forall2 (fun x y => remap_edge ueqb m x = Ok y) l l' -> map e_cond l' = map e_cond l.
Proof.
  intros l l' H. induction H as [|x y l l' Hxy Hl IH]; [reflexivity|]. cbn [map]. rewrite IH. f_equal.
  unfold remap_edge in Hxy. destruct (mget ueqb m (e_from x)); cbn [bind] in Hxy; [|discriminate].
  inversion Hxy; subst. reflexivity.
Qed.

Lemma remap_row_conds m (r : row U tid) r' :
  remap_row ueqb m r = Ok r' -> map e_cond (r_edges r') = map e_cond (r_edges r).
Proof.
  unfold remap_row. intros H.
  destruct (mget ueqb m (r_id r)) as [id|e]; cbn [bind] in H; [|discriminate].
  destruct (mapM (mget ueqb m) (r_goto r)) as [gt|e]; cbn [bind] in H; [|discriminate].
  destruct (mapM (remap_edge ueqb m) (r_edges r)) as [es|e] eqn:Em; cbn [bind] in H; [|discriminate].
  inversion H; subst. cbn [r_edges]. apply (remap_edges_conds m), mapM_Forall2, Em.
Qed.

Definition conds_of {I} (rows : list (row U I)) : list (cond U) := map e_cond (edges_of rows).

Lemma conds_of_cons {I} (r : row U I) rows : conds_of (r :: rows) = map e_cond (r_edges r) ++ conds_of rows.
Proof. unfold conds_of, edges_of. cbn [flat_map]. apply map_app. Qed.

Lemma remap_rows_conds m : forall (l : list (row U tid)) l',
  Forall2 (fun r r' => remap_row ueqb m r = Ok r') l l' -> conds_of l' = conds_of l.
Proof.
  intros l l' H. induction H as [|r r' l l' Hr Hl IH]; [reflexivity|].
  rewrite !conds_of_cons, IH. f_equal. apply (remap_row_conds _ _ _ Hr).
Qed.

Lemma to_rows_conds nb nodes rows trows :
  to_rows_tmp ueqb nodes = Ok trows -> to_rows ueqb nb nodes = Ok rows -> conds_of rows = conds_of trows.
Proof.
  unfold to_rows. intros Ht H. rewrite Ht in H. cbn [bind] in H.
  destruct (build_map ueqb nb trows 0 idmap0) as [m|e]; cbn [bind] in H; [|discriminate].
  apply (remap_rows_conds m), mapM_Forall2, H.
Qed.

(* The repair of unconnected-non-default-category, for every flow, numbered or not, with the final row
   ids: the condition of every kept edge that leaves an exported node is the condition of an edge of the
   sheet.  With [loose_exit_rows] "kept" includes the edges of cases / buckets that lead nowhere. *)
Theorem to_rows_keeps_conditions nb nodes st rows :
  to_rows_state nodes = Ok st -> to_rows ueqb nb nodes = Ok rows ->
  forall m, is_node nodes m -> In (n_uuid m) (st_done st) ->
  exists sn prs, short_name m = Ok sn /\ exit_edge_pairs ueqb m (last_row_id m sn) = Ok prs
    /\ forall p, In p prs -> kept (node_keep m) p = true -> In (e_cond (snd p)) (conds_of rows).
Proof.
  intros Hst H m Hm Hd.
  assert (Ht : to_rows_tmp ueqb nodes = Ok (st_rows st)) by (rewrite to_rows_tmp_state, Hst; reflexivity).
  destruct (exported_edges_are_in_rows nodes st Hst m Hm Hd) as (sn & prs & Hs & He & Hk).
  exists sn, prs. split; [exact Hs|]. split; [exact He|]. intros p Hp Hkp.
  rewrite (to_rows_conds _ _ _ _ Ht H). unfold conds_of. apply in_map. apply (Hk p Hp Hkp).
Qed.

(* the finding in its own words: no test of an exported switch router node (the kind whose cases exist only
   through their edges) is lost, whether or not its category leads somewhere *)
Corollary no_case_is_lost_repaired :
  loose_exit_rows = true -> pairs_follow_cases = true ->
  forall nb nodes st rows, to_rows_state nodes = Ok st -> to_rows ueqb nb nodes = Ok rows ->
  forall m (r : srouter), is_node nodes m -> In (n_uuid m) (st_done st) -> n_kind m = NRouter U KSwitch r ->
  forall k c cd, In k (sw_cases r) -> case_category (all_categories r) k = Some c ->
    case_cond r k c = Ok cd -> cond_blank cd = false -> In cd (conds_of rows).
Proof.
  intros Hloose Hcases nb nodes st rows Hst H m r Hm Hd Hk k c cd Hin Hc Hcd Hnb.
  destruct (to_rows_keeps_conditions nb nodes st rows Hst H m Hm Hd) as (sn & prs & Hs & Ee & Hkeep).
  assert (Ee' : switch_pairs ueqb r (last_row_id m sn) = Ok prs) by (unfold exit_edge_pairs in Ee; rewrite Hk in Ee; exact Ee).
  destruct (every_case_has_a_pair_repaired Hcases r _ prs k Ee' Hin) as [p [Hp (c' & Hc' & Hd' & _ & Hcd')]].
  { unfold has_category. rewrite Hc. reflexivity. }
  rewrite Hc in Hc'. inversion Hc'; subst c'. rewrite Hcd in Hcd'. inversion Hcd'; subst cd.
  apply (Hkeep p Hp).
  unfold kept, node_keep, has_free_cases. rewrite Hk, Hloose, Hnb. destruct (fst p); reflexivity.
Qed.

End Fix.

(* ------------------------------------------------------------------ witnesses (uuids are naturals) *)
Local Open Scope N_scope.
Definition w_switch (u : N) (operand result : str) (wait : option N) (cases : list (rcase N)) (cats : list (category N))
           (dflt : category N) : node N :=
  {| n_uuid := u; n_actions := []; n_ui := None;
     n_kind := NRouter N KSwitch {| sw_operand := operand; sw_result := result; sw_wait := wait; sw_cases := cases;
                                    sw_cats := cats; sw_default := dflt; sw_noresp := None |} |}.
Definition w_case (v : str) (cat : N) : rcase N := {| k_type := lit "has_any_word"; k_group := None; k_args := [v]; k_cat := cat |}.
Definition w_cat (u : N) (nm : str) (d : option N) : category N := {| c_uuid := u; c_name := nm; c_dest := d |}.
Definition w_other (d : option N) : category N := w_cat 90 (lit "Other") d.

(* 1. a group split that has no case yet, followed by a message *)
Definition w_group_split_flow : list (node N) :=
  [ w_switch 1 (lit "@contact.groups") [] None [] [] (w_other (Some 2)); demo_msg 2 (lit "x") None ].

Lemma group_split_witness :
  if group_split_without_cases_exports
  then rmap (map (fun r => r_type r)) (to_rows N.eqb false w_group_split_flow) = Ok [f_split_by_group; f_send_message]
  else to_rows N.eqb false w_group_split_flow = Err ECrash.
Proof. destruct group_split_without_cases_exports eqn:E; by_probe E. Qed.

(* 2. a split by value that saves its result as "res" *)
Definition w_res : str := lit "res".
Definition w_result_flow : list (node N) :=
  [ w_switch 1 (lit "@fields.x") (lit "res") None [w_case (lit "a") 21] [w_cat 21 (lit "A") (Some 2)] (w_other None);
    demo_msg 2 (lit "A") None ].

Lemma save_name_witness :
  rmap (map (fun r => assoc_str f_save_name (r_pay r))) (to_rows N.eqb false w_result_flow)
  = Ok [ (if split_rows_carry_save_name then Some (PS w_res) else None); None ].
Proof. destruct split_rows_carry_save_name eqn:E; by_probe E. Qed.

(* 3. yes -> Positive, maybe -> Unsure, ok -> Positive: the conditions of the pairs *)
Definition w_yes : str := lit "yes".
Definition w_maybe : str := lit "maybe".
Definition w_ok : str := lit "ok".
Definition w_shared_router : srouter N :=
  {| sw_operand := lit "@input.text"; sw_result := []; sw_wait := Some 0;
     sw_cases := [w_case (lit "yes") 21; w_case (lit "maybe") 22; w_case (lit "ok") 21];
     sw_cats := [w_cat 21 (lit "Positive") (Some 2); w_cat 22 (lit "Unsure") (Some 3)];
     sw_default := w_other None; sw_noresp := None |}.

Lemma cases_sharing_witness :
  rmap (map (fun p => cd_value (e_cond (snd p)))) (switch_pairs N.eqb w_shared_router TStart)
  = Ok (if pairs_follow_cases then [PS w_yes; PS w_maybe; PS w_ok; PS []] else [PS w_yes; PS w_maybe; PS []]).
Proof. destruct pairs_follow_cases eqn:E; by_probe E. Qed.

(* 4. wait for a reply; "a" -> category A that leads nowhere; anything else -> a message *)
Definition w_unconnected_flow : list (node N) :=
  [ w_switch 1 (lit "@input.text") [] (Some 0) [w_case (lit "a") 21] [w_cat 21 (lit "A") None] (w_other (Some 2));
    demo_msg 2 (lit "other") None ].

Definition w_unconnected_rows_repaired : list (str * str * list (pv N)) :=
  [ (lit "switch.input_text", lit "wait_for_response", [PS []]);
    (lit "exit.switch.input_text", lit "loose_exit", [PS (lit "a")]);
    (lit "msg.other", lit "send_message", [PS []]) ].
Definition w_unconnected_rows_defect : list (str * str * list (pv N)) :=
  [ (lit "switch.input_text", lit "wait_for_response", [PS []]);
    (lit "msg.other", lit "send_message", [PS []]) ].

Lemma unconnected_case_witness :
  rmap (map (fun r => (r_id r, r_type r, map (fun e => cd_value (e_cond e)) (r_edges r)))) (to_rows N.eqb false w_unconnected_flow)
  = Ok (if loose_exit_rows then w_unconnected_rows_repaired else w_unconnected_rows_defect).
Proof. destruct loose_exit_rows eqn:E; by_probe E. Qed.

(* non-vacuity of the general theorems: their premises are met by the witnesses *)
Lemma no_case_is_lost_nonvacuous :
  exists st rows, to_rows_state N N.eqb w_unconnected_flow = Ok st /\ to_rows N.eqb false w_unconnected_flow = Ok rows
                  /\ map (fun n => match find_node N.eqb w_unconnected_flow (n_uuid n) with Some _ => true | None => false end)
                         w_unconnected_flow = [true; true]
                  /\ st_done st = [1%N; 2%N].
Proof. destruct loose_exit_rows eqn:E; do 2 eexists; vm_compute; repeat split. Qed.
