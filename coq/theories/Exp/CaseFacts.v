(* C05 — router cases: loading and re-writing a case is lossless for every test type and every
   argument list the test's own validator accepts.  RouterCase.from_dict DROPS the arguments of
   the tests listed in NO_ARGS_TESTS; that is lossless only because each of them accepts no
   argument at all — a fact about two regenerated tables (no_args_tests, test_arities) that is
   re-proved against the code on every run. *)
From Coq Require Import List NArith ZArith Bool Lia.
From RPFT Require Import Base.Sexp Base.PyStr Base.Result Base.Json Gen.Tables Exp.Load Exp.Render Exp.ExportDoc Exp.ExportFacts.
Import ListNotations.

Definition arity_of (t : str) : list nat :=
  match find (fun p => str_eqb (fst p) t) test_arities with Some p => snd p | None => [] end.

Definition takes_none (t : str) : bool := match arity_of t with [O] => true | _ => false end.

Definition no_args_take_none : bool := forallb takes_none no_args_tests.

Lemma no_args_take_none_true : no_args_take_none = true.
Proof. vm_compute. reflexivity. Qed.

(* every test has a tabulated, non-empty set of accepted argument counts *)
Definition arities_cover_tests : bool :=
  forallb (fun t => match arity_of t with [] => false | _ => true end) test_names.
Lemma arities_cover_tests_true : arities_cover_tests = true.
Proof. vm_compute. reflexivity. Qed.

Definition emit_case (u t : str) (c : json) (args : list json) : json :=
  JObj [(k_uuid, JStr u); (k_type, JStr t); (k_category_uuid, c); (k_arguments, JArr args)].

Definition valid_case (t : str) (args : list json) : Prop := In (length args) (arity_of t).

Lemma str_eqb_true_eq a b : str_eqb a b = true -> a = b.
Proof.
  revert b; induction a as [|x a IH]; destruct b as [|y b]; cbn; try discriminate; [reflexivity|].
  intros H. apply andb_prop in H as [H1 H2]. apply N.eqb_eq in H1. subst. f_equal. apply IH. exact H2.
Qed.

Lemma mem_str_In k l : mem_str k l = true -> In k l.
Proof.
  induction l as [|x r IH]; cbn; [discriminate|]. intros H. apply orb_prop in H as [H|H].
  - left. apply str_eqb_true_eq. exact H.
  - right. apply IH. exact H.
Qed.

Lemma no_args_means_empty t args :
  mem_str t no_args_tests = true -> valid_case t args -> args = [].
Proof.
  intros Hm Hv. pose proof no_args_take_none_true as Hall. unfold no_args_take_none in Hall.
  rewrite forallb_forall in Hall. specialize (Hall t (mem_str_In _ _ Hm)). unfold takes_none in Hall.
  unfold valid_case in Hv. destruct (arity_of t) as [|n [|m r]]; try discriminate.
  - destruct n; [|discriminate]. destruct Hv as [Hv|[]]. destruct args; [reflexivity|discriminate].
  - destruct n; discriminate.
Qed.

(* the round trip of one case: render (load d) = d, for every test the tool knows and every argument
   list that test's validator accepts *)
Theorem case_roundtrip : forall u t c args,
  u <> [] -> mem_str t test_names = true -> valid_case t args ->
  rmap render_case (load_case (emit_case u t c args)) = Ok (emit_case u t c args).
Proof.
  intros u t c args Hu Ht Hv. unfold load_case, emit_case. cbn [as_obj bind].
  set (m := [(k_uuid, JStr u); (k_type, JStr t); (k_category_uuid, c); (k_arguments, JArr args)]).
  assert (H1 : req m k_type = Ok (JStr t)) by reflexivity.
  assert (H2 : req m k_arguments = Ok (JArr args)) by reflexivity.
  assert (H3 : req m k_category_uuid = Ok c) by reflexivity.
  assert (H4 : req m k_uuid = Ok (JStr u)) by reflexivity.
  rewrite H1, H2, H3, H4. cbn [bind]. rewrite Ht.
  unfold or_fresh. rewrite (truthy_str u Hu).
  destruct (mem_str t no_args_tests) eqn:Hn.
  - subst m. rewrite (no_args_means_empty t args Hn Hv). reflexivity.
  - reflexivity.
Qed.

(* non-vacuity: has_phone with its optional country argument, and has_text without arguments *)
Example case_roundtrip_nonvacuous :
  valid_case [104; 97; 115; 95; 112; 104; 111; 110; 101]%N [JStr [82; 87]%N]
  /\ mem_str [104; 97; 115; 95; 112; 104; 111; 110; 101]%N test_names = true
  /\ valid_case [104; 97; 115; 95; 116; 101; 120; 116]%N [].
Proof. vm_compute. auto. Qed.
