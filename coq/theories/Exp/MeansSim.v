(* C04 — from "every exported node has a reference node that reads the same" (node_sim) to "the flow and the reference flow
   have the same traces" (weak bisimulation, Comp/WeakSim.v, labels matched up to the names the sheet does not fix). *)
From Coq Require Import String.
From Coq Require Import List NArith Bool Arith Lia.
From RPFT Require Import Base.Sexp Base.PyStr Base.PyStrFacts Base.SexpEq Base.Result Flow.Lts Flow.Flow Flow.FlowFacts Flow.RowSem
     Comp.WeakSim Exp.RefFlowFacts Exp.FlatSem Exp.ToRows Exp.Means.
Import ListNotations.

Section Sim.
Variable U : Type.
Variable ueqb : U -> U -> bool.
Hypothesis ueqb_spec : forall a b, ueqb a b = true <-> a = b.
Variable ustr : U -> str.
Hypothesis ustr_inj : forall a b, ustr a = ustr b -> a = b.
Variable ns : list (node U).
Variable done : list U.
Variable kap : U -> nat.
Variable nodesR : list rnode.

Notation fnode := (find_node ueqb ns).
Definition Fl : flow := flow_of U ustr ns.
Definition Rs : st := mkSt nodesR [] [] [] [].
Definition Rf : flow := to_flow Rs.

Definition dest_of (d : option U) : dest := match d with Some d' => DNode (kap d') | None => DNone end.

(* the reference node N reads like node m of the flow *)
Inductive node_sim (m : node U) (N : rnode) : Prop :=
| NS_basic d :
    n_kind m = NBasic U d -> rn_actions N = map (act_payload U) (n_actions m) -> rn_dec N = None ->
    rn_cont N = dest_of d -> (forall d', d = Some d' -> In d' done) -> node_sim m N.

Hypothesis Hfn : forall u, In u done -> exists m, fnode u = Some m.
Hypothesis Hlt : forall u, In u done -> (kap u < List.length nodesR)%nat.
Hypothesis Hnode : forall u m, In u done -> fnode u = Some m -> exists N, nth_error nodesR (kap u) = Some N /\ node_sim m N.

(* ---------------------------------------------------------------- the flow of the nodes *)
Lemma node_of_uuid m : Flow.n_uuid (node_of U ustr m) = ustr (ToRows.n_uuid m).
Proof. unfold node_of. destruct (n_kind m); reflexivity. Qed.

Lemma node_of_actions m : Flow.n_actions (node_of U ustr m) = map (fun a => ([], act_payload U a)) (ToRows.n_actions m).
Proof. unfold node_of. destruct (n_kind m); reflexivity. Qed.

Lemma ustr_eqb a b : str_eqb (ustr a) (ustr b) = ueqb a b.
Proof.
  destruct (ueqb a b) eqn:E.
  - apply ueqb_spec in E. subst. apply str_eqb_refl.
  - apply str_eqb_neq. intros H. apply ustr_inj in H. apply ueqb_spec in H. congruence.
Qed.

Lemma flow_nth i m : nth_error ns i = Some m -> nth_error (f_nodes Fl) i = Some (node_of U ustr m).
Proof. intros H. unfold Fl, flow_of. cbn [f_nodes]. rewrite nth_error_map, H. reflexivity. Qed.

Lemma flow_index_gen (l : list (node U)) u m : find_node ueqb l u = Some m ->
  exists i, find_idx (fun nd => str_eqb (Flow.n_uuid nd) (ustr u)) (map (node_of U ustr) l) = Some i /\ nth_error l i = Some m.
Proof.
  induction l as [|n rest IH]; cbn [find_node map find_idx]; [discriminate|].
  rewrite node_of_uuid, ustr_eqb. destruct (ueqb (ToRows.n_uuid n) u).
  - intros H. injection H as <-. exists 0%nat. split; reflexivity.
  - intros H. destruct (IH H) as (i & A & B). exists (S i). rewrite A. split; [reflexivity|exact B].
Qed.

Lemma flow_index u m : fnode u = Some m -> exists i, node_index Fl (ustr u) = Some i /\ nth_error ns i = Some m.
Proof. apply flow_index_gen. Qed.

Lemma ref_nodes_length : List.length (f_nodes Rf) = List.length nodesR.
Proof. apply (ref_length Rs). Qed.

(* ---------------------------------------------------------------- the relation *)
Inductive Rel : Flow.state -> Flow.state -> Prop :=
| Rel_node u m i pc :
    In u done -> fnode u = Some m -> node_index Fl (ustr u) = Some i -> nth_error ns i = Some m ->
    (pc <= List.length (ToRows.n_actions m))%nat -> Rel (i, pc) (kap u, pc)
| Rel_end : Rel (end_state Fl) (end_state Rf).

Lemma dest_rel d : (forall d', d = Some d' -> In d' done) ->
  Rel (dest_state Fl (option_map ustr d)) (dest_state Rf (dest_id (dest_of d))).
Proof.
  intros Hd. destruct d as [d'|]; cbn [option_map dest_of dest_id]; [|apply Rel_end].
  pose proof (Hd d' eq_refl) as Hin. destruct (Hfn d' Hin) as (m' & Hm'). destruct (flow_index d' m' Hm') as (i & A & B).
  unfold dest_state. rewrite A. unfold Rf. rewrite (ref_node_index Rs (kap d') (Hlt d' Hin)). apply (Rel_node d' m' i 0 Hin Hm' A B). lia.
Qed.

(* what both flows do in related states: the same action, or (past the actions) related continuations *)
Lemma act_step u m i pc a N :
  nth_error ns i = Some m -> nth_error nodesR (kap u) = Some N -> rn_actions N = map (act_payload U) (ToRows.n_actions m) ->
  nth_error (ToRows.n_actions m) pc = Some a ->
  lts_of_flow Fl (i, pc) = KAct (act_payload U a) (i, S pc) /\ lts_of_flow Rf (kap u, pc) = KAct (act_payload U a) (kap u, S pc).
Proof.
  intros Hi HN Ha Hpc. split.
  - apply (lts_act Fl i (node_of U ustr m) pc []); [apply flow_nth, Hi|]. rewrite node_of_actions, nth_error_map, Hpc. reflexivity.
  - apply (lts_act Rf (kap u) (to_node (kap u) N) pc [5%N; N.of_nat (kap u); N.of_nat pc]); [apply (ref_nth Rs), HN|].
    rewrite ref_actions_nth, Ha, nth_error_map, Hpc. reflexivity.
Qed.

Lemma tail_F i m : nth_error ns i = Some m ->
  lts_of_flow Fl (i, List.length (ToRows.n_actions m)) =
  match Flow.n_router (node_of U ustr m) with
  | None => match Flow.n_exits (node_of U ustr m) with [e] => KTau (dest_state Fl (e_dest e)) | _ => KBad end
  | Some r => KDec (router_sig r) (router_branches Fl (node_of U ustr m) r)
  end.
Proof.
  intros Hi. apply (lts_tail Fl i _ _ (flow_nth i m Hi)). rewrite node_of_actions. apply nth_error_None. rewrite map_length. lia.
Qed.

Lemma tail_R u m N : nth_error nodesR (kap u) = Some N -> rn_actions N = map (act_payload U) (ToRows.n_actions m) ->
  lts_of_flow Rf (kap u, List.length (ToRows.n_actions m)) =
  match Flow.n_router (to_node (kap u) N) with
  | None => match Flow.n_exits (to_node (kap u) N) with [e] => KTau (dest_state Rf (e_dest e)) | _ => KBad end
  | Some r => KDec (router_sig r) (router_branches Rf (to_node (kap u) N) r)
  end.
Proof.
  intros HN Ha. apply (lts_tail Rf (kap u) _ _ (ref_nth Rs _ _ HN)). rewrite ref_actions_nth, Ha.
  assert (E : nth_error (map (act_payload U) (ToRows.n_actions m)) (List.length (ToRows.n_actions m)) = None)
    by (apply nth_error_None; rewrite map_length; lia).
  rewrite E. reflexivity.
Qed.

Definition lmF (a b : sexp) : bool := smatch b a.     (* flow on the left, reference (wildcards) on the right *)
Definition lmR (a b : sexp) : bool := smatch a b.     (* reference on the left *)

Lemma node_sim_actions m N : node_sim m N -> rn_actions N = map (act_payload U) (ToRows.n_actions m).
Proof. intros [d _ H _ _ _]. exact H. Qed.

Lemma fwd_sim a b : Rel a b -> wsim_at sexp Flow.state Flow.state (lts_of_flow Fl) (lts_of_flow Rf) lmF Rel a b.
Proof.
  intros H. unfold wsim_at. destruct H as [u m i pc Hin Hm Hidx Hi Hpc|].
  - destruct (Hnode u m Hin Hm) as (N & HN & Hs). pose proof (node_sim_actions m N Hs) as Ha.
    destruct (nth_error (ToRows.n_actions m) pc) as [a|] eqn:Ea.
    + destruct (act_step u m i pc a N Hi HN Ha Ea) as [E1 E2]. rewrite E1. exists (kap u, pc), (act_payload U a), (kap u, S pc).
      split; [apply taus_refl|]. split; [exact E2|]. split; [apply smatch_refl|]. apply (Rel_node u m i (S pc) Hin Hm Hidx Hi).
      apply Nat.le_succ_l. apply nth_error_Some. congruence.
    + assert (Epc : pc = List.length (ToRows.n_actions m)) by (apply nth_error_None in Ea; lia). subst pc.
      rewrite (tail_F i m Hi). pose proof (tail_R u m N HN Ha) as ER.
      destruct Hs as [d Hk _ Hdec Hcont Hd].
      destruct (to_node_basic (kap u) N Hdec) as [E1 E2]. rewrite E1, E2 in ER.
      unfold node_of. rewrite Hk. cbn [Flow.n_router Flow.n_exits e_dest].
      exists (dest_state Rf (dest_id (rn_cont N))). split; [eapply taus_step; [exact ER|apply taus_refl]|].
      rewrite Hcont. apply (dest_rel d Hd).
  - rewrite lts_end. exists (end_state Rf). split; [apply taus_refl|apply lts_end].
Qed.

Lemma bwd_sim b a : Rel a b -> wsim_at sexp Flow.state Flow.state (lts_of_flow Rf) (lts_of_flow Fl) lmR (fun b' a' => Rel a' b') b a.
Proof.
  intros H. unfold wsim_at. destruct H as [u m i pc Hin Hm Hidx Hi Hpc|].
  - destruct (Hnode u m Hin Hm) as (N & HN & Hs). pose proof (node_sim_actions m N Hs) as Ha.
    destruct (nth_error (ToRows.n_actions m) pc) as [a|] eqn:Ea.
    + destruct (act_step u m i pc a N Hi HN Ha Ea) as [E1 E2]. rewrite E2. exists (i, pc), (act_payload U a), (i, S pc).
      split; [apply taus_refl|]. split; [exact E1|]. split; [apply smatch_refl|]. apply (Rel_node u m i (S pc) Hin Hm Hidx Hi).
      apply Nat.le_succ_l. apply nth_error_Some. congruence.
    + assert (Epc : pc = List.length (ToRows.n_actions m)) by (apply nth_error_None in Ea; lia). subst pc.
      rewrite (tail_R u m N HN Ha). pose proof (tail_F i m Hi) as EF.
      destruct Hs as [d Hk _ Hdec Hcont Hd].
      destruct (to_node_basic (kap u) N Hdec) as [E1 E2]. rewrite E1, E2.
      unfold node_of in EF. rewrite Hk in EF. cbn [Flow.n_router Flow.n_exits e_dest] in EF. cbn [e_dest].
      exists (dest_state Fl (option_map ustr d)). split; [eapply taus_step; [exact EF|apply taus_refl]|].
      rewrite Hcont. apply (dest_rel d Hd).
  - rewrite lts_end. exists (end_state Fl). split; [apply taus_refl|apply lts_end].
Qed.

Theorem rel_traces a b : Rel a b ->
  (forall t, exec sexp (lts_of_flow Fl) a t -> exists t', exec sexp (lts_of_flow Rf) b t' /\ Forall2 (ematch sexp lmF) t t')
  /\ (forall t, exec sexp (lts_of_flow Rf) b t -> exists t', exec sexp (lts_of_flow Fl) a t' /\ Forall2 (ematch sexp lmR) t t').
Proof.
  intros H. split; intros t Ht.
  - eapply (wsim_traces sexp Flow.state Flow.state (lts_of_flow Fl) (lts_of_flow Rf) lmF Rel fwd_sim); eauto.
  - eapply (wsim_traces sexp Flow.state Flow.state (lts_of_flow Rf) (lts_of_flow Fl) lmR (fun b' a' => Rel a' b') bwd_sim); eauto.
Qed.

(* the initial states are related when the first node of the flow is the first node of the reference *)
Lemma rel_init n0 rest : ns = n0 :: rest -> In (ToRows.n_uuid n0) done -> kap (ToRows.n_uuid n0) = 0%nat -> Rel init_state init_state.
Proof.
  intros E Hin Hk. unfold init_state.
  assert (Hm : fnode (ToRows.n_uuid n0) = Some n0).
  { rewrite E. cbn [find_node]. rewrite (proj2 (ueqb_spec _ _) eq_refl). reflexivity. }
  assert (H : Rel (0%nat, 0%nat) (kap (ToRows.n_uuid n0), 0%nat)).
  { apply (Rel_node (ToRows.n_uuid n0) n0 0 0 Hin Hm); [|rewrite E; reflexivity|lia].
    unfold node_index, Fl, flow_of. rewrite E. cbn [f_nodes map find_idx]. rewrite node_of_uuid, str_eqb_refl. reflexivity. }
  rewrite Hk in H. exact H.
Qed.

End Sim.
