(* C04 — from "every exported node has a reference node that reads the same" (node_sim) to "the flow and the reference flow
   have the same traces" (weak bisimulation, Comp/WeakSim.v, labels matched up to the names the sheet does not fix). *)
From Coq Require Import String.
From Coq Require Import List NArith Bool Arith Lia.
From RPFT Require Import Base.Sexp Base.PyStr Base.PyStrFacts Base.SexpEq Base.Result Flow.Lts Flow.Flow Flow.FlowFacts Flow.RowSem
     Comp.WeakSim Exp.RefFlowFacts Exp.FlatSem Exp.ToRows Exp.Means.
Import ListNotations.

Section Sim.
Variable U : Type.
Variable ueqb : U -> U -> bool.
Hypothesis ueqb_spec : forall a b, ueqb a b = true <-> a = b.
Variable ustr : U -> str.
Hypothesis ustr_inj : forall a b, ustr a = ustr b -> a = b.
Variable ns : list (node U).
Variable done : list U.
Variable kap : U -> nat.
Variable nodesR : list rnode.

Notation fnode := (find_node ueqb ns).
Definition Fl : flow := flow_of U ustr ns.
Definition Rf : flow := flat_flow nodesR.

Definition dest_of (d : option U) : dest := match d with Some d' => DNode (kap d') | None => DNone end.

(* a category of the reference decision against a category of the router: the name (unless the sheet does not fix it),
   where it leads *)
Definition name_ok (cn : cname) (s : str) : Prop := match cn with CFixed t => t = s | CWild => True end.
Definition dest_ok (d : option U) : Prop := forall d', d = Some d' -> In d' done.
Definition catd_sim (x : cname * dest) (c : ToRows.category U) : Prop :=
  name_ok (fst x) (ToRows.c_name c) /\ snd x = dest_of (ToRows.c_dest c) /\ dest_ok (ToRows.c_dest c).

Definition cat_of_uuid (cats : list (ToRows.category U)) (u : U) : option (ToRows.category U) :=
  find (fun c => ueqb u (ToRows.c_uuid c)) cats.

Definition case_sim (r : srouter U) (dd : rdec) (rk : str * list (option str) * nat) (k : rcase U) : Prop :=
  fst (fst rk) = ToRows.k_type k
  /\ canon_args (ToRows.k_type k) (snd (fst rk)) = canon_args (ToRows.k_type k) (case_args U ustr k)
  /\ exists x c, nth_error (all_cats dd) (snd rk) = Some x /\ cat_of_uuid (all_categories r) (ToRows.k_cat k) = Some c /\ catd_sim x c.

Definition wait_sim (r : srouter U) (dd : rdec) : Prop :=
  match wait_of U ustr r with
  | WNone => rd_wait dd = WNone
  | WMsg => rd_wait dd = WMsg
  | WTimeout w cu =>
    exists i x cn, rd_wait dd = WTimeout w i /\ rd_noresp dd = Some x /\ cu = ustr (ToRows.c_uuid cn)
                   /\ cat_of_uuid (all_categories r) (ToRows.c_uuid cn) = Some cn /\ catd_sim x cn
  end.

Record switch_sim (r : srouter U) (dd : rdec) : Prop := {
  ss_random : rd_random dd = false;
  ss_operand : rd_operand dd = sw_operand r;
  ss_result : rd_result dd = result_of (sw_result r);
  ss_cases : Forall2 (case_sim r dd) (rd_cases dd) (sw_cases r);
  ss_default : catd_sim (rd_default dd) (sw_default r);
  ss_default_find : cat_of_uuid (all_categories r) (ToRows.c_uuid (sw_default r)) = Some (sw_default r);
  ss_wait : wait_sim r dd }.

Record random_sim (result : str) (cats : list (ToRows.category U)) (dd : rdec) : Prop := {
  rs_random : rd_random dd = true;
  rs_result : rd_result dd = result_of result;
  rs_cats : Forall2 catd_sim (rd_cats dd) cats;
  rs_find : forall c, In c cats -> cat_of_uuid cats (ToRows.c_uuid c) = Some c }.

(* the reference node N reads like node m of the flow *)
Inductive node_sim (m : node U) (N : rnode) : Prop :=
| NS_basic d :
    n_kind m = NBasic U d -> rn_actions N = map (act_payload U) (n_actions m) -> rn_dec N = None ->
    rn_cont N = dest_of d -> (forall d', d = Some d' -> In d' done) -> node_sim m N
| NS_switch kd r dd :
    n_kind m = NRouter U kd r -> rn_actions N = map (act_payload U) (n_actions m) -> rn_dec N = Some dd ->
    switch_sim r dd -> node_sim m N
| NS_random res cats dd :
    n_kind m = NRandom U res cats -> rn_actions N = map (act_payload U) (n_actions m) -> rn_dec N = Some dd ->
    random_sim res cats dd -> node_sim m N.

Hypothesis Hfn : forall u, In u done -> exists m, fnode u = Some m.
Hypothesis Hlt : forall u, In u done -> (kap u < List.length nodesR)%nat.
Hypothesis Hnode : forall u m, In u done -> fnode u = Some m -> exists N, nth_error nodesR (kap u) = Some N /\ node_sim m N.

(* ---------------------------------------------------------------- the flow of the nodes *)
Lemma node_of_uuid m : Flow.n_uuid (node_of U ustr m) = ustr (ToRows.n_uuid m).
Proof. unfold node_of. destruct (n_kind m); reflexivity. Qed.

Lemma node_of_actions m : Flow.n_actions (node_of U ustr m) = map (fun a => ([], act_payload U a)) (ToRows.n_actions m).
Proof. unfold node_of. destruct (n_kind m); reflexivity. Qed.

Lemma ustr_eqb a b : str_eqb (ustr a) (ustr b) = ueqb a b.
Proof.
  destruct (ueqb a b) eqn:E.
  - apply ueqb_spec in E. subst. apply str_eqb_refl.
  - apply str_eqb_neq. intros H. apply ustr_inj in H. apply ueqb_spec in H. congruence.
Qed.

Lemma flow_nth i m : nth_error ns i = Some m -> nth_error (f_nodes Fl) i = Some (node_of U ustr m).
Proof. intros H. unfold Fl, flow_of. cbn [f_nodes]. rewrite nth_error_map, H. reflexivity. Qed.

Lemma flow_index_gen (l : list (node U)) u m : find_node ueqb l u = Some m ->
  exists i, find_idx (fun nd => str_eqb (Flow.n_uuid nd) (ustr u)) (map (node_of U ustr) l) = Some i /\ nth_error l i = Some m.
Proof.
  induction l as [|n rest IH]; cbn [find_node map find_idx]; [discriminate|].
  rewrite node_of_uuid, ustr_eqb. destruct (ueqb (ToRows.n_uuid n) u).
  - intros H. injection H as <-. exists 0%nat. split; reflexivity.
  - intros H. destruct (IH H) as (i & A & B). exists (S i). rewrite A. split; [reflexivity|exact B].
Qed.

Lemma flow_index u m : fnode u = Some m -> exists i, node_index Fl (ustr u) = Some i /\ nth_error ns i = Some m.
Proof. apply flow_index_gen. Qed.

Lemma ref_nodes_length : List.length (f_nodes Rf) = List.length nodesR.
Proof. apply (ref_length nodesR). Qed.

(* ---------------------------------------------------------------- the relation *)
Inductive Rel : Flow.state -> Flow.state -> Prop :=
| Rel_node u m i pc :
    In u done -> fnode u = Some m -> node_index Fl (ustr u) = Some i -> nth_error ns i = Some m ->
    (pc <= List.length (ToRows.n_actions m))%nat -> Rel (i, pc) (kap u, pc)
| Rel_end : Rel (end_state Fl) (end_state Rf).

Lemma dest_rel d : (forall d', d = Some d' -> In d' done) ->
  Rel (dest_state Fl (option_map ustr d)) (dest_state Rf (dest_id (dest_of d))).
Proof.
  intros Hd. destruct d as [d'|]; cbn [option_map dest_of dest_id]; [|apply Rel_end].
  pose proof (Hd d' eq_refl) as Hin. destruct (Hfn d' Hin) as (m' & Hm'). destruct (flow_index d' m' Hm') as (i & A & B).
  unfold dest_state. rewrite A. unfold Rf. rewrite (ref_node_index nodesR (kap d') (Hlt d' Hin)). apply (Rel_node d' m' i 0 Hin Hm' A B). lia.
Qed.

(* what both flows do in related states: the same action, or (past the actions) related continuations *)
Lemma act_step u m i pc a N :
  nth_error ns i = Some m -> nth_error nodesR (kap u) = Some N -> rn_actions N = map (act_payload U) (ToRows.n_actions m) ->
  nth_error (ToRows.n_actions m) pc = Some a ->
  lts_of_flow Fl (i, pc) = KAct (act_payload U a) (i, S pc) /\ lts_of_flow Rf (kap u, pc) = KAct (act_payload U a) (kap u, S pc).
Proof.
  intros Hi HN Ha Hpc. split.
  - apply (lts_act Fl i (node_of U ustr m) pc []); [apply flow_nth, Hi|]. rewrite node_of_actions, nth_error_map, Hpc. reflexivity.
  - apply (lts_act Rf (kap u) (to_node (kap u) N) pc [5%N; N.of_nat (kap u); N.of_nat pc]); [apply (ref_nth nodesR), HN|].
    rewrite ref_actions_nth, Ha, nth_error_map, Hpc. reflexivity.
Qed.

Lemma tail_F i m : nth_error ns i = Some m ->
  lts_of_flow Fl (i, List.length (ToRows.n_actions m)) =
  match Flow.n_router (node_of U ustr m) with
  | None => match Flow.n_exits (node_of U ustr m) with [e] => KTau (dest_state Fl (e_dest e)) | _ => KBad end
  | Some r => KDec (router_sig r) (router_branches Fl (node_of U ustr m) r)
  end.
Proof.
  intros Hi. apply (lts_tail Fl i _ _ (flow_nth i m Hi)). rewrite node_of_actions. apply nth_error_None. rewrite map_length. lia.
Qed.

Lemma tail_R u m N : nth_error nodesR (kap u) = Some N -> rn_actions N = map (act_payload U) (ToRows.n_actions m) ->
  lts_of_flow Rf (kap u, List.length (ToRows.n_actions m)) =
  match Flow.n_router (to_node (kap u) N) with
  | None => match Flow.n_exits (to_node (kap u) N) with [e] => KTau (dest_state Rf (e_dest e)) | _ => KBad end
  | Some r => KDec (router_sig r) (router_branches Rf (to_node (kap u) N) r)
  end.
Proof.
  intros HN Ha. apply (lts_tail Rf (kap u) _ _ (ref_nth nodesR _ _ HN)). rewrite ref_actions_nth, Ha.
  assert (E : nth_error (map (act_payload U) (ToRows.n_actions m)) (List.length (ToRows.n_actions m)) = None)
    by (apply nth_error_None; rewrite map_length; lia).
  rewrite E. reflexivity.
Qed.

Definition lmF (a b : sexp) : bool := smatch b a.     (* flow on the left, reference (wildcards) on the right *)
Definition lmR (a b : sexp) : bool := smatch a b.     (* reference on the left *)

Lemma node_sim_actions m N : node_sim m N -> rn_actions N = map (act_payload U) (ToRows.n_actions m).
Proof. intros [d _ H _ _ _|kd r dd _ H _ _|res cats dd _ H _ _]; exact H. Qed.

(* ---------------------------------------------------------------- categories: where they lead, what they are called *)
Lemma flow_cat_find cats u c : cat_of_uuid cats u = Some c ->
  find (fun y => str_eqb (Flow.c_uuid y) (ustr u)) (map (cat_of U ustr) cats) = Some (cat_of U ustr c) /\ ToRows.c_uuid c = u.
Proof.
  unfold cat_of_uuid. induction cats as [|x cats IH]; cbn [find map]; [discriminate|]. cbn [cat_of Flow.c_uuid]. rewrite ustr_eqb.
  destruct (ueqb u (ToRows.c_uuid x)) eqn:E.
  - intros H. injection H as <-. apply ueqb_spec in E. rewrite E, (proj2 (ueqb_spec _ _) eq_refl). auto.
  - assert (E' : ueqb (ToRows.c_uuid x) u = false).
    { destruct (ueqb (ToRows.c_uuid x) u) eqn:E2; [|reflexivity]. apply ueqb_spec in E2. rewrite E2, (proj2 (ueqb_spec _ _) eq_refl) in E. discriminate. }
    rewrite E'. exact IH.
Qed.

Lemma flow_exit_find cats u c : cat_of_uuid cats u = Some c ->
  find (fun e => str_eqb (e_uuid e) (ustr u)) (map (exit_of U ustr) cats) = Some (exit_of U ustr c).
Proof.
  unfold cat_of_uuid. induction cats as [|x cats IH]; cbn [find map]; [discriminate|]. cbn [exit_of e_uuid]. rewrite ustr_eqb.
  destruct (ueqb u (ToRows.c_uuid x)) eqn:E.
  - intros H. injection H as <-. apply ueqb_spec in E. rewrite E, (proj2 (ueqb_spec _ _) eq_refl). reflexivity.
  - assert (E' : ueqb (ToRows.c_uuid x) u = false).
    { destruct (ueqb (ToRows.c_uuid x) u) eqn:E2; [|reflexivity]. apply ueqb_spec in E2. rewrite E2, (proj2 (ueqb_spec _ _) eq_refl) in E. discriminate. }
    rewrite E'. exact IH.
Qed.

Lemma flow_cat_dest nd cats u c : Flow.n_exits nd = map (exit_of U ustr) cats -> cat_of_uuid cats u = Some c ->
  Flow.cat_dest Fl nd (map (cat_of U ustr) cats) (ustr u) = dest_state Fl (option_map ustr (ToRows.c_dest c)).
Proof.
  intros He Hc. unfold Flow.cat_dest. destruct (flow_cat_find cats u c Hc) as [E1 E2]. rewrite E1, He. cbn [cat_of c_exit].
  rewrite E2, (flow_exit_find cats u c Hc). reflexivity.
Qed.

Lemma flow_cat_name cats u c : cat_of_uuid cats u = Some c -> cat_name (map (cat_of U ustr) cats) (ustr u) = name_sexp (ToRows.c_name c).
Proof. intros Hc. unfold cat_name. destruct (flow_cat_find cats u c Hc) as [E1 _]. rewrite E1. reflexivity. Qed.

Lemma ref_cat_dest k N all i x : Flow.n_exits (to_node k N) = ref_exits k all -> nth_error all i = Some x ->
  Flow.cat_dest Rf (to_node k N) (ref_cats k all) (cid k i) = dest_state Rf (dest_id (snd x)).
Proof. intros He Hx. unfold Flow.cat_dest. rewrite (ref_cat_find k all i x Hx), He. cbn [c_exit]. rewrite (ref_exit_find k all i x Hx). reflexivity. Qed.

Lemma name_match cn s : name_ok cn s -> smatch (name_sexp (cname_str cn)) (name_sexp s) = true.
Proof.
  destruct cn as [t|]; cbn [name_ok cname_str].
  - intros ->. apply smatch_refl.
  - intros _. unfold WILDS, name_sexp. rewrite N.eqb_refl. reflexivity.
Qed.

Lemma catd_rel x c : catd_sim x c ->
  Rel (dest_state Fl (option_map ustr (ToRows.c_dest c))) (dest_state Rf (dest_id (snd x)))
  /\ smatch (name_sexp (cname_str (fst x))) (name_sexp (ToRows.c_name c)) = true.
Proof. intros (Hn & Hd & Hk). split; [rewrite Hd; apply dest_rel; exact Hk|apply name_match, Hn]. Qed.

Definition br_rel (bF bR : list (sexp * Flow.state)) : Prop := Forall2 (fun x y => fst x = fst y /\ Rel (snd x) (snd y)) bF bR.

(* ---------------------------------------------------------------- switch routers *)
Section Switch.
Variables (m : node U) (kd : rkind) (r : srouter U) (dd : rdec) (N : rnode) (k : nat).
Hypothesis Hk : n_kind m = NRouter U kd r.
Hypothesis Hdec : rn_dec N = Some dd.
Hypothesis Hs : switch_sim r dd.

Let ndF := node_of U ustr m.
Let ndR := to_node k N.
Let catsF := map (cat_of U ustr) (all_categories r).

Lemma ndF_exits : Flow.n_exits ndF = map (exit_of U ustr) (all_categories r).
Proof. unfold ndF, node_of. rewrite Hk. reflexivity. Qed.
Lemma ndF_router : Flow.n_router ndF = Some (router_of U ustr r).
Proof. unfold ndF, node_of. rewrite Hk. reflexivity. Qed.
Lemma ndR_exits : Flow.n_exits ndR = ref_exits k (all_cats dd).
Proof. apply (to_node_dec k N dd Hdec (ss_random _ _ Hs)). Qed.
Lemma ndR_router : Flow.n_router ndR = Some (ref_router k dd).
Proof. apply (to_node_dec k N dd Hdec (ss_random _ _ Hs)). Qed.

Lemma all_cats_default : nth_error (all_cats dd) (List.length (rd_cats dd)) = Some (rd_default dd).
Proof. unfold all_cats. rewrite (ss_random _ _ Hs). rewrite nth_error_app2, Nat.sub_diag by lia. reflexivity. Qed.

Lemma all_cats_noresp x : rd_noresp dd = Some x -> nth_error (all_cats dd) (S (List.length (rd_cats dd))) = Some x.
Proof.
  intros H. unfold all_cats. rewrite (ss_random _ _ Hs), H. rewrite nth_error_app2 by lia.
  replace (S (List.length (rd_cats dd)) - List.length (rd_cats dd))%nat with 1%nat by lia. reflexivity.
Qed.

Lemma switch_sig : smatch (router_sig (ref_router k dd)) (router_sig (router_of U ustr r)) = true.
Proof.
  unfold ref_router, router_of, router_sig. fold catsF. apply smatch_list.
  constructor; [apply smatch_refl|]. constructor; [rewrite (ss_operand _ _ Hs); apply smatch_refl|]. constructor; [|constructor; [|constructor; [|constructor; [|constructor]]]].
  - (* wait *)
    pose proof (ss_wait _ _ Hs) as Hw. unfold wait_sim in Hw. unfold ref_wait. destruct (wait_of U ustr r) as [| |w cu] eqn:Ew.
    + rewrite Hw. apply smatch_refl.
    + rewrite Hw. apply smatch_refl.
    + destruct Hw as (i & x & cn & E1 & E2 & E3 & E4 & E5). rewrite E1, E2. cbn [wait_sig]. apply smatch_list.
      constructor; [apply smatch_refl|]. constructor; [apply smatch_refl|]. constructor; [|constructor].
      rewrite (ref_cat_name k _ _ x (all_cats_noresp x E2)), E3. unfold catsF. rewrite (flow_cat_name _ _ cn E4). apply (catd_rel x cn E5).
  - rewrite (ss_result _ _ Hs). apply smatch_refl.
  - (* cases *)
    apply smatch_list. rewrite !map_map. apply Forall2_map2. pose proof (ss_cases _ _ Hs) as Hc.
    assert (G : forall i0 l l', Forall2 (case_sim r dd) l l' ->
              Forall2 (fun (a : nat * (str * list (option str) * nat)) (b : rcase U) =>
                 smatch (case_sig (ref_cats k (all_cats dd)) (mkCase (kid k (fst a)) (fst (fst (snd a))) (snd (fst (snd a))) (cid k (snd (snd a)))))
                        (case_sig catsF (case_of U ustr b)) = true) (number_from i0 l) l').
    { intros i0 l l' H. revert i0. induction H as [|a b l l' Hab _ IH]; intros i0; cbn [number_from]; constructor; [|apply IH].
      destruct Hab as (E1 & E2 & x & c & E3 & E4 & E5). unfold case_sig. cbn [fst snd Flow.k_type Flow.k_args Flow.k_cat case_of].
      apply smatch_list. constructor; [rewrite E1; apply smatch_refl|]. constructor; [rewrite E1, E2; apply smatch_refl|]. constructor; [|constructor].
      rewrite (ref_cat_name k _ _ x E3). unfold catsF. rewrite (flow_cat_name _ _ c E4). apply (catd_rel x c E5). }
    apply (G 0%nat _ _ Hc).
  - (* default *)
    rewrite (ref_cat_name k _ _ _ all_cats_default). unfold catsF. rewrite (flow_cat_name _ _ _ (ss_default_find _ _ Hs)).
    apply (catd_rel _ _ (ss_default _ _ Hs)).
Qed.

Lemma switch_branches : br_rel (router_branches Fl ndF (router_of U ustr r)) (router_branches Rf ndR (ref_router k dd)).
Proof.
  unfold ref_router, router_of, router_branches, br_rel. fold catsF. apply Forall2_app; [|apply Forall2_app].
  - rewrite !number_from_map, !map_map. cbn [fst snd Flow.k_cat case_of]. pose proof (ss_cases _ _ Hs) as Hc.
    assert (G : forall i0 j0 l l', Forall2 (case_sim r dd) l l' ->
              Forall2 (fun x y => fst x = fst y /\ Rel (snd x) (snd y))
                (map (fun ik : nat * rcase U => (b_case (fst ik), Flow.cat_dest Fl ndF catsF (ustr (ToRows.k_cat (snd ik))))) (number_from i0 l'))
                (map (fun ik : nat * (nat * (str * list (option str) * nat)) =>
                        (b_case (fst ik), Flow.cat_dest Rf ndR (ref_cats k (all_cats dd)) (cid k (snd (snd (snd ik)))))) (number_from i0 (number_from j0 l)))).
    { intros i0 j0 l l' H. revert i0 j0. induction H as [|a b l l' Hab _ IH]; intros i0 j0; cbn [number_from map]; constructor; [|apply IH].
      cbn [fst snd]. split; [reflexivity|]. destruct Hab as (_ & _ & x & c & E3 & E4 & E5).
      unfold catsF. change ndR with (to_node k N). rewrite (flow_cat_dest ndF _ _ c ndF_exits E4), (ref_cat_dest k N _ _ x ndR_exits E3). apply (catd_rel x c E5). }
    apply (G 0%nat 0%nat _ _ Hc).
  - constructor; [|constructor]. cbn [fst snd]. split; [reflexivity|].
    unfold catsF. change ndR with (to_node k N). rewrite (flow_cat_dest ndF _ _ _ ndF_exits (ss_default_find _ _ Hs)), (ref_cat_dest k N _ _ _ ndR_exits all_cats_default).
    apply (catd_rel _ _ (ss_default _ _ Hs)).
  - pose proof (ss_wait _ _ Hs) as Hw. unfold wait_sim in Hw. unfold ref_wait. destruct (wait_of U ustr r) as [| |w cu] eqn:Ew.
    + rewrite Hw. constructor.
    + rewrite Hw. constructor.
    + destruct Hw as (i & x & cn & E1 & E2 & E3 & E4 & E5). rewrite E1, E2. constructor; [|constructor]. cbn [fst snd]. split; [reflexivity|].
      rewrite E3. unfold catsF. change ndR with (to_node k N). rewrite (flow_cat_dest ndF _ _ cn ndF_exits E4), (ref_cat_dest k N _ _ x ndR_exits (all_cats_noresp x E2)).
      apply (catd_rel x cn E5).
Qed.
End Switch.

(* ---------------------------------------------------------------- random routers *)
Section Random.
Variables (m : node U) (res : str) (cats : list (ToRows.category U)) (dd : rdec) (N : rnode) (k : nat).
Hypothesis Hk : n_kind m = NRandom U res cats.
Hypothesis Hdec : rn_dec N = Some dd.
Hypothesis Hs : random_sim res cats dd.

Let ndF := node_of U ustr m.
Let ndR := to_node k N.

Lemma rnd_F : Flow.n_exits ndF = map (exit_of U ustr) cats /\ Flow.n_router ndF = Some (RRandom (map (cat_of U ustr) cats) (result_of res)).
Proof. unfold ndF, node_of. rewrite Hk. split; reflexivity. Qed.
Lemma rnd_R : Flow.n_exits ndR = ref_exits k (rd_cats dd) /\ Flow.n_router ndR = Some (RRandom (ref_cats k (rd_cats dd)) (rd_result dd)).
Proof. unfold ndR, to_node. rewrite Hdec. cbn. unfold all_cats. rewrite (rs_random _ _ _ Hs). split; reflexivity. Qed.

Lemma random_sig : smatch (router_sig (RRandom (ref_cats k (rd_cats dd)) (rd_result dd)))
                          (router_sig (RRandom (map (cat_of U ustr) cats) (result_of res))) = true.
Proof.
  unfold router_sig. apply smatch_list. constructor; [apply smatch_refl|]. constructor; [rewrite (rs_result _ _ _ Hs); apply smatch_refl|].
  constructor; [|constructor]. apply smatch_list. unfold ref_cats. rewrite !map_map. cbn [Flow.c_name cat_of]. pose proof (rs_cats _ _ _ Hs) as Hc.
  assert (G : forall i0 l l', Forall2 catd_sim l l' ->
            Forall2 (fun a b => smatch a b = true) (map (fun x : nat * (cname * dest) => name_sexp (cname_str (fst (snd x)))) (number_from i0 l))
                    (map (fun x : ToRows.category U => name_sexp (ToRows.c_name x)) l')).
  { intros i0 l l' H. revert i0. induction H as [|a b l l' Hab _ IH]; intros i0; cbn [number_from map]; constructor; [|apply IH].
    cbn [fst snd]. apply (catd_rel a b Hab). }
  apply (G 0%nat _ _ Hc).
Qed.

Lemma random_branches : br_rel (router_branches Fl ndF (RRandom (map (cat_of U ustr) cats) (result_of res)))
                               (router_branches Rf ndR (RRandom (ref_cats k (rd_cats dd)) (rd_result dd))).
Proof.
  unfold router_branches, br_rel. destruct rnd_F as [EF _]. destruct rnd_R as [ER _]. pose proof (rs_cats _ _ _ Hs) as Hc. pose proof (rs_find _ _ _ Hs) as Hfind.
  unfold ref_cats at 2. rewrite !number_from_map, !map_map. cbn [fst snd Flow.c_uuid cat_of].
  assert (G : forall i0 l l', Forall2 catd_sim l l' -> (forall i x, nth_error l i = Some x -> nth_error (rd_cats dd) (i0 + i) = Some x) ->
            (forall c, In c l' -> In c cats) ->
            Forall2 (fun x y => fst x = fst y /\ Rel (snd x) (snd y))
              (map (fun ic : nat * ToRows.category U => (b_bucket (fst ic), Flow.cat_dest Fl ndF (map (cat_of U ustr) cats) (ustr (ToRows.c_uuid (snd ic))))) (number_from i0 l'))
              (map (fun ic : nat * (nat * (cname * dest)) => (b_bucket (fst ic), Flow.cat_dest Rf ndR (ref_cats k (rd_cats dd)) (cid k (fst (snd ic))))) (number_from i0 (number_from i0 l)))).
  { intros i0 l l' H. revert i0. induction H as [|a b l l' Hab _ IH]; intros i0 Hn Hin; cbn [number_from map]; constructor.
    - cbn [fst snd]. split; [reflexivity|]. pose proof (Hn 0%nat a eq_refl) as Ha. rewrite Nat.add_0_r in Ha.
      change ndR with (to_node k N). rewrite (flow_cat_dest ndF cats _ b EF (Hfind b (Hin b (or_introl eq_refl)))), (ref_cat_dest k N _ _ a ER Ha). apply (catd_rel a b Hab).
    - apply IH; [intros i x Hx; rewrite <- (Hn (S i) x Hx); f_equal; lia|intros c Hc'; apply Hin; right; exact Hc']. }
  apply (G 0%nat _ _ Hc); auto.
Qed.
End Random.

(* ---------------------------------------------------------------- past the actions *)
Lemma tail_rel u m i N : nth_error ns i = Some m -> nth_error nodesR (kap u) = Some N -> node_sim m N ->
  (exists a b, lts_of_flow Fl (i, List.length (ToRows.n_actions m)) = KTau a /\ lts_of_flow Rf (kap u, List.length (ToRows.n_actions m)) = KTau b /\ Rel a b)
  \/ (exists sg bs sg' bs', lts_of_flow Fl (i, List.length (ToRows.n_actions m)) = KDec sg bs
                            /\ lts_of_flow Rf (kap u, List.length (ToRows.n_actions m)) = KDec sg' bs'
                            /\ smatch sg' sg = true /\ br_rel bs bs').
Proof.
  intros Hi HN Hs. pose proof (node_sim_actions m N Hs) as Ha. pose proof (tail_F i m Hi) as EF. pose proof (tail_R u m N HN Ha) as ER.
  destruct Hs as [d Hk _ Hdec Hcont Hd|kd r dd Hk _ Hdec Hss|res cats dd Hk _ Hdec Hrs].
  - left. destruct (to_node_basic (kap u) N Hdec) as [E1 E2]. rewrite E1, E2 in ER.
    unfold node_of in EF. rewrite Hk in EF. cbn [Flow.n_router Flow.n_exits e_dest] in EF. cbn [e_dest] in ER.
    eexists. eexists. split; [exact EF|]. split; [exact ER|]. rewrite Hcont. apply (dest_rel d Hd).
  - right. rewrite (ndF_router m kd r Hk) in EF. rewrite (ndR_router r dd N (kap u) Hdec Hss) in ER.
    eexists. eexists. eexists. eexists. split; [exact EF|]. split; [exact ER|]. split; [apply (switch_sig r dd (kap u) Hss)|].
    apply (switch_branches m kd r dd N (kap u) Hk Hdec Hss).
  - right. destruct (rnd_F m res cats Hk) as [_ E1]. destruct (rnd_R res cats dd N (kap u) Hdec Hrs) as [_ E2]. rewrite E1 in EF. rewrite E2 in ER.
    eexists. eexists. eexists. eexists. split; [exact EF|]. split; [exact ER|]. split; [apply (random_sig res cats dd (kap u) Hrs)|].
    apply (random_branches m res cats dd N (kap u) Hk Hdec Hrs).
Qed.

Lemma Forall2_impl {A B} (P Q : A -> B -> Prop) l l' : (forall a b, P a b -> Q a b) -> Forall2 P l l' -> Forall2 Q l l'.
Proof. intros H. induction 1; constructor; auto. Qed.

Lemma fwd_sim a b : Rel a b -> wsim_at sexp Flow.state Flow.state (lts_of_flow Fl) (lts_of_flow Rf) lmF Rel a b.
Proof.
  intros H. unfold wsim_at. destruct H as [u m i pc Hin Hm Hidx Hi Hpc|].
  - destruct (Hnode u m Hin Hm) as (N & HN & Hs). pose proof (node_sim_actions m N Hs) as Ha.
    destruct (nth_error (ToRows.n_actions m) pc) as [a|] eqn:Ea.
    + destruct (act_step u m i pc a N Hi HN Ha Ea) as [E1 E2]. rewrite E1. exists (kap u, pc), (act_payload U a), (kap u, S pc).
      split; [apply taus_refl|]. split; [exact E2|]. split; [apply smatch_refl|]. apply (Rel_node u m i (S pc) Hin Hm Hidx Hi).
      apply Nat.le_succ_l. apply nth_error_Some. congruence.
    + assert (Epc : pc = List.length (ToRows.n_actions m)) by (apply nth_error_None in Ea; lia). subst pc.
      destruct (tail_rel u m i N Hi HN Hs) as [(x & y & E1 & E2 & Hr)|(sg & bs & sg' & bs' & E1 & E2 & Hsg & Hbr)]; rewrite E1.
      * exists y. split; [eapply taus_step; [exact E2|apply taus_refl]|exact Hr].
      * exists (kap u, List.length (ToRows.n_actions m)), sg', bs'. split; [apply taus_refl|]. split; [exact E2|]. split; [exact Hsg|].
        eapply Forall2_impl; [|exact Hbr]. intros x y [E Hr]. cbv beta. split; [unfold lmF; rewrite E; apply smatch_refl|exact Hr].
  - rewrite lts_end. exists (end_state Rf). split; [apply taus_refl|apply lts_end].
Qed.

Lemma Forall2_flip {A B} (P : A -> B -> Prop) l l' : Forall2 P l l' -> Forall2 (fun b a => P a b) l' l.
Proof. induction 1; constructor; auto. Qed.

Lemma bwd_sim b a : Rel a b -> wsim_at sexp Flow.state Flow.state (lts_of_flow Rf) (lts_of_flow Fl) lmR (fun b' a' => Rel a' b') b a.
Proof.
  intros H. unfold wsim_at. destruct H as [u m i pc Hin Hm Hidx Hi Hpc|].
  - destruct (Hnode u m Hin Hm) as (N & HN & Hs). pose proof (node_sim_actions m N Hs) as Ha.
    destruct (nth_error (ToRows.n_actions m) pc) as [a|] eqn:Ea.
    + destruct (act_step u m i pc a N Hi HN Ha Ea) as [E1 E2]. rewrite E2. exists (i, pc), (act_payload U a), (i, S pc).
      split; [apply taus_refl|]. split; [exact E1|]. split; [apply smatch_refl|]. apply (Rel_node u m i (S pc) Hin Hm Hidx Hi).
      apply Nat.le_succ_l. apply nth_error_Some. congruence.
    + assert (Epc : pc = List.length (ToRows.n_actions m)) by (apply nth_error_None in Ea; lia). subst pc.
      destruct (tail_rel u m i N Hi HN Hs) as [(x & y & E1 & E2 & Hr)|(sg & bs & sg' & bs' & E1 & E2 & Hsg & Hbr)]; rewrite E2.
      * exists x. split; [eapply taus_step; [exact E1|apply taus_refl]|exact Hr].
      * exists (i, List.length (ToRows.n_actions m)), sg, bs. split; [apply taus_refl|]. split; [exact E1|]. split; [exact Hsg|].
        apply Forall2_flip in Hbr. eapply Forall2_impl; [|exact Hbr]. intros x y [E Hr]. split; [unfold lmR; rewrite E; apply smatch_refl|exact Hr].
  - rewrite lts_end. exists (end_state Fl). split; [apply taus_refl|apply lts_end].
Qed.

Theorem rel_traces a b : Rel a b ->
  (forall t, exec sexp (lts_of_flow Fl) a t -> exists t', exec sexp (lts_of_flow Rf) b t' /\ Forall2 (ematch sexp lmF) t t')
  /\ (forall t, exec sexp (lts_of_flow Rf) b t -> exists t', exec sexp (lts_of_flow Fl) a t' /\ Forall2 (ematch sexp lmR) t t').
Proof.
  intros H. split; intros t Ht.
  - eapply (wsim_traces sexp Flow.state Flow.state (lts_of_flow Fl) (lts_of_flow Rf) lmF Rel fwd_sim); eauto.
  - eapply (wsim_traces sexp Flow.state Flow.state (lts_of_flow Rf) (lts_of_flow Fl) lmR (fun b' a' => Rel a' b') bwd_sim); eauto.
Qed.

(* the initial states are related when the first node of the flow is the first node of the reference *)
Lemma rel_init n0 rest : ns = n0 :: rest -> In (ToRows.n_uuid n0) done -> kap (ToRows.n_uuid n0) = 0%nat -> Rel init_state init_state.
Proof.
  intros E Hin Hk. unfold init_state.
  assert (Hm : fnode (ToRows.n_uuid n0) = Some n0).
  { rewrite E. cbn [find_node]. rewrite (proj2 (ueqb_spec _ _) eq_refl). reflexivity. }
  assert (H : Rel (0%nat, 0%nat) (kap (ToRows.n_uuid n0), 0%nat)).
  { apply (Rel_node (ToRows.n_uuid n0) n0 0 0 Hin Hm); [|rewrite E; reflexivity|lia].
    unfold node_index, Fl, flow_of. rewrite E. cbn [f_nodes map find_idx]. rewrite node_of_uuid, str_eqb_refl. reflexivity. }
  rewrite Hk in H. exact H.
Qed.

End Sim.
