(* C04 — the family of flows of to_rows_means_flow: [exportable] (decidable), definitions only.

   Node by node: what the sheet format can say about a node of that kind (a test has at most one argument, a
   wait_for_response row without edges is on @input.text, start_new_flow / call_webhook / transfer_airtime rows stand
   for the standard routers, ...), minus what the reference reading cannot tell apart (two categories of one router with
   one name, two equal tests in one router).  For the whole flow: distinct node uuids, and the one DYNAMIC condition,
   which is finding case-order-follows-row-order (open): in the exported sheet the edges that carry the cases of a router
   (the buckets of a random router) occur in the order of the cases. *)
From Coq Require Import List NArith Bool String Ascii Arith.
From RPFT Require Import Base.Sexp Base.PyStr Base.SexpEq Base.Result Gen.Tables Flow.Lts Flow.Flow Flow.RowSem Exp.ToRows Exp.Means.
Import ListNotations.
Local Open Scope N_scope.

(* uuids as naturals (wire, examples): "u<decimal>" *)
Definition ustrN (n : N) : str := 117 :: dec_of_N n.

Definition is_nil {T} (l : list T) : bool := match l with [] => true | _ => false end.
Fixpoint nodupb {T} (eqb : T -> T -> bool) (l : list T) : bool :=
  match l with [] => true | x :: r => negb (existsb (eqb x) r) && nodupb eqb r end.
Fixpoint strs_eqb (a b : list str) : bool :=
  match a, b with
  | [], [] => true
  | x :: a', y :: b' => str_eqb x y && strs_eqb a' b'
  | _, _ => false
  end.
Definition osexp_eqb (a b : option sexp) : bool :=
  match a, b with Some x, Some y => sexp_eqb x y | None, None => true | _, _ => false end.
Definition is_no_response (v : str) : bool := str_eqb (lower v) s_no_response.

Section Family.
Variable U : Type.
Variable ueqb : U -> U -> bool.

(* ---------------------------------------------------------------- actions *)
(* the payload the reference reading gives the exported row is the payload of the action *)
Definition action_ok (a : action U) : bool :=
  match action_fields a with
  | Ok (tp, p) => osexp_eqb (row_payload U tp p) (Some (act_payload U a))
  | Err _ => false
  end.
(* actions of a node without a router *)
Definition plain_action (a : action U) : bool :=
  match a with
  | ActEnterFlow _ _ _ | ActWebhook _ _ _ _ _ _ | ActAirtime _ _ _ | ActOther _ _ => false
  | _ => true
  end.

(* ---------------------------------------------------------------- routers *)
Definition pv_eqb (a b : pv U) : bool :=
  match a, b with
  | PU u, PU v => ueqb u v
  | PV (VS s), PV (VS t) => str_eqb s t
  | _, _ => false
  end.
Definition cond_eqb (a b : cond U) : bool :=
  pv_eqb (cd_value a) (cd_value b) && str_eqb (cd_variable a) (cd_variable b)
  && str_eqb (cd_type a) (cd_type b) && str_eqb (cd_name a) (cd_name b).

Definition case_sig_eqb (k k' : rcase U) : bool := str_eqb (k_type k) (k_type k') && strs_eqb (k_args k) (k_args k').
Definition cat_in (cats : list (category U)) (u : U) : bool := existsb (fun c => ueqb u (c_uuid c)) cats.

(* a case of a router that does not split by group membership *)
Definition value_case_ok (k : rcase U) : bool :=
  match k_group k with Some _ => false | None => true end
  && negb (str_eqb (k_type k) has_group_type) && nonempty (k_type k)
  && (if nab (k_type k) then is_nil (k_args k)
      else match k_args k with [v] => negb (is_no_response v) | _ => false end).
(* a case of a group split: has_group [uuid, name] *)
Definition group_case_ok (k : rcase U) : bool :=
  str_eqb (k_type k) has_group_type
  && match k_group k with Some _ => true | None => false end
  && match k_args k with [g] => nonempty g && negb (is_no_response g) | _ => false end.

Definition wait_ok (r : srouter U) : bool :=
  match sw_wait r, sw_noresp r with
  | None, None => true
  | Some w, None => w =? 0
  | Some w, Some c => negb (w =? 0) && str_eqb (c_name c) s_NoResponse
  | None, Some _ => false
  end.

Definition switch_ok (r : srouter U) : bool :=
  nonempty (sw_operand r) && negb (str_eqb (sw_operand r) child_status_operand)
  && wait_ok r
  && nodupb ueqb (map (@c_uuid U) (all_categories r))
  && forallb (fun k => cat_in (sw_cats r) (k_cat k)) (sw_cases r)
  && nodupb case_sig_eqb (sw_cases r)
  && (if str_eqb (sw_operand r) groups_operand
      then forallb group_case_ok (sw_cases r) && match sw_wait r with None => true | Some _ => false end
      else forallb value_case_ok (sw_cases r) && nodupb str_eqb (map (@c_name U) (sw_cats r))
           && match sw_wait r, sw_cases r with Some _, [] => str_eqb (sw_operand r) s_input_text | _, _ => true end).

Definition random_ok (cats : list (category U)) : bool :=
  forallb (fun c => nonempty (c_name c)) cats && nodupb str_eqb (map (@c_name U) cats) && nodupb ueqb (map (@c_uuid U) cats).

(* the routers behind start_new_flow / call_webhook / transfer_airtime rows *)
Definition plain_router (r : srouter U) : bool :=
  match sw_wait r, sw_noresp r, sw_result r with None, None, [] => true | _, _, _ => false end.
Definition one_case (k : rcase U) (tp arg : str) (cat : U) : bool :=
  str_eqb (k_type k) tp && strs_eqb (k_args k) [arg] && ueqb (k_cat k) cat
  && match k_group k with None => true | Some _ => false end.

Definition enter_ok (r : srouter U) : bool :=
  plain_router r && str_eqb (sw_operand r) child_status_operand
  && match sw_cats r, sw_cases r with
     | [c], [k1; k2] =>
       str_eqb (c_name c) s_Complete && str_eqb (c_name (sw_default r)) s_Expired
       && negb (ueqb (c_uuid c) (c_uuid (sw_default r)))
       && one_case k1 s_has_only_text s_completed (c_uuid c) && one_case k2 s_has_only_text s_expired (c_uuid (sw_default r))
     | _, _ => false
     end.
Definition outcome_ok (r : srouter U) (operand test : str) : bool :=
  plain_router r && str_eqb (sw_operand r) operand
  && match sw_cats r, sw_cases r with
     | [c], [k] =>
       str_eqb (c_name c) s_Success && str_eqb (c_name (sw_default r)) s_Failure
       && negb (ueqb (c_uuid c) (c_uuid (sw_default r)))
       && one_case k test s_Success (c_uuid c)
     | _, _ => false
     end.

Definition node_ok (n : node U) : bool :=
  match n_kind n with
  | NBasic _ _ => negb (is_nil (n_actions n)) && forallb plain_action (n_actions n) && forallb action_ok (n_actions n)
  | NRouter _ KSwitch r => is_nil (n_actions n) && switch_ok r
  | NRouter _ KEnterFlow r =>
    match n_actions n with [ActEnterFlow _ _ _ as a] => action_ok a && enter_ok r | _ => false end
  | NRouter _ KWebhook r =>
    match n_actions n with
    | [ActWebhook _ _ _ _ _ result as a] =>
      action_ok a && match field_key_chk result with
                     | Some key => outcome_ok r (lit "@results." ++ key ++ lit ".category") s_has_only_text
                     | None => false
                     end
    | _ => false
    end
  | NRouter _ KAirtime r =>
    match n_actions n with
    | [ActAirtime _ _ result as a] =>
      action_ok a && match field_key_chk result with
                     | Some key => outcome_ok r (lit "@results." ++ key) s_has_category
                     | None => false
                     end
    | _ => false
    end
  | NRandom _ _ cats => is_nil (n_actions n) && random_ok cats
  end.

(* ---------------------------------------------------------------- the order of the edges of one router *)
(* the conditions whose order matters to the reference reading: the cases of a switch router (not its default,
   not its No Response edge), the buckets of a random router *)
Definition cond_is_blank (c : cond U) : bool := ToRows.cond_blank c.
Definition sens (n : node U) (c : cond U) : bool :=
  match n_kind n with
  | NRouter _ KSwitch _ =>
    negb (cond_is_blank c) && negb (match cd_value c with PV (VS v) => is_no_response v | _ => false end)
  | NRandom _ _ _ => true
  | _ => false
  end.

Definition conds_from (rows : list (row U (tid U))) (t : tid U) : list (cond U) :=
  map (@ToRows.e_cond U (tid U)) (filter (fun e => tid_eqb ueqb (ToRows.e_from e) t) (flat_map (@ToRows.r_edges U (tid U)) rows)).

Fixpoint conds_eqb (a b : list (cond U)) : bool :=
  match a, b with
  | [], [] => true
  | x :: a', y :: b' => cond_eqb x y && conds_eqb a' b'
  | _, _ => false
  end.

Definition exported (rows : list (row U (tid U))) (t : tid U) : bool := existsb (fun r => tid_eqb ueqb (ToRows.r_id r) t) rows.

Definition node_order_ok (rows : list (row U (tid U))) (n : node U) : bool :=
  match short_name n with
  | Ok sn =>
    let last := last_row_id n sn in
    if exported rows last then
      match exit_edge_pairs ueqb n last with
      | Ok prs => conds_eqb (filter (sens n) (conds_from rows last))
                            (filter (sens n) (map (fun p => ToRows.e_cond (snd p)) prs))
      | Err _ => true
      end
    else true
  | Err _ => true
  end.

Definition order_ok (ns : list (node U)) : bool :=
  match to_rows_tmp ueqb ns with
  | Ok rows => forallb (node_order_ok rows) ns
  | Err _ => true
  end.

Definition exportable (ns : list (node U)) : bool :=
  nodupb ueqb (map (@n_uuid U) ns) && forallb node_ok ns && order_ok ns.

(* with --strip_uuids the rows of a node cannot be merged through the node id: one row per node *)
Definition single_rows (ns : list (node U)) : bool := forallb (fun n => Nat.leb (List.length (n_actions n)) 1) ns.

(* stage 1: flows of nodes without routers (chains, joins, cycles) *)
Definition basic_only (ns : list (node U)) : bool :=
  forallb (fun n => match n_kind n with NBasic _ _ => true | _ => false end) ns.

(* diagnostics: 0 = exportable, 1 = node uuids, 2 = order, 10.. = why the first node that is not ok is not *)
Definition switch_why (r : srouter U) : N :=
  if negb (nonempty (sw_operand r) && negb (str_eqb (sw_operand r) child_status_operand)) then 20
  else if negb (wait_ok r) then 21
  else if negb (nodupb ueqb (map (@c_uuid U) (all_categories r))) then 22
  else if negb (forallb (fun k => cat_in (sw_cats r) (k_cat k)) (sw_cases r)) then 23
  else if negb (nodupb case_sig_eqb (sw_cases r)) then 24
  else if str_eqb (sw_operand r) groups_operand then
    (if negb (forallb group_case_ok (sw_cases r)) then 25 else 26)
  else if negb (forallb value_case_ok (sw_cases r)) then 27
  else if negb (nodupb str_eqb (map (@c_name U) (sw_cats r))) then 28
  else 29.
Definition node_why (n : node U) : N :=
  match n_kind n with
  | NBasic _ _ => if is_nil (n_actions n) then 10 else if negb (forallb plain_action (n_actions n)) then 16 else 17
  | NRouter _ KSwitch r => if negb (is_nil (n_actions n)) then 11 else switch_why r
  | NRouter _ KEnterFlow _ => 12
  | NRouter _ KWebhook _ => 13
  | NRouter _ KAirtime _ => 14
  | NRandom _ _ _ => 15
  end.
Definition exportable_why (ns : list (node U)) : N :=
  if negb (nodupb ueqb (map (@n_uuid U) ns)) then 1
  else match find (fun n => negb (node_ok n)) ns with
       | Some n => node_why n
       | None => if order_ok ns then 0 else 2
       end.
End Family.
