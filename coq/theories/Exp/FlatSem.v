(* C04 — the reference reading (Flow/RowSem.v) specialised to FLAT sheets: node rows (possibly merged through node
   names), go_to rows and loose_exit rows, every edge naming its origin.  This is the shape of every exported sheet.
   Over an abstract type of row ids [I]: the exporter's temporary ids (Exp/ToRows.v: tid) and the final strings are two
   instances; FlatSemFacts.v proves that renaming ids injectively does not change the result and that on strings the
   result is the one of RowSem.run_rows.  Definitions only. *)
From Coq Require Import List NArith Bool Arith.
From RPFT Require Import Base.Sexp Base.PyStr Base.SexpEq Flow.Lts Flow.Flow Flow.RowSem.
Import ListNotations.

Section Flat.
Variable I : Type.
Variable ieqb : I -> I -> bool.

Inductive ffrom := FFStart | FFRow (i : I).
Record fedge := mkFEdge { fe_from : ffrom; fe_cond : econd }.
Inductive fkind :=
| FKNode (cls : eclass) (acts : list sexp) (dec0 : option rdec)
| FKGoto (tgts : list I)
| FKLoose.
Record frow := mkFRow { fr_kind : fkind; fr_id : I; fr_name : str; fr_edges : list fedge }.

(* nodes; row id -> (node, class of the row that made the node); node name -> node *)
Record fstate := mkFS { fs_nodes : list rnode; fs_rowmap : list (I * (nat * eclass)); fs_names : list (str * nat) }.
Definition fs0 : fstate := mkFS [] [] [].

Fixpoint flook {X} (m : list (I * X)) (i : I) : option X :=
  match m with
  | [] => None
  | (j, x) :: r => if ieqb j i then Some x else flook r i
  end.

Section Run.
Variable no_args : str -> bool.

Definition fapply (s : fstate) (e : fedge) (tgt : dest) : option fstate :=
  match fe_from e with
  | FFStart => Some s
  | FFRow i =>
    match flook (fs_rowmap s) i with
    | None => None
    | Some (k, cls) =>
      match nth_error (fs_nodes s) k with
      | None => None
      | Some n =>
        match apply_row_edge no_args n cls (fe_cond e) tgt with
        | Some n' => Some (mkFS (update (fs_nodes s) k n') (fs_rowmap s) (fs_names s))
        | None => None
        end
      end
    end
  end.

Definition fapply_all (s : fstate) (es : list fedge) (tgt : dest) : option fstate :=
  fold_left (fun os e => match os with Some s' => fapply s' e tgt | None => None end) es (Some s).

(* a node row that makes a new node *)
Definition fstep_new (s : fstate) (r : frow) (cls : eclass) (acts : list sexp) (dec0 : option rdec) : option fstate :=
  let k := length (fs_nodes s) in
  let s1 := mkFS (fs_nodes s ++ [mkRNode acts dec0 DNone]) (fs_rowmap s) (fs_names s) in
  match fapply_all s1 (fr_edges r) (DNode k) with
  | None => None
  | Some s2 =>
    Some (mkFS (fs_nodes s2) ((fr_id r, (k, cls)) :: fs_rowmap s2)
               (match fr_name r with [] => fs_names s2 | _ => (fr_name r, k) :: fs_names s2 end))
  end.

(* a node row merged into node k through its node name *)
Definition fstep_merge (s : fstate) (r : frow) (k : nat) (acts : list sexp) : option fstate :=
  match fr_edges r with
  | [e] =>
    if negb (cond_blank (fe_cond e)) then None
    else match fe_from e with
         | FFRow i =>
           match flook (fs_rowmap s) i, nth_error (fs_nodes s) k with
           | Some (k', cls'), Some n =>
             if Nat.eqb k k'
             then Some (mkFS (update (fs_nodes s) k (mkRNode (rn_actions n ++ acts) (rn_dec n) (rn_cont n)))
                             ((fr_id r, (k', cls')) :: fs_rowmap s) (fs_names s))
             else None
           | _, _ => None
           end
         | FFStart => None
         end
  | _ => None
  end.

Definition fstep_goto (s : fstate) (r : frow) (tgts : list I) : option fstate :=
  let n := length (fr_edges r) in
  let tgts' := match tgts with [t] => repeat t n | _ => tgts end in
  if negb (Nat.eqb (length tgts') n) then None
  else fold_left (fun os et =>
                    match os with
                    | None => None
                    | Some s' =>
                      match flook (fs_rowmap s') (snd et) with
                      | Some (k, _) => fapply s' (fst et) (DNode k)
                      | None => None
                      end
                    end) (combine (fr_edges r) tgts') (Some s).

(* (only the actions of an ACTION row are merged into a node of the same name: RowSem.merge_actions) *)
Definition merges (s : fstate) (r : frow) (cls : eclass) (acts : list sexp) : option nat :=
  match fr_name r, merge_actions cls acts with
  | _ :: _, _ :: _ => alookup (fs_names s) (fr_name r)
  | _, _ => None
  end.

Definition fstep (s : fstate) (r : frow) : option fstate :=
  match fr_kind r with
  | FKLoose => fapply_all s (fr_edges r) DNone
  | FKGoto tgts => fstep_goto s r tgts
  | FKNode cls acts dec0 =>
    match merges s r cls acts with
    | Some k => fstep_merge s r k acts
    | None => fstep_new s r cls acts dec0
    end
  end.

Definition frun (rows : list frow) (s : fstate) : option fstate :=
  fold_left (fun os r => match os with Some s' => fstep s' r | None => None end) rows (Some s).

Definition fsem (rows : list frow) : option (list rnode) :=
  match frun rows fs0 with Some s => Some (fs_nodes s) | None => None end.
End Run.
End Flat.

Arguments FFStart {I}. Arguments FFRow {I}. Arguments mkFEdge {I}. Arguments fe_from {I}. Arguments fe_cond {I}.
Arguments FKNode {I}. Arguments FKGoto {I}. Arguments FKLoose {I}. Arguments mkFRow {I}.
Arguments fr_kind {I}. Arguments fr_id {I}. Arguments fr_name {I}. Arguments fr_edges {I}.
Arguments mkFS {I}. Arguments fs_nodes {I}. Arguments fs_rowmap {I}. Arguments fs_names {I}. Arguments fs0 {I}.
Arguments flook {I} ieqb {X}. Arguments fapply {I}. Arguments fapply_all {I}. Arguments fstep {I}.
Arguments fstep_new {I}. Arguments fstep_merge {I}. Arguments fstep_goto {I}. Arguments merges {I}. Arguments frun {I}. Arguments fsem {I}.

(* renaming of row ids *)
Definition ffrom_map {I J} (f : I -> J) (x : @ffrom I) : @ffrom J := match x with FFStart => FFStart | FFRow i => FFRow (f i) end.
Definition fedge_map {I J} (f : I -> J) (e : @fedge I) : @fedge J := mkFEdge (ffrom_map f (fe_from e)) (fe_cond e).
Definition fkind_map {I J} (f : I -> J) (k : @fkind I) : @fkind J :=
  match k with FKNode c a d => FKNode c a d | FKGoto t => FKGoto (map f t) | FKLoose => FKLoose end.
Definition frow_map {I J} (f : I -> J) (r : @frow I) : @frow J :=
  mkFRow (fkind_map f (fr_kind r)) (f (fr_id r)) (fr_name r) (map (fedge_map f) (fr_edges r)).

(* a flat row over strings as a row of RowSem *)
Definition s_start_id : str := [115; 116; 97; 114; 116]%N.
Definition to_efrom (x : @ffrom str) : efrom := match x with FFStart => FStart | FFRow i => FRow i end.
Definition to_redge (e : @fedge str) : redge := mkEdge (to_efrom (fe_from e)) (fe_cond e).
Definition to_rtype (k : @fkind str) : rtype :=
  match k with FKNode c a d => TNode c a d | FKGoto t => TGoto t | FKLoose => TLoose end.
Definition to_rsrow (r : @frow str) : row := mkRow (to_rtype (fr_kind r)) (fr_id r) (fr_name r) (map to_redge (fr_edges r)).
