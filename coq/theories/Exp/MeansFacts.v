(* C04 — "the exported rows MEAN the flow": assembly.
   node_good m   what has to be known of a node: how the reference reads its rows, and that the fold of the edges that
                 leave it (one per kept exit pair, in the order of the pairs) makes a reference node that reads like m.
   means_core    every node of the flow good + the edges whose order matters are in order in the sheet (MeansFamily.order_ok)
                 ==> the flat reading of the temporary rows succeeds and its flow has the traces of flow_of.
   means_rows    the same for the reference meaning (RowSem.rowsem) of the exported rows (string ids). *)
From Coq Require Import String.
From Coq Require Import List NArith Bool Arith Lia Permutation.
From RPFT Require Import Base.Sexp Base.PyStr Base.PyStrFacts Base.SexpEq Base.Result Gen.Tables Flow.Lts Flow.Flow Flow.FlowFacts Flow.RowSem
     Exp.FlatSem Exp.FlatSemFacts Exp.ToRows Exp.RowIdFacts Exp.Means Exp.MeansFamily Exp.MeansDfs Exp.MeansDfsFacts
     Exp.MeansRun Exp.MeansOrder Exp.MeansSim Exp.MeansAbs.
Import ListNotations.

Opaque no_args_tests short_types strip_excluded frm_field_headers.
Opaque loose_exit_rows pairs_follow_cases has_group_case_by_name split_rows_carry_save_name group_split_without_cases_exports.

Section Main.
Variable U : Type.
Variable ueqb : U -> U -> bool.
Hypothesis ueqb_spec : forall a b, ueqb a b = true <-> a = b.
Variable ustr : U -> str.
Hypothesis ustr_inj : forall a b, ustr a = ustr b -> a = b.
Hypothesis ustr_ne : forall a, ustr a <> [].
Variable strip : bool.

Notation tidU := (tid U).
Notation trow := (row U (tid U)).
Notation ev := (edge U (tid U) * option (tid U))%type.
Notation teqb := (tid_eqb ueqb).

(* ---------------------------------------------------------------- what has to be known of a node *)
Notation lev := (cond U * dest)%type.
Definition fL (cls : eclass) (N : rnode) (x : lev) : option rnode := apply_row_edge nab N cls (abs_cond U ustr (fst x)) (snd x).
Definition Xabs (kp : U -> nat) (m : node U) (prs : pairs U) : list lev :=
  map (fun p => (e_cond (snd p), dest_of U kp (fst p))) (filter (kept U m) prs).

Definition node_good (m : node U) : Prop :=
  runnable U strip m /\
  forall sn prs, short_name m = Ok sn -> exit_edge_pairs ueqb m (last_row_id m sn) = Ok prs ->
    (forall p, In p prs -> sens U m (e_cond (snd p)) = true -> kept U m p = true)
    /\ NoDup (filter (sens U m) (map (fun p => e_cond (snd p)) prs))
    /\ forall (kp : U -> nat) (dn : list U), (forall d e, In (Some d, e) prs -> In d dn) ->
         exists Inv : rnode -> Prop,
           Inv (init_node U m)
           /\ (forall a y b, In y (Xabs kp m prs) -> Inv a -> fL (cls_of U m) a y = Some b -> Inv b)
           /\ (forall x y, In x (Xabs kp m prs) -> In y (Xabs kp m prs) -> sens U m (fst x) = false ->
                 forall a, Inv a -> step2 _ _ (fL (cls_of U m)) a x y = step2 _ _ (fL (cls_of U m)) a y x)
           /\ exists N, fold_opt (fL (cls_of U m)) (Xabs kp m prs) (init_node U m) = Some N /\ node_sim U ueqb ustr dn kp m N.

(* ---------------------------------------------------------------- small facts *)
Lemma pv_eqb_eq (a b : pv U) : pv_eqb U ueqb a b = true -> a = b.
Proof.
  destruct a as [u|[s|l|l]], b as [v|[t|l'|l']]; cbn [pv_eqb]; try discriminate.
  - intros H. apply ueqb_spec in H. congruence.
  - intros H. apply str_eqb_eq in H. congruence.
Qed.

Lemma cond_eqb_eq (a b : cond U) : cond_eqb U ueqb a b = true -> a = b.
Proof.
  unfold cond_eqb. intros H. apply andb_true_iff in H as [H H4]. apply andb_true_iff in H as [H H3]. apply andb_true_iff in H as [H1 H2].
  apply pv_eqb_eq in H1. apply str_eqb_eq in H2, H3, H4. destruct a, b. cbn in *. congruence.
Qed.

Lemma conds_eqb_eq (a b : list (cond U)) : conds_eqb U ueqb a b = true -> a = b.
Proof.
  revert b. induction a as [|x a IH]; intros [|y b]; cbn [conds_eqb]; try discriminate; [reflexivity|].
  intros H. apply andb_true_iff in H as [H1 H2]. apply cond_eqb_eq in H1. rewrite (IH b H2), H1. reflexivity.
Qed.

Lemma filter_map_comm {S T} (g : S -> T) (p : T -> bool) (l : list S) : filter p (map g l) = map g (filter (fun x => p (g x)) l).
Proof. induction l as [|x l IH]; [reflexivity|]. cbn [map filter]. destruct (p (g x)); cbn [map]; rewrite IH; reflexivity. Qed.

Lemma fold_opt_map {A S T} (f : A -> T -> option A) (g : S -> T) (l : list S) (a : A) :
  fold_opt f (map g l) a = fold_opt (fun n x => f n (g x)) l a.
Proof.
  unfold fold_opt. generalize (Some a). induction l as [|x l IH]; intros o; [reflexivity|]. cbn [map fold_left]. apply IH.
Qed.

Lemma fold_opt_ext {A X} (f g : A -> X -> option A) (l : list X) (a : A) :
  (forall n x, In x l -> f n x = g n x) -> fold_opt f l a = fold_opt g l a.
Proof.
  unfold fold_opt. generalize (Some a). induction l as [|x l IH]; intros o H; [reflexivity|]. cbn [fold_left].
  rewrite IH by (intros n y Hy; apply H; right; exact Hy). f_equal. destruct o; [apply H; left; reflexivity|reflexivity].
Qed.

Lemma events_fst (rows : list trow) : map fst (events U rows) = flat_map (@r_edges U tidU) rows.
Proof.
  unfold events. induction rows as [|r rows IH]; [reflexivity|]. cbn [flat_map]. rewrite map_app, IH. f_equal.
  unfold row_events. rewrite map_map. cbn [fst]. apply map_id.
Qed.

Lemma find_node_in_gen (l : list (node U)) u m : find_node ueqb l u = Some m -> In m l.
Proof.
  induction l as [|n l IH]; cbn [find_node]; [discriminate|]. destruct (ueqb (n_uuid n) u).
  - intros H. injection H as <-. left. reflexivity.
  - intros H. right. apply IH, H.
Qed.

(* ---------------------------------------------------------------- the core *)
Section Core.
Variables (ns : list (node U)) (n0 : node U) (rest : list (node U)) (tmp : list trow) (done : list U).
Hypothesis Hns : ns = n0 :: rest.
Hypothesis Htmp : to_rows_tmp ueqb ns = Ok tmp.
Hypothesis Hf : sheet_facts U ueqb ns n0 tmp done.
Hypothesis Hgood : forall m, In m ns -> node_good m.
Hypothesis Hord : order_ok U ueqb ns = true.

Notation fnode := (find_node ueqb ns).
Notation kp := (kap U ueqb ns tmp).
Notation lastid := (@last_row_id U).
Notation pair := (option U * edge U (tid U))%type.

Lemma fnode_in u m : fnode u = Some m -> In m ns.
Proof. apply find_node_in_gen. Qed.

Lemma done_node u : In u done -> exists m sn, fnode u = Some m /\ short_name m = Ok sn /\ n_uuid m = u
                                         /\ incl (node_row_ids U m sn) (map (@r_id U tidU) tmp).
Proof.
  intros H. destruct (sf_complete _ _ _ _ _ _ Hf u H) as (m & sn & prs & A & B & _ & C). exists m, sn. repeat split; try assumption.
  apply (find_node_uuid U ueqb ueqb_spec _ _ _ A).
Qed.

Lemma done_first u : In u done -> In u (firsts U ueqb ns tmp).
Proof.
  intros H. destruct (done_node u H) as (m & sn & A & B & C & D).
  assert (Hin : In (TNode u sn) (map (@r_id U tidU) tmp)) by (apply D; rewrite <- C; apply first_in_node_row_ids).
  apply in_map_iff in Hin as (r & Er & Hr). unfold firsts. apply in_flat_map. exists r. split; [exact Hr|].
  unfold first_of. rewrite Er, A, B, str_eqb_refl. left. reflexivity.
Qed.

Lemma first_done u : In u (firsts U ueqb ns tmp) -> In u done.
Proof.
  intros H. destruct (firsts_in U ueqb ns tmp u H) as (r & m & sn & Hr & _ & _ & Hid).
  pose proof (sf_idok _ _ _ _ _ _ Hf) as Hok. rewrite Forall_forall in Hok. specialize (Hok (r_id r) (in_map _ _ _ Hr)). rewrite Hid in Hok. exact Hok.
Qed.

Lemma dest_kept u m sn prs p : In u done -> fnode u = Some m -> short_name m = Ok sn ->
  exit_edge_pairs ueqb m (lastid m sn) = Ok prs -> In p prs ->
  tgt_dest U ueqb ns tmp (dest_id U ueqb ns (fst p)) = dest_of U kp (fst p).
Proof.
  intros Hu Hm Hsn Hp Hin. destruct p as [[d|] e]; cbn [fst dest_of]; [|reflexivity].
  destruct (sf_closed _ _ _ _ _ _ Hf u m sn prs d e Hu Hm Hsn Hp Hin) as [Hd _].
  destruct (done_node d Hd) as (m' & sn' & A & B & _). unfold dest_id. rewrite A, B. reflexivity.
Qed.

(* the edges of the sheet that leave the last row of an exported node: its kept exit pairs, up to order *)
Definition from_last (m : node U) (sn : str) (x : ev) : bool := teqb (e_from (fst x)) (lastid m sn).

Lemma filter_all_false {T} (p : T -> bool) l : (forall x, In x l -> p x = false) -> filter p l = [].
Proof. induction l as [|x l IH]; intros H; [reflexivity|]. cbn [filter]. rewrite (H x (or_introl eq_refl)). apply IH. intros y Hy. apply H. right. exact Hy. Qed.
Lemma filter_all_true {T} (p : T -> bool) l : (forall x, In x l -> p x = true) -> filter p l = l.
Proof. induction l as [|x l IH]; intros H; [reflexivity|]. cbn [filter]. rewrite (H x (or_introl eq_refl)). f_equal. apply IH. intros y Hy. apply H. right. exact Hy. Qed.

Lemma chain_not_last m' sn' m sn x :
  fnode (n_uuid m') = Some m' -> fnode (n_uuid m) = Some m -> short_name m' = Ok sn' -> short_name m = Ok sn ->
  In x (chain_events U m' sn') -> from_last m sn x = false.
Proof.
  intros Hm' Hm Hsn' Hsn H. unfold chain_events, chain_from in H. apply in_map_iff in H as (j & <- & Hj). apply in_seq in Hj.
  unfold from_last, chain_edge. cbn [fst e_from]. apply (teqb_false U ueqb ueqb_spec). unfold last_row_id. intros Heq. injection Heq as Eu Es.
  pose proof (fnode_inj U ueqb ns _ _ Hm' Hm Eu) as ->. assert (sn' = sn) by congruence. subst sn'.
  apply sub_short_inj in Es. lia.
Qed.

Lemma pair_from_last m sn prs p : exit_edge_pairs ueqb m (lastid m sn) = Ok prs -> In p prs -> e_from (snd p) = lastid m sn.
Proof. intros H Hin. pose proof (exit_edge_pairs_from U ueqb _ _ _ H) as Hall. rewrite Forall_forall in Hall. apply (Hall p Hin). Qed.

Lemma node_events_other mv m sn x :
  fnode (n_uuid mv) = Some mv -> fnode (n_uuid m) = Some m -> short_name m = Ok sn -> mv <> m ->
  In x (node_events U ueqb ns mv) -> from_last m sn x = false.
Proof.
  intros Hmv Hm Hsn Hne. unfold node_events. destruct (short_name mv) as [snv|] eqn:Esv; [|intros []].
  destruct (exit_edge_pairs ueqb mv (lastid mv snv)) as [prsv|] eqn:Ep; [|intros []]. intros H. apply in_app_or in H as [H|H].
  - apply (chain_not_last mv snv m sn x Hmv Hm Esv Hsn H).
  - apply in_map_iff in H as (p & <- & Hp). apply filter_In in Hp as [Hp _]. unfold from_last, pair_ev. cbn [fst].
    rewrite (pair_from_last mv snv prsv p Ep Hp). apply (teqb_false U ueqb ueqb_spec). intros Heq. apply Hne.
    apply (last_row_id_inj U ueqb ns _ _ _ _ Hmv Hm Heq).
Qed.

Lemma node_events_self m sn prs :
  fnode (n_uuid m) = Some m -> short_name m = Ok sn -> exit_edge_pairs ueqb m (lastid m sn) = Ok prs ->
  filter (from_last m sn) (node_events U ueqb ns m) = map (pair_ev U ueqb ns) (filter (kept U m) prs).
Proof.
  intros Hm Hsn Hp. unfold node_events. rewrite Hsn, Hp, filter_app.
  rewrite filter_all_false by (intros x Hx; apply (chain_not_last m sn m sn x Hm Hm Hsn Hsn Hx)). cbn [app].
  apply filter_all_true. intros x Hx. apply in_map_iff in Hx as (p & <- & Hin). apply filter_In in Hin as [Hin _].
  unfold from_last, pair_ev. cbn [fst]. rewrite (pair_from_last m sn prs p Hp Hin). apply (teqb_refl U ueqb ueqb_spec).
Qed.

Lemma done_events_cons v l : done_events U ueqb ns (v :: l) =
  (match fnode v with Some mv => node_events U ueqb ns mv | None => [] end) ++ done_events U ueqb ns l.
Proof. unfold done_events, done_nodes. cbn [flat_map]. rewrite flat_map_app. destruct (fnode v); cbn [flat_map]; [rewrite app_nil_r|]; reflexivity. Qed.

Lemma filter_done_out m sn l : fnode (n_uuid m) = Some m -> short_name m = Ok sn -> ~ In (n_uuid m) l ->
  filter (from_last m sn) (done_events U ueqb ns l) = [].
Proof.
  intros Hm Hsn. induction l as [|v l IH]; intros Hn; [reflexivity|]. rewrite done_events_cons, filter_app, IH by (intros H; apply Hn; right; exact H).
  rewrite app_nil_r. destruct (fnode v) as [mv|] eqn:Ev; [|reflexivity]. apply filter_all_false. intros x Hx.
  pose proof (find_node_uuid U ueqb ueqb_spec _ _ _ Ev) as Eu.
  apply (node_events_other mv m sn x); [rewrite Eu; exact Ev|exact Hm|exact Hsn| |exact Hx]. intros ->. apply Hn. left. symmetry. exact Eu.
Qed.

Lemma filter_done_in m sn prs l : fnode (n_uuid m) = Some m -> short_name m = Ok sn -> exit_edge_pairs ueqb m (lastid m sn) = Ok prs ->
  NoDup l -> In (n_uuid m) l ->
  filter (from_last m sn) (done_events U ueqb ns l) = map (pair_ev U ueqb ns) (filter (kept U m) prs).
Proof.
  intros Hm Hsn Hp. induction l as [|v l IH]; intros Hnd Hin; [contradiction|]. inversion Hnd as [|v' l' Hv Hl]; subst v' l'.
  rewrite done_events_cons, filter_app. destruct Hin as [Hin|Hin].
  - subst v. rewrite Hm, (node_events_self m sn prs Hm Hsn Hp), (filter_done_out m sn l Hm Hsn Hv). apply app_nil_r.
  - rewrite (IH Hl Hin). destruct (fnode v) as [mv|] eqn:Ev; [|reflexivity].
    pose proof (find_node_uuid U ueqb ueqb_spec _ _ _ Ev) as Eu.
    rewrite filter_all_false; [reflexivity|]. intros x Hx.
    apply (node_events_other mv m sn x); [rewrite Eu; exact Ev|exact Hm|exact Hsn| |exact Hx]. intros ->. apply Hv. rewrite <- Eu. exact Hin.
Qed.

Lemma perm_last u m sn prs : In u done -> fnode u = Some m -> short_name m = Ok sn -> exit_edge_pairs ueqb m (lastid m sn) = Ok prs ->
  Permutation (filter (from_last m sn) (events U tmp)) (map (pair_ev U ueqb ns) (filter (kept U m) prs)).
Proof.
  intros Hu Hm Hsn Hp. pose proof (find_node_uuid U ueqb ueqb_spec _ _ _ Hm) as Eu. rewrite <- Eu in Hm, Hu.
  pose proof (perm_filter _ (from_last m sn) _ _ (sf_events _ _ _ _ _ _ Hf)) as H. cbn [filter] in H.
  assert (E0 : from_last m sn (start_edge, dest_id U ueqb ns (Some (n_uuid n0))) = false) by reflexivity.
  rewrite E0, (filter_done_in m sn prs done Hm Hsn Hp (sf_done _ _ _ _ _ _ Hf) Hu) in H. exact H.
Qed.

(* every edge of the sheet comes from start, is a chain edge, or leaves the last row of a node *)
Lemma src_cases x : In x (events U tmp) ->
  e_from (fst x) = TStart
  \/ (exists m sn j, fnode (n_uuid m) = Some m /\ short_name m = Ok sn /\ fst x = chain_edge U (n_uuid m) sn j
                     /\ snd x = Some (TNode (n_uuid m) (sub_short sn (S j))))
  \/ (exists m sn, fnode (n_uuid m) = Some m /\ short_name m = Ok sn /\ e_from (fst x) = lastid m sn).
Proof.
  intros Hx. apply (Permutation_in _ (sf_events _ _ _ _ _ _ Hf)) in Hx. destruct Hx as [<-|Hx]; [left; reflexivity|right].
  unfold done_events in Hx. apply in_flat_map in Hx as (m & Hm & Hx). unfold done_nodes in Hm. apply in_flat_map in Hm as (u & Hu & Hm).
  destruct (fnode u) as [m'|] eqn:Eu; [|contradiction]. destruct Hm as [<-|[]].
  pose proof (find_node_uuid U ueqb ueqb_spec _ _ _ Eu) as E. rewrite <- E in Eu.
  unfold node_events in Hx. destruct (short_name m') as [sn|] eqn:Es; [|contradiction].
  destruct (exit_edge_pairs ueqb m' (lastid m' sn)) as [prs|] eqn:Ep; [|contradiction]. apply in_app_or in Hx as [Hx|Hx].
  - left. unfold chain_events, chain_from in Hx. apply in_map_iff in Hx as (j & <- & _). exists m', sn, j. repeat split; assumption.
  - right. apply in_map_iff in Hx as (p & <- & Hp). apply filter_In in Hp as [Hp _]. exists m', sn. repeat split; try assumption.
    unfold pair_ev. cbn [fst]. apply (pair_from_last m' sn prs p Ep Hp).
Qed.

(* ---------------------------------------------------------------- order: sheet order against the order of the exit pairs *)
Definition sensE (m : node U) (x : ev) : bool := sens U m (e_cond (fst x)).
Definition keyE (x : ev) : cond U := e_cond (fst x).

Lemma filter_map_filter {S T} (g : S -> T) (q : T -> bool) (k : S -> bool) (l : list S) :
  (forall x, In x l -> q (g x) = true -> k x = true) -> filter q (map g (filter k l)) = filter q (map g l).
Proof.
  induction l as [|x l IH]; intros H; [reflexivity|]. cbn [filter map].
  assert (IH' := IH (fun y Hy => H y (or_intror Hy))). destruct (k x) eqn:Ek; cbn [map filter]; rewrite IH'; [reflexivity|].
  destruct (q (g x)) eqn:Eq; [|reflexivity]. rewrite (H x (or_introl eq_refl) Eq) in Ek. discriminate.
Qed.

Lemma order_of u m sn prs : In u done -> fnode u = Some m -> short_name m = Ok sn -> exit_edge_pairs ueqb m (lastid m sn) = Ok prs ->
  filter (sensE m) (filter (from_last m sn) (events U tmp)) = filter (sensE m) (map (pair_ev U ueqb ns) (filter (kept U m) prs)).
Proof.
  intros Hu Hm Hsn Hp. pose proof (fnode_in u m Hm) as Hin. destruct (Hgood m Hin) as [_ Hg]. destruct (Hg sn prs Hsn Hp) as (Hsk & Hnd & _).
  apply (perm_same_keys keyE).
  - apply perm_filter. apply (perm_last u m sn prs Hu Hm Hsn Hp).
  - (* the keys: what order_ok checked *)
    pose proof Hord as Ho. unfold order_ok in Ho. rewrite Htmp in Ho. rewrite forallb_forall in Ho. specialize (Ho m Hin).
    unfold node_order_ok in Ho. rewrite Hsn, Hp in Ho.
    assert (Hex : exported U ueqb tmp (lastid m sn) = true).
    { destruct (done_node u Hu) as (m' & sn' & A & B & _ & D). assert (m' = m) by congruence. subst m'. assert (sn' = sn) by congruence. subst sn'.
      pose proof (D _ (last_in_node_row_ids U m sn)) as Hl. apply in_map_iff in Hl as (r & Er & Hr). unfold exported. apply existsb_exists.
      exists r. split; [exact Hr|]. rewrite Er. apply (teqb_refl U ueqb ueqb_spec). }
    rewrite Hex in Ho. apply conds_eqb_eq in Ho.
    assert (Ecf : conds_from U ueqb tmp (lastid m sn) = map keyE (filter (from_last m sn) (events U tmp))).
    { unfold conds_from. rewrite <- events_fst, filter_map_comm, map_map. reflexivity. }
    rewrite Ecf in Ho.
    change (filter (sensE m)) with (filter (fun x : ev => sens U m (keyE x))). rewrite <- !filter_map_comm. rewrite Ho.
    rewrite map_map. change (fun x : pair => keyE (pair_ev U ueqb ns x)) with (fun p : pair => e_cond (snd p)).
    symmetry. apply filter_map_filter. exact Hsk.
  - change (filter (sensE m)) with (filter (fun x : ev => sens U m (keyE x))). rewrite <- filter_map_comm, map_map.
    change (fun x : pair => keyE (pair_ev U ueqb ns x)) with (fun p : pair => e_cond (snd p)).
    rewrite (filter_map_filter _ _ _ _ Hsk). exact Hnd.
Qed.

(* ---------------------------------------------------------------- the reference node of an exported node *)
Definition fE (m : node U) (N : rnode) (x : ev) : option rnode := napply (cls_of U m) N (aev U ueqb ustr ns tmp x).

Lemma fE_pair u m sn prs p N : In u done -> fnode u = Some m -> short_name m = Ok sn -> exit_edge_pairs ueqb m (lastid m sn) = Ok prs ->
  In p prs -> fE m N (pair_ev U ueqb ns p) = fL (cls_of U m) N (e_cond (snd p), dest_of U kp (fst p)).
Proof.
  intros Hu Hm Hsn Hp Hin. unfold fE, napply, aev, fL, pair_ev. cbn [fst snd]. rewrite (dest_kept u m sn prs p Hu Hm Hsn Hp Hin). reflexivity.
Qed.

Lemma final_node u m sn prs : In u done -> fnode u = Some m -> short_name m = Ok sn -> exit_edge_pairs ueqb m (lastid m sn) = Ok prs ->
  exists N, nfinal U ueqb ustr ns tmp (events U tmp) m sn = Some N /\ node_sim U ueqb ustr done kp m N.
Proof.
  intros Hu Hm Hsn Hp. pose proof (fnode_in u m Hm) as Hin. destruct (Hgood m Hin) as [_ Hg]. destruct (Hg sn prs Hsn Hp) as (_ & _ & Hloc).
  destruct (Hloc kp done) as (Inv & Hi0 & Histep & Hcomm & N & HN & Hsim).
  { intros d e Hd. apply (sf_closed _ _ _ _ _ _ Hf u m sn prs d e Hu Hm Hsn Hp Hd). }
  exists N. split; [|exact Hsim]. rewrite <- HN.
  unfold nfinal, evs_from. rewrite fold_opt_map. change (fun n x => napply (cls_of U m) n (aev U ueqb ustr ns tmp x)) with (fE m).
  change (fun x : ev => teqb (e_from (fst x)) (lastid m sn)) with (from_last m sn).
  set (X := map (pair_ev U ueqb ns) (filter (kept U m) prs)).
  assert (HX : forall N' x, In x X -> exists p, In p prs /\ kept U m p = true /\ x = pair_ev U ueqb ns p
                                       /\ fE m N' x = fL (cls_of U m) N' (e_cond (snd p), dest_of U kp (fst p))).
  { intros N' x Hx. apply in_map_iff in Hx as (p & <- & Hpp). apply filter_In in Hpp as [Hp1 Hp2]. exists p. repeat split; try assumption.
    apply (fE_pair u m sn prs p N' Hu Hm Hsn Hp Hp1). }
  rewrite (fold_perm rnode ev (fE m) (sensE m) Inv) with (X := X).
  - unfold X, Xabs. rewrite !fold_opt_map. apply fold_opt_ext. intros N' p Hpp. apply filter_In in Hpp as [Hp1 _].
    apply (fE_pair u m sn prs p N' Hu Hm Hsn Hp Hp1).
  - intros a y b Hin' Ha Hy. destruct (HX a y Hin') as (p & Hp1 & Hp2 & -> & Ep). rewrite Ep in Hy.
    apply (Histep a (e_cond (snd p), dest_of U kp (fst p)) b); [|exact Ha|exact Hy].
    unfold Xabs. apply in_map_iff. exists p. split; [reflexivity|]. apply filter_In. auto.
  - intros x y Hx Hy Hs a Ha. unfold step2, obind.
    destruct (HX a x Hx) as (p & Hp1 & Hp2 & -> & Ep). destruct (HX a y Hy) as (q & Hq1 & Hq2 & -> & Eq).
    assert (Ip : In (e_cond (snd p), dest_of U kp (fst p)) (Xabs kp m prs)).
    { unfold Xabs. apply in_map_iff. exists p. split; [reflexivity|]. apply filter_In. auto. }
    assert (Iq : In (e_cond (snd q), dest_of U kp (fst q)) (Xabs kp m prs)).
    { unfold Xabs. apply in_map_iff. exists q. split; [reflexivity|]. apply filter_In. auto. }
    pose proof (Hcomm _ _ Ip Iq Hs a Ha) as Hc. unfold step2, obind in Hc. rewrite Ep, Eq.
    destruct (fL (cls_of U m) a (e_cond (snd p), dest_of U kp (fst p))) as [b1|] eqn:E1;
      destruct (fL (cls_of U m) a (e_cond (snd q), dest_of U kp (fst q))) as [b2|] eqn:E2.
    + rewrite (fE_pair u m sn prs q b1 Hu Hm Hsn Hp Hq1), (fE_pair u m sn prs p b2 Hu Hm Hsn Hp Hp1). exact Hc.
    + rewrite (fE_pair u m sn prs q b1 Hu Hm Hsn Hp Hq1). exact Hc.
    + rewrite (fE_pair u m sn prs p b2 Hu Hm Hsn Hp Hp1). exact Hc.
    + reflexivity.
  - exact Hi0.
  - apply (perm_last u m sn prs Hu Hm Hsn Hp).
  - apply (order_of u m sn prs Hu Hm Hsn Hp).
Qed.

Lemma done_pairs u : In u done -> exists m sn prs, fnode u = Some m /\ short_name m = Ok sn /\ exit_edge_pairs ueqb m (lastid m sn) = Ok prs.
Proof. intros Hu. destruct (sf_complete _ _ _ _ _ _ Hf u Hu) as (m & sn & prs & A & B & C & _). exists m, sn, prs. auto. Qed.

Theorem means_core :
  exists nodesR, fsem teqb nab (map (fabs_row U ustr strip) tmp) = Some nodesR
    /\ (forall t, traces (flow_of U ustr ns) t -> exists t', traces (Rf nodesR) t' /\ Forall2 (ematch sexp lmF) t t')
    /\ (forall t, traces (Rf nodesR) t -> exists t', traces (flow_of U ustr ns) t' /\ Forall2 (ematch sexp lmR) t t').
Proof.
  destruct (run_sheet U ueqb ueqb_spec ustr ustr_inj ustr_ne ns strip tmp (sf_ids _ _ _ _ _ _ Hf) (sf_back _ _ _ _ _ _ Hf)) as (s & Hrun & Hlen & Hnth).
  - intros m Hm. apply (Hgood m (fnode_in _ _ Hm)).
  - intros m sn Hm Hsn Hin. apply first_done in Hin. destruct (done_pairs _ Hin) as (m' & sn' & prs & A & B & C).
    assert (m' = m) by congruence. subst m'. assert (sn' = sn) by congruence. subst sn'.
    destruct (final_node _ m sn prs Hin A B C) as (N & HN & _). rewrite HN. discriminate.
  - apply src_cases.
  - apply (sf_blocks _ _ _ _ _ _ Hf).
  - exists (fs_nodes s). split; [unfold fsem; rewrite Hrun; reflexivity|].
    assert (Hr : Rel U ueqb ustr ns done kp (fs_nodes s) init_state init_state).
    { apply (rel_init U ueqb ueqb_spec ustr ns done kp (fs_nodes s) n0 rest Hns); [apply (sf_n0 _ _ _ _ _ _ Hf)|].
      destruct (sf_first _ _ _ _ _ _ Hf) as (sn0 & r0 & rest' & Hs0 & Et & Eid). destruct (sf_n0 _ _ _ _ _ _ Hf) as [Hn0 _].
      unfold kap. rewrite Et. unfold firsts. cbn [flat_map]. unfold first_of at 1. rewrite Eid, Hn0, Hs0, str_eqb_refl. cbn [app idx].
      rewrite (proj2 (ueqb_spec _ _) eq_refl). reflexivity. }
    apply (rel_traces U ueqb ueqb_spec ustr ustr_inj ns done kp (fs_nodes s)); [| | |exact Hr].
    + intros u Hu. destruct (done_node u Hu) as (m & sn & A & _). exists m. exact A.
    + intros u Hu. rewrite Hlen. unfold kap. apply (idx_lt U ueqb ueqb_spec). apply (done_first u Hu).
    + intros u m Hu Hm. destruct (done_pairs u Hu) as (m' & sn & prs & A & B & C). assert (m' = m) by congruence. subst m'.
      destruct (final_node u m sn prs Hu A B C) as (N & HN & Hsim). exists N. split; [|exact Hsim].
      pose proof (find_node_uuid U ueqb ueqb_spec _ _ _ Hm) as Eu. rewrite <- HN, <- Eu. apply Hnth; [rewrite Eu; exact Hm|exact B|].
      rewrite Eu. apply (done_first u Hu).
Qed.

End Core.
(* ---------------------------------------------------------------- the exported rows (string ids) *)
Theorem means_rows nb ns n0 rest rows :
  ns = n0 :: rest -> (forall m, In m ns -> node_good m) -> order_ok U ueqb ns = true ->
  to_rows ueqb nb ns = Ok rows ->
  exists ref, rowsem nab (abs_rows U ustr strip rows) = Some ref
    /\ (forall t, traces (flow_of U ustr ns) t -> exists t', traces ref t' /\ Forall2 (ematch sexp lmF) t t')
    /\ (forall t, traces ref t -> exists t', traces (flow_of U ustr ns) t' /\ Forall2 (ematch sexp lmR) t t').
Proof.
  intros Hns Hgood Hord Hrows.
  pose proof (to_rows_ids_nonempty U ueqb ueqb_spec nb ns rows Hrows) as Hne.
  destruct (to_rows_relabelling U ueqb ueqb_spec nb ns rows Hrows) as (tmp & f & Htmp & Erows & Hfs & Hnd & Hrefs & _).
  pose proof Htmp as Htmp'. rewrite Hns in Htmp'. destruct (to_rows_tmp_facts U ueqb ueqb_spec n0 rest tmp Htmp') as (done & Hf). rewrite <- Hns in Hf.
  destruct (means_core ns n0 rest tmp done Hns Htmp Hf Hgood Hord) as (nodesR & Hsem & Ht1 & Ht2).
  assert (HP : forall a b, In a (TStart :: map (@r_id U tidU) tmp) -> In b (TStart :: map (@r_id U tidU) tmp) -> f a = f b -> a = b).
  { intros a b Ha Hb. apply (NoDup_map_eq f _ a b Hnd Ha Hb). }
  assert (Hids : forall r, In r tmp -> f (r_id r) <> []).
  { intros r Hr. rewrite Forall_forall in Hne. specialize (Hne (relabel U f r)). cbn [relabel r_id] in Hne. apply Hne.
    rewrite Erows. apply in_map, Hr. }
  assert (Hstart : ~ In TStart (map (@r_id U tidU) tmp)).
  { intros H. pose proof (sf_idok _ _ _ _ _ _ Hf) as Hok. rewrite Forall_forall in Hok. apply (Hok _ H). }
  assert (Hallowed : forall r t, In r tmp -> In t (row_refs U r) -> t = TStart \/ In t (map (@r_id U tidU) tmp)).
  { intros r t Hr Ht. unfold Refs, RefsI in Hrefs. rewrite Forall_forall in Hrefs. specialize (Hrefs r Hr). rewrite Forall_forall in Hrefs.
    destruct (Hrefs t Ht) as [H|[H|[]]]; auto. }
  (* the flat sheet over strings *)
  set (FR := map (frow_map f) (map (fabs_row U ustr strip) tmp)).
  assert (Hsem' : fsem str_eqb nab FR = Some nodesR).
  { rewrite <- Hsem. unfold FR.
    apply (fsem_rename tidU str teqb str_eqb (tid_eqb_eq U ueqb ueqb_spec) str_eqb_eq nab f (fun t => In t (TStart :: map (@r_id U tidU) tmp)) HP).
    apply Forall_forall. intros fr Hfr. apply in_map_iff in Hfr as (r & <- & Hr). unfold row_ids, fabs_row. cbn [fr_id fr_kind fr_edges].
    constructor; [right; apply in_map, Hr|]. apply Forall_app. split.
    - apply Forall_forall. intros t Ht. assert (Hg : In t (r_goto r)).
      { unfold abs_kind, kind_ids in Ht. destruct (str_eqb (r_type r) t_go_to); [exact Ht|]. destruct (str_eqb (r_type r) t_loose_exit); [contradiction|].
        destruct (abs_nkind U (r_type r) (r_pay r)) as [[c a] d]. contradiction. }
      destruct (Hallowed r t Hr) as [H|H]; [unfold row_refs; apply in_or_app; right; exact Hg|left; auto|right; exact H].
    - apply Forall_forall. intros t Ht. apply in_flat_map in Ht as (fe & Hfe & Ht). apply in_map_iff in Hfe as (e & <- & He).
      unfold fabs_edge in Ht. cbn [fe_from] in Ht. destruct (e_from e) as [|u0 s0|k0 s0] eqn:Ee; cbn [fabs_from from_ids] in Ht; [contradiction| |];
        destruct Ht as [<-|[]]; (destruct (Hallowed r (e_from e) Hr) as [H|H]; [unfold row_refs; apply in_or_app; left; apply in_map, He|rewrite Ee in H; discriminate|right; rewrite <- Ee; exact H]). }
  assert (Hrun : rowsem nab (map to_rsrow FR) = Some (Rf nodesR)).
  { apply (fsem_rowsem nab FR nodesR); [|exact Hsem']. apply Forall_forall. intros fr Hfr. unfold FR in Hfr. rewrite map_map in Hfr. apply in_map_iff in Hfr as (r & <- & Hr).
    unfold id_ok, frow_map, fabs_row. cbn [fr_id]. apply (Hids r Hr). }
  assert (Eabs : abs_rows U ustr strip rows = map to_rsrow FR).
  { unfold abs_rows, FR. rewrite Erows, !map_map. apply map_ext_in. intros r Hr. apply (abs_row_relabel U ustr strip f Hfs).
    apply Forall_forall. intros e He. unfold tid_ok.
    destruct (Hallowed r (e_from e) Hr) as [H|H]; [unfold row_refs; apply in_or_app; left; apply in_map, He|left; exact H|right].
    apply in_map_iff in H as (r' & Er' & Hr'). rewrite <- Er'. split; [apply (Hids r' Hr')|].
    intros Heq. rewrite <- Hfs in Heq. apply HP in Heq; [|right; apply in_map, Hr'|left; reflexivity].
    apply Hstart. rewrite <- Heq. apply in_map, Hr'. }
  exists (Rf nodesR). split; [rewrite Eabs; exact Hrun|]. split; assumption.
Qed.

End Main.
