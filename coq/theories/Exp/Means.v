(* C04 — "the exported rows MEAN the flow": DEFINITIONS (facts are in Exp/Means*Facts.v).

   flow_of     reads a flow of the exporter model (Exp/ToRows.v: list (node U), as loaded by
               RapidProContainer.from_dict) as a flow of Flow/Flow.v, i.e. gives it the labelled
               transition system the round-trip property is about.  Identifiers are rendered by an
               injective [ustr : U -> str]; action payloads are the canonical payloads of
               harness/flowutil.py (canon_action + json_sexp) computed from what the loaded action
               keeps.
   abs_rows    reads exported rows (row U str, the FlowRowModel objects of FlowContainer.to_rows) as
               the abstract rows the reference meaning Flow/RowSem.v:rowsem takes.  It is the Gallina
               twin of harness/rowref.py:row_sexp (class, expected action payload, initial decision per
               row type); the harness compares the two on every generated export (engine 104).
   exportable  the family of flows the theorem is about (decidable).
   means_check the statement of the theorem as an executable test (used to TEST the statement on
               generated flows before proving it, and as a cross-check in the harness). *)
From Coq Require Import List NArith Bool String Ascii Arith.
From RPFT Require Import Base.Sexp Base.PyStr Base.SexpEq Base.Result Gen.Tables Flow.Lts Flow.Flow Flow.RowSem Exp.FlatSem Exp.ToRows.
Import ListNotations.
Local Open Scope N_scope.

(* ---------------------------------------------------------------- JSON payloads (flowutil.json_sexp) *)
Definition jstr (s : str) : sexp := L [A 4; enc_str s].
Definition jlist (l : list sexp) : sexp := L [A 5; L l].
(* members must be given in the order of sorted(keys) *)
Definition jobj (kvs : list (str * sexp)) : sexp := L [A 6; L (map (fun kv => L [enc_str (fst kv); snd kv]) kvs)].
Definition jstrs (l : list str) : sexp := jlist (map jstr l).

(* int(s) for a string of ASCII digits *)
Fixpoint parse_dec_aux (s : str) (acc : N) : option N :=
  match s with
  | [] => Some acc
  | c :: r => if (48 <=? c) && (c <=? 57) then parse_dec_aux r (10 * acc + (c - 48)) else None
  end.
Definition parse_dec (s : str) : option N := match s with [] => None | _ => parse_dec_aux s 0 end.
(* rowref.num: int(s) when it parses, else float(s) (rendered by its repr, which is s for the str() of a float) *)
Definition jnum (s : str) : sexp :=
  match parse_dec s with Some n => L [A 2; A 0; A n] | None => L [A 3; enc_str s] end.

(* insertion sort of members by key (Python: sorted(d.items()), code point order) *)
Fixpoint str_ltb (a b : str) : bool :=
  match a, b with
  | _, [] => false
  | [], _ :: _ => true
  | x :: a', y :: b' => (x <? y) || ((x =? y) && str_ltb a' b')
  end.
Fixpoint kv_insert {T} (kv : str * T) (l : list (str * T)) : list (str * T) :=
  match l with
  | [] => [kv]
  | x :: r => if str_ltb (fst x) (fst kv) then x :: kv_insert kv r else kv :: l
  end.
Definition kv_sort {T} (l : list (str * T)) : list (str * T) := fold_right kv_insert [] l.

(* common.generate_field_key as the reference renderings use it: strip, lower, ' ' -> '_' *)
Definition field_key_plain (name : str) : str := replace1 32 [95] (lower (strip name)).
(* ... and as the compiler uses it (Comp/Compile.v:field_key): a key longer than 36 characters or without a
   letter is rejected *)
Definition is_letter_a (c : char) : bool := ((65 <=? c) && (c <=? 90)) || ((97 <=? c) && (c <=? 122)).
Definition field_key_chk (name : str) : option str :=
  let k := field_key_plain name in
  if Nat.ltb 36 (List.length k) then None
  else if negb (existsb is_letter_a k) then None
  else Some k.

Definition result_of (s : str) : option str := match s with [] => None | _ => Some s end.

(* the canonical payloads.  Written once; the flow side computes them from the loaded action, the row
   side from the fields of the exported row *)
Definition p_send_msg (text : str) (atts qrs : list str) (templ : option (str * str * list str)) : sexp :=
  jobj ((match atts with [] => [] | _ => [(lit "attachments", jstrs atts)] end)
        ++ (match qrs with [] => [] | _ => [(lit "quick_replies", jstrs qrs)] end)
        ++ (match templ with
            | Some (nm, tu, vars) =>
              [(lit "templating", jobj [(lit "template", jobj [(lit "name", jstr nm); (lit "uuid", jstr tu)]);
                                        (lit "variables", jstrs vars)])]
            | None => []
            end)
        ++ [(lit "text", jstr text); (lit "type", jstr (lit "send_msg"))]).
Definition p_set_field (name value : str) : sexp :=
  jobj [(lit "field", jobj [(lit "key", jstr (field_key_plain name)); (lit "name", jstr name)]);
        (lit "type", jstr (lit "set_contact_field")); (lit "value", jstr value)].
(* {"type": "set_contact_<prop>", "<prop>": value}: the order of the two keys depends on prop *)
Definition p_set_prop (prop value : str) : sexp :=
  jobj (kv_sort [(prop, jstr value); (lit "type", jstr (lit "set_contact_" ++ prop))]).
Definition p_groups (add : bool) (name : str) : sexp :=
  jobj [(lit "groups", jlist [jobj [(lit "name", jstr name)]]);
        (lit "type", jstr (if add then lit "add_contact_groups" else lit "remove_contact_groups"))].
Definition p_set_result (name value cat : str) : sexp :=
  jobj ((match cat with [] => [] | _ => [(lit "category", jstr cat)] end)
        ++ [(lit "name", jstr name); (lit "type", jstr (lit "set_run_result")); (lit "value", jstr value)]).
Definition p_urn (path scheme : str) : sexp :=
  jobj [(lit "path", jstr path); (lit "scheme", jstr scheme); (lit "type", jstr (lit "add_contact_urn"))].
Definition p_enter_flow (name : str) : sexp :=
  jobj [(lit "flow", jobj [(lit "name", jstr name)]); (lit "type", jstr (lit "enter_flow"))].
Definition p_webhook (url method body : str) (headers : list (str * str)) (result : str) : sexp :=
  jobj [(lit "body", jstr body); (lit "headers", jobj (map (fun kv => (fst kv, jstr (snd kv))) (kv_sort headers)));
        (lit "method", jstr method); (lit "result_name", jstr result); (lit "type", jstr (lit "call_webhook"));
        (lit "url", jstr url)].
Definition p_airtime (amounts : list (str * str)) (result : str) : sexp :=
  jobj [(lit "amounts", jobj (map (fun kv => (fst kv, jnum (snd kv))) (kv_sort amounts)));
        (lit "result_name", jstr result); (lit "type", jstr (lit "transfer_airtime"))].

(* initial decisions of the reference reading (rowref.dec0; Comp/Refine.v:kind_dec0) *)
Definition wild0 : cname * dest := (CWild, DNone).
Definition s_NoResponse : str := lit "No Response".
Definition s_contact_groups : str := lit "@contact.groups".
Definition s_child_run_status : str := lit "@child.run.status".
Definition s_has_only_text : str := lit "has_only_text".
Definition s_has_category : str := lit "has_category".
Definition s_Expired : str := lit "Expired".
Definition s_Failure : str := lit "Failure".

Definition dec_wait (t : N) (sv : str) : rdec :=
  mkDec false s_input_text (match t with 0 => WMsg | _ => WTimeout t [] end) (result_of sv) [] [] wild0
        (match t with 0 => None | _ => Some (CFixed s_NoResponse, DNone) end).
Definition dec_split (op sv : str) : rdec := mkDec false op WNone (result_of sv) [] [] wild0 None.
Definition dec_random (sv : str) : rdec := mkDec true [] WNone (result_of sv) [] [] wild0 None.
Definition dec_enter : rdec :=
  mkDec false s_child_run_status WNone None
        [(s_has_only_text, [Some s_completed], 0%nat); (s_has_only_text, [Some s_expired], 1%nat)]
        [(CFixed s_Complete, DNone)] (CFixed s_Expired, DNone) None.
Definition dec_webhook (sv : str) : option rdec :=
  match field_key_chk sv with
  | Some key => Some (mkDec false (lit "@results." ++ key ++ lit ".category") WNone None
                            [(s_has_only_text, [Some s_Success], 0%nat)] [(CFixed s_Success, DNone)] (CFixed s_Failure, DNone) None)
  | None => None
  end.
Definition dec_airtime (sv : str) : option rdec :=
  match field_key_chk sv with
  | Some key => Some (mkDec false (lit "@results." ++ key) WNone None
                            [(s_has_category, [Some s_Success], 0%nat)] [(CFixed s_Success, DNone)] (CFixed s_Failure, DNone) None)
  | None => None
  end.

Definition nab (t : str) : bool := existsb (str_eqb t) no_args_tests.

(* field names / row types *)
Definition f_node_uuid : str := lit "node_uuid".
Definition t_go_to : str := lit "go_to".
Definition t_loose_exit : str := lit "loose_exit".
Definition t_wait : str := lit "wait_for_response".
Definition t_split_value : str := lit "split_by_value".
Definition t_split_group : str := lit "split_by_group".
Definition t_split_random : str := lit "split_random".
Definition t_send_message : str := lit "send_message".
Definition t_save_value : str := lit "save_value".
Definition t_add_to_group : str := lit "add_to_group".
Definition t_remove_from_group : str := lit "remove_from_group".
Definition t_save_flow_result : str := lit "save_flow_result".
Definition t_add_contact_urn : str := lit "add_contact_urn".
Definition t_start_new_flow : str := lit "start_new_flow".
Definition t_call_webhook : str := lit "call_webhook".
Definition t_transfer_airtime : str := lit "transfer_airtime".
Definition t_set_contact_ : str := lit "set_contact_".
Definition s_start : str := lit "start".

Section Means.
Variable U : Type.
Variable ueqb : U -> U -> bool.
Variable ustr : U -> str.

(* ---------------------------------------------------------------- flow_of *)
Definition act_payload (a : action U) : sexp :=
  match a with
  | ActSendMsg _ text qr atts templ => p_send_msg text atts qr templ
  | ActSetField _ name value => p_set_field name value
  | ActSetProp _ prop value => p_set_prop prop value
  | ActGroups _ add groups => p_groups add (match groups with (nm, _) :: _ => nm | [] => [] end)
  | ActSetResult _ name value cat => p_set_result name value cat
  | ActUrn _ path scheme => p_urn path scheme
  | ActEnterFlow _ name _ => p_enter_flow name
  | ActWebhook _ url method body headers result => p_webhook url method body headers result
  | ActAirtime _ amounts result => p_airtime amounts result
  | ActOther _ tp => jobj [(lit "type", jstr tp)]
  end.

Definition cat_of (c : category U) : Flow.category :=
  mkCat (ustr (c_uuid c)) (c_name c) (ustr (c_uuid c)).
Definition exit_of (c : category U) : exit_ := mkExit (ustr (c_uuid c)) (option_map ustr (c_dest c)).
(* arguments of a case as the flow file has them: has_group carries [group uuid, group name] *)
Definition case_args (k : rcase U) : list (option str) :=
  if str_eqb (k_type k) has_group_type then option_map ustr (k_group k) :: map Some (k_args k)
  else map Some (k_args k).
Definition case_of (k : rcase U) : case_ := mkCase [] (k_type k) (case_args k) (ustr (k_cat k)).

Definition wait_of (r : srouter U) : wait_spec :=
  match sw_wait r with
  | None => WNone
  | Some w => if w =? 0 then WMsg
              else match sw_noresp r with Some c => WTimeout w (ustr (c_uuid c)) | None => WMsg end
  end.
Definition router_of (r : srouter U) : router :=
  RSwitch (sw_operand r) (map case_of (sw_cases r)) (map cat_of (all_categories r)) (ustr (c_uuid (sw_default r)))
          (wait_of r) (result_of (sw_result r)).

Definition node_of (n : node U) : Flow.node :=
  let acts := map (fun a => ([], act_payload a)) (n_actions n) in
  match n_kind n with
  | NBasic _ d => mkNode (ustr (n_uuid n)) acts [mkExit [] (option_map ustr d)] None
  | NRouter _ _ r => mkNode (ustr (n_uuid n)) acts (map exit_of (all_categories r)) (Some (router_of r))
  | NRandom _ result cats =>
    mkNode (ustr (n_uuid n)) acts (map exit_of cats) (Some (RRandom (map cat_of cats) (result_of result)))
  end.

Definition flow_of (ns : list (node U)) : flow := mkFlow [] [] (map node_of ns).

(* ---------------------------------------------------------------- abs_rows *)
Definition pv_str (v : pv U) : str :=
  match v with PU u => ustr u | PV (VS s) => s | PV _ => [] end.
Definition fld_s (p : pay U) (k : str) : str :=
  match assoc_str k p with Some (PV (VS s)) => s | _ => [] end.
Definition fld_l (p : pay U) (k : str) : list str :=
  match assoc_str k p with Some (PV (VL l)) => l | _ => [] end.
Definition fld_ll (p : pay U) (k : str) : list (list str) :=
  match assoc_str k p with Some (PV (VLL l)) => l | _ => [] end.
Definition pair_of_list (l : list str) : str * str :=
  match l with a :: b :: _ => (a, b) | [a] => (a, []) | [] => ([], []) end.

(* rowref.expected_action *)
Definition media_att (p : pay U) (k : str) : list str :=
  let v := strip (fld_s p k) in
  match v with [] => [] | _ => [k ++ [58] ++ v] end.
Definition row_payload (tp : str) (p : pay U) : option sexp :=
  if str_eqb tp t_send_message then
    Some (p_send_msg (fld_s p (lit "mainarg_message_text"))
                     (media_att p (lit "image") ++ media_att p (lit "audio") ++ media_att p (lit "video")
                      ++ filter nonempty (fld_l p (lit "attachments")))
                     (filter nonempty (fld_l p (lit "choices")))
                     (match assoc_str (lit "wa_template.name") p with
                      | Some _ => Some (fld_s p (lit "wa_template.name"), fld_s p (lit "wa_template.uuid"),
                                        fld_l p (lit "wa_template.variables"))
                      | None => None
                      end))
  else if str_eqb tp t_save_value then Some (p_set_field (fld_s p (lit "save_name")) (fld_s p (lit "mainarg_value")))
  else if str_eqb tp t_add_to_group then
    Some (p_groups true (match fld_l p (lit "mainarg_groups") with g :: _ => g | [] => [] end))
  else if str_eqb tp t_remove_from_group then
    Some (p_groups false (match fld_l p (lit "mainarg_groups") with g :: _ => g | [] => [] end))
  else if str_eqb tp t_save_flow_result then
    Some (p_set_result (fld_s p (lit "save_name")) (fld_s p (lit "mainarg_value")) (fld_s p (lit "result_category")))
  else if starts_with t_set_contact_ tp then Some (p_set_prop (skipn 12 tp) (fld_s p (lit "mainarg_value")))
  else if str_eqb tp t_add_contact_urn then
    Some (p_urn (fld_s p (lit "mainarg_value")) (str_or (fld_s p (lit "urn_scheme")) (lit "tel")))
  else if str_eqb tp t_start_new_flow then Some (p_enter_flow (fld_s p (lit "mainarg_flow_name")))
  else if str_eqb tp t_call_webhook then
    Some (p_webhook (fld_s p (lit "webhook.url")) (str_or (fld_s p (lit "webhook.method")) (lit "POST"))
                    (fld_s p (lit "webhook.body")) (map pair_of_list (fld_ll p (lit "webhook.headers")))
                    (fld_s p (lit "save_name")))
  else if str_eqb tp t_transfer_airtime then
    Some (p_airtime (map pair_of_list (fld_ll p (lit "mainarg_dict"))) (fld_s p (lit "save_name")))
  else None.

Definition acts_of (tp : str) (p : pay U) : list sexp :=
  match row_payload tp p with Some x => [x] | None => [] end.

(* class, actions and initial decision of a node row (rowref.row_sexp) *)
Definition abs_nkind (tp : str) (p : pay U) : eclass * list sexp * option rdec :=
  if str_eqb tp t_wait then
    (EWait, [], Some (dec_wait (match parse_dec (fld_s p (lit "no_response")) with Some t => t | None => 0 end)
                               (fld_s p (lit "save_name"))))
  else if str_eqb tp t_split_value then
    (ESplit, [], Some (dec_split (fld_s p (lit "mainarg_expression")) (fld_s p (lit "save_name"))))
  else if str_eqb tp t_split_group then (EGroup, [], Some (dec_split s_contact_groups (fld_s p (lit "save_name"))))
  else if str_eqb tp t_split_random then (ERandom, [], Some (dec_random (fld_s p (lit "save_name"))))
  else if str_eqb tp t_start_new_flow then (EFlow, acts_of tp p, Some dec_enter)
  else if str_eqb tp t_call_webhook then (EOutcome, acts_of tp p, dec_webhook (fld_s p (lit "save_name")))
  else if str_eqb tp t_transfer_airtime then (EOutcome, acts_of tp p, dec_airtime (fld_s p (lit "save_name")))
  else (EAction, acts_of tp p, None).

(* over any type of row ids: the temporary ids of the exporter and the final strings *)
Definition abs_kind {I} (r : row U I) : @fkind I :=
  if str_eqb (r_type r) t_go_to then FKGoto (r_goto r)
  else if str_eqb (r_type r) t_loose_exit then FKLoose
  else let '(c, a, d) := abs_nkind (r_type r) (r_pay r) in FKNode c a d.

Definition abs_type (r : row U str) : rtype := to_rtype (abs_kind r).

Definition abs_from (f : str) : efrom :=
  match f with [] => FBlank | _ => if str_eqb f s_start then FStart else FRow f end.
Definition abs_cond (c : cond U) : econd :=
  mkCond (pv_str (cd_value c)) (cd_variable c) (cd_type c) (cd_name c).
Definition abs_edge (e : edge U str) : redge := mkEdge (abs_from (ToRows.e_from e)) (abs_cond (ToRows.e_cond e)).

(* strip = the sheet was written with --strip_uuids: the `_nodeId` column is excluded *)
Definition abs_name {I} (strip_uuids : bool) (r : row U I) : str :=
  if strip_uuids then []
  else match assoc_str f_node_uuid (r_pay r) with Some (PU u) => ustr u | _ => [] end.

Definition abs_row (strip_uuids : bool) (r : row U str) : RowSem.row :=
  mkRow (abs_type r) (ToRows.r_id r) (abs_name strip_uuids r) (map abs_edge (ToRows.r_edges r)).
Definition abs_rows (strip_uuids : bool) (rows : list (row U str)) : list RowSem.row := map (abs_row strip_uuids) rows.

(* the same reading as a flat sheet over the temporary ids *)
Definition fabs_from (t : tid U) : @ffrom (tid U) := match t with TStart => FFStart | _ => FFRow t end.
Definition fabs_edge (e : edge U (tid U)) : @fedge (tid U) := mkFEdge (fabs_from (ToRows.e_from e)) (abs_cond (ToRows.e_cond e)).
Definition fabs_row (strip_uuids : bool) (r : row U (tid U)) : @frow (tid U) :=
  mkFRow (abs_kind r) (ToRows.r_id r) (abs_name strip_uuids r) (map fabs_edge (ToRows.r_edges r)).

(* ---------------------------------------------------------------- the statement, executable *)
(* 0 = the export fails; 1 = the rows have no reference meaning; 2 = flow not simulated by the reference;
   3 = reference not simulated by the flow; 4 = holds *)
Definition means_check (numbered strip_uuids : bool) (ns : list (node U)) : N :=
  match to_rows ueqb numbered ns with
  | Err _ => 0
  | Ok rows =>
    match rowsem nab (abs_rows strip_uuids rows) with
    | None => 1
    | Some ref =>
      if negb (sim_check (fun a b => smatch b a) (flow_of ns) ref) then 2
      else if negb (sim_check smatch ref (flow_of ns)) then 3
      else 4
    end
  end.

End Means.
