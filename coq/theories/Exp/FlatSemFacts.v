(* C04 — facts about the flat reference reading (Exp/FlatSem.v):
   fsem_rowsem     on strings, the meaning RowSem.rowsem of a flat sheet is the flow of the nodes FlatSem.fsem makes, in the
                   order in which they were made (RefFlowFacts.flat_flow);
   fsem_rename     renaming the row ids injectively (on the ids of the sheet) does not change the nodes. *)
From Coq Require Import List NArith Bool Arith Lia.
From RPFT Require Import Base.Sexp Base.PyStr Base.PyStrFacts Base.SexpEq Flow.Lts Flow.Flow Flow.RowSem Exp.FlatSem Exp.RefFlowFacts.
Import ListNotations.

(* ---------------------------------------------------------------- RowSem on flat sheets *)
Section ToRowSem.
Variable no_args : str -> bool.

(* group g of the RowSem state is the row group of node k with class cls, for (k, cls) = nth G g *)
Record FSim (G : list (nat * eclass)) (fs : @fstate str) (s : st) : Prop := {
  fsim_nodes : s_nodes s = fs_nodes fs;
  fsim_groups : s_groups s = map (fun kc => GRow (fst kc) (snd kc)) G;
  fsim_rowmap : Forall2 (fun a b => fst a = fst b /\ nth_error G (snd a) = Some (snd b)) (s_rowmap s) (fs_rowmap fs);
  fsim_names : s_names s = fs_names fs }.

(* the groups are the row groups of the nodes 0, 1, 2, ... in this order, all in the one (outermost) block: the reference
   flow lists the nodes in the order in which they were made *)
Definition FIdx (G : list (nat * eclass)) (fs : @fstate str) (s : st) : Prop :=
  map fst G = seq 0 (length (fs_nodes fs)) /\ s_stack s = [seq 0 (length G)].

Lemma update_length {X} (l : list X) k x : length (update l k x) = length l.
Proof. revert k. induction l as [|a l IH]; intros [|k]; cbn; auto. Qed.

Lemma add_exit_row f s g k cls c tgt :
  nth_error (s_groups s) g = Some (GRow k cls) ->
  add_exit no_args (S f) s g c tgt =
  match nth_error (s_nodes s) k with
  | None => None
  | Some n => match apply_row_edge no_args n cls c tgt with Some n' => Some (set_node s k n') | None => None end
  end.
Proof. intros H. cbn [add_exit]. rewrite H. reflexivity. Qed.

Lemma entry_node_row s g k cls : nth_error (s_groups s) g = Some (GRow k cls) -> entry_node (fuel_of s) s g = Some k.
Proof. intros H. unfold fuel_of. cbn [entry_node]. rewrite H. reflexivity. Qed.

Lemma rowmap_look G (m : list (str * nat)) (m' : list (str * (nat * eclass))) i :
  Forall2 (fun a b => fst a = fst b /\ nth_error G (snd a) = Some (snd b)) m m' ->
  match flook str_eqb m' i with
  | Some x => exists g, alookup m i = Some g /\ nth_error G g = Some x
  | None => alookup m i = None
  end.
Proof.
  induction 1 as [|[a g] [b x] m m' [E1 E2] _ IH]; cbn [flook alookup]; [reflexivity|].
  cbn [fst snd] in E1, E2. subst b. destruct (str_eqb a i); [exists g; split; [reflexivity|exact E2]|exact IH].
Qed.

Lemma nth_group G g (x : nat * eclass) : nth_error G g = Some x ->
  nth_error (map (fun kc : nat * eclass => GRow (fst kc) (snd kc)) G) g = Some (GRow (fst x) (snd x)).
Proof. intros H. rewrite nth_error_map, H. reflexivity. Qed.

Lemma fapply_sim G fs s e tgt fs' :
  FSim G fs s -> fapply str_eqb no_args fs e tgt = Some fs' ->
  exists s', add_row_edge no_args s (to_redge e) tgt = Some s' /\ FSim G fs' s' /\ s_stack s' = s_stack s
             /\ length (fs_nodes fs') = length (fs_nodes fs).
Proof.
  intros [H1 H2 H3 H4] H. unfold fapply in H. unfold add_row_edge, source_group. cbn [to_redge e_from e_cond].
  destruct (fe_from e) as [|i]; cbn [to_efrom].
  - injection H as <-. exists s. split; [reflexivity|]. split; [constructor; assumption|split; reflexivity].
  - pose proof (rowmap_look G _ _ i H3) as Hl. destruct (flook str_eqb (fs_rowmap fs) i) as [[k cls]|]; [|discriminate].
    destruct Hl as (g & Hg & Hx). rewrite Hg. unfold fuel_of.
    rewrite (add_exit_row _ s g k cls) by (rewrite H2; apply (nth_group G g (k, cls) Hx)).
    rewrite H1. destruct (nth_error (fs_nodes fs) k) as [n|]; [|discriminate].
    destruct (apply_row_edge no_args n cls (fe_cond e) tgt) as [n'|]; [|discriminate].
    injection H as <-. eexists. split; [reflexivity|]. split; [|split; [reflexivity|apply update_length]].
    constructor; cbn [set_node s_nodes s_groups s_rowmap s_names fs_nodes fs_rowmap fs_names]; try assumption. rewrite H1. reflexivity.
Qed.

Lemma fapply_all_sim G es tgt : forall fs s fs',
  FSim G fs s -> fapply_all str_eqb no_args fs es tgt = Some fs' ->
  exists s', fold_edges no_args s (map to_redge es) (fun _ => tgt) = Some s' /\ FSim G fs' s' /\ s_stack s' = s_stack s
             /\ length (fs_nodes fs') = length (fs_nodes fs).
Proof.
  unfold fapply_all, fold_edges. induction es as [|e es IH]; intros fs s fs' Hs H; cbn [fold_left map] in *.
  - injection H as <-. exists s. split; [reflexivity|]. split; [exact Hs|split; reflexivity].
  - destruct (fapply str_eqb no_args fs e tgt) as [fs1|] eqn:E1.
    + destruct (fapply_sim G fs s e tgt fs1 Hs E1) as (s1 & A1 & Hs1 & St1 & Ln1). rewrite A1.
      destruct (IH fs1 s1 fs' Hs1 H) as (s' & A & Hs' & St & Ln). exists s'. split; [exact A|]. split; [exact Hs'|split; congruence].
    + exfalso. clear -H. induction es as [|x r IHr]; cbn in H; [discriminate|]. apply IHr, H.
Qed.

Lemma fold_none {X Y} (f : Y -> X -> option Y) (l : list X) :
  fold_left (fun os e => match os with Some s' => f s' e | None => None end) l None = None.
Proof. induction l as [|x r IH]; cbn; [reflexivity|exact IH]. Qed.

Lemma FSim_grow (G : list (nat * eclass)) x (a : list (str * nat)) (b : list (str * (nat * eclass))) :
  Forall2 (fun a b => fst a = fst b /\ nth_error G (snd a) = Some (snd b)) a b ->
  Forall2 (fun a b => fst a = fst b /\ nth_error (G ++ [x]) (snd a) = Some (snd b)) a b.
Proof.
  induction 1 as [|p q a b [E1 E2] _ IH]; constructor; [|exact IH]. split; [exact E1|].
  rewrite nth_error_app1; [exact E2|]. apply nth_error_Some. congruence.
Qed.

Definition id_ok (r : @frow str) : Prop := fr_id r <> [].

(* RowSem's reading of a node row that is not merged *)
Definition rnew (s : st) (r : row) (cls : eclass) (acts : list sexp) (dec0 : option rdec) : option st :=
  let (s1, k) := add_node s (mkRNode acts dec0 DNone) in
  let es := drop_padding (r_edges r) in
  match fold_edges no_args s1 es (fun _ => DNode k) with
  | None => None
  | Some s2 => let (s3, g) := add_group s2 (GRow k cls) (r_id r) in Some (push_names s3 (r_node_name r) k)
  end.

Lemma no_trivial (es : list (@fedge str)) : drop_padding (map to_redge es) = map to_redge es.
Proof.
  unfold drop_padding. destruct es as [|e0 rest]; [reflexivity|]. cbn [map]. f_equal.
  induction rest as [|x rest IH]; [reflexivity|]. cbn [map filter]. unfold edge_trivial at 1. cbn [to_redge e_from].
  destruct (fe_from x); cbn [to_efrom negb]; rewrite IH; reflexivity.
Qed.

(* every edge of a flat row names its origin: nothing of it is padding *)
Lemma read_flat (r : @frow str) : read_row (to_rsrow r) = to_rsrow r.
Proof. unfold read_row. cbn [to_rsrow r_type r_id r_node_name r_edges]. rewrite no_trivial. reflexivity. Qed.

Lemma fnew_sim G fs s r cls acts dec0 fs' :
  id_ok r -> FSim G fs s -> FIdx G fs s -> fstep_new str_eqb no_args fs r cls acts dec0 = Some fs' ->
  exists G' s', rnew s (to_rsrow r) cls acts dec0 = Some s' /\ FSim G' fs' s' /\ FIdx G' fs' s'.
Proof.
  intros Hid Hs [Ix1 Ix2] H. unfold fstep_new in H. unfold rnew, add_node. cbn [to_rsrow r_edges r_id r_node_name].
  rewrite (fsim_nodes _ _ _ Hs), no_trivial.
  destruct (fapply_all str_eqb no_args _ (fr_edges r) _) as [fs2|] eqn:E2; [|discriminate].
  assert (Hs1 : FSim G (mkFS (fs_nodes fs ++ [mkRNode acts dec0 DNone]) (fs_rowmap fs) (fs_names fs))
                     (mkSt (fs_nodes fs ++ [mkRNode acts dec0 DNone]) (s_groups s) (s_rowmap s) (s_names s) (s_stack s))).
  { destruct Hs as [A1 A2 A3 A4]. constructor; cbn; try assumption. reflexivity. }
  destruct (fapply_all_sim G _ _ _ _ fs2 Hs1 E2) as (s2 & A & Hs2 & St2 & Ln2). rewrite A.
  cbn [s_stack fs_nodes] in St2, Ln2. rewrite app_length in Ln2. cbn [length] in Ln2.
  injection H as <-. unfold add_group. destruct Hs2 as [B1 B2 B3 B4].
  exists (G ++ [(length (fs_nodes fs), cls)]). eexists. split; [reflexivity|].
  assert (Hlen : length (s_groups s2) = length G) by (rewrite B2, map_length; reflexivity).
  assert (HIdx : map fst (G ++ [(length (fs_nodes fs), cls)]) = seq 0 (length (fs_nodes fs2))
                 /\ match s_stack s2 with [] => [[length (s_groups s2)]] | top :: r0 => (top ++ [length (s_groups s2)]) :: r0 end
                    = [seq 0 (length (G ++ [(length (fs_nodes fs), cls)]))]).
  { split.
    - rewrite map_app, Ix1, Ln2, Nat.add_1_r, seq_S. reflexivity.
    - rewrite St2, Ix2, Hlen, app_length, Nat.add_1_r, seq_S. reflexivity. }
  split; [|unfold FIdx; destruct (fr_name r); cbn [push_names s_stack fs_nodes]; exact HIdx].
  unfold id_ok in Hid. destruct (fr_id r) as [|c0 rid] eqn:Eid; [exfalso; apply Hid; reflexivity|].
  assert (Hrm : Forall2 (fun a b => fst a = fst b /\ nth_error (G ++ [(length (fs_nodes fs), cls)]) (snd a) = Some (snd b))
                        ((c0 :: rid, length (s_groups s2)) :: s_rowmap s2) ((c0 :: rid, (length (fs_nodes fs), cls)) :: fs_rowmap fs2)).
  { constructor; [cbn [fst snd]; split; [reflexivity|rewrite Hlen, nth_error_app2, Nat.sub_diag by lia; reflexivity]|apply FSim_grow; exact B3]. }
  unfold push_names. destruct (fr_name r) as [|c1 nm]; constructor;
    cbn [s_nodes s_groups s_rowmap s_names fs_nodes fs_rowmap fs_names]; try assumption;
    try (rewrite B2, map_app; reflexivity).
  rewrite B4. reflexivity.
Qed.

Lemma fmerge_sim G fs s r k acts fs' :
  id_ok r -> FSim G fs s -> fstep_merge str_eqb fs r k acts = Some fs' ->
  exists s',
    match r_edges (to_rsrow r) with
    | [e] =>
      if negb (cond_blank (e_cond e)) then None
      else match source_group s e with
           | Some (Some g) =>
             match entry_node (fuel_of s) s g, nth_error (s_nodes s) k with
             | Some k', Some n =>
               if Nat.eqb k k'
               then Some (alias_row (set_node s k (mkRNode (rn_actions n ++ acts) (rn_dec n) (rn_cont n))) (r_id (to_rsrow r)) g)
               else None
             | _, _ => None
             end
           | _ => None
           end
    | _ => None
    end = Some s' /\ FSim G fs' s' /\ s_stack s' = s_stack s /\ length (fs_nodes fs') = length (fs_nodes fs).
Proof.
  intros Hid Hs H. unfold fstep_merge in H. cbn [to_rsrow r_edges r_id].
  destruct (fr_edges r) as [|e [|e1 rest]]; try discriminate. cbn [map].
  cbn [to_redge e_cond]. destruct (cond_blank (fe_cond e)); cbn [negb] in *; [|discriminate].
  unfold source_group. cbn [to_redge e_from]. destruct (fe_from e) as [|i]; [discriminate|]. cbn [to_efrom].
  destruct Hs as [A1 A2 A3 A4].
  pose proof (rowmap_look G _ _ i A3) as Hl. destruct (flook str_eqb (fs_rowmap fs) i) as [[k' cls']|]; [|discriminate].
  destruct Hl as (g & Hg & Hx). rewrite Hg.
  rewrite (entry_node_row s g k' cls') by (rewrite A2; apply (nth_group G g (k', cls') Hx)). rewrite A1.
  destruct (nth_error (fs_nodes fs) k) as [n|]; [|discriminate].
  destruct (Nat.eqb k k'); [|discriminate]. injection H as <-.
  eexists. split; [reflexivity|].
  unfold alias_row. unfold id_ok in Hid. destruct (fr_id r) as [|c0 rid] eqn:Eid; [exfalso; apply Hid; reflexivity|].
  split; [|split; [reflexivity|apply update_length]].
  constructor; cbn [set_node s_nodes s_groups s_rowmap s_names fs_nodes fs_rowmap fs_names]; try assumption.
  - rewrite A1. reflexivity.
  - constructor; [cbn [fst snd]; split; [reflexivity|exact Hx]|exact A3].
Qed.

Lemma fgoto_sim G es : forall tg fs s fs',
  FSim G fs s ->
  fold_left (fun os et => match os with
                          | None => None
                          | Some s' => match flook str_eqb (fs_rowmap s') (snd et) with
                                       | Some (k, _) => fapply str_eqb no_args s' (fst et) (DNode k)
                                       | None => None
                                       end
                          end) (combine es tg) (Some fs) = Some fs' ->
  exists s',
    fold_left (fun os et => match os with
                            | None => None
                            | Some s' => match alookup (s_rowmap s') (snd et) with
                                         | None => None
                                         | Some g => match entry_node (fuel_of s') s' g with
                                                     | Some k => add_row_edge no_args s' (fst et) (DNode k)
                                                     | None => None
                                                     end
                                         end
                            end) (combine (map to_redge es) tg) (Some s) = Some s' /\ FSim G fs' s'
                                 /\ s_stack s' = s_stack s /\ length (fs_nodes fs') = length (fs_nodes fs).
Proof.
  induction es as [|e es IH]; intros tg fs s fs' Hs H; cbn [map combine fold_left] in *.
  - injection H as <-. exists s. split; [reflexivity|split; [exact Hs|split; reflexivity]].
  - destruct tg as [|t tg]; cbn [combine fold_left] in *; [injection H as <-; exists s; split; [reflexivity|split; [exact Hs|split; reflexivity]]|].
    cbn [fst snd] in *.
    pose proof (rowmap_look G _ _ t (fsim_rowmap _ _ _ Hs)) as Hl.
    destruct (flook str_eqb (fs_rowmap fs) t) as [[k cls]|]; [|rewrite fold_none in H; discriminate].
    destruct Hl as (g & Hg & Hx). rewrite Hg.
    rewrite (entry_node_row s g k cls) by (rewrite (fsim_groups _ _ _ Hs); apply (nth_group G g (k, cls) Hx)).
    destruct (fapply str_eqb no_args fs e (DNode k)) as [fs1|] eqn:E1; [|rewrite fold_none in H; discriminate].
    destruct (fapply_sim G fs s e (DNode k) fs1 Hs E1) as (s1 & A1 & Hs1 & St1 & Ln1). rewrite A1.
    destruct (IH tg fs1 s1 fs' Hs1 H) as (s' & A & Hs' & St & Ln). exists s'. split; [exact A|split; [exact Hs'|split; congruence]].
Qed.

Lemma FIdx_keep G fs s fs' s' :
  FIdx G fs s -> s_stack s' = s_stack s -> length (fs_nodes fs') = length (fs_nodes fs) -> FIdx G fs' s'.
Proof. intros [A B] C D. split; congruence. Qed.

Lemma fstep_sim G fs s r fs' :
  id_ok r -> FSim G fs s -> FIdx G fs s -> fstep str_eqb no_args fs r = Some fs' ->
  exists G' s', step_row no_args s (to_rsrow r) = Some s' /\ FSim G' fs' s' /\ FIdx G' fs' s'.
Proof.
  intros Hid Hs Hx H. unfold fstep in H.
  destruct (fr_kind r) as [cls acts dec0|tgts|] eqn:Ek.
  - (* node row *)
    assert (Hnew : fstep_new str_eqb no_args fs r cls acts dec0 = Some fs' ->
                   step_row no_args s (to_rsrow r) = rnew s (to_rsrow r) cls acts dec0 ->
                   exists G' s', step_row no_args s (to_rsrow r) = Some s' /\ FSim G' fs' s' /\ FIdx G' fs' s').
    { intros H1 H2. rewrite H2. exact (fnew_sim G fs s r cls acts dec0 fs' Hid Hs Hx H1). }
    unfold merges in H. pose proof (fsim_names _ _ _ Hs) as Hn.
    destruct (fr_name r) as [|c1 nm] eqn:En.
    { apply Hnew; [exact H|]. unfold step_row, rnew. cbn [to_rsrow r_type r_node_name]. rewrite Ek, En. cbn [to_rtype]. reflexivity. }
    destruct (merge_actions cls acts) as [|a0 macts] eqn:Em.
    { apply Hnew; [exact H|]. unfold step_row, rnew. cbn [to_rsrow r_type r_node_name]. rewrite Ek, En. cbn [to_rtype]. rewrite Em.
      destruct (alookup (s_names s) (c1 :: nm)); reflexivity. }
    destruct (alookup (fs_names fs) (c1 :: nm)) as [k|] eqn:Ea.
    + destruct (fmerge_sim G fs s r k acts fs' Hid Hs H) as (s' & A & Hs' & St & Ln).
      exists G, s'. split; [|split; [exact Hs'|exact (FIdx_keep _ _ _ _ _ Hx St Ln)]]. rewrite <- A.
      unfold step_row. cbn [to_rsrow r_type r_node_name r_edges r_id]. rewrite Ek, En, Hn, Ea. cbn [to_rtype]. rewrite Em. reflexivity.
    + apply Hnew; [exact H|]. unfold step_row, rnew. cbn [to_rsrow r_type r_node_name]. rewrite Ek, En, Hn, Ea. cbn [to_rtype]. reflexivity.
  - (* go_to *)
    unfold fstep_goto in H. unfold step_row. cbn [to_rsrow r_type r_edges]. rewrite Ek. cbn [to_rtype]. rewrite map_length.
    destruct (negb (Nat.eqb (length (match tgts with [t] => repeat t (length (fr_edges r)) | _ => tgts end)) (length (fr_edges r)))); [discriminate|].
    destruct (fgoto_sim G _ _ fs s fs' Hs H) as (s' & A & Hs' & St & Ln). exists G, s'.
    split; [exact A|split; [exact Hs'|exact (FIdx_keep _ _ _ _ _ Hx St Ln)]].
  - (* loose_exit *)
    unfold step_row. cbn [to_rsrow r_type r_edges]. rewrite Ek. cbn [to_rtype].
    destruct (fapply_all_sim G _ _ _ _ fs' Hs H) as (s' & A & Hs' & St & Ln). exists G, s'.
    split; [exact A|split; [exact Hs'|exact (FIdx_keep _ _ _ _ _ Hx St Ln)]].
Qed.

Lemma frun_sim rows : forall G fs s fs',
  Forall id_ok rows -> FSim G fs s -> FIdx G fs s -> frun str_eqb no_args rows fs = Some fs' ->
  exists G' s', run_rows no_args (map to_rsrow rows) s [] = Some s' /\ FSim G' fs' s' /\ FIdx G' fs' s'.
Proof.
  unfold frun. induction rows as [|r rows IH]; intros G fs s fs' Hid Hs Hx H; cbn [fold_left map run_rows] in *.
  - injection H as <-. exists G, s. split; [reflexivity|split; [exact Hs|exact Hx]].
  - inversion Hid as [|? ? Hr Hrest]; subst.
    destruct (fstep str_eqb no_args fs r) as [fs1|] eqn:E1; [|rewrite fold_none in H; discriminate].
    destruct (fstep_sim G fs s r fs1 Hr Hs Hx E1) as (G1 & s1 & A1 & Hs1 & Hx1).
    assert (Et : match r_type (to_rsrow r) with TEndBlock => False | TBeginBlock => False | _ => True end).
    { cbn [to_rsrow r_type]. destruct (fr_kind r); exact I. }
    destruct (r_type (to_rsrow r)) eqn:Ety; try contradiction; rewrite A1; apply (IH G1 fs1 s1 fs' Hrest Hs1 Hx1 H).
Qed.

(* the reference flow of such a state: the nodes in the order in which they were made *)
Lemma flat_nodes_from (pre l : list rnode) :
  flat_map (fun k => match nth_error (pre ++ l) k with Some n => [to_node k n] | None => [] end) (seq (length pre) (length l))
  = map (fun kn => to_node (fst kn) (snd kn)) (number_from (length pre) l).
Proof.
  revert pre. induction l as [|a l IH]; intros pre; [reflexivity|]. cbn [length seq flat_map number_from map fst snd].
  rewrite nth_error_app2, Nat.sub_diag by lia. cbn [nth_error app]. f_equal.
  specialize (IH (pre ++ [a])). rewrite app_length, Nat.add_1_r, <- app_assoc in IH. exact IH.
Qed.

Lemma gnodes_rows (G : list (nat * eclass)) f : forall l, Forall (fun g => option_map fst (nth_error G g) = Some g) l ->
  flat_map (gnodes (S f) (map (fun kc : nat * eclass => GRow (fst kc) (snd kc)) G)) l = l.
Proof.
  induction 1 as [|g l Hg _ IH]; [reflexivity|]. cbn [flat_map]. rewrite IH. cbn [gnodes]. rewrite nth_error_map.
  destruct (nth_error G g) as [[k c]|]; [|discriminate]. cbn in Hg. injection Hg as ->. reflexivity.
Qed.

Lemma to_flow_flat G fs s : FSim G fs s -> FIdx G fs s -> to_flow s = flat_flow (fs_nodes fs).
Proof.
  intros Hs [Ix1 Ix2]. unfold to_flow, flat_flow, node_order. f_equal.
  assert (Hlen : length G = length (fs_nodes fs)) by (rewrite <- (map_length fst G), Ix1, seq_length; reflexivity).
  rewrite Ix2, (fsim_groups _ _ _ Hs), (fsim_nodes _ _ _ Hs). cbn [concat]. rewrite app_nil_r, gnodes_rows.
  - rewrite Hlen. exact (flat_nodes_from [] (fs_nodes fs)).
  - apply Forall_forall. intros g Hg. apply in_seq in Hg. rewrite <- nth_error_map, Ix1, <- Hlen.
    rewrite (nth_error_nth' (seq 0 (length G)) 0) by (rewrite seq_length; lia). rewrite seq_nth by lia. reflexivity.
Qed.

Theorem fsem_rowsem rows nodes :
  Forall id_ok rows -> fsem str_eqb no_args rows = Some nodes ->
  rowsem no_args (map to_rsrow rows) = Some (flat_flow nodes).
Proof.
  intros Hid H. unfold fsem in H. destruct (frun str_eqb no_args rows fs0) as [fs'|] eqn:E; [|discriminate]. injection H as <-.
  assert (H0 : FSim [] fs0 st0) by (constructor; cbn; try reflexivity; constructor).
  assert (X0 : FIdx [] fs0 st0) by (split; reflexivity).
  destruct (frun_sim rows [] fs0 st0 fs' Hid H0 X0 E) as (G' & s' & A & Hs' & Hx').
  unfold rowsem. rewrite map_map, (map_ext _ to_rsrow read_flat), A, (to_flow_flat G' fs' s' Hs' Hx'). reflexivity.
Qed.
End ToRowSem.

(* ---------------------------------------------------------------- renaming of row ids *)
Section Rename.
Variables (I J : Type) (ieqb : I -> I -> bool) (jeqb : J -> J -> bool).
Hypothesis ieqb_spec : forall a b, ieqb a b = true <-> a = b.
Hypothesis jeqb_spec : forall a b, jeqb a b = true <-> a = b.
Variable no_args : str -> bool.
Variable f : I -> J.
Variable P : I -> Prop.
Hypothesis f_inj : forall a b, P a -> P b -> f a = f b -> a = b.

Definition fstate_map (s : @fstate I) : @fstate J :=
  mkFS (fs_nodes s) (map (fun p => (f (fst p), snd p)) (fs_rowmap s)) (fs_names s).

Definition from_ids (x : @ffrom I) : list I := match x with FFStart => [] | FFRow i => [i] end.
Definition kind_ids (k : @fkind I) : list I := match k with FKGoto t => t | _ => [] end.
Definition row_ids (r : @frow I) : list I :=
  fr_id r :: kind_ids (fr_kind r) ++ flat_map (fun e => from_ids (fe_from e)) (fr_edges r).
Definition keys_ok (s : @fstate I) : Prop := Forall P (map fst (fs_rowmap s)).

Lemma eqb_f a b : P a -> P b -> jeqb (f a) (f b) = ieqb a b.
Proof.
  intros Ha Hb. destruct (ieqb a b) eqn:E.
  - apply ieqb_spec in E. subst. apply jeqb_spec. reflexivity.
  - destruct (jeqb (f a) (f b)) eqn:E'; [|reflexivity]. apply jeqb_spec in E'. apply (f_inj _ _ Ha Hb) in E'.
    apply ieqb_spec in E'. congruence.
Qed.

Lemma flook_map {X} (m : list (I * X)) i : Forall P (map fst m) -> P i ->
  flook jeqb (map (fun p => (f (fst p), snd p)) m) (f i) = flook ieqb m i.
Proof.
  intros Hm Hi. induction m as [|[j x] m IH]; cbn [map flook fst snd]; [reflexivity|].
  inversion Hm as [|? ? Hj Hr]; subst. rewrite (eqb_f j i Hj Hi). destruct (ieqb j i); [reflexivity|apply IH, Hr].
Qed.

Lemma fapply_map s e tgt : keys_ok s -> Forall P (from_ids (fe_from e)) ->
  fapply jeqb no_args (fstate_map s) (fedge_map f e) tgt = option_map fstate_map (fapply ieqb no_args s e tgt).
Proof.
  intros Hk He. unfold fapply. cbn [fedge_map fe_from fe_cond]. destruct (fe_from e) as [|i]; cbn [ffrom_map]; [reflexivity|].
  cbn [from_ids] in He. inversion He as [|? ? Hi _]; subst.
  cbn [fstate_map fs_rowmap fs_nodes fs_names]. rewrite (flook_map _ i Hk Hi).
  destruct (flook ieqb (fs_rowmap s) i) as [[k cls]|]; [|reflexivity].
  destruct (nth_error (fs_nodes s) k) as [n|]; [|reflexivity].
  destruct (apply_row_edge no_args n cls (fe_cond e) tgt); reflexivity.
Qed.

Lemma fapply_keys s e tgt s' : fapply ieqb no_args s e tgt = Some s' -> fs_rowmap s' = fs_rowmap s /\ fs_names s' = fs_names s /\ length (fs_nodes s') = length (fs_nodes s).
Proof.
  unfold fapply. destruct (fe_from e) as [|i]; [intros H; injection H as <-; auto|].
  destruct (flook ieqb (fs_rowmap s) i) as [[k cls]|]; [|discriminate].
  destruct (nth_error (fs_nodes s) k) as [n|]; [|discriminate].
  destruct (apply_row_edge no_args n cls (fe_cond e) tgt); [|discriminate].
  intros H; injection H as <-. cbn. repeat split.
  clear. revert k. induction (fs_nodes s) as [|a l IH]; intros [|k]; cbn; auto.
Qed.

Lemma fapply_all_keys es tgt : forall s s', fapply_all ieqb no_args s es tgt = Some s' ->
  fs_rowmap s' = fs_rowmap s /\ fs_names s' = fs_names s /\ length (fs_nodes s') = length (fs_nodes s).
Proof.
  unfold fapply_all. induction es as [|e es IH]; intros s s' H; cbn [fold_left] in H.
  - injection H as <-. auto.
  - destruct (fapply ieqb no_args s e tgt) as [s1|] eqn:E1; [|rewrite fold_none in H; discriminate].
    destruct (fapply_keys _ _ _ _ E1) as (A1 & A2 & A3). destruct (IH _ _ H) as (B1 & B2 & B3). repeat split; congruence.
Qed.

Lemma fapply_all_map es tgt : forall s, keys_ok s -> Forall P (flat_map (fun e => from_ids (fe_from e)) es) ->
  fapply_all jeqb no_args (fstate_map s) (map (fedge_map f) es) tgt = option_map fstate_map (fapply_all ieqb no_args s es tgt).
Proof.
  unfold fapply_all. induction es as [|e es IH]; intros s Hk He; cbn [map fold_left flat_map] in *; [reflexivity|].
  apply Forall_app in He as [He1 He2]. rewrite (fapply_map s e tgt Hk He1).
  destruct (fapply ieqb no_args s e tgt) as [s1|] eqn:E1; cbn [option_map]; [|rewrite !fold_none; reflexivity].
  apply IH; [|exact He2]. unfold keys_ok. destruct (fapply_keys _ _ _ _ E1) as (A1 & _). rewrite A1. exact Hk.
Qed.

Lemma fstep_map s r : keys_ok s -> Forall P (row_ids r) ->
  fstep jeqb no_args (fstate_map s) (frow_map f r) = option_map fstate_map (fstep ieqb no_args s r)
  /\ forall s', fstep ieqb no_args s r = Some s' -> keys_ok s'.
Proof.
  intros Hk Hr. unfold row_ids in Hr. inversion Hr as [|? ? Hid Hr']; subst. apply Forall_app in Hr' as [Hg He].
  unfold fstep. cbn [frow_map fr_kind fr_edges fr_name fr_id].
  destruct (fr_kind r) as [cls acts dec0|tgts|]; cbn [fkind_map kind_ids] in *.
  - unfold merges. cbn [frow_map fr_name fstate_map fs_names].
    assert (Hnew : fstep_new jeqb no_args (fstate_map s) (frow_map f r) cls acts dec0 = option_map fstate_map (fstep_new ieqb no_args s r cls acts dec0)
                   /\ forall s', fstep_new ieqb no_args s r cls acts dec0 = Some s' -> keys_ok s').
    { unfold fstep_new. cbn [frow_map fr_edges fr_id fr_name fstate_map fs_nodes fs_rowmap fs_names].
      change (mkFS (fs_nodes s ++ [mkRNode acts dec0 DNone]) (map (fun p => (f (fst p), snd p)) (fs_rowmap s)) (fs_names s))
        with (fstate_map (mkFS (fs_nodes s ++ [mkRNode acts dec0 DNone]) (fs_rowmap s) (fs_names s))).
      rewrite (fapply_all_map (fr_edges r) (DNode (length (fs_nodes s))) (mkFS (fs_nodes s ++ [mkRNode acts dec0 DNone]) (fs_rowmap s) (fs_names s)) Hk He).
      destruct (fapply_all ieqb no_args _ (fr_edges r) _) as [s2|] eqn:E2; cbn [option_map]; [|split; [reflexivity|discriminate]].
      split; [reflexivity|]. intros s' H. injection H as <-. unfold keys_ok. cbn [fs_rowmap map fst]. constructor; [exact Hid|].
      destruct (fapply_all_keys _ _ _ _ E2) as (A1 & _). rewrite A1. exact Hk. }
    destruct (fr_name r) as [|c1 nm]; [exact Hnew|]. destruct (merge_actions cls acts) as [|a0 macts]; [exact Hnew|].
    destruct (alookup (fs_names s) (c1 :: nm)) as [k|]; [|exact Hnew].
    unfold fstep_merge. cbn [frow_map fr_edges fr_id].
    destruct (fr_edges r) as [|e [|e1 rest]]; cbn [map]; try (split; [reflexivity|discriminate]).
    cbn [fedge_map fe_cond fe_from]. destruct (negb (cond_blank (fe_cond e))); [split; [reflexivity|discriminate]|].
    cbn [flat_map from_ids app] in He. destruct (fe_from e) as [|i]; cbn [ffrom_map]; [split; [reflexivity|discriminate]|].
    cbn [from_ids app] in He. inversion He as [|? ? Hi _]; subst.
    cbn [fstate_map fs_rowmap fs_nodes]. rewrite (flook_map _ i Hk Hi).
    destruct (flook ieqb (fs_rowmap s) i) as [[k' cls']|]; [|split; [reflexivity|discriminate]].
    destruct (nth_error (fs_nodes s) k) as [n|]; [|split; [reflexivity|discriminate]].
    destruct (Nat.eqb k k'); [|split; [reflexivity|discriminate]].
    split; [reflexivity|]. intros s' H. injection H as <-. unfold keys_ok. cbn [fs_rowmap map fst]. constructor; [exact Hid|exact Hk].
  - unfold fstep_goto. cbn [frow_map fr_edges]. rewrite map_length.
    assert (Et : match map f tgts with [t] => repeat t (length (fr_edges r)) | _ => map f tgts end
                 = map f (match tgts with [t] => repeat t (length (fr_edges r)) | _ => tgts end)).
    { destruct tgts as [|t [|t' tl]]; cbn [map]; try reflexivity. induction (length (fr_edges r)) as [|m IHm]; cbn [repeat map]; [reflexivity|]. rewrite IHm. reflexivity. }
    rewrite Et, map_length.
    assert (Hg' : Forall P (match tgts with [t] => repeat t (length (fr_edges r)) | _ => tgts end)).
    { destruct tgts as [|t [|t' tl]]; try exact Hg. inversion Hg; subst. apply Forall_forall. intros x Hx. apply repeat_spec in Hx. subst. assumption. }
    destruct (negb (Nat.eqb _ _)); [split; [reflexivity|discriminate]|].
    clear Et. revert Hg'. generalize (match tgts with [t] => repeat t (length (fr_edges r)) | _ => tgts end). intros tg Hg'.
    clear Hr Hg. revert tg Hg' s Hk He. induction (fr_edges r) as [|e es IH]; intros tg Hg' s Hk He; cbn [map combine fold_left].
    + split; [reflexivity|]. intros s' H; injection H as <-. exact Hk.
    + destruct tg as [|t tg]; cbn [map combine fold_left]; [split; [reflexivity|intros s' H; injection H as <-; exact Hk]|].
      inversion Hg' as [|? ? Ht Hg'']; subst. cbn [flat_map] in He. apply Forall_app in He as [He1 He2].
      cbn [fst snd]. change (fs_rowmap (fstate_map s)) with (map (fun p : I * (nat * eclass) => (f (fst p), snd p)) (fs_rowmap s)). rewrite (flook_map _ t Hk Ht).
      destruct (flook ieqb (fs_rowmap s) t) as [[k cls]|]; [|rewrite !fold_none; split; [reflexivity|discriminate]].
      rewrite (fapply_map s e (DNode k) Hk He1).
      destruct (fapply ieqb no_args s e (DNode k)) as [s1|] eqn:E1; cbn [option_map]; [|rewrite !fold_none; split; [reflexivity|discriminate]].
      apply IH; [exact Hg''| |exact He2]. unfold keys_ok. destruct (fapply_keys _ _ _ _ E1) as (A1 & _). rewrite A1. exact Hk.
  - split; [apply (fapply_all_map _ _ _ Hk He)|]. intros s' H. unfold keys_ok. destruct (fapply_all_keys _ _ _ _ H) as (A1 & _). rewrite A1. exact Hk.
Qed.

Lemma frun_map rows : forall s, keys_ok s -> Forall (fun r => Forall P (row_ids r)) rows ->
  frun jeqb no_args (map (frow_map f) rows) (fstate_map s) = option_map fstate_map (frun ieqb no_args rows s).
Proof.
  unfold frun. induction rows as [|r rows IH]; intros s Hk Hr; cbn [map fold_left]; [reflexivity|].
  inversion Hr as [|? ? Hr1 Hr2]; subst. destruct (fstep_map s r Hk Hr1) as [E Hk'].
  rewrite E. destruct (fstep ieqb no_args s r) as [s1|]; cbn [option_map]; [|rewrite !fold_none; reflexivity].
  apply IH; [apply Hk'; reflexivity|exact Hr2].
Qed.

Theorem fsem_rename rows : Forall (fun r => Forall P (row_ids r)) rows ->
  fsem jeqb no_args (map (frow_map f) rows) = fsem ieqb no_args rows.
Proof.
  intros Hr. unfold fsem. change (@fs0 J) with (fstate_map fs0). rewrite (frun_map rows fs0 (Forall_nil _) Hr).
  destruct (frun ieqb no_args rows fs0); reflexivity.
Qed.
End Rename.
