(* C04, finding padded-edge-columns.  A sheet is rectangular: a row with fewer edges than the widest row
   of the sheet has blank cells under edges.<i>.from / edges.<i>.condition..., which the row parser
   reads as one more edge, all blank.  FlowParser "omits trivial edges unless first"
   - for ordinary rows only (the loop at the end of _parse_row) on the tree with the finding,
   - for every row (FlowParser._parse_next_row) on the repaired tree:
   the regenerated probe [blank_edges_dropped] (translator/tables_c04.py) says which.
   This file models that filter and the padding, and proves that padding is inert for every kind of row
   once the filter is applied to every row.  Definitions first, facts below (small file). *)
From Coq Require Import String.
From Coq Require Import List NArith Bool Arith Lia.
From RPFT Require Import Base.Sexp Base.PyStr Base.Result Gen.Tables Exp.ToRows.
Import ListNotations.

Section Padding.
Variable U : Type.
Notation edge := (edge U str).

(* Edge() : from_ blank and the condition Condition() *)
Definition blank_edge : edge := {| e_from := []; e_cond := no_cond |}.
Definition edge_blank (e : edge) : bool := negb (nonempty (e_from e)) && cond_blank (e_cond e).

(* [edge for i, edge in enumerate(row.edges) if edge != Edge() or i == 0] *)
Definition drop_trivial (es : list edge) : list edge :=
  match es with
  | [] => []
  | e :: rest => e :: filter (fun x => negb (edge_blank x)) rest
  end.

(* ordinary: a row that makes a node of its own (action and router rows that are not merged into
   the node of the row before); other: go_to, no_op, hard_exit, loose_exit, insert_as_block, rows merged
   through a node name, begin_for / begin_block *)
Inductive rowkind := KOrdinary | KOther.

(* the edges FlowParser connects for a row whose cells were parsed into [es] *)
Definition applied_edges (k : rowkind) (es : list edge) : list edge :=
  if blank_edges_dropped then drop_trivial es
  else match k with KOrdinary => drop_trivial es | KOther => es end.

(* the row as it is read back from a sheet whose widest row has [width] edges *)
Definition pad (width : nat) (es : list edge) : list edge := es ++ repeat blank_edge (width - List.length es).

(* ---- facts *)
Lemma blank_edge_blank : edge_blank blank_edge = true.
Proof. reflexivity. Qed.

Lemma filter_repeat_blank n : filter (fun x => negb (edge_blank x)) (repeat blank_edge n) = [].
Proof. induction n as [|n IH]; [reflexivity|]. cbn [repeat filter]. rewrite blank_edge_blank. exact IH. Qed.

Lemma drop_trivial_pad w es : es <> [] -> drop_trivial (pad w es) = drop_trivial es.
Proof.
  destruct es as [|e rest]; [congruence|]. intros _. unfold pad, drop_trivial. cbn [app].
  rewrite filter_app, filter_repeat_blank, app_nil_r. reflexivity.
Qed.

Lemma filter_nonblank_id es : Forall (fun e : edge => nonempty (e_from e) = true) es -> filter (fun x => negb (edge_blank x)) es = es.
Proof.
  intros H. induction H as [|x l Hx Hl IH]; [reflexivity|]. cbn [filter]. unfold edge_blank at 1. rewrite Hx. cbn [negb andb]. f_equal. exact IH.
Qed.

Lemma drop_trivial_id es : Forall (fun e => nonempty (e_from e) = true) es -> drop_trivial es = es.
Proof.
  destruct es as [|e rest]; [reflexivity|]. intros H. inversion H as [|e0 l0 _ Hr]; subst. unfold drop_trivial. f_equal.
  apply filter_nonblank_id, Hr.
Qed.

(* The repair: padding changes nothing, for every kind of row ... *)
Theorem padding_is_inert_repaired :
  blank_edges_dropped = true ->
  forall k w es, es <> [] -> applied_edges k (pad w es) = applied_edges k es.
Proof. intros Hfix k w es Hne. unfold applied_edges. rewrite Hfix. apply drop_trivial_pad, Hne. Qed.

(* ... and the edges of an exported row (every one of them names the row it comes from) are read back
   exactly, whatever the width of the sheet *)
Theorem exported_edges_survive_padding_repaired :
  blank_edges_dropped = true ->
  forall k w es, es <> [] -> Forall (fun e => nonempty (e_from e) = true) es -> applied_edges k (pad w es) = es.
Proof.
  intros Hfix k w es Hne Hfrom. rewrite (padding_is_inert_repaired Hfix k w es Hne).
  unfold applied_edges. rewrite Hfix. apply drop_trivial_id, Hfrom.
Qed.

(* on either tree padding is inert for ordinary rows *)
Theorem padding_is_inert_ordinary w es : es <> [] -> applied_edges KOrdinary (pad w es) = applied_edges KOrdinary es.
Proof. intros Hne. unfold applied_edges. destruct blank_edges_dropped; apply drop_trivial_pad, Hne. Qed.

End Padding.

Arguments blank_edge {U}. Arguments edge_blank {U}. Arguments drop_trivial {U}. Arguments applied_edges {U}. Arguments pad {U}.

(* the witness: a go_to row with one edge, in a sheet whose widest row has two *)
Definition w_goto_edge : edge N str := {| e_from := [50%N]; e_cond := no_cond |}.

Lemma padded_goto_witness :
  applied_edges KOther (pad 2 [w_goto_edge])
  = if blank_edges_dropped then [w_goto_edge] else [w_goto_edge; blank_edge].
Proof. destruct blank_edges_dropped eqn:E; first [ vm_compute; reflexivity | exfalso; vm_compute in E; discriminate E ]. Qed.
