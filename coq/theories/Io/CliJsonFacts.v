(* E9 / C15 — the JSON reader of CliJson.v reads back what the writer wrote:
   parse_json (serialize j) = Some j for every tree whose strings are sequences of Unicode
   scalar values (no lone surrogates) and that contains no JRaw (floats are not produced by
   the compiler model). *)
From Coq Require Import List NArith ZArith Bool Lia ZifyBool.
From RPFT Require Import Base.Sexp Base.PyStr Base.Json Io.CliJson.
Import ListNotations.
Local Open Scope N_scope.

(* ------------------------------------------------------------ well-formedness *)
Definition scalar_ok (c : N) : bool := (c <? 55296) || ((57344 <=? c) && (c <? 1114112)).
Definition str_ok (s : str) : bool := forallb scalar_ok s.
Fixpoint json_ok (j : json) : bool :=
  match j with
  | JNull => true
  | JBool _ => true
  | JInt _ => true
  | JRaw _ => false
  | JStr s => str_ok s
  | JArr l => forallb json_ok l
  | JObj m => forallb (fun kv => str_ok (fst kv) && json_ok (snd kv)) m
  end.

(* ------------------------------------------------------------ white space *)
Lemma skip_ws_spaces : forall n x, skip_ws (spaces n ++ x) = skip_ws x.
Proof. induction n as [|n IH]; intro x; [reflexivity|]. exact (IH x). Qed.

Lemma skip_ws_nl : forall lvl x, skip_ws (newline_indent lvl ++ x) = skip_ws x.
Proof. intros lvl x. unfold newline_indent. exact (skip_ws_spaces (4 * lvl) x). Qed.

Lemma skip_ws_nonspace : forall c r, is_space c = false -> skip_ws (c :: r) = c :: r.
Proof. intros c r H. cbn [skip_ws]. rewrite H. reflexivity. Qed.

(* a number ends here: the next character is not a digit, '.', 'e' or 'E' *)
Definition num_end (rest : str) : bool :=
  match rest with
  | [] => true
  | c :: _ => negb (is_digit c) && negb ((c =? 46) || (c =? 101) || (c =? 69))
  end.

Lemma num_end_nl : forall lvl x, num_end (newline_indent lvl ++ x) = true.
Proof. reflexivity. Qed.

(* ------------------------------------------------------------ \uXXXX *)
Definition h3 (n : N) : char := hex_digit (N.modulo (N.div n 4096) 16).
Definition h2 (n : N) : char := hex_digit (N.modulo (N.div n 256) 16).
Definition h1 (n : N) : char := hex_digit (N.modulo (N.div n 16) 16).
Definition h0 (n : N) : char := hex_digit (N.modulo n 16).

Lemma u_escape_app : forall n tl,
  u_escape n ++ tl = 92 :: 117 :: h3 n :: h2 n :: h1 n :: h0 n :: tl.
Proof. reflexivity. Qed.

Lemma hex_val_digit : forall k, k < 16 -> hex_val (hex_digit k) = Some k.
Proof.
  intros k Hk.
  assert (H : k = 0 \/ k = 1 \/ k = 2 \/ k = 3 \/ k = 4 \/ k = 5 \/ k = 6 \/ k = 7 \/ k = 8 \/ k = 9
            \/ k = 10 \/ k = 11 \/ k = 12 \/ k = 13 \/ k = 14 \/ k = 15) by lia.
  repeat (destruct H as [H|H]; [subst k; reflexivity|]). subst k; reflexivity.
Qed.

Lemma hex4_arith : forall n, n < 65536 ->
  (n / 4096) mod 16 * 4096 + (n / 256) mod 16 * 256 + (n / 16) mod 16 * 16 + n mod 16 = n.
Proof.
  intros n Hn.
  replace (n / 4096) with (n / 16 / 16 / 16) by (rewrite !N.div_div by lia; reflexivity).
  replace (n / 256) with (n / 16 / 16) by (rewrite !N.div_div by lia; reflexivity).
  pose proof (N.div_mod n 16 ltac:(lia)) as E0. pose proof (N.mod_lt n 16 ltac:(lia)) as L0.
  set (q1 := n / 16) in *. set (d0 := n mod 16) in *.
  pose proof (N.div_mod q1 16 ltac:(lia)) as E1. pose proof (N.mod_lt q1 16 ltac:(lia)) as L1.
  set (q2 := q1 / 16) in *. set (d1 := q1 mod 16) in *.
  pose proof (N.div_mod q2 16 ltac:(lia)) as E2. pose proof (N.mod_lt q2 16 ltac:(lia)) as L2.
  set (q3 := q2 / 16) in *. set (d2 := q2 mod 16) in *.
  rewrite (N.mod_small q3 16) by lia. lia.
Qed.

(* the four hex digits of any n < 65536 read back as n *)
Lemma hex4_ok : forall n, n < 65536 -> hex4_val (h3 n) (h2 n) (h1 n) (h0 n) = Some n.
Proof.
  intros n Hn. unfold hex4_val, h3, h2, h1, h0.
  rewrite !hex_val_digit by (apply N.mod_lt; lia).
  rewrite (hex4_arith n Hn). reflexivity.
Qed.

(* ------------------------------------------------------------ string bodies *)
Definition psb_cont (x : N) (o : option (str * str)) : option (str * str) :=
  match o with Some (t, rest) => Some (x :: t, rest) | None => None end.

Lemma psb_bs_u : forall a b c d r2,
  parse_string_body (92 :: 117 :: a :: b :: c :: d :: r2) =
  match hex4_val a b c d with
  | None => None
  | Some hi =>
    if (55296 <=? hi) && (hi <=? 56319) then
      match r2 with
      | 92 :: 117 :: a' :: b' :: c' :: d' :: r3 =>
        match hex4_val a' b' c' d' with
        | Some lo =>
          if (56320 <=? lo) && (lo <=? 57343)
          then psb_cont (65536 + (hi - 55296) * 1024 + (lo - 56320)) (parse_string_body r3)
          else psb_cont hi (parse_string_body r2)
        | None => None
        end
      | _ => psb_cont hi (parse_string_body r2)
      end
    else psb_cont hi (parse_string_body r2)
  end.
Proof. reflexivity. Qed.

Lemma psb_u_single : forall a b c d hi r2,
  hex4_val a b c d = Some hi -> (55296 <=? hi) && (hi <=? 56319) = false ->
  parse_string_body (92 :: 117 :: a :: b :: c :: d :: r2) = psb_cont hi (parse_string_body r2).
Proof.
  intros a b c d hi r2 Hh Hr. rewrite psb_bs_u, Hh, Hr. reflexivity.
Qed.

Lemma psb_u_pair : forall a b c d a' b' c' d' hi lo r3,
  hex4_val a b c d = Some hi -> (55296 <=? hi) && (hi <=? 56319) = true ->
  hex4_val a' b' c' d' = Some lo -> (56320 <=? lo) && (lo <=? 57343) = true ->
  parse_string_body (92 :: 117 :: a :: b :: c :: d :: 92 :: 117 :: a' :: b' :: c' :: d' :: r3) =
  psb_cont (65536 + (hi - 55296) * 1024 + (lo - 56320)) (parse_string_body r3).
Proof.
  intros a b c d a' b' c' d' hi lo r3 Hh Hr Hh' Hr'.
  rewrite psb_bs_u, Hh, Hr. cbv beta iota. rewrite Hh', Hr'. reflexivity.
Qed.

Lemma psb_plain : forall c tl, c <> 34 -> c <> 92 -> 32 <= c ->
  parse_string_body (c :: tl) = psb_cont c (parse_string_body tl).
Proof.
  intros c tl H1 H2 H3. cbn [parse_string_body].
  destruct (N.eqb_spec c 34) as [E|_]; [contradiction|].
  destruct (N.eqb_spec c 92) as [E|_]; [contradiction|].
  destruct (N.ltb_spec c 32) as [E|_]; [lia|]. reflexivity.
Qed.

Lemma psb_simple : forall e x tl,
  In (e, x) [(34,34);(92,92);(110,10);(114,13);(116,9);(98,8);(102,12)] ->
  parse_string_body (92 :: e :: tl) = psb_cont x (parse_string_body tl).
Proof.
  intros e x tl H. cbn [In] in H.
  repeat (destruct H as [H|H]; [injection H as <- <-; reflexivity|]). contradiction.
Qed.

(* one character of the writer's output, read back *)
Lemma psb_char : forall c tl, scalar_ok c = true ->
  parse_string_body (esc_char c ++ tl) = psb_cont c (parse_string_body tl).
Proof.
  intros c tl Hc. unfold scalar_ok in Hc. unfold esc_char.
  destruct (N.eqb_spec c 34) as [->|N34]; [apply psb_simple; cbn [In]; tauto|].
  destruct (N.eqb_spec c 92) as [->|N92]; [apply psb_simple; cbn [In]; tauto|].
  destruct (N.eqb_spec c 10) as [->|N10]; [apply psb_simple; cbn [In]; tauto|].
  destruct (N.eqb_spec c 13) as [->|N13]; [apply psb_simple; cbn [In]; tauto|].
  destruct (N.eqb_spec c 9) as [->|N9]; [apply psb_simple; cbn [In]; tauto|].
  destruct (N.eqb_spec c 8) as [->|N8]; [apply psb_simple; cbn [In]; tauto|].
  destruct (N.eqb_spec c 12) as [->|N12]; [apply psb_simple; cbn [In]; tauto|].
  destruct (N.ltb_spec c 32) as [L32|G32].
  { rewrite u_escape_app. apply psb_u_single; [apply hex4_ok; lia | lia]. }
  destruct (N.ltb_spec c 127) as [L127|G127].
  { apply psb_plain; assumption. }
  destruct (N.ltb_spec c 65536) as [L16|G16].
  { rewrite u_escape_app. apply psb_u_single; [apply hex4_ok; lia | lia]. }
  cbv zeta.
  assert (Hn : c - 65536 < 1048576) by lia.
  pose proof (N.div_mod (c - 65536) 1024 ltac:(lia)) as E.
  pose proof (N.mod_lt (c - 65536) 1024 ltac:(lia)) as Lm.
  assert (Lq : (c - 65536) / 1024 < 1024) by (apply N.div_lt_upper_bound; lia).
  set (n := c - 65536) in *. set (q := n / 1024) in *. set (m := n mod 1024) in *.
  rewrite <- app_assoc. rewrite u_escape_app, u_escape_app.
  rewrite (psb_u_pair _ _ _ _ _ _ _ _ (55296 + q) (56320 + m));
    [ | apply hex4_ok; lia | lia | apply hex4_ok; lia | lia ].
  replace (65536 + (55296 + q - 55296) * 1024 + (56320 + m - 56320)) with c by lia.
  reflexivity.
Qed.

Lemma psb_esc : forall s rest, str_ok s = true ->
  parse_string_body (flat_map esc_char s ++ 34 :: rest) = Some (s, rest).
Proof.
  induction s as [|c s IH]; intros rest Hs.
  - reflexivity.
  - unfold str_ok in Hs. cbn [forallb] in Hs. apply andb_true_iff in Hs. destruct Hs as [Hc Hs].
    cbn [flat_map]. rewrite <- app_assoc. rewrite psb_char by exact Hc.
    rewrite (IH rest Hs). reflexivity.
Qed.

Lemma esc_string_app : forall s rest,
  esc_string s ++ rest = 34 :: flat_map esc_char s ++ 34 :: rest.
Proof. intros s rest. unfold esc_string. cbn [app]. rewrite <- app_assoc. reflexivity. Qed.

(* ------------------------------------------------------------ integers *)
Definition dstep (acc c : N) : N := acc * 10 + (c - 48).

Lemma pos_digits_S : forall f n acc,
  pos_digits (S f) n acc =
  if n / 10 =? 0 then (48 + n mod 10) :: acc else pos_digits f (n / 10) ((48 + n mod 10) :: acc).
Proof. reflexivity. Qed.

Lemma is_digit_48 : forall d, d < 10 -> is_digit (48 + d) = true.
Proof. intros d Hd. unfold is_digit. lia. Qed.

(* with fuel S k, any n < 2^k is written completely: the digits are decimal digits,
   there is at least one, and reading them back (continuing from a0) gives a0 * p + n *)
Lemma pos_digits_spec : forall k n acc, n < 2 ^ N.of_nat k ->
  exists ds, pos_digits (S k) n acc = ds ++ acc /\ ds <> [] /\ forallb is_digit ds = true /\
             exists p, forall a0, fold_left dstep ds a0 = a0 * p + n.
Proof.
  induction k as [|k IH]; intros n acc Hn.
  - assert (n = 0) by (cbn in Hn; lia). subst n.
    exists [48]. repeat split; try reflexivity; try discriminate.
    exists 10. intro a0. cbn [fold_left]. unfold dstep. lia.
  - rewrite pos_digits_S.
    pose proof (N.div_mod n 10 ltac:(lia)) as E.
    pose proof (N.mod_lt n 10 ltac:(lia)) as Lm.
    assert (Lq : n / 10 < 2 ^ N.of_nat k).
    { apply N.div_lt_upper_bound; [lia|].
      rewrite Nat2N.inj_succ, N.pow_succ_r' in Hn. lia. }
    set (q := n / 10) in *. set (d := n mod 10) in *.
    destruct (N.eqb_spec q 0) as [Eq|Nq].
    + exists [48 + d]. split; [reflexivity|]. split; [discriminate|]. split.
      * cbn [forallb]. rewrite is_digit_48 by exact Lm. reflexivity.
      * exists 10. intro a0. cbn [fold_left]. unfold dstep. lia.
    + destruct (IH q ((48 + d) :: acc) Lq) as (ds & Eds & Nds & Dds & p & Hp).
      exists (ds ++ [48 + d]). split.
      { destruct k as [|k'].
        - exfalso. cbn in Lq. lia.
        - rewrite Eds. rewrite <- app_assoc. reflexivity. }
      split. { intro Hnil. apply app_eq_nil in Hnil. destruct Hnil as [_ Hnil]. discriminate. }
      split. { rewrite forallb_app, Dds. cbn [forallb]. rewrite is_digit_48 by exact Lm. reflexivity. }
      exists (p * 10). intro a0. rewrite fold_left_app, Hp. cbn [fold_left]. unfold dstep. lia.
Qed.

Lemma size_bound : forall n, n < 2 ^ N.of_nat (N.to_nat (N.size n)).
Proof.
  intro n. rewrite N2Nat.id. destruct n as [|p]; [reflexivity|].
  apply N.size_gt.
Qed.

Lemma dec_N_spec : forall n,
  exists c t, dec_N n = c :: t /\ is_digit c = true /\ forallb is_digit t = true /\
              digits_val (c :: t) = n.
Proof.
  intro n. unfold dec_N.
  destruct (pos_digits_spec (N.to_nat (N.size n)) n [] (size_bound n))
    as (ds & Eds & Nds & Dds & p & Hp).
  rewrite app_nil_r in Eds. rewrite Eds.
  destruct ds as [|c t]; [contradiction|].
  cbn [forallb] in Dds. apply andb_true_iff in Dds. destruct Dds as [Dc Dt].
  exists c, t. repeat split; try assumption.
  change (digits_val (c :: t)) with (fold_left dstep (c :: t) 0). rewrite Hp. lia.
Qed.

Lemma take_digits_app : forall ds rest, forallb is_digit ds = true -> num_end rest = true ->
  take_digits (ds ++ rest) = (ds, rest).
Proof.
  induction ds as [|c ds IH]; intros rest Hd He.
  - cbn [app]. destruct rest as [|c r]; [reflexivity|].
    cbn [take_digits]. cbn [num_end] in He.
    destruct (is_digit c); [discriminate|reflexivity].
  - cbn [forallb] in Hd. apply andb_true_iff in Hd. destruct Hd as [Hc Hd].
    cbn [app take_digits]. rewrite Hc, (IH rest Hd He). reflexivity.
Qed.

Definition pn_core (neg : bool) (s body : str) : option (json * str) :=
  let (d, rest) := take_digits body in
  match d with
  | [] => None
  | _ =>
    match rest with
    | c :: _ => if (c =? 46) || (c =? 101) || (c =? 69) then
                  let (t, rest') := take_num s in Some (JRaw t, rest')
                else Some (JInt (if neg then Z.opp (Z.of_N (digits_val d)) else Z.of_N (digits_val d)), rest)
    | [] => Some (JInt (if neg then Z.opp (Z.of_N (digits_val d)) else Z.of_N (digits_val d)), rest)
    end
  end.

Lemma digit_cases : forall c, is_digit c = true ->
  c = 48 \/ c = 49 \/ c = 50 \/ c = 51 \/ c = 52 \/ c = 53 \/ c = 54 \/ c = 55 \/ c = 56 \/ c = 57.
Proof. intros c H. unfold is_digit in H. lia. Qed.

Lemma pn_digit : forall c r, is_digit c = true -> parse_number (c :: r) = pn_core false (c :: r) (c :: r).
Proof.
  intros c r H. apply digit_cases in H.
  repeat (destruct H as [H|H]; [subst c; reflexivity|]). subst c; reflexivity.
Qed.

Lemma pn_minus : forall r, parse_number (45 :: r) = pn_core true (45 :: r) r.
Proof. reflexivity. Qed.

Lemma pn_core_digits : forall neg s c t rest,
  is_digit c = true -> forallb is_digit t = true -> num_end rest = true ->
  pn_core neg s ((c :: t) ++ rest) =
  Some (JInt (if neg then Z.opp (Z.of_N (digits_val (c :: t))) else Z.of_N (digits_val (c :: t))), rest).
Proof.
  intros neg s c t rest Hc Ht He. unfold pn_core.
  rewrite take_digits_app; [ | cbn [forallb]; rewrite Hc, Ht; reflexivity | exact He ].
  destruct rest as [|x r]; [reflexivity|].
  cbn [num_end] in He. apply andb_true_iff in He. destruct He as [_ He].
  apply negb_true_iff in He. rewrite He. reflexivity.
Qed.

Lemma parse_number_dec_Z : forall z rest, num_end rest = true ->
  parse_number (dec_Z z ++ rest) = Some (JInt z, rest).
Proof.
  intros z rest He. unfold dec_Z.
  destruct (Z.ltb_spec z 0) as [Hneg|Hpos].
  - destruct (dec_N_spec (Z.to_N (Z.abs z))) as (c & t & E & Hc & Ht & Hv).
    rewrite E. cbn [app]. rewrite pn_minus.
    change (c :: t ++ rest) with ((c :: t) ++ rest).
    rewrite pn_core_digits by assumption. rewrite Hv. do 2 f_equal. f_equal. lia.
  - destruct (dec_N_spec (Z.to_N z)) as (c & t & E & Hc & Ht & Hv).
    rewrite E. cbn [app]. rewrite pn_digit by exact Hc.
    change (c :: t ++ rest) with ((c :: t) ++ rest).
    rewrite pn_core_digits by assumption. rewrite Hv. do 2 f_equal. f_equal. lia.
Qed.

(* the first character of a number: a digit or '-' *)
Lemma dec_Z_head : forall z, exists c t, dec_Z z = c :: t /\ (is_digit c || (c =? 45)) = true.
Proof.
  intro z. unfold dec_Z. destruct (Z.ltb z 0).
  - eexists _, _. split; reflexivity.
  - destruct (dec_N_spec (Z.to_N z)) as (c & t & E & Hc & _).
    exists c, t. split; [exact E|]. rewrite Hc. reflexivity.
Qed.

(* ------------------------------------------------------------ parse_value, by first character *)
Lemma pv_ws : forall fuel s s', skip_ws s = skip_ws s' -> parse_value fuel s = parse_value fuel s'.
Proof.
  intros fuel s s' H. destruct fuel as [|f]; [reflexivity|].
  cbn [parse_value]. rewrite H. reflexivity.
Qed.

Lemma pv_nl : forall fuel lvl s, parse_value fuel (newline_indent lvl ++ s) = parse_value fuel s.
Proof. intros. apply pv_ws. apply skip_ws_nl. Qed.

Lemma pv_sp : forall fuel s, parse_value fuel (32 :: s) = parse_value fuel s.
Proof. intros. apply pv_ws. reflexivity. Qed.

Lemma pv_null : forall f rest, parse_value (S f) (s_null ++ rest) = Some (JNull, rest).
Proof. reflexivity. Qed.
Lemma pv_true : forall f rest, parse_value (S f) (s_true ++ rest) = Some (JBool true, rest).
Proof. reflexivity. Qed.
Lemma pv_false : forall f rest, parse_value (S f) (s_false_ ++ rest) = Some (JBool false, rest).
Proof. reflexivity. Qed.

Lemma pv_quote : forall f r,
  parse_value (S f) (34 :: r) =
  match parse_string_body r with Some (t, rest) => Some (JStr t, rest) | None => None end.
Proof. reflexivity. Qed.

Lemma pv_bracket : forall f r,
  parse_value (S f) (91 :: r) =
  match skip_ws r with
  | c' :: r' => if c' =? 93 then Some (JArr [], r')
                else match parse_elems (parse_value f) f r with
                     | Some (vs, rest) => Some (JArr vs, rest)
                     | None => None
                     end
  | [] => None
  end.
Proof. reflexivity. Qed.

Lemma pv_brace : forall f r,
  parse_value (S f) (123 :: r) =
  match skip_ws r with
  | c' :: r' => if c' =? 125 then Some (JObj [], r')
                else match parse_members (parse_value f) f r with
                     | Some (ms, rest) => Some (JObj ms, rest)
                     | None => None
                     end
  | [] => None
  end.
Proof. reflexivity. Qed.

Lemma pv_num : forall f c r, (is_digit c || (c =? 45)) = true ->
  parse_value (S f) (c :: r) = parse_number (c :: r).
Proof.
  intros f c r H.
  assert (Hc : c = 45 \/ c = 48 \/ c = 49 \/ c = 50 \/ c = 51 \/ c = 52 \/ c = 53 \/ c = 54
               \/ c = 55 \/ c = 56 \/ c = 57) by (unfold is_digit in H; lia).
  repeat (destruct Hc as [Hc|Hc]; [subst c; reflexivity|]). subst c; reflexivity.
Qed.

(* ------------------------------------------------------------ first characters *)
Lemma ser_head : forall lvl j, json_ok j = true ->
  exists c t, serialize_at lvl j = c :: t /\ is_space c = false /\ c <> 93.
Proof.
  intros lvl j Hj. destruct j as [|b|z|r|s|l|m].
  - eexists _, _. split; [reflexivity|split; [reflexivity|discriminate]].
  - destruct b; eexists _, _; (split; [reflexivity|split; [reflexivity|discriminate]]).
  - destruct (dec_Z_head z) as (c & t & E & Hc). exists c, t. cbn [serialize_at].
    split; [exact E|]. unfold is_digit in Hc. unfold is_space. split; lia.
  - discriminate.
  - eexists _, _. split; [reflexivity|split; [reflexivity|discriminate]].
  - destruct l; eexists _, _; (split; [reflexivity|split; [reflexivity|discriminate]]).
  - destruct m; eexists _, _; (split; [reflexivity|split; [reflexivity|discriminate]]).
Qed.

Lemma join_items_cons : forall lvl x y r,
  join_items lvl (x :: y :: r) = x ++ 44 :: newline_indent lvl ++ join_items lvl (y :: r).
Proof. reflexivity. Qed.

Lemma join_items_head : forall lvl x r c t, x = c :: t ->
  exists t', join_items lvl (x :: r) = c :: t'.
Proof.
  intros lvl x r c t ->. destruct r as [|y r].
  - exists t. reflexivity.
  - rewrite join_items_cons. eexists. reflexivity.
Qed.

Lemma join_items_map_cons : forall (A : Type) lvl (f : A -> str) x y l,
  join_items lvl (map f (x :: y :: l)) =
  f x ++ 44 :: newline_indent lvl ++ join_items lvl (map f (y :: l)).
Proof. reflexivity. Qed.

Lemma app_cons_assoc : forall (a b t : str) c, (a ++ c :: b) ++ t = a ++ c :: (b ++ t).
Proof. intros. rewrite <- app_assoc. reflexivity. Qed.

(* ------------------------------------------------------------ arrays *)
Lemma parse_elems_join : forall pv lvl' (l : list json) x k tail rest,
  (length (x :: l) <= k)%nat ->
  (forall y r', In y (x :: l) -> num_end r' = true ->
      pv (newline_indent lvl' ++ serialize_at lvl' y ++ r') = Some (y, r')) ->
  num_end tail = true -> skip_ws tail = 93 :: rest ->
  parse_elems pv k (newline_indent lvl' ++ join_items lvl' (map (serialize_at lvl') (x :: l)) ++ tail)
  = Some (x :: l, rest).
Proof.
  intros pv lvl'. induction l as [|y l IH]; intros x k tail rest Hk Hpv Ht Hs.
  - destruct k as [|k]; [cbn [length] in Hk; lia|].
    cbn [map join_items parse_elems].
    rewrite (Hpv x); [ | left; reflexivity | exact Ht ]. rewrite Hs. reflexivity.
  - destruct k as [|k]; [cbn [length] in Hk; lia|].
    rewrite join_items_map_cons. rewrite app_cons_assoc, <- app_assoc.
    cbn [parse_elems].
    rewrite (Hpv x); [ | left; reflexivity | reflexivity ].
    rewrite skip_ws_nonspace by reflexivity. rewrite N.eqb_refl.
    rewrite (IH y k tail rest); [reflexivity | | | exact Ht | exact Hs].
    + cbn [length] in Hk |- *. lia.
    + intros y' r' Hin Hr'. apply Hpv; [right; exact Hin | exact Hr'].
Qed.

(* ------------------------------------------------------------ objects *)
Definition member_text (lvl : nat) (kv : str * json) : str :=
  esc_string (fst kv) ++ 58 :: 32 :: serialize_at lvl (snd kv).

Lemma parse_members_join : forall pv lvl' (m : list (str * json)) kv k tail rest,
  (length (kv :: m) <= k)%nat ->
  (forall kv' r', In kv' (kv :: m) -> num_end r' = true ->
      pv (32 :: serialize_at lvl' (snd kv') ++ r') = Some (snd kv', r')) ->
  (forall kv', In kv' (kv :: m) -> str_ok (fst kv') = true) ->
  num_end tail = true -> skip_ws tail = 125 :: rest ->
  parse_members pv k (newline_indent lvl' ++ join_items lvl' (map (member_text lvl') (kv :: m)) ++ tail)
  = Some (kv :: m, rest).
Proof.
  intros pv lvl'. induction m as [|kv2 m IH]; intros kv k tail rest Hk Hpv Hkeys Ht Hs.
  - destruct k as [|k]; [cbn [length] in Hk; lia|].
    cbn [map join_items]. unfold member_text at 1.
    rewrite app_cons_assoc. cbn [app]. rewrite esc_string_app.
    cbn [parse_members]. rewrite skip_ws_nl. rewrite skip_ws_nonspace by reflexivity.
    rewrite N.eqb_refl. rewrite psb_esc by (apply Hkeys; left; reflexivity).
    rewrite skip_ws_nonspace by reflexivity. rewrite N.eqb_refl.
    rewrite (Hpv kv); [ | left; reflexivity | exact Ht ]. rewrite Hs.
    destruct kv as [key v]. reflexivity.
  - destruct k as [|k]; [cbn [length] in Hk; lia|].
    rewrite join_items_map_cons. rewrite app_cons_assoc, <- app_assoc.
    unfold member_text at 1. rewrite app_cons_assoc. cbn [app]. rewrite esc_string_app.
    cbn [parse_members]. rewrite skip_ws_nl. rewrite skip_ws_nonspace by reflexivity.
    rewrite N.eqb_refl. rewrite psb_esc by (apply Hkeys; left; reflexivity).
    rewrite skip_ws_nonspace by reflexivity. rewrite N.eqb_refl.
    rewrite (Hpv kv); [ | left; reflexivity | reflexivity ].
    rewrite skip_ws_nonspace by reflexivity. rewrite N.eqb_refl.
    rewrite (IH kv2 k tail rest); [destruct kv as [key v]; reflexivity | | | | exact Ht | exact Hs].
    + cbn [length] in Hk |- *. lia.
    + intros kv' r' Hin Hr'. apply Hpv; [right; exact Hin | exact Hr'].
    + intros kv' Hin. apply Hkeys. right. exact Hin.
Qed.

(* ------------------------------------------------------------ fuel *)
(* the fuel parse_value needs for (the text of) j: one more than the nesting depth and than
   the length of every array / object on the way *)
Fixpoint need (j : json) : nat :=
  match j with
  | JRaw _ => 0
  | JArr l => S (Nat.max (length l) (list_max (map need l)))
  | JObj m => S (Nat.max (length m) (list_max (map (fun kv => need (snd kv)) m)))
  | _ => 1
  end.

Lemma list_max_ge : forall l n, In n l -> (n <= list_max l)%nat.
Proof.
  induction l as [|a l IH]; intros n Hin; [destruct Hin|].
  cbn [list_max fold_right]. fold (list_max l).
  destruct Hin as [->|Hin]; [lia|]. specialize (IH n Hin). lia.
Qed.

Lemma need_arr : forall l f, (need (JArr l) <= S f)%nat ->
  (length l <= f)%nat /\ forall y, In y l -> (need y <= f)%nat.
Proof.
  intros l f H. cbn [need] in H. split; [lia|].
  intros y Hy. pose proof (list_max_ge (map need l) (need y) (in_map need l y Hy)). lia.
Qed.

Lemma need_obj : forall m f, (need (JObj m) <= S f)%nat ->
  (length m <= f)%nat /\ forall kv, In kv m -> (need (snd kv) <= f)%nat.
Proof.
  intros m f H. cbn [need] in H. split; [lia|].
  intros kv Hkv.
  pose proof (list_max_ge (map (fun kv => need (snd kv)) m) (need (snd kv))
                (in_map (fun kv => need (snd kv)) m kv Hkv)). lia.
Qed.

(* ------------------------------------------------------------ the generalised round trip *)
Lemma ser_arr_app : forall lvl x l rest,
  serialize_at lvl (JArr (x :: l)) ++ rest =
  91 :: newline_indent (S lvl) ++ join_items (S lvl) (map (serialize_at (S lvl)) (x :: l))
     ++ (newline_indent lvl ++ 93 :: rest).
Proof.
  intros lvl x l rest.
  change (serialize_at lvl (JArr (x :: l))) with
    (91 :: newline_indent (S lvl) ++ join_items (S lvl) (map (serialize_at (S lvl)) (x :: l))
        ++ newline_indent lvl ++ [93]).
  cbn [app]. rewrite <- !app_assoc. reflexivity.
Qed.

Lemma ser_obj_app : forall lvl kv m rest,
  serialize_at lvl (JObj (kv :: m)) ++ rest =
  123 :: newline_indent (S lvl) ++ join_items (S lvl) (map (member_text (S lvl)) (kv :: m))
      ++ (newline_indent lvl ++ 125 :: rest).
Proof.
  intros lvl kv m rest.
  change (serialize_at lvl (JObj (kv :: m))) with
    (123 :: newline_indent (S lvl) ++ join_items (S lvl) (map (member_text (S lvl)) (kv :: m))
         ++ newline_indent lvl ++ [125]).
  cbn [app]. rewrite <- !app_assoc. reflexivity.
Qed.

Lemma pv_ser : forall fuel j lvl rest,
  (need j <= fuel)%nat -> json_ok j = true -> num_end rest = true ->
  parse_value fuel (serialize_at lvl j ++ rest) = Some (j, rest).
Proof.
  induction fuel as [|f IH]; intros j lvl rest Hfuel Hok Hend.
  - destruct j; cbn [need] in Hfuel; try lia. discriminate.
  - destruct j as [|b|z|r|s|l|m].
    + apply pv_null.
    + destruct b; [apply pv_true|apply pv_false].
    + cbn [serialize_at].
      destruct (dec_Z_head z) as (c & t & E & Hc).
      pose proof (parse_number_dec_Z z rest Hend) as Hp.
      rewrite E in Hp |- *. cbn [app] in Hp |- *.
      rewrite pv_num by exact Hc. exact Hp.
    + discriminate.
    + cbn [serialize_at json_ok] in Hok |- *. rewrite esc_string_app, pv_quote.
      rewrite psb_esc by exact Hok. reflexivity.
    + destruct l as [|x l]; [reflexivity|].
      destruct (need_arr _ _ Hfuel) as [Hlen Hneed].
      cbn [json_ok] in Hok.
      assert (Hoks : forall y, In y (x :: l) -> json_ok y = true)
        by (apply forallb_forall; exact Hok).
      rewrite ser_arr_app, pv_bracket.
      destruct (ser_head (S lvl) x (Hoks x (or_introl eq_refl))) as (c & t & Ec & Hsp & Hc93).
      destruct (join_items_head (S lvl) (serialize_at (S lvl) x) (map (serialize_at (S lvl)) l) c t Ec)
        as (t' & Ej).
      assert (Hsk : forall tail,
                skip_ws (newline_indent (S lvl) ++
                         join_items (S lvl) (map (serialize_at (S lvl)) (x :: l)) ++ tail)
                = c :: t' ++ tail).
      { intro tail. rewrite skip_ws_nl. cbn [map]. unfold str, char in *. rewrite Ej. cbn [app].
        apply skip_ws_nonspace. exact Hsp. }
      rewrite Hsk.
      destruct (N.eqb_spec c 93) as [E93|_]; [contradiction|].
      rewrite (parse_elems_join (parse_value f) (S lvl) l x f _ rest); [reflexivity | exact Hlen | | reflexivity | ].
      * intros y r' Hin Hr'. rewrite pv_nl. apply IH; [apply Hneed; exact Hin | apply Hoks; exact Hin | exact Hr'].
      * rewrite skip_ws_nl. reflexivity.
    + destruct m as [|kv m]; [reflexivity|].
      destruct (need_obj _ _ Hfuel) as [Hlen Hneed].
      cbn [json_ok] in Hok.
      assert (Hoks : forall kv', In kv' (kv :: m) -> str_ok (fst kv') && json_ok (snd kv') = true)
        by (apply forallb_forall; exact Hok).
      rewrite ser_obj_app, pv_brace.
      assert (Hsk : forall tail,
                skip_ws (newline_indent (S lvl) ++
                         join_items (S lvl) (map (member_text (S lvl)) (kv :: m)) ++ tail)
                = 34 :: tl (join_items (S lvl) (map (member_text (S lvl)) (kv :: m))) ++ tail).
      { intro tail. rewrite skip_ws_nl. cbn [map].
        destruct (join_items_head (S lvl) (member_text (S lvl) kv) (map (member_text (S lvl)) m)
                    34 (flat_map esc_char (fst kv) ++ 34 :: 58 :: 32 :: serialize_at (S lvl) (snd kv)))
          as (t' & Ej).
        { unfold member_text. apply esc_string_app. }
        unfold str, char in *. rewrite Ej. reflexivity. }
      rewrite Hsk.
      change (34 =? 125) with false. cbv iota.
      rewrite (parse_members_join (parse_value f) (S lvl) m kv f _ rest); [reflexivity | exact Hlen | | | reflexivity | ].
      * intros kv' r' Hin Hr'. rewrite pv_sp.
        apply IH; [apply Hneed; exact Hin | | exact Hr'].
        specialize (Hoks kv' Hin). apply andb_true_iff in Hoks. apply Hoks.
      * intros kv' Hin. specialize (Hoks kv' Hin). apply andb_true_iff in Hoks. apply Hoks.
      * rewrite skip_ws_nl. reflexivity.
Qed.

(* ------------------------------------------------------------ the text is long enough to be fuel *)
(* structural induction through the nested lists *)
Fixpoint json_ind' (P : json -> Prop)
    (HNull : P JNull) (HBool : forall b, P (JBool b)) (HInt : forall z, P (JInt z))
    (HRaw : forall r, P (JRaw r)) (HStr : forall s, P (JStr s))
    (HArr : forall l, Forall P l -> P (JArr l))
    (HObj : forall m, Forall (fun kv => P (snd kv)) m -> P (JObj m))
    (j : json) {struct j} : P j :=
  match j with
  | JNull => HNull
  | JBool b => HBool b
  | JInt z => HInt z
  | JRaw r => HRaw r
  | JStr s => HStr s
  | JArr l =>
    HArr l ((fix go (l : list json) : Forall P l :=
               match l with
               | [] => Forall_nil P
               | x :: r => Forall_cons x (json_ind' P HNull HBool HInt HRaw HStr HArr HObj x) (go r)
               end) l)
  | JObj m =>
    HObj m ((fix go (m : list (str * json)) : Forall (fun kv => P (snd kv)) m :=
               match m with
               | [] => Forall_nil _
               | (k, v) :: r =>
                 @Forall_cons _ (fun kv => P (snd kv)) (k, v) r
                              (json_ind' P HNull HBool HInt HRaw HStr HArr HObj v) (go r)
               end) m)
  end.

Lemma join_len_count : forall lvl items, (length items <= S (length (join_items lvl items)))%nat.
Proof.
  intros lvl. induction items as [|x r IH]; [cbn [length]; lia|].
  destruct r as [|y r]; [cbn [length join_items]; lia|].
  change (join_items lvl (x :: y :: r)) with (x ++ 44 :: newline_indent lvl ++ join_items lvl (y :: r)).
  rewrite app_length. cbn [length] in IH |- *. rewrite app_length. lia.
Qed.

Lemma join_len_item : forall lvl items x, In x items -> (length x <= length (join_items lvl items))%nat.
Proof.
  intros lvl. induction items as [|a r IH]; intros x Hin; [destruct Hin|].
  destruct r as [|y r].
  - destruct Hin as [->|[]]. cbn [join_items]. lia.
  - change (join_items lvl (a :: y :: r)) with (a ++ 44 :: newline_indent lvl ++ join_items lvl (y :: r)).
    rewrite app_length. cbn [length]. rewrite app_length.
    destruct Hin as [->|Hin]; [lia|]. specialize (IH x Hin). lia.
Qed.

Lemma list_max_bound : forall l n, (forall k, In k l -> (k <= n)%nat) -> (list_max l <= n)%nat.
Proof.
  induction l as [|a l IH]; intros n H; [cbn; lia|].
  cbn [list_max fold_right]. fold (list_max l).
  pose proof (H a (or_introl eq_refl)). pose proof (IH n (fun k Hk => H k (or_intror Hk))). lia.
Qed.

Lemma nl_len : forall k, (1 <= length (newline_indent k))%nat.
Proof. intro k. unfold newline_indent. cbn [length]. lia. Qed.

Lemma need_le_len : forall j lvl, (need j <= length (serialize_at lvl j))%nat.
Proof.
  induction j as [|b|z|r|s|l IHl|m IHm] using json_ind'; intro lvl.
  - cbn. lia.
  - destruct b; cbn; lia.
  - cbn [need serialize_at]. destruct (dec_Z_head z) as (c & t & E & _). rewrite E. cbn [length]. lia.
  - cbn [need]. lia.
  - cbn [need serialize_at]. unfold esc_string. cbn [length]. lia.
  - destruct l as [|x l]; [cbn; lia|].
    change (serialize_at lvl (JArr (x :: l))) with
      (91 :: newline_indent (S lvl) ++ join_items (S lvl) (map (serialize_at (S lvl)) (x :: l))
          ++ newline_indent lvl ++ [93]).
    cbn [need]. set (items := map (serialize_at (S lvl)) (x :: l)).
    cbn [length]. rewrite !app_length. cbn [length].
    pose proof (join_len_count (S lvl) items) as Hc.
    unfold items in Hc at 1. rewrite map_length in Hc.
    assert (Hm : (list_max (map need (x :: l)) <= length (join_items (S lvl) items))%nat).
    { apply list_max_bound. intros k Hk. apply in_map_iff in Hk. destruct Hk as (y & <- & Hy).
      rewrite Forall_forall in IHl. specialize (IHl y Hy (S lvl)).
      pose proof (join_len_item (S lvl) items (serialize_at (S lvl) y)
                    (in_map (serialize_at (S lvl)) (x :: l) y Hy)). lia. }
    pose proof (nl_len (S lvl)); pose proof (nl_len lvl); cbn [length] in Hc; lia.
  - destruct m as [|kv m]; [cbn; lia|].
    change (serialize_at lvl (JObj (kv :: m))) with
      (123 :: newline_indent (S lvl) ++ join_items (S lvl) (map (member_text (S lvl)) (kv :: m))
           ++ newline_indent lvl ++ [125]).
    cbn [need]. set (items := map (member_text (S lvl)) (kv :: m)).
    cbn [length]. rewrite !app_length. cbn [length].
    pose proof (join_len_count (S lvl) items) as Hc.
    unfold items in Hc at 1. rewrite map_length in Hc.
    assert (Hm : (list_max (map (fun kv => need (snd kv)) (kv :: m))
                  <= length (join_items (S lvl) items))%nat).
    { apply list_max_bound. intros k Hk. apply in_map_iff in Hk. destruct Hk as (kv' & <- & Hy).
      rewrite Forall_forall in IHm. specialize (IHm kv' Hy (S lvl)).
      pose proof (join_len_item (S lvl) items (member_text (S lvl) kv')
                    (in_map (member_text (S lvl)) (kv :: m) kv' Hy)) as Hi.
      unfold member_text at 1 in Hi. rewrite app_length in Hi. cbn [length] in Hi. lia. }
    pose proof (nl_len (S lvl)); pose proof (nl_len lvl); cbn [length] in Hc; lia.
Qed.

(* ------------------------------------------------------------ the round trip *)
Theorem parse_serialize : forall j, json_ok j = true -> parse_json (serialize j) = Some j.
Proof.
  intros j Hok. unfold parse_json, serialize.
  pose proof (pv_ser (S (length (serialize_at 0 j))) j 0 [] ) as H.
  rewrite app_nil_r in H. rewrite H; [reflexivity | | exact Hok | reflexivity].
  pose proof (need_le_len j 0). lia.
Qed.

Theorem serialize_nonempty : forall j, json_ok j = true -> serialize j <> [].
Proof.
  intros j Hok. unfold serialize.
  destruct (ser_head 0 j Hok) as (c & t & E & _). rewrite E. discriminate.
Qed.

(* ------------------------------------------------------------ non-vacuity *)
Definition ex_doc : json :=
  JObj [ ([114;111;119;115],                                   (* "rows" *)
          JArr [ JObj [([105;100], JInt 1); ([118], JStr [97;34;98;92;99;10;100;233;128512])];
                 JObj [([105;100], JInt (-42)); ([118], JNull)];
                 JObj [] ]);
         ([110;101;103], JInt (-7));
         ([101;109;112;116;121;32;233], JArr []);
         ([111], JObj []);
         ([102;108;97;103;115], JArr [JBool true; JBool false; JInt 0; JInt 1234567890123456789]) ].

Example parse_serialize_nonvacuous :
  json_ok ex_doc = true /\ parse_json (serialize ex_doc) = Some ex_doc.
Proof. split; vm_compute; reflexivity. Qed.

(* a lone surrogate pair of code points is not a string of scalar values: the writer emits
   \ud83d\ude00 and the reader (like Python's) combines the two escapes into U+1F600 *)
Example surrogate_not_roundtrip :
  parse_json (serialize (JStr [55357; 56832])) <> Some (JStr [55357; 56832]).
Proof. vm_compute. discriminate. Qed.

Example surrogate_reads_as_pair :
  parse_json (serialize (JStr [55357; 56832])) = Some (JStr [128512]).
Proof. vm_compute. reflexivity. Qed.

Print Assumptions parse_serialize.
Print Assumptions serialize_nonempty.
