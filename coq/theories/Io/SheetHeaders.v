(* E9 / C07 (file leg, finding single-column-sheet-export-crashes) — WHICH headers RowDataSheet._get_headers makes
   columns of the sheet.  Definitions only; facts in SheetHeadersFacts.v.

   _get_headers builds a graph whose EDGES join consecutive headers of each row (unparse_row's dict order) and
   returns a topological order of its NODES.  On the tree with the finding a node exists only as the end of an
   edge: a row that writes one column contributes nothing.  On the repaired tree every header of every row is
   added as a node (`header_graph.add_node(k)`).  Which of the two the tree does is the PROBED constant
   sheet_keeps_single_columns (translator/tables_rowfix.py).  The ORDER of the columns (networkx's topological
   sort, "not guaranteed to be unique") is not modelled: the result is given as a duplicate-free list in order
   of first appearance and compared as a set. *)
From Coq Require Import List NArith Bool.
From RPFT Require Import Base.Sexp Base.PyStr Gen.Tables.
Import ListNotations.

(* the headers one row hands to the graph *)
Definition row_nodes (r : list str) : list str :=
  match r with
  | _ :: _ :: _ => r                                        (* every header is the end of an edge *)
  | _ => if sheet_keeps_single_columns then r else []       (* [] or [h]: no edge *)
  end.

Fixpoint dedup (seen l : list str) : list str :=
  match l with
  | [] => []
  | h :: r => if existsb (str_eqb h) seen then dedup seen r else h :: dedup (h :: seen) r
  end.

(* rows = for each row the headers unparse_row writes, in order *)
Definition sheet_header_set (rows : list (list str)) : list str := dedup [] (concat (map row_nodes rows)).

(* data.append([row_dict.get(header, "") for header in data.headers]): what a row's cell under h becomes *)
Definition sheet_cell (headers : list str) (cells : list (str * str)) (h : str) : option str :=
  if existsb (str_eqb h) headers
  then Some (match find (fun kv => str_eqb (fst kv) h) cells with Some kv => snd kv | None => [] end)
  else None.
