(* C15 — one concrete workbook on which every hypothesis of the C15 theorems is satisfied
   (non-vacuity), and on which the conclusions are also checked by evaluation.
   Three flow definitions (one plain, one instantiated for two data rows, one template with an
   argument), a loop, a block, a row under a false include_if, a webhook, a go_to, group rows
   with and without a uuid, and a trigger sheet. *)
From Coq Require Import List NArith ZArith Bool Arith String Ascii.
From RPFT Require Import Base.Sexp Base.PyStr Base.Result Base.Json Gen.Tables
  Io.CliFlow Io.CliIndex Io.CliJson Io.CliJsonFacts Io.Cli Io.CliSimFacts Io.CliRowFacts Io.CliCatFacts Io.CliFacts.
Import ListNotations.
Local Open Scope string_scope.
Local Open Scope list_scope.

Fixpoint S_ (s : string) : str :=
  match s with EmptyString => [] | String a r => N_of_ascii a :: S_ r end.
Definition L_ (s : string) : tstr := match s with EmptyString => [] | _ => [Lit (S_ s)] end.

Definition no_cond : cond := mkCond [] [] [] [].
Definition e_ (from : string) : edge := mkEdge (L_ from) no_cond.
Definition ec_ (from val name : string) : edge := mkEdge (L_ from) (mkCond (S_ val) [] [] (S_ name)).

Definition row_ (t : rtype) (id : tstr) (es : list edge) (main : tstr) : frow :=
  mkRow t id es IncTrue main [] [] [] [] 0%N [] [HStr []] [] [] [[]].
Definition with_list (r : frow) (l : list tstr) : frow := set_list r l.
Definition with_save (r : frow) (s : string) : frow :=
  mkRow (r_type r) (r_id r) (r_edges r) (r_inc r) (r_main r) (r_list r) (r_vars r) (S_ s) (r_objid r) (r_noresp r)
        (r_url r) (r_headers r) (r_dsheet r) (r_drow r) (r_targs r).
Definition with_url (r : frow) (s : string) : frow :=
  mkRow (r_type r) (r_id r) (r_edges r) (r_inc r) (r_main r) (r_list r) (r_vars r) (r_save r) (r_objid r) (r_noresp r)
        (S_ s) (r_headers r) (r_dsheet r) (r_drow r) (r_targs r).
Definition excluded (r : frow) : frow :=
  mkRow (r_type r) (r_id r) (r_edges r) IncFalse (r_main r) (r_list r) (r_vars r) (r_save r) (r_objid r) (r_noresp r)
        (r_url r) (r_headers r) (r_dsheet r) (r_drow r) (r_targs r).

Definition flowA_rows : list frow :=
  [ row_ TSend (L_ "a1") [e_ "start"] (L_ "hi");
    row_ TWait (L_ "w") [e_ ""] [];
    row_ TSend (L_ "a2") [ec_ "w" "yes" "Yes"] (L_ "good");
    row_ TSend (L_ "a3") [ec_ "w" "no" ""] (L_ "bad");
    (* 4 *) set_objid (row_ TStartFlow (L_ "c1") [e_ ""] (L_ "child")) (S_ "33333333-3333-4333-8333-333333333333");
    (* 5 *) row_ TSend (L_ "a5") [ec_ "c1" "completed" ""] (L_ "back");
    (* 6 *) row_ TStartFlow (L_ "c2") [e_ ""] (L_ "child");
    (* 7 *) row_ TSend (L_ "a7") [ec_ "c2" "expired" ""] (L_ "late") ].

Definition flowB_rows : list frow :=
  [ (* 0 *) row_ TSend (L_ "a") [e_ "start"] (L_ "hello " ++ [Ref (S_ "label")]);
    (* 1 *) set_vars (with_list (row_ TBeginFor (L_ "L") [e_ ""] []) [L_ "p"; L_ "q"]) [S_ "x"];
    (* 2 *) row_ TSend (L_ "s" ++ [Ref (S_ "x")]) [e_ ""] (L_ "item " ++ [Ref (S_ "x")]);
    (* 3 *) with_save (row_ TSaveValue (L_ "v" ++ [Ref (S_ "x")]) [e_ ""] (L_ "val")) "field one";
    (* 4 *) row_ TEndFor [] [e_ ""] [];
    (* 5 *) set_objid (with_list (row_ TAddGroup (L_ "g1") [e_ ""] []) [L_ "vip"]) (S_ "11111111-1111-4111-8111-111111111111");
    (* 6 *) with_url (with_save (row_ TWebhook (L_ "h") [e_ ""] (L_ "body")) "hook result") "http://example.org";
    (* 7 *) row_ TSend (L_ "z") [ec_ "h" "Success" ""] (L_ "done");
    (* 8 *) with_list (row_ TGoto [] [e_ ""] []) [L_ "a"];
    (* 9 *) excluded (row_ TSend (L_ "n") [e_ ""] (L_ "never " ++ [Ref (S_ "undefined_variable")]));
    (* 10 *) row_ TBeginBlock (L_ "B") [e_ ""] [];
    (* 11 *) with_list (row_ TRemoveGroup (L_ "g2") [e_ ""] []) [L_ "vip"];
    (* 12 *) row_ TEndBlock [] [e_ ""] [] ].

Definition tmpl_rows : list frow :=
  [ row_ TSend (L_ "t1") [e_ "start"] (L_ "arg is " ++ [Ref (S_ "arg0")]) ].

Definition ix_ (t : itype) (sheets : list string) : ixrow :=
  mkIx t false (map S_ sheets) [] [] [] [[]] [] [] OpNone [].

Definition ex_index : list ixrow :=
  [ ix_ IDataSheet ["data1"];
    mkIx ITemplateDef false [S_ "tmpl"] [] [] [] [] [mkAD (S_ "arg0") []] [] OpNone [];
    ix_ ICreateFlow ["flowA"];
    mkIx ICreateFlow false [S_ "flowB"] [] (S_ "data1") [] [[]] [] [] OpNone [];
    mkIx ICreateFlow false [S_ "tmpl"] (S_ "fromtmpl") [] [] [S_ "val"] [] [] OpNone [];
    ix_ ITriggers ["trig"] ].

Definition ex_wb : workbook :=
  [ (S_ "content_index", SIndex ex_index);
    (S_ "data1", SData [S_ "label"] [(S_ "r1", [S_ "one"]); (S_ "r2", [S_ "two"])]);
    (S_ "flowA", SFlow flowA_rows);
    (S_ "flowB", SFlow flowB_rows);
    (S_ "tmpl", SFlow tmpl_rows);
    (S_ "trig", STriggers [mkTR true [S_ "join"] (S_ "flowA") [] []]) ].

Definition ex_fuel : nat := 60.
Definition ex_doc : doc :=
  mkDoc [S_ "flowA"; S_ "flowB - r1"; S_ "flowB - r2"; S_ "fromtmpl"] [] 1.

Lemma ex_compiles : compile ex_fuel ex_wb None = Ok ex_doc.
Proof. vm_compute. reflexivity. Qed.

(* the state in which a trapped run stops *)
Definition trap_state (r : result trapE doc) : fstate :=
  match r with Err (TTrap _ _ s _ _) => s | _ => mkF [] [] [] [] uu0 [] end.
Definition trap_bt (r : result trapE doc) : btype :=
  match r with Err (TTrap _ _ _ bt _) => bt | _ => BRoot end.

Definition B := S_ "flowB".
Definition A := S_ "flowA".
Definition ev (t : str) (p : nat) := compile_trap ex_fuel ex_wb None t p false sel_eval.

Lemma evaluated_intro fuel wb dm t p (r : result trapE doc) :
  r = compile_trap fuel wb dm t p false sel_eval ->
  (match r with Err (TTrap t' p' _ _ false) => str_eqb t' t && Nat.eqb p' p | _ => false end) = true ->
  evaluated_at fuel wb dm t p (trap_state r) (trap_bt r).
Proof.
  intros Hr H. unfold evaluated_at. rewrite <- Hr. clear Hr.
  destruct r as [|[c|t' p' s bt [|]]]; try discriminate.
  apply andb_true_iff in H as [H1 H2]. apply PyStrFacts.str_eqb_eq in H1. apply Nat.eqb_eq in H2. subst. reflexivity.
Qed.

Lemma ex_evaluated (t : str) (p : nat) :
  (match ev t p with Err (TTrap t' p' _ _ false) => str_eqb t' t && Nat.eqb p' p | _ => false end) = true ->
  evaluated_at ex_fuel ex_wb None t p (trap_state (ev t p)) (trap_bt (ev t p)).
Proof. apply evaluated_intro. reflexivity. Qed.

(* ---------------------------------------------------------------- the command *)
Example cli_error_no_file_nonvacuous :
  exists c, compile ex_fuel (set_row ex_wb B 2 (set_main (nth 2 flowB_rows (row_ TSend [] [] [])) [])) None = Err c.
Proof. eexists. vm_compute. reflexivity. Qed.

Example cli_ok_complete_nonvacuous :
  compile ex_fuel ex_wb None = Ok ex_doc /\ names_ok ex_doc = true.
Proof. split; vm_compute; reflexivity. Qed.

(* ---------------------------------------------------------------- flow rows *)
Example fault_fatal_nonvacuous :
  (* a row inside a loop of the second flow definition (the first precedes it, and the row is
     reached in the first iteration for the first data row) *)
  evaluated_at ex_fuel ex_wb None B 2 (trap_state (ev B 2)) (trap_bt (ev B 2)) /\
  trap_bt (ev B 2) = BFor /\
  cget (f_ctx (trap_state (ev B 2))) (S_ "x") = Some (S_ "p") /\
  cget (f_ctx (trap_state (ev B 2))) (S_ "label") = Some (S_ "one").
Proof. split; [apply ex_evaluated|]; vm_compute; repeat split; reflexivity. Qed.

Example detect_empty_text_nonvacuous :
  nth_error (rows_of ex_wb B) 2 = Some (nth 2 flowB_rows (row_ TSend [] [] [])) /\
  evaluated_at ex_fuel ex_wb None B 2 (trap_state (ev B 2)) (trap_bt (ev B 2)) /\
  compile ex_fuel (set_row ex_wb B 2 (set_main (nth 2 flowB_rows (row_ TSend [] [] [])) [])) None = Err EEmptyText.
Proof. split; [reflexivity|]. split; [apply ex_evaluated; vm_compute; reflexivity|]. vm_compute. reflexivity. Qed.

Example detect_overlong_value_nonvacuous :
  evaluated_at ex_fuel ex_wb None B 3 (trap_state (ev B 3)) (trap_bt (ev B 3)) /\
  too_long (strip (repeat 118%N 641)) = true /\
  compile ex_fuel (set_row ex_wb B 3 (set_main (nth 3 flowB_rows (row_ TSend [] [] [])) [Lit (repeat 118%N 641)])) None
  = Err EValueTooLong /\
  (* 640 characters are accepted: the limit is the regenerated one *)
  compile ex_fuel (set_row ex_wb B 3 (set_main (nth 3 flowB_rows (row_ TSend [] [] [])) [Lit (repeat 118%N 640)])) None
  = Ok ex_doc.
Proof. split; [apply ex_evaluated; vm_compute; reflexivity|]. repeat split; vm_compute; reflexivity. Qed.

Example detect_webhook_headers_nonvacuous :
  evaluated_at ex_fuel ex_wb None B 6 (trap_state (ev B 6)) (trap_bt (ev B 6)) /\
  headers_ok [HStr (S_ "Authorization")] = false /\
  compile ex_fuel (set_row ex_wb B 6 (set_headers (nth 6 flowB_rows (row_ TSend [] [] [])) [HStr (S_ "Authorization")])) None
  = Err EHeaders.
Proof. split; [apply ex_evaluated; vm_compute; reflexivity|]. repeat split; vm_compute; reflexivity. Qed.

Example detect_loop_without_variable_nonvacuous :
  evaluated_at ex_fuel ex_wb None B 1 (trap_state (ev B 1)) (trap_bt (ev B 1)) /\
  compile ex_fuel (set_row ex_wb B 1 (set_vars (nth 1 flowB_rows (row_ TSend [] [] [])) [])) None = Err ENoLoopVar.
Proof. split; [apply ex_evaluated; vm_compute; reflexivity|]. vm_compute. reflexivity. Qed.

Example detect_goto_arity_nonvacuous :
  evaluated_at ex_fuel ex_wb None B 8 (trap_state (ev B 8)) (trap_bt (ev B 8)) /\
  edges_read (f_ctx (trap_state (ev B 8))) (nth 8 flowB_rows (row_ TSend [] [] [])) = Ok [mkIE [] no_cond] /\
  compile ex_fuel (set_row ex_wb B 8 (set_list (nth 8 flowB_rows (row_ TSend [] [] [])) (map (fun s => [Lit s]) [S_ "a"; S_ "a"]))) None
  = Err EGotoArity.
Proof. split; [apply ex_evaluated; vm_compute; reflexivity|]. split; vm_compute; reflexivity. Qed.

(* ---- a go_to row with a blank padding cell in a third edge column (the sheet is rectangular):
        what the tool READS follows the tree at hand (regenerated probe), and so does the verdict.
        Stated with [if padding_edges_dropped_at_read ...] so that the same script proves it on
        both trees. *)
Definition flowP_rows : list frow :=
  [ (* 0 *) row_ TSend (L_ "a1") [e_ "start"] (L_ "hi");
    (* 1 *) row_ TWait (L_ "w") [e_ ""] [];
    (* 2 *) row_ TSend (L_ "a2") [ec_ "w" "yes" "Yes"] (L_ "good");
    (* 3 *) row_ TSend (L_ "a3") [ec_ "w" "no" ""] (L_ "bad");
    (* 4 *) with_list (row_ TGoto [] [e_ "a2"; e_ "a3"; e_ ""] []) [L_ "a1"] ].
Definition P := S_ "flowP".
Definition pad_wb : workbook :=
  [ (S_ "content_index", SIndex [ix_ ICreateFlow ["flowP"]]); (P, SFlow flowP_rows) ].
Definition pad_doc : doc := mkDoc [P] [] 0.
Definition pad_row : frow := nth 4 flowP_rows (row_ TSend [] [] []).
Definition evP := compile_trap ex_fuel pad_wb None P 4 false sel_eval.

Example goto_padding_follows_the_tree :
  compile ex_fuel pad_wb None = Ok pad_doc /\
  evaluated_at ex_fuel pad_wb None P 4 (trap_state evP) (trap_bt evP) /\
  List.length (r_edges pad_row) = 3 /\
  edges_read (f_ctx (trap_state evP)) pad_row
  = Ok (if padding_edges_dropped_at_read
        then [mkIE (S_ "a2") no_cond; mkIE (S_ "a3") no_cond]
        else [mkIE (S_ "a2") no_cond; mkIE (S_ "a3") no_cond; mkIE [] no_cond]) /\
  (* two destinations: as many as the edges that carry something *)
  compile ex_fuel (set_row pad_wb P 4 (set_list pad_row (map (fun s => [Lit s]) [S_ "a1"; S_ "a1"]))) None
  = (if padding_edges_dropped_at_read then Ok pad_doc else Err EGotoArity) /\
  (* three destinations: as many as the edge cells *)
  compile ex_fuel (set_row pad_wb P 4 (set_list pad_row (map (fun s => [Lit s]) [S_ "a1"; S_ "a1"; S_ "a1"]))) None
  = (if padding_edges_dropped_at_read then Err EGotoArity else Ok pad_doc) /\
  (* four: too many on every tree (detect_goto_arity_too_many) *)
  compile ex_fuel (set_row pad_wb P 4 (set_list pad_row (map (fun s => [Lit s]) [S_ "a1"; S_ "a1"; S_ "a1"; S_ "a1"]))) None
  = Err EGotoArity.
Proof.
  split; [vm_compute; reflexivity|].
  split; [apply (evaluated_intro ex_fuel pad_wb None P 4 evP eq_refl); vm_compute; reflexivity|].
  repeat split; vm_compute; reflexivity.
Qed.

(* The statement C15 carried before /repo a05766f judged the arity on the edge cells as WRITTEN.
   On a tree that drops padding at read it is false: the padded row above with two destinations
   (2 <> 1, 2 <> 3 cells) compiles.  This is a fact about the tool (a padded go_to row is no longer
   an arity fault), not a gap of the check: [detect_goto_arity] is the true statement. *)
Example detect_goto_arity_as_written_refuted :
  padding_edges_dropped_at_read = true ->
  ~ (forall fuel wb dm d t0 p r s bt (dests : list str),
       compile fuel wb dm = Ok d ->
       nth_error (rows_of wb t0) p = Some r -> r_type r = TGoto ->
       evaluated_at fuel wb dm t0 p s bt ->
       List.length dests <> 1 -> List.length dests <> List.length (r_edges r) ->
       compile fuel (set_row wb t0 p (set_list r (map (fun s => [Lit s]) dests))) dm = Err EGotoArity).
Proof.
  intros Hp H. unfold padding_edges_dropped_at_read in Hp.
  first
    [ discriminate Hp
    | specialize (H ex_fuel pad_wb None pad_doc P 4 pad_row (trap_state evP) (trap_bt evP) [S_ "a1"; S_ "a1"]);
      assert (Hc : compile ex_fuel pad_wb None = Ok pad_doc) by (vm_compute; reflexivity);
      assert (He : evaluated_at ex_fuel pad_wb None P 4 (trap_state evP) (trap_bt evP))
        by (apply (evaluated_intro ex_fuel pad_wb None P 4 evP eq_refl); vm_compute; reflexivity);
      specialize (H Hc eq_refl eq_refl He);
      assert (H1 : List.length [S_ "a1"; S_ "a1"] <> 1) by (cbn; discriminate);
      assert (H2 : List.length [S_ "a1"; S_ "a1"] <> List.length (r_edges pad_row)) by (cbn; discriminate);
      specialize (H H1 H2); vm_compute in H; discriminate H ].
Qed.

Example detect_edge_from_unknown_row_nonvacuous :
  evaluated_at ex_fuel ex_wb None B 7 (trap_state (ev B 7)) (trap_bt (ev B 7)) /\
  ids_get (f_ids (trap_state (ev B 7))) (strip (S_ "ghost")) = None /\
  ids_get (f_ids (trap_state (ev B 7))) (S_ "h") <> None /\
  compile ex_fuel (set_row ex_wb B 7 (set_first_from (nth 7 flowB_rows (row_ TSend [] [] [])) [Lit (S_ "ghost")])) None
  = Err EEdgeUnknownRow.
Proof.
  split; [apply ex_evaluated; vm_compute; reflexivity|]. repeat split; try (vm_compute; reflexivity).
  vm_compute. discriminate.
Qed.

Example detect_overlong_category_nonvacuous :
  evaluated_at ex_fuel ex_wb None A 2 (trap_state (ev A 2)) (trap_bt (ev A 2)) /\
  cat_site (trap_state (ev A 2)) (mkIE (S_ "w") (with_name (mkCond (S_ "yes") [] [] (S_ "Yes")) (repeat 78%N 116))) = true /\
  compile ex_fuel (set_row ex_wb A 2 (set_first_name (nth 2 flowA_rows (row_ TSend [] [] [])) (repeat 78%N 116))) None = Err ECatName /\
  compile ex_fuel (set_row ex_wb A 2 (set_first_name (nth 2 flowA_rows (row_ TSend [] [] [])) (repeat 78%N 115))) None = Ok ex_doc.
Proof. split; [apply ex_evaluated; vm_compute; reflexivity|]. repeat split; vm_compute; reflexivity. Qed.

Example detect_uuid_conflict_nonvacuous :
  evaluated_at ex_fuel ex_wb None B 11 (trap_state (ev B 11)) (trap_bt (ev B 11)) /\
  uget (uu_groups (f_uu (trap_state (ev B 11)))) (S_ "vip") = Some (UGiven (S_ "11111111-1111-4111-8111-111111111111")) /\
  compile ex_fuel (set_row ex_wb B 11 (set_objid (nth 11 flowB_rows (row_ TSend [] [] [])) (S_ "22222222-2222-4222-8222-222222222222"))) None
  = Err EUuidConflict.
Proof. split; [apply ex_evaluated; vm_compute; reflexivity|]. repeat split; vm_compute; reflexivity. Qed.

Example detect_flow_uuid_conflict_nonvacuous :
  evaluated_at ex_fuel ex_wb None A 6 (trap_state (ev A 6)) (trap_bt (ev A 6)) /\
  uget (uu_flows (f_uu (trap_state (ev A 6)))) (S_ "child") = Some (UGiven (S_ "33333333-3333-4333-8333-333333333333")) /\
  compile ex_fuel (set_row ex_wb A 6 (set_objid (nth 6 flowA_rows (row_ TSend [] [] [])) (S_ "44444444-4444-4444-8444-444444444444"))) None
  = Err EUuidConflict.
Proof. split; [apply ex_evaluated; vm_compute; reflexivity|]. split; vm_compute; reflexivity. Qed.

Example detect_mismatched_terminator_nonvacuous :
  (exists s, compile_trap ex_fuel ex_wb None B 4 false sel_read = Err (TTrap B 4 s BFor false)) /\
  compile ex_fuel (set_row ex_wb B 4 (set_type (nth 4 flowB_rows (row_ TSend [] [] [])) TEndBlock)) None = Err EWrongTerminator.
Proof.
  split.
  - exists (trap_state (compile_trap ex_fuel ex_wb None B 4 false sel_read)). vm_compute. reflexivity.
  - vm_compute. reflexivity.
Qed.

Example detect_unterminated_block_nonvacuous :
  (exists s, compile_trap ex_fuel ex_wb None B 11 true sel_read = Err (TTrap B 11 s BBlock false)) /\
  compile ex_fuel (truncate_sheet ex_wb B 11) None = Err EUnterminated /\
  (* cut at the root: nothing is detected, the shorter sheet is a valid sheet *)
  (exists s, compile_trap ex_fuel ex_wb None B 10 true sel_read = Err (TTrap B 10 s BRoot false)) /\
  is_ok (compile ex_fuel (truncate_sheet ex_wb B 10) None) = true.
Proof.
  split; [|split; [|split]].
  - exists (trap_state (compile_trap ex_fuel ex_wb None B 11 true sel_read)). vm_compute. reflexivity.
  - vm_compute. reflexivity.
  - exists (trap_state (compile_trap ex_fuel ex_wb None B 10 true sel_read)). vm_compute. reflexivity.
  - vm_compute. reflexivity.
Qed.

(* a row under a false include_if is not evaluated: the trap never stops there, and a fault in
   it (here an undefined variable and an empty text) is not detected — the property does not ask for it *)
Example not_evaluated_row :
  ev B 9 = Ok ex_doc /\
  compile ex_fuel (set_row ex_wb B 9 (set_main (nth 9 flowB_rows (row_ TSend [] [] [])) [])) None = Ok ex_doc.
Proof. split; vm_compute; reflexivity. Qed.

(* ---------------------------------------------------------------- index, flow definitions, triggers *)
Definition set_index (wb : workbook) (rows : list ixrow) : workbook :=
  map (fun ns => if str_eqb (fst ns) s_content_index then (fst ns, SIndex rows) else ns) wb.

Example detect_no_content_index_nonvacuous :
  wb_get (tl ex_wb) s_content_index = None /\ compile ex_fuel (tl ex_wb) None = Err ENoIndex.
Proof. split; vm_compute; reflexivity. Qed.

Definition ix_missing : ixrow := ix_ ITriggers ["no_such_sheet"].
Example index_fault_fatal_nonvacuous :
  let wb' := set_index ex_wb (firstn 5 ex_index ++ [ix_missing]) in
  wb_get wb' s_content_index = Some (SIndex (firstn 5 ex_index ++ ix_missing :: [])) /\
  is_ok (process_index ex_fuel (erase wb') None (firstn 5 ex_index) is0) = true /\
  wb_get (erase wb') (S_ "no_such_sheet") = None /\
  compile ex_fuel wb' None = Err ESheetNotFound.
Proof. repeat split; vm_compute; reflexivity. Qed.

Definition ix_badop : ixrow := mkIx IDataSheet false [S_ "data1"] (S_ "renamed") [] [] [[]] [] [] OpOther [].
Example index_step_unknown_operation_nonvacuous :
  compile ex_fuel (set_index ex_wb (ix_badop :: ex_index)) None = Err EUnknownOp.
Proof. vm_compute. reflexivity. Qed.

Definition ix_badmodel : ixrow := mkIx IDataSheet false [S_ "data1"] [] [] [] [[]] [] (S_ "NoSuchModel") OpNone [].
Example index_step_unknown_data_model_nonvacuous :
  compile ex_fuel (set_index ex_wb (ix_badmodel :: tl ex_index)) (Some [S_ "SomeModel"]) = Err EDataModel /\
  (* without --datamodels the name is ignored by the tool *)
  compile ex_fuel (set_index ex_wb (ix_badmodel :: tl ex_index)) None = Ok ex_doc.
Proof. split; vm_compute; reflexivity. Qed.

Example flow_def_fault_fatal_nonvacuous :
  (* the data row named by the THIRD flow definition does not exist: the two before compile *)
  let bad := mkIx ICreateFlow false [S_ "flowB"] (S_ "again") (S_ "data1") (S_ "r9") [[]] [] [] OpNone [] in
  compile ex_fuel (set_index ex_wb (firstn 4 ex_index ++ bad :: skipn 4 ex_index)) None = Err EKeyData.
Proof. vm_compute. reflexivity. Qed.

Example flow_def_arg_missing_nonvacuous :
  let bad := mkIx ICreateFlow false [S_ "tmpl"] (S_ "noarg") [] [] [[]] [] [] OpNone [] in
  compile ex_fuel (set_index ex_wb (firstn 5 ex_index ++ bad :: skipn 5 ex_index)) None = Err EArgMissing.
Proof. vm_compute. reflexivity. Qed.

Example flow_def_arg_double_nonvacuous :
  let def2 := mkIx ITemplateDef false [S_ "tmpl"] [] [] [] [] [mkAD (S_ "arg0") []; mkAD (S_ "arg0") []] [] OpNone [] in
  compile ex_fuel (set_index ex_wb (firstn 1 ex_index ++ def2 :: skipn 2 ex_index)) None = Err EArgDouble.
Proof. vm_compute. reflexivity. Qed.

Example trigger_fault_fatal_nonvacuous :
  let wb' := map (fun ns => if str_eqb (fst ns) (S_ "trig")
                            then (fst ns, STriggers [mkTR true [S_ "join"] (S_ "flowA") [] []; mkTR false [] (S_ "no such flow") [] []])
                            else ns) ex_wb in
  compile ex_fuel wb' None = Err ETriggerFlow.
Proof. vm_compute. reflexivity. Qed.

Example detect_missing_flow_sheet_nonvacuous :
  let bad := ix_ ICreateFlow ["no_such_flow_sheet"] in
  is_ok (process_index ex_fuel (erase (set_index ex_wb (ex_index ++ [bad]))) None (ex_index ++ [bad]) is0) = true /\
  compile ex_fuel (set_index ex_wb (ex_index ++ [bad])) None = Err ESheetNotFound.
Proof. split; vm_compute; reflexivity. Qed.

Example detect_template_argument_in_data_row_nonvacuous :
  (* the template of the second flow definition declares an argument called like a column of its data sheet *)
  let def := mkIx ITemplateDef false [S_ "flowB"] [] [] [] [] [mkAD (S_ "label") (S_ "dflt")] [] OpNone [] in
  compile ex_fuel (set_index ex_wb (def :: ex_index)) None = Err EArgDouble.
Proof. vm_compute. reflexivity. Qed.
