(* E9 / C14 — facts about Dataset.dict getter / setter (converters.to_json and
   JSONSheetReader): a table survives table -> list of dicts -> table exactly when it has at
   least one row and its headers are pairwise distinct. *)
From Coq Require Import List NArith Bool Lia Arith.
From RPFT Require Import Base.Sexp Base.PyStr Base.PyStrFacts Base.Result Base.ODict Io.Csv Io.Sanitize Io.SanitizeFacts.
Import ListNotations.

Lemma oset_new (d : list (str * str)) k v : ~ In k (map fst d) -> oset str_eqb d k v = d ++ [(k, v)].
Proof.
  induction d as [|[k' v'] d IH]; intros Hn; [reflexivity|]. cbn [oset app].
  destruct (str_eqb k' k) eqn:E.
  - apply str_eqb_eq in E. subst k'. exfalso. apply Hn. left. reflexivity.
  - rewrite IH; [reflexivity|]. intros Hin. apply Hn. right. exact Hin.
Qed.

Lemma fold_oset_fresh (l : list (str * str)) : forall acc,
  NoDup (map fst l) -> (forall k, In k (map fst l) -> ~ In k (map fst acc)) ->
  fold_left (fun d kv => oset str_eqb d (fst kv) (snd kv)) l acc = acc ++ l.
Proof.
  induction l as [|[k v] l IH]; intros acc Hnd Hfresh.
  - cbn. rewrite app_nil_r. reflexivity.
  - cbn [fold_left fst snd]. cbn [map fst] in Hnd. inversion Hnd as [|k' l' Hk Hl]; subst.
    rewrite oset_new by (apply Hfresh; left; reflexivity).
    rewrite IH; [rewrite <- app_assoc; reflexivity|exact Hl|].
    intros k2 Hin. rewrite map_app, in_app_iff. cbn [map fst]. intros [Ha|[Ha|[]]].
    + apply (Hfresh k2); [right; exact Hin|exact Ha].
    + subst k2. apply Hk, Hin.
Qed.

Lemma map_fst_combine {A B} (h : list A) (r : list B) : length r = length h -> map fst (combine h r) = h.
Proof.
  revert r. induction h as [|a h IH]; intros r Hl; [reflexivity|].
  destruct r as [|b r]; [discriminate|]. cbn. f_equal. apply IH. cbn in Hl. lia.
Qed.

Lemma map_snd_combine {A B} (h : list A) (r : list B) : length r = length h -> map snd (combine h r) = r.
Proof.
  revert r. induction h as [|a h IH]; intros r Hl; [destruct r; [reflexivity|discriminate]|].
  destruct r as [|b r]; [discriminate|]. cbn. f_equal. apply IH. cbn in Hl. lia.
Qed.

(* dict(zip(headers, row)) with distinct headers keeps every pair, in order *)
Lemma py_dict_zip_combine h r : NoDup h -> length r = length h -> py_dict_zip h r = combine h r.
Proof.
  intros Hnd Hl. unfold py_dict_zip. rewrite fold_oset_fresh; [reflexivity| |intros k _ []].
  rewrite map_fst_combine by exact Hl. exact Hnd.
Qed.

Theorem json_table_roundtrip (t : table str str) :
  NoDup (hdr t) -> rect t -> rws t <> [] -> from_dicts (to_dicts t) = Ok t.
Proof.
  destruct t as [h rows]. unfold rect. cbn [hdr rws]. intros Hnd Hr Hne.
  destruct h as [|c h].
  - (* a table without headers travels as a list of lists *)
    unfold to_dicts, from_dicts. cbn [hdr rws].
    pose proof (foldM_append_rect (H := str) (fun x : list str => x) [] rows [] (Forall_nil _) Hr) as E.
    cbn [app] in E. rewrite map_id in E. exact E.
  - unfold to_dicts. cbn [hdr rws].
    destruct rows as [|r rs]; [congruence|].
    assert (Hall : Forall (fun x => length (map snd (py_dict_zip (c :: h) x)) = length (c :: h)) (r :: rs)).
    { revert Hr. apply Forall_impl. intros x Hx. rewrite py_dict_zip_combine by assumption.
      rewrite map_snd_combine by exact Hx. exact Hx. }
    cbn [map]. unfold from_dicts.
    inversion Hr as [|r' rs' Hlen Hrs]; subst.
    rewrite (py_dict_zip_combine (c :: h) r Hnd Hlen) at 1.
    rewrite map_fst_combine by exact Hlen. rewrite set_headers_empty.
    change (py_dict_zip (c :: h) r :: map (py_dict_zip (c :: h)) rs) with (map (py_dict_zip (c :: h)) (r :: rs)).
    rewrite (foldM_append_rect (fun d : list (str * str) => map snd d) (c :: h) (map (py_dict_zip (c :: h)) (r :: rs)) []).
    + cbn [app]. f_equal. f_equal. rewrite map_map. rewrite <- (map_id (r :: rs)) at 2.
      apply map_ext_in. intros x Hin. rewrite Forall_forall in Hr.
      rewrite py_dict_zip_combine by (auto). apply map_snd_combine. apply Hr, Hin.
    + constructor.
    + apply Forall_map. exact Hall.
Qed.

Local Open Scope N_scope.

Definition ex_table : table str str :=
  mkT [[97]; [98; 32; 99]; [233]] [[[120]; []; [44; 34; 10]]; [[]; []; []]; [[49]; [50]; [19990]]].

Example json_table_roundtrip_nonvacuous :
  NoDup (hdr ex_table) /\ rect ex_table /\ rws ex_table <> [] /\
  to_dicts ex_table = JDicts [ [([97], [120]); ([98; 32; 99], []); ([233], [44; 34; 10])];
                               [([97], []); ([98; 32; 99], []); ([233], [])];
                               [([97], [49]); ([98; 32; 99], [50]); ([233], [19990])] ].
Proof.
  split; [|split; [|split]].
  - unfold ex_table. cbn [hdr]. repeat constructor; cbn; intuition discriminate.
  - unfold rect, ex_table. cbn [hdr rws]. repeat constructor.
  - discriminate.
  - vm_compute. reflexivity.
Qed.

(* a header-only sheet: Dataset.dict is [] and the setter's `if not pickle: return` leaves a
   fresh Dataset — the headers are lost (the known finding "sheet without rows") *)
Theorem json_table_roundtrip_header_only_refuted :
  let t := mkT [[97]] [] in
  NoDup (hdr t) /\ rect t /\ from_dicts (to_dicts t) = Ok empty_table /\ from_dicts (to_dicts t) <> Ok t.
Proof.
  cbv zeta. split; [repeat constructor; intros []|]. split; [constructor|].
  split; [vm_compute; reflexivity|vm_compute; discriminate].
Qed.

(* two columns with the same header: dict(zip(...)) keeps one key (the last value) *)
Theorem json_table_roundtrip_duplicate_header_refuted :
  let t := mkT [[97]; [97]] [[[120]; [121]]] in
  rect t /\ rws t <> [] /\ from_dicts (to_dicts t) = Ok (mkT [[97]] [[[121]]]) /\ from_dicts (to_dicts t) <> Ok t.
Proof.
  cbv zeta. split; [repeat constructor|]. split; [discriminate|].
  split; [vm_compute; reflexivity|vm_compute; discriminate].
Qed.
