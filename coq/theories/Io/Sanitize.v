(* E9 / C14 — the toolkit's own glue around the file codecs (sheets.py, converters.py):
   XLSXFormat.import_sheet + XLSXSheetReader._sanitize, Dataset.dict getter/setter as used
   by converters.to_json and JSONSheetReader, and the three workbook readers.
   Definitions only; facts are in IoFacts.v. *)
From Coq Require Import List NArith Bool.
From RPFT Require Import Base.Sexp Base.PyStr Base.Result Base.ODict Io.Csv.
Import ListNotations.

(* ------------------------------------------------------------------ XLSX *)

(* an openpyxl cell value as far as it is modelled: None or a string *)
Definition xcell := option str.

Definition cell_text (c : xcell) : str := match c with None => [] | Some s => s end.
Definition nonempty (s : str) : bool := match s with [] => false | _ => true end.

(* tablib XLSXFormat.import_sheet: first grid row = headers (set through the validating
   setter), later rows padded with '' to the width, then appended *)
Definition xlsx_import_sheet (grid : list (list xcell)) : result io_err (table xcell xcell) :=
  match grid with
  | [] => Ok empty_table
  | h :: rest =>
    match set_headers empty_table h with
    | Err e => Err e
    | Ok t => foldM (fun t r => append t (pad_to (width t) (Some []) r)) rest t
    end
  end.

(* `while data.headers[-1] is None: data.headers.pop()` on the reversed header list *)
Fixpoint pop_trailing_none (rh : list xcell) : result io_err (list xcell) :=
  match rh with
  | [] => Err EIndex
  | None :: r => pop_trailing_none r
  | Some _ :: _ => Ok (rev rh)
  end.

Definition sanitize_row (w : nat) (r : list xcell) : list str := firstn w (map cell_text r).

(* XLSXSheetReader._sanitize *)
Definition sanitize (sheet : table xcell xcell) : result io_err (table xcell str) :=
  match hdr sheet with
  | [] => Err EType
  | h =>
    match pop_trailing_none (rev h) with
    | Err e => Err e
    | Ok h' =>
      foldM (fun t r =>
               let nr := sanitize_row (length h') r in
               if existsb nonempty nr then append t nr else Ok t)
            (rws sheet) (mkT h' [])
    end
  end.

Definition read_xlsx_sheet (grid : list (list xcell)) : result io_err (table xcell str) :=
  match xlsx_import_sheet grid with Err e => Err e | Ok t => sanitize t end.

(* ------------------------------------------------------------------ JSON *)

(* what a sheet looks like inside the JSON workbook: a list of objects (string members,
   in order) or, for a table without headers, a list of lists *)
Inductive jsheet :=
| JDicts (l : list (list (str * str)))
| JLists (l : list (list str))
(* the object form {"headers": [...], "rows": [[...], ...]} (a tree whose `convert` can carry the
   headers of a sheet without rows) *)
| JTable (h : list str) (rows : list (list str)).

(* dict(zip(headers, row)): zip stops at the shorter, a repeated key keeps its first
   position and takes the last value *)
Definition py_dict_zip (h r : list str) : list (str * str) :=
  fold_left (fun d kv => oset str_eqb d (fst kv) (snd kv)) (combine h r) [].

(* Dataset.dict getter = _package(dicts=True) *)
Definition to_dicts (t : table str str) : jsheet :=
  match hdr t with
  | [] => JLists (rws t)
  | h => JDicts (map (py_dict_zip h) (rws t))
  end.

(* Dataset.dict setter: `if not pickle: return` leaves the fresh Dataset untouched;
   a list of lists gives rows only; a list of dicts takes the keys of the FIRST dict as
   headers and the values of every dict, in that dict's own order, as rows *)
Definition from_dicts (j : jsheet) : result io_err (table str str) :=
  match j with
  | JLists rows => foldM append rows empty_table
  | JDicts [] => Ok empty_table
  | JDicts (d :: ds) =>
    match set_headers empty_table (map fst d) with
    | Err e => Err e
    | Ok t => foldM (fun t d => append t (map snd d)) (d :: ds) t
    end
  | JTable _ _ => Err EFormat       (* `if not isinstance(pickle, list): raise UnsupportedFormat` *)
  end.

(* ------------------------------------------------------------------ what differs between trees *)

(* How the readers / `convert` of the tree at hand treat rows without content and sheets without
   rows.  PROBED by the translator (translator/tables_c14.py -> Gen/Tables.v); every definition
   and fact below is stated for arbitrary flags. *)
Record reader_flags := {
  rf_csv_drop : bool;      (* CSVSheetReader omits rows whose every cell is empty *)
  rf_json_drop : bool;     (* JSONSheetReader omits them *)
  rf_json_table : bool;    (* JSONSheetReader reads the object form {"headers", "rows"} *)
  rf_tojson_table : bool   (* converters.to_json writes a sheet WITH headers and WITHOUT rows in that form *)
}.

(* sheets.drop_empty_rows: `del table[i]` for every row with `all(cell is None or cell == "")` *)
Definition drop_empty_rows {H} (t : table H str) : table H str :=
  mkT (hdr t) (filter (existsb nonempty) (rws t)).

Definition drop_if {H} (b : bool) (t : table H str) : table H str := if b then drop_empty_rows t else t.

(* one sheet of converters.to_json *)
Definition to_json_sheet (fl : reader_flags) (t : table str str) : jsheet :=
  if rf_tojson_table fl then
    match hdr t, rws t with
    | _ :: _, [] => JTable (hdr t) []
    | _, _ => to_dicts t
    end
  else to_dicts t.

(* one sheet of JSONSheetReader: the object form (`table.headers = ...; table.append(row)...`)
   or `table.dict = content`; then the rows without content go, on a tree that omits them *)
Definition read_json_sheet (fl : reader_flags) (j : jsheet) : result io_err (table str str) :=
  let r := match j with
           | JTable h rows =>
             if rf_json_table fl then
               match set_headers empty_table h with
               | Err e => Err e
               | Ok t => foldM append rows t
               end
             else from_dicts j
           | _ => from_dicts j
           end in
  match r with Err e => Err e | Ok t => Ok (drop_if (rf_json_drop fl) t) end.

(* ------------------------------------------------------------------ workbooks *)

Definition workbook (T : Type) := list (str * T).

Definition wb_mapM {S T} (f : S -> result io_err T) (wb : workbook S) : result io_err (workbook T) :=
  mapM (fun p => match f (snd p) with Err e => Err e | Ok t => Ok (fst p, t) end) wb.

Definition wb_map {S T} (f : S -> T) (wb : workbook S) : workbook T :=
  map (fun p => (fst p, f (snd p))) wb.

Section Readers.
Variables (delim quote : char) (term : str) (lim : N) (translated : bool) (fl : reader_flags).

(* CSVSheetReader on one file: load_csv, then the rows without content go, on a tree that omits them *)
Definition read_csv_sheet (txt : str) : result io_err (table str str) :=
  match load_csv_text delim quote lim translated txt with
  | Err e => Err e
  | Ok t => Ok (drop_if (rf_csv_drop fl) t)
  end.

(* CSVSheetReader: one (stem, file text) per *.csv file *)
Definition read_csv_wb (files : workbook str) : result io_err (workbook (table str str)) :=
  wb_mapM read_csv_sheet files.

(* XLSXSheetReader: one (title, grid of cell values) per worksheet *)
Definition read_xlsx_wb (sheets : workbook (list (list xcell))) : result io_err (workbook (table xcell str)) :=
  wb_mapM read_xlsx_sheet sheets.

(* JSONSheetReader on data["sheets"] *)
Definition read_json_wb (b : workbook jsheet) : result io_err (workbook (table str str)) :=
  wb_mapM (read_json_sheet fl) b.

(* converters.to_json: the "sheets" member *)
Definition to_json_wb (wb : workbook (table str str)) : workbook jsheet := wb_map (to_json_sheet fl) wb.

(* the workbook written as a CSV folder with the csv module / tablib export *)
Definition write_csv_wb (wb : workbook (table str str)) : workbook str :=
  wb_map (csv_export_set delim quote term) wb.

End Readers.

(* a table of strings seen as what the XLSX reader returns (headers are cell values) *)
Definition lift_table (t : table str str) : table xcell str := mkT (map Some (hdr t)) (rws t).

(* the grid of a table whose every cell is a string cell: openpyxl returns None for an
   empty string cell *)
Definition grid_cell (s : str) : xcell := match s with [] => None | _ => Some s end.
Definition grid_of (t : table str str) : list (list xcell) :=
  map (map grid_cell) (package_rows t).
