(* E9 / C15 — the `create_flows` command (src/rpft/cli.py create_flows, converters.create_flows,
   logger.ShutdownHandler): compile the workbook; a detected fault ends the process with a
   non-zero status and the output path is not touched; otherwise open(output, "w") and
   json.dump(indent=4).  The file system is a map path -> content.

   The order "compile first, open afterwards", "failures propagate" and "the file is the
   indent=4 dump of what the library returned" are not assumed: they are the regenerated
   constants c15_cli_* (behavioural probes of rpft.cli.create_flows in translator/tables_c15.py).
   If a probe says otherwise the command is outside what this file describes and [cli]
   answers with the worst case (status 0, output truncated), which no theorem accepts.

   Not modelled: the process being killed from outside, or the disk filling up, while
   json.dump writes (the command writes in place).  Definitions only. *)
From Coq Require Import List NArith ZArith Bool.
From RPFT Require Import Base.Sexp Base.PyStr Base.Result Base.Json Gen.Tables
  Io.CliLog Io.CliFlow Io.CliIndex Io.CliJson.
Import ListNotations.

Definition path := str.
Definition fs := list (path * str).

Fixpoint fs_read (f : fs) (p : path) : option str :=
  match f with [] => None | (q, c) :: r => if str_eqb q p then Some c else fs_read r p end.
Fixpoint fs_write (f : fs) (p : path) (c : str) : fs :=
  match f with
  | [] => [(p, c)]
  | (q, d) :: r => if str_eqb q p then (q, c) :: r else (q, d) :: fs_write r p c
  end.

Definition out_path : path := [111;117;116;46;106;115;111;110]%N.     (* "out.json" *)

Definition k_str (s : str) := s.
Definition s_campaigns : str := [99;97;109;112;97;105;103;110;115]%N.
Definition s_flows : str := [102;108;111;119;115]%N.
Definition s_triggers : str := [116;114;105;103;103;101;114;115]%N.
Definition s_name : str := [110;97;109;101]%N.

(* the part of the export the compiler model determines: flow names, campaign names,
   number of triggers *)
Definition doc_json (d : doc) : json :=
  JObj [(s_campaigns, JArr (map (fun n => JObj [(s_name, JStr n)]) (d_campaigns d)));
        (s_flows, JArr (map (fun n => JObj [(s_name, JStr n)]) (d_flows d)));
        (s_triggers, JInt (Z.of_nat (d_triggers d)))].

(* exit status of a stopped command: ShutdownHandler's sys.exit for a logged site, 1 for an
   uncaught exception (CPython) *)
Definition exit_status (c : cls) : N :=
  match assocN c15_site_levels (cls_code c) with
  | Some _ => c15_shutdown_exit
  | None => 1%N
  end.

Definition cli_shape_ok : bool :=
  c15_cli_error_untouched && c15_cli_error_propagates && c15_cli_ok_dumps_indent4.

Definition cli (fuel : nat) (wb : workbook) (dm : option (list str)) (out : path) (f : fs) : N * fs :=
  if cli_shape_ok then
    match compile fuel wb dm with
    | Err c => (exit_status c, f)
    | Ok d => (0%N, fs_write f out (serialize (doc_json d)))
    end
  else (0%N, fs_write f out []).

(* ---------------------------------------------------------------- the command under a given
   invocation environment (Io/CliLog.v).  `None` = this file does not say what happens.

   * a configuration under which the command never gets to the library call (the log file
     cannot be opened, ...): it ends with the status the probe saw and touches nothing;
   * otherwise a detected fault is a log record of the level of its site, or an uncaught
     exception: the status is what the handlers of THIS configuration exit with (1 for an
     exception); a site whose record no handler of the configuration turns into an exit is
     not described (what the code does after it is not modelled);
   * a workbook that compiles is written as under the default configuration, provided the
     configuration ends the process at the same level as the default one (a stricter one may
     stop at a warning the compile model knows nothing about). *)
Definition exit_status_in (cfg : log_config) (c : cls) : option N :=
  match assocN c15_site_levels (cls_code c) with
  | Some lvl => log_at cfg lvl
  | None => Some 1%N
  end.

Definition cli_in (cfg : log_config) (fuel : nat) (wb : workbook) (dm : option (list str)) (out : path) (f : fs)
  : option (N * fs) :=
  if started cfg then
    if cli_shape_ok then
      match compile fuel wb dm with
      | Err c => match exit_status_in cfg c with
                 | Some e => Some (e, f)
                 | None => None
                 end
      | Ok d => if like_default cfg then Some (0%N, fs_write f out (serialize (doc_json d))) else None
      end
    else None
  else if (N.eqb (lc_start cfg) 1 || N.eqb (lc_start cfg) 2)%bool
       then Some (snd (lc_observed cfg), f)
       else None.
