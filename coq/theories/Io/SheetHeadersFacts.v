(* E9 / C07 — facts about the set of columns of an exported sheet (Io/SheetHeaders.v).  The full statement "every
   header a row writes is a column of the sheet" is DECIDED by the probed constant sheet_keeps_single_columns. *)
From Coq Require Import List NArith Bool.
From RPFT Require Import Base.Sexp Base.PyStr Base.PyStrFacts Gen.Tables Io.SheetHeaders.
Import ListNotations.

Lemma existsb_str_in h l : existsb (str_eqb h) l = true <-> In h l.
Proof.
  rewrite existsb_exists. split.
  - intros (x & Hin & E). apply str_eqb_eq in E. subst x. exact Hin.
  - intros H. exists h. split; [exact H|apply str_eqb_refl].
Qed.

Lemma dedup_in seen l h : In h (dedup seen l) <-> In h l /\ ~ In h seen.
Proof.
  revert seen. induction l as [|x r IH]; intros seen; cbn [dedup In]; [tauto|].
  destruct (existsb (str_eqb x) seen) eqn:E.
  - apply existsb_str_in in E. rewrite IH. split.
    + intros [H1 H2]. split; [right; exact H1|exact H2].
    + intros [[H1|H1] H2]; [subst x; contradiction|split; assumption].
  - assert (Hx : ~ In x seen). { intros H. apply existsb_str_in in H. rewrite H in E. discriminate. }
    cbn [In]. rewrite IH. cbn [In]. split.
    + intros [H|[H1 H2]]; [subst x; split; [left; reflexivity|exact Hx]|].
      split; [right; exact H1|]. intros H. apply H2. right. exact H.
    + intros [[H1|H1] H2]; [left; exact H1|].
      destruct (str_eqb x h) eqn:Eh; [apply str_eqb_eq in Eh; left; exact Eh|].
      right. split; [exact H1|]. intros [H|H]; [subst x; rewrite str_eqb_refl in Eh; discriminate|contradiction].
Qed.

Lemma dedup_nodup seen l : NoDup (dedup seen l) /\ forall h, In h (dedup seen l) -> ~ In h seen.
Proof.
  revert seen. induction l as [|x r IH]; intros seen; cbn [dedup]; [split; [constructor|intros h []]|].
  destruct (existsb (str_eqb x) seen) eqn:E; [apply IH|].
  destruct (IH (x :: seen)) as [N D]. split.
  - constructor; [|exact N]. intros H. apply (D x H). left. reflexivity.
  - intros h [H|H]; [subst h; intros Hin; apply existsb_str_in in Hin; rewrite Hin in E; discriminate|].
    intros Hin. apply (D h H). right. exact Hin.
Qed.

(* either tree: a column of the sheet is a header some row writes, and no column appears twice *)
Theorem sheet_headers_sound rows h : In h (sheet_header_set rows) -> exists r, In r rows /\ In h r.
Proof.
  unfold sheet_header_set. rewrite dedup_in. intros [H _]. apply in_concat in H as (ns & Hns & Hh).
  apply in_map_iff in Hns as (r & <- & Hr). exists r. split; [exact Hr|].
  unfold row_nodes in Hh. destruct r as [|a [|b r']]; [| |exact Hh];
    destruct sheet_keeps_single_columns; first [exact Hh | destruct Hh].
Qed.

Theorem sheet_headers_nodup rows : NoDup (sheet_header_set rows).
Proof. apply dedup_nodup. Qed.

(* either tree: the headers of a row with two or more columns are columns of the sheet *)
Theorem sheet_headers_wide_rows rows r h :
  In r rows -> (2 <= length r)%nat -> In h r -> In h (sheet_header_set rows).
Proof.
  intros Hr Hl Hh. unfold sheet_header_set. apply dedup_in. split; [|intros []].
  apply in_concat. exists (row_nodes r). split; [apply in_map, Hr|].
  destruct r as [|a [|b r']]; cbn [length] in Hl; [inversion Hl|inversion Hl as [|? H]; inversion H|exact Hh].
Qed.

Definition sheet_headers_complete_full : Prop :=
  forall rows r h, In r rows -> In h r -> In h (sheet_header_set rows).

Lemma row_nodes_on r : sheet_keeps_single_columns = true -> row_nodes r = r.
Proof. intros E. unfold row_nodes. rewrite E. destruct r as [|a [|b r']]; reflexivity. Qed.

Lemma row_nodes_off r : sheet_keeps_single_columns = false -> row_nodes r = match r with _ :: _ :: _ => r | _ => [] end.
Proof. intros E. unfold row_nodes. rewrite E. reflexivity. Qed.

(* "e1": the one column of the rows of the finding *)
Definition w_e1 : str := [101%N; 49%N].

Theorem sheet_headers_complete_decided :
  if sheet_keeps_single_columns then sheet_headers_complete_full else ~ sheet_headers_complete_full.
Proof.
  destruct sheet_keeps_single_columns eqn:E.
  - intros rows r h Hr Hh. unfold sheet_header_set. apply dedup_in. split; [|intros []].
    apply in_concat. exists (row_nodes r). split; [apply in_map, Hr|]. rewrite (row_nodes_on r E). exact Hh.
  - intros H. specialize (H [[w_e1]; [w_e1]] [w_e1] w_e1 (or_introl eq_refl) (or_introl eq_refl)).
    unfold sheet_header_set in H. cbn [map] in H. rewrite (row_nodes_off [w_e1] E) in H. destruct H.
Qed.

(* the two shapes of the finding: a sheet of one-column rows has no column at all (tablib then has no headers:
   TypeError); a one-column row next to a wider row loses its cell *)
Definition w_a : str := [97%N].
Definition w_b : str := [98%N].
Definition w_c : str := [99%N].

Theorem sheet_headers_witness :
  sheet_header_set [[w_e1]; [w_e1]] = (if sheet_keeps_single_columns then [w_e1] else [])
  /\ sheet_header_set [[w_a; w_b]; [w_c]] = (if sheet_keeps_single_columns then [w_a; w_b; w_c] else [w_a; w_b])
  /\ sheet_cell (sheet_header_set [[w_a; w_b]; [w_c]]) [(w_c, [118%N])] w_c
     = (if sheet_keeps_single_columns then Some [118%N] else None).
Proof.
  unfold sheet_header_set. cbn [map]. destruct sheet_keeps_single_columns eqn:E.
  - rewrite !row_nodes_on by exact E. repeat split; vm_compute; reflexivity.
  - rewrite !row_nodes_off by exact E. repeat split; vm_compute; reflexivity.
Qed.
