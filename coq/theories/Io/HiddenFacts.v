(* C13 — facts about the hidden-state model (Io/Hidden.v). *)
From Coq Require Import List NArith ZArith Bool Arith Lia.
From RPFT Require Import Base.Sexp Base.PyStr Base.Result Gen.Tables Io.Hidden Io.HiddenInventory.
Import ListNotations.

(* ------------------------------------------------------------------ regenerated tables *)
Lemma inventory_ok : inventory_okb = true.
Proof. vm_compute. reflexivity. Qed.

Lemma handler_discipline_ok : handler_discipline_okb = true.
Proof. vm_compute. reflexivity. Qed.

(* ------------------------------------------------------------------ a small Hoare logic *)
(* [frame s s']: the stack and every default object are as they were *)
Definition frame (s s' : st) : Prop := s_stack s' = s_stack s /\ s_slots s' = s_slots s.

Definition is_loc (r : ref) : Prop := match r with RLoc _ => True | RSlot _ => False end.

(* [safe m Q]: from every state, m leaves stack and defaults as it found them — whether it
   succeeds, raises or exits — and a successful result satisfies Q *)
Definition safe {A} (m : M A) (Q : A -> Prop) : Prop :=
  forall s, frame s (fst (m s)) /\ forall a, snd (m s) = Ok a -> Q a.

Definition T {A} : A -> Prop := fun _ => True.

Lemma frame_refl s : frame s s.
Proof. split; reflexivity. Qed.

Lemma frame_trans a b c : frame a b -> frame b c -> frame a c.
Proof. intros [H1 H2] [H3 H4]. split; congruence. Qed.

Lemma safe_ret {A} (a : A) (Q : A -> Prop) : Q a -> safe (ret a) Q.
Proof. intros H s. split; [apply frame_refl|]. cbn. intros b E. inversion E. subst. exact H. Qed.

Lemma safe_throw {A} e (Q : A -> Prop) : safe (throw e) Q.
Proof. intros s. split; [apply frame_refl|]. cbn. intros b E. discriminate. Qed.

Lemma safe_lift {A} (r : result fail A) : safe (lift r) T.
Proof. intros s. split; [apply frame_refl|]. intros; exact I. Qed.

Lemma safe_weaken {A} (m : M A) (Q R : A -> Prop) : safe m Q -> (forall a, Q a -> R a) -> safe m R.
Proof. intros H HQR s. destruct (H s) as [F P]. split; [exact F|]. intros a E. apply HQR, P, E. Qed.

Lemma safe_bind {A B} (m : M A) (f : A -> M B) (Q : A -> Prop) (R : B -> Prop) :
  safe m Q -> (forall a, Q a -> safe (f a) R) -> safe (mbind m f) R.
Proof.
  intros Hm Hf s. unfold mbind. destruct (Hm s) as [F P].
  destruct (m s) as [s1 [a|e]] eqn:E; cbn in *.
  - destruct (Hf a (P a eq_refl) s1) as [F2 P2]. split; [eapply frame_trans; eassumption|exact P2].
  - split; [exact F|]. intros b Hb. discriminate.
Qed.

Lemma safe_read r : safe (read r) T.
Proof. intros s. split; [apply frame_refl|]. intros; exact I. Qed.

Lemma safe_write r f : is_loc r -> safe (write r f) T.
Proof.
  intros H s. destruct r as [i|n]; [destruct H|]. split; [split; reflexivity|]. intros; exact I.
Qed.

Lemma safe_alloc v : safe (alloc v) is_loc.
Proof.
  intros s. split; [split; reflexivity|]. cbn. intros a E. inversion E. exact I.
Qed.

Lemma safe_freshid : safe freshid T.
Proof. intros s. split; [split; reflexivity|]. intros; exact I. Qed.

(* `with logging_context(l): body` — the pop happens on every way out of the body *)
Lemma safe_with {A} l (m : M A) (Q : A -> Prop) : safe m Q -> safe (with_ctx l m) Q.
Proof.
  intros Hm s. unfold with_ctx, push_raw.
  set (s0 := mkS (l :: s_stack s) (s_slots s) (s_loc s) (s_next s)).
  destruct (Hm s0) as [[Fs Fd] P]. destruct (m s0) as [s1 r] eqn:E. cbn in Fs, Fd, P.
  unfold pop_raw. rewrite Fs. cbn. split.
  - split; cbn; [reflexivity|exact Fd].
  - exact P.
Qed.

Lemma safe_mfold {S A} (f : A -> S -> M A) (l : list S) (Q : A -> Prop) :
  (forall a x, Q a -> safe (f a x) Q) -> forall a, Q a -> safe (mfold f l a) Q.
Proof.
  intros Hf. induction l as [|x r IH]; intros a Ha; cbn [mfold].
  - apply safe_ret. exact Ha.
  - eapply safe_bind; [apply Hf; exact Ha|]. intros a1 Ha1. apply IH. exact Ha1.
Qed.

Lemma safe_with_tt l : safe (with_ctx l (ret tt)) T.
Proof. apply safe_with, safe_ret. exact I. Qed.

(* raw pushes do NOT have the property: the model contains none because the regenerated
   use-site table contains none (handler_discipline_ok) *)
Lemma push_raw_not_safe l : ~ safe (push_raw l) T.
Proof.
  intros H. destruct (H (mkS [] [] [] 0)) as [[F _] _]. cbn in F. discriminate.
Qed.

(* ------------------------------------------------------------------ the mirrors are safe *)
Ltac safe_step :=
  first
    [ apply safe_ret; try exact I
    | apply safe_throw
    | apply safe_with
    | apply safe_freshid
    | apply safe_read
    | eapply safe_weaken; [apply safe_lift|intros; exact I]
    | eapply safe_bind; [|intros ? ?] ].

Lemma safe_tagmatcher_init r : safe (tagmatcher_init r) T.
Proof. unfold tagmatcher_init. eapply safe_bind; [apply safe_read|]. intros v _. apply safe_lift. Qed.

Lemma safe_tagmatcher_of_ref r : safe (tagmatcher_of_ref r) T.
Proof. unfold tagmatcher_of_ref. eapply safe_bind; [apply safe_read|]. intros v _. apply safe_ret. exact I. Qed.

Lemma safe_sheet_parser_init r : safe (sheet_parser_init r) is_loc.
Proof. unfold sheet_parser_init. eapply safe_bind; [apply safe_read|]. intros v _. apply safe_alloc. Qed.

Lemma safe_add_to_context sp k v : is_loc sp -> safe (add_to_context sp k v) T.
Proof. intros H. apply safe_write. exact H. Qed.

Lemma safe_remove_from_context sp k : is_loc sp -> safe (remove_from_context sp k) T.
Proof.
  intros H. unfold remove_from_context. eapply safe_bind; [apply safe_read|]. intros d _.
  destruct (aget d k); [apply safe_write; exact H|].
  destruct remove_tolerant; [apply safe_ret; exact I|apply safe_throw].
Qed.

Lemma safe_leave_loop sp k sh : is_loc sp -> safe (leave_loop sp k sh) T.
Proof.
  intros H. unfold leave_loop.
  destruct loop_scope_policy; [apply safe_remove_from_context; exact H|].
  destruct sh; [apply safe_add_to_context; exact H|apply safe_remove_from_context; exact H].
Qed.

Lemma safe_render_cell sp c : safe (render_cell sp c) T.
Proof.
  destruct c as [s|x]; cbn [render_cell]; [apply safe_ret; exact I|].
  eapply safe_bind; [apply safe_read|]. intros d _.
  destruct (aget d x); [apply safe_ret; exact I|].
  destruct env_undefined_policy; [apply safe_throw|apply safe_ret; exact I].
Qed.

Lemma safe_node_uuid nid : safe (node_uuid nid) T.
Proof. destruct nid; cbn; [apply safe_freshid|apply safe_ret; exact I]. Qed.

Lemma safe_lift_rec_g c n u : safe (lift_rec_g c n u) T.
Proof. unfold lift_rec_g. eapply safe_bind; [apply safe_lift|]. intros d _. apply safe_ret. exact I. Qed.
Lemma safe_lift_rec_f c n u : safe (lift_rec_f c n u) T.
Proof. unfold lift_rec_f. eapply safe_bind; [apply safe_lift|]. intros d _. apply safe_ret. exact I. Qed.

(* induction principle for the nested row type *)
Section frow_ind2.
  Variable P : frow -> Prop.
  Hypothesis Hsend : forall n c, P (FSend n c).
  Hypothesis Hgroup : forall n g i, P (FGroup n g i).
  Hypothesis Henter : forall n f i, P (FEnter n f i).
  Hypothesis Hfor : forall v its body, Forall P body -> P (FFor v its body).
  Hypothesis Hbad : P FBadRow.
  Hypothesis Hcrit : P FCritRow.
  Fixpoint frow_ind2 (r : frow) : P r :=
    match r with
    | FSend n c => Hsend n c
    | FGroup n g i => Hgroup n g i
    | FEnter n f i => Henter n f i
    | FFor v its body =>
        Hfor v its body ((fix go (b : list frow) : Forall P b :=
                            match b with
                            | [] => Forall_nil P
                            | x :: t => Forall_cons x (frow_ind2 x) (go t)
                            end) body)
    | FBadRow => Hbad
    | FCritRow => Hcrit
    end.
End frow_ind2.

Lemma safe_skip_frow : forall r, safe (skip_frow r) T.
Proof.
  induction r as [n c|n g i|n f i|v its body IHb| |] using frow_ind2; cbn [skip_frow];
    try apply safe_with_tt.
  - eapply safe_bind; [apply safe_with_tt|]. intros _ _.
    eapply safe_bind with (Q := T); [|intros _ _; apply safe_with_tt].
    induction IHb as [|x t Hx Ht IHt]; [apply safe_ret; exact I|].
    eapply safe_bind; [apply Hx|]. intros _ _. apply IHt.
  - apply safe_with, safe_throw.
Qed.

Lemma safe_skip_frows : forall b, safe (skip_frows b) T.
Proof.
  induction b as [|r b IH]; cbn [skip_frows]; [apply safe_ret; exact I|].
  eapply safe_bind; [apply safe_skip_frow|]. intros _ _. apply IH.
Qed.

Lemma safe_skip_empty_body its body : safe (skip_empty_body its body) T.
Proof.
  unfold skip_empty_body. destruct its; [|apply safe_ret; exact I].
  destruct empty_loop_policy; [apply safe_ret; exact I|].
  eapply safe_bind; [apply safe_skip_frows|]. intros _ _. apply safe_with_tt.
Qed.

Lemma safe_parse_frow : forall r sp a, is_loc sp -> safe (parse_frow sp r a) T.
Proof.
  induction r as [n c|n g i|n f i|v its body IHb| |] using frow_ind2; intros sp a Hsp; cbn [parse_frow].
  - eapply safe_bind; [apply safe_with, safe_render_cell|]. intros t _.
    apply safe_with. eapply safe_bind; [apply safe_node_uuid|]. intros u _. apply safe_ret. exact I.
  - eapply safe_bind; [apply safe_with_tt|]. intros _ _.
    apply safe_with. eapply safe_bind with (Q := T).
    + destruct i; [apply safe_ret; exact I|apply safe_lift_rec_g].
    + intros c1 _. eapply safe_bind; [apply safe_node_uuid|]. intros u _. apply safe_ret. exact I.
  - eapply safe_bind; [apply safe_with_tt|]. intros _ _.
    apply safe_with. eapply safe_bind with (Q := T).
    + destruct i; [apply safe_ret; exact I|apply safe_lift_rec_f].
    + intros c1 _. eapply safe_bind; [apply safe_node_uuid|]. intros u _. apply safe_ret. exact I.
  - eapply safe_bind; [apply safe_with_tt|]. intros _ _.
    eapply safe_bind; [apply safe_read|]. intros d0 _.
    eapply safe_bind with (Q := T).
    + (* the iterations *)
      revert a. induction its as [|it rest IHits]; intros a.
      * apply safe_ret. exact I.
      * eapply safe_bind; [apply safe_add_to_context; exact Hsp|]. intros _ _.
        eapply safe_bind with (Q := T).
        -- clear IHits. revert a. induction IHb as [|x t Hx Ht IHt]; intros a.
           ++ apply safe_ret. exact I.
           ++ eapply safe_bind; [apply Hx; exact Hsp|]. intros a1 _. apply IHt.
        -- intros a' _. eapply safe_bind; [apply safe_with_tt|]. intros _ _. apply IHits.
    + intros a1 _. eapply safe_bind; [apply safe_skip_empty_body|]. intros _ _.
      eapply safe_bind; [apply safe_leave_loop; exact Hsp|]. intros _ _.
      apply safe_ret. exact I.
  - apply safe_with, safe_throw.
  - eapply safe_bind; [apply safe_with_tt|]. intros _ _. apply safe_with, safe_throw.
Qed.

Lemma safe_parse_frows : forall b sp a, is_loc sp -> safe (parse_frows sp b a) T.
Proof.
  induction b as [|r b IH]; intros sp a Hsp; cbn [parse_frows].
  - apply safe_ret. exact I.
  - eapply safe_bind; [apply safe_parse_frow; exact Hsp|]. intros a1 _. apply IH. exact Hsp.
Qed.

Lemma safe_parse_flow n rows c : safe (parse_flow n rows c) T.
Proof.
  unfold parse_flow. eapply safe_bind; [apply safe_alloc|]. intros ctx _.
  eapply safe_bind; [apply safe_sheet_parser_init|]. intros sp Hsp.
  eapply safe_bind; [apply safe_parse_frows; exact Hsp|]. intros a _.
  eapply safe_bind; [apply safe_freshid|]. intros u _. apply safe_ret. exact I.
Qed.

Lemma safe_add_template w k sh up : safe (add_template w k sh up) T.
Proof.
  unfold add_template. destruct (negb (mem_str sh (k_templates k)) || up).
  - destruct (find_sheet (w_flows w) sh); [apply safe_ret; exact I|apply safe_throw].
  - apply safe_ret. exact I.
Qed.

Lemma safe_process_irow w tm k r : safe (process_irow w tm k r) T.
Proof.
  unfold process_irow. apply safe_with. destruct (i_draft r); [apply safe_ret; exact I|].
  destruct (negb (tm_matches tm (i_tags r))); [apply safe_ret; exact I|].
  destruct (i_kind r); try (apply safe_ret; exact I). apply safe_add_template.
Qed.

Lemma safe_cip_init w tm : safe (cip_init w tm) T.
Proof.
  unfold cip_init. destruct (w_index w) as [rows|]; [|apply safe_throw].
  eapply safe_bind; [apply safe_sheet_parser_init|]. intros sp Hsp.
  eapply safe_bind with (Q := T).
  - apply safe_mfold; [|exact I]. intros a x _. apply safe_with.
    eapply safe_bind; [apply safe_read|]. intros _ _. apply safe_ret. exact I.
  - intros _ _. eapply safe_bind with (Q := T).
    + apply safe_mfold; [|exact I]. intros a x _. apply safe_process_irow.
    + intros k _. apply safe_mfold; [|exact I]. intros a x _. apply safe_with, safe_add_template.
Qed.

Lemma safe_add_flow c f : safe (add_flow c f) T.
Proof. unfold add_flow. eapply safe_bind; [apply safe_lift|]. intros d _. apply safe_ret. exact I. Qed.

Lemma safe_parse_all_flows w k : safe (parse_all_flows w k) T.
Proof.
  unfold parse_all_flows. eapply safe_bind with (Q := T).
  - apply safe_mfold; [|exact I]. intros acc fr _. apply safe_with.
    destruct (find_sheet (w_flows w) (fst fr)); [|apply safe_throw].
    eapply safe_bind; [apply safe_parse_flow|]. intros r _. apply safe_ret. exact I.
  - intros fc _. apply safe_mfold; [|exact I]. intros a x _. apply safe_add_flow.
Qed.

Lemma safe_record_act c a : safe (record_act c a) T.
Proof.
  unfold record_act. destruct (snd a); [apply safe_ret; exact I|apply safe_lift_rec_g|apply safe_lift_rec_f].
Qed.

Lemma safe_gen_missing d : safe (gen_missing d) T.
Proof.
  induction d as [|[k v] r IH]; cbn [gen_missing]; [apply safe_ret; exact I|].
  eapply safe_bind with (Q := T).
  - destruct (truthy v); [apply safe_ret; exact I|].
    eapply safe_bind; [apply safe_freshid|]. intros u _. apply safe_ret. exact I.
  - intros v1 _. eapply safe_bind; [apply IH|]. intros r1 _. apply safe_ret. exact I.
Qed.

Lemma safe_render c : safe (render c) T.
Proof.
  unfold render.
  eapply safe_bind with (Q := T); [apply safe_mfold; [|exact I]; intros a x _; apply safe_lift_rec_g|]. intros c1 _.
  eapply safe_bind with (Q := T); [apply safe_mfold; [|exact I]; intros a x _; apply safe_lift_rec_f|]. intros c2 _.
  eapply safe_bind with (Q := T).
  { apply safe_mfold; [|exact I]. intros a x _. apply safe_mfold; [|exact I]. intros a' y _. apply safe_record_act. }
  intros c3 _.
  eapply safe_bind; [apply safe_gen_missing|]. intros fd _.
  eapply safe_bind; [apply safe_gen_missing|]. intros gd _. apply safe_ret. exact I.
Qed.

Lemma safe_tags_ref slot tags : safe (tags_ref slot tags) T.
Proof.
  destruct tags; cbn [tags_ref]; [eapply safe_weaken; [apply safe_alloc|intros; exact I]|apply safe_ret; exact I].
Qed.

Lemma safe_m_create_flows tags w : safe (m_create_flows tags w) T.
Proof.
  unfold m_create_flows.
  eapply safe_bind; [apply safe_tags_ref|]. intros tr _.
  eapply safe_bind; [apply safe_tagmatcher_init|]. intros tm _.
  eapply safe_bind; [apply safe_cip_init|]. intros k _.
  eapply safe_bind; [apply safe_parse_all_flows|]. intros c _.
  eapply safe_bind; [apply safe_render|]. intros cr _. apply safe_ret. exact I.
Qed.

Lemma safe_m_save_data tags hm w : safe (m_save_data tags hm w) T.
Proof.
  unfold m_save_data.
  eapply safe_bind; [apply safe_tags_ref|]. intros tr _.
  eapply safe_bind; [apply safe_tagmatcher_init|]. intros tm _.
  eapply safe_bind; [apply safe_cip_init|]. intros k _.
  destruct hm; [apply safe_ret; exact I|apply safe_throw].
Qed.

Lemma safe_m_parse_keep w : safe (m_parse_keep w) T.
Proof.
  unfold m_parse_keep.
  eapply safe_bind; [apply safe_tagmatcher_of_ref|]. intros tm _.
  eapply safe_bind; [apply safe_cip_init|]. intros k _. apply safe_parse_all_flows.
Qed.

(* ------------------------------------------------------------------ steps *)
Lemma step_frame h c :
  h_stack (fst (step h c)) = h_stack h /\ h_slots (fst (step h c)) = h_slots h.
Proof.
  destruct c as [tags w|tags hm w|w|i|i j|ok]; cbn [step].
  - destruct (safe_m_create_flows tags w (enter0 h)) as [[F1 F2] _].
    destruct (m_create_flows tags w (enter0 h)) as [s [r|e]]; cbn in *; split; assumption.
  - destruct (safe_m_save_data tags hm w (enter0 h)) as [[F1 F2] _].
    destruct (m_save_data tags hm w (enter0 h)) as [s [r|e]]; cbn in *; split; assumption.
  - destruct (safe_m_parse_keep w (enter0 h)) as [[F1 F2] _].
    destruct (m_parse_keep w (enter0 h)) as [s [r|e]]; cbn in *; split; assumption.
  - destruct (nth_error (h_conts h) i) as [c|]; [|split; reflexivity].
    destruct (safe_render c (enter h)) as [[F1 F2] _].
    destruct (render c (enter h)) as [s [[c' r]|e]]; cbn in *; split; assumption.
  - destruct (nth_error (h_conts h) i) as [c|]; [|split; reflexivity].
    destruct (nth_error (c_flows c) j) as [f|]; [|split; reflexivity].
    destruct (to_rows f) as [f' rows]. split; reflexivity.
  - split; reflexivity.
Qed.

Lemma run_frame : forall cs h,
  h_stack (fst (run h cs)) = h_stack h /\ h_slots (fst (run h cs)) = h_slots h.
Proof.
  induction cs as [|c r IH]; intros h; cbn [run]; [split; reflexivity|].
  destruct (step h c) as [h1 o] eqn:E. specialize (IH h1). destruct (run h1 r) as [h2 os]. cbn in *.
  pose proof (step_frame h c) as [S1 S2]. rewrite E in S1, S2. cbn in S1, S2.
  destruct IH as [I1 I2]. split; congruence.
Qed.

(* 1. the logging context stack is balanced after every sequence of calls, failing ones included *)
Theorem stack_balanced : forall cs, h_stack (fst (run init cs)) = [].
Proof. intros cs. apply (run_frame cs init). Qed.

Theorem stack_preserved : forall h cs, h_stack (fst (run h cs)) = h_stack h.
Proof. intros h cs. apply (run_frame cs h). Qed.

(* 2. no call writes a mutable default *)
Theorem defaults_pristine : forall cs, h_slots (fst (run init cs)) = init_slots.
Proof. intros cs. apply (run_frame cs init). Qed.

Lemma reachable_inv h : reachable h -> h_stack h = [] /\ h_slots h = init_slots.
Proof.
  induction 1 as [|h c _ [IH1 IH2]]; [split; reflexivity|].
  destruct (step_frame h c) as [S1 S2]. split; congruence.
Qed.

(* ------------------------------------------------------------------ history freedom *)
Definition file_call (c : call) : bool :=
  match c with CCreateFlows _ _ | CSaveData _ _ _ | CParseKeep _ | COpaque _ => true | _ => false end.

Lemma shift_uuid_0 u : shift_uuid 0 u = u.
Proof. destruct u; reflexivity. Qed.
Lemma shift_act_0 a : shift_act 0 a = a.
Proof. destruct a as [t|g [u|]|f [u|]]; cbn; rewrite ?shift_uuid_0; reflexivity. Qed.
Lemma shift_node_0 n : shift_node 0 n = n.
Proof. destruct n as [u a]. unfold shift_node. cbn. rewrite shift_uuid_0, shift_act_0. reflexivity. Qed.
Lemma map_id_ext {A} (f : A -> A) l : (forall x, f x = x) -> map f l = l.
Proof. intros H. induction l as [|x r IH]; cbn; [reflexivity|]. rewrite H, IH. reflexivity. Qed.
Lemma shift_rendered_0 r : shift_rendered 0 r = r.
Proof.
  destruct r as [fl gr]. unfold shift_rendered. cbn. f_equal.
  - apply map_id_ext. intros [[n u] ns]. cbn. rewrite shift_uuid_0. f_equal. apply map_id_ext, shift_node_0.
  - apply map_id_ext. intros [g [u|]]; cbn; rewrite ?shift_uuid_0; reflexivity.
Qed.

Lemma enter0_reachable h : reachable h -> enter0 h = enter0 init.
Proof. intros R. destruct (reachable_inv h R) as [E1 E2]. unfold enter0. rewrite E1, E2. reflexivity. Qed.

(* 3. whatever the process did before, a call that works from files returns what it returns
   in a fresh process, up to the translation of invented ids by the number handed out so far *)
Theorem history_free : forall h c, reachable h -> file_call c = true ->
  snd (step h c) = shift_outcome (h_fresh h) (snd (step init c)).
Proof.
  intros h c R Hc. destruct c as [tags w|tags hm w|w|i|i j|ok]; try discriminate; cbn [step].
  - rewrite (enter0_reachable h R).
    destruct (m_create_flows tags w (enter0 init)) as [s [r|e]]; cbn; [|reflexivity].
    rewrite shift_rendered_0. reflexivity.
  - rewrite (enter0_reachable h R).
    destruct (m_save_data tags hm w (enter0 init)) as [s [r|e]]; reflexivity.
  - rewrite (enter0_reachable h R).
    destruct (m_parse_keep w (enter0 init)) as [s [r|e]]; reflexivity.
  - destruct ok; reflexivity.
Qed.

(* ... and the container such a call leaves behind is the fresh-process one, translated *)
Theorem history_free_kept : forall h w, reachable h ->
  match m_parse_keep w (enter0 init) with
  | (_, Ok c) => h_conts (fst (step h (CParseKeep w))) = h_conts h ++ [shift_cont (h_fresh h) c]
  | (_, Err _) => h_conts (fst (step h (CParseKeep w))) = h_conts h
  end.
Proof.
  intros h w R. cbn [step]. rewrite (enter0_reachable h R).
  destruct (m_parse_keep w (enter0 init)) as [s [c|e]]; reflexivity.
Qed.

(* ------------------------------------------------------------------ export scratch *)
Definition with_scratch (f : flowc) (sc : option (list uuid)) : flowc :=
  mkF (f_name f) (f_uuid f) (f_nodes f) sc.

(* the rows do not depend on what an earlier export left behind *)
Theorem to_rows_scratch_free : forall f sc, snd (to_rows (with_scratch f sc)) = snd (to_rows f).
Proof. intros f sc. reflexivity. Qed.

Theorem to_rows_twice : forall f, snd (to_rows (fst (to_rows f))) = snd (to_rows f).
Proof. intros f. reflexivity. Qed.
