(* E9 / C14 — model of a LIBRARY: Python's csv module (writer and reader) for a dialect of
   the `excel` family (one-character delimiter and quotechar, doublequote, QUOTE_MINIMAL,
   no escapechar, no skipinitialspace, not strict), exactly as Modules/_csv.c implements
   it, plus the two ways the text reaches the reader (io newline='' and newline=None),
   plus the part of tablib (Dataset, csv import_set/export_set) that sheets.py calls.
   Definitions only; facts are in IoFacts.v.  The dialect constants and the field size
   limit are parameters here and are instantiated from Gen/Tables.v (regenerated from the
   running interpreter / repo) in IoFacts.v and Wire/C14Wire.v. *)
From Coq Require Import List NArith Bool.
From RPFT Require Import Base.Sexp Base.PyStr Base.Result.
Import ListNotations.
Local Open Scope N_scope.

Inductive io_err :=
| EFieldLimit          (* _csv.Error: field larger than field limit *)
| ENewlineUnquoted     (* _csv.Error: new-line character seen in unquoted field *)
| EInvalidDimensions   (* tablib.InvalidDimensions *)
| EIndex               (* IndexError (XLSXSheetReader._sanitize: every header is None) *)
| EType                (* TypeError  (XLSXSheetReader._sanitize: sheet without header row) *)
| EAttr                (* AttributeError (table.dict = [dict, list, ...]) *)
| EFormat.             (* tablib.UnsupportedFormat (table.dict = {...}: not a list) *)

(* list reversal in linear time ([List.rev] is quadratic when extracted); [frev_rev] in
   IoFacts.v: frev l = rev l *)
Definition frev {A} (l : list A) : list A := rev_append l [].

Definition c_lf : char := 10.
Definition c_cr : char := 13.
Definition is_nl (c : char) : bool := (c =? c_lf) || (c =? c_cr).

(* ------------------------------------------------------------------ io text layer *)

(* Reading with newline=None (open(path) as load_csv does): "\r\n" and "\r" become "\n". *)
Fixpoint translate (s : str) : str :=
  match s with
  | [] => []
  | c :: r =>
    if c =? c_cr then
      c_lf :: match r with
              | d :: r' => if d =? c_lf then translate r' else translate r
              | [] => []
              end
    else c :: translate r
  end.

(* Iterating a text stream (newline='' : untranslated; newline=None : after [translate])
   yields lines that end after "\n", after "\r\n", after a "\r" not followed by "\n", and
   at the end of the text.  [eol_after c r]: does a line end after character c when the
   rest of the text is r? *)
Definition eol_after (c : char) (r : str) : bool :=
  match r with
  | [] => true
  | d :: _ => (c =? c_lf) || ((c =? c_cr) && negb (d =? c_lf))
  end.

Section Codec.
Variables (delim quote : char) (term : str) (lim : N).

(* ------------------------------------------------------------------ csv.writer *)

(* join_append_data: a field is quoted iff it contains the delimiter, the quotechar or a
   character of the lineterminator; quotechars are doubled *)
Definition needs_quote (c : char) : bool := (c =? delim) || (c =? quote) || mem_char c term.

Fixpoint escape_field (s : str) : str :=
  match s with
  | [] => []
  | c :: r => if c =? quote then quote :: quote :: escape_field r else c :: escape_field r
  end.

Definition write_field (s : str) : str :=
  if existsb needs_quote s then quote :: escape_field s ++ [quote] else s.

(* csv_writerow: fields joined by the delimiter; "if this is a single empty field, quote
   it" (num_fields > 0 && rec_len == 0); then the lineterminator *)
Definition write_row (r : list str) : str :=
  let body := join_char delim (map write_field r) in
  match r, body with
  | _ :: _, [] => quote :: quote :: term
  | _, _ => body ++ term
  end.

Definition csv_write (rows : list (list str)) : str := concat (map write_row rows).

(* ------------------------------------------------------------------ csv.reader *)

Inductive mode := StartRecord | StartField | InField | InQuoted | QuoteInQuoted | EatCrnl.

(* [fld]: current field, reversed; [flen] its length; [row]: fields so far, reversed *)
Record rstate := mkR { md : mode; fld : str; flen : N; row : list str }.

Definition r0 : rstate := mkR StartRecord [] 0 [].
Definition set_md (s : rstate) (m : mode) : rstate := mkR m (fld s) (flen s) (row s).
Definition save_field (s : rstate) : rstate := mkR (md s) [] 0 (frev (fld s) :: row s).
Definition add_char (s : rstate) (c : char) : result io_err rstate :=
  if lim <=? flen s then Err EFieldLimit
  else Ok (mkR (md s) (c :: fld s) (flen s + 1) (row s)).

(* what parse_process_char receives: a character of the line, or the end-of-line marker
   the reader feeds after each line *)
Inductive tok := Ch (c : char) | Eol.

Definition step_start_field (s : rstate) (t : tok) : result io_err rstate :=
  match t with
  | Eol => Ok (set_md (save_field s) StartRecord)
  | Ch c =>
    if is_nl c then Ok (set_md (save_field s) EatCrnl)
    else if c =? quote then Ok (set_md s InQuoted)
    else if c =? delim then Ok (set_md (save_field s) StartField)
    else add_char (set_md s InField) c
  end.

Definition step (s : rstate) (t : tok) : result io_err rstate :=
  match md s with
  | StartRecord =>
    match t with
    | Eol => Ok s
    | Ch c => if is_nl c then Ok (set_md s EatCrnl) else step_start_field s t
    end
  | StartField => step_start_field s t
  | InField =>
    match t with
    | Eol => Ok (set_md (save_field s) StartRecord)
    | Ch c =>
      if is_nl c then Ok (set_md (save_field s) EatCrnl)
      else if c =? delim then Ok (set_md (save_field s) StartField)
      else add_char s c
    end
  | InQuoted =>
    match t with
    | Eol => Ok s
    | Ch c => if c =? quote then Ok (set_md s QuoteInQuoted) else add_char s c
    end
  | QuoteInQuoted =>
    match t with
    | Eol => Ok (set_md (save_field s) StartRecord)
    | Ch c =>
      if c =? quote then add_char (set_md s InQuoted) c
      else if c =? delim then Ok (set_md (save_field s) StartField)
      else if is_nl c then Ok (set_md (save_field s) EatCrnl)
      else add_char (set_md s InField) c
    end
  | EatCrnl =>
    match t with
    | Eol => Ok (set_md s StartRecord)
    | Ch c => if is_nl c then Ok s else Err ENewlineUnquoted
    end
  end.

Definition in_quoted (s : rstate) : bool := match md s with InQuoted => true | _ => false end.

(* Reader_iternext over the whole text: characters are processed one by one, Eol is fed
   at every line end; a record is emitted when the state is StartRecord after an Eol;
   at the end of the input a pending quoted field is saved (not strict). *)
Fixpoint run (s : rstate) (out : list (list str)) (txt : str) : result io_err (list (list str)) :=
  match txt with
  | [] =>
    if negb (flen s =? 0) || in_quoted s
    then Ok (frev (frev (row (save_field s)) :: out))
    else Ok (frev out)
  | c :: r =>
    match step s (Ch c) with
    | Err e => Err e
    | Ok s1 =>
      if eol_after c r then
        match step s1 Eol with
        | Err e => Err e
        | Ok s2 =>
          match md s2 with
          | StartRecord => run r0 (frev (row s2) :: out) r
          | _ => run s2 out r
          end
        end
      else run s1 out r
    end
  end.

Definition csv_read (txt : str) : result io_err (list (list str)) := run r0 [] txt.

End Codec.

(* ------------------------------------------------------------------ tablib.Dataset *)

(* headers = [] stands for None (Dataset._set_headers stores None for an empty
   collection).  H / C: types of header and body cells (str for CSV and JSON; openpyxl
   values, i.e. None or a string, for XLSX). *)
Record table (H C : Type) := mkT { hdr : list H; rws : list (list C) }.
Arguments mkT {H C} hdr rws.
Arguments hdr {H C} t.
Arguments rws {H C} t.

Definition width {H C} (t : table H C) : nat :=
  match rws t with r :: _ => length r | [] => length (hdr t) end.

(* Dataset._validate(row=r) *)
Definition validate_len {H C} (t : table H C) (n : nat) : bool :=
  match n with
  | O => forallb (fun x => Nat.eqb (length x) (width t)) (rws t)
  | _ => if Nat.eqb (width t) 0 then true else Nat.eqb n (width t)
  end.

Definition append {H C} (t : table H C) (r : list C) : result io_err (table H C) :=
  if validate_len t (length r) then Ok (mkT (hdr t) (rws t ++ [r])) else Err EInvalidDimensions.

Definition set_headers {H C} (t : table H C) (h : list H) : result io_err (table H C) :=
  if validate_len t (length h) then Ok (mkT h (rws t)) else Err EInvalidDimensions.

Definition empty_table {H C} : table H C := mkT [] [].

Definition pad_to {C} (n : nat) (fill : C) (r : list C) : list C :=
  if Nat.ltb (length r) n then r ++ repeat fill (n - length r) else r.

(* CSVFormat.import_set: first record = headers; later empty records skipped, short ones
   padded with '' *)
Fixpoint csv_import_rest (t : table str str) (recs : list (list str)) : result io_err (table str str) :=
  match recs with
  | [] => Ok t
  | [] :: rest => csv_import_rest t rest
  | r :: rest =>
    match append t (pad_to (width t) [] r) with
    | Err e => Err e
    | Ok t' => csv_import_rest t' rest
    end
  end.

Definition csv_import_set (recs : list (list str)) : result io_err (table str str) :=
  match recs with
  | [] => Ok empty_table
  | h :: rest =>
    match set_headers empty_table h with
    | Err e => Err e
    | Ok t => csv_import_rest t rest
    end
  end.

(* Dataset._package(dicts=False) *)
Definition package_rows {C} (t : table C C) : list (list C) :=
  match hdr t with [] => rws t | h => h :: rws t end.

Section Sheets.
Variables (delim quote : char) (term : str) (lim : N).

(* CSVFormat.export_set *)
Definition csv_export_set (t : table str str) : str :=
  csv_write delim quote term (package_rows t).

(* sheets.load_csv on the text of a file; [translated]: the file is opened with
   newline=None (true on the unchanged tree; regenerated by the translator) *)
Definition load_csv_text (translated : bool) (txt : str) : result io_err (table str str) :=
  match csv_read delim quote lim (if translated then translate txt else txt) with
  | Err e => Err e
  | Ok recs => csv_import_set recs
  end.

End Sheets.
