(* E9 / C15 — from a workbook to "the command stops with class c" or "a document":
   FlowParser._parse_block (blocks, loops, include_if, insert_as_block) over the row steps of
   CliFlow.v, and ContentIndexParser (index rows in order, data sheets, templates and their
   arguments, flow definitions, campaigns, triggers) followed by
   RapidProContainer.update_global_uuids, as far as they decide whether the command stops.

   The sheet cursor reads a row through one hook (`visit`: parse_next_row, _is_end_of_block and,
   for a row handed to _parse_row, its effect) and the error type is a parameter: the concrete
   compiler instantiates them from the workbook (`compile`), the facts instantiate them with
   a trap at one position to speak about "the state in which that row is reached".

   Outside the model (result EOutOfScope or not in the input type): several workbooks
   (one CSV folder only), tags, filter/sort operations (Python eval), sheet-typed template
   arguments, a loop variable that shadows a context variable and loops over no element
   (C03's findings), a sheet used in a role its content does not fit.

   Definitions only. *)
From Coq Require Import List NArith Bool Arith.
From RPFT Require Import Base.Sexp Base.PyStr Base.Result Gen.Tables Io.CliFlow.
Import ListNotations.

(* ---------------------------------------------------------------- reading one row *)
Inductive btype := BRoot | BFor | BBlock.

(* what _parse_block does next, after parse_next_row and _is_end_of_block (and, for a row
   handed to _parse_row, after that call) *)
Inductive step :=
| SEnd (consumed : bool)            (* the block ends here: terminator read, or cursor exhausted at the root *)
| SSkipFor | SSkipBlock | SSkip     (* omitted content or excluded row: only the row type matters *)
| SDone (s' : fstate)               (* a row handed to _parse_row *)
| SFor (i : irow) (x : str) (idx : option str)   (* begin_for with its loop variables *)
| SBlock (i : irow) | SInsert (i : irow).

(* _is_end_of_block for a row type, and what an untemplated row amounts to *)
Definition of_kind (bt : btype) (t : rtype) : result cls step :=
  match t with
  | TEndFor => match bt with BFor => Ok (SEnd true) | _ => crit EWrongTerminator end
  | TEndBlock => match bt with BBlock => Ok (SEnd true) | _ => crit EWrongTerminator end
  | TBeginFor => Ok SSkipFor
  | TBeginBlock => Ok SSkipBlock
  | _ => Ok SSkip
  end.

(* begin_for: the loop variables, or the critical *)
Definition loop_vars (i : irow) : result cls (str * option str) :=
  match i_vars i with
  | [] | [] :: _ => crit ENoLoopVar
  | x :: rest => Ok (x, match rest with
                        | [] => None
                        | [] :: _ => None
                        | iv :: _ => Some iv
                        end)
  end.

(* parse_next_row (templating unless omitted; the inclusion column first), _is_end_of_block,
   the loop-variable check of begin_for, and _parse_row for plain rows *)
Definition visit_row (bt : btype) (omit : bool) (s : fstate) (r : option frow) : result cls step :=
  match r with
  | None => match bt with BRoot => Ok (SEnd false) | _ => crit EUnterminated end
  | Some r =>
    if omit then of_kind bt (r_type r)
    else
      match instantiate (f_ctx s) r with
      | Err e => Err e
      | Ok None => of_kind bt (r_type r)
      | Ok (Some i) =>
        match i_type i with
        | TEndFor | TEndBlock => of_kind bt (i_type i)
        | TBeginFor => match loop_vars i with Ok xi => Ok (SFor i (fst xi) (snd xi)) | Err e => Err e end
        | TBeginBlock => Ok (SBlock i)
        | TInsert => Ok (SInsert i)
        | _ => match step_row s i with Ok s' => Ok (SDone s') | Err e => Err e end
        end
      end
  end.

Definition with_stack (s : fstate) (st : list (list nat)) : fstate :=
  mkF (f_store s) st (f_ids s) (f_ctx s) (f_uu s) (f_recs s).
Definition with_ctx (s : fstate) (c : ctx) : fstate :=
  mkF (f_store s) (f_stack s) (f_ids s) c (f_uu s) (f_recs s).

Definition push_block (s : fstate) : fstate := with_stack s ([] :: f_stack s).

(* node_group_stack.pop(); append_node_group(group, row_id) *)
Definition close_block (s : fstate) (id : str) : fstate :=
  match f_stack s with
  | top :: rest => append_group (with_stack s rest) (GBlock (rev top)) id
  | [] => s
  end.

(* FlowRowModel.is_starting_row *)
Definition is_starting (i : irow) : bool :=
  match i_edges i with
  | [e] => str_eqb (ie_from e) s_start
  | _ => false
  end.

(* "Interpret the row like a no-op to get the edges" *)
Definition head_edges (s : fstate) (i : irow) : result cls fstate :=
  if is_starting i then Ok s else parse_noop s (i_edges i) [].

(* outside the model: a loop variable that shadows a context variable, a loop over nothing *)
Definition loop_in_scope (s : fstate) (x : str) (idx : option str) (i : irow) : bool :=
  negb (chas (f_ctx s) x
        || match idx with Some iv => chas (f_ctx s) iv | None => false end
        || match i_list i with [] => true | _ => false end).

(* after the loop: pop the group, register it, remove the variables from the context *)
Definition close_loop (s : fstate) (i : irow) (x : str) (idx : option str) : fstate :=
  let s4 := close_block s (i_id i) in
  let c1 := cdel (f_ctx s4) x in
  with_ctx s4 (match idx with Some iv => cdel c1 iv | None => c1 end).

(* _parse_insert_as_block_row once the template has been parsed as a block into [sub] *)
Definition attach_block (s sub : fstate) (i : irow) : result cls fstate :=
  match f_stack sub with
  | [top] =>
    let b := length (f_store sub) in
    let host1 := mkF (f_store sub ++ [GBlock (rev top)]) (f_stack s) (f_ids s) (f_ctx s) (f_uu s) (f_recs sub) in
    match foldM (fun st e =>
                   match entry_ok (fuel_of (f_store st)) (f_store st) b with
                   | Err x => Err x
                   | Ok _ => add_row_edge st e true
                   end) (i_edges i) host1 with
    | Err e => Err e
    | Ok host2 =>
      let stack := match f_stack host2 with [] => [[b]] | t :: r => (b :: t) :: r end in
      let ids := match i_id i with [] => f_ids host2 | id => ids_set (f_ids host2) id b end in
      Ok (mkF (f_store host2) stack ids (f_ctx host2) (f_uu host2) (f_recs host2))
    end
  | _ => Err EOutOfScope
  end.

Section Gen.
Variable E : Type.
Variable inj : cls -> E.
(* reading the row at (sheet, position) in a block of type bt, omitted or not, in state s *)
Variable visit : str -> nat -> btype -> bool -> fstate -> result E step.
(* context of a template inserted as a block: get_node_group's checks and _parse_flow's *)
Variable prep : str -> str -> str -> list str -> result cls ctx.

Definition lift {T} (r : result cls T) : result E T :=
  match r with Ok v => Ok v | Err e => Err (inj e) end.

(* for i, entry in enumerate(iterlist): go_to_bookmark; add_to_context; _parse_block *)
Fixpoint iterate (body : fstate -> result E (nat * fstate)) (x : str) (idx : option str)
         (elems : list str) (n : nat) (acc : nat * fstate) : result E (nat * fstate) :=
  match elems with
  | [] => Ok acc
  | e :: more =>
    let c1 := cset (f_ctx (snd acc)) x e in
    let c2 := match idx with Some iv => cset c1 iv (dec_of_nat n) | None => c1 end in
    bind (body (with_ctx (snd acc) c2)) (fun acc' => iterate body x idx more (S n) acc')
  end.

(* _parse_block.  Each call consumes one unit of fuel; result: cursor position and state. *)
Fixpoint parse_block (fuel : nat) (sheet : str) (pos : nat) (s : fstate) (bt : btype) (omit : bool)
  : result E (nat * fstate) :=
  match fuel with
  | O => Err (inj EOutOfFuel)
  | S f =>
    bind (visit sheet pos bt omit s) (fun st =>
    match st with
    | SEnd consumed => Ok (if consumed then S pos else pos, s)
    | SSkipFor =>
      bind (parse_block f sheet (S pos) s BFor true) (fun ps => parse_block f sheet (fst ps) (snd ps) bt omit)
    | SSkipBlock =>
      bind (parse_block f sheet (S pos) s BBlock true) (fun ps => parse_block f sheet (fst ps) (snd ps) bt omit)
    | SSkip => parse_block f sheet (S pos) s bt omit
    | SDone s1 => parse_block f sheet (S pos) s1 bt omit
    | SFor i x idx =>
      if negb (loop_in_scope s x idx i) then Err (inj EOutOfScope) else
      bind (lift (head_edges (push_block s) i)) (fun s2 =>
      bind (iterate (fun st' => parse_block f sheet (S pos) st' BFor false) x idx (i_list i) 0 (S pos, s2))
           (fun ps => parse_block f sheet (fst ps) (close_loop (snd ps) i x idx) bt omit))
    | SBlock i =>
      bind (lift (head_edges (push_block s) i)) (fun s2 =>
      bind (parse_block f sheet (S pos) s2 BBlock false)
           (fun ps => parse_block f sheet (fst ps) (close_block (snd ps) (i_id i)) bt omit))
    | SInsert i =>
      bind (lift (prep (i_main i) (i_dsheet i) (i_drow i) (i_targs i))) (fun c' =>
      (* a FlowParser of its own on the template, with a container of its own *)
      bind (parse_block f (i_main i) 0 (mkF (f_store s) [[]] [] c' uu0 (f_recs s)) BRoot false) (fun sub =>
      bind (lift (attach_block s (snd sub) i)) (fun s3 => parse_block f sheet (S pos) s3 bt omit)))
    end)
  end.

(* FlowParser.parse(add_to_container=False): what remains is the container's uuid dict and
   what the flow's nodes will record when the container is rendered *)
Definition run_flow (fuel : nat) (sheet : str) (c : ctx) (uu : uuids) : result E (uuids * list rec) :=
  bind (parse_block fuel sheet 0 (mkF [] [[]] [] c uu []) BRoot false)
       (fun ps => Ok (f_uu (snd ps), f_recs (snd ps))).

End Gen.

(* ---------------------------------------------------------------- workbook *)
Record argdef := mkAD { ad_name : str; ad_default : str }.

Inductive op := OpNone | OpConcat | OpFilter | OpSort | OpOther.
Inductive itype := ICreateFlow | ITemplateDef | IDataSheet | IContentIndex | ICampaign | ITriggers | IIgnore | IOther.

Record ixrow := mkIx {
  x_type : itype;
  x_draft : bool;               (* status == "draft" *)
  x_sheets : list str;          (* sheet_name *)
  x_new : str;                  (* new_name *)
  x_dsheet : str; x_drow : str; (* data_sheet, data_row_id *)
  x_targs : list str;           (* template_arguments of a create_flow row *)
  x_argdefs : list argdef;      (* template_arguments of a template_definition row *)
  x_model : str;                (* data_model *)
  x_op : op;                    (* operation.type *)
  x_group : str }.

Record crow := mkCR { cr_is_msg : bool; cr_msg : str; cr_flow : str }.        (* campaign event row *)
Record trow := mkTR { tr_is_kw : bool; tr_keywords : list str; tr_flow : str;
                      tr_groups : list str; tr_excl : list str }.              (* trigger row *)

Inductive sheet :=
| SIndex (rows : list ixrow)
| SFlow (rows : list frow)
| SData (cols : list str) (rows : list (str * list str))    (* columns besides ID; ID and values *)
| SCampaign (rows : list crow)
| STriggers (rows : list trow).

Definition workbook := list (str * sheet).      (* one CSV folder: file stem -> table *)

Fixpoint wb_get (wb : workbook) (name : str) : option sheet :=
  match wb with
  | [] => None
  | (n, b) :: r => if str_eqb n name then Some b else wb_get r name
  end.

(* the workbook without the rows of its flow sheets: all that the index phase can see *)
Definition erase_sheet (s : sheet) : sheet := match s with SFlow _ => SFlow [] | _ => s end.
Definition erase (wb : workbook) : workbook := map (fun ns => (fst ns, erase_sheet (snd ns))) wb.

(* ---------------------------------------------------------------- registries *)
Inductive model_id := MUser (name : str) | MInferred (n : nat).
Definition model_eqb (a b : model_id) : bool :=
  match a, b with
  | MUser x, MUser y => str_eqb x y
  | MInferred x, MInferred y => Nat.eqb x y
  | _, _ => false
  end.

Record dsheet := mkDS { ds_model : model_id; ds_rows : list (str * ctx) }.   (* OrderedDict ID -> dict(row) *)

Fixpoint aget {V} (d : list (str * V)) (k : str) : option V :=
  match d with [] => None | (a, v) :: r => if str_eqb a k then Some v else aget r k end.
Fixpoint aset {V} (d : list (str * V)) (k : str) (v : V) : list (str * V) :=
  match d with
  | [] => [(k, v)]
  | (a, w) :: r => if str_eqb a k then (a, v) :: r else (a, w) :: aset r k v
  end.
Fixpoint adel {V} (d : list (str * V)) (k : str) : list (str * V) :=
  match d with
  | [] => []
  | (a, w) :: r => if str_eqb a k then r else (a, w) :: adel r k
  end.
Definition aupdate {V} (d other : list (str * V)) : list (str * V) :=
  fold_left (fun acc kv => aset acc (fst kv) (snd kv)) other d.

Record fdef := mkFD { fd_sheet : str; fd_new : str; fd_dsheet : str; fd_drow : str;
                      fd_targs : list str; fd_argdefs : list argdef }.

Record istate := mkIS {
  is_templates : list (str * list argdef);       (* template_sheets: argument definitions *)
  is_data : list (str * dsheet);                 (* data_sheets *)
  is_flows : list fdef;                          (* flow_definition_rows *)
  is_camps : list (str * (str * list crow));     (* campaign_parsers: name -> group, rows *)
  is_trigs : list (str * list trow);             (* trigger_parsers: sheet name -> rows *)
  is_models : nat }.                             (* inferred model classes created so far *)

Definition is0 : istate := mkIS [] [] [] [] [] 0.

Definition s_ID : str := [73;68]%N.
Definition s_content_index : str := [99;111;110;116;101;110;116;95;105;110;100;101;120]%N.
Definition s_sep : str := [32;45;32]%N.            (* " - " *)

(* _get_sheet_or_die *)
Definition sheet_or_die (wb : workbook) (name : str) : result cls sheet :=
  match wb_get wb name with Some s => Ok s | None => raise ESheetNotFound end.

(* _get_new_data_sheet *)
Definition new_data_sheet (wb : workbook) (dm : option (list str)) (st : istate) (name model : str)
  : result cls (istate * dsheet) :=
  do um <- match dm, model with
           | Some defined, (_ :: _) => if mem_str model defined then Ok (Some model) else crit EDataModel
           | _, _ => Ok None
           end;
  do sh <- sheet_or_die wb name;
  match sh with
  | SData cols rows =>
    let dict := fold_left (fun acc r => aset acc (fst r) ((s_ID, fst r) :: combine cols (snd r))) rows [] in
    match um with
    | Some m => Ok (st, mkDS (MUser m) dict)
    | None => Ok (mkIS (is_templates st) (is_data st) (is_flows st) (is_camps st) (is_trigs st) (S (is_models st)),
                  mkDS (MInferred (is_models st)) dict)
    end
  | _ => Err EOutOfScope
  end.

(* _get_data_sheet *)
Definition get_data_sheet (wb : workbook) (dm : option (list str)) (st : istate) (name model : str)
  : result cls (istate * dsheet) :=
  match aget (is_data st) name with
  | Some d => Ok (st, d)
  | None => new_data_sheet wb dm st name model
  end.

(* _data_sheets_concat *)
Fixpoint concat_sheets (wb : workbook) (dm : option (list str)) (st : istate) (names : list str) (model : str)
         (um : option model_id) (acc : list (str * ctx)) : result cls (istate * option model_id * list (str * ctx)) :=
  match names with
  | [] => Ok (st, um, acc)
  | n :: more =>
    match get_data_sheet wb dm st n model with
    | Err e => Err e
    | Ok (st1, d) =>
      match um with
      | Some m => if model_eqb m (ds_model d) then concat_sheets wb dm st1 more model (Some (ds_model d)) (aupdate acc (ds_rows d))
                  else crit EConcatModels
      | None => concat_sheets wb dm st1 more model (Some (ds_model d)) (aupdate acc (ds_rows d))
      end
    end
  end.

Definition set_data (st : istate) (d : list (str * dsheet)) : istate :=
  mkIS (is_templates st) d (is_flows st) (is_camps st) (is_trigs st) (is_models st).

(* _process_data_sheet *)
Definition process_data_sheet (wb : workbook) (dm : option (list str)) (st : istate) (r : ixrow) : result cls istate :=
  do res <- match x_op r with
            | OpNone => concat_sheets wb dm st (x_sheets r) (x_model r) None []
            | o =>
              match x_new r with
              | [] => crit EOpNoName
              | _ => match o with
                     | OpConcat => concat_sheets wb dm st (x_sheets r) (x_model r) None []
                     | OpFilter | OpSort => Err EOutOfScope
                     | _ => crit EUnknownOp
                     end
              end
            end;
  match res with
  | (st1, Some m, rows) =>
    let name := match x_new r with [] => hd [] (x_sheets r) | n => n end in
    Ok (set_data st1 (aset (is_data st1) name (mkDS m rows)))
  | (_, None, _) => Err EOutOfScope       (* no sheet name: excluded by the caller *)
  end.

(* _add_template *)
Definition add_template (wb : workbook) (st : istate) (name : str) (defs : list argdef) (update : bool)
  : result cls istate :=
  match aget (is_templates st) name, update with
  | Some _, false => Ok st
  | _, _ =>
    do sh <- sheet_or_die wb name;
    match sh with
    | SFlow _ => Ok (mkIS (aset (is_templates st) name defs) (is_data st) (is_flows st) (is_camps st)
                          (is_trigs st) (is_models st))
    | _ => Err EOutOfScope
    end
  end.

Definition fdef_name (d : fdef) : str := match fd_new d with [] => fd_sheet d | n => n end.

(* one row of a content index sheet; [nested] processes a nested index sheet *)
Definition index_step (nested : list ixrow -> istate -> result cls istate)
           (wb : workbook) (dm : option (list str)) (st : istate) (r : ixrow) : result cls istate :=
  if x_draft r then Ok st else
  if negb (Nat.eqb (length (x_sheets r)) 1) && negb (match x_type r with IDataSheet => true | _ => false end)
  then crit ESheetNames else
  let first := hd [] (x_sheets r) in
  match x_type r with
  | IContentIndex =>
    do sh <- sheet_or_die wb first;
    match sh with SIndex rows' => nested rows' st | _ => Err EOutOfScope end
  | IDataSheet =>
    match x_sheets r with
    | [] => crit ESheetNames
    | _ => process_data_sheet wb dm st r
    end
  | ITemplateDef => add_template wb st first (x_argdefs r) true
  | ICreateFlow =>
    Ok (mkIS (is_templates st) (is_data st)
             (is_flows st ++ [mkFD first (x_new r) (x_dsheet r) (x_drow r) (x_targs r) (x_argdefs r)])
             (is_camps st) (is_trigs st) (is_models st))
  | ICampaign =>
    do sh <- sheet_or_die wb first;
    match sh with
    | SCampaign rows' =>
      let name := match x_new r with [] => first | n => n end in
      Ok (mkIS (is_templates st) (is_data st) (is_flows st) (aset (is_camps st) name (x_group r, rows'))
               (is_trigs st) (is_models st))
    | _ => Err EOutOfScope
    end
  | ITriggers =>
    do sh <- sheet_or_die wb first;
    match sh with
    | STriggers rows' =>
      Ok (mkIS (is_templates st) (is_data st) (is_flows st) (is_camps st)
               (aset (is_trigs st) first rows') (is_models st))
    | _ => Err EOutOfScope
    end
  | IIgnore =>
    Ok (mkIS (is_templates st) (is_data st)
             (filter (fun d => negb (str_eqb (fdef_name d) first)) (is_flows st))
             (adel (is_camps st) first) (adel (is_trigs st) first) (is_models st))
  | IOther => Ok st                             (* LOGGER.error, the index goes on *)
  end.

(* the rows of an index sheet in order; nested indexes recurse (fuel = nesting depth) *)
Fixpoint process_index (fuel : nat) (wb : workbook) (dm : option (list str)) (rows : list ixrow) (st : istate)
  : result cls istate :=
  match fuel with
  | O => Err EOutOfFuel
  | S f => foldM (index_step (process_index f wb dm) wb dm) rows st
  end.

(* _populate_missing_templates *)
Definition populate_templates (wb : workbook) (st : istate) : result cls istate :=
  foldM (fun st d => add_template wb st (fd_sheet d) (fd_argdefs d) false) (is_flows st) st.

(* ContentIndexParser.__init__ *)
Definition index_phase (fuel : nat) (wb : workbook) (dm : option (list str)) : result cls istate :=
  match wb_get wb s_content_index with
  | None => crit ENoIndex
  | Some (SIndex rows) =>
    do st <- process_index fuel wb dm rows is0;
    populate_templates wb st
  | Some _ => Err EOutOfScope
  end.

(* ---------------------------------------------------------------- template arguments *)
(* map_template_arguments_to_context *)
Fixpoint map_args (defs : list argdef) (args : list str) (c : ctx) : result cls ctx :=
  match defs with
  | [] => Ok c
  | d :: more =>
    let a := hd [] args in
    if chas c (ad_name d) then crit EArgDouble
    else
      let v := match a with [] => ad_default d | _ => a end in
      match v with
      | [] => crit EArgMissing
      | _ => map_args more (tl args) (cset c (ad_name d) v)
      end
  end.

(* _parse_flow up to the construction of the FlowParser: the template's context *)
Definition flow_ctx (st : istate) (sheet dsh drow : str) (args : list str) : result cls ctx :=
  do c <- match dsh, drow with
          | (_ :: _), (_ :: _) =>
            match aget (is_data st) dsh with
            | None => raise EKeyData
            | Some d => match aget (ds_rows d) drow with None => raise EKeyData | Some c => Ok c end
            end
          | _, _ => Ok []
          end;
  match aget (is_templates st) sheet with
  | None => raise ETemplateKey
  | Some defs => map_args defs args c
  end.

(* get_node_group *)
Definition insert_ctx (st : istate) (sheet dsh drow : str) (args : list str) : result cls ctx :=
  match dsh, drow with
  | (_ :: _), [] | [], (_ :: _) => crit EInsertArgs
  | _, _ => flow_ctx st sheet dsh drow args
  end.

(* ---------------------------------------------------------------- flows, campaigns, triggers *)
Record doc := mkDoc { d_flows : list str; d_campaigns : list str; d_triggers : nat }.

Definition flow_name (d : fdef) (drow : str) : str :=
  match fd_dsheet d, drow with
  | (_ :: _), (_ :: _) => fdef_name d ++ s_sep ++ drow
  | _, _ => fdef_name d
  end.

Record cstate := mkCS {
  cs_uu : uuids;                          (* the container's uuid_dict *)
  cs_flows : list (str * (nat * list rec)); (* flows: name -> (uuid counter, recordings) *)
  cs_next : nat }.                        (* FlowContainers created so far *)

Section Pipeline.
Variable E : Type.
Variable inj : cls -> E.
Variable visit : str -> nat -> btype -> bool -> fstate -> result E step.
Variable fuel : nat.

Definition liftE {T} (r : result cls T) : result E T := lift E inj r.

(* one _parse_flow call of parse_all_flows *)
Definition one_flow (st : istate) (d : fdef) (drow : str) (cs : cstate) : result E cstate :=
  bind (liftE (flow_ctx st (fd_sheet d) (fd_dsheet d) drow (fd_targs d))) (fun c =>
  bind (run_flow E inj visit (insert_ctx st) fuel (fd_sheet d) c (cs_uu cs)) (fun ur =>
  Ok (mkCS (fst ur) (aset (cs_flows cs) (flow_name d drow) (cs_next cs, snd ur)) (S (cs_next cs))))).

(* one entry of flow_definition_rows *)
Definition flow_def_step (st : istate) (cs : cstate) (d : fdef) : result E cstate :=
  match fd_dsheet d, fd_drow d with
  | (_ :: _), [] =>
    match aget (is_data st) (fd_dsheet d) with
    | None => liftE (raise EKeyData)
    | Some ds => foldM (fun cs' idrow => one_flow st d (fst idrow) cs') (ds_rows ds) cs
    end
  | [], (_ :: _) => liftE (crit ERowIdNoSheet)
  | _, _ => one_flow st d (fd_drow d) cs
  end.

(* parse_all_flows, up to add_flow *)
Definition flows_phase (st : istate) : result E cstate :=
  foldM (flow_def_step st) (is_flows st) (mkCS uu0 [] 0).

End Pipeline.

(* for flow in flows.values(): add_flow -> record_flow_uuid(name, flow.uuid) *)
Definition add_flows (cs : cstate) : result cls uuids :=
  foldM (fun uu nf => record uu (RFlow (fst nf) (UFresh (fst (snd nf))))) (cs_flows cs) (cs_uu cs).

(* CampaignParser.parse: CampaignEvent raises ValueError, logged as critical *)
Definition campaign_ok (rows : list crow) : result cls unit :=
  foldM (fun _ r => if cr_is_msg r && match cr_msg r with [] => true | _ => false end
                    then raise_logged ECampaignRow else Ok tt) rows tt.

(* TriggerParser.parse: Trigger raises ValueError, logged as critical *)
Definition trigger_row_ok (r : trow) : bool :=
  negb (tr_is_kw r && match tr_keywords r with [] => true | [] :: _ => true | _ => false end)
  && match tr_flow r with [] => false | _ => true end
  && forallb (fun g => match g with [] => false | _ => true end) (tr_groups r)
  && forallb (fun g => match g with [] => false | _ => true end) (tr_excl r).
Definition triggers_ok (rows : list trow) : result cls unit :=
  foldM (fun _ r => if trigger_row_ok r then Ok tt else raise_logged ETriggerRow) rows tt.

Definition has_flow (uu : uuids) (name : str) : bool :=
  match uget (uu_flows uu) name with Some _ => true | None => false end.

(* Trigger.record_global_uuids(uuid_dict, require_existing=True) *)
Definition trigger_record (u0 : uuids) (r : trow) : result cls uuids :=
  if has_flow u0 (tr_flow r) then
    do u1 <- record u0 (RFlow (tr_flow r) UNone);
    do u2 <- foldM (fun u' g => record u' (RGroup g UNone)) (tr_groups r) u1;
    foldM (fun u' g => record u' (RGroup g UNone)) (tr_excl r) u2
  else raise ETriggerFlow.

(* Campaign.record_global_uuids *)
Definition campaign_record (u : uuids) (camp : str * (str * list crow)) : result cls uuids :=
  do u' <- foldM (fun u0 r => match cr_flow r with
                              | [] => Ok u0
                              | n => record u0 (RFlow n UNone)
                              end) (snd (snd camp)) u;
  record u' (RGroup (fst (snd camp)) UNone).

(* RapidProContainer.update_global_uuids, as far as it can raise *)
Definition render_uuids (st : istate) (cs : cstate) (uu : uuids) : result cls uuids :=
  do uu1 <- foldM (fun u nf => foldM record (snd (snd nf)) u) (cs_flows cs) uu;
  do uu2 <- foldM campaign_record (is_camps st) uu1;
  foldM (fun u ts => foldM trigger_record (snd ts) u) (is_trigs st) uu2.

(* parse_all().render() after the flows *)
Definition finish (st : istate) (cs : cstate) : result cls doc :=
  do uu <- add_flows cs;
  do _ <- foldM (fun _ camp => campaign_ok (snd (snd camp))) (is_camps st) tt;
  do _ <- foldM (fun _ ts => triggers_ok (snd ts)) (is_trigs st) tt;
  do _ <- render_uuids st cs uu;
  Ok (mkDoc (map fst (cs_flows cs)) (map fst (is_camps st))
            (fold_left (fun n ts => n + length (snd ts)) (is_trigs st) 0)).

(* the whole compilation over hooks; [wbx] is the erased workbook *)
Definition compile_core (E : Type) (inj : cls -> E)
           (visit : str -> nat -> btype -> bool -> fstate -> result E step)
           (fuel : nat) (wbx : workbook) (dm : option (list str)) : result E doc :=
  bind (lift E inj (index_phase fuel wbx dm)) (fun st =>
  bind (flows_phase E inj visit fuel st) (fun cs => lift E inj (finish st cs))).

(* ---------------------------------------------------------------- the concrete compiler *)
Definition rows_of (wb : workbook) (sheet : str) : list frow :=
  match wb_get wb sheet with Some (SFlow rows) => rows | _ => [] end.

Definition visit_of (wb : workbook) (sheet : str) (pos : nat) (bt : btype) (omit : bool) (s : fstate)
  : result cls step :=
  visit_row bt omit s (nth_error (rows_of wb sheet) pos).

Definition compile (fuel : nat) (wb : workbook) (dm : option (list str)) : result cls doc :=
  compile_core cls (fun c => c) (visit_of wb) fuel (erase wb) dm.
