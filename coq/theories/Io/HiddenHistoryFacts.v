(* C13 — history-level facts about kept containers: every reachable container is well formed,
   a second render is a no-op on the whole hidden state, an export (to_rows) leaves no trace
   in ANY later call, and what the first render does to later exports. *)
From Coq Require Import List NArith ZArith Bool Arith Lia.
From RPFT Require Import Base.Sexp Base.PyStr Base.PyStrFacts Base.Result Gen.Tables
  Io.Hidden Io.HiddenFacts Io.HiddenRenderFacts.
Import ListNotations.

(* ------------------------------------------------------------------ postconditions *)
Definition post {A} (m : M A) (Q : A -> Prop) : Prop := forall s s' a, m s = (s', Ok a) -> Q a.

Lemma post_ret {A} (a : A) (Q : A -> Prop) : Q a -> post (ret a) Q.
Proof. intros H s s' b E. inversion E; subst. exact H. Qed.

Lemma post_throw {A} e (Q : A -> Prop) : post (throw e) Q.
Proof. intros s s' b E. inversion E. Qed.

Lemma post_any {A} (m : M A) : post m T.
Proof. intros s s' a _. exact I. Qed.

Lemma post_bind {A B} (m : M A) (f : A -> M B) (Q : A -> Prop) (R : B -> Prop) :
  post m Q -> (forall a, Q a -> post (f a) R) -> post (mbind m f) R.
Proof.
  intros Hm Hf s s' b E. unfold mbind in E. destruct (m s) as [s1 [a|e]] eqn:Em; [|inversion E].
  exact (Hf a (Hm _ _ _ Em) _ _ _ E).
Qed.

Lemma post_with {A} l (m : M A) (Q : A -> Prop) : post m Q -> post (with_ctx l m) Q.
Proof.
  intros Hm s s' a E. unfold with_ctx in E.
  destruct (push_raw l s) as [s0 r0]. destruct (m s0) as [s1 r] eqn:Em.
  destruct (pop_raw s1) as [s2 [u|e]].
  - inversion E; subst. exact (Hm _ _ _ Em).
  - destruct r; inversion E.
Qed.

Lemma post_mfold {S A} (f : A -> S -> M A) (l : list S) (Q : A -> Prop) :
  (forall a x, Q a -> post (f a x) Q) -> forall a, Q a -> post (mfold f l a) Q.
Proof.
  intros Hf. induction l as [|x r IH]; intros a Ha; cbn [mfold].
  - apply post_ret. exact Ha.
  - eapply post_bind; [apply Hf; exact Ha|]. intros a1 Ha1. apply IH. exact Ha1.
Qed.

(* ------------------------------------------------------------------ well-formed containers *)
Definition wfc (c : cont) : Prop := NoDup (keys (c_gdict c)).

Lemma wfc_empty : wfc empty_cont.
Proof. constructor. Qed.

Lemma post_lift_rec_g c n u : wfc c -> post (lift_rec_g c n u) wfc.
Proof.
  intros W s s' a E. rewrite lift_rec_g_pure in E.
  assert (E2 : recc c (KG, n, u) = Ok a) by congruence.
  destruct (recc_spec _ _ _ E2) as (_ & _ & N). apply N, W.
Qed.

Lemma post_lift_rec_f c n u : wfc c -> post (lift_rec_f c n u) wfc.
Proof.
  intros W s s' a E. rewrite lift_rec_f_pure in E.
  assert (E2 : recc c (KF, n, u) = Ok a) by congruence.
  destruct (recc_spec _ _ _ E2) as (_ & _ & N). apply N, W.
Qed.

Definition wfp (a : pstate) : Prop := wfc (p_cont a).

Lemma post_parse_frow : forall r sp a, wfp a -> post (parse_frow sp r a) wfp.
Proof.
  induction r as [n c|n g i|n f i|v its body IHb| |] using frow_ind2; intros sp a W; cbn [parse_frow].
  - eapply post_bind; [apply post_any|]. intros t _.
    apply post_with. eapply post_bind; [apply post_any|]. intros u _. apply post_ret. exact W.
  - eapply post_bind; [apply post_any|]. intros _ _.
    apply post_with. eapply post_bind with (Q := wfc).
    + destruct i; [apply post_ret; exact W|apply post_lift_rec_g; exact W].
    + intros c1 W1. eapply post_bind; [apply post_any|]. intros u _. apply post_ret. exact W1.
  - eapply post_bind; [apply post_any|]. intros _ _.
    apply post_with. eapply post_bind with (Q := wfc).
    + destruct i; [apply post_ret; exact W|apply post_lift_rec_f; exact W].
    + intros c1 W1. eapply post_bind; [apply post_any|]. intros u _. apply post_ret. exact W1.
  - eapply post_bind; [apply post_any|]. intros _ _.
    eapply post_bind; [apply post_any|]. intros d0 _.
    eapply post_bind with (Q := wfp).
    + revert a W. induction its as [|it rest IHits]; intros a W.
      * apply post_ret. exact W.
      * eapply post_bind; [apply post_any|]. intros _ _.
        eapply post_bind with (Q := wfp).
        -- clear IHits. revert a W. induction IHb as [|x t Hx Ht IHt]; intros a W.
           ++ apply post_ret. exact W.
           ++ eapply post_bind; [apply Hx; exact W|]. intros a1 W1. apply IHt. exact W1.
        -- intros a' W'. eapply post_bind; [apply post_any|]. intros _ _. apply IHits. exact W'.
    + intros a1 W1. eapply post_bind; [apply post_any|]. intros _ _.
      eapply post_bind; [apply post_any|]. intros _ _. apply post_ret. exact W1.
  - apply post_with, post_throw.
  - eapply post_bind; [apply post_any|]. intros _ _. apply post_with, post_throw.
Qed.

Lemma post_parse_frows : forall b sp a, wfp a -> post (parse_frows sp b a) wfp.
Proof.
  induction b as [|r b IH]; intros sp a W; cbn [parse_frows].
  - apply post_ret. exact W.
  - eapply post_bind; [apply post_parse_frow; exact W|]. intros a1 W1. apply IH. exact W1.
Qed.

Lemma post_parse_flow n rows c : wfc c -> post (parse_flow n rows c) (fun r => wfc (snd r)).
Proof.
  intros W. unfold parse_flow. eapply post_bind; [apply post_any|]. intros ctx _.
  eapply post_bind; [apply post_any|]. intros sp _.
  eapply post_bind; [apply post_parse_frows; exact W|]. intros a Wa.
  eapply post_bind; [apply post_any|]. intros u _. apply post_ret. exact Wa.
Qed.

Lemma post_add_flow c f : wfc c -> post (add_flow c f) wfc.
Proof.
  intros W s s' a E. unfold add_flow, mbind, lift, ret in E.
  destruct (record_uuid (c_fdict c) (f_name f) (Some (f_uuid f))); inversion E; subst. exact W.
Qed.

Lemma post_parse_all_flows w k : post (parse_all_flows w k) wfc.
Proof.
  unfold parse_all_flows. eapply post_bind with (Q := fun fc => wfc (snd fc)).
  - apply post_mfold; [|exact wfc_empty]. intros acc fr W. apply post_with.
    destruct (find_sheet (w_flows w) (fst fr)); [|apply post_throw].
    eapply post_bind; [apply post_parse_flow; exact W|]. intros r Wr. apply post_ret. exact Wr.
  - intros fc W. apply post_mfold; [|exact W]. intros a x Wa. apply post_add_flow. exact Wa.
Qed.

Lemma post_m_parse_keep w : post (m_parse_keep w) wfc.
Proof.
  unfold m_parse_keep. eapply post_bind; [apply post_any|]. intros tm _.
  eapply post_bind; [apply post_any|]. intros k _. apply post_parse_all_flows.
Qed.

Lemma keys_shift k d : keys (shift_udict k d) = keys d.
Proof. unfold keys, shift_udict. rewrite map_map. reflexivity. Qed.

Lemma wfc_shift k c : wfc c -> wfc (shift_cont k c).
Proof. unfold wfc. cbn. rewrite keys_shift. auto. Qed.

Lemma render_wf c s s1 c1 r1 : wfc c -> render c s = (s1, Ok (c1, r1)) -> wfc c1.
Proof. intros W H. exact (proj2 (render_twice _ _ _ _ _ W H)). Qed.

(* ------------------------------------------------------------------ lists *)
Lemma Forall_set_nth {T} (P : T -> Prop) x : forall l n, Forall P l -> P x -> Forall P (set_nth n x l).
Proof.
  induction l as [|y r IH]; intros n H Hx; destruct n; cbn; try exact H.
  - inversion H; subst. constructor; assumption.
  - inversion H; subst. constructor; [assumption|apply IH; assumption].
Qed.

Lemma nth_error_set_nth {T} (x y : T) : forall l n, nth_error l n = Some y -> nth_error (set_nth n x l) n = Some x.
Proof. induction l as [|z r IH]; intros [|n]; cbn; intros H; try discriminate; [reflexivity|apply IH, H]. Qed.

Lemma set_nth_twice {T} (x y : T) : forall l n, set_nth n x (set_nth n y l) = set_nth n x l.
Proof. induction l as [|z r IH]; intros [|n]; cbn; try reflexivity. rewrite IH. reflexivity. Qed.

Lemma set_nth_same {T} (x : T) : forall l n, nth_error l n = Some x -> set_nth n x l = l.
Proof. induction l as [|z r IH]; intros [|n]; cbn; intros H; try discriminate; [congruence|rewrite IH; [reflexivity|exact H]]. Qed.

(* ------------------------------------------------------------------ reachable states are well formed *)
Definition wfh (h : hidden) : Prop := Forall wfc (h_conts h).

Lemma step_wf h c : wfh h -> wfh (fst (step h c)).
Proof.
  intros W. destruct c as [tags w|tags hm w|w|i|i j|ok]; cbn [step].
  - destruct (m_create_flows tags w (enter0 h)) as [s [r|e]]; exact W.
  - destruct (m_save_data tags hm w (enter0 h)) as [s [r|e]]; exact W.
  - destruct (m_parse_keep w (enter0 h)) as [s [c|e]] eqn:E; [|exact W].
    unfold wfh. cbn. apply Forall_app. split; [exact W|]. constructor; [|constructor].
    apply wfc_shift. exact (post_m_parse_keep w _ _ _ E).
  - destruct (nth_error (h_conts h) i) as [c|] eqn:N; [|exact W].
    destruct (render c (enter h)) as [s [[c' r]|e]] eqn:E; [|exact W].
    unfold wfh. cbn. apply Forall_set_nth; [exact W|].
    eapply render_wf; [|exact E]. unfold wfh in W. rewrite Forall_forall in W. apply W. eapply nth_error_In. exact N.
  - destruct (nth_error (h_conts h) i) as [c|] eqn:N; [|exact W].
    destruct (nth_error (c_flows c) j) as [f|] eqn:F; [|exact W].
    destruct (to_rows f) as [f' rows]. unfold wfh. cbn. apply Forall_set_nth; [exact W|].
    unfold wfc. cbn. unfold wfh in W. rewrite Forall_forall in W. apply (W c). eapply nth_error_In. exact N.
  - exact W.
Qed.

Lemma reachable_wf h : reachable h -> wfh h.
Proof. induction 1 as [|h c _ IH]; [constructor|apply step_wf, IH]. Qed.

(* ------------------------------------------------------------------ render twice, in a history *)
(* whatever happened before: once a render of container i has succeeded, rendering it again
   returns the same document and changes NOTHING in the hidden state (no new uuid either) *)
Theorem render_twice_history h i h1 r :
  reachable h -> step h (CRender i) = (h1, ORendered r) -> step h1 (CRender i) = (h1, ORendered r).
Proof.
  intros R H. pose proof (reachable_wf h R) as W. cbn [step] in H.
  destruct (nth_error (h_conts h) i) as [c|] eqn:N; [|inversion H].
  assert (Wc : wfc c) by (unfold wfh in W; rewrite Forall_forall in W; apply W; eapply nth_error_In; exact N).
  rewrite render_is_pure in H. cbn [enter s_next] in H.
  destruct (render_pure c (h_fresh h)) as [[[c4 r4] n2]|e] eqn:P; [|inversion H].
  inversion H; subst; clear H.
  destruct (render_pure_twice _ _ _ _ _ Wc P) as [P2 _].
  cbn [step leave with_next enter h_conts h_stack h_slots h_fresh s_stack s_slots s_next].
  rewrite (nth_error_set_nth c4 c _ _ N). rewrite render_is_pure.
  change (s_next (enter (leave h (with_next (enter h) n2) (set_nth i c4 (h_conts h))))) with n2.
  rewrite P2. unfold leave, enter, with_next. cbn. rewrite set_nth_twice. reflexivity.
Qed.

(* ------------------------------------------------------------------ export scratch: a simulation *)
Definition simc (c c' : cont) : Prop :=
  c_groups c' = c_groups c /\ c_fdict c' = c_fdict c /\ c_gdict c' = c_gdict c /\
  Forall2 same_but_scratch (c_flows c) (c_flows c').

Definition simh (h h' : hidden) : Prop :=
  h_stack h' = h_stack h /\ h_slots h' = h_slots h /\ h_fresh h' = h_fresh h /\ Forall2 simc (h_conts h) (h_conts h').

Lemma same_but_scratch_refl f : same_but_scratch f f.
Proof. repeat split. Qed.

Lemma Forall2_refl {A} (P : A -> A -> Prop) : (forall x, P x x) -> forall l, Forall2 P l l.
Proof. intros H. induction l; constructor; auto. Qed.

Lemma simc_refl c : simc c c.
Proof. repeat split. apply Forall2_refl, same_but_scratch_refl. Qed.

Lemma simh_refl h : simh h h.
Proof. repeat split. apply Forall2_refl, simc_refl. Qed.

Lemma Forall2_nth_error {A B} (P : A -> B -> Prop) l l' : Forall2 P l l' -> forall n,
  match nth_error l n, nth_error l' n with
  | Some x, Some y => P x y
  | None, None => True
  | _, _ => False
  end.
Proof. induction 1 as [|x y l l' H _ IH]; intros [|n]; cbn; auto. apply IH. Qed.

Lemma Forall2_set_nth {A B} (P : A -> B -> Prop) x y : forall l l' n,
  Forall2 P l l' -> P x y -> Forall2 P (set_nth n x l) (set_nth n y l').
Proof.
  intros l l' n H. revert n. induction H as [|a b l l' Hab HT IH]; intros [|n] Hxy; cbn; constructor; auto.
Qed.

Lemma to_rows_fst_scratch f : same_but_scratch f (fst (to_rows f)).
Proof. repeat split. Qed.

Lemma simc_with_flows c c' : simc c c' -> c' = with_flows (c_flows c') c.
Proof. intros (A & B & C & _). destruct c'. unfold with_flows. cbn in *. congruence. Qed.

Lemma enter0_sim h h' : simh h h' -> enter0 h' = enter0 h.
Proof. intros (A & B & _). unfold enter0. rewrite A, B. reflexivity. Qed.

Lemma enter_sim h h' : simh h h' -> enter h' = enter h.
Proof. intros (A & B & C & _). unfold enter. rewrite A, B, C. reflexivity. Qed.

(* two states that differ only in export scratch answer every call alike and stay that way *)
Theorem scratch_sim_step h h' c :
  simh h h' -> snd (step h' c) = snd (step h c) /\ simh (fst (step h c)) (fst (step h' c)).
Proof.
  intros S. pose proof S as (A & B & C & D).
  destruct c as [tags w|tags hm w|w|i|i j|ok]; cbn [step].
  - rewrite (enter0_sim _ _ S). destruct (m_create_flows tags w (enter0 h)) as [s [r|e]]; cbn;
      (split; [rewrite ?C; reflexivity|repeat split; cbn; [rewrite C; reflexivity|exact D]]).
  - rewrite (enter0_sim _ _ S). destruct (m_save_data tags hm w (enter0 h)) as [s [r|e]]; cbn;
      (split; [reflexivity|repeat split; cbn; [rewrite C; reflexivity|exact D]]).
  - rewrite (enter0_sim _ _ S). destruct (m_parse_keep w (enter0 h)) as [s [c|e]]; cbn.
    + split; [reflexivity|]. repeat split; cbn; [rewrite C; reflexivity|]. rewrite C.
      apply Forall2_app; [exact D|]. constructor; [apply simc_refl|constructor].
    + split; [reflexivity|]. repeat split; cbn; [rewrite C; reflexivity|exact D].
  - pose proof (Forall2_nth_error _ _ _ D i) as N.
    destruct (nth_error (h_conts h) i) as [c|], (nth_error (h_conts h') i) as [c'|]; try contradiction.
    2:{ split; [reflexivity|exact S]. }
    rewrite (enter_sim _ _ S). rewrite !render_is_pure. cbn [enter s_next].
    rewrite (simc_with_flows _ _ N). destruct N as (_ & _ & _ & NF).
    pose proof (render_scratch_free c (c_flows c') (h_fresh h) NF) as X.
    destruct (render_pure (with_flows (c_flows c') c) (h_fresh h)) as [[[c4' r'] n']|e'],
             (render_pure c (h_fresh h)) as [[[c4 r] n2]|e]; try contradiction.
    + destruct X as (-> & -> & X1 & X2 & X3 & X4). cbn. split; [reflexivity|]. repeat split; cbn.
      apply Forall2_set_nth; [exact D|]. repeat split; assumption.
    + subst e'. cbn. split; [reflexivity|]. repeat split. exact D.
  - pose proof (Forall2_nth_error _ _ _ D i) as N.
    destruct (nth_error (h_conts h) i) as [c|], (nth_error (h_conts h') i) as [c'|]; try contradiction.
    2:{ split; [reflexivity|exact S]. }
    destruct N as (N1 & N2 & N3 & NF). pose proof (Forall2_nth_error _ _ _ NF j) as F.
    destruct (nth_error (c_flows c) j) as [f|], (nth_error (c_flows c') j) as [f'|]; try contradiction.
    2:{ split; [reflexivity|exact S]. }
    destruct F as (F1 & F2 & F3).
    destruct (to_rows f) as [g rows] eqn:Tf. destruct (to_rows f') as [g' rows'] eqn:Tf'.
    assert (ER : rows' = rows).
    { change rows' with (snd (g', rows')). change rows with (snd (g, rows)). rewrite <- Tf, <- Tf', !to_rows_rows. exact F3. }
    assert (SG : same_but_scratch g g').
    { change g with (fst (g, rows)). change g' with (fst (g', rows')). rewrite <- Tf, <- Tf'.
      unfold to_rows, same_but_scratch. cbn. auto. }
    cbn. split; [rewrite ER; reflexivity|]. repeat split; try assumption. cbn.
    apply Forall2_set_nth; [exact D|]. repeat split; cbn; try assumption.
    apply Forall2_set_nth; assumption.
  - split; [reflexivity|exact S].
Qed.

Lemma scratch_sim_run : forall cs h h', simh h h' -> snd (run h' cs) = snd (run h cs).
Proof.
  induction cs as [|c r IH]; intros h h' S; cbn [run]; [reflexivity|].
  destruct (scratch_sim_step h h' c S) as [E S1].
  destruct (step h c) as [h1 o], (step h' c) as [h1' o']. cbn in E, S1. subst o'.
  specialize (IH _ _ S1). destruct (run h1 r) as [h2 os], (run h1' r) as [h2' os']. cbn in *. congruence.
Qed.

Lemma to_rows_sim h i j : simh h (fst (step h (CToRows i j))).
Proof.
  cbn [step]. destruct (nth_error (h_conts h) i) as [c|] eqn:N; [|apply simh_refl].
  destruct (nth_error (c_flows c) j) as [f|] eqn:F; [|apply simh_refl].
  destruct (to_rows f) as [g rows] eqn:Tf. repeat split. cbn.
  rewrite <- (set_nth_same c (h_conts h) i N) at 1.
  apply Forall2_set_nth; [apply Forall2_refl, simc_refl|]. repeat split. cbn.
  rewrite <- (set_nth_same f (c_flows c) j F) at 1.
  apply Forall2_set_nth; [apply Forall2_refl, same_but_scratch_refl|].
  change g with (fst (g, rows)). rewrite <- Tf. apply to_rows_fst_scratch.
Qed.

(* AN EXPORT LEAVES NO TRACE: whatever calls follow — renders, other exports, compilations —
   they return what they would have returned had the export not happened *)
Theorem to_rows_leaves_no_trace h i j cs :
  snd (run (fst (step h (CToRows i j))) cs) = snd (run h cs).
Proof. apply scratch_sim_run, to_rows_sim. Qed.

(* in particular render, and a repeated export *)
Corollary to_rows_then_render h i j k :
  snd (step (fst (step h (CToRows i j))) (CRender k)) = snd (step h (CRender k)).
Proof. exact (proj1 (scratch_sim_step _ _ (CRender k) (to_rows_sim h i j))). Qed.

Corollary to_rows_twice_history h i j :
  snd (step (fst (step h (CToRows i j))) (CToRows i j)) = snd (step h (CToRows i j)).
Proof. exact (proj1 (scratch_sim_step _ _ (CToRows i j) (to_rows_sim h i j))). Qed.

(* ------------------------------------------------------------------ render and later exports *)
(* once container i has been rendered, further renders do not change what an export returns *)
Corollary render_then_to_rows_validated h i h1 r j :
  reachable h -> step h (CRender i) = (h1, ORendered r) ->
  snd (step (fst (step h1 (CRender i))) (CToRows i j)) = snd (step h1 (CToRows i j)).
Proof. intros R H. rewrite (render_twice_history h i h1 r R H). reflexivity. Qed.

(* FULL statement: "render does not change what to_rows returns", in any reachable state *)
Definition render_then_to_rows_full : Prop :=
  forall h i j, reachable h ->
    snd (step (fst (step h (CRender i))) (CToRows i j)) = snd (step h (CToRows i j)).

(* a workbook with one flow whose only row is `add_to_group G` without obj_id *)
Definition wb_witness : workbook :=
  mkW (Some [mkI false [] (ICreateFlow [115]%N [])]) [([115]%N, [FGroup [] [71]%N []])].

Theorem render_then_to_rows_refuted : ~ render_then_to_rows_full.
Proof.
  intros H.
  specialize (H (fst (step init (CParseKeep wb_witness))) 0 0 (reach_step _ _ reach_init)).
  vm_compute in H. discriminate.
Qed.

Example render_twice_history_nonvacuous :
  exists h h1 r, reachable h /\ step h (CRender 0) = (h1, ORendered r) /\ r_groups r = [([71]%N, Some (Fresh 2))].
Proof.
  exists (fst (step init (CParseKeep wb_witness))). eexists. eexists.
  split; [apply reach_step, reach_init|]. split; [vm_compute; reflexivity|reflexivity].
Qed.

Example history_free_nonvacuous :
  exists h c r, reachable h /\ file_call c = true /\ 0 < h_fresh h /\ snd (step init c) = ORendered r.
Proof.
  exists (fst (step init (CParseKeep wb_witness))), (CCreateFlows None wb_witness). eexists.
  split; [apply reach_step, reach_init|]. split; [reflexivity|].
  split; [apply Nat.ltb_lt; vm_compute; reflexivity|vm_compute; reflexivity].
Qed.
