(* C13 — host operations: what the HOST process does between two calls of the toolkit, outside the rpft package,
   to state it controls or that repeats by itself: random.seed(k) (an application, pytest-randomly, a simulation
   library), random.setstate(saved), clocks frozen freezegun-style, a pid that is the same at every start.
   Definitions only; facts in HiddenHostFacts.v.

   The hidden state of the model (Io/Hidden.v: context stack, default-argument objects, the uuid counter [h_fresh],
   kept containers) has NO component such an operation could reach: invented identifiers come from uuid4(), i.e. from
   the operating system's entropy, which the regenerated order-source table records as the one sanctioned source
   (Io/HiddenOrder.v, reason 8).  A host operation is therefore the call that changes nothing and returns nothing:
   [COpaque true].  The harness (harness/c13.py, repeated-state stream) sends exactly that for every host operation of
   a history and compares hidden part and outcomes of all calls around it with the implementation, where
   random.seed / setstate / frozen clocks / a fixed pid are really performed in the worker process. *)
From Coq Require Import List Bool.
From RPFT Require Import Io.Hidden.
Import ListNotations.

Definition CHost : call := COpaque true.
Definition is_host (c : call) : bool := match c with COpaque true => true | _ => false end.

(* "[host operations; compilation]" *)
Definition after_host (h : hidden) (hs : list call) (c : call) : hidden * outcome := step (fst (run h hs)) c.
