(* C15 — the prefix lemma.  Processing is sequential: whatever the command does before it first
   reads a given row does not depend on that row.  Made precise with a TRAP: the compiler of
   CliIndex.v run with a `visit` hook that stops, at the first read inside a region of one
   sheet that satisfies a selector, with the state reached (error TTrap).  Then

     fault_fatal : if the trapped run of workbook wb stops at (t, q) in state s, and the rows
                   of wb' agree with those of wb outside the region (and where the selector
                   does not fire), and reading (t, q) of wb' in state s is an error c,
                   then compiling wb' is the error c

   — whatever precedes the row: other flows, earlier rows, enclosing loops (the first
   iteration that reaches it), blocks, templates inserted as blocks.
   The simulation is generic in what is claimed at the trap (P), so the same induction also
   gives `trap_fires` (the selector held) and `valid_visit_ok` (in a workbook that compiles,
   the read at the trap succeeds). *)
From Coq Require Import List NArith Bool Arith Lia.
From RPFT Require Import Base.Sexp Base.PyStr Base.PyStrFacts Base.Result Gen.Tables
  Io.CliFlow Io.CliIndex.
Import ListNotations.

Inductive trapE :=
| TCls (c : cls)
| TTrap (t : str) (q : nat) (s : fstate) (bt : btype) (omit : bool).

Lemma lift_id {T} (r : result cls T) : lift cls (fun c => c) r = r.
Proof. destruct r; reflexivity. Qed.

Section Sim.
(* what is claimed about the untrapped run when the trapped run stops *)
Variable P : forall T : Type, str -> nat -> fstate -> btype -> bool -> result cls T -> Prop.
Hypothesis P_bind : forall S T t q s bt o (b : result cls S) (g : S -> result cls T),
    P S t q s bt o b -> P T t q s bt o (bind b g).

Definition sim {T} (a : result trapE T) (b : result cls T) : Prop :=
  match a with
  | Ok x => b = Ok x
  | Err (TCls c) => b = Err c
  | Err (TTrap t q s bt o) => P T t q s bt o b
  end.

Lemma sim_bind {S T} (a : result trapE S) (b : result cls S) (f : S -> result trapE T) (g : S -> result cls T) :
  sim a b -> (forall x, sim (f x) (g x)) -> sim (bind a f) (bind b g).
Proof.
  intros Hab Hfg. destruct a as [x|[c|t q s bt o]]; cbn in *.
  - subst b. cbn. apply Hfg.
  - subst b. reflexivity.
  - apply P_bind. exact Hab.
Qed.

Lemma sim_lift {T} (r : result cls T) : sim (lift trapE TCls r) (lift cls (fun c => c) r).
Proof. destruct r; reflexivity. Qed.

Lemma sim_lift' {T} (r : result cls T) : sim (lift trapE TCls r) r.
Proof. destruct r; reflexivity. Qed.

Lemma sim_ok {T} (x : T) : sim (Ok x) (Ok x).
Proof. reflexivity. Qed.

Lemma sim_err {T} (c : cls) : @sim T (Err (TCls c)) (Err c).
Proof. reflexivity. Qed.

Lemma sim_foldM {S A} (f : A -> S -> result trapE A) (g : A -> S -> result cls A) (l : list S) :
  (forall a x, sim (f a x) (g a x)) -> forall a, sim (foldM f l a) (foldM g l a).
Proof.
  intros Hfg. induction l as [|x l IH]; intros a; cbn.
  - reflexivity.
  - specialize (Hfg a x). destruct (f a x) as [a1|[c|t q s bt o]]; cbn in Hfg.
    + rewrite Hfg. apply IH.
    + rewrite Hfg. reflexivity.
    + change (foldM g (x :: l) a) with (bind (g a x) (fun a' => foldM g l a')) .
      apply P_bind. exact Hfg.
Qed.

Variable visit1 : str -> nat -> btype -> bool -> fstate -> result trapE step.
Variable visit2 : str -> nat -> btype -> bool -> fstate -> result cls step.
Variable prep : str -> str -> str -> list str -> result cls ctx.
Hypothesis Hvisit : forall t q bt o s, sim (visit1 t q bt o s) (visit2 t q bt o s).

Lemma iterate_sim (b1 : fstate -> result trapE (nat * fstate)) (b2 : fstate -> result cls (nat * fstate)) :
  (forall st, sim (b1 st) (b2 st)) ->
  forall x idx elems n acc, sim (iterate trapE b1 x idx elems n acc) (iterate cls b2 x idx elems n acc).
Proof.
  intros Hb x idx elems. induction elems as [|e more IH]; intros n acc; cbn [iterate].
  - reflexivity.
  - apply sim_bind; [apply Hb|]. intros acc'. apply IH.
Qed.

Lemma parse_block_sim fuel : forall t pos s bt o,
  sim (parse_block trapE TCls visit1 prep fuel t pos s bt o)
      (parse_block cls (fun c => c) visit2 prep fuel t pos s bt o).
Proof.
  induction fuel as [|f IH]; intros t pos s bt o; cbn [parse_block].
  - reflexivity.
  - apply sim_bind; [apply Hvisit|]. intros st.
    destruct st as [consumed| | | |s1|i x idx|i|i].
    + reflexivity.
    + apply sim_bind; [apply IH|]. intros ps. apply IH.
    + apply sim_bind; [apply IH|]. intros ps. apply IH.
    + apply IH.
    + apply IH.
    + destruct (negb (loop_in_scope s x idx i)); [reflexivity|].
      apply sim_bind; [apply sim_lift|]. intros s2.
      apply sim_bind; [apply iterate_sim; intros st'; apply IH|]. intros ps. apply IH.
    + apply sim_bind; [apply sim_lift|]. intros s2.
      apply sim_bind; [apply IH|]. intros ps. apply IH.
    + apply sim_bind; [apply sim_lift|]. intros c'.
      apply sim_bind; [apply IH|]. intros sub.
      apply sim_bind; [apply sim_lift|]. intros s3. apply IH.
Qed.

Lemma run_flow_sim fuel t c uu :
  sim (run_flow trapE TCls visit1 prep fuel t c uu) (run_flow cls (fun c => c) visit2 prep fuel t c uu).
Proof.
  unfold run_flow. apply sim_bind; [apply parse_block_sim|]. intros ps. reflexivity.
Qed.

End Sim.

(* the flows phase and the whole compilation *)
Section SimPipeline.
Variable P : forall T : Type, str -> nat -> fstate -> btype -> bool -> result cls T -> Prop.
Hypothesis P_bind : forall S T t q s bt o (b : result cls S) (g : S -> result cls T),
    P S t q s bt o b -> P T t q s bt o (bind b g).
Variable visit1 : str -> nat -> btype -> bool -> fstate -> result trapE step.
Variable visit2 : str -> nat -> btype -> bool -> fstate -> result cls step.
Hypothesis Hvisit : forall t q bt o s, sim P (visit1 t q bt o s) (visit2 t q bt o s).

Lemma one_flow_sim fuel st d drow cs :
  sim P (one_flow trapE TCls visit1 fuel st d drow cs) (one_flow cls (fun c => c) visit2 fuel st d drow cs).
Proof.
  unfold one_flow, liftE.
  apply sim_bind; [exact P_bind|apply sim_lift|]. intros c.
  apply sim_bind; [exact P_bind|apply run_flow_sim; assumption|]. intros ur. reflexivity.
Qed.

Lemma flows_phase_sim fuel st :
  sim P (flows_phase trapE TCls visit1 fuel st) (flows_phase cls (fun c => c) visit2 fuel st).
Proof.
  unfold flows_phase. apply sim_foldM; [exact P_bind|]. intros cs d. unfold flow_def_step.
  destruct (fd_dsheet d) as [|c1 ds], (fd_drow d) as [|c2 dr]; try apply one_flow_sim.
  - unfold liftE. apply sim_lift.
  - destruct (aget (is_data st) (c1 :: ds)) as [dsh|].
    + apply sim_foldM; [exact P_bind|]. intros cs' idrow. apply one_flow_sim.
    + unfold liftE. apply sim_lift.
Qed.

Lemma compile_core_sim fuel wbx dm :
  sim P (compile_core trapE TCls visit1 fuel wbx dm) (compile_core cls (fun c => c) visit2 fuel wbx dm).
Proof.
  unfold compile_core.
  apply sim_bind; [exact P_bind|apply sim_lift|]. intros st.
  apply sim_bind; [exact P_bind|apply flows_phase_sim|]. intros cs. apply sim_lift.
Qed.

End SimPipeline.

(* ---------------------------------------------------------------- traps on a workbook *)
(* region: positions >= p of sheet t0 when [tail], position p only otherwise *)
Definition in_region (t0 : str) (p : nat) (tail : bool) (t : str) (q : nat) : bool :=
  str_eqb t t0 && (if tail then Nat.leb p q else Nat.eqb q p).

Definition selector := bool -> fstate -> option frow -> bool.

Definition visit_trap (wb : workbook) (t0 : str) (p : nat) (tail : bool) (sel : selector)
           (t : str) (q : nat) (bt : btype) (o : bool) (s : fstate) : result trapE step :=
  if in_region t0 p tail t q && sel o s (nth_error (rows_of wb t) q)
  then Err (TTrap t q s bt o)
  else lift trapE TCls (visit_of wb t q bt o s).

Definition compile_trap (fuel : nat) (wb : workbook) (dm : option (list str)) (t0 : str) (p : nat)
           (tail : bool) (sel : selector) : result trapE doc :=
  compile_core trapE TCls (visit_trap wb t0 p tail sel) fuel (erase wb) dm.

(* the read is a real evaluation: not omitted, and the inclusion condition is true *)
Definition sel_eval : selector :=
  fun o s r => negb o && match r with
                         | Some r => match eval_inc (f_ctx s) (r_inc r) with Ok true => true | _ => false end
                         | None => false
                         end.
(* any read *)
Definition sel_read : selector := fun _ _ _ => true.

Section Fatal.
Variables (fuel : nat) (wb wb' : workbook) (dm : option (list str)).
Variables (t0 : str) (p : nat) (tail : bool) (sel : selector).
Hypothesis Herase : erase wb' = erase wb.
Hypothesis Hout : forall t q, in_region t0 p tail t q = false ->
                              nth_error (rows_of wb' t) q = nth_error (rows_of wb t) q.
Hypothesis Hquiet : forall t q bt o s, in_region t0 p tail t q = true ->
                                       sel o s (nth_error (rows_of wb t) q) = false ->
                                       visit_of wb' t q bt o s = visit_of wb t q bt o s.

Theorem fault_fatal t1 q1 s1 bt1 o1 c1 :
  compile_trap fuel wb dm t0 p tail sel = Err (TTrap t1 q1 s1 bt1 o1) ->
  visit_of wb' t1 q1 bt1 o1 s1 = Err c1 ->
  compile fuel wb' dm = Err c1.
Proof.
  intros Htrap Hvis.
  set (P := fun (T : Type) (t : str) (q : nat) (s : fstate) (bt : btype) (o : bool) (b : result cls T) =>
              t = t1 -> q = q1 -> s = s1 -> bt = bt1 -> o = o1 -> b = Err c1).
  assert (Pb : forall S T t q s bt o (b : result cls S) (g : S -> result cls T),
             P S t q s bt o b -> P T t q s bt o (bind b g)).
  { intros S T t q s bt o b g Hb H1 H2 H3 H4 H5. rewrite (Hb H1 H2 H3 H4 H5). reflexivity. }
  assert (Hv : forall t q bt o s, sim P (visit_trap wb t0 p tail sel t q bt o s) (visit_of wb' t q bt o s)).
  { intros t q bt o s. unfold visit_trap.
    destruct (in_region t0 p tail t q) eqn:Hreg; cbn [andb].
    - destruct (sel o s (nth_error (rows_of wb t) q)) eqn:Hsel.
      + cbn. intros -> -> -> -> ->. exact Hvis.
      + rewrite (Hquiet t q bt o s Hreg Hsel). apply sim_lift'.
    - unfold visit_of. rewrite (Hout t q Hreg). apply sim_lift'. }
  pose proof (compile_core_sim P Pb _ _ Hv fuel (erase wb) dm) as Hsim.
  unfold compile_trap in Htrap. rewrite Htrap in Hsim. cbn in Hsim.
  unfold compile. rewrite Herase. apply Hsim; reflexivity.
Qed.

End Fatal.

(* the trap only fires where its selector holds, inside its region *)
Theorem trap_fires fuel wb dm t0 p tail sel t1 q1 s1 bt1 o1 :
  compile_trap fuel wb dm t0 p tail sel = Err (TTrap t1 q1 s1 bt1 o1) ->
  in_region t0 p tail t1 q1 = true /\ sel o1 s1 (nth_error (rows_of wb t1) q1) = true.
Proof.
  intros Htrap.
  set (P := fun (T : Type) (t : str) (q : nat) (s : fstate) (bt : btype) (o : bool) (b : result cls T) =>
              in_region t0 p tail t q = true /\ sel o s (nth_error (rows_of wb t) q) = true).
  assert (Pb : forall S T t q s bt o (b : result cls S) (g : S -> result cls T),
             P S t q s bt o b -> P T t q s bt o (bind b g)).
  { intros S T t q s bt o b g Hb. exact Hb. }
  assert (Hv : forall t q bt o s, sim P (visit_trap wb t0 p tail sel t q bt o s) (visit_of wb t q bt o s)).
  { intros t q bt o s. unfold visit_trap.
    destruct (in_region t0 p tail t q) eqn:Hreg; cbn [andb].
    - destruct (sel o s (nth_error (rows_of wb t) q)) eqn:Hsel.
      + cbn. split; assumption.
      + apply sim_lift'.
    - apply sim_lift'. }
  pose proof (compile_core_sim P Pb _ _ Hv fuel (erase wb) dm) as Hsim.
  unfold compile_trap in Htrap. rewrite Htrap in Hsim. exact Hsim.
Qed.

(* in a workbook that compiles, the read at which the trap stops succeeds *)
Theorem valid_visit_ok fuel wb dm d t0 p tail sel t1 q1 s1 bt1 o1 :
  compile fuel wb dm = Ok d ->
  compile_trap fuel wb dm t0 p tail sel = Err (TTrap t1 q1 s1 bt1 o1) ->
  exists st, visit_of wb t1 q1 bt1 o1 s1 = Ok st.
Proof.
  intros Hok Htrap.
  destruct (visit_of wb t1 q1 bt1 o1 s1) as [st|c] eqn:Hv; [eauto|].
  exfalso.
  assert (Hc : compile fuel wb dm = Err c).
  { apply (fault_fatal fuel wb wb dm t0 p tail sel eq_refl) with (t1 := t1) (q1 := q1) (s1 := s1) (bt1 := bt1) (o1 := o1).
    - intros; reflexivity.
    - intros; reflexivity.
    - exact Htrap.
    - exact Hv. }
  rewrite Hc in Hok. discriminate.
Qed.
