(* C15 — an over-long category name on an edge that creates a category stops the command.
   The site is state dependent (RowNodeGroup.add_exit -> SwitchRouter.add_choice ->
   get_or_create_category -> RouterCategory raises): `cat_site` is the executable condition on
   the state in which the row is reached: the edge leaves a row whose exit node is a plain
   action node or a switch router, the (test, arguments) pair is not a case of that router
   yet, and no category of that name exists. *)
From Coq Require Import List NArith Bool Arith Lia.
From RPFT Require Import Base.Sexp Base.PyStr Base.PyStrFacts Base.Result Gen.Tables
  Io.CliFlow Io.CliIndex Io.CliSimFacts Io.CliRowFacts.
Import ListNotations.

Arguments crit : simpl never.
Arguments raise : simpl never.
Arguments raise_logged : simpl never.

Definition with_name (c : cond) (nm : str) : cond := mkCond (c_val c) (c_var c) (c_typ c) nm.

Definition case_args (t : rtype) (c : cond) : str * list (option str) :=
  match t with
  | TSplitGroup => (s_has_group, [None; Some (c_val c)])
  | _ => (c_typ c, [Some (c_val c)])
  end.

Definition cat_site (s : fstate) (e : iedge) : bool :=
  match edge_source s e with
  | Ok (Some g) =>
    match nth_error (f_store s) g with
    | Some (GRow (XBasic _) t) => true
    | Some (GRow (XSwitch ro) t) =>
      negb (str_eqb (lower (c_val (ie_cond e))) s_no_response)
      && match find_case (ro_cases ro) (or_default (fst (case_args t (ie_cond e)))) (snd (case_args t (ie_cond e))) with
         | Some _ => false | None => true end
      && match find_cref ro (c_name (ie_cond e)) with Some _ => false | None => true end
    | _ => false
    end
  | _ => false
  end.

Lemma cond_empty_named c : c_name c <> [] -> cond_empty c = false.
Proof.
  intros H. unfold cond_empty. destruct (c_val c), (c_var c), (c_typ c), (c_name c); try reflexivity. congruence.
Qed.

Lemma long_name_not_other nm : (c15_max_category_len < N.of_nat (length nm))%N -> str_eqb s_Other nm = false.
Proof.
  intros H. destruct (str_eqb s_Other nm) eqn:E; [|reflexivity].
  apply str_eqb_eq in E. subst nm. vm_compute in H. discriminate.
Qed.

Lemma get_or_create_long ro nm conn :
  find_cref ro nm = None -> (c15_max_category_len < N.of_nat (length nm))%N ->
  get_or_create ro nm conn = Err ECatName.
Proof.
  intros Hf Hl. unfold get_or_create. rewrite Hf.
  apply N.ltb_lt in Hl. rewrite Hl. rewrite raise_logged_eq by in_list. reflexivity.
Qed.

Lemma add_choice_long ro typ args nm conn :
  find_case (ro_cases ro) typ args = None -> nm <> [] ->
  find_cref ro nm = None -> (c15_max_category_len < N.of_nat (length nm))%N ->
  add_choice ro typ args nm conn = Err ECatName.
Proof.
  intros Hc Hn Hf Hl. unfold add_choice. rewrite Hc.
  destruct nm as [|ch nm']; [congruence|].
  rewrite get_or_create_long by assumption. reflexivity.
Qed.

Lemma find_cref_new_router old nm : (c15_max_category_len < N.of_nat (length nm))%N ->
  find_cref (new_router old false) nm = None.
Proof.
  intros Hl. unfold find_cref, new_router. cbn [ro_cats find_cat ro_dflt fst ro_noresp].
  rewrite long_name_not_other by exact Hl. reflexivity.
Qed.

Lemma row_add_exit_long x t c :
  c_name c <> [] -> (c15_max_category_len < N.of_nat (length (c_name c)))%N ->
  match x with
  | XBasic _ => True
  | XSwitch ro =>
    str_eqb (lower (c_val c)) s_no_response = false /\
    find_case (ro_cases ro) (or_default (fst (case_args t c))) (snd (case_args t c)) = None /\
    find_cref ro (c_name c) = None
  | _ => False
  end ->
  row_add_exit x t true c = Err ECatName.
Proof.
  intros Hn Hl Hx. unfold row_add_exit. rewrite (cond_empty_named c Hn). cbn [andb].
  destruct x as [old|ro|cs|a b|a b]; try contradiction.
  - (* plain action node: a router is created *)
    assert (Ha : add_choice (new_router old false) (or_default (fst (case_args t c))) (snd (case_args t c)) (c_name c) true
                 = Err ECatName).
    { apply add_choice_long; try assumption; [reflexivity|apply find_cref_new_router; exact Hl]. }
    unfold case_args in Ha. destruct t; cbn [fst snd] in *; rewrite Ha; reflexivity.
  - destruct Hx as (Hnr & Hcase & Hcref). rewrite Hnr.
    assert (Ha : add_choice ro (or_default (fst (case_args t c))) (snd (case_args t c)) (c_name c) true = Err ECatName).
    { apply add_choice_long; assumption. }
    unfold case_args in Ha. destruct t; cbn [fst snd] in *; rewrite Ha; reflexivity.
Qed.

Lemma add_row_edge_long s e :
  cat_site s e = true -> c_name (ie_cond e) <> [] ->
  (c15_max_category_len < N.of_nat (length (c_name (ie_cond e))))%N ->
  add_row_edge s e true = Err ECatName.
Proof.
  intros Hsite Hn Hl. unfold cat_site in Hsite. unfold add_row_edge.
  destruct (edge_source s e) as [[g|]|]; try discriminate.
  unfold fuel_of. cbn [add_exit].
  destruct (nth_error (f_store s) g) as [[x t|ps ro|ch]|]; try discriminate.
  rewrite (row_add_exit_long x t (ie_cond e) Hn Hl); [reflexivity|].
  destruct x as [old|ro|cs|a b|a b]; try discriminate; [exact I|].
  apply andb_true_iff in Hsite as [H12 H3]. apply andb_true_iff in H12 as [H1 H2].
  repeat split.
  - apply negb_true_iff in H1. exact H1.
  - destruct (find_case _ _ _); [discriminate|reflexivity].
  - destruct (find_cref ro _); [discriminate|reflexivity].
Qed.

Lemma row_group_record_store s i s0 : row_group_record s i = Ok s0 -> f_store s0 = f_store s.
Proof.
  unfold row_group_record. intros H.
  destruct (i_type i), (i_objid i); try (injection H as <-; reflexivity);
    (destruct (i_list i); [unfold raise in H; destruct (site_raises EIndexErr); discriminate|]);
    (destruct (record (f_uu s) _); [|discriminate]); injection H as <-; reflexivity.
Qed.
Lemma row_flow_record_store s i s0 : row_flow_record s i = Ok s0 -> f_store s0 = f_store s.
Proof.
  unfold row_flow_record. intros H.
  destruct (i_objid i); [injection H as <-; reflexivity|].
  destruct (record (f_uu s) _); [|discriminate]. injection H as <-. reflexivity.
Qed.

Lemma row_node_store s i s1 x : row_node s i = Ok (s1, x) -> f_store s1 = f_store s.
Proof.
  unfold row_node. intros H. cbn [bind] in H.
  destruct (row_group_record s i) as [s0|e] eqn:Epre; [|discriminate].
  pose proof (row_group_record_store _ _ _ Epre) as Hst.
  destruct (i_type i); try discriminate;
    try (injection H as <- <-; assumption).
  - destruct (i_main i); [unfold raise in H; destruct (site_raises EValueErr); discriminate|].
    injection H as <- <-. assumption.
  - cbn [bind] in H.
    destruct (row_flow_record s0 i) as [s2|e] eqn:Epre2; [|discriminate].
    pose proof (row_flow_record_store _ _ _ Epre2) as H2.
    destruct (i_main i); [unfold raise in H; destruct (site_raises EValueErr); discriminate|].
    injection H as <- <-. cbn. congruence.
  - destruct (negb (headers_ok (i_headers i))); [unfold raise_logged in H; destruct (site_raises EHeaders && site_stops EHeaders); discriminate|].
    destruct (i_url i); [unfold raise in H; destruct (site_raises EValueErr); discriminate|].
    destruct (i_save i); [unfold raise in H; destruct (site_raises EValueErr); discriminate|].
    destruct (field_key EFieldKey false _); [|discriminate].
    injection H as <- <-. assumption.
Qed.

Lemma cat_site_ext s s1 e :
  f_ids s1 = f_ids s -> f_stack s1 = f_stack s -> f_store s1 = f_store s -> cat_site s1 e = cat_site s e.
Proof. intros H1 H2 H3. unfold cat_site, edge_source. rewrite H1, H2, H3. reflexivity. Qed.

Lemma step_row_node_long s i e more s1 x :
  is_node_type (i_type i) = true -> i_inc i = true -> i_edges i = e :: more ->
  row_action i = Ok tt -> row_node s i = Ok (s1, x) ->
  cat_site s e = true -> c_name (ie_cond e) <> [] ->
  (c15_max_category_len < N.of_nat (length (c_name (ie_cond e))))%N ->
  step_row s i = Err ECatName.
Proof.
  intros Hn Hi He Ha Hnode Hsite Hnm Hl.
  destruct (row_node_ids _ _ _ _ Hnode) as [Hids Hstack].
  pose proof (row_node_store _ _ _ _ Hnode) as Hstore.
  assert (Hedge : add_row_edge s1 e true = Err ECatName).
  { apply add_row_edge_long; try assumption. rewrite (cat_site_ext s s1 e Hids Hstack Hstore). exact Hsite. }
  unfold step_row. rewrite Hi. cbn [negb].
  destruct (i_type i) eqn:Ht; try discriminate; cbn [bind]; rewrite Ha, Hnode, He; cbn [bind];
    cbn [orb]; rewrite Bool.orb_true_r, Hedge; reflexivity.
Qed.

Definition set_first_name (r : frow) (nm : str) : frow :=
  set_edges r (match r_edges r with e :: more => mkEdge (e_from e) (with_name (e_cond e) nm) :: more | [] => [] end).

Theorem detect_overlong_category_partial fuel wb dm d t0 p r s bt e0 more nm f0 :
  compile fuel wb dm = Ok d ->
  nth_error (rows_of wb t0) p = Some r ->
  is_node_type (r_type r) = true ->
  r_edges r = e0 :: more ->
  evaluated_at fuel wb dm t0 p s bt ->
  nm <> [] -> (c15_max_category_len < N.of_nat (length nm))%N ->
  render (f_ctx s) (e_from e0) = Ok f0 ->
  cat_site s (mkIE f0 (with_name (e_cond e0) nm)) = true ->      (* the edge creates a category here *)
  compile fuel (set_row wb t0 p (set_first_name r nm)) dm = Err ECatName.
Proof.
  intros Hok Hr Hn He Hev Hnm Hl Hf0 Hsite.
  destruct (evaluated_ok _ _ _ _ _ _ _ _ _ Hok Hr Hev) as (Hinc & i & st & Hi & Hst).
  pose proof Hi as Hi0.
  apply instantiate_some in Hi as (_ & id & es & m & l & Hid & Hes & Hm & Hl' & Hieq).
  apply (row_fault_fatal fuel wb dm t0 p r (set_first_name r nm) s bt); try assumption; try reflexivity.
  unfold visit_row. rewrite instantiate_unfold. unfold set_first_name.
  cbn [set_edges r_inc r_id r_edges r_main r_list r_type r_vars r_save r_objid r_noresp r_url r_headers r_dsheet r_drow r_targs].
  rewrite Hinc, Hid, He.
  rewrite He in Hes. cbn [mapM] in Hes. unfold render_edge at 1 in Hes. rewrite Hf0 in Hes.
  destruct (mapM (render_edge (f_ctx s)) more) as [es'|] eqn:Emore; [|discriminate].
  injection Hes as <-.
  cbn [mapM]. unfold render_edge at 1. cbn [e_from e_cond]. rewrite Hf0, Emore, Hm, Hl'.
  cbn [i_type].
  set (e' := mkIE f0 (with_name (e_cond e0) nm)).
  (* the injected first edge survives the read, whatever the tree drops *)
  destruct (drop_padding_first e' es') as [more' Hdp]. rewrite Hdp.
  set (i' := mkI (r_type r) id (e' :: more') true m l (r_vars r) (r_save r) (r_objid r) (r_noresp r)
                 (r_url r) (r_headers r) (r_dsheet r) (r_drow r) (r_targs r)).
  assert (Hstep : step_row s i' = Err ECatName).
  { unfold visit_row in Hst. rewrite Hi0 in Hst. subst i. cbn [i_type] in Hst.
    assert (Hs : exists s', step_row s (mkI (r_type r) id (drop_padding_edges (mkIE f0 (e_cond e0) :: es')) true m l (r_vars r) (r_save r) (r_objid r)
                                          (r_noresp r) (r_url r) (r_headers r) (r_dsheet r) (r_drow r) (r_targs r)) = Ok s').
    { destruct (r_type r); try discriminate;
        (match type of Hst with (match ?X with Ok _ => _ | Err _ => _ end) = _ => destruct X as [s'|]; [eauto|discriminate] end). }
    destruct Hs as [s' Hs].
    apply step_row_node_inv in Hs as (Ha & s1 & x & Hnode); [|exact Hn|reflexivity].
    apply (step_row_node_long s i' e' more' s1 x); try reflexivity; try assumption. }
  destruct (r_type r); try discriminate; rewrite Hstep; reflexivity.
Qed.
