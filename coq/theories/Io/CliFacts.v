(* C15 — the command: a stopped compilation leaves the file system untouched and the exit
   status is not zero; a successful one writes exactly the serialised document, which reads
   back as JSON.  Then the faults that are detected outside the flow rows: no content index,
   index rows (missing sheet, unknown operation, unknown data model), flow definitions
   (missing data sheet / data row, template argument missing or doubly defined), and a
   trigger for an unknown flow — each with its own "the rows before are fine" prefix. *)
From Coq Require Import List NArith ZArith Bool Arith Lia.
From RPFT Require Import Base.Sexp Base.PyStr Base.PyStrFacts Base.Result Base.Json Gen.Tables
  Io.CliFlow Io.CliIndex Io.CliJson Io.CliJsonFacts Io.Cli Io.CliSimFacts Io.CliRowFacts.
Import ListNotations.

Arguments crit : simpl never.
Arguments raise : simpl never.
Arguments raise_logged : simpl never.

(* ================================================================ the command *)
(* regenerated constants: rpft.cli.create_flows compiles first, lets failures through, and
   dumps with indent=4 *)
Lemma cli_shape : cli_shape_ok = true.
Proof. vm_compute. reflexivity. Qed.

(* regenerated constants: a stopped command never exits with status 0 *)
Lemma shutdown_exit_nonzero : c15_shutdown_exit <> 0%N.
Proof. vm_compute. discriminate. Qed.

Lemma exit_status_nonzero c : exit_status c <> 0%N.
Proof.
  unfold exit_status. destruct (assocN c15_site_levels (cls_code c)); [apply shutdown_exit_nonzero|discriminate].
Qed.

Theorem cli_error_no_file fuel wb dm out f c :
  compile fuel wb dm = Err c ->
  snd (cli fuel wb dm out f) = f /\ fst (cli fuel wb dm out f) <> 0%N.
Proof.
  intros H. unfold cli. rewrite cli_shape, H. cbn. split; [reflexivity|apply exit_status_nonzero].
Qed.

Lemma fs_read_write_same f p c : fs_read (fs_write f p c) p = Some c.
Proof.
  induction f as [|[q d] r IH]; cbn.
  - rewrite str_eqb_refl. reflexivity.
  - destruct (str_eqb q p) eqn:E; cbn; rewrite E; [reflexivity|exact IH].
Qed.

Lemma fs_read_write_other f p c p2 : p2 <> p -> fs_read (fs_write f p c) p2 = fs_read f p2.
Proof.
  intros Hne. induction f as [|[q d] r IH]; cbn.
  - rewrite str_eqb_neq by congruence. reflexivity.
  - destruct (str_eqb q p) eqn:E; cbn.
    + apply str_eqb_eq in E. subst q. rewrite str_eqb_neq by congruence. reflexivity.
    + destruct (str_eqb q p2); [reflexivity|exact IH].
Qed.

(* the document the compiler model produces is well formed JSON data *)
Definition names_ok (d : doc) : bool := forallb str_ok (d_flows d) && forallb str_ok (d_campaigns d).

Lemma doc_json_ok d : names_ok d = true -> json_ok (doc_json d) = true.
Proof.
  unfold names_ok. intros H. apply andb_true_iff in H as [Hf Hc].
  unfold doc_json. cbn [json_ok forallb fst snd].
  assert (Hl : forall l, forallb str_ok l = true ->
                         forallb json_ok (map (fun n => JObj [(s_name, JStr n)]) l) = true).
  { induction l as [|n l IH]; cbn; [reflexivity|]. intros H. apply andb_true_iff in H as [H1 H2].
    rewrite H1, (IH H2). reflexivity. }
  rewrite (Hl _ Hf), (Hl _ Hc). reflexivity.
Qed.

Theorem cli_ok_complete fuel wb dm out f d :
  compile fuel wb dm = Ok d ->
  fst (cli fuel wb dm out f) = 0%N /\
  fs_read (snd (cli fuel wb dm out f)) out = Some (serialize (doc_json d)) /\
  (forall p, p <> out -> fs_read (snd (cli fuel wb dm out f)) p = fs_read f p) /\
  (names_ok d = true -> parse_json (serialize (doc_json d)) = Some (doc_json d)).
Proof.
  intros H. unfold cli. rewrite cli_shape, H. cbn [fst snd]. repeat split.
  - apply fs_read_write_same.
  - intros p Hp. apply fs_read_write_other. exact Hp.
  - intros Hn. apply parse_serialize. apply doc_json_ok. exact Hn.
Qed.

(* the output path only ever holds what was there before, or a complete document *)
Theorem cli_output_old_or_complete fuel wb dm out f :
  fs_read (snd (cli fuel wb dm out f)) out = fs_read f out \/
  exists d, compile fuel wb dm = Ok d /\ fs_read (snd (cli fuel wb dm out f)) out = Some (serialize (doc_json d)).
Proof.
  destruct (compile fuel wb dm) as [d|c] eqn:H.
  - right. exists d. split; [reflexivity|]. apply (cli_ok_complete fuel wb dm out f d H).
  - left. rewrite (proj1 (cli_error_no_file fuel wb dm out f c H)). reflexivity.
Qed.

(* ================================================================ no content index *)
Lemma wb_get_erase wb name :
  wb_get (erase wb) name = option_map erase_sheet (wb_get wb name).
Proof.
  unfold erase. induction wb as [|[n s] rest IH]; cbn; [reflexivity|].
  destruct (str_eqb n name); [reflexivity|exact IH].
Qed.

Theorem detect_no_content_index fuel wb dm :
  wb_get wb s_content_index = None -> compile fuel wb dm = Err ENoIndex.
Proof.
  intros H. unfold compile, compile_core, index_phase. rewrite wb_get_erase, H. cbn.
  rewrite crit_eq by in_list. reflexivity.
Qed.

(* ================================================================ index rows *)
Lemma foldM_app {E S A} (f : A -> S -> result E A) l1 l2 a :
  foldM f (l1 ++ l2) a = match foldM f l1 a with Ok a' => foldM f l2 a' | Err e => Err e end.
Proof.
  revert a. induction l1 as [|x l1 IH]; intros a; cbn; [reflexivity|].
  destruct (f a x); [apply IH|reflexivity].
Qed.

(* prefix lemma for the rows of the top-level index: the rows before are processed, the faulty
   one stops *)
Theorem index_fault_fatal fuel wb dm pre r post st c :
  wb_get wb s_content_index = Some (SIndex (pre ++ r :: post)) ->
  process_index (S fuel) (erase wb) dm pre is0 = Ok st ->
  index_step (process_index fuel (erase wb) dm) (erase wb) dm st r = Err c ->
  compile (S fuel) wb dm = Err c.
Proof.
  intros Hix Hpre Hstep. unfold compile, compile_core, index_phase.
  rewrite wb_get_erase, Hix. cbn [option_map erase_sheet].
  cbn [process_index] in *. rewrite foldM_app, Hpre. cbn [foldM]. rewrite Hstep. reflexivity.
Qed.

Lemma sheet_or_die_missing wb name : wb_get wb name = None -> sheet_or_die wb name = Err ESheetNotFound.
Proof. intros H. unfold sheet_or_die. rewrite H. rewrite raise_eq by in_list. reflexivity. Qed.

(* a template_definition / create_campaign / create_triggers / content_index row naming a sheet
   that is not in the workbook *)
Lemma index_step_missing_sheet nested wb dm st r name :
  x_draft r = false -> x_sheets r = [name] ->
  (x_type r = ITemplateDef \/ x_type r = ICampaign \/ x_type r = ITriggers \/ x_type r = IContentIndex) ->
  wb_get wb name = None ->
  index_step nested wb dm st r = Err ESheetNotFound.
Proof.
  intros Hd Hs Ht Hw. unfold index_step. rewrite Hd, Hs. cbn [length Nat.eqb negb andb hd].
  destruct Ht as [Ht|[Ht|[Ht|Ht]]]; rewrite Ht.
  - unfold add_template. destruct (aget (is_templates st) name); cbn [bind]; rewrite sheet_or_die_missing by exact Hw; reflexivity.
  - cbn [bind]. rewrite sheet_or_die_missing by exact Hw. reflexivity.
  - cbn [bind]. rewrite sheet_or_die_missing by exact Hw. reflexivity.
  - cbn [bind]. rewrite sheet_or_die_missing by exact Hw. reflexivity.
Qed.

(* a data_sheet row naming a sheet that is neither registered nor in the workbook *)
Lemma index_step_missing_data_sheet nested wb st r name more :
  x_draft r = false -> x_type r = IDataSheet -> x_sheets r = name :: more -> x_op r = OpNone ->
  aget (is_data st) name = None -> wb_get wb name = None ->
  index_step nested wb None st r = Err ESheetNotFound.
Proof.
  intros Hd Ht Hs Ho Hreg Hw. unfold index_step. rewrite Hd, Ht, Hs. rewrite Bool.andb_false_r.
  unfold process_data_sheet. rewrite Ho, Hs. cbn [concat_sheets]. unfold get_data_sheet. rewrite Hreg.
  unfold new_data_sheet. cbn [bind]. rewrite sheet_or_die_missing by exact Hw. reflexivity.
Qed.

(* an operation the tool does not know *)
Lemma index_step_unknown_operation nested wb dm st r :
  x_draft r = false -> x_type r = IDataSheet -> x_sheets r <> [] -> x_op r = OpOther -> x_new r <> [] ->
  index_step nested wb dm st r = Err EUnknownOp.
Proof.
  intros Hd Ht Hs Ho Hn. unfold index_step. rewrite Hd, Ht. rewrite Bool.andb_false_r.
  destruct (x_sheets r) as [|a l] eqn:Es; [congruence|].
  unfold process_data_sheet. rewrite Ho. destruct (x_new r) as [|c n]; [congruence|].
  cbn [bind]. rewrite crit_eq by in_list. reflexivity.
Qed.

(* a data model the --datamodels module does not define *)
Lemma index_step_unknown_data_model nested wb defined st r name more :
  x_draft r = false -> x_type r = IDataSheet -> x_sheets r = name :: more ->
  (x_op r = OpNone \/ (x_op r = OpConcat /\ x_new r <> [])) ->
  aget (is_data st) name = None ->
  x_model r <> [] -> mem_str (x_model r) defined = false ->
  index_step nested wb (Some defined) st r = Err EDataModel.
Proof.
  intros Hd Ht Hs Ho Hreg Hm Hdef. unfold index_step. rewrite Hd, Ht, Hs. rewrite Bool.andb_false_r.
  unfold process_data_sheet.
  assert (Hc : concat_sheets wb (Some defined) st (name :: more) (x_model r) None [] = Err EDataModel).
  { cbn [concat_sheets]. unfold get_data_sheet. rewrite Hreg. unfold new_data_sheet.
    destruct (x_model r) as [|c m] eqn:Em; [congruence|]. rewrite Hdef. cbn [bind].
    rewrite crit_eq by in_list. reflexivity. }
  destruct Ho as [Ho|[Ho Hn]]; rewrite Ho.
  - rewrite Hs, Hc. reflexivity.
  - destruct (x_new r) as [|c n]; [congruence|]. rewrite Hs, Hc. reflexivity.
Qed.

(* ================================================================ flow definitions *)
(* prefix lemma for flow_definition_rows: the definitions before compile, the faulty one stops *)
Theorem flow_def_fault_fatal fuel wb dm st pre d post cs c :
  index_phase fuel (erase wb) dm = Ok st ->
  is_flows st = pre ++ d :: post ->
  foldM (flow_def_step cls (fun c => c) (visit_of wb) fuel st) pre (mkCS uu0 [] 0) = Ok cs ->
  flow_def_step cls (fun c => c) (visit_of wb) fuel st cs d = Err c ->
  compile fuel wb dm = Err c.
Proof.
  intros Hix Hfl Hpre Hstep. unfold compile, compile_core. rewrite Hix. cbn [lift bind].
  unfold flows_phase. rewrite Hfl, foldM_app, Hpre. cbn [foldM]. rewrite Hstep. reflexivity.
Qed.

(* data_sheet / data_row_id of a create_flow row that name nothing *)
Lemma flow_def_missing_data_row E inj visit fuel st cs d :
  fd_dsheet d <> [] -> fd_drow d <> [] ->
  (aget (is_data st) (fd_dsheet d) = None \/
   exists ds, aget (is_data st) (fd_dsheet d) = Some ds /\ aget (ds_rows ds) (fd_drow d) = None) ->
  flow_def_step E inj visit fuel st cs d = Err (inj EKeyData).
Proof.
  intros H1 H2 H. unfold flow_def_step.
  destruct (fd_dsheet d) as [|a ds0] eqn:E1; [congruence|]. destruct (fd_drow d) as [|b dr0] eqn:E2; [congruence|].
  unfold one_flow, liftE, flow_ctx. rewrite E1.
  destruct H as [H|[ds [H H']]]; rewrite H; cbn [bind]; [|rewrite H']; cbn [bind]; rewrite raise_eq by in_list; reflexivity.
Qed.

Lemma flow_def_missing_data_sheet E inj visit fuel st cs d :
  fd_dsheet d <> [] -> fd_drow d = [] -> aget (is_data st) (fd_dsheet d) = None ->
  flow_def_step E inj visit fuel st cs d = Err (inj EKeyData).
Proof.
  intros H1 H2 H. unfold flow_def_step. rewrite H2.
  destruct (fd_dsheet d) as [|a ds0] eqn:E1; [congruence|]. rewrite H. unfold liftE.
  rewrite raise_eq by in_list. reflexivity.
Qed.

(* template arguments *)
Lemma map_args_missing defs args c d more :
  defs = d :: more -> chas c (ad_name d) = false -> hd [] args = [] -> ad_default d = [] ->
  map_args defs args c = Err EArgMissing.
Proof.
  intros -> Hc Ha Hd. cbn [map_args]. rewrite Hc, Ha, Hd. rewrite crit_eq by in_list. reflexivity.
Qed.

Lemma map_args_double defs args c d more :
  defs = d :: more -> chas c (ad_name d) = true -> map_args defs args c = Err EArgDouble.
Proof.
  intros -> Hc. cbn [map_args]. rewrite Hc. rewrite crit_eq by in_list. reflexivity.
Qed.

(* a flow definition without data row whose template wants a first argument that is neither
   given nor has a default / that is already in the context *)
Lemma flow_def_arg_missing E inj visit fuel st cs d defs a more :
  fd_dsheet d = [] -> fd_drow d = [] ->
  aget (is_templates st) (fd_sheet d) = Some defs -> defs = a :: more ->
  hd [] (fd_targs d) = [] -> ad_default a = [] ->
  flow_def_step E inj visit fuel st cs d = Err (inj EArgMissing).
Proof.
  intros H1 H2 Ht Hd Ha Hdef. unfold flow_def_step. rewrite H1, H2.
  unfold one_flow, liftE, flow_ctx. rewrite H1. cbn [bind]. rewrite Ht.
  rewrite (map_args_missing defs (fd_targs d) [] a more Hd eq_refl Ha Hdef). reflexivity.
Qed.

(* two argument definitions with the same name: the second is doubly defined *)
Lemma chas_cset_same c k v : chas (cset c k v) k = true.
Proof.
  unfold chas. induction c as [|[k' w] r IH]; cbn.
  - rewrite str_eqb_refl. reflexivity.
  - destruct (str_eqb k' k) eqn:E; cbn; rewrite E; [reflexivity|exact IH].
Qed.

Lemma map_args_double_second a b more args c :
  chas c (ad_name a) = false ->
  (hd [] args <> [] \/ ad_default a <> []) ->
  ad_name b = ad_name a ->
  map_args (a :: b :: more) args c = Err EArgDouble.
Proof.
  intros Hc Hv Hn. cbn [map_args]. rewrite Hc.
  destruct (hd [] args) as [|ch t] eqn:Eh.
  - destruct Hv as [Hv|Hv]; [congruence|]. destruct (ad_default a) as [|ch v']; [congruence|].
    rewrite Hn, chas_cset_same. rewrite crit_eq by in_list. reflexivity.
  - rewrite Hn, chas_cset_same. rewrite crit_eq by in_list. reflexivity.
Qed.

Lemma flow_def_arg_double E inj visit fuel st cs d a b more :
  fd_dsheet d = [] -> fd_drow d = [] ->
  aget (is_templates st) (fd_sheet d) = Some (a :: b :: more) ->
  (hd [] (fd_targs d) <> [] \/ ad_default a <> []) ->
  ad_name b = ad_name a ->
  flow_def_step E inj visit fuel st cs d = Err (inj EArgDouble).
Proof.
  intros H1 H2 Ht Hv Hn. unfold flow_def_step. rewrite H1, H2.
  unfold one_flow, liftE, flow_ctx. rewrite H1. cbn [bind]. rewrite Ht.
  rewrite (map_args_double_second a b more (fd_targs d) [] eq_refl Hv Hn). reflexivity.
Qed.

(* ================================================================ trigger for an unknown flow *)
(* prefix lemma inside update_global_uuids: flows, campaigns, earlier trigger sheets and
   earlier rows of this sheet record without conflict, then a trigger names a flow the
   container does not know *)
Theorem trigger_fault_fatal fuel wb dm st cs uu uu1 uu2 tpre name rpre r rpost tpost uu3 uu4 :
  index_phase fuel (erase wb) dm = Ok st ->
  flows_phase cls (fun c => c) (visit_of wb) fuel st = Ok cs ->
  add_flows cs = Ok uu ->
  foldM (fun _ camp => campaign_ok (snd (snd camp))) (is_camps st) tt = Ok tt ->
  foldM (fun _ ts => triggers_ok (snd ts)) (is_trigs st) tt = Ok tt ->
  foldM (fun u nf => foldM record (snd (snd nf)) u) (cs_flows cs) uu = Ok uu1 ->
  foldM campaign_record (is_camps st) uu1 = Ok uu2 ->
  is_trigs st = tpre ++ (name, rpre ++ r :: rpost) :: tpost ->
  foldM (fun u ts => foldM trigger_record (snd ts) u) tpre uu2 = Ok uu3 ->
  foldM trigger_record rpre uu3 = Ok uu4 ->
  has_flow uu4 (tr_flow r) = false ->
  compile fuel wb dm = Err ETriggerFlow.
Proof.
  intros Hix Hfl Hadd Hc Ht H1 H2 Htr H3 H4 Hflow.
  unfold compile, compile_core. rewrite Hix. cbn [lift bind]. rewrite Hfl. cbn [bind].
  unfold finish. rewrite Hadd. cbn [bind]. rewrite Hc. cbn [bind]. rewrite Ht. cbn [bind].
  unfold render_uuids. rewrite H1. cbn [bind]. rewrite H2. cbn [bind].
  rewrite Htr, foldM_app, H3. cbn [foldM snd]. rewrite foldM_app, H4. cbn [foldM].
  unfold trigger_record at 1. rewrite Hflow. rewrite raise_eq by in_list. reflexivity.
Qed.

(* ================================================================ whole-command statements *)
Lemma wb_get_erase_none wb name : wb_get wb name = None -> wb_get (erase wb) name = None.
Proof. intros H. rewrite wb_get_erase, H. reflexivity. Qed.

(* missing sheet: an index row (template_definition, create_campaign, create_triggers,
   content_index) names a sheet the workbook does not have; the rows before it are fine *)
Theorem detect_missing_sheet_partial fuel wb dm pre r post st name :
  wb_get wb s_content_index = Some (SIndex (pre ++ r :: post)) ->
  process_index (S fuel) (erase wb) dm pre is0 = Ok st ->
  x_draft r = false -> x_sheets r = [name] ->
  (x_type r = ITemplateDef \/ x_type r = ICampaign \/ x_type r = ITriggers \/ x_type r = IContentIndex) ->
  wb_get wb name = None ->
  compile (S fuel) wb dm = Err ESheetNotFound.
Proof.
  intros Hix Hpre Hd Hs Ht Hw.
  apply (index_fault_fatal fuel wb dm pre r post st); try assumption.
  apply index_step_missing_sheet with (name := name); try assumption. apply wb_get_erase_none. exact Hw.
Qed.

Theorem detect_unknown_operation fuel wb dm pre r post st :
  wb_get wb s_content_index = Some (SIndex (pre ++ r :: post)) ->
  process_index (S fuel) (erase wb) dm pre is0 = Ok st ->
  x_draft r = false -> x_type r = IDataSheet -> x_sheets r <> [] -> x_op r = OpOther -> x_new r <> [] ->
  compile (S fuel) wb dm = Err EUnknownOp.
Proof.
  intros Hix Hpre Hd Ht Hs Ho Hn.
  apply (index_fault_fatal fuel wb dm pre r post st); try assumption.
  apply index_step_unknown_operation; assumption.
Qed.

Theorem detect_unknown_data_model_partial fuel wb defined pre r post st name more :
  wb_get wb s_content_index = Some (SIndex (pre ++ r :: post)) ->
  process_index (S fuel) (erase wb) (Some defined) pre is0 = Ok st ->
  x_draft r = false -> x_type r = IDataSheet -> x_sheets r = name :: more ->
  (x_op r = OpNone \/ (x_op r = OpConcat /\ x_new r <> [])) ->
  aget (is_data st) name = None ->
  x_model r <> [] -> mem_str (x_model r) defined = false ->
  compile (S fuel) wb (Some defined) = Err EDataModel.
Proof.
  intros Hix Hpre Hd Ht Hs Ho Hreg Hm Hdef.
  apply (index_fault_fatal fuel wb (Some defined) pre r post st); try assumption.
  apply index_step_unknown_data_model with (name := name) (more := more); assumption.
Qed.

(* missing data sheet / data row of a flow definition; the definitions before it compile *)
Theorem detect_missing_data_row_partial fuel wb dm st pre d post cs :
  index_phase fuel (erase wb) dm = Ok st ->
  is_flows st = pre ++ d :: post ->
  foldM (flow_def_step cls (fun c => c) (visit_of wb) fuel st) pre (mkCS uu0 [] 0) = Ok cs ->
  fd_dsheet d <> [] ->
  (aget (is_data st) (fd_dsheet d) = None \/
   (fd_drow d <> [] /\ exists ds, aget (is_data st) (fd_dsheet d) = Some ds /\ aget (ds_rows ds) (fd_drow d) = None)) ->
  compile fuel wb dm = Err EKeyData.
Proof.
  intros Hix Hfl Hpre Hds H.
  apply (flow_def_fault_fatal fuel wb dm st pre d post cs); try assumption.
  destruct (fd_drow d) as [|c dr] eqn:Edr.
  - destruct H as [H|[Hne _]]; [|congruence].
    apply (flow_def_missing_data_sheet cls (fun c => c)); assumption.
  - apply (flow_def_missing_data_row cls (fun c => c)); try assumption; [rewrite Edr; discriminate|].
    rewrite Edr. destruct H as [H|[_ H]]; [left; exact H|right; exact H].
Qed.

Theorem detect_template_argument_missing_partial fuel wb dm st pre d post cs defs a more :
  index_phase fuel (erase wb) dm = Ok st ->
  is_flows st = pre ++ d :: post ->
  foldM (flow_def_step cls (fun c => c) (visit_of wb) fuel st) pre (mkCS uu0 [] 0) = Ok cs ->
  fd_dsheet d = [] -> fd_drow d = [] ->
  aget (is_templates st) (fd_sheet d) = Some defs -> defs = a :: more ->
  hd [] (fd_targs d) = [] -> ad_default a = [] ->
  compile fuel wb dm = Err EArgMissing.
Proof.
  intros Hix Hfl Hpre H1 H2 Ht Hd Ha Hdef.
  apply (flow_def_fault_fatal fuel wb dm st pre d post cs); try assumption.
  apply (flow_def_arg_missing cls (fun c => c)) with (defs := defs) (a := a) (more := more); assumption.
Qed.

Theorem detect_template_argument_double_partial fuel wb dm st pre d post cs a b more :
  index_phase fuel (erase wb) dm = Ok st ->
  is_flows st = pre ++ d :: post ->
  foldM (flow_def_step cls (fun c => c) (visit_of wb) fuel st) pre (mkCS uu0 [] 0) = Ok cs ->
  fd_dsheet d = [] -> fd_drow d = [] ->
  aget (is_templates st) (fd_sheet d) = Some (a :: b :: more) ->
  (hd [] (fd_targs d) <> [] \/ ad_default a <> []) ->
  ad_name b = ad_name a ->
  compile fuel wb dm = Err EArgDouble.
Proof.
  intros Hix Hfl Hpre H1 H2 Ht Hv Hn.
  apply (flow_def_fault_fatal fuel wb dm st pre d post cs); try assumption.
  apply (flow_def_arg_double cls (fun c => c)) with (a := a) (b := b) (more := more); assumption.
Qed.

(* ================================================================ all together *)
(* every detection theorem of C15 ends in `compile fuel wb' dm = Err c`; with cli_error_no_file:
   the command exits with a non-zero status and the file system is what it was *)
Theorem detected_fault_stops_the_command fuel wb' dm c out f :
  compile fuel wb' dm = Err c ->
  fst (cli fuel wb' dm out f) <> 0%N /\ snd (cli fuel wb' dm out f) = f /\
  fs_read (snd (cli fuel wb' dm out f)) out = fs_read f out.
Proof.
  intros H. destruct (cli_error_no_file fuel wb' dm out f c H) as [H1 H2].
  repeat split; try assumption. rewrite H1. reflexivity.
Qed.

(* ================================================================ more sites *)
(* a create_flow row whose sheet does not exist: found after the whole index, in
   _populate_missing_templates; the flow definitions before it have their templates *)
Theorem detect_missing_flow_sheet fuel wb dm rows st fpre d fpost st' :
  wb_get wb s_content_index = Some (SIndex rows) ->
  process_index fuel (erase wb) dm rows is0 = Ok st ->
  is_flows st = fpre ++ d :: fpost ->
  foldM (fun s0 d0 => add_template (erase wb) s0 (fd_sheet d0) (fd_argdefs d0) false) fpre st = Ok st' ->
  aget (is_templates st') (fd_sheet d) = None ->
  wb_get wb (fd_sheet d) = None ->
  compile fuel wb dm = Err ESheetNotFound.
Proof.
  intros Hix Hrows Hfl Hpre Htm Hw. unfold compile, compile_core, index_phase.
  rewrite wb_get_erase, Hix. cbn [option_map erase_sheet]. rewrite Hrows. cbn [bind lift].
  unfold populate_templates. rewrite Hfl, foldM_app, Hpre. cbn [foldM].
  unfold add_template. rewrite Htm. cbn [bind].
  rewrite sheet_or_die_missing by (apply wb_get_erase_none; exact Hw). reflexivity.
Qed.

(* a template argument whose name is a column of the data row the flow is instantiated with *)
Lemma flow_def_arg_in_data_row E inj visit fuel st cs d ds c defs a more :
  fd_dsheet d <> [] -> fd_drow d <> [] ->
  aget (is_data st) (fd_dsheet d) = Some ds -> aget (ds_rows ds) (fd_drow d) = Some c ->
  aget (is_templates st) (fd_sheet d) = Some defs -> defs = a :: more ->
  chas c (ad_name a) = true ->
  flow_def_step E inj visit fuel st cs d = Err (inj EArgDouble).
Proof.
  intros H1 H2 Hds Hc Ht Hd Hin. unfold flow_def_step.
  destruct (fd_dsheet d) as [|x ds0] eqn:E1; [congruence|]. destruct (fd_drow d) as [|y dr0] eqn:E2; [congruence|].
  unfold one_flow, liftE, flow_ctx. rewrite E1, Hds. cbn [bind]. rewrite Hc. cbn [bind]. rewrite Ht.
  rewrite (map_args_double defs (fd_targs d) c a more Hd Hin). reflexivity.
Qed.

Theorem detect_template_argument_in_data_row fuel wb dm st pre d post cs ds c defs a more :
  index_phase fuel (erase wb) dm = Ok st ->
  is_flows st = pre ++ d :: post ->
  foldM (flow_def_step cls (fun c => c) (visit_of wb) fuel st) pre (mkCS uu0 [] 0) = Ok cs ->
  fd_dsheet d <> [] -> fd_drow d <> [] ->
  aget (is_data st) (fd_dsheet d) = Some ds -> aget (ds_rows ds) (fd_drow d) = Some c ->
  aget (is_templates st) (fd_sheet d) = Some defs -> defs = a :: more ->
  chas c (ad_name a) = true ->
  compile fuel wb dm = Err EArgDouble.
Proof.
  intros Hix Hfl Hpre H1 H2 Hds Hc Ht Hd Hin.
  apply (flow_def_fault_fatal fuel wb dm st pre d post cs); try assumption.
  apply (flow_def_arg_in_data_row cls (fun c => c)) with (ds := ds) (c := c) (defs := defs) (a := a) (more := more); assumption.
Qed.
