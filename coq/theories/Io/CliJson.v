(* E9 / C15 — the text `json.dump(value, fp, indent=4)` writes (CPython's json.encoder with
   the defaults the command uses: ensure_ascii=True, item separator "," + newline + indent,
   key separator ": "), and a JSON reader for it.  Strings are lists of code points.
   Floats travel as their text (JRaw) and are not produced by the compiler model.
   Definitions only; the round trip is proved in CliJsonFacts.v. *)
From Coq Require Import List NArith ZArith Bool.
From RPFT Require Import Base.Sexp Base.PyStr Base.Json.
Import ListNotations.
Local Open Scope N_scope.

(* ---------------------------------------------------------------- writer *)
Definition hex_digit (n : N) : char := if n <? 10 then 48 + n else 87 + n.     (* 0-9 a-f *)
Definition hex4 (n : N) : str :=
  [hex_digit (N.modulo (N.div n 4096) 16); hex_digit (N.modulo (N.div n 256) 16);
   hex_digit (N.modulo (N.div n 16) 16); hex_digit (N.modulo n 16)].
Definition u_escape (n : N) : str := 92 :: 117 :: hex4 n.                     (* \uXXXX *)

(* py_encode_basestring_ascii, one character *)
Definition esc_char (c : char) : str :=
  if c =? 34 then [92; 34]
  else if c =? 92 then [92; 92]
  else if c =? 10 then [92; 110]
  else if c =? 13 then [92; 114]
  else if c =? 9 then [92; 116]
  else if c =? 8 then [92; 98]
  else if c =? 12 then [92; 102]
  else if c <? 32 then u_escape c
  else if c <? 127 then [c]
  else if c <? 65536 then u_escape c
  else let n := c - 65536 in
       u_escape (55296 + N.div n 1024) ++ u_escape (56320 + N.modulo n 1024).

Definition esc_string (s : str) : str := 34 :: flat_map esc_char s ++ [34].

Fixpoint pos_digits (fuel : nat) (n : N) (acc : str) : str :=
  match fuel with
  | O => acc
  | S f => let d := N.modulo n 10 in
           let q := N.div n 10 in
           if q =? 0 then (48 + d) :: acc else pos_digits f q ((48 + d) :: acc)
  end.
(* enough fuel for any N: the number of binary digits *)
Definition dec_N (n : N) : str := pos_digits (S (N.to_nat (N.size n))) n [].
Definition dec_Z (z : Z) : str :=
  if Z.ltb z 0 then 45 :: dec_N (Z.to_N (Z.abs z)) else dec_N (Z.to_N z).

Fixpoint spaces (n : nat) : str := match n with O => [] | S k => 32 :: spaces k end.
Definition newline_indent (lvl : nat) : str := 10 :: spaces (4 * lvl).

Definition s_null : str := [110;117;108;108].
Definition s_true : str := [116;114;117;101].
Definition s_false_ : str := [102;97;108;115;101].

(* items joined by "," newline indent *)
Fixpoint join_items (lvl : nat) (items : list str) : str :=
  match items with
  | [] => []
  | [x] => x
  | x :: r => x ++ 44 :: newline_indent lvl ++ join_items lvl r
  end.

Fixpoint serialize_at (lvl : nat) (j : json) : str :=
  match j with
  | JNull => s_null
  | JBool true => s_true
  | JBool false => s_false_
  | JInt z => dec_Z z
  | JRaw r => r
  | JStr s => esc_string s
  | JArr [] => [91; 93]
  | JArr l => 91 :: newline_indent (S lvl) ++ join_items (S lvl) (map (serialize_at (S lvl)) l)
                 ++ newline_indent lvl ++ [93]
  | JObj [] => [123; 125]
  | JObj m => 123 :: newline_indent (S lvl)
                  ++ join_items (S lvl) (map (fun kv => esc_string (fst kv) ++ 58 :: 32 :: serialize_at (S lvl) (snd kv)) m)
                  ++ newline_indent lvl ++ [125]
  end.

Definition serialize (j : json) : str := serialize_at 0 j.

(* ---------------------------------------------------------------- reader *)
Definition is_space (c : char) : bool := (c =? 32) || (c =? 10) || (c =? 13) || (c =? 9).
Fixpoint skip_ws (s : str) : str :=
  match s with
  | c :: r => if is_space c then skip_ws r else s
  | [] => []
  end.

Definition is_digit (c : char) : bool := (48 <=? c) && (c <=? 57).

Definition hex_val (c : char) : option N :=
  if (48 <=? c) && (c <=? 57) then Some (c - 48)
  else if (97 <=? c) && (c <=? 102) then Some (c - 87)
  else if (65 <=? c) && (c <=? 70) then Some (c - 55)
  else None.
Definition hex4_val (a b c d : char) : option N :=
  match hex_val a, hex_val b, hex_val c, hex_val d with
  | Some x, Some y, Some z, Some w => Some (x * 4096 + y * 256 + z * 16 + w)
  | _, _, _, _ => None
  end.

(* the characters after the opening quote, up to and including the closing quote *)
Fixpoint parse_string_body (s : str) : option (str * str) :=
  match s with
  | [] => None
  | c :: r =>
    if c =? 34 then Some ([], r)
    else if c =? 92 then
      match r with
      | [] => None
      | e :: r1 =>
        if e =? 117 then
          match r1 with
          | a :: b :: c2 :: d :: r2 =>
            match hex4_val a b c2 d with
            | None => None
            | Some hi =>
              if (55296 <=? hi) && (hi <=? 56319) then
                (* a high surrogate: combine with a following \uDC00-\uDFFF *)
                match r2 with
                | 92 :: 117 :: a' :: b' :: c' :: d' :: r3 =>
                  match hex4_val a' b' c' d' with
                  | Some lo =>
                    if (56320 <=? lo) && (lo <=? 57343) then
                      match parse_string_body r3 with
                      | Some (t, rest) => Some ((65536 + (hi - 55296) * 1024 + (lo - 56320)) :: t, rest)
                      | None => None
                      end
                    else match parse_string_body r2 with
                         | Some (t, rest) => Some (hi :: t, rest)
                         | None => None
                         end
                  | None => None
                  end
                | _ => match parse_string_body r2 with
                       | Some (t, rest) => Some (hi :: t, rest)
                       | None => None
                       end
                end
              else match parse_string_body r2 with
                   | Some (t, rest) => Some (hi :: t, rest)
                   | None => None
                   end
            end
          | _ => None
          end
        else
          let simple := if e =? 34 then Some 34 else if e =? 92 then Some 92 else if e =? 47 then Some 47
                        else if e =? 98 then Some 8 else if e =? 102 then Some 12 else if e =? 110 then Some 10
                        else if e =? 114 then Some 13 else if e =? 116 then Some 9 else None in
          match simple with
          | None => None
          | Some x => match parse_string_body r1 with
                      | Some (t, rest) => Some (x :: t, rest)
                      | None => None
                      end
          end
      end
    else if c <? 32 then None
    else match parse_string_body r with
         | Some (t, rest) => Some (c :: t, rest)
         | None => None
         end
  end.

(* maximal run of digits *)
Fixpoint take_digits (s : str) : str * str :=
  match s with
  | c :: r => if is_digit c then let (d, rest) := take_digits r in (c :: d, rest) else ([], s)
  | [] => ([], [])
  end.
Definition digits_val (d : str) : N := fold_left (fun acc c => acc * 10 + (c - 48)) d 0.

Definition is_num_char (c : char) : bool :=
  is_digit c || (c =? 46) || (c =? 101) || (c =? 69) || (c =? 43) || (c =? 45).
Fixpoint take_num (s : str) : str * str :=
  match s with
  | c :: r => if is_num_char c then let (d, rest) := take_num r in (c :: d, rest) else ([], s)
  | [] => ([], [])
  end.

(* a number starting at s (first character a digit or '-') *)
Definition parse_number (s : str) : option (json * str) :=
  let (neg, body) := match s with 45 :: r => (true, r) | _ => (false, s) end in
  let (d, rest) := take_digits body in
  match d with
  | [] => None
  | _ =>
    match rest with
    | c :: _ => if (c =? 46) || (c =? 101) || (c =? 69) then
                  let (t, rest') := take_num s in Some (JRaw t, rest')
                else Some (JInt (if neg then Z.opp (Z.of_N (digits_val d)) else Z.of_N (digits_val d)), rest)
    | [] => Some (JInt (if neg then Z.opp (Z.of_N (digits_val d)) else Z.of_N (digits_val d)), rest)
    end
  end.

(* elements after '[' (at least one), up to and including ']' *)
Fixpoint parse_elems (pv : str -> option (json * str)) (n : nat) (s : str) : option (list json * str) :=
  match n with
  | O => None
  | S k =>
    match pv s with
    | None => None
    | Some (v, r) =>
      match skip_ws r with
      | c :: r' =>
        if c =? 44 then
          match parse_elems pv k r' with
          | Some (vs, r'') => Some (v :: vs, r'')
          | None => None
          end
        else if c =? 93 then Some ([v], r')
        else None
      | [] => None
      end
    end
  end.

(* members after '{' (at least one), up to and including '}' *)
Fixpoint parse_members (pv : str -> option (json * str)) (n : nat) (s : str) : option (list (str * json) * str) :=
  match n with
  | O => None
  | S k =>
    match skip_ws s with
    | q :: r0 =>
      if q =? 34 then
        match parse_string_body r0 with
        | None => None
        | Some (key, r1) =>
          match skip_ws r1 with
          | c :: r2 =>
            if c =? 58 then
              match pv r2 with
              | None => None
              | Some (v, r3) =>
                match skip_ws r3 with
                | c' :: r4 =>
                  if c' =? 44 then
                    match parse_members pv k r4 with
                    | Some (ms, r5) => Some ((key, v) :: ms, r5)
                    | None => None
                    end
                  else if c' =? 125 then Some ([(key, v)], r4)
                  else None
                | [] => None
                end
              end
            else None
          | [] => None
          end
        end
      else None
    | [] => None
    end
  end.

Fixpoint parse_value (fuel : nat) (s : str) : option (json * str) :=
  match fuel with
  | O => None
  | S f =>
    match skip_ws s with
    | [] => None
    | c :: r =>
      if c =? 34 then
        match parse_string_body r with Some (t, rest) => Some (JStr t, rest) | None => None end
      else if c =? 91 then
        match skip_ws r with
        | c' :: r' => if c' =? 93 then Some (JArr [], r')
                      else match parse_elems (parse_value f) f r with
                           | Some (vs, rest) => Some (JArr vs, rest)
                           | None => None
                           end
        | [] => None
        end
      else if c =? 123 then
        match skip_ws r with
        | c' :: r' => if c' =? 125 then Some (JObj [], r')
                      else match parse_members (parse_value f) f r with
                           | Some (ms, rest) => Some (JObj ms, rest)
                           | None => None
                           end
        | [] => None
        end
      else if starts_with s_null (c :: r) then Some (JNull, skipn 4 (c :: r))
      else if starts_with s_true (c :: r) then Some (JBool true, skipn 4 (c :: r))
      else if starts_with s_false_ (c :: r) then Some (JBool false, skipn 5 (c :: r))
      else if is_digit c || (c =? 45) then parse_number (c :: r)
      else None
    end
  end.

(* a complete document: one value, then only white space *)
Definition parse_json (s : str) : option json :=
  match parse_value (S (length s)) s with
  | Some (v, rest) => match skip_ws rest with [] => Some v | _ => None end
  | None => None
  end.
