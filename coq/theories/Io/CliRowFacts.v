(* C15 — detection lemmas for faults of flow rows, lifted to the whole command by the prefix
   lemma of CliSimFacts.v.

   Shape of every theorem: wb compiles (`compile fuel wb dm = Ok d`); the row at (sheet t0,
   position p) is EVALUATED (`evaluated_at`: the trapped run stops there, in state s, inside a
   block of type bt — this excludes rows under a false include_if, inside omitted blocks, in
   sheets no flow uses); then the workbook with the fault injected at that row stops with the
   class of the fault.  The state s is the one the row is FIRST reached in: in a loop the
   first iteration, with several flows on one template the first flow. *)
From Coq Require Import List NArith Bool Arith Lia.
From RPFT Require Import Base.Sexp Base.PyStr Base.PyStrFacts Base.Result Gen.Tables
  Io.CliFlow Io.CliIndex Io.CliSimFacts.
Import ListNotations.

(* ---------------------------------------------------------------- the tables say: every site stops *)
Definition logged_sites : list cls :=
  [ENoIndex; ESheetNames; EOpNoName; EUnknownOp; EDataModel; EConcatModels; ERowIdNoSheet; EInsertArgs;
   EArgDouble; EArgMissing; EUnterminated; EWrongTerminator; ENoLoopVar; EEdgeUnknownRow; EGotoArity;
   ENoOpEntry; EEmptyText; EValueTooLong; EFieldKey; ECatName; EHeaders; EBlockCond; EBlockNoLoose;
   ECondNoVar; EDefaultExit; ETriggerRow; ECampaignRow].
Definition raising_sites : list cls :=
  [ESheetNotFound; EKeyData; ETemplateKey; EGotoDest; EIndexErr; EEmptyText; EValueTooLong; EFieldKey;
   ECatName; EHeaders; EValueErr; EDefaultExit; EBadTest; EUuidConflict; ETriggerFlow; ETriggerRow; ECampaignRow].

(* regenerated tables: every LOGGER site of the listed classes logs at a level that terminates the
   command, every exception site still raises *)
Lemma sites_stop : forallb site_stops logged_sites = true.
Proof. vm_compute. reflexivity. Qed.
Lemma sites_raise : forallb site_raises raising_sites = true.
Proof. vm_compute. reflexivity. Qed.

Lemma crit_eq {T} c : In c logged_sites -> @crit T c = Err c.
Proof.
  intros Hin. unfold crit. pose proof sites_stop as H. rewrite forallb_forall in H. rewrite (H c Hin). reflexivity.
Qed.
Lemma raise_eq {T} c : In c raising_sites -> @raise T c = Err c.
Proof.
  intros Hin. unfold raise. pose proof sites_raise as H. rewrite forallb_forall in H. rewrite (H c Hin). reflexivity.
Qed.
Lemma raise_logged_eq {T} c : In c raising_sites -> In c logged_sites -> @raise_logged T c = Err c.
Proof.
  intros H1 H2. unfold raise_logged.
  pose proof sites_stop as Hs. rewrite forallb_forall in Hs. rewrite (Hs c H2).
  pose proof sites_raise as Hr. rewrite forallb_forall in Hr. rewrite (Hr c H1). reflexivity.
Qed.

Arguments crit : simpl never.
Arguments raise : simpl never.
Arguments raise_logged : simpl never.

Ltac in_list := cbn; repeat (first [left; reflexivity | right]).

(* ---------------------------------------------------------------- replacing one row *)
Fixpoint set_row (wb : workbook) (t0 : str) (p : nat) (r' : frow) : workbook :=
  match wb with
  | [] => []
  | (n, s) :: rest =>
    if str_eqb n t0
    then (n, match s with SFlow rows => SFlow (set_nth rows p r') | _ => s end) :: rest
    else (n, s) :: set_row rest t0 p r'
  end.

Lemma erase_set_row wb t0 p r' : erase (set_row wb t0 p r') = erase wb.
Proof.
  unfold erase. induction wb as [|[n s] rest IH]; cbn; [reflexivity|].
  destruct (str_eqb n t0); cbn.
  - destruct s; reflexivity.
  - f_equal. exact IH.
Qed.

Lemma rows_of_set_row_same wb t0 p r' : rows_of (set_row wb t0 p r') t0 = set_nth (rows_of wb t0) p r'.
Proof.
  unfold rows_of. induction wb as [|[n s] rest IH]; cbn.
  - destruct p; reflexivity.
  - destruct (str_eqb n t0) eqn:E; cbn; rewrite E.
    + destruct s; try reflexivity; destruct p; reflexivity.
    + exact IH.
Qed.

Lemma rows_of_set_row_other wb t0 p r' t : str_eqb t t0 = false -> rows_of (set_row wb t0 p r') t = rows_of wb t.
Proof.
  intros Hne. unfold rows_of. induction wb as [|[n s] rest IH]; cbn; [reflexivity|].
  destruct (str_eqb n t0) eqn:E; cbn.
  - apply str_eqb_eq in E. subst n.
    assert (Ht : str_eqb t0 t = false).
    { destruct (str_eqb t0 t) eqn:E2; [|reflexivity]. apply str_eqb_eq in E2. subst t. rewrite str_eqb_refl in Hne. discriminate. }
    rewrite Ht. reflexivity.
  - destruct (str_eqb n t); [reflexivity|exact IH].
Qed.

Lemma nth_error_set_nth_same {T} (l : list T) p v x : nth_error l p = Some x -> nth_error (set_nth l p v) p = Some v.
Proof.
  revert p. induction l as [|a l IH]; intros [|p]; cbn; try discriminate; intros H; [reflexivity|apply IH; exact H].
Qed.

Lemma nth_error_set_nth_other {T} (l : list T) p q v : q <> p -> nth_error (set_nth l p v) q = nth_error l q.
Proof.
  revert p q. induction l as [|a l IH]; intros [|p] [|q] Hne; cbn; try reflexivity; try congruence.
  apply IH. congruence.
Qed.

(* ---------------------------------------------------------------- padding edges dropped at read
   FlowParser._parse_next_row; every fact below holds for BOTH values of the regenerated probe
   [padding_edges_dropped_at_read] (the proofs destruct the constant, they never compute it). *)
Definition nontrivial (e : iedge) : bool := negb (is_trivial_iedge e).

(* what the tree at hand does, as a case distinction that does not depend on the probe's value *)
Lemma drop_padding_cases es :
  drop_padding_edges es = es \/
  drop_padding_edges es = match es with [] => [] | e :: more => e :: filter nontrivial more end.
Proof. unfold drop_padding_edges. destruct padding_edges_dropped_at_read; [right|left]; reflexivity. Qed.

(* the tree before the repair: rows are read as written *)
Lemma drop_padding_off es : padding_edges_dropped_at_read = false -> drop_padding_edges es = es.
Proof. intros H. unfold drop_padding_edges. rewrite H. reflexivity. Qed.
Lemma drop_padding_on e more :
  padding_edges_dropped_at_read = true -> drop_padding_edges (e :: more) = e :: filter nontrivial more.
Proof. intros H. unfold drop_padding_edges. rewrite H. reflexivity. Qed.

Lemma drop_padding_nil : drop_padding_edges [] = [].
Proof. unfold drop_padding_edges. destruct padding_edges_dropped_at_read; reflexivity. Qed.

(* the first edge is kept, whatever it is *)
Lemma drop_padding_cons e more : exists more', drop_padding_edges (e :: more) = e :: more' /\ List.incl more' more.
Proof.
  unfold drop_padding_edges. destruct padding_edges_dropped_at_read.
  - exists (filter nontrivial more). split; [reflexivity|]. intros x Hx. apply filter_In in Hx. tauto.
  - exists more. split; [reflexivity|]. apply incl_refl.
Qed.
Lemma drop_padding_hd es : hd_error (drop_padding_edges es) = hd_error es.
Proof.
  destruct es as [|e more]; [rewrite drop_padding_nil; reflexivity|].
  destruct (drop_padding_cons e more) as (more' & -> & _). reflexivity.
Qed.
Lemma drop_padding_nonempty es : es <> [] -> drop_padding_edges es <> [].
Proof.
  destruct es as [|e more]; [congruence|]. intros _.
  destruct (drop_padding_cons e more) as (more' & -> & _). discriminate.
Qed.

Lemma filter_all {T} (f : T -> bool) l : forallb f l = true -> filter f l = l.
Proof.
  induction l as [|a l IH]; cbn; [reflexivity|]. intros H. apply andb_true_iff in H as [Ha Hl].
  rewrite Ha, IH by exact Hl. reflexivity.
Qed.

(* a row without padding is read as written *)
Lemma drop_padding_id es : forallb nontrivial (tl es) = true -> drop_padding_edges es = es.
Proof.
  intros H. destruct (drop_padding_cases es) as [E|E]; rewrite E; [reflexivity|].
  destruct es as [|e more]; [reflexivity|]. cbn [tl] in H. rewrite filter_all by exact H. reflexivity.
Qed.

(* every non-trivial edge is kept, in order *)
Lemma drop_padding_filter es : filter nontrivial (drop_padding_edges es) = filter nontrivial es.
Proof.
  destruct (drop_padding_cases es) as [E|E]; rewrite E; [reflexivity|].
  destruct es as [|e more]; [reflexivity|]. cbn [filter].
  assert (Hf : filter nontrivial (filter nontrivial more) = filter nontrivial more).
  { apply filter_all. apply forallb_forall. intros x Hx. apply filter_In in Hx. tauto. }
  rewrite Hf. reflexivity.
Qed.
Lemma drop_padding_keeps es e : In e es -> nontrivial e = true -> In e (drop_padding_edges es).
Proof.
  intros Hin Hn.
  assert (H : In e (filter nontrivial (drop_padding_edges es))).
  { rewrite drop_padding_filter. apply filter_In. split; assumption. }
  apply filter_In in H. tauto.
Qed.
(* nothing is invented *)
Lemma drop_padding_incl es : List.incl (drop_padding_edges es) es.
Proof.
  destruct (drop_padding_cases es) as [E|E]; rewrite E; [apply incl_refl|].
  destruct es as [|e more]; [apply incl_refl|].
  intros x [Hx|Hx]; [left; exact Hx|right]. apply filter_In in Hx. tauto.
Qed.

Lemma filter_length_le {T} (f : T -> bool) l : length (filter f l) <= length l.
Proof. induction l as [|a l IH]; cbn; [lia|]. destruct (f a); cbn; lia. Qed.

(* the number of edges can only shrink, and not below the number of non-trivial edges
   (nor below 1 for a row that has an edge) *)
Lemma drop_padding_length_le es : length (drop_padding_edges es) <= length es.
Proof.
  destruct (drop_padding_cases es) as [E|E]; rewrite E; [lia|].
  destruct es as [|e more]; cbn [length]; [lia|]. pose proof (filter_length_le nontrivial more). lia.
Qed.
Lemma drop_padding_length_ge es : length (filter nontrivial es) <= length (drop_padding_edges es).
Proof. rewrite <- drop_padding_filter. apply filter_length_le. Qed.

(* dropping twice is dropping once: the rows that create a node skip trivial edges again in
   _parse_row on the tree before the repair, and the model's step_row always does *)
Lemma drop_padding_idem es : drop_padding_edges (drop_padding_edges es) = drop_padding_edges es.
Proof.
  unfold drop_padding_edges. destruct padding_edges_dropped_at_read; [|reflexivity].
  destruct es as [|e more]; [reflexivity|]. f_equal.
  apply filter_all. apply forallb_forall. intros x Hx. apply filter_In in Hx. tauto.
Qed.

(* an injected fault in the first edge survives the read *)
Lemma drop_padding_first e more :
  exists more', drop_padding_edges (e :: more) = e :: more'.
Proof. destruct (drop_padding_cons e more) as (more' & H & _). exists more'. exact H. Qed.

(* the facts above in one statement (props/C15.v) *)
Lemma padding_read_facts es :
  hd_error (drop_padding_edges es) = hd_error es /\
  filter nontrivial (drop_padding_edges es) = filter nontrivial es /\
  List.incl (drop_padding_edges es) es /\
  length (filter nontrivial es) <= length (drop_padding_edges es) <= length es /\
  (forallb nontrivial (tl es) = true -> drop_padding_edges es = es) /\
  (padding_edges_dropped_at_read = false -> drop_padding_edges es = es) /\
  drop_padding_edges (drop_padding_edges es) = drop_padding_edges es.
Proof.
  split; [apply drop_padding_hd|]. split; [apply drop_padding_filter|]. split; [apply drop_padding_incl|].
  split; [split; [apply drop_padding_length_ge|apply drop_padding_length_le]|].
  split; [apply drop_padding_id|]. split; [apply drop_padding_off|apply drop_padding_idem].
Qed.

(* ---------------------------------------------------------------- reading a row *)
Lemma instantiate_unfold c r :
  instantiate c r =
  match eval_inc c (r_inc r) with
  | Err e => Err e
  | Ok false => Ok None
  | Ok true =>
    match render c (r_id r) with
    | Err e => Err e
    | Ok id =>
      match mapM (render_edge c) (r_edges r) with
      | Err e => Err e
      | Ok es =>
        match render c (r_main r) with
        | Err e => Err e
        | Ok m =>
          match mapM (render c) (r_list r) with
          | Err e => Err e
          | Ok l => Ok (Some (mkI (r_type r) id (drop_padding_edges es) true m l (r_vars r) (r_save r) (r_objid r) (r_noresp r)
                                  (r_url r) (r_headers r) (r_dsheet r) (r_drow r) (r_targs r)))
          end
        end
      end
    end
  end.
Proof.
  unfold instantiate, bind.
  destruct (eval_inc c (r_inc r)) as [[|]|e]; cbn; try reflexivity.
Qed.

Lemma visit_row_quiet bt o s r r' :
  r_type r' = r_type r -> r_inc r' = r_inc r ->
  sel_eval o s (Some r) = false ->
  visit_row bt o s (Some r') = visit_row bt o s (Some r).
Proof.
  intros Ht Hi Hsel. unfold visit_row. destruct o; cbn in *.
  - rewrite Ht. reflexivity.
  - rewrite !instantiate_unfold, Hi.
    destruct (eval_inc (f_ctx s) (r_inc r)) as [[|]|e]; try discriminate; rewrite ?Ht; reflexivity.
Qed.

(* the row is evaluated: the trapped run stops at it, in state s, in a block of type bt *)
Definition evaluated_at (fuel : nat) (wb : workbook) (dm : option (list str)) (t0 : str) (p : nat)
           (s : fstate) (bt : btype) : Prop :=
  compile_trap fuel wb dm t0 p false sel_eval = Err (TTrap t0 p s bt false).

Lemma in_region_point t0 p t q : in_region t0 p false t q = true -> t = t0 /\ q = p.
Proof.
  unfold in_region. intros H. apply andb_true_iff in H as [H1 H2].
  apply str_eqb_eq in H1. apply Nat.eqb_eq in H2. split; assumption.
Qed.

(* any stop of the evaluation trap is an evaluation of that row *)
Lemma trap_eval_shape fuel wb dm t0 p t1 q1 s1 bt1 o1 :
  compile_trap fuel wb dm t0 p false sel_eval = Err (TTrap t1 q1 s1 bt1 o1) ->
  t1 = t0 /\ q1 = p /\ o1 = false /\
  exists r, nth_error (rows_of wb t0) p = Some r /\ eval_inc (f_ctx s1) (r_inc r) = Ok true.
Proof.
  intros H. apply trap_fires in H as [Hreg Hsel].
  apply in_region_point in Hreg as [-> ->].
  unfold sel_eval in Hsel. apply andb_true_iff in Hsel as [Ho Hr].
  destruct o1; [discriminate|].
  repeat split.
  destruct (nth_error (rows_of wb t0) p) as [r|]; [|discriminate].
  exists r. split; [reflexivity|].
  destruct (eval_inc (f_ctx s1) (r_inc r)) as [[|]|]; try discriminate. reflexivity.
Qed.

(* ---------------------------------------------------------------- the general row theorem *)
Theorem row_fault_fatal fuel wb dm t0 p r r' s bt c :
  nth_error (rows_of wb t0) p = Some r ->
  r_type r' = r_type r -> r_inc r' = r_inc r ->
  evaluated_at fuel wb dm t0 p s bt ->
  visit_row bt false s (Some r') = Err c ->
  compile fuel (set_row wb t0 p r') dm = Err c.
Proof.
  intros Hr Ht Hi Hev Hvis.
  apply (fault_fatal fuel wb (set_row wb t0 p r') dm t0 p false sel_eval) with (t1 := t0) (q1 := p) (s1 := s) (bt1 := bt) (o1 := false).
  - apply erase_set_row.
  - intros t q Hreg. unfold in_region in Hreg.
    destruct (str_eqb t t0) eqn:E; cbn in Hreg.
    + apply str_eqb_eq in E. subst t. rewrite rows_of_set_row_same.
      apply nth_error_set_nth_other. intros ->. rewrite Nat.eqb_refl in Hreg. discriminate.
    + rewrite rows_of_set_row_other by exact E. reflexivity.
  - intros t q bt' o s' Hreg Hsel. apply in_region_point in Hreg as [-> ->].
    unfold visit_of. rewrite rows_of_set_row_same, (nth_error_set_nth_same _ _ _ _ Hr).
    rewrite Hr in *. apply visit_row_quiet; assumption.
  - exact Hev.
  - unfold visit_of. rewrite rows_of_set_row_same, (nth_error_set_nth_same _ _ _ _ Hr). exact Hvis.
Qed.

(* in a workbook that compiles, the evaluated row instantiates and its visit succeeds *)
Lemma evaluated_ok fuel wb dm d t0 p r s bt :
  compile fuel wb dm = Ok d ->
  nth_error (rows_of wb t0) p = Some r ->
  evaluated_at fuel wb dm t0 p s bt ->
  eval_inc (f_ctx s) (r_inc r) = Ok true /\
  exists i st, instantiate (f_ctx s) r = Ok (Some i) /\ visit_row bt false s (Some r) = Ok st.
Proof.
  intros Hok Hr Hev.
  destruct (trap_eval_shape _ _ _ _ _ _ _ _ _ _ Hev) as (_ & _ & _ & r0 & Hr0 & Hinc).
  rewrite Hr in Hr0. injection Hr0 as <-.
  split; [exact Hinc|].
  destruct (valid_visit_ok _ _ _ _ _ _ _ _ _ _ _ _ _ Hok Hev) as [st Hst].
  unfold visit_of in Hst. rewrite Hr in Hst.
  pose proof Hst as Hst'. unfold visit_row in Hst'.
  rewrite instantiate_unfold, Hinc in Hst'.
  destruct (instantiate (f_ctx s) r) as [[i|]|e] eqn:Hi.
  - exists i, st. split; [reflexivity|exact Hst].
  - rewrite instantiate_unfold, Hinc in Hi.
    destruct (render (f_ctx s) (r_id r)); [|discriminate].
    destruct (mapM (render_edge (f_ctx s)) (r_edges r)); [|discriminate].
    destruct (render (f_ctx s) (r_main r)); [|discriminate].
    destruct (mapM (render (f_ctx s)) (r_list r)); discriminate.
  - rewrite instantiate_unfold, Hinc in Hi.
    destruct (render (f_ctx s) (r_id r)); [|discriminate].
    destruct (mapM (render_edge (f_ctx s)) (r_edges r)); [|discriminate].
    destruct (render (f_ctx s) (r_main r)); [|discriminate].
    destruct (mapM (render (f_ctx s)) (r_list r)); discriminate.
Qed.

(* ---------------------------------------------------------------- field updates *)
Definition set_main (r : frow) (m : tstr) : frow :=
  mkRow (r_type r) (r_id r) (r_edges r) (r_inc r) m (r_list r) (r_vars r) (r_save r) (r_objid r) (r_noresp r)
        (r_url r) (r_headers r) (r_dsheet r) (r_drow r) (r_targs r).
Definition set_list (r : frow) (l : list tstr) : frow :=
  mkRow (r_type r) (r_id r) (r_edges r) (r_inc r) (r_main r) l (r_vars r) (r_save r) (r_objid r) (r_noresp r)
        (r_url r) (r_headers r) (r_dsheet r) (r_drow r) (r_targs r).
Definition set_vars (r : frow) (v : list str) : frow :=
  mkRow (r_type r) (r_id r) (r_edges r) (r_inc r) (r_main r) (r_list r) v (r_save r) (r_objid r) (r_noresp r)
        (r_url r) (r_headers r) (r_dsheet r) (r_drow r) (r_targs r).
Definition set_headers (r : frow) (h : list hitem) : frow :=
  mkRow (r_type r) (r_id r) (r_edges r) (r_inc r) (r_main r) (r_list r) (r_vars r) (r_save r) (r_objid r) (r_noresp r)
        (r_url r) h (r_dsheet r) (r_drow r) (r_targs r).
Definition set_objid (r : frow) (u : str) : frow :=
  mkRow (r_type r) (r_id r) (r_edges r) (r_inc r) (r_main r) (r_list r) (r_vars r) (r_save r) u (r_noresp r)
        (r_url r) (r_headers r) (r_dsheet r) (r_drow r) (r_targs r).
Definition set_edges (r : frow) (es : list edge) : frow :=
  mkRow (r_type r) (r_id r) es (r_inc r) (r_main r) (r_list r) (r_vars r) (r_save r) (r_objid r) (r_noresp r)
        (r_url r) (r_headers r) (r_dsheet r) (r_drow r) (r_targs r).
Definition set_type (r : frow) (t : rtype) : frow :=
  mkRow t (r_id r) (r_edges r) (r_inc r) (r_main r) (r_list r) (r_vars r) (r_save r) (r_objid r) (r_noresp r)
        (r_url r) (r_headers r) (r_dsheet r) (r_drow r) (r_targs r).

(* a literal cell renders to itself, stripped *)
Lemma render_lit c s : render c [Lit s] = Ok (strip s).
Proof. unfold render. cbn. rewrite app_nil_r. reflexivity. Qed.
Lemma render_nil c : render c [] = Ok [].
Proof. reflexivity. Qed.

Lemma mapM_render_lits c (l : list str) : mapM (render c) (map (fun s => [Lit s]) l) = Ok (map strip l).
Proof.
  induction l as [|s l IH]; cbn [map mapM]; [reflexivity|].
  rewrite render_lit, IH. reflexivity.
Qed.

(* destructing a successful instantiation *)
Lemma instantiate_some c r i :
  instantiate c r = Ok (Some i) ->
  eval_inc c (r_inc r) = Ok true /\
  exists id es m l,
    render c (r_id r) = Ok id /\ mapM (render_edge c) (r_edges r) = Ok es /\
    render c (r_main r) = Ok m /\ mapM (render c) (r_list r) = Ok l /\
    i = mkI (r_type r) id (drop_padding_edges es) true m l (r_vars r) (r_save r) (r_objid r) (r_noresp r)
            (r_url r) (r_headers r) (r_dsheet r) (r_drow r) (r_targs r).
Proof.
  rewrite instantiate_unfold.
  destruct (eval_inc c (r_inc r)) as [[|]|]; try discriminate.
  destruct (render c (r_id r)) as [id|]; [|discriminate].
  destruct (mapM (render_edge c) (r_edges r)) as [es|]; [|discriminate].
  destruct (render c (r_main r)) as [m|]; [|discriminate].
  destruct (mapM (render c) (r_list r)) as [l|]; [|discriminate].
  intros H. injection H as <-. split; [reflexivity|]. exists id, es, m, l. repeat split; reflexivity.
Qed.

(* ================================================================ the fault classes *)

(* ---- empty message text *)
Lemma step_row_empty_text s i : i_type i = TSend -> i_inc i = true -> i_main i = [] -> step_row s i = Err EEmptyText.
Proof.
  intros Ht Hi Hm. unfold step_row. rewrite Hi, Ht. cbn.
  unfold row_action. rewrite Ht, Hm. rewrite raise_logged_eq by in_list. reflexivity.
Qed.

Theorem detect_empty_text fuel wb dm d t0 p r s bt :
  compile fuel wb dm = Ok d ->
  nth_error (rows_of wb t0) p = Some r -> r_type r = TSend ->
  evaluated_at fuel wb dm t0 p s bt ->
  compile fuel (set_row wb t0 p (set_main r [])) dm = Err EEmptyText.
Proof.
  intros Hok Hr Ht Hev.
  destruct (evaluated_ok _ _ _ _ _ _ _ _ _ Hok Hr Hev) as (Hinc & i & st & Hi & _).
  apply instantiate_some in Hi as (_ & id & es & m & l & Hid & Hes & _ & Hl & _).
  apply (row_fault_fatal fuel wb dm t0 p r (set_main r []) s bt); try assumption; try reflexivity.
  unfold visit_row. rewrite instantiate_unfold. cbn [set_main r_inc r_id r_edges r_main r_list r_type r_vars r_save r_objid r_noresp r_url r_headers r_dsheet r_drow r_targs].
  rewrite Hinc, Hid, Hes, render_nil, Hl. cbn [i_type]. rewrite Ht.
  rewrite step_row_empty_text; reflexivity || assumption.
Qed.

(* ---- over-long value (save_flow_result; save_value below needs the field key of the valid row) *)
Lemma too_long_spec v : too_long v = true <-> (c15_max_value_len < N.of_nat (length v))%N.
Proof. unfold too_long. apply N.ltb_lt. Qed.

Lemma step_row_long_result s i :
  i_type i = TSaveResult -> i_inc i = true -> too_long (i_main i) = true -> step_row s i = Err EValueTooLong.
Proof.
  intros Ht Hi Hm. unfold step_row. rewrite Hi, Ht. cbn.
  unfold row_action. rewrite Ht, Hm. rewrite raise_logged_eq by in_list. reflexivity.
Qed.

Lemma step_row_long_value s i :
  i_type i = TSaveValue -> i_inc i = true -> field_key EFieldKey true (i_save i) = Ok tt ->
  too_long (i_main i) = true -> step_row s i = Err EValueTooLong.
Proof.
  intros Ht Hi Hk Hm. unfold step_row. rewrite Hi, Ht. cbn.
  unfold row_action. rewrite Ht, Hk, Hm. rewrite raise_logged_eq by in_list. reflexivity.
Qed.

(* what a successful step of a save_value row says about its field name *)
Lemma step_row_save_value_key s i s' :
  i_type i = TSaveValue -> i_inc i = true -> step_row s i = Ok s' -> field_key EFieldKey true (i_save i) = Ok tt.
Proof.
  intros Ht Hi H. unfold step_row in H. rewrite Hi, Ht in H. cbn in H.
  unfold row_action in H. rewrite Ht in H.
  destruct (field_key EFieldKey true (i_save i)) as [[]|e]; [reflexivity|discriminate].
Qed.

Theorem detect_overlong_value fuel wb dm d t0 p r s bt v :
  compile fuel wb dm = Ok d ->
  nth_error (rows_of wb t0) p = Some r -> (r_type r = TSaveValue \/ r_type r = TSaveResult) ->
  evaluated_at fuel wb dm t0 p s bt ->
  too_long (strip v) = true ->
  compile fuel (set_row wb t0 p (set_main r [Lit v])) dm = Err EValueTooLong.
Proof.
  intros Hok Hr Ht Hev Hlong.
  destruct (evaluated_ok _ _ _ _ _ _ _ _ _ Hok Hr Hev) as (Hinc & i & st & Hi & Hst).
  pose proof Hi as Hi0.
  apply instantiate_some in Hi as (_ & id & es & m & l & Hid & Hes & Hm & Hl & Hieq).
  apply (row_fault_fatal fuel wb dm t0 p r (set_main r [Lit v]) s bt); try assumption; try reflexivity.
  unfold visit_row. rewrite instantiate_unfold. cbn [set_main r_inc r_id r_edges r_main r_list r_type r_vars r_save r_objid r_noresp r_url r_headers r_dsheet r_drow r_targs].
  rewrite Hinc, Hid, Hes, render_lit, Hl. cbn [i_type].
  destruct Ht as [Ht|Ht]; rewrite Ht.
  - (* save_value: the field key check of the valid row passes *)
    unfold visit_row in Hst. rewrite Hi0 in Hst. subst i. cbn [i_type] in Hst. rewrite Ht in Hst.
    destruct (step_row s _) as [s'|e] eqn:Hstep in Hst; [|discriminate].
    apply step_row_save_value_key in Hstep; [|reflexivity|reflexivity]. cbn [i_save] in Hstep.
    rewrite step_row_long_value; try reflexivity; try assumption.
  - rewrite step_row_long_result; try reflexivity; try assumption.
Qed.

(* ---- malformed webhook headers *)
Lemma step_row_headers s i :
  i_type i = TWebhook -> i_inc i = true -> headers_ok (i_headers i) = false -> step_row s i = Err EHeaders.
Proof.
  intros Ht Hi Hh. unfold step_row. rewrite Hi, Ht. cbn.
  unfold row_action. rewrite Ht. cbn.
  unfold row_node, row_group_record. rewrite Ht. cbn. rewrite Hh. cbn.
  rewrite raise_logged_eq by in_list. reflexivity.
Qed.

Theorem detect_webhook_headers fuel wb dm d t0 p r s bt h :
  compile fuel wb dm = Ok d ->
  nth_error (rows_of wb t0) p = Some r -> r_type r = TWebhook ->
  evaluated_at fuel wb dm t0 p s bt ->
  headers_ok h = false ->
  compile fuel (set_row wb t0 p (set_headers r h)) dm = Err EHeaders.
Proof.
  intros Hok Hr Ht Hev Hh.
  destruct (evaluated_ok _ _ _ _ _ _ _ _ _ Hok Hr Hev) as (Hinc & i & st & Hi & _).
  apply instantiate_some in Hi as (_ & id & es & m & l & Hid & Hes & Hm & Hl & _).
  apply (row_fault_fatal fuel wb dm t0 p r (set_headers r h) s bt); try assumption; try reflexivity.
  unfold visit_row. rewrite instantiate_unfold. cbn [set_headers r_inc r_id r_edges r_main r_list r_type r_vars r_save r_objid r_noresp r_url r_headers r_dsheet r_drow r_targs].
  rewrite Hinc, Hid, Hes, Hm, Hl. cbn [i_type]. rewrite Ht.
  rewrite step_row_headers; reflexivity || assumption.
Qed.

(* ---- loop without a variable *)
Theorem detect_loop_without_variable fuel wb dm d t0 p r s bt :
  compile fuel wb dm = Ok d ->
  nth_error (rows_of wb t0) p = Some r -> r_type r = TBeginFor ->
  evaluated_at fuel wb dm t0 p s bt ->
  compile fuel (set_row wb t0 p (set_vars r [])) dm = Err ENoLoopVar.
Proof.
  intros Hok Hr Ht Hev.
  destruct (evaluated_ok _ _ _ _ _ _ _ _ _ Hok Hr Hev) as (Hinc & i & st & Hi & _).
  apply instantiate_some in Hi as (_ & id & es & m & l & Hid & Hes & Hm & Hl & _).
  apply (row_fault_fatal fuel wb dm t0 p r (set_vars r []) s bt); try assumption; try reflexivity.
  unfold visit_row. rewrite instantiate_unfold. cbn [set_vars r_inc r_id r_edges r_main r_list r_type r_vars r_save r_objid r_noresp r_url r_headers r_dsheet r_drow r_targs].
  rewrite Hinc, Hid, Hes, Hm, Hl. cbn [i_type]. rewrite Ht.
  unfold loop_vars. cbn [i_vars]. rewrite crit_eq by in_list. reflexivity.
Qed.

(* ---- go_to with the wrong number of targets *)
Lemma step_row_goto_arity s i :
  i_type i = TGoto -> i_inc i = true -> length (i_list i) <> 1 -> length (i_list i) <> length (i_edges i) ->
  step_row s i = Err EGotoArity.
Proof.
  intros Ht Hi H1 H2. unfold step_row. rewrite Hi, Ht. cbn.
  destruct (i_list i) as [|a [|b l]] eqn:El; cbn in H1.
  - assert (E : Nat.eqb (length (i_edges i)) (length (@nil str)) = false).
    { apply Nat.eqb_neq. cbn in *. congruence. }
    rewrite E. cbn. rewrite crit_eq by in_list. reflexivity.
  - congruence.
  - assert (E : Nat.eqb (length (i_edges i)) (length (a :: b :: l)) = false).
    { apply Nat.eqb_neq. congruence. }
    rewrite E. cbn. rewrite crit_eq by in_list. reflexivity.
Qed.

(* The arity of a go_to row is judged on the edges that are READ (FlowParser._parse_next_row):
   the rendered edge cells of the row, minus the padding the tree at hand drops.  [edges_read]
   is that list, in the state the row is reached in. *)
Definition edges_read (c : ctx) (r : frow) : result cls (list iedge) :=
  match mapM (render_edge c) (r_edges r) with
  | Ok es => Ok (drop_padding_edges es)
  | Err e => Err e
  end.

Lemma instantiate_edges_read c r i : instantiate c r = Ok (Some i) -> edges_read c r = Ok (i_edges i).
Proof.
  intros H. apply instantiate_some in H as (_ & id & es & m & l & _ & Hes & _ & _ & ->).
  unfold edges_read. rewrite Hes. reflexivity.
Qed.

Lemma mapM_render_edge_length c l es : mapM (render_edge c) l = Ok es -> length es = length l.
Proof.
  revert es. induction l as [|e l IH]; intros es Hes; cbn in Hes.
  - injection Hes as <-. reflexivity.
  - destruct (render_edge c e); [|discriminate].
    destruct (mapM (render_edge c) l) as [es'|]; [|discriminate].
    injection Hes as <-. cbn. rewrite (IH es' eq_refl). reflexivity.
Qed.

Lemma edges_read_length_le c r es : edges_read c r = Ok es -> length es <= length (r_edges r).
Proof.
  unfold edges_read. destruct (mapM (render_edge c) (r_edges r)) as [es0|] eqn:E; [|discriminate].
  intros H. injection H as <-. rewrite <- (mapM_render_edge_length _ _ _ E). apply drop_padding_length_le.
Qed.

Theorem detect_goto_arity fuel wb dm d t0 p r s bt (dests : list str) es :
  compile fuel wb dm = Ok d ->
  nth_error (rows_of wb t0) p = Some r -> r_type r = TGoto ->
  evaluated_at fuel wb dm t0 p s bt ->
  edges_read (f_ctx s) r = Ok es ->                       (* the edges of the row as the tool reads them *)
  length dests <> 1 -> length dests <> length es ->
  compile fuel (set_row wb t0 p (set_list r (map (fun s => [Lit s]) dests))) dm = Err EGotoArity.
Proof.
  intros Hok Hr Ht Hev Hread H1 H2.
  destruct (evaluated_ok _ _ _ _ _ _ _ _ _ Hok Hr Hev) as (Hinc & i & st & Hi & _).
  apply instantiate_some in Hi as (_ & id & es0 & m & l & Hid & Hes & Hm & Hl & _).
  unfold edges_read in Hread. rewrite Hes in Hread. injection Hread as <-.
  apply (row_fault_fatal fuel wb dm t0 p r (set_list r (map (fun s => [Lit s]) dests)) s bt); try assumption; try reflexivity.
  unfold visit_row. rewrite instantiate_unfold. cbn [set_list r_inc r_id r_edges r_main r_list r_type r_vars r_save r_objid r_noresp r_url r_headers r_dsheet r_drow r_targs].
  rewrite Hinc, Hid, Hes, Hm, mapM_render_lits. cbn [i_type]. rewrite Ht.
  rewrite step_row_goto_arity; try reflexivity; cbn [i_list i_edges]; rewrite map_length; assumption.
Qed.

(* corollaries in terms of the edge cells as WRITTEN.  More destinations than edge cells is an
   arity fault on every tree (reading can only drop edges) *)
Theorem detect_goto_arity_too_many fuel wb dm d t0 p r s bt (dests : list str) :
  compile fuel wb dm = Ok d ->
  nth_error (rows_of wb t0) p = Some r -> r_type r = TGoto ->
  evaluated_at fuel wb dm t0 p s bt ->
  length dests <> 1 -> length (r_edges r) < length dests ->
  compile fuel (set_row wb t0 p (set_list r (map (fun s => [Lit s]) dests))) dm = Err EGotoArity.
Proof.
  intros Hok Hr Ht Hev H1 H2.
  destruct (evaluated_ok _ _ _ _ _ _ _ _ _ Hok Hr Hev) as (_ & i & st & Hi & _).
  apply instantiate_edges_read in Hi.
  apply (detect_goto_arity fuel wb dm d t0 p r s bt dests (i_edges i)); try assumption.
  pose proof (edges_read_length_le _ _ _ Hi). lia.
Qed.

(* a row whose edge cells other than the first are not blank padding (in the state the row is
   reached in) is read as written: the count of the cells decides *)
Theorem detect_goto_arity_unpadded fuel wb dm d t0 p r s bt (dests : list str) es :
  compile fuel wb dm = Ok d ->
  nth_error (rows_of wb t0) p = Some r -> r_type r = TGoto ->
  evaluated_at fuel wb dm t0 p s bt ->
  mapM (render_edge (f_ctx s)) (r_edges r) = Ok es -> forallb nontrivial (tl es) = true ->
  length dests <> 1 -> length dests <> length (r_edges r) ->
  compile fuel (set_row wb t0 p (set_list r (map (fun s => [Lit s]) dests))) dm = Err EGotoArity.
Proof.
  intros Hok Hr Ht Hev Hes Hnp H1 H2.
  apply (detect_goto_arity fuel wb dm d t0 p r s bt dests es); try assumption.
  - unfold edges_read. rewrite Hes, drop_padding_id by exact Hnp. reflexivity.
  - rewrite (mapM_render_edge_length _ _ _ Hes). exact H2.
Qed.

(* on a tree that does not drop padding at read, every edge cell counts (the statement C15
   carried before /repo a05766f) *)
Theorem detect_goto_arity_as_written fuel wb dm d t0 p r s bt (dests : list str) :
  padding_edges_dropped_at_read = false ->
  compile fuel wb dm = Ok d ->
  nth_error (rows_of wb t0) p = Some r -> r_type r = TGoto ->
  evaluated_at fuel wb dm t0 p s bt ->
  length dests <> 1 -> length dests <> length (r_edges r) ->
  compile fuel (set_row wb t0 p (set_list r (map (fun s => [Lit s]) dests))) dm = Err EGotoArity.
Proof.
  intros Hp Hok Hr Ht Hev H1 H2.
  destruct (evaluated_ok _ _ _ _ _ _ _ _ _ Hok Hr Hev) as (_ & i & st & Hi & _).
  apply instantiate_some in Hi as (_ & id & es & m & l & _ & Hes & _ & _ & _).
  apply (detect_goto_arity fuel wb dm d t0 p r s bt dests es); try assumption.
  - unfold edges_read. rewrite Hes, drop_padding_off by exact Hp. reflexivity.
  - rewrite (mapM_render_edge_length _ _ _ Hes). exact H2.
Qed.

(* ---- edge from a row that does not exist *)
Definition set_first_from (r : frow) (f : tstr) : frow :=
  set_edges r (match r_edges r with e :: more => mkEdge f (e_cond e) :: more | [] => [] end).

Definition iset_edges (i : irow) (es : list iedge) : irow :=
  mkI (i_type i) (i_id i) es (i_inc i) (i_main i) (i_list i) (i_vars i) (i_save i) (i_objid i) (i_noresp i)
      (i_url i) (i_headers i) (i_dsheet i) (i_drow i) (i_targs i).

Lemma row_action_edges i es : row_action (iset_edges i es) = row_action i.
Proof. destruct i. reflexivity. Qed.
Lemma row_node_edges s i es : row_node s (iset_edges i es) = row_node s i.
Proof. destruct i. reflexivity. Qed.

Lemma row_group_record_ids s i s0 : row_group_record s i = Ok s0 -> f_ids s0 = f_ids s /\ f_stack s0 = f_stack s.
Proof.
  unfold row_group_record. intros H.
  destruct (i_type i), (i_objid i); try (injection H as <-; split; reflexivity);
    (destruct (i_list i); [unfold raise in H; destruct (site_raises EIndexErr); discriminate|]);
    (destruct (record (f_uu s) _); [|discriminate]); injection H as <-; split; reflexivity.
Qed.

Lemma row_flow_record_ids s i s0 : row_flow_record s i = Ok s0 -> f_ids s0 = f_ids s /\ f_stack s0 = f_stack s.
Proof.
  unfold row_flow_record. intros H.
  destruct (i_objid i); [injection H as <-; split; reflexivity|].
  destruct (record (f_uu s) _); [|discriminate]. injection H as <-. split; reflexivity.
Qed.

Lemma row_node_ids s i s1 x : row_node s i = Ok (s1, x) -> f_ids s1 = f_ids s /\ f_stack s1 = f_stack s.
Proof.
  unfold row_node. intros H. cbn [bind] in H.
  destruct (row_group_record s i) as [s0|e] eqn:Epre; [|discriminate].
  destruct (row_group_record_ids _ _ _ Epre) as [Hids Hst].
  destruct (i_type i); try discriminate;
    try (injection H as <- <-; split; assumption).
  - destruct (i_main i); [unfold raise in H; destruct (site_raises EValueErr); discriminate|].
    injection H as <- <-. split; assumption.
  - cbn [bind] in H.
    destruct (row_flow_record s0 i) as [s2|e] eqn:Epre2; [|discriminate].
    destruct (row_flow_record_ids _ _ _ Epre2) as [Hi2 Hk2].
    destruct (i_main i); [unfold raise in H; destruct (site_raises EValueErr); discriminate|].
    injection H as <- <-. cbn. split; congruence.
  - destruct (negb (headers_ok (i_headers i))); [unfold raise_logged in H; destruct (site_raises EHeaders && site_stops EHeaders); discriminate|].
    destruct (i_url i); [unfold raise in H; destruct (site_raises EValueErr); discriminate|].
    destruct (i_save i); [unfold raise in H; destruct (site_raises EValueErr); discriminate|].
    destruct (field_key EFieldKey false _); [|discriminate].
    injection H as <- <-. split; assumption.
Qed.

Definition is_node_type (t : rtype) : bool :=
  match t with
  | TSend | TSaveValue | TSaveResult | TAddGroup | TRemoveGroup | TWait | TSplitValue | TSplitGroup
  | TSplitRandom | TStartFlow | TWebhook => true
  | _ => false
  end.

Lemma edge_source_unknown s e :
  ie_from e <> [] -> str_eqb (ie_from e) s_start = false -> ids_get (f_ids s) (ie_from e) = None ->
  edge_source s e = Err EEdgeUnknownRow.
Proof.
  intros H1 H2 H3. unfold edge_source. rewrite H2.
  destruct (ie_from e) as [|c f]; [congruence|]. rewrite H3. rewrite crit_eq by in_list. reflexivity.
Qed.

(* a node row: what a successful step says *)
Lemma step_row_node_inv s i s' :
  is_node_type (i_type i) = true -> i_inc i = true -> step_row s i = Ok s' ->
  row_action i = Ok tt /\ exists s1 x, row_node s i = Ok (s1, x).
Proof.
  intros Hn Hi H. unfold step_row in H. rewrite Hi in H. cbn [negb] in H.
  destruct (i_type i) eqn:Ht; try discriminate; cbn [bind] in H;
    (destruct (row_action i) as [[]|]; [|discriminate]);
    (destruct (row_node s i) as [[s1 x]|]; [|discriminate]);
    (split; [reflexivity|exists s1, x; reflexivity]).
Qed.

Lemma step_row_node_unknown s i e more s1 x :
  is_node_type (i_type i) = true -> i_inc i = true -> i_edges i = e :: more ->
  row_action i = Ok tt -> row_node s i = Ok (s1, x) ->
  ie_from e <> [] -> str_eqb (ie_from e) s_start = false -> ids_get (f_ids s) (ie_from e) = None ->
  step_row s i = Err EEdgeUnknownRow.
Proof.
  intros Hn Hi He Ha Hnode H1 H2 H3.
  destruct (row_node_ids _ _ _ _ Hnode) as [Hids _].
  unfold step_row. rewrite Hi. cbn [negb].
  assert (Hedge : add_row_edge s1 e true = Err EEdgeUnknownRow).
  { unfold add_row_edge. rewrite edge_source_unknown; [reflexivity|assumption|assumption|]. rewrite Hids. exact H3. }
  destruct (i_type i) eqn:Ht; try discriminate; cbn [bind]; rewrite Ha, Hnode, He; cbn [bind];
    cbn [orb]; rewrite Bool.orb_true_r, Hedge; reflexivity.
Qed.

Lemma step_row_exit_unknown s i e more :
  (i_type i = THardExit \/ i_type i = TLooseExit) -> i_inc i = true -> i_edges i = e :: more ->
  ie_from e <> [] -> str_eqb (ie_from e) s_start = false -> ids_get (f_ids s) (ie_from e) = None ->
  step_row s i = Err EEdgeUnknownRow.
Proof.
  intros Ht Hi He H1 H2 H3. unfold step_row. rewrite Hi. cbn [negb].
  destruct Ht as [Ht|Ht]; rewrite Ht, He; cbn [foldM]; unfold add_row_edge;
    rewrite edge_source_unknown by assumption; reflexivity.
Qed.

Lemma step_row_noop_unknown s i e more :
  i_type i = TNoOp -> i_inc i = true -> i_edges i = e :: more ->
  ie_from e <> [] -> str_eqb (ie_from e) s_start = false -> ids_get (f_ids s) (ie_from e) = None ->
  step_row s i = Err EEdgeUnknownRow.
Proof.
  intros Ht Hi He H1 H2 H3. unfold step_row. rewrite Hi. cbn [negb]. rewrite Ht.
  unfold parse_noop. rewrite He. cbn [bind]. rewrite edge_source_unknown by assumption. reflexivity.
Qed.

Theorem detect_edge_from_unknown_row_partial fuel wb dm d t0 p r s bt ghost e0 more :
  compile fuel wb dm = Ok d ->
  nth_error (rows_of wb t0) p = Some r ->
  (is_node_type (r_type r) = true \/ r_type r = THardExit \/ r_type r = TLooseExit \/ r_type r = TNoOp) ->
  r_edges r = e0 :: more ->
  evaluated_at fuel wb dm t0 p s bt ->
  strip ghost <> [] -> str_eqb (strip ghost) s_start = false -> ids_get (f_ids s) (strip ghost) = None ->
  compile fuel (set_row wb t0 p (set_first_from r [Lit ghost])) dm = Err EEdgeUnknownRow.
Proof.
  intros Hok Hr Ht He Hev H1 H2 H3.
  destruct (evaluated_ok _ _ _ _ _ _ _ _ _ Hok Hr Hev) as (Hinc & i & st & Hi & Hst).
  pose proof Hi as Hi0.
  apply instantiate_some in Hi as (_ & id & es & m & l & Hid & Hes & Hm & Hl & Hieq).
  apply (row_fault_fatal fuel wb dm t0 p r (set_first_from r [Lit ghost]) s bt); try assumption; try reflexivity.
  unfold visit_row. rewrite instantiate_unfold. unfold set_first_from.
  cbn [set_edges r_inc r_id r_edges r_main r_list r_type r_vars r_save r_objid r_noresp r_url r_headers r_dsheet r_drow r_targs].
  rewrite Hinc, Hid, He.
  (* the edges of the injected row *)
  rewrite He in Hes. cbn [mapM] in Hes.
  destruct (render_edge (f_ctx s) e0) as [ie0|]; [|discriminate].
  destruct (mapM (render_edge (f_ctx s)) more) as [es'|] eqn:Emore; [|discriminate].
  injection Hes as <-.
  cbn [mapM]. unfold render_edge at 1. cbn [e_from e_cond]. rewrite render_lit, Emore, Hm, Hl.
  cbn [i_type].
  set (e' := mkIE (strip ghost) (e_cond e0)).
  (* the injected first edge survives the read, whatever the tree drops *)
  destruct (drop_padding_first e' es') as [more' Hdp]. rewrite Hdp.
  set (i' := mkI (r_type r) id (e' :: more') true m l (r_vars r) (r_save r) (r_objid r) (r_noresp r)
                 (r_url r) (r_headers r) (r_dsheet r) (r_drow r) (r_targs r)).
  assert (Hstep : step_row s i' = Err EEdgeUnknownRow).
  { destruct Ht as [Hn|[Hx|[Hx|Hx]]].
    - (* node row: action and node of the valid row *)
      unfold visit_row in Hst. rewrite Hi0 in Hst. subst i. cbn [i_type] in Hst.
      assert (Hs : exists s', step_row s (mkI (r_type r) id (drop_padding_edges (ie0 :: es')) true m l (r_vars r) (r_save r) (r_objid r)
                                            (r_noresp r) (r_url r) (r_headers r) (r_dsheet r) (r_drow r) (r_targs r)) = Ok s').
      { destruct (r_type r); try discriminate;
          (match type of Hst with (match ?X with Ok _ => _ | Err _ => _ end) = _ => destruct X as [s'|]; [eauto|discriminate] end). }
      destruct Hs as [s' Hs].
      apply step_row_node_inv in Hs as (Ha & s1 & x & Hnode); [|exact Hn|reflexivity].
      apply (step_row_node_unknown s i' e' more' s1 x); try reflexivity; try assumption.
    - apply (step_row_exit_unknown s i' e' more'); try reflexivity; try assumption. left. exact Hx.
    - apply (step_row_exit_unknown s i' e' more'); try reflexivity; try assumption. right. exact Hx.
    - apply (step_row_noop_unknown s i' e' more'); try reflexivity; try assumption. }
  fold i'.
  destruct Ht as [Hn|[Hx|[Hx|Hx]]].
  - destruct (r_type r); try discriminate; rewrite Hstep; reflexivity.
  - rewrite Hx in *. rewrite Hstep. reflexivity.
  - rewrite Hx in *. rewrite Hstep. reflexivity.
  - rewrite Hx in *. rewrite Hstep. reflexivity.
Qed.

(* ---- conflicting UUIDs: a group row whose obj_id differs from the one the container knows *)
Lemma step_row_uuid_conflict s i g l old :
  (i_type i = TAddGroup \/ i_type i = TRemoveGroup) -> i_inc i = true -> i_list i = g :: l ->
  i_objid i <> [] ->
  uget (uu_groups (f_uu s)) g = Some old -> utruthy old = true -> uval_eqb (UGiven (i_objid i)) old = false ->
  step_row s i = Err EUuidConflict.
Proof.
  intros Ht Hi Hl Hu Hg Hold Hne.
  assert (Hrec : row_group_record s i = Err EUuidConflict).
  { unfold row_group_record. destruct (i_objid i) as [|c u] eqn:Eu; [congruence|].
    assert (Hr : record (f_uu s) (RGroup g (UGiven (c :: u))) = Err EUuidConflict).
    { unfold record, record_uuid. rewrite Hg, Hold. cbn [utruthy andb]. rewrite Hne. cbn [negb].
      rewrite raise_eq by in_list. reflexivity. }
    destruct Ht as [Ht|Ht]; rewrite Ht, Hl, Hr; reflexivity. }
  unfold step_row. rewrite Hi. cbn [negb].
  destruct Ht as [Ht|Ht]; rewrite Ht; cbn [bind]; unfold row_action; rewrite Ht, Hl; cbn [bind];
    unfold row_node; rewrite Hrec; reflexivity.
Qed.

Theorem detect_uuid_conflict_partial fuel wb dm d t0 p r s bt u g l old :
  compile fuel wb dm = Ok d ->
  nth_error (rows_of wb t0) p = Some r -> (r_type r = TAddGroup \/ r_type r = TRemoveGroup) ->
  evaluated_at fuel wb dm t0 p s bt ->
  mapM (render (f_ctx s)) (r_list r) = Ok (g :: l) ->          (* the group the row names *)
  uget (uu_groups (f_uu s)) g = Some old -> utruthy old = true ->   (* already has a uuid *)
  u <> [] -> uval_eqb (UGiven u) old = false ->                (* a different one is injected *)
  compile fuel (set_row wb t0 p (set_objid r u)) dm = Err EUuidConflict.
Proof.
  intros Hok Hr Ht Hev Hlist Hg Hold Hu Hne.
  destruct (evaluated_ok _ _ _ _ _ _ _ _ _ Hok Hr Hev) as (Hinc & i & st & Hi & _).
  apply instantiate_some in Hi as (_ & id & es & m & l0 & Hid & Hes & Hm & Hl & _).
  rewrite Hlist in Hl. injection Hl as <-.
  apply (row_fault_fatal fuel wb dm t0 p r (set_objid r u) s bt); try assumption; try reflexivity.
  unfold visit_row. rewrite instantiate_unfold.
  cbn [set_objid r_inc r_id r_edges r_main r_list r_type r_vars r_save r_objid r_noresp r_url r_headers r_dsheet r_drow r_targs].
  rewrite Hinc, Hid, Hes, Hm, Hlist. cbn [i_type].
  destruct Ht as [Ht|Ht]; rewrite Ht;
    (rewrite (step_row_uuid_conflict s _ g l old); [reflexivity| | | | | | |]; cbn [i_type i_inc i_list i_objid]; auto).
Qed.

(* ================================================================ block structure *)
Lemma of_kind_end_for_ok bt st : of_kind bt TEndFor = Ok st -> bt = BFor.
Proof. destruct bt; cbn; intros H; try reflexivity; unfold crit in H; destruct (site_stops EWrongTerminator); discriminate. Qed.
Lemma of_kind_end_block_ok bt st : of_kind bt TEndBlock = Ok st -> bt = BBlock.
Proof. destruct bt; cbn; intros H; try reflexivity; unfold crit in H; destruct (site_stops EWrongTerminator); discriminate. Qed.

Lemma instantiate_set_type c r t :
  instantiate c (set_type r t) =
  match instantiate c r with
  | Ok (Some i) => Ok (Some (mkI t (i_id i) (i_edges i) (i_inc i) (i_main i) (i_list i) (i_vars i) (i_save i) (i_objid i)
                                 (i_noresp i) (i_url i) (i_headers i) (i_dsheet i) (i_drow i) (i_targs i)))
  | Ok None => Ok None
  | Err e => Err e
  end.
Proof.
  rewrite !instantiate_unfold. cbn [set_type r_inc r_id r_edges r_main r_list r_type r_vars r_save r_objid r_noresp r_url r_headers r_dsheet r_drow r_targs].
  destruct (eval_inc c (r_inc r)) as [[|]|]; try reflexivity.
  destruct (render c (r_id r)); [|reflexivity].
  destruct (mapM (render_edge c) (r_edges r)); [|reflexivity].
  destruct (render c (r_main r)); [|reflexivity].
  destruct (mapM (render c) (r_list r)); reflexivity.
Qed.

(* the terminator of a block replaced by the terminator of the other kind *)
Theorem detect_mismatched_terminator fuel wb dm d t0 p r t1 q1 s1 bt1 o1 :
  compile fuel wb dm = Ok d ->
  nth_error (rows_of wb t0) p = Some r ->
  (r_type r = TEndFor \/ r_type r = TEndBlock) ->
  (* the row is read at least once, omitted or not *)
  compile_trap fuel wb dm t0 p false sel_read = Err (TTrap t1 q1 s1 bt1 o1) ->
  compile fuel (set_row wb t0 p (set_type r (match r_type r with TEndFor => TEndBlock | _ => TEndFor end))) dm
  = Err EWrongTerminator.
Proof.
  intros Hok Hr Ht Htrap.
  destruct (trap_fires _ _ _ _ _ _ _ _ _ _ _ _ Htrap) as [Hreg _].
  apply in_region_point in Hreg as [-> ->].
  destruct (valid_visit_ok _ _ _ _ _ _ _ _ _ _ _ _ _ Hok Htrap) as [st Hst].
  unfold visit_of in Hst. rewrite Hr in Hst.
  set (t' := match r_type r with TEndFor => TEndBlock | _ => TEndFor end).
  apply (fault_fatal fuel wb (set_row wb t0 p (set_type r t')) dm t0 p false sel_read)
    with (t1 := t0) (q1 := p) (s1 := s1) (bt1 := bt1) (o1 := o1).
  - apply erase_set_row.
  - intros t q Hreg. unfold in_region in Hreg.
    destruct (str_eqb t t0) eqn:E; cbn in Hreg.
    + apply str_eqb_eq in E. subst t. rewrite rows_of_set_row_same.
      apply nth_error_set_nth_other. intros ->. rewrite Nat.eqb_refl in Hreg. discriminate.
    + rewrite rows_of_set_row_other by exact E. reflexivity.
  - intros t q bt o s _ Hsel. discriminate.
  - exact Htrap.
  - unfold visit_of. rewrite rows_of_set_row_same, (nth_error_set_nth_same _ _ _ _ Hr).
    unfold visit_row in *. destruct o1.
    + cbn [set_type r_type]. subst t'.
      destruct Ht as [Ht|Ht]; rewrite Ht in *.
      * apply of_kind_end_for_ok in Hst. subst bt1. cbn. rewrite crit_eq by in_list. reflexivity.
      * apply of_kind_end_block_ok in Hst. subst bt1. cbn. rewrite crit_eq by in_list. reflexivity.
    + rewrite instantiate_set_type.
      destruct (instantiate (f_ctx s1) r) as [[i|]|e] eqn:Hi; [| |discriminate].
      * apply instantiate_some in Hi as (_ & id & es & m & l & _ & _ & _ & _ & ->).
        cbn [i_type] in *. subst t'.
        destruct Ht as [Ht|Ht]; rewrite Ht in *.
        -- apply of_kind_end_for_ok in Hst. subst bt1. cbn. rewrite crit_eq by in_list. reflexivity.
        -- apply of_kind_end_block_ok in Hst. subst bt1. cbn. rewrite crit_eq by in_list. reflexivity.
      * cbn [set_type r_type]. subst t'.
        destruct Ht as [Ht|Ht]; rewrite Ht in *.
        -- apply of_kind_end_for_ok in Hst. subst bt1. cbn. rewrite crit_eq by in_list. reflexivity.
        -- apply of_kind_end_block_ok in Hst. subst bt1. cbn. rewrite crit_eq by in_list. reflexivity.
Qed.

(* the sheet cut off inside a block: rows p, p+1, ... of sheet t0 removed *)
Fixpoint truncate_sheet (wb : workbook) (t0 : str) (p : nat) : workbook :=
  match wb with
  | [] => []
  | (n, s) :: rest =>
    if str_eqb n t0
    then (n, match s with SFlow rows => SFlow (firstn p rows) | _ => s end) :: rest
    else (n, s) :: truncate_sheet rest t0 p
  end.

Lemma erase_truncate wb t0 p : erase (truncate_sheet wb t0 p) = erase wb.
Proof.
  unfold erase. induction wb as [|[n s] rest IH]; cbn; [reflexivity|].
  destruct (str_eqb n t0); cbn.
  - destruct s; reflexivity.
  - f_equal. exact IH.
Qed.

Lemma rows_of_truncate_same wb t0 p : rows_of (truncate_sheet wb t0 p) t0 = firstn p (rows_of wb t0).
Proof.
  unfold rows_of. induction wb as [|[n s] rest IH]; cbn.
  - destruct p; reflexivity.
  - destruct (str_eqb n t0) eqn:E; cbn; rewrite E.
    + destruct s; try reflexivity; destruct p; reflexivity.
    + exact IH.
Qed.

Lemma rows_of_truncate_other wb t0 p t : str_eqb t t0 = false -> rows_of (truncate_sheet wb t0 p) t = rows_of wb t.
Proof.
  intros Hne. unfold rows_of. induction wb as [|[n s] rest IH]; cbn; [reflexivity|].
  destruct (str_eqb n t0) eqn:E; cbn.
  - apply str_eqb_eq in E. subst n.
    assert (Ht : str_eqb t0 t = false).
    { destruct (str_eqb t0 t) eqn:E2; [|reflexivity]. apply str_eqb_eq in E2. subst t. rewrite str_eqb_refl in Hne. discriminate. }
    rewrite Ht. reflexivity.
  - destruct (str_eqb n t); [reflexivity|exact IH].
Qed.

Lemma nth_error_firstn_lt {T} (l : list T) p q : q < p -> nth_error (firstn p l) q = nth_error l q.
Proof.
  revert p q. induction l as [|a l IH]; intros [|p] [|q] H; cbn; try reflexivity; try lia.
  apply IH. lia.
Qed.
Lemma nth_error_firstn_ge {T} (l : list T) p q : p <= q -> nth_error (firstn p l) q = None.
Proof.
  intros H. apply nth_error_None. rewrite firstn_length. lia.
Qed.

Theorem detect_unterminated_block_partial fuel wb dm t0 p t1 q1 s1 bt1 o1 :
  (* the first read at or after position p of sheet t0 happens inside a block *)
  compile_trap fuel wb dm t0 p true sel_read = Err (TTrap t1 q1 s1 bt1 o1) ->
  bt1 <> BRoot ->
  compile fuel (truncate_sheet wb t0 p) dm = Err EUnterminated.
Proof.
  intros Htrap Hbt.
  destruct (trap_fires _ _ _ _ _ _ _ _ _ _ _ _ Htrap) as [Hreg _].
  unfold in_region in Hreg. apply andb_true_iff in Hreg as [Ht Hq].
  apply str_eqb_eq in Ht. subst t1. apply Nat.leb_le in Hq.
  apply (fault_fatal fuel wb (truncate_sheet wb t0 p) dm t0 p true sel_read)
    with (t1 := t0) (q1 := q1) (s1 := s1) (bt1 := bt1) (o1 := o1).
  - apply erase_truncate.
  - intros t q Hreg. unfold in_region in Hreg.
    destruct (str_eqb t t0) eqn:E; cbn in Hreg.
    + apply str_eqb_eq in E. subst t. rewrite rows_of_truncate_same.
      apply nth_error_firstn_lt. apply Nat.leb_gt in Hreg. exact Hreg.
    + rewrite rows_of_truncate_other by exact E. reflexivity.
  - intros t q bt o s _ Hsel. discriminate.
  - exact Htrap.
  - unfold visit_of. rewrite rows_of_truncate_same, nth_error_firstn_ge by exact Hq.
    unfold visit_row. destruct bt1; [congruence| |]; rewrite crit_eq by in_list; reflexivity.
Qed.

(* ---- conflicting UUIDs: a start_new_flow row whose obj_id differs from the uuid the container
        already has for that flow name *)
Lemma step_row_flow_uuid_conflict s i old :
  i_type i = TStartFlow -> i_inc i = true -> i_objid i <> [] ->
  uget (uu_flows (f_uu s)) (i_main i) = Some old -> utruthy old = true -> uval_eqb (UGiven (i_objid i)) old = false ->
  step_row s i = Err EUuidConflict.
Proof.
  intros Ht Hi Hu Hg Hold Hne.
  unfold step_row. rewrite Hi. cbn [negb]. rewrite Ht. cbn [bind].
  unfold row_action. rewrite Ht. cbn [bind].
  unfold row_node, row_group_record. rewrite Ht. cbn [bind].
  unfold row_flow_record. destruct (i_objid i) as [|c u] eqn:Eu; [congruence|].
  unfold record, record_uuid. cbn [f_uu]. rewrite Hg, Hold. cbn [utruthy andb]. rewrite Hne. cbn [negb].
  rewrite raise_eq by in_list. reflexivity.
Qed.

Theorem detect_flow_uuid_conflict_partial fuel wb dm d t0 p r s bt u name old :
  compile fuel wb dm = Ok d ->
  nth_error (rows_of wb t0) p = Some r -> r_type r = TStartFlow ->
  evaluated_at fuel wb dm t0 p s bt ->
  render (f_ctx s) (r_main r) = Ok name ->
  uget (uu_flows (f_uu s)) name = Some old -> utruthy old = true ->
  u <> [] -> uval_eqb (UGiven u) old = false ->
  compile fuel (set_row wb t0 p (set_objid r u)) dm = Err EUuidConflict.
Proof.
  intros Hok Hr Ht Hev Hname Hg Hold Hu Hne.
  destruct (evaluated_ok _ _ _ _ _ _ _ _ _ Hok Hr Hev) as (Hinc & i & st & Hi & _).
  apply instantiate_some in Hi as (_ & id & es & m & l0 & Hid & Hes & Hm & Hl & _).
  rewrite Hname in Hm. injection Hm as <-.
  apply (row_fault_fatal fuel wb dm t0 p r (set_objid r u) s bt); try assumption; try reflexivity.
  unfold visit_row. rewrite instantiate_unfold.
  cbn [set_objid r_inc r_id r_edges r_main r_list r_type r_vars r_save r_objid r_noresp r_url r_headers r_dsheet r_drow r_targs].
  rewrite Hinc, Hid, Hes, Hname, Hl. cbn [i_type]. rewrite Ht.
  rewrite (step_row_flow_uuid_conflict s _ old); [reflexivity| | | | | |]; cbn [i_type i_inc i_main i_objid]; auto.
Qed.
