(* E9 / C15 — the part of `rpft create_flows` that turns ONE flow sheet into node groups,
   reduced to what decides whether the command stops: every LOGGER.critical site and every
   exception the row can raise, in the order the code reaches them
   (flowparser.py: FlowParser._parse_block/_parse_row/_add_row_edge/..., NodeGroup,
   NoOpNodeGroup, RowNodeGroup; routers.py: SwitchRouter.add_choice, RouterCategory;
   actions.py: constructors that raise; containers.py: UUIDDict._record_uuid).

   What a row IS (input type): the cells the model speaks about, already split by the cell
   codec (C08/C07's business).  Row id, `from`, the main argument and list main arguments
   may contain `{{var}}` references (segments); every other cell is template-free.  Not in
   the input type (so outside this model): node names/_nodeId (row merging), ui positions,
   attachments/quick replies, set_contact_*, add_contact_urn, transfer_airtime, native
   `{@ @}` templates, tags.

   Python object identity = index into a store of groups; mutation = store update.
   Only what add_exit / has_loose_exits can observe of a node is kept: for each exit
   whether its destination is set, for switch routers their cases and category names.

   Definitions only; facts are in CliFacts.v. *)
From Coq Require Import List NArith Bool Arith.
From RPFT Require Import Base.Sexp Base.PyStr Base.Result Gen.Tables Io.CliLog.
Import ListNotations.

(* ---------------------------------------------------------------- outcomes *)
Inductive cls :=
(* content index / flow definitions *)
| ENoIndex | ESheetNames | ESheetNotFound | EOpNoName | EUnknownOp | EDataModel | EConcatModels
| EKeyData | ETemplateKey | ERowIdNoSheet | EInsertArgs | EArgDouble | EArgMissing
(* block structure *)
| EUnterminated | EWrongTerminator | ENoLoopVar
(* rows *)
| EEdgeUnknownRow | EGotoArity | EGotoDest | ENoOpEntry | EIndexErr
| EEmptyText | EValueTooLong | EFieldKey | ECatName | EHeaders | EValueErr
| EBlockCond | EBlockNoLoose | ECondNoVar | EDefaultExit | EBadTest | EUndefinedVar
(* container *)
| EUuidConflict | ETriggerFlow | ETriggerRow | ECampaignRow
(* never accepted by a theorem conclusion *)
| EOutOfScope | EOutOfFuel.

(* stable numbering: wire format and the regenerated table of log levels *)
Definition cls_code (c : cls) : N :=
  match c with
  | ENoIndex => 1 | ESheetNames => 2 | ESheetNotFound => 3 | EOpNoName => 4 | EUnknownOp => 5
  | EDataModel => 6 | EConcatModels => 7 | EKeyData => 8 | ETemplateKey => 9 | ERowIdNoSheet => 10
  | EInsertArgs => 11 | EArgDouble => 12 | EArgMissing => 13
  | EUnterminated => 20 | EWrongTerminator => 21 | ENoLoopVar => 22
  | EEdgeUnknownRow => 30 | EGotoArity => 31 | EGotoDest => 32 | ENoOpEntry => 33 | EIndexErr => 34
  | EEmptyText => 35 | EValueTooLong => 36 | EFieldKey => 37 | ECatName => 38 | EHeaders => 39
  | EValueErr => 40 | EBlockCond => 41 | EBlockNoLoose => 42 | ECondNoVar => 43 | EDefaultExit => 44
  | EBadTest => 45 | EUndefinedVar => 46
  | EUuidConflict => 50 | ETriggerFlow => 51 | ETriggerRow => 52 | ECampaignRow => 53
  | EOutOfScope => 98 | EOutOfFuel => 99
  end%N.

(* A detection site that is a LOGGER call stops the command only if the level it logs at
   reaches the threshold of the CLI's ShutdownHandler.  Both are regenerated from the
   source (translator/tables_c15.py): `c15_site_levels` maps the code of the class to the
   numeric logging level found at its site, `c15_shutdown_threshold` is the level from
   which ShutdownHandler.emit exits.  What the Python code does AFTER a site that no longer
   stops is not modelled: the result is EOutOfScope, which no theorem accepts. *)
Fixpoint assocN (l : list (N * N)) (k : N) : option N :=
  match l with
  | [] => None
  | (a, b) :: r => if N.eqb a k then Some b else assocN r k
  end.

(* ... and only if that holds however the command was started: the handlers that see the record
   are set up when rpft.cli is imported, from the environment, the working directory and the
   options (Io/CliLog.v, regenerated table `c15_log_configs`).  A site counts as stopping when
   a record of its level ends the process under EVERY configuration of that table that gets as
   far as the library call; one configuration with no terminating handler makes every site
   answer EOutOfScope. *)
Definition site_stops (c : cls) : bool :=
  match assocN c15_site_levels (cls_code c) with
  | Some lvl => N.leb c15_shutdown_threshold lvl && every_config_stops_at lvl
  | None => false
  end.

(* an exception site: the probe of the translator saw the constructor/function raise *)
Definition site_raises (c : cls) : bool :=
  match assocN c15_raise_sites (cls_code c) with
  | Some 1%N => true
  | _ => false
  end.

Definition crit {T} (c : cls) : result cls T := if site_stops c then Err c else Err EOutOfScope.
Definition raise {T} (c : cls) : result cls T := if site_raises c then Err c else Err EOutOfScope.
(* an exception that a handler turns into a LOGGER call (RapidProActionError in _parse_row,
   RapidProRouterError in _add_row_edge, ValueError in _get_row_node): both must be in place *)
Definition raise_logged {T} (c : cls) : result cls T :=
  if site_raises c && site_stops c then Err c else Err EOutOfScope.

(* ---------------------------------------------------------------- templating *)
Definition ctx := list (str * str).          (* insertion-ordered dict, values already text *)
Inductive seg := Lit (s : str) | Ref (x : str).
Definition tstr := list seg.

Fixpoint cget (c : ctx) (x : str) : option str :=
  match c with [] => None | (k, v) :: r => if str_eqb k x then Some v else cget r x end.
Fixpoint cset (c : ctx) (x : str) (v : str) : ctx :=
  match c with
  | [] => [(x, v)]
  | (k, w) :: r => if str_eqb k x then (k, v) :: r else (k, w) :: cset r x v
  end.
Fixpoint cdel (c : ctx) (x : str) : ctx :=
  match c with
  | [] => []
  | (k, w) :: r => if str_eqb k x then r else (k, w) :: cdel r x
  end.
Definition chas (c : ctx) (x : str) : bool := match cget c x with Some _ => true | None => false end.

Fixpoint render_raw (c : ctx) (t : tstr) : result cls str :=
  match t with
  | [] => Ok []
  | Lit s :: r => match render_raw c r with Ok x => Ok (s ++ x) | Err e => Err e end
  | Ref x :: r =>
    match cget c x with
    | Some v => match render_raw c r with Ok y => Ok (v ++ y) | Err e => Err e end
    | None => match env_undefined_policy with
              | Strict => Err EUndefinedVar
              | Lenient => render_raw c r
              end
    end
  end.
(* the cell codec strips a string cell *)
Definition render (c : ctx) (t : tstr) : result cls str :=
  match render_raw c t with Ok s => Ok (strip s) | Err e => Err e end.

(* ---------------------------------------------------------------- rows *)
Inductive rtype :=
| TSend | TSaveValue | TSaveResult | TAddGroup | TRemoveGroup
| TWait | TSplitValue | TSplitGroup | TSplitRandom | TStartFlow | TWebhook
| TGoto | TNoOp | THardExit | TLooseExit | TInsert
| TBeginFor | TEndFor | TBeginBlock | TEndBlock.

Record cond := mkCond { c_val : str; c_var : str; c_typ : str; c_name : str }.
Definition cond_empty (c : cond) : bool :=
  match c_val c, c_var c, c_typ c, c_name c with [], [], [], [] => true | _, _, _, _ => false end.

Record edge := mkEdge { e_from : tstr; e_cond : cond }.
Inductive incl := IncTrue | IncFalse | IncRef (x : str).
Inductive hitem := HStr (s : str) | HList (l : list str).     (* an element of webhook.headers *)

Record frow := mkRow {
  r_type : rtype;
  r_id : tstr;
  r_edges : list edge;
  r_inc : incl;
  r_main : tstr;            (* message_text for a string main argument *)
  r_list : list tstr;       (* message_text for a list main argument (go_to, groups, begin_for) *)
  r_vars : list str;        (* loop_variable *)
  r_save : str;             (* save_name *)
  r_objid : str;            (* obj_id *)
  r_noresp : N;             (* no_response as an integer; 0 = blank *)
  r_url : str;              (* webhook.url *)
  r_headers : list hitem;   (* webhook.headers *)
  r_dsheet : str; r_drow : str; r_targs : list str   (* insert_as_block *)
}.

(* instantiated row *)
Record iedge := mkIE { ie_from : str; ie_cond : cond }.
Record irow := mkI {
  i_type : rtype; i_id : str; i_edges : list iedge; i_inc : bool;
  i_main : str; i_list : list str; i_vars : list str; i_save : str; i_objid : str;
  i_noresp : N; i_url : str; i_headers : list hitem;
  i_dsheet : str; i_drow : str; i_targs : list str }.

Definition s_false : str := [102;97;108;115;101]%N.

Definition eval_inc (c : ctx) (i : incl) : result cls bool :=
  match i with
  | IncTrue => Ok true
  | IncFalse => Ok false
  | IncRef x => match cget c x with
                | Some v => Ok (negb (str_eqb (lower (strip v)) s_false))
                | None => match env_undefined_policy with Strict => Err EUndefinedVar | Lenient => Ok true end
                end
  end.

Definition render_edge (c : ctx) (e : edge) : result cls iedge :=
  match render c (e_from e) with Ok f => Ok (mkIE f (e_cond e)) | Err x => Err x end.

(* FlowParser._parse_next_row (the tree after the repair of padded-edge-columns): a sheet is
   rectangular, a row with fewer edges than the widest carries blank edge cells; trivial edges
   (blank from, blank condition) other than the first are dropped when the row is read, for
   every row type.  Whether the tree at hand does so is the regenerated probe
   [padding_edges_dropped_at_read]; before, only rows that create a node skipped them (step_row). *)
Definition is_trivial_iedge (e : iedge) : bool :=
  match ie_from e with [] => cond_empty (ie_cond e) | _ => false end.
Definition drop_padding_edges (es : list iedge) : list iedge :=
  if padding_edges_dropped_at_read then
    match es with
    | [] => []
    | e :: more => e :: filter (fun x => negb (is_trivial_iedge x)) more
    end
  else es.

(* SheetParser.parse_next_row with templating: the inclusion column is evaluated first; the
   other cells of an excluded row are not evaluated (None = excluded) *)
Definition instantiate (c : ctx) (r : frow) : result cls (option irow) :=
  do inc <- eval_inc c (r_inc r);
  if negb inc then Ok None else
  do id <- render c (r_id r);
  do es <- mapM (render_edge c) (r_edges r);
  do m <- render c (r_main r);
  do l <- mapM (render c) (r_list r);
  Ok (Some (mkI (r_type r) id (drop_padding_edges es) true m l (r_vars r) (r_save r) (r_objid r) (r_noresp r) (r_url r)
                (r_headers r) (r_dsheet r) (r_drow r) (r_targs r))).

(* ---------------------------------------------------------------- routers and groups *)
Inductive cref := CCat (n : nat) | CDflt | CNoResp.
Record rcase := mkCase { k_typ : str; k_args : list (option str); k_cat : cref }.
Definition cat := (str * bool)%type.           (* name, destination set? *)
Record router := mkRouter {
  ro_cases : list rcase;
  ro_cats : list cat;              (* self.categories *)
  ro_dflt : cat;                   (* default_category *)
  ro_noresp : option cat           (* no_response_category: present iff wait_timeout is truthy *)
}.

Inductive xnode :=                 (* the LAST node of a RowNodeGroup, as add_exit sees it *)
| XBasic (conn : bool)
| XSwitch (r : router)
| XRandom (cats : list cat)
| XEnter (complete expired : bool)
| XHook (success failure : bool).

Inductive group :=
| GRow (x : xnode) (t : rtype)
| GNoOp (parents : list (nat * cond)) (r : option router)
| GBlock (children : list nat).

Definition store := list group.

Fixpoint set_nth {T} (l : list T) (n : nat) (v : T) : list T :=
  match l, n with
  | [], _ => []
  | _ :: r, O => v :: r
  | x :: r, S k => x :: set_nth r k v
  end.

Definition s_Other : str := [79;116;104;101;114]%N.
Definition s_NoResponse : str := [78;111;32;82;101;115;112;111;110;115;101]%N.
Definition s_has_any_word : str := [104;97;115;95;97;110;121;95;119;111;114;100]%N.
Definition s_has_group : str := [104;97;115;95;103;114;111;117;112]%N.
Definition s_None : str := [78;111;110;101]%N.
Definition s_alt : str := [95;97;108;116]%N.
Definition s_Bucket : str := [66;117;99;107;101;116;32]%N.
Definition s_start : str := [115;116;97;114;116]%N.
Definition s_complete : str := [99;111;109;112;108;101;116;101]%N.
Definition s_completed : str := [99;111;109;112;108;101;116;101;100]%N.
Definition s_expired : str := [101;120;112;105;114;101;100]%N.
Definition s_success : str := [115;117;99;99;101;115;115]%N.
Definition s_failure : str := [102;97;105;108;117;114;101]%N.
Definition s_no_response : str := [110;111;32;114;101;115;112;111;110;115;101]%N.

Definition new_router (dflt_conn : bool) (noresp : bool) : router :=
  mkRouter [] [] (s_Other, dflt_conn) (if noresp then Some (s_NoResponse, false) else None).

(* get_categories(): categories + [default] (+ [no_response]) *)
Definition router_cats (r : router) : list cat :=
  ro_cats r ++ [ro_dflt r] ++ match ro_noresp r with Some c => [c] | None => [] end.

Definition cats_loose (l : list cat) : bool := existsb (fun c => negb (snd c)) l.

Definition xnode_loose (x : xnode) : bool :=
  match x with
  | XBasic c => negb c
  | XSwitch r => cats_loose (router_cats r)
  | XRandom cs => cats_loose cs
  | XEnter a b => negb a || negb b
  | XHook a b => negb a || negb b
  end.

Definition cats_connect (l : list cat) : list cat := map (fun c => (fst c, true)) l.
Definition router_connect (r : router) : router :=
  mkRouter (ro_cases r) (cats_connect (ro_cats r)) (fst (ro_dflt r), true)
           (match ro_noresp r with Some c => Some (fst c, true) | None => None end).
Definition xnode_connect (x : xnode) : xnode :=
  match x with
  | XBasic _ => XBasic true
  | XSwitch r => XSwitch (router_connect r)
  | XRandom cs => XRandom (cats_connect cs)
  | XEnter _ _ => XEnter true true
  | XHook _ _ => XHook true true
  end.

(* has_loose_exits; None = out of fuel *)
Fixpoint has_loose (fuel : nat) (st : store) (g : nat) : option bool :=
  match fuel with
  | O => None
  | S f =>
    match nth_error st g with
    | None => None
    | Some (GRow x _) => Some (xnode_loose x)
    | Some (GNoOp ps (Some r)) => Some (cats_loose (router_cats r))
    | Some (GNoOp ps None) =>
      (fix any (l : list (nat * cond)) : option bool :=
         match l with
         | [] => Some false
         | (p, _) :: more => match has_loose f st p with
                             | None => None
                             | Some true => Some true      (* any() stops at the first True *)
                             | Some false => any more
                             end
         end) ps
    | Some (GBlock ch) =>
      (fix any (l : list nat) : option bool :=
         match l with
         | [] => Some false
         | c :: more => match has_loose f st c with
                        | None => None
                        | Some true => Some true
                        | Some false => any more
                        end
         end) ch
    end
  end.

(* connect_loose_exits(destination) with a destination that is not None *)
Fixpoint connect_loose (fuel : nat) (st : store) (g : nat) : option store :=
  match fuel with
  | O => None
  | S f =>
    match nth_error st g with
    | None => None
    | Some (GRow x t) => Some (set_nth st g (GRow (xnode_connect x) t))
    | Some (GNoOp ps (Some r)) => Some (set_nth st g (GNoOp ps (Some (router_connect r))))
    | Some (GNoOp ps None) =>
      (fix all (l : list (nat * cond)) (s : store) : option store :=
         match l with
         | [] => Some s
         | (p, _) :: more => match connect_loose f s p with None => None | Some s' => all more s' end
         end) ps st
    | Some (GBlock ch) =>
      (fix all (l : list nat) (s : store) : option store :=
         match l with
         | [] => Some s
         | c :: more => match connect_loose f s c with None => None | Some s' => all more s' end
         end) ch st
    end
  end.

(* entry_node(): only whether it can be taken *)
Fixpoint entry_ok (fuel : nat) (st : store) (g : nat) : result cls unit :=
  match fuel with
  | O => Err EOutOfFuel
  | S f =>
    match nth_error st g with
    | None => Err EOutOfScope
    | Some (GRow _ _) => Ok tt
    | Some (GNoOp _ _) => crit ENoOpEntry
    | Some (GBlock []) => raise EIndexErr
    | Some (GBlock (c :: _)) => entry_ok f st c
    end
  end.

(* ---- str.title() on ASCII; a non-ASCII character puts the input outside the model *)
Definition is_ascii (s : str) : bool := forallb (fun c => N.ltb c 128) s.
Definition is_upper (c : char) : bool := N.leb 65 c && N.leb c 90.
Definition is_lower (c : char) : bool := N.leb 97 c && N.leb c 122.
Fixpoint title_aux (prev_cased : bool) (s : str) : str :=
  match s with
  | [] => []
  | c :: r =>
    if is_upper c then (if prev_cased then (c + 32)%N else c) :: title_aux true r
    else if is_lower c then (if prev_cased then c else (c - 32)%N) :: title_aux true r
    else c :: title_aux false r
  end.
Definition title (s : str) : str := title_aux false s.

Definition arg_title (a : option str) : str :=
  match a with None => s_None | Some s => title s end.
Definition args_ascii (l : list (option str)) : bool :=
  forallb (fun a => match a with None => true | Some s => is_ascii s end) l.

Fixpoint find_cat (l : list cat) (name : str) : option nat :=
  match l with
  | [] => None
  | (n, _) :: r => if str_eqb n name then Some O
                   else match find_cat r name with Some k => Some (S k) | None => None end
  end.

(* _get_category_or_none over get_categories() *)
Definition find_cref (r : router) (name : str) : option cref :=
  match find_cat (ro_cats r) name with
  | Some k => Some (CCat k)
  | None => if str_eqb (fst (ro_dflt r)) name then Some CDflt
            else match ro_noresp r with
                 | Some (n, _) => if str_eqb n name then Some CNoResp else None
                 | None => None
                 end
  end.

Definition set_cat_conn (r : router) (c : cref) (conn : bool) : router :=
  match c with
  | CCat k => match nth_error (ro_cats r) k with
              | Some (n, _) => mkRouter (ro_cases r) (set_nth (ro_cats r) k (n, conn)) (ro_dflt r) (ro_noresp r)
              | None => r
              end
  | CDflt => mkRouter (ro_cases r) (ro_cats r) (fst (ro_dflt r), conn) (ro_noresp r)
  | CNoResp => mkRouter (ro_cases r) (ro_cats r) (ro_dflt r)
                        (match ro_noresp r with Some (n, _) => Some (n, conn) | None => None end)
  end.

(* generate_category_name: "_".join(str(a).title()) then "_alt" while the name is taken *)
Fixpoint alt_name (fuel : nat) (r : router) (name : str) : str :=
  match fuel with
  | O => name
  | S f => match find_cref r name with
           | Some _ => alt_name f r (name ++ s_alt)
           | None => name
           end
  end.
Definition gen_cat_name (r : router) (args : list (option str)) : str :=
  alt_name (S (S (length (ro_cats r)))) r (join_char 95%N (map arg_title args)).

Definition opt_str_eqb (a b : option str) : bool :=
  match a, b with
  | None, None => true
  | Some x, Some y => str_eqb x y
  | _, _ => false
  end.
Fixpoint args_eqb (a b : list (option str)) : bool :=
  match a, b with
  | [], [] => true
  | x :: a', y :: b' => opt_str_eqb x y && args_eqb a' b'
  | _, _ => false
  end.

Definition mem_str (s : str) (l : list str) : bool := existsb (str_eqb s) l.

Fixpoint find_case (l : list rcase) (typ : str) (args : list (option str)) : option rcase :=
  match l with
  | [] => None
  | k :: r => if str_eqb (k_typ k) typ && args_eqb (k_args k) args then Some k else find_case r typ args
  end.

(* get_or_create_category: RouterCategory(name) raises RapidProRouterError on a long name *)
Definition get_or_create (r : router) (name : str) (conn : bool) : result cls (router * cref) :=
  match find_cref r name with
  | Some c => Ok (set_cat_conn r c conn, c)
  | None =>
    if N.ltb c15_max_category_len (N.of_nat (length name)) then raise_logged ECatName
    else Ok (mkRouter (ro_cases r) (ro_cats r ++ [(name, conn)]) (ro_dflt r) (ro_noresp r),
             CCat (length (ro_cats r)))
  end.

(* SwitchRouter.add_choice (is_default=False) *)
Definition add_choice (r : router) (typ : str) (args : list (option str)) (name : str) (conn : bool)
  : result cls router :=
  match find_case (ro_cases r) typ args with
  | Some k => Ok (set_cat_conn r (k_cat k) conn)
  | None =>
    if (match name with [] => negb (args_ascii args) | _ => false end) then Err EOutOfScope
    else
      let name' := match name with [] => gen_cat_name r args | _ => name end in
      match get_or_create r name' conn with
      | Err e => Err e
      | Ok (r1, c) =>
        (* RouterCase(...).validate() *)
        if mem_str typ test_names then
          let stored := if mem_str typ no_args_tests then [] else args in
          Ok (mkRouter (ro_cases r1 ++ [mkCase typ stored c]) (ro_cats r1) (ro_dflt r1) (ro_noresp r1))
        else raise EBadTest
      end
  end.

Fixpoint dec_aux (fuel : nat) (n : N) (acc : str) : str :=
  match fuel with
  | O => acc
  | S f => let d := N.modulo n 10 in
           let q := N.div n 10 in
           if N.eqb q 0 then (48 + d)%N :: acc else dec_aux f q ((48 + d)%N :: acc)
  end.
Definition dec_of_nat (n : nat) : str := dec_aux 40 (N.of_nat n) [].      (* str(n) *)

(* RandomRouter.add_choice *)
Definition random_add (cs : list cat) (name : str) (conn : bool) : result cls (list cat) :=
  let name' := match name with
               | [] => s_Bucket ++ dec_of_nat (length cs + 2)
               | _ => name
               end in
  match find_cat cs name' with
  | Some k => Ok (set_nth cs k (name', conn))
  | None => if N.ltb c15_max_category_len (N.of_nat (length name')) then raise_logged ECatName
            else Ok (cs ++ [(name', conn)])
  end.

Definition or_default (t : str) : str := match t with [] => s_has_any_word | _ => t end.

(* RowNodeGroup.add_exit on the exit node x of a row of type t *)
Definition row_add_exit (x : xnode) (t : rtype) (conn : bool) (c : cond) : result cls xnode :=
  let is_random := match x with XRandom _ => true | _ => false end in
  if cond_empty c && negb is_random then
    match x with
    | XBasic _ => Ok (XBasic conn)
    | XSwitch r => Ok (XSwitch (set_cat_conn r CDflt conn))
    | XEnter _ _ => raise_logged EDefaultExit
    | XHook s _ => Ok (XHook s conn)
    | XRandom cs => Ok x
    end
  else
    let v := lower (c_val c) in
    match x with
    | XEnter a b =>
      if str_eqb v s_complete || str_eqb v s_completed then Ok (XEnter conn b)
      else if str_eqb v s_expired then Ok (XEnter a conn)
      else Ok x                                  (* LOGGER.error, the row goes on *)
    | XHook a b =>
      if str_eqb v s_success then Ok (XHook conn b)
      else if str_eqb v s_failure then Ok (XHook a conn)
      else Ok x
    | _ =>
      match x, str_eqb v s_no_response with
      | XSwitch r, true =>
        match ro_noresp r with
        | Some _ => Ok (XSwitch (set_cat_conn r CNoResp conn))
        | None => Ok x                           (* LOGGER.warn *)
        end
      | _, _ =>
        let typ_args :=
            match t with
            | TSplitGroup => (s_has_group, [None; Some (c_val c)])
            | _ => (c_typ c, [Some (c_val c)])
            end in
        match x with
        | XBasic old =>
          match add_choice (new_router old false) (or_default (fst typ_args)) (snd typ_args) (c_name c) conn with
          | Ok r => Ok (XSwitch r)
          | Err e => Err e
          end
        | XSwitch r =>
          match add_choice r (or_default (fst typ_args)) (snd typ_args) (c_name c) conn with
          | Ok r' => Ok (XSwitch r')
          | Err e => Err e
          end
        | XRandom cs =>
          match random_add cs (match c_name c with [] => c_val c | n => n end) conn with
          | Ok cs' => Ok (XRandom cs')
          | Err e => Err e
          end
        | _ => Ok x
        end
      end
    end.

(* the router part of NoOpNodeGroup.add_exit once a router exists: a blank value is the
   default branch unless the test takes no argument *)
Definition noop_router_exit (r : router) (conn : bool) (c : cond) : result cls router :=
  match c_val c with
  | [] => if mem_str (c_typ c) no_args_tests
          then add_choice r (or_default (c_typ c)) [Some (c_val c)] (c_name c) conn
          else Ok (set_cat_conn r CDflt conn)
  | _ => add_choice r (or_default (c_typ c)) [Some (c_val c)] (c_name c) conn
  end.

(* add_exit(destination, condition) on any group; conn = the destination is not None *)
Fixpoint add_exit (fuel : nat) (st : store) (g : nat) (conn : bool) (c : cond) : result cls store :=
  match fuel with
  | O => Err EOutOfFuel
  | S f =>
    match nth_error st g with
    | None => Err EOutOfScope
    | Some (GRow x t) =>
      match row_add_exit x t conn c with
      | Ok x' => Ok (set_nth st g (GRow x' t))
      | Err e => Err e
      end
    | Some (GNoOp ps None) =>
      if cond_empty c then
        (fix each (l : list (nat * cond)) (s : store) : result cls store :=
           match l with
           | [] => Ok s
           | (p, pc) :: more => match add_exit f s p conn pc with Ok s' => each more s' | Err e => Err e end
           end) ps st
      else
        match c_var c with
        | [] => crit ECondNoVar
        | _ =>
          match (fix each (l : list (nat * cond)) (s : store) : result cls store :=
                   match l with
                   | [] => Ok s
                   | (p, pc) :: more => match add_exit f s p true pc with Ok s' => each more s' | Err e => Err e end
                   end) ps st with
          | Err e => Err e
          | Ok s1 =>
            match noop_router_exit (new_router false false) conn c with
            | Ok r => Ok (set_nth s1 g (GNoOp ps (Some r)))
            | Err e => Err e
            end
          end
        end
    | Some (GNoOp ps (Some r)) =>
      match noop_router_exit r conn c with
      | Ok r' => Ok (set_nth st g (GNoOp ps (Some r')))
      | Err e => Err e
      end
    | Some (GBlock ch) =>
      if negb (cond_empty c) then crit EBlockCond
      else match has_loose (S f) st g with
           | None => Err EOutOfFuel
           | Some false => crit EBlockNoLoose
           | Some true =>
             if conn then
               (fix each (l : list nat) (s : store) : result cls store :=
                  match l with
                  | [] => Ok s
                  | k :: more =>
                    match has_loose f s k with
                    | None => Err EOutOfFuel
                    | Some false => each more s
                    | Some true => match connect_loose f s k with
                                   | None => Err EOutOfFuel
                                   | Some s' => each more s'
                                   end
                    end
                  end) ch st
             else Ok st                           (* destination None: nothing changes *)
           end
    end
  end.

(* ---------------------------------------------------------------- uuid dictionary *)
Inductive uval := UNone | UGiven (s : str) | UFresh (n : nat).
Definition uval_eqb (a b : uval) : bool :=
  match a, b with
  | UNone, UNone => true
  | UGiven x, UGiven y => str_eqb x y
  | UFresh x, UFresh y => Nat.eqb x y
  | _, _ => false
  end.
Definition utruthy (u : uval) : bool :=
  match u with UNone => false | UGiven [] => false | _ => true end.
Definition udict := list (str * uval).

Fixpoint uget (d : udict) (k : str) : option uval :=
  match d with [] => None | (a, v) :: r => if str_eqb a k then Some v else uget r k end.
Fixpoint uset (d : udict) (k : str) (v : uval) : udict :=
  match d with
  | [] => [(k, v)]
  | (a, w) :: r => if str_eqb a k then (a, v) :: r else (a, w) :: uset r k v
  end.

(* UUIDDict._record_uuid *)
Definition record_uuid (d : udict) (name : str) (u : uval) : result cls udict :=
  match uget d name with
  | Some old =>
    if utruthy old then
      if utruthy u && negb (uval_eqb u old) then raise EUuidConflict else Ok d
    else Ok (uset d name u)
  | None => Ok (uset d name u)
  end.

Record uuids := mkUU { uu_groups : udict; uu_flows : udict }.
Definition uu0 : uuids := mkUU [] [].

(* what a compiled flow contributes when the container is rendered (update_global_uuids) *)
Inductive rec := RGroup (name : str) (u : uval) | RFlow (name : str) (u : uval).

Definition record (uu : uuids) (r : rec) : result cls uuids :=
  match r with
  | RGroup n u => match record_uuid (uu_groups uu) n u with
                  | Ok d => Ok (mkUU d (uu_flows uu)) | Err e => Err e end
  | RFlow n u => match record_uuid (uu_flows uu) n u with
                 | Ok d => Ok (mkUU (uu_groups uu) d) | Err e => Err e end
  end.

Definition given (s : str) : uval := match s with [] => UNone | _ => UGiven s end.

(* ---------------------------------------------------------------- flow parser state *)
Record fstate := mkF {
  f_store : store;
  f_stack : list (list nat);        (* node_group_stack, top first; children most recent first *)
  f_ids : list (str * nat);         (* row_id_to_nodegroup *)
  f_ctx : ctx;                      (* SheetParser.context *)
  f_uu : uuids;                     (* the container's uuid_dict *)
  f_recs : list rec                 (* what the nodes created so far will record at render time *)
}.

Definition fuel_of (st : store) : nat := S (S (length st)).

Fixpoint ids_get (d : list (str * nat)) (k : str) : option nat :=
  match d with [] => None | (a, v) :: r => if str_eqb a k then Some v else ids_get r k end.
Fixpoint ids_set (d : list (str * nat)) (k : str) (v : nat) : list (str * nat) :=
  match d with
  | [] => [(k, v)]
  | (a, w) :: r => if str_eqb a k then (a, v) :: r else (a, w) :: ids_set r k v
  end.

(* most_recent_node_group() *)
Fixpoint most_recent (stack : list (list nat)) : option nat :=
  match stack with
  | [] => None
  | [] :: r => most_recent r
  | (g :: _) :: _ => Some g
  end.

(* _get_node_group_from_edge *)
Definition edge_source (s : fstate) (e : iedge) : result cls (option nat) :=
  if str_eqb (ie_from e) s_start then Ok None
  else match ie_from e with
       | [] => Ok (most_recent (f_stack s))
       | _ => match ids_get (f_ids s) (ie_from e) with
              | Some g => Ok (Some g)
              | None => crit EEdgeUnknownRow
              end
       end.

Definition with_store (s : fstate) (st : store) : fstate :=
  mkF st (f_stack s) (f_ids s) (f_ctx s) (f_uu s) (f_recs s).

(* _add_row_edge *)
Definition add_row_edge (s : fstate) (e : iedge) (conn : bool) : result cls fstate :=
  match edge_source s e with
  | Err x => Err x
  | Ok None => Ok s
  | Ok (Some g) =>
    match add_exit (fuel_of (f_store s)) (f_store s) g conn (ie_cond e) with
    | Ok st => Ok (with_store s st)
    | Err x => Err x
    end
  end.

(* append_node_group(new_group, row_id) for a freshly allocated group *)
Definition append_group (s : fstate) (g : group) (id : str) : fstate :=
  let k := length (f_store s) in
  let stack := match f_stack s with [] => [[k]] | top :: r => (k :: top) :: r end in
  mkF (f_store s ++ [g]) stack
      (match id with [] => f_ids s | _ => ids_set (f_ids s) id k end)
      (f_ctx s) (f_uu s) (f_recs s).

(* _parse_noop_row *)
Definition parse_noop (s : fstate) (edges : list iedge) (id : str) : result cls fstate :=
  do ps <- (fix go (l : list iedge) : result cls (list (nat * cond)) :=
              match l with
              | [] => Ok []
              | e :: more =>
                match edge_source s e with
                | Err x => Err x
                | Ok None => go more
                | Ok (Some g) => match go more with Ok r => Ok ((g, ie_cond e) :: r) | Err x => Err x end
                end
              end) edges;
  Ok (append_group s (GNoOp ps None) id).

(* generate_field_key: strip().lower().replace(" ", "_"), at most 36 characters, one ASCII
   letter.  lower() can change the length or produce ASCII letters only on non-ASCII input:
   such names are outside the model. *)
Definition has_letter (s : str) : bool := existsb (fun c => is_upper c || is_lower c) s.
Definition field_key_ok (name : str) : bool :=
  let k := strip name in
  N.leb (N.of_nat (length k)) c15_max_field_key_len && has_letter k.
Definition field_key (c : cls) (logged : bool) (name : str) : result cls unit :=
  if negb (is_ascii name) then Err EOutOfScope
  else if field_key_ok name then Ok tt
  else if logged then raise_logged c else raise c.

(* list_of_pairs_to_dict on webhook.headers *)
Definition headers_ok (h : list hitem) : bool :=
  match h with
  | [HStr []] => true
  | _ => forallb (fun x => match x with HList [_; _] => true | _ => false end) h
  end.

Definition too_long (v : str) : bool := N.ltb c15_max_value_len (N.of_nat (length v)).

Definition is_trivial_edge (e : iedge) : bool :=
  match ie_from e with [] => cond_empty (ie_cond e) | _ => false end.

(* _get_row_action: only whether it raises *)
Definition row_action (i : irow) : result cls unit :=
  match i_type i with
  | TSend => match i_main i with [] => raise_logged EEmptyText | _ => Ok tt end
  | TSaveValue =>
    match field_key EFieldKey true (i_save i) with
    | Err e => Err e
    | Ok _ => if too_long (i_main i) then raise_logged EValueTooLong else Ok tt
    end
  | TSaveResult => if too_long (i_main i) then raise_logged EValueTooLong else Ok tt
  | TAddGroup | TRemoveGroup => match i_list i with [] => raise EIndexErr | _ => Ok tt end
  | _ => Ok tt
  end.

Definition with_uu (s : fstate) (u : uuids) : fstate :=
  mkF (f_store s) (f_stack s) (f_ids s) (f_ctx s) u (f_recs s).
Definition add_recs (s : fstate) (l : list rec) : fstate :=
  mkF (f_store s) (f_stack s) (f_ids s) (f_ctx s) (f_uu s) (f_recs s ++ l).

(* _get_row_node, first statement: record_group_uuid(mainarg_groups[0], obj_id) *)
Definition row_group_record (s : fstate) (i : irow) : result cls fstate :=
  match i_type i, i_objid i with
  | (TAddGroup | TRemoveGroup | TSplitGroup), (_ :: _) =>
    match i_list i with
    | [] => raise EIndexErr
    | g :: _ => match record (f_uu s) (RGroup g (UGiven (i_objid i))) with
                | Ok u => Ok (with_uu s u) | Err e => Err e end
    end
  | _, _ => Ok s
  end.

(* start_new_flow: record_flow_uuid(mainarg_flow_name, obj_id) when obj_id is given *)
Definition row_flow_record (s : fstate) (i : irow) : result cls fstate :=
  match i_objid i with
  | [] => Ok s
  | _ => match record (f_uu s) (RFlow (i_main i) (UGiven (i_objid i))) with
         | Ok u => Ok (with_uu s u) | Err e => Err e end
  end.

(* _get_row_node: container side effects, then the node (its exit view) *)
Definition row_node (s : fstate) (i : irow) : result cls (fstate * xnode) :=
  do s1 <- row_group_record s i;
  match i_type i with
  | TSend | TSaveValue | TSaveResult => Ok (s1, XBasic false)
  | TAddGroup | TRemoveGroup =>
    Ok (add_recs s1 [RGroup (hd [] (i_list i)) (given (i_objid i))], XBasic false)
  | TStartFlow =>
    do s2 <- row_flow_record s1 i;
    match i_main i with
    | [] => raise EValueErr
    | _ => Ok (add_recs s2 [RFlow (i_main i) UNone], XEnter false false)
    end
  | TWebhook =>
    if negb (headers_ok (i_headers i)) then raise_logged EHeaders
    else match i_url i, i_save i with
         | [], _ | _, [] => raise EValueErr
         | _, _ => match field_key EFieldKey false (i_save i) with
                   | Ok _ => Ok (s1, XHook false false)
                   | Err e => Err e
                   end
         end
  | TWait => Ok (s1, XSwitch (new_router false (negb (N.eqb (i_noresp i) 0))))
  | TSplitValue => match i_main i with [] => raise EValueErr | _ => Ok (s1, XSwitch (new_router false false)) end
  | TSplitGroup => Ok (s1, XSwitch (new_router false false))
  | TSplitRandom => Ok (s1, XRandom [])
  | _ => Err EOutOfScope
  end.

Fixpoint repeat_str (s : str) (n : nat) : list str :=
  match n with O => [] | S k => s :: repeat_str s k end.

(* has_group cases of a router row are recorded at render time with uuid None: they can
   never conflict and do not register flows; they are left out of f_recs. *)

(* FlowParser._parse_row for every row type that is not a block delimiter or insert_as_block *)
Definition step_row (s : fstate) (i : irow) : result cls fstate :=
  if negb (i_inc i) then Ok s else
  match i_type i with
  | THardExit | TLooseExit =>
    let conn := match i_type i with THardExit => true | _ => false end in
    foldM (fun st e => add_row_edge st e conn) (i_edges i) s
  | TGoto =>
    let dests := match i_list i with
                 | [d] => repeat_str d (length (i_edges i))
                 | l => l
                 end in
    if negb (Nat.eqb (length (i_edges i)) (length dests)) then crit EGotoArity
    else foldM (fun st ed =>
                  match ids_get (f_ids st) (snd ed) with
                  | None => raise EGotoDest
                  | Some g => match entry_ok (fuel_of (f_store st)) (f_store st) g with
                              | Err x => Err x
                              | Ok _ => add_row_edge st (fst ed) true
                              end
                  end) (combine (i_edges i) dests) s
  | TNoOp => parse_noop s (i_edges i) (i_id i)
  | TInsert | TBeginFor | TEndFor | TBeginBlock | TEndBlock => Err EOutOfScope
  | _ =>
    do _ <- row_action i;
    do sx <- row_node s i;
    let (s1, x) := sx in
    do s2 <- (fix go (first : bool) (l : list iedge) (st : fstate) : result cls fstate :=
                match l with
                | [] => Ok st
                | e :: more =>
                  if negb (is_trivial_edge e) || first then
                    match add_row_edge st e true with Ok st' => go false more st' | Err x => Err x end
                  else go false more st
                end) true (i_edges i) s1;
    Ok (append_group s2 (GRow x (i_type i)) (i_id i))
  end.
