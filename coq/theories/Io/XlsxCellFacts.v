(* E9 / C07 — facts about the xlsx trip of one cell text (Io/XlsxCell.v).  The full statement "every cell text
   survives RowDataSheet.export(xlsx) + XLSXSheetReader" is DECIDED by the probed constant
   xlsx_export_text_cells. *)
From Coq Require Import List NArith Bool.
From RPFT Require Import Base.Sexp Base.PyStr Gen.Tables Io.Csv Io.Sanitize Io.XlsxCell.
Import ListNotations.
Local Open Scope N_scope.

(* the model with the probed constant abstracted *)
Definition export_cell_with (b : bool) (s : str) : xl_stored :=
  match bind_value s with
  | XlFormula f => if b then XlText f else XlFormula f
  | c => c
  end.
Definition xlsx_cell_roundtrip_with (b : bool) (s : str) : str := cell_text (load_cell (export_cell_with b s)).

Lemma xlsx_cell_roundtrip_probe s : xlsx_cell_roundtrip s = xlsx_cell_roundtrip_with xlsx_export_text_cells s.
Proof. reflexivity. Qed.

Lemma load_text s : cell_text (load_cell (XlText s)) = s.
Proof. destruct s; reflexivity. Qed.

(* what comes back, on either tree *)
Lemma xlsx_cell_roundtrip_with_spec b s :
  xlsx_cell_roundtrip_with b s = if is_formula_text s && negb b then [] else s.
Proof.
  unfold xlsx_cell_roundtrip_with, export_cell_with, bind_value.
  destruct (is_formula_text s); cbn [andb]; [|apply load_text].
  destruct b; cbn [negb]; [apply load_text|reflexivity].
Qed.

Theorem xlsx_cell_roundtrip_spec s :
  xlsx_cell_roundtrip s = if is_formula_text s && negb xlsx_export_text_cells then [] else s.
Proof. rewrite xlsx_cell_roundtrip_probe. apply xlsx_cell_roundtrip_with_spec. Qed.

(* a text that is not of the form "=…" (two or more characters) survives on either tree *)
Theorem xlsx_plain_text_survives s : is_formula_text s = false -> xlsx_cell_roundtrip s = s.
Proof. intros H. rewrite xlsx_cell_roundtrip_spec, H. reflexivity. Qed.

Definition xlsx_text_survives_full : Prop := forall s, xlsx_cell_roundtrip s = s.

(* "=2+2 is four" *)
Definition w_formula_text : str := [61; 50; 43; 50; 32; 105; 115; 32; 102; 111; 117; 114].

Theorem xlsx_text_survives_decided :
  if xlsx_export_text_cells then xlsx_text_survives_full else ~ xlsx_text_survives_full.
Proof.
  destruct xlsx_export_text_cells eqn:E.
  - intros s. rewrite xlsx_cell_roundtrip_spec, E, andb_false_r. reflexivity.
  - intros H. specialize (H w_formula_text). rewrite xlsx_cell_roundtrip_spec, E in H.
    change (is_formula_text w_formula_text && negb false) with true in H. discriminate H.
Qed.

(* the witness of the finding: the text comes back iff the export forces text cells, and empty otherwise;
   "=" alone (one character) is never a formula *)
Theorem xlsx_formula_witness :
  is_formula_text w_formula_text = true
  /\ xlsx_cell_roundtrip w_formula_text = (if xlsx_export_text_cells then w_formula_text else [])
  /\ xlsx_cell_roundtrip [c_equals] = [c_equals].
Proof.
  split; [reflexivity|]. split.
  - rewrite xlsx_cell_roundtrip_spec. change (is_formula_text w_formula_text) with true.
    destruct xlsx_export_text_cells; reflexivity.
  - apply xlsx_plain_text_survives. reflexivity.
Qed.

(* a whole row of cells *)
Theorem xlsx_row_survives_repaired :
  xlsx_export_text_cells = true -> forall cells : list str, map xlsx_cell_roundtrip cells = cells.
Proof.
  intros E cells. induction cells as [|c r IH]; cbn [map]; [reflexivity|].
  rewrite IH, xlsx_cell_roundtrip_spec, E, andb_false_r. reflexivity.
Qed.
