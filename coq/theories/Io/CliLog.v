(* E9 / C15 — what happens to a log record of logger "main" under ONE invocation environment of
   `rpft create_flows` (src/rpft/logger/logger.py initialize_main_logger + ShutdownHandler,
   logging.Logger.log / callHandlers), and the table of the environments the command can be
   started in.

   `rpft.cli` sets the logging configuration up when it is imported; nothing in the workbook
   changes it afterwards.  What it is depends on how the process was started: environment
   variables the package reads, the working directory (that is where the log file is opened),
   options.  The regenerated table `c15_log_configs` (translator/tables_c15.py +
   translator/c15_configs.py, which DISCOVER the variables and options in the tree at hand and
   probe the real `rpft.cli.main()` under each configuration, library call replaced) says, per
   configuration:

     start     0  the command gets as far as the library call
               1  it ends before (non-zero status, output path untouched): e.g. the log file
                  cannot be opened
               2  it ends before with status 0, output path untouched (nothing was asked)
               3  anything else
     level     the effective level of the logger: records below it are dropped
     handlers  every handler that sees a record of the logger, in the order callHandlers calls
               them, each with the lowest level at which its handle() ends the process
               (SystemExit) and the exit status it uses; 1000 = never
     observed  the same measured end to end through logger.log: (lowest level that ends the
               process, status) — the tie between [log_at] below and `logging`; for a
               configuration that does not start: (1000, the status it ended with)

   Definitions only. *)
From Coq Require Import List NArith Bool.
From RPFT Require Import Base.Sexp Gen.Tables.
Import ListNotations.
Local Open Scope N_scope.

Record log_config := mkLogConfig {
  lc_id : N;
  lc_start : N;
  lc_level : N;
  lc_handlers : list (N * N);
  lc_observed : N * N
}.

Definition lc_of (x : N * (N * (N * (list (N * N) * (N * N))))) : log_config :=
  match x with (i, (st, (lvl, (hs, obs)))) => mkLogConfig i st lvl hs obs end.

Definition log_configs : list log_config := map lc_of c15_log_configs.

Definition log_never : N := 1000.
Definition lvl_critical : N := 50.

(* Logger.callHandlers: the handlers are called in order; the first whose handle() raises
   SystemExit ends the process with that status (the later ones never see the record) *)
Fixpoint call_handlers (hs : list (N * N)) (lvl : N) : option N :=
  match hs with
  | [] => None
  | (t, e) :: r => if N.leb t lvl then Some e else call_handlers r lvl
  end.

(* Logger.log(lvl, ...): `Some status` = the process ends there; `None` = the call returns *)
Definition log_at (c : log_config) (lvl : N) : option N :=
  if N.ltb lvl (lc_level c) then None else call_handlers (lc_handlers c) lvl.

Definition started (c : log_config) : bool := N.eqb (lc_start c) 0.

(* a record of level lvl ends the process, with a non-zero status *)
Definition stops_at (c : log_config) (lvl : N) : bool :=
  match log_at c lvl with
  | Some e => negb (N.eqb e 0)
  | None => false
  end.

(* what the table must say of a configuration for the command to be trusted under it at level
   lvl: it never starts and leaves everything alone (start 1 or 2), or a record of that level
   ends it *)
Definition config_stops_at (lvl : N) (c : log_config) : bool :=
  if started c then stops_at c lvl
  else (N.eqb (lc_start c) 1 && negb (N.eqb (snd (lc_observed c)) 0)) || N.eqb (lc_start c) 2.

Definition every_config_stops_at (lvl : N) : bool := forallb (config_stops_at lvl) log_configs.

(* the model of the dispatch agrees with what the probe saw end to end, at the five named levels *)
Definition probe_levels : list N := [10; 20; 30; 40; 50].
Definition observed_at (c : log_config) (lvl : N) : option N :=
  if N.leb (fst (lc_observed c)) lvl then Some (snd (lc_observed c)) else None.
Definition log_model_agrees (c : log_config) : bool :=
  negb (started c)
  || forallb (fun lvl => match log_at c lvl, observed_at c lvl with
                         | Some a, Some b => N.eqb a b
                         | None, None => true
                         | _, _ => false
                         end) probe_levels.

(* the lowest named level at which the configuration ends the process *)
Definition config_threshold (c : log_config) : N :=
  match filter (fun lvl => match log_at c lvl with Some _ => true | None => false end) probe_levels with
  | l :: _ => l
  | [] => log_never
  end.

(* the configuration treats records as the default one does (same threshold): only then does
   the compile model, which knows the CRITICAL sites only, describe a run that succeeds *)
Definition like_default (c : log_config) : bool :=
  started c && N.eqb (config_threshold c) c15_shutdown_threshold.

Definition find_config (i : N) : option log_config :=
  find (fun c => N.eqb (lc_id c) i) log_configs.
