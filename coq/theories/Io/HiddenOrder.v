(* C13 — order sources: where the ORDER (or the value) of something the code computes can come from the
   process instead of the input.  Definitions only; facts in HiddenOrderFacts.v. *)
From Coq Require Import List NArith.
From Coq Require Import Bool Arith.
From RPFT Require Import Base.Sexp Base.PyStr Gen.Tables Io.Hidden Io.HiddenInventory.
Import ListNotations.

(* ------------------------------------------------------------------ order sources
   "... regardless of hash randomisation".  Gen.Tables.c13_order_sources lists, for every rpft module, every
   construct whose order or value is not a function of the input: set / frozenset values (iteration follows
   the per-process string hash or object addresses), directory enumerations, id() / hash() values, clocks and
   random numbers — each with its EXPOSURE read off the syntax tree (translator/tables_c13.py: OrderScan):
   `member` (only searched / measured / compared / sorted / updated: no order can leave it), `iter` (iterated,
   converted to a sequence, popped), `escape` (handed to other code), `value`.  Every entry that is not
   `member` must be listed here, with the reason why it cannot make an output depend on the process:
     5  a set of header patterns handed down to RowParser.matches_headers, which only SEARCHES it (a loop that
        returns True at the first match): RowDataSheet / unparse_row / unparse_row_recurse / to_row_data_sheet
     6  class-level read-only table, only searched (`in`)
     7  enumeration of the *.csv files of a workbook folder into a dict that is looked up BY NAME; its order
        reaches one result only: the order of the members of the `sheets` object of convert_to_json (a JSON
        object, i.e. an unordered map; the tie compares it as such between two enumerations)
     8  uuid4(): the one sanctioned source of values that are not a function of the input ([s_next] in the model).
        It is sanctioned WHEREVER the call sits ([sanctioned] below: kind entropy:uuid.uuid4, exposure value), so that
        wrapping it in a helper or moving it does not alarm; the code must still draw from it somewhere (an identifier
        source that stops calling uuid4() — random.getrandbits, a counter, a clock — fails the check twice: the new source
        is an unreviewed entry and no sanctioned one is left).  That one uuid4() value is not handed out twice is the
        business of the history oracle (invented-uuid-reused), not of this table.
   A new `list(set(..))`, a loop over a set, a `sorted(.., key=id)`, an os.listdir .. in the code changes
   the regenerated list, and [order_sources_okb] (vm_compute) stops checking until the entry is reviewed here. *)
Definition covered_order_exposures : list (str * str * str * nat) := [
  (* rpft.parsers.common.rowdatasheet:RowDataSheet.__init__ set escape *)
  ([114; 112; 102; 116; 46; 112; 97; 114; 115; 101; 114; 115; 46; 99; 111; 109; 109; 111; 110; 46; 114; 111; 119; 100; 97; 116; 97; 115; 104; 101; 101; 116; 58; 82; 111; 119; 68; 97; 116; 97; 83; 104; 101; 101; 116; 46; 95; 95; 105; 110; 105; 116; 95; 95]%N, [115; 101; 116]%N, [101; 115; 99; 97; 112; 101]%N, 5);
  (* rpft.parsers.common.rowdatasheet:RowDataSheet.__init__ set escape *)
  ([114; 112; 102; 116; 46; 112; 97; 114; 115; 101; 114; 115; 46; 99; 111; 109; 109; 111; 110; 46; 114; 111; 119; 100; 97; 116; 97; 115; 104; 101; 101; 116; 58; 82; 111; 119; 68; 97; 116; 97; 83; 104; 101; 101; 116; 46; 95; 95; 105; 110; 105; 116; 95; 95]%N, [115; 101; 116]%N, [101; 115; 99; 97; 112; 101]%N, 5);
  (* rpft.parsers.common.rowparser:RowParser.unparse_row set escape *)
  ([114; 112; 102; 116; 46; 112; 97; 114; 115; 101; 114; 115; 46; 99; 111; 109; 109; 111; 110; 46; 114; 111; 119; 112; 97; 114; 115; 101; 114; 58; 82; 111; 119; 80; 97; 114; 115; 101; 114; 46; 117; 110; 112; 97; 114; 115; 101; 95; 114; 111; 119]%N, [115; 101; 116]%N, [101; 115; 99; 97; 112; 101]%N, 5);
  (* rpft.parsers.common.rowparser:RowParser.unparse_row set escape *)
  ([114; 112; 102; 116; 46; 112; 97; 114; 115; 101; 114; 115; 46; 99; 111; 109; 109; 111; 110; 46; 114; 111; 119; 112; 97; 114; 115; 101; 114; 58; 82; 111; 119; 80; 97; 114; 115; 101; 114; 46; 117; 110; 112; 97; 114; 115; 101; 95; 114; 111; 119]%N, [115; 101; 116]%N, [101; 115; 99; 97; 112; 101]%N, 5);
  (* rpft.parsers.common.rowparser:RowParser.unparse_row_recurse set escape *)
  ([114; 112; 102; 116; 46; 112; 97; 114; 115; 101; 114; 115; 46; 99; 111; 109; 109; 111; 110; 46; 114; 111; 119; 112; 97; 114; 115; 101; 114; 58; 82; 111; 119; 80; 97; 114; 115; 101; 114; 46; 117; 110; 112; 97; 114; 115; 101; 95; 114; 111; 119; 95; 114; 101; 99; 117; 114; 115; 101]%N, [115; 101; 116]%N, [101; 115; 99; 97; 112; 101]%N, 5);
  (* rpft.parsers.common.rowparser:RowParser.unparse_row_recurse set escape *)
  ([114; 112; 102; 116; 46; 112; 97; 114; 115; 101; 114; 115; 46; 99; 111; 109; 109; 111; 110; 46; 114; 111; 119; 112; 97; 114; 115; 101; 114; 58; 82; 111; 119; 80; 97; 114; 115; 101; 114; 46; 117; 110; 112; 97; 114; 115; 101; 95; 114; 111; 119; 95; 114; 101; 99; 117; 114; 115; 101]%N, [115; 101; 116]%N, [101; 115; 99; 97; 112; 101]%N, 5);
  (* rpft.parsers.sheets:CSVSheetReader.__init__ dirlist:glob iter *)
  ([114; 112; 102; 116; 46; 112; 97; 114; 115; 101; 114; 115; 46; 115; 104; 101; 101; 116; 115; 58; 67; 83; 86; 83; 104; 101; 101; 116; 82; 101; 97; 100; 101; 114; 46; 95; 95; 105; 110; 105; 116; 95; 95]%N, [100; 105; 114; 108; 105; 115; 116; 58; 103; 108; 111; 98]%N, [105; 116; 101; 114]%N, 7);
  (* rpft.rapidpro.models.containers:FlowContainer.to_row_data_sheet set escape *)
  ([114; 112; 102; 116; 46; 114; 97; 112; 105; 100; 112; 114; 111; 46; 109; 111; 100; 101; 108; 115; 46; 99; 111; 110; 116; 97; 105; 110; 101; 114; 115; 58; 70; 108; 111; 119; 67; 111; 110; 116; 97; 105; 110; 101; 114; 46; 116; 111; 95; 114; 111; 119; 95; 100; 97; 116; 97; 95; 115; 104; 101; 101; 116]%N, [115; 101; 116]%N, [101; 115; 99; 97; 112; 101]%N, 5);
  (* rpft.rapidpro.models.containers:FlowContainer.to_row_data_sheet set escape *)
  ([114; 112; 102; 116; 46; 114; 97; 112; 105; 100; 112; 114; 111; 46; 109; 111; 100; 101; 108; 115; 46; 99; 111; 110; 116; 97; 105; 110; 101; 114; 115; 58; 70; 108; 111; 119; 67; 111; 110; 116; 97; 105; 110; 101; 114; 46; 116; 111; 95; 114; 111; 119; 95; 100; 97; 116; 97; 95; 115; 104; 101; 101; 116]%N, [115; 101; 116]%N, [101; 115; 99; 97; 112; 101]%N, 5);
  (* rpft.rapidpro.models.routers:RouterCase set escape *)
  ([114; 112; 102; 116; 46; 114; 97; 112; 105; 100; 112; 114; 111; 46; 109; 111; 100; 101; 108; 115; 46; 114; 111; 117; 116; 101; 114; 115; 58; 82; 111; 117; 116; 101; 114; 67; 97; 115; 101]%N, [115; 101; 116]%N, [101; 115; 99; 97; 112; 101]%N, 6)
].

Definition s_member : str := [109; 101; 109; 98; 101; 114]%N.
Definition order_exposed (e : str * str * str) : bool := negb (str_eqb (snd e) s_member).
Definition s_uuid4 : str := [101; 110; 116; 114; 111; 112; 121; 58; 117; 117; 105; 100; 46; 117; 117; 105; 100; 52]%N.   (* entropy:uuid.uuid4 *)
Definition s_value : str := [118; 97; 108; 117; 101]%N.                                                                 (* value *)
Definition sanctioned (e : str * str * str) : bool := str_eqb (snd (fst e)) s_uuid4 && str_eqb (snd e) s_value.
Definition order_reviewable (e : str * str * str) : bool := order_exposed e && negb (sanctioned e).
Definition order_sources_okb : bool :=
  list_eqb triple_eqb (filter order_reviewable c13_order_sources) (map fst covered_order_exposures)
  && existsb sanctioned c13_order_sources.

(* ------------------------------------------------------------------ why `member` uses are harmless
   A Python set iterates in an order the input does not determine: all the code can rely on is that the
   iteration is SOME arrangement of the elements.  The uses the scan classifies `member`: *)
Definition set_search (p : str -> bool) (iteration : list str) : bool := existsb p iteration.   (* x in s / an exists-loop such as matches_headers *)
Definition set_len (iteration : list str) : nat := length iteration.                             (* len(s) *)
Definition set_mem (x : str) (iteration : list str) : bool := existsb (str_eqb x) iteration.    (* x in s *)
(* and the use it classifies `iter`: list(s), for x in s: out.append(x), "".join(s) ... *)
Definition set_to_list (iteration : list str) : list str := iteration.
