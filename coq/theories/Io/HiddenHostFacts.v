(* C13 — facts about host operations (Io/HiddenHost.v): they are invisible to every later call, in particular they
   cannot bring the uuid counter back, so invented identifiers are not reused after the host process returned to a
   state it was in before. *)
From Coq Require Import List NArith Bool Arith.
From RPFT Require Import Base.Sexp Base.PyStr Base.Result Gen.Tables Io.Hidden Io.HiddenFreshFacts Io.HiddenHost.
Import ListNotations.

Lemma host_ops_invisible : forall hs h, forallb is_host hs = true -> run h hs = (h, map (fun _ => ONone) hs).
Proof.
  induction hs as [|c r IH]; intros h H; [reflexivity|].
  cbn [forallb] in H. apply andb_true_iff in H. destruct H as [Hc Hr].
  destruct c as [? ?|? ? ?|?|?|? ?|ok]; try (cbn [is_host] in Hc; discriminate Hc).
  destruct ok; [|cbn [is_host] in Hc; discriminate Hc].
  change (run h (COpaque true :: r)) with (let (h2, os) := run h r in (h2, ONone :: os)).
  rewrite (IH h Hr). reflexivity.
Qed.

Lemma host_ops_frame : forall hs h c, forallb is_host hs = true -> after_host h hs c = step h c.
Proof. intros hs h c H. unfold after_host. rewrite (host_ops_invisible hs h H). reflexivity. Qed.

Lemma run_app : forall a b h, run h (a ++ b) = (fst (run (fst (run h a)) b), snd (run h a) ++ snd (run (fst (run h a)) b)).
Proof.
  induction a as [|c r IH]; intros b h.
  - cbn [app run fst snd]. destruct (run h b); reflexivity.
  - change (run h ((c :: r) ++ b)) with (let (h1, o) := step h c in let (h2, os) := run h1 (r ++ b) in (h2, o :: os)).
    change (run h (c :: r)) with (let (h1, o) := step h c in let (h2, os) := run h1 r in (h2, o :: os)).
    destruct (step h c) as [h1 o]. rewrite (IH b h1). destruct (run h1 r) as [h2 os]. reflexivity.
Qed.

(* a history with host operations anywhere in the middle: same final state, same outcomes (None for the host operations) *)
Lemma host_ops_erasable : forall cs1 hs cs2 h, forallb is_host hs = true ->
  fst (run h (cs1 ++ hs ++ cs2)) = fst (run h (cs1 ++ cs2)) /\
  snd (run h (cs1 ++ hs ++ cs2)) = snd (run h cs1) ++ map (fun _ => ONone) hs ++ snd (run (fst (run h cs1)) cs2).
Proof.
  intros cs1 hs cs2 h H. rewrite (run_app cs1 (hs ++ cs2) h), (run_app cs1 cs2 h), (run_app hs cs2 (fst (run h cs1))).
  rewrite (host_ops_invisible hs _ H). cbn [fst snd]. split; reflexivity.
Qed.

(* [hs; compile]; anything; [hs; compile] — the same host operations before both compilations *)
Theorem fresh_never_reused_repeated_state : forall h hs hs' t1 w1 cs t2 w2,
  reachable h -> forallb is_host hs = true -> forallb is_host hs' = true ->
  forall u, In u (outcome_ids (snd (after_host h hs (CCreateFlows t1 w1)))) ->
            In u (outcome_ids (snd (after_host (fst (run (fst (after_host h hs (CCreateFlows t1 w1))) cs)) hs' (CCreateFlows t2 w2)))) ->
            exists s, u = Given s.
Proof.
  intros h hs hs' t1 w1 cs t2 w2 R H H' u. rewrite (host_ops_frame hs h _ H), (host_ops_frame hs' _ _ H').
  exact (fresh_never_reused h t1 w1 cs t2 w2 R u).
Qed.

Example fresh_never_reused_repeated_state_nonvacuous :
  In (Fresh 0) (outcome_ids (snd (after_host init [CHost; CHost] (CCreateFlows None wb_two)))) /\
  In (Fresh 4) (outcome_ids (snd (after_host (fst (after_host init [CHost; CHost] (CCreateFlows None wb_two))) [CHost; CHost] (CCreateFlows None wb_two)))).
Proof. vm_compute. split; auto 10. Qed.
