(* E9 / C14 — facts about the toolkit's reader glue (Sanitize.v): tablib's dimension checks
   on rectangular tables, a declarative specification of XLSXSheetReader._sanitize proved
   equal to the model, and its idempotence. *)
From Coq Require Import List NArith Bool Lia Arith.
From RPFT Require Import Base.Sexp Base.PyStr Base.Result Io.Csv Io.Sanitize.
Import ListNotations.

(* ================================================================== tablib dimension checks *)

Definition rect {H C} (t : table H C) : Prop := Forall (fun r => length r = length (hdr t)) (rws t).

Lemma width_rect {H C} (t : table H C) : rect t -> width t = length (hdr t).
Proof.
  unfold rect, width. destruct (rws t) as [|r rs]; [reflexivity|].
  intros Hr. inversion Hr as [|r' rs' Hlen Hrest]; subst. exact Hlen.
Qed.

Lemma forallb_len_rect {C} (rs : list (list C)) n :
  Forall (fun r => length r = n) rs -> forallb (fun x => Nat.eqb (length x) n) rs = true.
Proof.
  intros Hr. apply forallb_forall. intros x Hx. rewrite Forall_forall in Hr.
  apply Nat.eqb_eq. apply Hr, Hx.
Qed.

Lemma validate_len_rect {H C} (t : table H C) n : rect t -> n = length (hdr t) -> validate_len t n = true.
Proof.
  intros Hr Hn. unfold validate_len. rewrite (width_rect t Hr). destruct n as [|n].
  - rewrite <- Hn. apply forallb_len_rect. unfold rect in Hr. rewrite <- Hn in Hr. exact Hr.
  - rewrite <- Hn. destruct (Nat.eqb (S n) 0); [reflexivity|apply Nat.eqb_refl].
Qed.

Lemma append_rect {H C} (t : table H C) (r : list C) :
  rect t -> length r = length (hdr t) -> append t r = Ok (mkT (hdr t) (rws t ++ [r])).
Proof.
  intros Hr Hlen. unfold append. rewrite validate_len_rect by assumption. reflexivity.
Qed.

Lemma rect_snoc {H C} (h : list H) (rs : list (list C)) r :
  rect (mkT h rs) -> length r = length h -> rect (mkT h (rs ++ [r])).
Proof.
  unfold rect. cbn [hdr rws]. intros Hr Hlen. apply Forall_app. split; [exact Hr|]. constructor; [exact Hlen|constructor].
Qed.

(* appending rows of the right length one after the other never fails *)
Lemma foldM_append_rect {H C S} (g : S -> list C) (h : list H) (l : list S) : forall acc,
  rect (mkT h acc) -> Forall (fun x => length (g x) = length h) l ->
  foldM (fun t x => append t (g x)) l (mkT h acc) = Ok (mkT h (acc ++ map g l)).
Proof.
  induction l as [|x l IH]; intros acc Hr Hl.
  - cbn. rewrite app_nil_r. reflexivity.
  - inversion Hl as [|x' l' Hx Hrest]; subst. cbn [foldM map].
    rewrite append_rect by assumption. cbn [hdr rws].
    rewrite IH; [|apply rect_snoc; assumption|exact Hrest].
    rewrite <- app_assoc. reflexivity.
Qed.

Lemma set_headers_empty {H C} (h : list H) : set_headers (@empty_table H C) h = Ok (mkT h []).
Proof. unfold set_headers, validate_len, empty_table. cbn. destruct (length h); reflexivity. Qed.

(* ================================================================== _sanitize *)

(* the header row without its trailing None cells *)
Fixpoint strip_none (h : list xcell) : list xcell :=
  match h with
  | [] => []
  | c :: r =>
    match c, strip_none r with
    | None, [] => []
    | _, r' => c :: r'
    end
  end.

Lemma strip_none_snoc_none l : strip_none (l ++ [None]) = strip_none l.
Proof. induction l as [|c l IH]; [reflexivity|]. cbn [app strip_none]. rewrite IH. reflexivity. Qed.

Lemma strip_none_snoc_some l s : strip_none (l ++ [Some s]) = l ++ [Some s].
Proof.
  induction l as [|c l IH]; [reflexivity|]. cbn [app strip_none]. rewrite IH.
  destruct c; [reflexivity|]. destruct l; reflexivity.
Qed.

Lemma strip_none_repeat l k : strip_none (l ++ repeat None k) = strip_none l.
Proof.
  induction k as [|k IH]; [cbn; rewrite app_nil_r; reflexivity|].
  cbn [repeat]. rewrite repeat_cons, app_assoc, strip_none_snoc_none. exact IH.
Qed.

(* what strip_none is, declaratively: the unique split of the header row into a part that is
   empty or ends with a real header, and a block of None cells *)
Definition ends_some (l : list xcell) : Prop := l = [] \/ exists l' s, l = l' ++ [Some s].

Lemma strip_none_decomp h : exists k, h = strip_none h ++ repeat None k /\ ends_some (strip_none h).
Proof.
  induction h as [|c h IH] using rev_ind.
  - exists 0. split; [reflexivity|left; reflexivity].
  - destruct c as [s|].
    + rewrite strip_none_snoc_some. exists 0. split; [cbn; rewrite app_nil_r; reflexivity|right; eauto].
    + rewrite strip_none_snoc_none. destruct IH as [k [Hk He]]. exists (S k). split; [|exact He].
      cbn [repeat]. rewrite repeat_cons, app_assoc. f_equal. exact Hk.
Qed.

Lemma strip_none_unique h l k : h = l ++ repeat None k -> ends_some l -> strip_none h = l.
Proof.
  intros -> He. rewrite strip_none_repeat. destruct He as [-> | [l' [s ->]]]; [reflexivity|apply strip_none_snoc_some].
Qed.

Lemma strip_none_idem h : strip_none (strip_none h) = strip_none h.
Proof.
  destruct (strip_none_decomp h) as [k [_ He]].
  apply (strip_none_unique _ _ 0); [cbn; rewrite app_nil_r; reflexivity|exact He].
Qed.

Fixpoint drop_nones (rh : list xcell) : list xcell :=
  match rh with None :: r => drop_nones r | _ => rh end.

Lemma pop_trailing_none_drop rh :
  pop_trailing_none rh = match drop_nones rh with [] => Err EIndex | l => Ok (rev l) end.
Proof.
  induction rh as [|c r IH]; [reflexivity|]. destruct c; [reflexivity|]. cbn [pop_trailing_none drop_nones]. exact IH.
Qed.

Lemma rev_drop_nones rh : rev (drop_nones rh) = strip_none (rev rh).
Proof.
  induction rh as [|c r IH]; [reflexivity|]. cbn [rev]. destruct c as [s|].
  - rewrite strip_none_snoc_some. reflexivity.
  - rewrite strip_none_snoc_none. cbn [drop_nones]. exact IH.
Qed.

Lemma pop_trailing_none_spec h :
  pop_trailing_none (rev h) = match strip_none h with [] => Err EIndex | l => Ok l end.
Proof.
  rewrite pop_trailing_none_drop. pose proof (rev_drop_nones (rev h)) as E. rewrite rev_involutive in E.
  rewrite <- E. destruct (drop_nones (rev h)) as [|c l] eqn:Ed; [reflexivity|].
  destruct (rev (c :: l)) eqn:Er; [|reflexivity].
  apply (f_equal (@length _)) in Er. rewrite rev_length in Er. discriminate.
Qed.

Definition keep_row (r : list str) : bool := existsb nonempty r.

(* _sanitize, declaratively.  (The last case cannot happen on a table that tablib's XLSX
   import produced: its rows are as wide as the header row — see [sanitize_imported].) *)
Definition sanitize_decl (sheet : table xcell xcell) : result io_err (table xcell str) :=
  match hdr sheet with
  | [] => Err EType                               (* no header row at all: `None[-1]` *)
  | _ =>
    match strip_none (hdr sheet) with
    | [] => Err EIndex                            (* every header is None: pop from empty list *)
    | h' =>
      let w := length h' in
      let kept := filter keep_row (map (sanitize_row w) (rws sheet)) in
      if forallb (fun r => Nat.eqb (length r) w) kept then Ok (mkT h' kept)
      else Err EInvalidDimensions                 (* a kept row shorter than the headers *)
    end
  end.

Definition san_step (w : nat) (t : table xcell str) (r : list xcell) : result io_err (table xcell str) :=
  let nr := sanitize_row w r in if existsb nonempty nr then append t nr else Ok t.

Lemma keep_row_length r : keep_row r = true -> length r <> 0.
Proof. destruct r; [discriminate|discriminate]. Qed.

Lemma san_fold h' (Hh : length h' <> 0) rows : forall acc,
  rect (mkT h' acc) ->
  foldM (san_step (length h')) rows (mkT h' acc)
  = let kept := filter keep_row (map (sanitize_row (length h')) rows) in
    if forallb (fun r => Nat.eqb (length r) (length h')) kept then Ok (mkT h' (acc ++ kept))
    else Err EInvalidDimensions.
Proof.
  induction rows as [|r rows IH]; intros acc Hr.
  - cbn. rewrite app_nil_r. reflexivity.
  - cbn [foldM map filter]. unfold san_step at 1. fold (keep_row (sanitize_row (length h') r)).
    destruct (keep_row (sanitize_row (length h') r)) eqn:Ek.
    + cbn [forallb]. destruct (Nat.eqb (length (sanitize_row (length h') r)) (length h')) eqn:El.
      * apply Nat.eqb_eq in El. rewrite append_rect by assumption. cbn [hdr rws andb].
        rewrite IH by (apply rect_snoc; assumption). cbv zeta. rewrite <- app_assoc. reflexivity.
      * cbn [andb]. unfold append, validate_len. rewrite (width_rect _ Hr). cbn [hdr].
        apply keep_row_length in Ek.
        destruct (length (sanitize_row (length h') r)) as [|n] eqn:En; [congruence|].
        destruct (Nat.eqb (length h') 0) eqn:E0; [apply Nat.eqb_eq in E0; congruence|].
        rewrite El. reflexivity.
    + apply IH. exact Hr.
Qed.

Lemma sanitize_unfold sheet :
  sanitize sheet =
  match hdr sheet with
  | [] => Err EType
  | h => match pop_trailing_none (rev h) with
         | Err e => Err e
         | Ok h' => foldM (san_step (length h')) (rws sheet) (mkT h' [])
         end
  end.
Proof. reflexivity. Qed.

Theorem sanitize_spec sheet : sanitize sheet = sanitize_decl sheet.
Proof.
  rewrite sanitize_unfold. unfold sanitize_decl. destruct (hdr sheet) as [|c h] eqn:Eh; [reflexivity|].
  rewrite pop_trailing_none_spec. destruct (strip_none (c :: h)) as [|c' h'] eqn:Es; [reflexivity|].
  rewrite san_fold; [reflexivity|discriminate|constructor].
Qed.

(* on what tablib's import hands over (every row as wide as the header row) _sanitize never
   fails once there is a real header, and is exactly: strip, truncate, None -> '', drop *)
Lemma sanitize_row_length w r : (w <= length r)%nat -> length (sanitize_row w r) = w.
Proof. intros H. unfold sanitize_row. rewrite firstn_length, map_length. lia. Qed.

Lemma strip_none_length h : (length (strip_none h) <= length h)%nat.
Proof.
  destruct (strip_none_decomp h) as [k [Hk _]]. rewrite Hk at 2. rewrite app_length. lia.
Qed.

Theorem sanitize_imported sheet :
  rect sheet -> strip_none (hdr sheet) <> [] ->
  sanitize sheet = Ok (mkT (strip_none (hdr sheet))
                           (filter keep_row (map (sanitize_row (length (strip_none (hdr sheet)))) (rws sheet)))).
Proof.
  intros Hr Hs. rewrite sanitize_spec. unfold sanitize_decl.
  destruct (hdr sheet) as [|c h] eqn:Eh; [cbn in Hs; congruence|].
  destruct (strip_none (c :: h)) as [|c' h'] eqn:Es; [congruence|].
  cbv zeta. rewrite forallb_len_rect; [reflexivity|].
  apply Forall_forall. intros x Hx. apply filter_In in Hx. destruct Hx as [Hx _].
  apply in_map_iff in Hx. destruct Hx as [r [<- Hin]].
  apply sanitize_row_length. unfold rect in Hr. rewrite Forall_forall in Hr. rewrite (Hr r Hin), Eh, <- Es.
  apply strip_none_length.
Qed.

(* ---- idempotence: the table _sanitize returns, handed to _sanitize again, is unchanged *)

Definition relift (t : table xcell str) : table xcell xcell := mkT (hdr t) (map (map Some) (rws t)).

Lemma sanitize_row_some w r : length r = w -> sanitize_row w (map Some r) = r.
Proof.
  intros H. unfold sanitize_row. rewrite map_map. cbn [cell_text]. rewrite map_id. subst w. apply firstn_all.
Qed.

Lemma filter_id {A} (f : A -> bool) l : Forall (fun x => f x = true) l -> filter f l = l.
Proof.
  induction l as [|x l IH]; [reflexivity|]. intros H. inversion H as [|x' l' Hx Hl]; subst.
  cbn [filter]. rewrite Hx, IH by exact Hl. reflexivity.
Qed.

Theorem sanitize_idempotent sheet t : sanitize sheet = Ok t -> sanitize (relift t) = Ok t.
Proof.
  rewrite sanitize_spec. unfold sanitize_decl.
  destruct (hdr sheet) as [|c h] eqn:Eh; [discriminate|].
  destruct (strip_none (c :: h)) as [|c' h'] eqn:Es; [discriminate|]. cbv zeta.
  set (w := length (c' :: h')).
  set (kept := filter keep_row (map (sanitize_row w) (rws sheet))).
  destruct (forallb (fun r => Nat.eqb (length r) w) kept) eqn:Ef; [|discriminate].
  intros E. inversion E as [Et]. clear E.
  assert (Hlen : Forall (fun r => length r = w) kept).
  { apply Forall_forall. intros x Hx. rewrite forallb_forall in Ef. apply Nat.eqb_eq, Ef, Hx. }
  assert (Hkeep : Forall (fun r => keep_row r = true) kept).
  { apply Forall_forall. intros x Hx. unfold kept in Hx. apply filter_In in Hx. tauto. }
  assert (Hstrip : strip_none (c' :: h') = c' :: h').
  { rewrite <- Es. apply strip_none_idem. }
  rewrite sanitize_imported; unfold relift; cbn [hdr rws].
  - rewrite Hstrip. fold w. f_equal. f_equal.
    rewrite map_map.
    assert (Em : map (fun x => sanitize_row w (map Some x)) kept = kept).
    { rewrite <- (map_id kept) at 2. apply map_ext_in. intros r Hin. apply sanitize_row_some.
      rewrite Forall_forall in Hlen. apply Hlen, Hin. }
    rewrite Em. apply filter_id, Hkeep.
  - unfold rect. cbn [hdr rws]. apply Forall_map. revert Hlen. apply Forall_impl.
    intros r Hr. rewrite map_length. exact Hr.
  - rewrite Hstrip. discriminate.
Qed.

(* ---- a sheet exercising every clause: two trailing None headers, a None header inside, None
   and '' cells, content to the right of the last real header (cut off), a row whose only
   content is cut off (dropped), a row of None cells (dropped) *)
Local Open Scope N_scope.

Definition ex_sheet : table xcell xcell :=
  mkT [Some [97]; None; Some [98]; None; None]
      [ [Some [120]; None; Some []; Some [106; 117; 110; 107]; None];
        [None; Some []; None; Some [111; 117; 116]; None];
        [None; None; None; None; None];
        [None; None; Some [121]; None; None] ].

Definition ex_sanitized : table xcell str :=
  mkT [Some [97]; None; Some [98]] [ [[120]; []; []]; [[]; []; [121]] ].

Example sanitize_nonvacuous :
  rect ex_sheet /\ strip_none (hdr ex_sheet) = [Some [97]; None; Some [98]] /\
  sanitize ex_sheet = Ok ex_sanitized /\ sanitize (relift ex_sanitized) = Ok ex_sanitized.
Proof.
  split; [unfold rect, ex_sheet; cbn [hdr rws]; repeat constructor|].
  split; [reflexivity|]. split; [reflexivity|]. apply (sanitize_idempotent ex_sheet). reflexivity.
Qed.

(* the two failure modes of _sanitize as coded (exceptions in Python) *)
Example sanitize_errors :
  sanitize (mkT [] []) = Err EType /\ sanitize (mkT [None; None] [[Some [120]; None]]) = Err EIndex.
Proof. split; reflexivity. Qed.
