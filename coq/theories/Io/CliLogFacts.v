(* C15 — the exit decision under every invocation environment of the command (Io/CliLog.v,
   [cli_in] of Io/Cli.v).

   Decided by the regenerated table `c15_log_configs` (one row per configuration the translator
   discovered in the tree at hand and probed):
     * [log_model_tied]              the Gallina dispatch [log_at] gives, at the five named levels,
                                     what the probe saw end to end through logger.log;
     * [critical_stops_everywhere]   under every configuration that gets as far as the library
                                     call a CRITICAL record ends the process with a non-zero
                                     status; the others end before, touching nothing;
     * [site_levels_stop_everywhere] the same at the level of every LOGGER site of the model.
   Proved from them, for EVERY configuration of the table:
     * [reachable_config_terminates] it installs a terminating handler: some handler that sees
                                     the records of logger "main" exits with a non-zero status at
                                     a level <= CRITICAL, the logger lets CRITICAL through, and no
                                     handler called earlier ends the process with status 0;
     * [cli_in_error_no_file]        a workbook the compile model stops on ends the command with
                                     a non-zero status and the file system as it was;
     * [cli_in_ok_complete]          (configurations that treat records as the default one) a
                                     workbook that compiles is written out completely;
     * [cli_in_default]              configuration 0 is the command of Io/Cli.v, so the theorems
                                     of CliFacts.v are the instance "started the default way". *)
From Coq Require Import List NArith ZArith Bool Arith Lia.
From RPFT Require Import Base.Sexp Base.PyStr Base.Result Base.Json Gen.Tables
  Io.CliLog Io.CliFlow Io.CliIndex Io.CliJson Io.Cli Io.CliRowFacts Io.CliFacts.
Import ListNotations.
Local Open Scope N_scope.

(* ---------------------------------------------------------------- table facts *)
Lemma log_model_tied : forallb log_model_agrees log_configs = true.
Proof. vm_compute. reflexivity. Qed.

Lemma critical_stops_everywhere : every_config_stops_at lvl_critical = true.
Proof. vm_compute. reflexivity. Qed.

Lemma site_levels_stop_everywhere :
  forallb (fun ce : N * N => every_config_stops_at (snd ce)) c15_site_levels = true.
Proof. vm_compute. reflexivity. Qed.

Definition default_config_ok : bool :=
  match find_config 0 with
  | Some c =>
    started c && like_default c
    && forallb (fun ce : N * N => match log_at c (snd ce) with
                                  | Some e => N.eqb e c15_shutdown_exit
                                  | None => false
                                  end) c15_site_levels
  | None => false
  end.

Lemma default_config_fact : default_config_ok = true.
Proof. vm_compute. reflexivity. Qed.

(* ---------------------------------------------------------------- the dispatch *)
Lemma call_handlers_some hs lvl e :
  call_handlers hs lvl = Some e -> exists t, In (t, e) hs /\ t <= lvl.
Proof.
  induction hs as [|[t0 e0] r IH]; cbn [call_handlers]; [discriminate|].
  destruct (N.leb t0 lvl) eqn:Hle.
  - intros H. injection H as H. subst e0. exists t0. split; [left; reflexivity|]. apply N.leb_le. exact Hle.
  - intros H. destruct (IH H) as [t [Hin Ht]]. exists t. split; [right; exact Hin|exact Ht].
Qed.

(* no handler called before the one that ends the process ends it *)
Lemma call_handlers_first hs lvl e :
  call_handlers hs lvl = Some e ->
  exists pre t post, hs = pre ++ (t, e) :: post /\ t <= lvl /\ forall t' e', In (t', e') pre -> lvl < t'.
Proof.
  induction hs as [|[t0 e0] r IH]; cbn [call_handlers]; [discriminate|].
  destruct (N.leb t0 lvl) eqn:Hle.
  - intros H. injection H as H. subst e0. exists [], t0, r. repeat split.
    + apply N.leb_le. exact Hle.
    + intros t' e' [].
  - intros H. destruct (IH H) as [pre [t [post [Heq [Ht Hpre]]]]]. exists ((t0, e0) :: pre), t, post. repeat split.
    + rewrite Heq. reflexivity.
    + exact Ht.
    + intros t' e' [Hh|Hin].
      * injection Hh as H1 H2. subst t' e'. apply N.leb_gt. exact Hle.
      * apply (Hpre t' e' Hin).
Qed.

Lemma stops_at_spec c lvl :
  stops_at c lvl = true -> exists e, log_at c lvl = Some e /\ e <> 0.
Proof.
  unfold stops_at. destruct (log_at c lvl) as [e|]; [|discriminate].
  intros H. exists e. split; [reflexivity|]. apply negb_true_iff in H. apply N.eqb_neq. exact H.
Qed.

Lemma log_at_some c lvl e :
  log_at c lvl = Some e -> lc_level c <= lvl /\ call_handlers (lc_handlers c) lvl = Some e.
Proof.
  unfold log_at. destruct (N.ltb lvl (lc_level c)) eqn:Hlt; [discriminate|].
  intros H. split; [|exact H]. apply N.ltb_ge. exact Hlt.
Qed.

Lemma config_in_stops lvl cfg :
  every_config_stops_at lvl = true -> In cfg log_configs -> config_stops_at lvl cfg = true.
Proof.
  unfold every_config_stops_at. intros H Hin. rewrite forallb_forall in H. apply (H cfg Hin).
Qed.

(* ---------------------------------------------------------------- every configuration reachable from the CLI installs a terminating handler *)
Theorem reachable_config_terminates cfg :
  In cfg log_configs -> started cfg = true ->
  exists pre t e post,
    lc_handlers cfg = pre ++ (t, e) :: post /\ t <= lvl_critical /\ e <> 0 /\
    (forall t' e', In (t', e') pre -> lvl_critical < t') /\
    lc_level cfg <= lvl_critical /\ log_at cfg lvl_critical = Some e.
Proof.
  intros Hin Hst.
  pose proof (config_in_stops _ _ critical_stops_everywhere Hin) as H.
  unfold config_stops_at in H. rewrite Hst in H.
  destruct (stops_at_spec _ _ H) as [e [Hlog He]].
  destruct (log_at_some _ _ _ Hlog) as [Hlvl Hcall].
  destruct (call_handlers_first _ _ _ Hcall) as [pre [t [post [Heq [Ht Hpre]]]]].
  exists pre, t, e, post. repeat split; assumption.
Qed.

(* a configuration that does not get to the library call ended with a non-zero status (start 1)
   or was not asked anything (start 2); the table has no other kind *)
Lemma not_started_kinds cfg :
  In cfg log_configs -> started cfg = false ->
  (lc_start cfg = 1 /\ snd (lc_observed cfg) <> 0) \/ lc_start cfg = 2.
Proof.
  intros Hin Hst.
  pose proof (config_in_stops _ _ critical_stops_everywhere Hin) as H.
  unfold config_stops_at in H. rewrite Hst in H.
  apply orb_true_iff in H as [H|H].
  - apply andb_true_iff in H as [H1 H2]. left. split.
    + apply N.eqb_eq. exact H1.
    + apply negb_true_iff in H2. apply N.eqb_neq. exact H2.
  - right. apply N.eqb_eq. exact H.
Qed.

(* ---------------------------------------------------------------- the command under a configuration *)
Lemma assocN_in l k v : assocN l k = Some v -> In (k, v) l.
Proof.
  induction l as [|[a b] r IH]; cbn [assocN]; [discriminate|].
  destruct (N.eqb a k) eqn:E.
  - intros H. injection H as H. subst b. apply N.eqb_eq in E. subst a. left. reflexivity.
  - intros H. right. apply IH. exact H.
Qed.

Lemma exit_status_in_nonzero cfg c :
  In cfg log_configs -> started cfg = true -> exists e, exit_status_in cfg c = Some e /\ e <> 0.
Proof.
  intros Hin Hst. unfold exit_status_in.
  destruct (assocN c15_site_levels (cls_code c)) as [lvl|] eqn:Ha.
  - pose proof site_levels_stop_everywhere as Hall. rewrite forallb_forall in Hall.
    pose proof (Hall _ (assocN_in _ _ _ Ha)) as Hl. cbn [snd] in Hl.
    pose proof (config_in_stops _ _ Hl Hin) as H. unfold config_stops_at in H. rewrite Hst in H.
    apply stops_at_spec. exact H.
  - exists 1. split; [reflexivity|discriminate].
Qed.

Theorem cli_in_error_no_file cfg fuel wb dm out f c :
  In cfg log_configs ->
  compile fuel wb dm = Err c ->
  exists st, cli_in cfg fuel wb dm out f = Some (st, f) /\ (lc_start cfg <> 2 -> st <> 0).
Proof.
  intros Hin Hc. unfold cli_in. destruct (started cfg) eqn:Hst.
  - rewrite cli_shape, Hc. destruct (exit_status_in_nonzero cfg c Hin Hst) as [e [He Hne]].
    rewrite He. exists e. split; [reflexivity|intros _; exact Hne].
  - destruct (not_started_kinds cfg Hin Hst) as [[H1 H2]|H2].
    + rewrite H1. cbn. exists (snd (lc_observed cfg)). split; [reflexivity|intros _; exact H2].
    + rewrite H2. cbn. exists (snd (lc_observed cfg)). split; [reflexivity|intros H; contradiction H; reflexivity].
Qed.

(* whatever the workbook: a configuration that does not start leaves the file system alone *)
Theorem cli_in_not_started_untouched cfg fuel wb dm out f :
  In cfg log_configs -> started cfg = false ->
  cli_in cfg fuel wb dm out f = Some (snd (lc_observed cfg), f).
Proof.
  intros Hin Hst. unfold cli_in. rewrite Hst.
  destruct (not_started_kinds cfg Hin Hst) as [[H1 _]|H2]; [rewrite H1|rewrite H2]; reflexivity.
Qed.

Theorem cli_in_ok_complete cfg fuel wb dm out f d :
  started cfg = true -> like_default cfg = true ->
  compile fuel wb dm = Ok d ->
  cli_in cfg fuel wb dm out f = Some (0, fs_write f out (serialize (doc_json d))).
Proof.
  intros Hst Hl Hc. unfold cli_in. rewrite Hst, cli_shape, Hc, Hl. reflexivity.
Qed.

(* the output path under any configuration: what was there, or a complete document *)
Theorem cli_in_output_old_or_complete cfg fuel wb dm out f st f' :
  In cfg log_configs ->
  cli_in cfg fuel wb dm out f = Some (st, f') ->
  f' = f \/ exists d, compile fuel wb dm = Ok d /\ f' = fs_write f out (serialize (doc_json d)).
Proof.
  intros Hin H. destruct (compile fuel wb dm) as [d|c] eqn:Hc.
  - unfold cli_in in H. destruct (started cfg) eqn:Hst.
    + rewrite cli_shape, Hc in H. destruct (like_default cfg); [|discriminate].
      injection H as _ H. right. exists d. split; [reflexivity|symmetry; exact H].
    + destruct (N.eqb (lc_start cfg) 1 || N.eqb (lc_start cfg) 2)%bool; [|discriminate].
      injection H as _ H. left. symmetry. exact H.
  - destruct (cli_in_error_no_file cfg fuel wb dm out f c Hin Hc) as [st' [H' _]].
    rewrite H' in H. injection H as _ H. left. symmetry. exact H.
Qed.

Theorem cli_in_default :
  exists cfg, find_config 0 = Some cfg /\ In cfg log_configs /\ started cfg = true /\ like_default cfg = true /\
              forall fuel wb dm out f, cli_in cfg fuel wb dm out f = Some (cli fuel wb dm out f).
Proof.
  pose proof default_config_fact as H. unfold default_config_ok in H.
  destruct (find_config 0) as [cfg|] eqn:Hf; [|discriminate].
  apply andb_true_iff in H as [H Hsites]. apply andb_true_iff in H as [Hst Hl].
  exists cfg. split; [reflexivity|]. split.
  { unfold find_config in Hf. apply find_some in Hf. exact (proj1 Hf). }
  split; [exact Hst|]. split; [exact Hl|].
  intros fuel wb dm out f. unfold cli_in, cli. rewrite Hst, cli_shape, Hl.
  destruct (compile fuel wb dm) as [d|c]; [reflexivity|].
  unfold exit_status_in, exit_status.
  destruct (assocN c15_site_levels (cls_code c)) as [lvl|] eqn:Ha; [|reflexivity].
  rewrite forallb_forall in Hsites. pose proof (Hsites _ (assocN_in _ _ _ Ha)) as Hs. cbn [snd] in Hs.
  destruct (log_at cfg lvl) as [e|]; [|discriminate].
  apply N.eqb_eq in Hs. subst e. reflexivity.
Qed.

(* non-vacuity: the table has the default configuration; it starts and is like itself *)
Lemma configs_nonvacuous :
  exists cfg, In cfg log_configs /\ lc_id cfg = 0 /\ started cfg = true /\ like_default cfg = true /\
              stops_at cfg lvl_critical = true.
Proof.
  destruct cli_in_default as [cfg [Hf [Hin [Hst [Hl _]]]]].
  exists cfg. split; [exact Hin|]. split.
  { unfold find_config in Hf. apply find_some in Hf. apply N.eqb_eq. exact (proj2 Hf). }
  split; [exact Hst|]. split; [exact Hl|].
  pose proof (config_in_stops _ _ critical_stops_everywhere Hin) as H.
  unfold config_stops_at in H. rewrite Hst in H. exact H.
Qed.
