(* C13 — identifiers of one compiled flow: given ones reach their node / reference verbatim,
   invented ones are pairwise distinct and drawn during this flow's own parse. *)
From Coq Require Import List NArith ZArith Bool Arith Lia.
From RPFT Require Import Base.Sexp Base.PyStr Base.PyStrFacts Base.Result Gen.Tables
  Io.Hidden Io.HiddenFacts Io.HiddenRenderFacts Io.HiddenHistoryFacts Io.HiddenFreshFacts.
Import ListNotations.

(* ------------------------------------------------------------------ given ids, loop-free sheets *)
Definition flat_row (r : frow) : bool :=
  match r with FSend _ _ | FGroup _ _ _ | FEnter _ _ _ => true | _ => false end.

(* what the node compiled from a row must look like *)
Definition row_node (r : frow) (x : uuid * act) : Prop :=
  match r with
  | FSend nid c => (nid <> [] -> fst x = Given nid) /\ exists t, snd x = ASend t /\ (forall s, c = Lit s -> t = s)
  | FGroup nid g gid => (nid <> [] -> fst x = Given nid) /\ snd x = AGroup g (opt_given gid)
  | FEnter nid f fid => (nid <> [] -> fst x = Given nid) /\ snd x = AEnter f None
  | _ => False
  end.

Lemma post_weaken {A} (m : M A) (Q R : A -> Prop) : post m Q -> (forall a, Q a -> R a) -> post m R.
Proof. intros H HQR s s' a E. apply HQR. exact (H _ _ _ E). Qed.

Lemma post_node_uuid nid : post (node_uuid nid) (fun u => nid <> [] -> u = Given nid).
Proof.
  destruct nid as [|ch r]; cbn [node_uuid].
  - intros s s' a _ H. exfalso. apply H. reflexivity.
  - apply post_ret. intros _. reflexivity.
Qed.

Lemma post_render_cell sp c : post (render_cell sp c) (fun t => forall s, c = Lit s -> t = s).
Proof.
  destruct c as [s0|x]; cbn [render_cell].
  - apply post_ret. intros s E. congruence.
  - intros s s' a _ s1 E. discriminate.
Qed.

Lemma post_parse_flat sp r a :
  flat_row r = true ->
  post (parse_frow sp r a) (fun a' => exists x, p_nodes a' = p_nodes a ++ [x] /\ row_node r x).
Proof.
  destruct r as [nid c|nid g gid|nid f fid|v its body| |]; intros F; try discriminate; cbn [parse_frow].
  - eapply post_bind; [apply post_with, post_render_cell|]. intros t Ht.
    apply post_with. eapply post_bind; [apply post_node_uuid|]. intros u Hu. apply post_ret.
    exists (u, ASend t). split; [reflexivity|]. split; [exact Hu|]. exists t. split; [reflexivity|exact Ht].
  - eapply post_bind; [apply post_any|]. intros _ _.
    apply post_with. eapply post_bind; [apply post_any|]. intros c1 _.
    eapply post_bind; [apply post_node_uuid|]. intros u Hu. apply post_ret.
    exists (u, AGroup g (opt_given gid)). split; [reflexivity|]. split; [exact Hu|reflexivity].
  - eapply post_bind; [apply post_any|]. intros _ _.
    apply post_with. eapply post_bind; [apply post_any|]. intros c1 _.
    eapply post_bind; [apply post_node_uuid|]. intros u Hu. apply post_ret.
    exists (u, AEnter f None). split; [reflexivity|]. split; [exact Hu|reflexivity].
Qed.

Lemma post_parse_flat_rows sp : forall rows a,
  forallb flat_row rows = true ->
  post (parse_frows sp rows a) (fun a' => exists new, p_nodes a' = p_nodes a ++ new /\ Forall2 row_node rows new).
Proof.
  induction rows as [|r rows IH]; intros a F; cbn [parse_frows].
  - apply post_ret. exists []. split; [rewrite app_nil_r; reflexivity|constructor].
  - cbn in F. apply andb_true_iff in F. destruct F as [F1 F2].
    eapply post_bind; [apply post_parse_flat; exact F1|]. intros a1 (x & E1 & R1).
    eapply post_weaken; [apply IH; exact F2|]. intros a2 (new & E2 & R2).
    exists (x :: new). split; [rewrite E2, E1, <- app_assoc; reflexivity|constructor; assumption].
Qed.

(* 6a. GIVEN IDS VERBATIM, parse: in a loop-free sheet the k-th node is the k-th row — its
   uuid is the row's _nodeId when there is one, its group reference carries the row's obj_id,
   a literal text is the text *)
Theorem parse_flow_given_verbatim nm rows c :
  forallb flat_row rows = true ->
  post (parse_flow nm rows c) (fun r => f_name (fst r) = nm /\ Forall2 row_node rows (f_nodes (fst r))).
Proof.
  intros F. unfold parse_flow. eapply post_bind; [apply post_any|]. intros ctx _.
  eapply post_bind; [apply post_any|]. intros sp _.
  eapply post_bind; [apply post_parse_flat_rows; exact F|]. intros a (new & E & R). cbn in E.
  eapply post_bind; [apply post_any|]. intros u _. apply post_ret. cbn. split; [reflexivity|].
  rewrite E. exact R.
Qed.

(* 6b. ... and through render: the node keeps that uuid; a reference that had an obj_id keeps it *)
Theorem row_to_rendered_node r x x' :
  row_node r x -> node_agree x x' ->
  match r with
  | FSend nid c => (nid <> [] -> fst x' = Given nid) /\ exists t, snd x' = ASend t /\ (forall s, c = Lit s -> t = s)
  | FGroup nid g gid => (nid <> [] -> fst x' = Given nid) /\
                        exists u', snd x' = AGroup g u' /\ truthy u' = true /\ (gid <> [] -> u' = Some (Given gid))
  | FEnter nid f fid => (nid <> [] -> fst x' = Given nid) /\ exists u', snd x' = AEnter f u' /\ truthy u' = true
  | _ => False
  end.
Proof.
  destruct r as [nid c|nid g gid|nid f fid|v its body| |]; cbn [row_node]; try tauto.
  - intros [H1 (t & H2 & H3)] [A1 A2]. rewrite H2 in A2. split; [intros N; rewrite A1; auto|]. exists t. split; assumption.
  - intros [H1 H2] [A1 A2]. rewrite H2 in A2. destruct A2 as (u' & B1 & B2 & B3).
    split; [intros N; rewrite A1; auto|]. exists u'. repeat split; try assumption.
    intros N. destruct gid as [|ch rest]; [contradiction|]. apply B3. reflexivity.
  - intros [H1 H2] [A1 A2]. rewrite H2 in A2. destruct A2 as (u' & B1 & B2 & B3).
    split; [intros N; rewrite A1; auto|]. exists u'. split; assumption.
Qed.

Definition s_n1 : str := [110; 49]%N.
Definition s_g1 : str := [103; 49]%N.
Example given_verbatim_nonvacuous :
  exists s' f c', parse_flow [102]%N [FSend s_n1 (Lit [104]%N); FGroup [] [71]%N s_g1] empty_cont (enter0 init) = (s', Ok (f, c'))
                  /\ f_nodes f = [(Given s_n1, ASend [104]%N); (Fresh 0, AGroup [71]%N (Some (Given s_g1)))].
Proof. eexists. eexists. eexists. vm_compute. split; reflexivity. Qed.

(* ------------------------------------------------------------------ invented ids of one flow *)
Definition fresh_nums (l : list uuid) : list nat :=
  flat_map (fun u => match u with Fresh n => [n] | Given _ => [] end) l.

Lemma fresh_nums_app l1 l2 : fresh_nums (l1 ++ l2) = fresh_nums l1 ++ fresh_nums l2.
Proof. unfold fresh_nums. apply flat_map_app. Qed.

(* the object ids of the nodes parsed so far: distinct invented numbers, all in [lo, n) *)
Definition dpst (lo n : nat) (a : pstate) : Prop :=
  bpst n a /\ NoDup (fresh_nums (map fst (p_nodes a))) /\
  Forall (fun m => lo <= m < n) (fresh_nums (map fst (p_nodes a))).

Lemma up_dpst lo : up (dpst lo).
Proof.
  intros n n' a L (H1 & H2 & H3). split; [eapply up_bpst; eassumption|]. split; [exact H2|].
  eapply Forall_impl; [|exact H3]. intros m Hm. cbn beta in *. lia.
Qed.

Lemma bd_node_uuid_lo n0 nid : bd n0 (node_uuid nid) (fun n u => bu n u /\ forall m, u = Fresh m -> n0 <= m).
Proof.
  destruct nid; cbn [node_uuid].
  - intros s L. cbn. split; [lia|]. intros a E. inversion E; subst. cbn. split; [lia|]. intros m X. inversion X. lia.
  - intros s L. cbn. split; [lia|]. intros a E. inversion E; subst. cbn. split; [exact I|]. intros m X. discriminate.
Qed.

Lemma NoDup_snoc' {A} (l : list A) x : NoDup l -> ~ In x l -> NoDup (l ++ [x]).
Proof. apply NoDup_snoc. Qed.

Lemma dpst_add lo n1 n2 a u x c :
  lo <= n1 -> dpst lo n1 a -> n1 <= n2 -> bu n2 u -> (forall m, u = Fresh m -> n1 <= m) -> bact n2 x -> bcont n2 c ->
  dpst lo n2 (mkP (p_nodes a ++ [(u, x)]) c).
Proof.
  intros LO (H1 & H2 & H3) L Hu Hm Hx Hc.
  assert (H1' : bpst n2 a) by (eapply up_bpst; eassumption).
  split; [apply bpst_add; assumption|]. cbn [p_nodes]. rewrite map_app, fresh_nums_app. cbn [map fst fresh_nums flat_map].
  destruct u as [s|m]; cbn.
  - rewrite !app_nil_r. split; [exact H2|]. eapply Forall_impl; [|exact H3]. intros k Hk. cbn beta in *. lia.
  - specialize (Hm m eq_refl). cbn in Hu. split.
    + apply NoDup_snoc; [exact H2|]. intros X. rewrite Forall_forall in H3. specialize (H3 m X). cbn beta in *. lia.
    + apply Forall_app. split; [eapply Forall_impl; [|exact H3]; intros k Hk; cbn beta in *; lia|]. constructor; [lia|constructor].
Qed.

Lemma dpst_cont lo n a c : dpst lo n a -> bcont n c -> dpst lo n (mkP (p_nodes a) c).
Proof. intros ((H0 & _) & H2 & H3) Hc. split; [split; assumption|]. split; assumption. Qed.

Lemma bd_dparse_frow lo : forall r sp n0 a, lo <= n0 -> dpst lo n0 a -> bd n0 (parse_frow sp r a) (dpst lo).
Proof.
  induction r as [n c|n g i|n f i|v its body IHb| |] using frow_ind2; intros sp n0 a LO W; cbn [parse_frow].
  - eapply bd_bind; [apply bd_with, bd_render_cell|]. intros t n1 L1 _.
    apply bd_with. eapply bd_bind; [apply bd_node_uuid_lo|]. intros u n2 L2 [Hu Hm].
    apply bd_ret; [apply up_dpst|].
    assert (W1 : dpst lo n1 a) by (eapply up_dpst; eassumption).
    eapply (dpst_add lo n1 n2); [lia|exact W1|exact L2|exact Hu|exact Hm|exact I|].
    eapply up_bcont; [|exact (proj2 (proj1 W1))]. exact L2.
  - eapply bd_bind; [apply bd_with_tt|]. intros _ n1 L1 _.
    assert (W1 : dpst lo n1 a) by (eapply up_dpst; eassumption).
    apply bd_with. eapply bd_bind with (Q := bcont).
    + destruct i; [apply bd_ret; [exact up_bcont|exact (proj2 (proj1 W1))]|apply bd_lift_rec_g; [exact (proj2 (proj1 W1))|exact I]].
    + intros c1 n2 L2 Hc. eapply bd_bind; [apply bd_node_uuid_lo|]. intros u n3 L3 [Hu Hm].
      apply bd_ret; [apply up_dpst|].
      eapply (dpst_add lo n1 n3); [lia|exact W1|lia|exact Hu|intros m X; specialize (Hm m X); lia|apply opt_given_b|eapply up_bcont; [|exact Hc]; lia].
  - eapply bd_bind; [apply bd_with_tt|]. intros _ n1 L1 _.
    assert (W1 : dpst lo n1 a) by (eapply up_dpst; eassumption).
    apply bd_with. eapply bd_bind with (Q := bcont).
    + destruct i; [apply bd_ret; [exact up_bcont|exact (proj2 (proj1 W1))]|apply bd_lift_rec_f; [exact (proj2 (proj1 W1))|exact I]].
    + intros c1 n2 L2 Hc. eapply bd_bind; [apply bd_node_uuid_lo|]. intros u n3 L3 [Hu Hm].
      apply bd_ret; [apply up_dpst|].
      eapply (dpst_add lo n1 n3); [lia|exact W1|lia|exact Hu|intros m X; specialize (Hm m X); lia|exact I|eapply up_bcont; [|exact Hc]; lia].
  - eapply bd_bind; [apply bd_with_tt|]. intros _ n1' L1' _.
    eapply bd_bind; [apply bd_read|]. intros d0 n1 L1'' _.
    assert (L1 : n0 <= n1) by lia.
    assert (W1 : dpst lo n1 a) by (eapply up_dpst; eassumption).
    assert (LO1 : lo <= n1) by lia.
    eapply bd_bind with (Q := dpst lo).
    + clear W L1 L1'' LO. revert n1 a W1 LO1. induction its as [|it rest IHits]; intros n1 a W1 LO1.
      * apply bd_ret; [apply up_dpst|exact W1].
      * eapply bd_bind; [apply bd_sp|]. intros _ n2 L2 _.
        assert (W2 : dpst lo n2 a) by (eapply up_dpst; eassumption).
        assert (LO2 : lo <= n2) by lia.
        eapply bd_bind with (Q := dpst lo).
        -- clear IHits W1 L2 LO1. revert n2 a W2 LO2. induction IHb as [|x t Hx Ht IHt]; intros n2 a W2 LO2.
           ++ apply bd_ret; [apply up_dpst|exact W2].
           ++ eapply bd_bind; [apply Hx; [exact LO2|exact W2]|]. intros a1 n3 L3 W3. apply IHt; [exact W3|lia].
        -- intros a' n3 L3 W3. eapply bd_bind; [apply bd_with_tt|]. intros _ n4 L4 _.
           apply IHits; [eapply up_dpst; eassumption|lia].
    + intros a1 n2 L2 W2. eapply bd_bind; [apply bd_skip_empty_body|]. intros _ n3' L3' _.
      eapply bd_bind; [apply bd_leave_loop|]. intros _ n3 L3'' _.
      assert (L3 : n2 <= n3) by lia.
      apply bd_ret; [apply up_dpst|]. eapply up_dpst; eassumption.
  - apply bd_with, bd_throw.
  - eapply bd_bind; [apply bd_with_tt|]. intros _ n1 L1 _. apply bd_with, bd_throw.
Qed.

Lemma bd_dparse_frows lo : forall b sp n0 a, lo <= n0 -> dpst lo n0 a -> bd n0 (parse_frows sp b a) (dpst lo).
Proof.
  induction b as [|r b IH]; intros sp n0 a LO W; cbn [parse_frows].
  - apply bd_ret; [apply up_dpst|exact W].
  - eapply bd_bind; [apply (bd_dparse_frow lo); assumption|]. intros a1 n1 L1 W1. apply IH; [lia|exact W1].
Qed.

(* 5c. INVENTED IDS ARE NEVER REUSED BETWEEN OBJECTS of one compiled flow: the flow's uuid and
   its nodes' uuids, as far as they are invented, are pairwise distinct, and every one of them
   was drawn from the counter during this flow's own parse (so the flows of one compilation,
   parsed one after the other, cannot share one either) *)
Theorem parse_flow_fresh_distinct n0 nm rows c :
  bcont n0 c ->
  bd n0 (parse_flow nm rows c)
     (fun n r => NoDup (fresh_nums (map fst (f_nodes (fst r)) ++ [f_uuid (fst r)]))
                 /\ Forall (fun m => n0 <= m < n) (fresh_nums (map fst (f_nodes (fst r)) ++ [f_uuid (fst r)]))).
Proof.
  intros W. unfold parse_flow. eapply bd_bind; [apply bd_alloc|]. intros ctx n1 L1 _.
  eapply bd_bind with (Q := TT).
  { unfold sheet_parser_init. apply bd_TT_bind; [apply bd_read|]. intros v n2. apply bd_alloc. }
  intros sp n2 L2 _.
  eapply bd_bind; [apply (bd_dparse_frows n0) with (a := mkP [] c); [lia|]|].
  { repeat split; try constructor. all: try (eapply up_bcont; [|exact W]; lia).
    all: destruct W as (W1 & W2 & W3 & W4); try (eapply (up_Forall _ up_bflow); [|eassumption]; lia);
      try (eapply up_bdict; [|eassumption]; lia). }
  intros a n3 L3 (Wa & ND & RG).
  intros s Ls. cbn. split; [lia|]. intros r E. inversion E; subst. cbn [fst f_nodes f_uuid].
  rewrite fresh_nums_app. cbn [fresh_nums flat_map]. rewrite app_nil_r. split.
  - apply NoDup_snoc; [exact ND|]. intros X. rewrite Forall_forall in RG. specialize (RG _ X). cbn beta in *. lia.
  - apply Forall_app. split; [eapply Forall_impl; [|exact RG]; intros m Hm; cbn beta in *; lia|]. constructor; [lia|constructor].
Qed.

Example parse_flow_fresh_distinct_nonvacuous :
  exists s' f c', parse_flow [102]%N [FSend [] (Lit [104]%N); FFor [120]%N [[97]%N; [98]%N] [FSend [] (Var [120]%N)]] empty_cont (enter0 init) = (s', Ok (f, c'))
                  /\ fresh_nums (map fst (f_nodes f) ++ [f_uuid f]) = [0; 1; 2; 3].
Proof. eexists. eexists. eexists. vm_compute. split; reflexivity. Qed.
