(* C15 — the full-strength statements of the detection theorems that are proved only in part
   (`..._partial` in CliRowFacts.v / CliCatFacts.v / CliFacts.v).  Definitions only: these
   propositions are NOT proved; they say what the partial theorems leave open.  The harness
   (harness/c15.py) exercises these injections on the real command. *)
From Coq Require Import List NArith Bool Arith.
From RPFT Require Import Base.Sexp Base.PyStr Base.Result Gen.Tables
  Io.CliFlow Io.CliIndex Io.CliSimFacts Io.CliRowFacts Io.CliCatFacts.
Import ListNotations.

Fixpoint remove_nth {T} (l : list T) (n : nat) : list T :=
  match l, n with
  | [], _ => []
  | _ :: r, O => r
  | x :: r, S k => x :: remove_nth r k
  end.

Fixpoint delete_row (wb : workbook) (t0 : str) (p : nat) : workbook :=
  match wb with
  | [] => []
  | (n, s) :: rest =>
    if str_eqb n t0
    then (n, match s with SFlow rows => SFlow (remove_nth rows p) | _ => s end) :: rest
    else (n, s) :: delete_row rest t0 p
  end.

(* proved: detect_unterminated_block (the sheet cut off inside a block).  Open: a terminator
   deleted in the middle of the sheet — the rows after it are then parsed inside the block, and
   the command stops with SOME class (unterminated block, wrong terminator of an enclosing
   block, or whatever the displaced rows provoke first). *)
Definition detect_deleted_terminator_full : Prop :=
  forall fuel wb dm d t0 p r t1 q1 s1 bt1 o1,
    compile fuel wb dm = Ok d ->
    nth_error (rows_of wb t0) p = Some r ->
    (r_type r = TEndFor \/ r_type r = TEndBlock) ->
    compile_trap fuel wb dm t0 p false sel_read = Err (TTrap t1 q1 s1 bt1 o1) ->
    exists c, compile fuel (delete_row wb t0 p) dm = Err c /\ c <> EOutOfScope /\ c <> EOutOfFuel.

Definition set_kth_edge (r : frow) (k : nat) (e : edge) : frow := set_edges r (set_nth (r_edges r) k e).

(* proved: detect_edge_from_unknown_row_partial (first edge of node, exit and no_op rows).
   Open: any edge of the row, and go_to / begin_for / begin_block / insert_as_block rows. *)
Definition detect_edge_from_unknown_row_full : Prop :=
  forall fuel wb dm d t0 p r s bt ghost k e,
    compile fuel wb dm = Ok d ->
    nth_error (rows_of wb t0) p = Some r ->
    r_type r <> TEndFor -> r_type r <> TEndBlock ->
    nth_error (r_edges r) k = Some e ->
    evaluated_at fuel wb dm t0 p s bt ->
    strip ghost <> [] -> str_eqb (strip ghost) s_start = false -> ids_get (f_ids s) (strip ghost) = None ->
    compile fuel (set_row wb t0 p (set_kth_edge r k (mkEdge [Lit ghost] (e_cond e)))) dm = Err EEdgeUnknownRow.

(* proved: detect_overlong_category_partial (first edge).  Open: any edge. *)
Definition detect_overlong_category_full : Prop :=
  forall fuel wb dm d t0 p r s bt k e nm,
    compile fuel wb dm = Ok d ->
    nth_error (rows_of wb t0) p = Some r ->
    is_node_type (r_type r) = true ->
    nth_error (r_edges r) k = Some e ->
    evaluated_at fuel wb dm t0 p s bt ->
    nm <> [] -> (c15_max_category_len < N.of_nat (length nm))%N ->
    (* the edge creates a category in the state in which it is processed *)
    (forall s' f0, render (f_ctx s) (e_from e) = Ok f0 -> f_ids s' = f_ids s -> f_stack s' = f_stack s ->
                   cat_site s' (mkIE f0 (with_name (e_cond e) nm)) = true) ->
    compile fuel (set_row wb t0 p (set_kth_edge r k (mkEdge (e_from e) (with_name (e_cond e) nm)))) dm = Err ECatName.

(* proved: detect_uuid_conflict_partial (add_to_group / remove_from_group rows against what the
   container already recorded).  Open: split_by_group and start_new_flow rows with an obj_id,
   a flow defined in the workbook that a start_new_flow row gives another uuid, and conflicts
   that only surface when the container is rendered (rows inside templates inserted as blocks). *)
Definition detect_uuid_conflict_full : Prop :=
  forall fuel wb dm d t0 p r s bt u name old,
    compile fuel wb dm = Ok d ->
    nth_error (rows_of wb t0) p = Some r ->
    (r_type r = TAddGroup \/ r_type r = TRemoveGroup \/ r_type r = TSplitGroup \/ r_type r = TStartFlow) ->
    evaluated_at fuel wb dm t0 p s bt ->
    (match r_type r with
     | TStartFlow => render (f_ctx s) (r_main r) = Ok name /\ uget (uu_flows (f_uu s)) name = Some old
     | _ => (exists l, mapM (render (f_ctx s)) (r_list r) = Ok (name :: l)) /\ uget (uu_groups (f_uu s)) name = Some old
     end) ->
    utruthy old = true -> u <> [] -> uval_eqb (UGiven u) old = false ->
    exists c, compile fuel (set_row wb t0 p (set_objid r u)) dm = Err c /\ c = EUuidConflict.

(* proved: detect_missing_sheet_partial (template_definition, create_campaign, create_triggers,
   content_index rows of the top-level index).  Open: create_flow rows (the sheet is looked up
   after the whole index, in _populate_missing_templates), data_sheet rows, rows of nested
   indexes, and a sheet file removed from the folder. *)
Definition detect_missing_sheet_full : Prop :=
  forall fuel wb dm pre r post st name,
    wb_get wb s_content_index = Some (SIndex (pre ++ r :: post)) ->
    process_index (S fuel) (erase wb) dm pre is0 = Ok st ->
    x_draft r = false -> In name (x_sheets r) -> length (x_sheets r) = 1 \/ x_type r = IDataSheet ->
    x_type r <> IIgnore -> x_type r <> IOther ->
    wb_get wb name = None -> aget (is_data st) name = None -> aget (is_templates st) name = None ->
    (x_type r = IDataSheet -> x_op r = OpNone \/ x_op r = OpConcat /\ x_new r <> []) ->
    (forall m, x_type r = IDataSheet -> dm = Some m -> x_model r = [] \/ mem_str (x_model r) m = true) ->
    (x_type r = ICreateFlow -> forall q, In q post -> ~ (x_type q = IIgnore /\ x_sheets q = [match x_new r with [] => name | n => n end])) ->
    (* a later row may stop the index first, with its own class *)
    exists c, compile (S fuel) wb dm = Err c /\ c <> EOutOfScope /\ c <> EOutOfFuel.
