(* C13 — facts about order sources (Io/HiddenOrder.v). *)
From Coq Require Import List NArith Bool Arith Lia Permutation.
From RPFT Require Import Base.Sexp Base.PyStr Gen.Tables Io.Hidden Io.HiddenInventory Io.HiddenOrder.
Import ListNotations.

(* the regenerated list of order sources has no exposed entry beyond the reviewed ones *)
Lemma order_sources_ok : order_sources_okb = true.
Proof. vm_compute. reflexivity. Qed.

(* ------------------------------------------------------------------ member uses do not see the order *)
Lemma existsb_perm : forall (p : str -> bool) (a b : list str), Permutation a b -> existsb p a = existsb p b.
Proof.
  intros p a b HP. induction HP as [| x l l' HP IH | x y l | l l' l'' HP1 IH1 HP2 IH2].
  - reflexivity.
  - cbn [existsb]. rewrite IH. reflexivity.
  - cbn [existsb]. destruct (p x); destruct (p y); reflexivity.
  - rewrite IH1. exact IH2.
Qed.

Lemma member_uses_order_free : forall a b : list str, Permutation a b ->
  (forall p, set_search p a = set_search p b) /\ set_len a = set_len b /\ (forall x, set_mem x a = set_mem x b).
Proof.
  intros a b HP. split; [| split].
  - intro p. unfold set_search. apply existsb_perm. exact HP.
  - unfold set_len. apply Permutation_length. exact HP.
  - intro x. unfold set_mem. apply existsb_perm. exact HP.
Qed.

(* ... and an iterated set does: two arrangements of the same two elements *)
Definition iterated_set_order_free : Prop := forall a b : list str, Permutation a b -> set_to_list a = set_to_list b.

Lemma iterated_set_order_dependent : ~ iterated_set_order_free.
Proof.
  intro H. specialize (H [[89]%N; [78]%N] [[78]%N; [89]%N] (perm_swap _ _ [])). unfold set_to_list in H. discriminate H.
Qed.

(* the seeded shape `list(set(quick_replies))`: exposed in a scan, it is not accepted *)
Example order_exposed_iter : order_exposed ([102]%N, [115; 101; 116]%N, [105; 116; 101; 114]%N) = true.
Proof. vm_compute. reflexivity. Qed.
