(* C13 — render / to_rows on a kept container: repeatability, mutual non-interference, and
   what happens to given identifiers (Io/Hidden.v).

   render is first shown to be a PURE function of (container, uuid counter) — the record
   phase never touches the monad state, gen_missing only advances the counter — and all
   reasoning is done on that pure form [render_pure]. *)
From Coq Require Import List NArith ZArith Bool Arith Lia.
From RPFT Require Import Base.Sexp Base.PyStr Base.PyStrFacts Base.Result Gen.Tables Io.Hidden Io.HiddenFacts.
Import ListNotations.

(* ------------------------------------------------------------------ uuids *)
Lemma uuid_eqb_eq a b : uuid_eqb a b = true -> a = b.
Proof.
  destruct a as [s|n], b as [t|m]; cbn; intros H; try discriminate.
  - apply str_eqb_eq in H. congruence.
  - apply Nat.eqb_eq in H. congruence.
Qed.

Lemma uuid_eqb_refl a : uuid_eqb a a = true.
Proof. destruct a as [s|n]; cbn; [apply str_eqb_refl|apply Nat.eqb_refl]. Qed.

Lemma truthy_some v : truthy v = true -> exists w, v = Some w.
Proof. destruct v as [w|]; [eauto|discriminate]. Qed.

Lemma truthy_fresh n : truthy (Some (Fresh n)) = true.
Proof. reflexivity. Qed.

(* ------------------------------------------------------------------ dictionaries *)
Definition keys (d : udict) : list str := map fst d.

Lemma uget_uset_same d k v : uget (uset d k v) k = Some v.
Proof.
  induction d as [|[k' v'] r IH]; cbn.
  - rewrite str_eqb_refl. reflexivity.
  - destruct (str_eqb k' k) eqn:E; cbn; rewrite E; [reflexivity|exact IH].
Qed.

Lemma uget_uset_other d k k' v : k' <> k -> uget (uset d k v) k' = uget d k'.
Proof.
  intros N. induction d as [|[k0 v0] r IH]; cbn.
  - rewrite str_eqb_neq; [reflexivity|congruence].
  - destruct (str_eqb k0 k) eqn:E; cbn.
    + apply str_eqb_eq in E. subst k0. rewrite str_eqb_neq; [|congruence]. reflexivity.
    + destruct (str_eqb k0 k'); [reflexivity|exact IH].
Qed.

Lemma uget_none_notin d k : uget d k = None -> ~ In k (keys d).
Proof.
  induction d as [|[k0 v0] r IH]; cbn; intros H; [tauto|].
  destruct (str_eqb k0 k) eqn:E; [discriminate|].
  intros [X|X]; [subst; rewrite str_eqb_refl in E; discriminate|exact (IH H X)].
Qed.

Lemma keys_uset d k v :
  keys (uset d k v) = keys d \/ (uget d k = None /\ keys (uset d k v) = keys d ++ [k]).
Proof.
  induction d as [|[k0 v0] r IH]; cbn.
  - right. split; reflexivity.
  - destruct (str_eqb k0 k) eqn:E; cbn; [left; reflexivity|].
    destruct IH as [IH|[IH1 IH2]]; [left|right]; unfold keys in *; cbn; [congruence|].
    split; [exact IH1|congruence].
Qed.

Lemma NoDup_snoc {A} (l : list A) x : NoDup l -> ~ In x l -> NoDup (l ++ [x]).
Proof.
  induction 1 as [|y l NI ND IH]; cbn; intros H.
  - constructor; [intros []|constructor].
  - constructor.
    + intros X. apply in_app_or in X. destruct X as [X|[X|[]]]; [exact (NI X)|subst; apply H; left; reflexivity].
    + apply IH. intros X. apply H. right. exact X.
Qed.

Lemma NoDup_uset d k v : NoDup (keys d) -> NoDup (keys (uset d k v)).
Proof.
  intros H. destruct (keys_uset d k v) as [E|[E1 E2]]; [rewrite E; exact H|].
  rewrite E2. apply NoDup_snoc; [exact H|]. apply uget_none_notin. exact E1.
Qed.

Lemma In_uget d k v : NoDup (keys d) -> In (k, v) d -> uget d k = Some v.
Proof.
  induction d as [|[k0 v0] r IH]; cbn; intros ND HI; [destruct HI|].
  inversion ND as [|x l NI ND' EQ]; subst.
  destruct HI as [X|X].
  - inversion X; subst. rewrite str_eqb_refl. reflexivity.
  - destruct (str_eqb k0 k) eqn:E.
    + apply str_eqb_eq in E. subst k0. exfalso. apply NI. change (In (fst (k, v)) (map fst r)). apply in_map. exact X.
    + apply IH; assumption.
Qed.

(* [ext d d']: d' has every key of d, and every truthy entry of d unchanged *)
Definition ext (d d' : udict) : Prop :=
  (forall m v, uget d m = Some v -> truthy v = true -> uget d' m = Some v) /\
  (forall m, uget d m <> None -> uget d' m <> None).

Lemma ext_refl d : ext d d.
Proof. split; auto. Qed.

Lemma ext_trans a b c : ext a b -> ext b c -> ext a c.
Proof. intros [A1 A2] [B1 B2]. split; [intros m v H T; apply B1; [apply A1|]; assumption|intros m H; apply B2, A2, H]. Qed.

(* UUIDDict._record_uuid, characterised *)
Lemma record_spec d n u d' :
  record_uuid d n u = Ok d' ->
  (exists w, uget d n = Some (Some w) /\ truthy (Some w) = true /\ d' = d /\ (truthy u = true -> u = Some w))
  \/ ((forall w, uget d n = Some (Some w) -> truthy (Some w) = false) /\ d' = uset d n u).
Proof.
  unfold record_uuid. destruct (uget d n) as [[w|]|] eqn:G.
  - destruct (truthy (Some w)) eqn:T.
    + destruct (truthy u) eqn:TU; cbn [andb].
      * destruct u as [x|]; [|discriminate].
        destruct (uuid_eqb x w) eqn:E; cbn [negb]; intros H; [|discriminate].
        inversion H; subst. left. exists w. repeat split; try assumption.
        intros _. apply uuid_eqb_eq in E. congruence.
      * intros H. inversion H; subst. left. exists w. repeat split; try assumption. intros X. discriminate.
    + intros H. inversion H; subst. right. split; [|reflexivity].
      intros w' E. inversion E; subst. exact T.
  - intros H. inversion H; subst. right. split; [intros w E; discriminate|reflexivity].
  - intros H. inversion H; subst. right. split; [intros w E; discriminate|reflexivity].
Qed.

Lemma record_ext d n u d' : record_uuid d n u = Ok d' -> ext d d'.
Proof.
  intros H. destruct (record_spec _ _ _ _ H) as [(w & G & T & E & _)|[B E]]; subst d'; [apply ext_refl|].
  split.
  - intros m v Hm Tv. destruct (list_eq_dec N.eq_dec m n) as [->|NE].
    + destruct (truthy_some _ Tv) as [w ->]. rewrite (B w Hm) in Tv. discriminate.
    + rewrite uget_uset_other; assumption.
  - intros m Hm. destruct (list_eq_dec N.eq_dec m n) as [->|NE].
    + rewrite uget_uset_same. discriminate.
    + rewrite uget_uset_other; assumption.
Qed.

Lemma record_sat d n u d' :
  record_uuid d n u = Ok d' -> exists v, uget d' n = Some v /\ (truthy u = true -> v = u).
Proof.
  intros H. destruct (record_spec _ _ _ _ H) as [(w & G & T & E & U)|[B E]]; subst d'.
  - exists (Some w). split; [exact G|]. intros X. symmetry. apply U, X.
  - exists u. split; [apply uget_uset_same|reflexivity].
Qed.

Lemma record_nodup d n u d' : record_uuid d n u = Ok d' -> NoDup (keys d) -> NoDup (keys d').
Proof.
  intros H ND. destruct (record_spec _ _ _ _ H) as [(w & G & T & E & U)|[B E]]; subst d'; [exact ND|].
  apply NoDup_uset, ND.
Qed.

(* recording something the dictionary already says is a no-op *)
Lemma record_noop d n u w :
  uget d n = Some (Some w) -> truthy (Some w) = true -> (u = Some w \/ truthy u = false) ->
  record_uuid d n u = Ok d.
Proof.
  intros G T H. unfold record_uuid. rewrite G, T. destruct H as [->|F].
  - rewrite T. cbn [andb]. rewrite uuid_eqb_refl. reflexivity.
  - rewrite F. reflexivity.
Qed.

(* ------------------------------------------------------------------ occurrences *)
Inductive okind := KG | KF.
Definition occ : Type := okind * str * option uuid.

Definition dict_of (k : okind) (c : cont) : udict := match k with KG => c_gdict c | KF => c_fdict c end.

Definition recc (c : cont) (o : occ) : result fail cont :=
  match o with
  | (KG, n, u) => match record_uuid (c_gdict c) n u with
                  | Ok d => Ok (mkC (c_flows c) (c_groups c) (c_fdict c) d)
                  | Err e => Err e
                  end
  | (KF, n, u) => match record_uuid (c_fdict c) n u with
                  | Ok d => Ok (mkC (c_flows c) (c_groups c) d (c_gdict c))
                  | Err e => Err e
                  end
  end.

Definition act_occs (a : uuid * act) : list occ :=
  match snd a with
  | ASend _ => []
  | AGroup g u => [(KG, g, u)]
  | AEnter f u => [(KF, f, u)]
  end.

(* exactly the traversal order of RapidProContainer.update_global_uuids *)
Definition occ_g (g : str * option uuid) : occ := (KG, fst g, snd g).
Definition occ_f (f : flowc) : occ := (KF, f_name f, Some (f_uuid f)).
Definition occ_nodes (f : flowc) : list occ := flat_map act_occs (f_nodes f).
Definition occs (c : cont) : list occ :=
  map occ_g (c_groups c) ++ map occ_f (c_flows c) ++ flat_map occ_nodes (c_flows c).

Definition record_phase (c : cont) : result fail cont := foldM recc (occs c) c.

Lemma foldM_app {E S A} (f : A -> S -> result E A) l1 l2 a :
  foldM f (l1 ++ l2) a = match foldM f l1 a with Ok a1 => foldM f l2 a1 | Err e => Err e end.
Proof.
  revert a. induction l1 as [|x r IH]; intros a; cbn; [reflexivity|].
  destruct (f a x); [apply IH|reflexivity].
Qed.

Lemma foldM_flat_map {E S T A} (f : A -> T -> result E A) (g : S -> list T) l a :
  foldM (fun a x => foldM f (g x) a) l a = foldM f (flat_map g l) a.
Proof.
  revert a. induction l as [|x r IH]; intros a; cbn; [reflexivity|].
  rewrite foldM_app. destruct (foldM f (g x) a); [apply IH|reflexivity].
Qed.

Lemma foldM_map {E S T A} (f : A -> T -> result E A) (g : S -> T) l a :
  foldM (fun a x => f a (g x)) l a = foldM f (map g l) a.
Proof.
  revert a. induction l as [|x r IH]; intros a; cbn; [reflexivity|].
  destruct (f a (g x)); [apply IH|reflexivity].
Qed.

(* a fold of steps that do not touch the monad state *)
Lemma mfold_pure {S A} (f : A -> S -> M A) (g : A -> S -> result fail A) :
  (forall a x s, f a x s = (s, g a x)) -> forall l a s, mfold f l a s = (s, foldM g l a).
Proof.
  intros H. induction l as [|x r IH]; intros a s; cbn [mfold foldM]; [reflexivity|].
  unfold mbind. rewrite H. destruct (g a x); [apply IH|reflexivity].
Qed.

Lemma lift_rec_g_pure c n u s : lift_rec_g c n u s = (s, recc c (KG, n, u)).
Proof. unfold lift_rec_g, mbind, lift, ret, recc. destruct (record_uuid (c_gdict c) n u); reflexivity. Qed.

Lemma lift_rec_f_pure c n u s : lift_rec_f c n u s = (s, recc c (KF, n, u)).
Proof. unfold lift_rec_f, mbind, lift, ret, recc. destruct (record_uuid (c_fdict c) n u); reflexivity. Qed.

Lemma record_act_pure c a s : record_act c a s = (s, foldM recc (act_occs a) c).
Proof.
  unfold record_act, act_occs. destruct (snd a) as [t|g u|f u]; cbn [foldM].
  - reflexivity.
  - rewrite lift_rec_g_pure. destruct (recc c (KG, g, u)); reflexivity.
  - rewrite lift_rec_f_pure. destruct (recc c (KF, f, u)); reflexivity.
Qed.

(* ------------------------------------------------------------------ gen_missing, purely *)
Fixpoint gm (d : udict) (n : nat) : udict * nat :=
  match d with
  | [] => ([], n)
  | (k, v) :: r =>
      if truthy v then (let (r', n') := gm r n in ((k, v) :: r', n'))
      else (let (r', n') := gm r (S n) in ((k, Some (Fresh n)) :: r', n'))
  end.

Definition with_next (s : st) (n : nat) : st := mkS (s_stack s) (s_slots s) (s_loc s) n.

Lemma with_next_same s : with_next s (s_next s) = s.
Proof. destruct s; reflexivity. Qed.

Lemma with_next_twice s n m : with_next (with_next s n) m = with_next s m.
Proof. reflexivity. Qed.

Lemma gen_missing_gm d : forall s,
  gen_missing d s = (with_next s (snd (gm d (s_next s))), Ok (fst (gm d (s_next s)))).
Proof.
  induction d as [|[k v] r IH]; intros s; cbn [gen_missing gm].
  - unfold ret. cbn. rewrite with_next_same. reflexivity.
  - unfold mbind. destruct (truthy v) eqn:T.
    + unfold ret at 1. rewrite IH. destruct (gm r (s_next s)) as [r' n']. reflexivity.
    + unfold freshid, ret at 1. rewrite IH. cbn [s_next]. destruct (gm r (S (s_next s))) as [r' n']. reflexivity.
Qed.

Definition alltruthy (d : udict) : Prop := Forall (fun e => truthy (snd e) = true) d.

Lemma gm_keys d : forall n, keys (fst (gm d n)) = keys d.
Proof.
  induction d as [|[k v] r IH]; intros n; cbn [gm]; [reflexivity|].
  destruct (truthy v).
  - specialize (IH n). destruct (gm r n) as [r' n']. unfold keys in *. cbn in *. congruence.
  - specialize (IH (S n)). destruct (gm r (S n)) as [r' n']. unfold keys in *. cbn in *. congruence.
Qed.

Lemma gm_alltruthy d : forall n, alltruthy (fst (gm d n)).
Proof.
  induction d as [|[k v] r IH]; intros n; cbn [gm]; [constructor|].
  destruct (truthy v) eqn:T.
  - specialize (IH n). destruct (gm r n) as [r' n']. constructor; assumption.
  - specialize (IH (S n)). destruct (gm r (S n)) as [r' n']. constructor; [reflexivity|assumption].
Qed.

Lemma gm_id d : alltruthy d -> forall n, gm d n = (d, n).
Proof.
  induction 1 as [|[k v] r T _ IH]; intros n; cbn [gm]; [reflexivity|].
  cbn in T. rewrite T, IH. reflexivity.
Qed.

(* lookups after gen_missing: same keys, truthy values, truthy entries kept *)
Lemma gm_uget d : forall n m,
  match uget d m with
  | None => uget (fst (gm d n)) m = None
  | Some v => exists v', uget (fst (gm d n)) m = Some v' /\ truthy v' = true /\ (truthy v = true -> v' = v)
  end.
Proof.
  induction d as [|[k v] r IH]; intros n m; cbn [gm uget]; [reflexivity|].
  destruct (truthy v) eqn:T.
  - specialize (IH n m). destruct (gm r n) as [r' n']. cbn [fst uget] in *.
    destruct (str_eqb k m); [exists v; auto|exact IH].
  - specialize (IH (S n) m). destruct (gm r (S n)) as [r' n']. cbn [fst uget] in *.
    destruct (str_eqb k m); [|exact IH].
    exists (Some (Fresh n)). repeat split. intros X. congruence.
Qed.

Lemma alltruthy_uget d m v : alltruthy d -> uget d m = Some v -> truthy v = true.
Proof.
  induction 1 as [|[k v0] r T _ IH]; cbn; [discriminate|].
  destruct (str_eqb k m); [intros E; inversion E; subst; exact T|exact IH].
Qed.

Lemma alltruthy_in d k v : alltruthy d -> In (k, v) d -> truthy v = true.
Proof. intros A HI. unfold alltruthy in A. rewrite Forall_forall in A. exact (A _ HI). Qed.

(* ------------------------------------------------------------------ render, purely *)
Definition assign_flows (fd gd : udict) (fl : list flowc) : list flowc :=
  map (fun f => mkF (f_name f) (f_uuid f) (map (assign_act fd gd) (f_nodes f)) (f_scratch f)) fl.

Definition rendered_of (flows : list flowc) (gd : udict) : rendered :=
  mkR (map (fun f => (f_name f, f_uuid f, f_nodes f)) flows) gd.

Definition render_pure (c : cont) (n : nat) : result fail (cont * rendered * nat) :=
  match record_phase c with
  | Err e => Err e
  | Ok c3 =>
      let (fd, n1) := gm (c_fdict c3) n in
      let (gd, n2) := gm (c_gdict c3) n1 in
      let flows := assign_flows fd gd (c_flows c) in
      Ok (mkC flows gd fd gd, rendered_of flows gd, n2)
  end.

Lemma record_phase_unfold c :
  record_phase c =
  match foldM recc (map occ_g (c_groups c)) c with
  | Err e => Err e
  | Ok c1 => match foldM recc (map occ_f (c_flows c)) c1 with
             | Err e => Err e
             | Ok c2 => foldM recc (flat_map occ_nodes (c_flows c)) c2
             end
  end.
Proof.
  unfold record_phase, occs. rewrite foldM_app.
  destruct (foldM recc (map occ_g (c_groups c)) c) as [c1|e]; [|reflexivity].
  rewrite foldM_app. reflexivity.
Qed.

Lemma phase_g l : forall c s, mfold (fun c g => lift_rec_g c (fst g) (snd g)) l c s = (s, foldM recc (map occ_g l) c).
Proof.
  intros c s. rewrite (mfold_pure _ (fun c g => recc c (occ_g g))) by (intros; apply lift_rec_g_pure).
  rewrite (foldM_map recc occ_g). reflexivity.
Qed.

Lemma phase_f l : forall c s, mfold (fun c f => lift_rec_f c (f_name f) (Some (f_uuid f))) l c s = (s, foldM recc (map occ_f l) c).
Proof.
  intros c s. rewrite (mfold_pure _ (fun c f => recc c (occ_f f))) by (intros; apply lift_rec_f_pure).
  rewrite (foldM_map recc occ_f). reflexivity.
Qed.

Lemma phase_nodes l : forall c s, mfold (fun c f => mfold record_act (f_nodes f) c) l c s = (s, foldM recc (flat_map occ_nodes l) c).
Proof.
  intros c s. rewrite (mfold_pure _ (fun c f => foldM recc (occ_nodes f) c)).
  - rewrite (foldM_flat_map recc occ_nodes). reflexivity.
  - intros a x s0. rewrite (mfold_pure record_act (fun c a => foldM recc (act_occs a) c)) by (intros; apply record_act_pure).
    rewrite (foldM_flat_map recc act_occs). reflexivity.
Qed.

Lemma render_is_pure c s :
  render c s = match render_pure c (s_next s) with
               | Err e => (s, Err e)
               | Ok (c4, r, n2) => (with_next s n2, Ok (c4, r))
               end.
Proof.
  unfold render, render_pure. rewrite record_phase_unfold.
  unfold mbind at 1. rewrite phase_g.
  destruct (foldM recc (map occ_g (c_groups c)) c) as [c1|e]; [|reflexivity].
  unfold mbind at 1. rewrite phase_f.
  destruct (foldM recc (map occ_f (c_flows c)) c1) as [c2|e]; [|reflexivity].
  unfold mbind at 1. rewrite phase_nodes.
  destruct (foldM recc (flat_map occ_nodes (c_flows c)) c2) as [c3|e]; [|reflexivity].
  unfold mbind at 1. rewrite gen_missing_gm.
  destruct (gm (c_fdict c3) (s_next s)) as [fd n1] eqn:G1. cbn [fst snd].
  unfold mbind at 1. rewrite gen_missing_gm. cbn [s_next with_next].
  destruct (gm (c_gdict c3) n1) as [gd n2] eqn:G2. cbn [fst snd].
  unfold ret. reflexivity.
Qed.

(* ------------------------------------------------------------------ what the record phase establishes *)
Definition extc (c c' : cont) : Prop :=
  ext (c_fdict c) (c_fdict c') /\ ext (c_gdict c) (c_gdict c') /\
  c_flows c' = c_flows c /\ c_groups c' = c_groups c.

Lemma extc_refl c : extc c c.
Proof. repeat split; auto. Qed.

Lemma extc_trans a b c : extc a b -> extc b c -> extc a c.
Proof.
  intros (A1 & A2 & A3 & A4) (B1 & B2 & B3 & B4).
  repeat split; try (eapply ext_trans; eassumption); try (apply A1 || apply A2); try congruence;
    try (destruct A1 as [_ X]; destruct B1 as [_ Y]; intros m H; apply Y, X, H).
  all: try (destruct A2 as [_ X]; destruct B2 as [_ Y]; intros m H; apply Y, X, H).
Qed.

Definition sat (c : cont) (o : occ) : Prop :=
  match o with (k, n, u) => exists v, uget (dict_of k c) n = Some v /\ (truthy u = true -> v = u) end.

Lemma ext_dict_of k c c' : extc c c' -> ext (dict_of k c) (dict_of k c').
Proof. intros (A1 & A2 & _). destruct k; assumption. Qed.

Lemma sat_ext c c' o : extc c c' -> sat c o -> sat c' o.
Proof.
  intros X. destruct o as [[k n] u]. intros (v & G & U).
  destruct (ext_dict_of k _ _ X) as [E1 E2]. destruct (truthy u) eqn:T.
  - exists v. split; [|intros _; apply U; reflexivity]. apply E1; [exact G|]. rewrite (U eq_refl). exact T.
  - destruct (uget (dict_of k c') n) as [v'|] eqn:G'.
    + exists v'. split; [exact G'|intros Y; congruence].
    + exfalso. apply (E2 n); [rewrite G; discriminate|exact G'].
Qed.

Lemma recc_spec c o c' :
  recc c o = Ok c' -> extc c c' /\ sat c' o /\ (NoDup (keys (c_gdict c)) -> NoDup (keys (c_gdict c'))).
Proof.
  destruct o as [[[|] n] u]; cbn [recc].
  - destruct (record_uuid (c_gdict c) n u) as [d|e] eqn:R; intros H; inversion H; subst; clear H.
    repeat split; cbn; try apply ext_refl; try (eapply record_ext; eassumption).
    + exact (record_sat _ _ _ _ R).
    + intros ND. eapply record_nodup; eassumption.
  - destruct (record_uuid (c_fdict c) n u) as [d|e] eqn:R; intros H; inversion H; subst; clear H.
    repeat split; cbn; try apply ext_refl; try (eapply record_ext; eassumption).
    + exact (record_sat _ _ _ _ R).
    + auto.
Qed.

Lemma foldM_recc_spec os : forall c c',
  foldM recc os c = Ok c' ->
  extc c c' /\ Forall (sat c') os /\ (NoDup (keys (c_gdict c)) -> NoDup (keys (c_gdict c'))).
Proof.
  induction os as [|o r IH]; intros c c'; cbn [foldM].
  - intros H. inversion H; subst. repeat split; auto using ext_refl.
  - destruct (recc c o) as [c1|e] eqn:R; [|discriminate]. intros H.
    destruct (recc_spec _ _ _ R) as (X1 & S1 & N1). destruct (IH _ _ H) as (X2 & S2 & N2).
    split; [eapply extc_trans; eassumption|]. split; [|auto].
    constructor; [eapply sat_ext; eassumption|exact S2].
Qed.

Lemma foldM_noop os c : Forall (fun o => recc c o = Ok c) os -> foldM recc os c = Ok c.
Proof. induction 1 as [|o r H _ IH]; cbn [foldM]; [reflexivity|]. rewrite H. exact IH. Qed.

(* ------------------------------------------------------------------ render twice *)
Lemma assign_act_idem fd gd a : assign_act fd gd (assign_act fd gd a) = assign_act fd gd a.
Proof. destruct a as [u [t|g x|f x]]; reflexivity. Qed.

Lemma assign_flows_idem fd gd fl : assign_flows fd gd (assign_flows fd gd fl) = assign_flows fd gd fl.
Proof.
  unfold assign_flows. rewrite map_map. apply map_ext. intros f. cbn. f_equal.
  rewrite map_map. apply map_ext. intros a. apply assign_act_idem.
Qed.

Lemma lookup_of_uget d n v : uget d n = Some v -> lookup_u d n = v.
Proof. intros H. unfold lookup_u. rewrite H. reflexivity. Qed.

(* the dictionaries a successful render leaves behind, and what they say about the
   container's occurrences *)
Lemma render_pure_inv c n c4 r n2 :
  render_pure c n = Ok (c4, r, n2) ->
  exists c3 fd gd n1,
    record_phase c = Ok c3 /\ gm (c_fdict c3) n = (fd, n1) /\ gm (c_gdict c3) n1 = (gd, n2) /\
    c4 = mkC (assign_flows fd gd (c_flows c)) gd fd gd /\
    r = rendered_of (assign_flows fd gd (c_flows c)) gd.
Proof.
  unfold render_pure. destruct (record_phase c) as [c3|e] eqn:R; [|discriminate].
  destruct (gm (c_fdict c3) n) as [fd n1] eqn:G1. destruct (gm (c_gdict c3) n1) as [gd n2'] eqn:G2.
  intros H. inversion H; subst. exists c3, fd, gd, n1. repeat split; assumption.
Qed.

(* after gen_missing every occurrence of the container has a truthy entry, equal to the
   occurrence's own uuid when that was truthy (explicit uuids win) *)
Definition final (fd gd : udict) (o : occ) : Prop :=
  match o with
  | (k, n, u) => exists w, uget (match k with KG => gd | KF => fd end) n = Some (Some w)
                           /\ truthy (Some w) = true /\ (truthy u = true -> u = Some w)
  end.

Lemma sat_final c3 n fd n1 gd n2 o :
  gm (c_fdict c3) n = (fd, n1) -> gm (c_gdict c3) n1 = (gd, n2) -> sat c3 o -> final fd gd o.
Proof.
  intros G1 G2. destruct o as [[k m] u]. intros (v & G & U).
  assert (X : exists v', uget (match k with KG => gd | KF => fd end) m = Some v' /\ truthy v' = true /\ (truthy v = true -> v' = v)).
  { destruct k; cbn [dict_of] in G.
    - pose proof (gm_uget (c_gdict c3) n1 m) as P. rewrite G, G2 in P. exact P.
    - pose proof (gm_uget (c_fdict c3) n m) as P. rewrite G, G1 in P. exact P. }
  destruct X as (v' & G' & T' & K). destruct (truthy_some _ T') as [w ->].
  exists w. repeat split; [exact G'|exact T'|]. intros TU. pose proof (U TU) as E. subst v. symmetry. apply K. exact TU.
Qed.

Lemma final_noop fd gd fl gr o :
  final fd gd o -> recc (mkC fl gr fd gd) o = Ok (mkC fl gr fd gd).
Proof.
  destruct o as [[[|] m] u]; intros (w & G & T & U); cbn [recc c_gdict c_fdict c_flows c_groups].
  - rewrite (record_noop gd m u w G T); [reflexivity|].
    destruct (truthy u) eqn:TU; [left; apply U; reflexivity|right; reflexivity].
  - rewrite (record_noop fd m u w G T); [reflexivity|].
    destruct (truthy u) eqn:TU; [left; apply U; reflexivity|right; reflexivity].
Qed.

Lemma act_occs_assign_final fd gd a :
  Forall (final fd gd) (act_occs a) -> Forall (final fd gd) (act_occs (assign_act fd gd a)).
Proof.
  destruct a as [x [t|g u|f u]]; unfold act_occs; cbn [snd assign_act]; intros H; [constructor| |].
  - inversion H as [|o l HF _]; subst. cbn [final] in HF. destruct HF as (w & G & T & U). constructor; [|constructor].
    exists w. repeat split; [exact G|exact T|]. intros _. apply lookup_of_uget. exact G.
  - inversion H as [|o l HF _]; subst. cbn [final] in HF. destruct HF as (w & G & T & U). constructor; [|constructor].
    exists w. repeat split; [exact G|exact T|]. intros _. apply lookup_of_uget. exact G.
Qed.

Lemma occs_final_after c fd gd :
  NoDup (keys gd) -> alltruthy gd ->
  Forall (final fd gd) (occs c) ->
  Forall (final fd gd) (occs (mkC (assign_flows fd gd (c_flows c)) gd fd gd)).
Proof.
  intros ND AT H. unfold occs in *. cbn [c_groups c_flows].
  apply Forall_app in H. destruct H as [_ H]. apply Forall_app in H. destruct H as [HF HA].
  apply Forall_app. split; [|apply Forall_app; split].
  - apply Forall_forall. intros o HI. apply in_map_iff in HI. destruct HI as ([g v] & <- & HI). cbn [fst snd].
    pose proof (alltruthy_in _ _ _ AT HI) as T. destruct (truthy_some _ T) as [w ->].
    exists w. repeat split; [apply In_uget; assumption|exact T].
  - unfold assign_flows. rewrite map_map. cbn [f_name f_uuid]. exact HF.
  - rewrite Forall_forall in *. intros o HI. apply in_flat_map in HI. destruct HI as (f' & Hf' & HI).
    unfold assign_flows in Hf'. apply in_map_iff in Hf'. destruct Hf' as (f & <- & Hf).
    unfold occ_nodes in HI. cbn [f_nodes] in HI. apply in_flat_map in HI. destruct HI as (a' & Ha' & HI).
    apply in_map_iff in Ha'. destruct Ha' as (a & <- & Ha).
    assert (X : Forall (final fd gd) (act_occs a)).
    { apply Forall_forall. intros o' Ho'. apply HA. apply in_flat_map. exists f. split; [exact Hf|].
      unfold occ_nodes. apply in_flat_map. exists a. split; assumption. }
    pose proof (act_occs_assign_final fd gd a X) as Y. rewrite Forall_forall in Y. apply Y, HI.
Qed.

(* RENDER TWICE: a second render of what the first one left behind returns the same document,
   the same container, and invents nothing *)
Theorem render_pure_twice c n c4 r n2 :
  NoDup (keys (c_gdict c)) ->
  render_pure c n = Ok (c4, r, n2) ->
  render_pure c4 n2 = Ok (c4, r, n2) /\ NoDup (keys (c_gdict c4)).
Proof.
  intros ND H. destruct (render_pure_inv _ _ _ _ _ H) as (c3 & fd & gd & n1 & R & G1 & G2 & -> & ->).
  unfold record_phase in R. destruct (foldM_recc_spec _ _ _ R) as (X & S & N).
  assert (NDg : NoDup (keys gd)).
  { pose proof (gm_keys (c_gdict c3) n1) as K. rewrite G2 in K. cbn [fst] in K. rewrite K. apply N, ND. }
  assert (ATg : alltruthy gd) by (pose proof (gm_alltruthy (c_gdict c3) n1) as K; rewrite G2 in K; exact K).
  assert (ATf : alltruthy fd) by (pose proof (gm_alltruthy (c_fdict c3) n) as K; rewrite G1 in K; exact K).
  assert (F : Forall (final fd gd) (occs c)).
  { rewrite Forall_forall in *. intros o HI. eapply sat_final; [exact G1|exact G2|apply S, HI]. }
  pose proof (occs_final_after c fd gd NDg ATg F) as F4.
  split; [|exact NDg].
  unfold render_pure, record_phase.
  rewrite foldM_noop.
  2:{ rewrite Forall_forall in *. intros o HI. apply final_noop, F4, HI. }
  cbn [c_fdict c_gdict c_flows]. rewrite (gm_id fd ATf), (gm_id gd ATg), assign_flows_idem. reflexivity.
Qed.

Theorem render_twice c s s1 c1 r1 :
  NoDup (keys (c_gdict c)) ->
  render c s = (s1, Ok (c1, r1)) ->
  render c1 s1 = (s1, Ok (c1, r1)) /\ NoDup (keys (c_gdict c1)).
Proof.
  intros ND H. rewrite render_is_pure in H.
  destruct (render_pure c (s_next s)) as [[[c4 r] n2]|e] eqn:P; [|inversion H].
  inversion H; subst. destruct (render_pure_twice _ _ _ _ _ ND P) as [P2 ND2]. split; [|exact ND2].
  rewrite render_is_pure. cbn [s_next with_next]. rewrite P2. reflexivity.
Qed.

(* ------------------------------------------------------------------ given identifiers through render *)
Definition node_agree (a a' : uuid * act) : Prop :=
  fst a' = fst a /\
  match snd a with
  | ASend t => snd a' = ASend t
  | AGroup g u => exists u', snd a' = AGroup g u' /\ truthy u' = true /\ (truthy u = true -> u' = u)
  | AEnter f u => exists u', snd a' = AEnter f u' /\ truthy u' = true /\ (truthy u = true -> u' = u)
  end.

Lemma nodes_agree fd gd l :
  Forall (final fd gd) (flat_map act_occs l) -> Forall2 node_agree l (map (assign_act fd gd) l).
Proof.
  induction l as [|a l IH]; cbn [flat_map map]; intros H; constructor.
  - apply Forall_app in H. destruct H as [H _].
    destruct a as [x [t|g u|ff u]]; unfold node_agree, act_occs in *; cbn [fst snd assign_act] in *.
    + split; reflexivity.
    + inversion H as [|o l' HF _]; subst. cbn [final] in HF. destruct HF as (w & G & T & U). split; [reflexivity|].
      exists (Some w). rewrite (lookup_of_uget _ _ _ G). repeat split; [exact T|]. intros X. symmetry. apply U, X.
    + inversion H as [|o l' HF _]; subst. cbn [final] in HF. destruct HF as (w & G & T & U). split; [reflexivity|].
      exists (Some w). rewrite (lookup_of_uget _ _ _ G). repeat split; [exact T|]. intros X. symmetry. apply U, X.
  - apply IH. apply Forall_app in H. destruct H as [_ H]. exact H.
Qed.

(* every node keeps its uuid, its text and the names it refers to; every reference comes out
   with an identifier, and a reference that HAD one keeps exactly that one *)
Theorem render_given_verbatim c n c4 r n2 :
  render_pure c n = Ok (c4, r, n2) ->
  Forall2 (fun f f' => fst (fst f') = f_name f /\ snd (fst f') = f_uuid f /\ Forall2 node_agree (f_nodes f) (snd f'))
          (c_flows c) (r_flows r).
Proof.
  intros H. destruct (render_pure_inv _ _ _ _ _ H) as (c3 & fd & gd & n1 & R & G1 & G2 & -> & ->).
  unfold record_phase in R. destruct (foldM_recc_spec _ _ _ R) as (_ & S & _).
  assert (F : Forall (final fd gd) (occs c)).
  { rewrite Forall_forall in *. intros o HI. eapply sat_final; [exact G1|exact G2|apply S, HI]. }
  unfold occs in F. apply Forall_app in F. destruct F as [_ F]. apply Forall_app in F. destruct F as [_ FA].
  unfold rendered_of, assign_flows. cbn [r_flows]. rewrite map_map. cbn [f_name f_uuid f_nodes].
  clear H R S. revert FA. induction (c_flows c) as [|f fl IH]; intros FA; cbn [map]; constructor.
  - cbn [fst snd]. repeat split.
    cbn [flat_map] in FA. apply Forall_app in FA. destruct FA as [FA _]. apply nodes_agree. exact FA.
  - apply IH. cbn [flat_map] in FA. apply Forall_app in FA. destruct FA as [_ FA]. exact FA.
Qed.

(* ------------------------------------------------------------------ to_rows leaves no trace in render *)
Definition with_flows (fl : list flowc) (c : cont) : cont := mkC fl (c_groups c) (c_fdict c) (c_gdict c).

Definition same_but_scratch (f f' : flowc) : Prop :=
  f_name f' = f_name f /\ f_uuid f' = f_uuid f /\ f_nodes f' = f_nodes f.

Lemma recc_with_flows fl c o :
  recc (with_flows fl c) o = match recc c o with Ok c' => Ok (with_flows fl c') | Err e => Err e end.
Proof.
  destruct o as [[[|] n] u]; cbn [recc with_flows c_gdict c_fdict c_flows c_groups].
  - destruct (record_uuid (c_gdict c) n u); reflexivity.
  - destruct (record_uuid (c_fdict c) n u); reflexivity.
Qed.

Lemma foldM_with_flows fl os : forall c,
  foldM recc os (with_flows fl c) = match foldM recc os c with Ok c' => Ok (with_flows fl c') | Err e => Err e end.
Proof.
  induction os as [|o r IH]; intros c; cbn [foldM]; [reflexivity|].
  rewrite recc_with_flows. destruct (recc c o) as [c1|e]; [apply IH|reflexivity].
Qed.

Lemma Forall2_impl {A B} (P Q : A -> B -> Prop) l l' :
  (forall x y, P x y -> Q x y) -> Forall2 P l l' -> Forall2 Q l l'.
Proof. intros H. induction 1; constructor; auto. Qed.

Lemma Forall2_map_eq {A B} (f : A -> B) l l' : Forall2 (fun x y => f y = f x) l l' -> map f l' = map f l.
Proof. induction 1 as [|x y l l' H _ IH]; cbn; [reflexivity|]. rewrite H, IH. reflexivity. Qed.

Lemma Forall2_flat_map_eq {A B} (f : A -> list B) l l' : Forall2 (fun x y => f y = f x) l l' -> flat_map f l' = flat_map f l.
Proof. induction 1 as [|x y l l' H _ IH]; cbn; [reflexivity|]. rewrite H, IH. reflexivity. Qed.

Lemma occs_scratch c fl :
  Forall2 same_but_scratch (c_flows c) fl -> occs (with_flows fl c) = occs c.
Proof.
  intros H. unfold occs, with_flows. cbn [c_groups c_flows]. f_equal. f_equal.
  - apply Forall2_map_eq. eapply Forall2_impl; [|exact H]. intros f f' (A & B & C). unfold occ_f. rewrite A, B. reflexivity.
  - apply Forall2_flat_map_eq. eapply Forall2_impl; [|exact H]. intros f f' (A & B & C). unfold occ_nodes. rewrite C. reflexivity.
Qed.

Lemma rendered_scratch fd gd fl fl' :
  Forall2 same_but_scratch fl fl' ->
  rendered_of (assign_flows fd gd fl') gd = rendered_of (assign_flows fd gd fl) gd.
Proof.
  intros H. unfold rendered_of, assign_flows. f_equal. rewrite !map_map. cbn [f_name f_uuid f_nodes].
  apply Forall2_map_eq. eapply Forall2_impl; [|exact H]. intros f f' (A & B & C). cbn. rewrite A, B, C. reflexivity.
Qed.

(* the document, the error and the uuid counter of a render do not depend on export scratch *)
Theorem render_scratch_free c fl n :
  Forall2 same_but_scratch (c_flows c) fl ->
  match render_pure (with_flows fl c) n, render_pure c n with
  | Ok (c4', r', n'), Ok (c4, r, n2) =>
      r' = r /\ n' = n2 /\ c_fdict c4' = c_fdict c4 /\ c_gdict c4' = c_gdict c4 /\ c_groups c4' = c_groups c4
      /\ Forall2 same_but_scratch (c_flows c4) (c_flows c4')
  | Err e', Err e => e' = e
  | _, _ => False
  end.
Proof.
  intros H. unfold render_pure, record_phase. rewrite (occs_scratch c fl H).
  replace (with_flows fl c) with (with_flows fl c) by reflexivity.
  rewrite foldM_with_flows. destruct (foldM recc (occs c) c) as [c3|e]; [|reflexivity].
  cbn [with_flows c_fdict c_gdict c_flows].
  destruct (gm (c_fdict c3) n) as [fd n1]. destruct (gm (c_gdict c3) n1) as [gd n2].
  repeat split; try reflexivity.
  - apply rendered_scratch. exact H.
  - cbn [c_flows]. unfold assign_flows. clear -H.
    induction H as [|f f' l l' (A & B & C) _ IH]; cbn [map]; constructor; [|exact IH].
    unfold same_but_scratch. cbn. rewrite A, B, C. repeat split.
Qed.

(* ------------------------------------------------------------------ render and what to_rows shows *)
Definition erase_act (a : act) : act :=
  match a with ASend t => ASend t | AGroup g _ => AGroup g None | AEnter f _ => AEnter f None end.
Definition erase_node (n : uuid * act) : uuid * act := (fst n, erase_act (snd n)).

Lemma to_rows_rows f : snd (to_rows f) = f_nodes f.
Proof.
  unfold to_rows, export_rows. cbn. induction (f_nodes f) as [|a l IH]; cbn; [reflexivity|]. rewrite IH. reflexivity.
Qed.

(* what render does to the rows an export shows: node ids, texts and names stay; only the
   references' identifiers are (re)assigned *)
Theorem render_changes_only_refs fd gd f :
  map erase_node (snd (to_rows (mkF (f_name f) (f_uuid f) (map (assign_act fd gd) (f_nodes f)) (f_scratch f))))
  = map erase_node (snd (to_rows f)).
Proof.
  rewrite !to_rows_rows. cbn [f_nodes]. rewrite map_map. apply map_ext.
  intros [x [t|g u|ff u]]; reflexivity.
Qed.

(* FULL statement "render does not change what to_rows returns" *)
Definition render_preserves_to_rows_full : Prop :=
  forall c n c4 r n2, render_pure c n = Ok (c4, r, n2) ->
    map (fun f => snd (to_rows f)) (c_flows c4) = map (fun f => snd (to_rows f)) (c_flows c).

Definition g_name : str := [71]%N.
Definition witness_cont : cont :=
  mkC [mkF [102]%N (Fresh 0) [(Fresh 1, AGroup g_name None)] None] [] [] [].

(* ... is FALSE of the model: the first render gives the id-less reference an identifier,
   which the next export shows *)
Theorem render_preserves_to_rows_refuted : ~ render_preserves_to_rows_full.
Proof.
  intros H. specialize (H witness_cont 2).
  assert (E : render_pure witness_cont 2 =
              Ok (mkC [mkF [102]%N (Fresh 0) [(Fresh 1, AGroup g_name (Some (Fresh 2)))] None]
                      [(g_name, Some (Fresh 2))] [([102]%N, Some (Fresh 0))] [(g_name, Some (Fresh 2))],
                  mkR [([102]%N, Fresh 0, [(Fresh 1, AGroup g_name (Some (Fresh 2)))])] [(g_name, Some (Fresh 2))], 3))
    by (vm_compute; reflexivity).
  specialize (H _ _ _ E). vm_compute in H. discriminate.
Qed.

(* ... and TRUE once the container has been rendered (validated) *)
Theorem render_preserves_to_rows_validated c0 n0 c n1 r0 :
  NoDup (keys (c_gdict c0)) -> render_pure c0 n0 = Ok (c, r0, n1) ->
  forall c4 r n2, render_pure c n1 = Ok (c4, r, n2) ->
    map (fun f => snd (to_rows f)) (c_flows c4) = map (fun f => snd (to_rows f)) (c_flows c).
Proof.
  intros ND H0 c4 r n2 H. destruct (render_pure_twice _ _ _ _ _ ND H0) as [P _].
  rewrite P in H. inversion H; subst. reflexivity.
Qed.

Example render_twice_nonvacuous :
  NoDup (keys (c_gdict witness_cont)) /\
  exists c4 r n2, render_pure witness_cont 2 = Ok (c4, r, n2) /\ r_groups r = [(g_name, Some (Fresh 2))].
Proof.
  split; [constructor|]. eexists. eexists. eexists. split; [vm_compute; reflexivity|reflexivity].
Qed.
