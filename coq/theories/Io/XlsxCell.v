(* E9 / C07 (file leg, finding xlsx-cell-starting-with-equals-sign) — how ONE cell text travels through
   RowDataSheet.export(filename, "xlsx") and XLSXSheetReader.  Definitions only; facts in XlsxCellFacts.v.

   export:  tablib XLSXFormat.dset_sheet does `cell.value = text`; openpyxl Cell._bind_value stores a str of two or
            more characters that starts with "=" as a FORMULA (data_type "f"), any other str as text (the error
            codes "#N/A" ... get data_type "e" and read back as the same text: not distinguished here).
            On the repaired tree RowDataSheet.export then turns every formula cell into a text cell
            (as_text_cells: `cell.data_type = "s"`); whether the tree does is the PROBED constant
            xlsx_export_text_cells (translator/tables_rowfix.py).
   load:    tablib loads the workbook with data_only=True: a text cell gives its text (None for the empty text), a
            formula cell gives its cached value — a workbook written by openpyxl carries none: None.
   read:    XLSXSheetReader._sanitize: None -> "" (Io/Sanitize.v: cell_text). *)
From Coq Require Import List NArith Bool.
From RPFT Require Import Base.Sexp Base.PyStr Gen.Tables Io.Csv Io.Sanitize.
Import ListNotations.
Local Open Scope N_scope.

Inductive xl_stored := XlText (s : str) | XlFormula (s : str).

Definition c_equals : char := 61.

(* `len(value) > 1 and value.startswith("=")` *)
Definition is_formula_text (s : str) : bool :=
  match s with
  | c :: _ :: _ => c =? c_equals
  | _ => false
  end.

Definition bind_value (s : str) : xl_stored := if is_formula_text s then XlFormula s else XlText s.

Definition export_cell (s : str) : xl_stored :=
  match bind_value s with
  | XlFormula f => if xlsx_export_text_cells then XlText f else XlFormula f
  | c => c
  end.

Definition load_cell (c : xl_stored) : xcell :=
  match c with
  | XlText [] => None
  | XlText s => Some s
  | XlFormula _ => None
  end.

Definition xlsx_cell_roundtrip (s : str) : str := cell_text (load_cell (export_cell s)).
