(* C13 — invented identifiers: a call never outputs an invented id it did not draw from the
   uuid counter during that very call (or that the container it works on already held), so
   the invented ids of different calls of one process are disjoint.

   [bd n0 m Q]: started with the counter at least n0, m only moves the counter forward and a
   successful result satisfies Q at the final counter value.  Q is "every Fresh id below n". *)
From Coq Require Import List NArith ZArith Bool Arith Lia.
From RPFT Require Import Base.Sexp Base.PyStr Base.PyStrFacts Base.Result Gen.Tables
  Io.Hidden Io.HiddenFacts.
Import ListNotations.

(* ------------------------------------------------------------------ bounded values *)
Definition bu (n : nat) (u : uuid) : Prop := match u with Given _ => True | Fresh m => m < n end.
Definition bo (n : nat) (o : option uuid) : Prop := match o with Some u => bu n u | None => True end.
Definition bact (n : nat) (a : act) : Prop :=
  match a with ASend _ => True | AGroup _ o => bo n o | AEnter _ o => bo n o end.
Definition bnode (n : nat) (x : uuid * act) : Prop := bu n (fst x) /\ bact n (snd x).
Definition bdict (n : nat) (d : udict) : Prop := Forall (fun e => bo n (snd e)) d.
Definition bflow (n : nat) (f : flowc) : Prop := bu n (f_uuid f) /\ Forall (bnode n) (f_nodes f).
Definition bcont (n : nat) (c : cont) : Prop :=
  Forall (bflow n) (c_flows c) /\ bdict n (c_groups c) /\ bdict n (c_fdict c) /\ bdict n (c_gdict c).
Definition bpst (n : nat) (a : pstate) : Prop := Forall (bnode n) (p_nodes a) /\ bcont n (p_cont a).
Definition brend (n : nat) (r : rendered) : Prop :=
  Forall (fun f => bu n (snd (fst f)) /\ Forall (bnode n) (snd f)) (r_flows r) /\ bdict n (r_groups r).

Definition up {A} (Q : nat -> A -> Prop) : Prop := forall n n' a, n <= n' -> Q n a -> Q n' a.

Lemma up_bu : up bu.
Proof. intros n n' [s|m] L H; cbn in *; [exact I|lia]. Qed.
Lemma up_bo : up bo.
Proof. intros n n' [u|] L H; cbn in *; [eapply up_bu; eassumption|exact I]. Qed.
Lemma up_bact : up bact.
Proof. intros n n' [t|g o|f o] L H; cbn in *; try exact I; eapply up_bo; eassumption. Qed.
Lemma up_bnode : up bnode.
Proof. intros n n' x L [H1 H2]. split; [eapply up_bu|eapply up_bact]; eassumption. Qed.
Lemma up_Forall {A} (Q : nat -> A -> Prop) : up Q -> up (fun n l => Forall (Q n) l).
Proof. intros U n n' l L H. eapply Forall_impl; [|exact H]. intros a Ha. eapply U; eassumption. Qed.
Lemma up_bdict : up bdict.
Proof. intros n n' d L H. eapply Forall_impl; [|exact H]. intros e He. eapply up_bo; eassumption. Qed.
Lemma up_bflow : up bflow.
Proof. intros n n' f L [H1 H2]. split; [eapply up_bu; eassumption|eapply (up_Forall _ up_bnode); eassumption]. Qed.
Lemma up_bcont : up bcont.
Proof.
  intros n n' c L (H1 & H2 & H3 & H4). repeat split; try (eapply up_bdict; eassumption).
  eapply (up_Forall _ up_bflow); eassumption.
Qed.
Lemma up_bpst : up bpst.
Proof. intros n n' a L [H1 H2]. split; [eapply (up_Forall _ up_bnode)|eapply up_bcont]; eassumption. Qed.

Definition TT {A} : nat -> A -> Prop := fun _ _ => True.
Lemma up_TT {A} : up (@TT A).
Proof. intros n n' a _ _. exact I. Qed.

(* ------------------------------------------------------------------ the judgement *)
Definition bd {A} (n0 : nat) (m : M A) (Q : nat -> A -> Prop) : Prop :=
  forall s, n0 <= s_next s ->
    s_next s <= s_next (fst (m s)) /\ forall a, snd (m s) = Ok a -> Q (s_next (fst (m s))) a.

Lemma bd_ret {A} n0 (a : A) Q : up Q -> Q n0 a -> bd n0 (ret a) Q.
Proof. intros U H s L. cbn. split; [lia|]. intros b E. inversion E; subst. eapply U; eassumption. Qed.

Lemma bd_throw {A} n0 e (Q : nat -> A -> Prop) : bd n0 (throw e) Q.
Proof. intros s L. cbn. split; [lia|]. intros b E. discriminate. Qed.

Lemma bd_lift {A} n0 (r : result fail A) Q : up Q -> (forall a, r = Ok a -> Q n0 a) -> bd n0 (lift r) Q.
Proof. intros U H s L. cbn. split; [lia|]. intros b E. eapply U; [exact L|]. apply H, E. Qed.

Lemma bd_weaken {A} n0 (m : M A) (Q R : nat -> A -> Prop) : bd n0 m Q -> (forall n a, Q n a -> R n a) -> bd n0 m R.
Proof. intros H HQR s L. destruct (H s L) as [M1 P]. split; [exact M1|]. intros a E. apply HQR, P, E. Qed.

Lemma bd_from {A} n0 n1 (m : M A) Q : n0 <= n1 -> bd n0 m Q -> bd n1 m Q.
Proof. intros L H s L1. apply H. lia. Qed.

Lemma bd_bind {A B} n0 (m : M A) (f : A -> M B) Q R :
  bd n0 m Q -> (forall a n1, n0 <= n1 -> Q n1 a -> bd n1 (f a) R) -> bd n0 (mbind m f) R.
Proof.
  intros Hm Hf s L. unfold mbind. destruct (Hm s L) as [M1 P].
  destruct (m s) as [s1 [a|e]] eqn:E; cbn in *.
  - assert (L1 : n0 <= s_next s1) by lia.
    destruct (Hf a (s_next s1) L1 (P a eq_refl) s1 (le_n _)) as [M2 P2]. split; [lia|exact P2].
  - split; [exact M1|]. intros b Hb. discriminate.
Qed.

Lemma bd_with {A} n0 l (m : M A) Q : bd n0 m Q -> bd n0 (with_ctx l m) Q.
Proof.
  intros Hm s L. unfold with_ctx, push_raw.
  set (s0 := mkS (l :: s_stack s) (s_slots s) (s_loc s) (s_next s)).
  destruct (Hm s0 L) as [M1 P]. destruct (m s0) as [s1 r] eqn:E. cbn [fst snd] in *.
  unfold pop_raw. destruct (s_stack s1) as [|x t]; cbn [fst snd s_next].
  - split; [exact M1|]. intros a Ha. destruct r; discriminate.
  - split; [exact M1|]. exact P.
Qed.

Lemma bd_mfold {S A} (f : A -> S -> M A) (l : list S) Q :
  up Q -> (forall a x n1, Q n1 a -> bd n1 (f a x) Q) -> forall n0 a, Q n0 a -> bd n0 (mfold f l a) Q.
Proof.
  intros U Hf. induction l as [|x r IH]; intros n0 a Ha; cbn [mfold].
  - apply bd_ret; assumption.
  - eapply bd_bind; [apply Hf; exact Ha|]. intros a1 n1 L Ha1. apply IH. exact Ha1.
Qed.

Lemma bd_freshid n0 : bd n0 freshid bu.
Proof. intros s L. cbn. split; [lia|]. intros a E. inversion E; subst. cbn. lia. Qed.

Lemma bd_read n0 r : bd n0 (read r) TT.
Proof. intros s L. cbn. split; [lia|]. intros; exact I. Qed.
Lemma bd_write n0 r f : bd n0 (write r f) TT.
Proof. intros s L. destruct r; cbn; (split; [lia|intros; exact I]). Qed.
Lemma bd_alloc n0 v : bd n0 (alloc v) TT.
Proof. intros s L. cbn. split; [lia|]. intros; exact I. Qed.

Lemma bd_TT_bind {A B} n0 (m : M A) (f : A -> M B) :
  bd n0 m TT -> (forall a n1, bd n1 (f a) TT) -> bd n0 (mbind m f) TT.
Proof. intros Hm Hf. eapply bd_bind; [exact Hm|]. intros a n1 _ _. apply Hf. Qed.

(* ------------------------------------------------------------------ dictionaries *)
Lemma uset_b n d k v : bdict n d -> bo n v -> bdict n (uset d k v).
Proof.
  intros H Hv. induction H as [|[k' v'] r Hk Hr IH]; cbn.
  - constructor; [exact Hv|constructor].
  - destruct (str_eqb k' k); constructor; cbn; assumption.
Qed.

Lemma record_b n d k u d' : bdict n d -> bo n u -> record_uuid d k u = Ok d' -> bdict n d'.
Proof.
  intros H Hu. unfold record_uuid. destruct (uget d k) as [[w|]|].
  - destruct (truthy (Some w)).
    + destruct (truthy u && negb match u with Some x => uuid_eqb x w | None => true end); intros E; inversion E; subst. exact H.
    + intros E. inversion E; subst. apply uset_b; assumption.
  - intros E. inversion E; subst. apply uset_b; assumption.
  - intros E. inversion E; subst. apply uset_b; assumption.
Qed.

Lemma uget_b n d k v : bdict n d -> uget d k = Some v -> bo n v.
Proof.
  intros H. induction H as [|[k' v'] r Hk _ IH]; cbn; [discriminate|].
  destruct (str_eqb k' k); [intros E; inversion E; subst; exact Hk|exact IH].
Qed.

Lemma lookup_b n d k : bdict n d -> bo n (lookup_u d k).
Proof. intros H. unfold lookup_u. destruct (uget d k) as [v|] eqn:E; [eapply uget_b; eassumption|exact I]. Qed.

Lemma bd_lift_rec_g n0 c nm u : bcont n0 c -> bo n0 u -> bd n0 (lift_rec_g c nm u) bcont.
Proof.
  intros (H1 & H2 & H3 & H4) Hu. unfold lift_rec_g.
  eapply bd_bind with (Q := bdict).
  - apply bd_lift; [exact up_bdict|]. intros d E. eapply record_b; [exact H4|exact Hu|exact E].
  - intros d n1 L Hd. apply bd_ret; [exact up_bcont|]. repeat split; cbn; try assumption.
    + eapply (up_Forall _ up_bflow); eassumption.
    + eapply up_bdict; eassumption.
    + eapply up_bdict; eassumption.
Qed.

Lemma bd_lift_rec_f n0 c nm u : bcont n0 c -> bo n0 u -> bd n0 (lift_rec_f c nm u) bcont.
Proof.
  intros (H1 & H2 & H3 & H4) Hu. unfold lift_rec_f.
  eapply bd_bind with (Q := bdict).
  - apply bd_lift; [exact up_bdict|]. intros d E. eapply record_b; [exact H3|exact Hu|exact E].
  - intros d n1 L Hd. apply bd_ret; [exact up_bcont|]. repeat split; cbn; try assumption.
    + eapply (up_Forall _ up_bflow); eassumption.
    + eapply up_bdict; eassumption.
    + eapply up_bdict; eassumption.
Qed.

Lemma opt_given_b n s : bo n (opt_given s).
Proof. destruct s; exact I. Qed.

Lemma bd_node_uuid n0 nid : bd n0 (node_uuid nid) bu.
Proof. destruct nid; cbn [node_uuid]; [apply bd_freshid|apply bd_ret; [exact up_bu|exact I]]. Qed.

(* ------------------------------------------------------------------ the parser *)
Lemma bd_sp n0 sp k v : bd n0 (add_to_context sp k v) TT.
Proof. apply bd_write. Qed.

Lemma bd_remove n0 sp k : bd n0 (remove_from_context sp k) TT.
Proof.
  unfold remove_from_context. apply bd_TT_bind; [apply bd_read|]. intros d n1.
  destruct (aget d k); [apply bd_write|].
  destruct remove_tolerant; [apply bd_ret; [exact up_TT|exact I]|apply bd_throw].
Qed.

Lemma bd_leave_loop n0 sp k sh : bd n0 (leave_loop sp k sh) TT.
Proof.
  unfold leave_loop. destruct loop_scope_policy; [apply bd_remove|].
  destruct sh; [apply bd_sp|apply bd_remove].
Qed.

Lemma bd_render_cell n0 sp c : bd n0 (render_cell sp c) TT.
Proof.
  destruct c as [s|x]; cbn [render_cell]; [apply bd_ret; [exact up_TT|exact I]|].
  apply bd_TT_bind; [apply bd_read|]. intros d n1.
  destruct (aget d x); [apply bd_ret; [exact up_TT|exact I]|].
  destruct env_undefined_policy; [apply bd_throw|apply bd_ret; [exact up_TT|exact I]].
Qed.

Lemma bd_with_tt n0 l : bd n0 (with_ctx l (ret tt)) TT.
Proof. apply bd_with, bd_ret; [exact up_TT|exact I]. Qed.

Lemma bpst_add n a u x : bpst n a -> bu n u -> bact n x -> forall c, bcont n c -> bpst n (mkP (p_nodes a ++ [(u, x)]) c).
Proof.
  intros [H1 H2] Hu Hx c Hc. split; cbn; [|exact Hc].
  apply Forall_app. split; [exact H1|]. constructor; [split; assumption|constructor].
Qed.

Lemma bd_skip_frow : forall r n0, bd n0 (skip_frow r) TT.
Proof.
  induction r as [n c|n g i|n f i|v its body IHb| |] using frow_ind2; intros n0; cbn [skip_frow];
    try apply bd_with_tt.
  - apply bd_TT_bind; [apply bd_with_tt|]. intros _ n1.
    apply bd_TT_bind; [|intros _ n2; apply bd_with_tt].
    clear n0. revert n1. induction IHb as [|x t Hx Ht IHt]; intros n1; [apply bd_ret; [exact up_TT|exact I]|].
    apply bd_TT_bind; [apply Hx|]. intros _ n2. apply IHt.
  - apply bd_with, bd_throw.
Qed.

Lemma bd_skip_frows : forall b n0, bd n0 (skip_frows b) TT.
Proof.
  induction b as [|r b IH]; intros n0; cbn [skip_frows]; [apply bd_ret; [exact up_TT|exact I]|].
  apply bd_TT_bind; [apply bd_skip_frow|]. intros _ n1. apply IH.
Qed.

Lemma bd_skip_empty_body n0 its body : bd n0 (skip_empty_body its body) TT.
Proof.
  unfold skip_empty_body. destruct its; [|apply bd_ret; [exact up_TT|exact I]].
  destruct empty_loop_policy; [apply bd_ret; [exact up_TT|exact I]|].
  apply bd_TT_bind; [apply bd_skip_frows|]. intros _ n1. apply bd_with_tt.
Qed.

Lemma bd_parse_frow : forall r sp n0 a, bpst n0 a -> bd n0 (parse_frow sp r a) bpst.
Proof.
  induction r as [n c|n g i|n f i|v its body IHb| |] using frow_ind2; intros sp n0 a W; cbn [parse_frow].
  - eapply bd_bind; [apply bd_with, bd_render_cell|]. intros t n1 L1 _.
    apply bd_with. eapply bd_bind; [apply bd_node_uuid|]. intros u n2 L2 Hu.
    apply bd_ret; [exact up_bpst|]. assert (W2 : bpst n2 a) by (eapply up_bpst; [|exact W]; lia).
    apply bpst_add; [exact W2|exact Hu|exact I|exact (proj2 W2)].
  - eapply bd_bind; [apply bd_with_tt|]. intros _ n1 L1 _.
    assert (W1 : bpst n1 a) by (eapply up_bpst; [|exact W]; lia).
    apply bd_with. eapply bd_bind with (Q := bcont).
    + destruct i; [apply bd_ret; [exact up_bcont|exact (proj2 W1)]|apply bd_lift_rec_g; [exact (proj2 W1)|exact I]].
    + intros c1 n2 L2 Hc. eapply bd_bind; [apply bd_node_uuid|]. intros u n3 L3 Hu.
      apply bd_ret; [exact up_bpst|].
      apply bpst_add; [eapply up_bpst; [|exact W1]; lia|exact Hu|apply opt_given_b|eapply up_bcont; [|exact Hc]; lia].
  - eapply bd_bind; [apply bd_with_tt|]. intros _ n1 L1 _.
    assert (W1 : bpst n1 a) by (eapply up_bpst; [|exact W]; lia).
    apply bd_with. eapply bd_bind with (Q := bcont).
    + destruct i; [apply bd_ret; [exact up_bcont|exact (proj2 W1)]|apply bd_lift_rec_f; [exact (proj2 W1)|exact I]].
    + intros c1 n2 L2 Hc. eapply bd_bind; [apply bd_node_uuid|]. intros u n3 L3 Hu.
      apply bd_ret; [exact up_bpst|].
      apply bpst_add; [eapply up_bpst; [|exact W1]; lia|exact Hu|exact I|eapply up_bcont; [|exact Hc]; lia].
  - eapply bd_bind; [apply bd_with_tt|]. intros _ n1' L1' _.
    eapply bd_bind; [apply bd_read|]. intros d0 n1 L1 _.
    assert (W1 : bpst n1 a) by (eapply up_bpst; [|exact W]; lia).
    eapply bd_bind with (Q := bpst).
    + clear W L1. revert n1 a W1. induction its as [|it rest IHits]; intros n1 a W1.
      * apply bd_ret; [exact up_bpst|exact W1].
      * eapply bd_bind; [apply bd_sp|]. intros _ n2 L2 _.
        assert (W2 : bpst n2 a) by (eapply up_bpst; [|exact W1]; lia).
        eapply bd_bind with (Q := bpst).
        -- clear IHits W1 L2. revert n2 a W2. induction IHb as [|x t Hx Ht IHt]; intros n2 a W2.
           ++ apply bd_ret; [exact up_bpst|exact W2].
           ++ eapply bd_bind; [apply Hx; exact W2|]. intros a1 n3 L3 W3. apply IHt. exact W3.
        -- intros a' n3 L3 W3. eapply bd_bind; [apply bd_with_tt|]. intros _ n4 L4 _.
           apply IHits. eapply up_bpst; [|exact W3]. lia.
    + intros a1 n2 L2 W2. eapply bd_bind; [apply bd_skip_empty_body|]. intros _ n3' L3' _.
      eapply bd_bind; [apply bd_leave_loop|]. intros _ n3 L3 _.
      apply bd_ret; [exact up_bpst|]. eapply up_bpst; [|exact W2]. lia.
  - apply bd_with, bd_throw.
  - eapply bd_bind; [apply bd_with_tt|]. intros _ n1 L1 _. apply bd_with, bd_throw.
Qed.

Lemma bd_parse_frows : forall b sp n0 a, bpst n0 a -> bd n0 (parse_frows sp b a) bpst.
Proof.
  induction b as [|r b IH]; intros sp n0 a W; cbn [parse_frows].
  - apply bd_ret; [exact up_bpst|exact W].
  - eapply bd_bind; [apply bd_parse_frow; exact W|]. intros a1 n1 L1 W1. apply IH. exact W1.
Qed.

Definition bfc (n : nat) (r : flowc * cont) : Prop := bflow n (fst r) /\ bcont n (snd r).
Lemma up_bfc : up bfc.
Proof. intros n n' r L [H1 H2]. split; [eapply up_bflow|eapply up_bcont]; eassumption. Qed.

Lemma bd_parse_flow n0 nm rows c : bcont n0 c -> bd n0 (parse_flow nm rows c) bfc.
Proof.
  intros W. unfold parse_flow. eapply bd_bind; [apply bd_alloc|]. intros ctx n1 L1 _.
  eapply bd_bind with (Q := TT).
  { unfold sheet_parser_init. apply bd_TT_bind; [apply bd_read|]. intros v n2. apply bd_alloc. }
  intros sp n2 L2 _.
  eapply bd_bind; [apply bd_parse_frows with (a := mkP [] c)|].
  { split; [constructor|]. eapply up_bcont; [|exact W]. lia. }
  intros a n3 L3 [Wa1 Wa2]. eapply bd_bind; [apply bd_freshid|]. intros u n4 L4 Hu.
  apply bd_ret; [exact up_bfc|]. split; cbn.
  - split; cbn; [exact Hu|]. eapply (up_Forall _ up_bnode); [|exact Wa1]. lia.
  - eapply up_bcont; [|exact Wa2]. lia.
Qed.

Lemma fset_b n l f : Forall (bflow n) l -> bflow n f -> Forall (bflow n) (fset l f).
Proof.
  intros H Hf. induction H as [|g r Hg Hr IH]; cbn.
  - constructor; [exact Hf|constructor].
  - destruct (str_eqb (f_name g) (f_name f)); constructor; assumption.
Qed.

Lemma bd_add_flow n0 c f : bcont n0 c -> bflow n0 f -> bd n0 (add_flow c f) bcont.
Proof.
  intros (H1 & H2 & H3 & H4) Hf. unfold add_flow. eapply bd_bind with (Q := bdict).
  - apply bd_lift; [exact up_bdict|]. intros d E. eapply record_b; [exact H3| |exact E]. exact (proj1 Hf).
  - intros d n1 L Hd. apply bd_ret; [exact up_bcont|]. repeat split; cbn.
    + apply Forall_app. split; [eapply (up_Forall _ up_bflow); eassumption|].
      constructor; [eapply up_bflow; eassumption|constructor].
    + eapply up_bdict; eassumption.
    + exact Hd.
    + eapply up_bdict; eassumption.
Qed.

Definition bacc (n : nat) (x : list flowc * cont) : Prop := Forall (bflow n) (fst x) /\ bcont n (snd x).
Lemma up_bacc : up bacc.
Proof. intros n n' r L [H1 H2]. split; [eapply (up_Forall _ up_bflow)|eapply up_bcont]; eassumption. Qed.

Lemma bcont_empty n : bcont n empty_cont.
Proof. repeat split; constructor. Qed.

Lemma bd_parse_all_flows n0 w k : bd n0 (parse_all_flows w k) bcont.
Proof.
  unfold parse_all_flows. eapply bd_bind with (Q := bacc).
  - apply bd_mfold; [exact up_bacc| |split; [constructor|apply bcont_empty]].
    intros acc fr n1 [A1 A2]. apply bd_with.
    destruct (find_sheet (w_flows w) (fst fr)); [|apply bd_throw].
    eapply bd_bind; [apply bd_parse_flow; exact A2|]. intros r n2 L2 [R1 R2].
    apply bd_ret; [exact up_bacc|]. split; cbn; [|exact R2].
    apply fset_b; [eapply (up_Forall _ up_bflow); eassumption|exact R1].
  - intros fc n1 L1 [F1 F2].
    assert (G : forall l n2 c, Forall (bflow n2) l -> bcont n2 c -> bd n2 (mfold add_flow l c) bcont).
    { induction l as [|f r IH]; intros n2 c Hl Hc; cbn [mfold].
      - apply bd_ret; [exact up_bcont|exact Hc].
      - inversion Hl; subst. eapply bd_bind; [apply bd_add_flow; assumption|]. intros c1 n3 L3 Hc1.
        apply IH; [eapply (up_Forall _ up_bflow); eassumption|exact Hc1]. }
    apply G; assumption.
Qed.

(* the content index never draws an id *)
Lemma bd_add_template n0 w k sh upd : bd n0 (add_template w k sh upd) TT.
Proof.
  unfold add_template. destruct (negb (mem_str sh (k_templates k)) || upd).
  - destruct (find_sheet (w_flows w) sh); [apply bd_ret; [exact up_TT|exact I]|apply bd_throw].
  - apply bd_ret; [exact up_TT|exact I].
Qed.

Lemma bd_mfold_TT {S A} n0 (f : A -> S -> M A) l a : (forall a x n1, bd n1 (f a x) TT) -> bd n0 (mfold f l a) TT.
Proof. intros H. apply bd_mfold; [exact up_TT| |exact I]. intros a0 x n1 _. apply H. Qed.

Lemma bd_cip_init n0 w tm : bd n0 (cip_init w tm) TT.
Proof.
  unfold cip_init. destruct (w_index w) as [rows|]; [|apply bd_throw].
  apply bd_TT_bind.
  { unfold sheet_parser_init. apply bd_TT_bind; [apply bd_read|]. intros v n2. apply bd_alloc. }
  intros sp n1. apply bd_TT_bind.
  { apply bd_mfold_TT. intros a x n2. apply bd_with. apply bd_TT_bind; [apply bd_read|]. intros d n3.
    apply bd_ret; [exact up_TT|exact I]. }
  intros _ n2. apply bd_TT_bind.
  { apply bd_mfold_TT. intros k r n3. unfold process_irow. apply bd_with.
    destruct (i_draft r); [apply bd_ret; [exact up_TT|exact I]|].
    destruct (negb (tm_matches tm (i_tags r))); [apply bd_ret; [exact up_TT|exact I]|].
    destruct (i_kind r); try (apply bd_ret; [exact up_TT|exact I]). apply bd_add_template. }
  intros k n3. apply bd_mfold_TT. intros a x n4. apply bd_with, bd_add_template.
Qed.

Lemma bd_tags_ref n0 slot tags : bd n0 (tags_ref slot tags) TT.
Proof. destruct tags; cbn [tags_ref]; [apply bd_alloc|apply bd_ret; [exact up_TT|exact I]]. Qed.

Lemma bd_tagmatcher_init n0 r : bd n0 (tagmatcher_init r) TT.
Proof.
  unfold tagmatcher_init. apply bd_TT_bind; [apply bd_read|]. intros v n1.
  apply bd_lift; [exact up_TT|]. intros; exact I.
Qed.

Lemma bd_tagmatcher_of_ref n0 r : bd n0 (tagmatcher_of_ref r) TT.
Proof.
  unfold tagmatcher_of_ref. apply bd_TT_bind; [apply bd_read|]. intros v n1. apply bd_ret; [exact up_TT|exact I].
Qed.

(* ------------------------------------------------------------------ render *)
Lemma bd_gen_missing : forall d n0, bdict n0 d -> bd n0 (gen_missing d) bdict.
Proof.
  induction d as [|[k v] r IH]; intros n0 H; cbn [gen_missing].
  - apply bd_ret; [exact up_bdict|constructor].
  - inversion H as [|e l Hv Hr]; subst. cbn in Hv.
    eapply bd_bind with (Q := bo).
    + destruct (truthy v); [apply bd_ret; [exact up_bo|exact Hv]|].
      eapply bd_bind; [apply bd_freshid|]. intros u n1 L1 Hu. apply bd_ret; [exact up_bo|exact Hu].
    + intros v1 n1 L1 Hv1. eapply bd_bind; [apply IH; eapply up_bdict; eassumption|].
      intros r1 n2 L2 Hr1. apply bd_ret; [exact up_bdict|]. constructor; [|exact Hr1].
      cbn. eapply up_bo; eassumption.
Qed.

Lemma bd_record_act n0 c a : bcont n0 c -> bnode n0 a -> bd n0 (record_act c a) bcont.
Proof.
  intros Hc [_ Ha]. unfold record_act. destruct (snd a) as [t|g u|f u]; cbn in Ha.
  - apply bd_ret; [exact up_bcont|exact Hc].
  - apply bd_lift_rec_g; assumption.
  - apply bd_lift_rec_f; assumption.
Qed.

Lemma assign_b n fd gd a : bdict n fd -> bdict n gd -> bnode n a -> bnode n (assign_act fd gd a).
Proof.
  intros Hf Hg [H1 H2]. split; [exact H1|]. destruct a as [x [t|g u|f u]]; cbn; [exact I| |]; apply lookup_b; assumption.
Qed.

Definition bcr (n : nat) (x : cont * rendered) : Prop := bcont n (fst x) /\ brend n (snd x).

(* generic: a fold of bcont-preserving steps whose items are bounded *)
Lemma bd_mfold_items {S} (P : nat -> S -> Prop) (f : cont -> S -> M cont) :
  up P -> (forall c x n1, bcont n1 c -> P n1 x -> bd n1 (f c x) bcont) ->
  forall l n0 c, Forall (P n0) l -> bcont n0 c -> bd n0 (mfold f l c) bcont.
Proof.
  intros U Hf. induction l as [|x r IH]; intros n0 c Hl Hc; cbn [mfold].
  - apply bd_ret; [exact up_bcont|exact Hc].
  - inversion Hl; subst. eapply bd_bind; [apply Hf; assumption|]. intros c1 n1 L1 Hc1.
    apply IH; [eapply (up_Forall _ U); eassumption|exact Hc1].
Qed.

Lemma bd_render n0 c : bcont n0 c -> bd n0 (render c) bcr.
Proof.
  intros Hc. pose proof Hc as (H1 & H2 & H3 & H4). unfold render.
  eapply bd_bind with (Q := bcont).
  { apply (bd_mfold_items (fun n (g : str * option uuid) => bo n (snd g))); [|exact (fun c x n1 Hc0 Hx => bd_lift_rec_g n1 c (fst x) (snd x) Hc0 Hx)|exact H2|exact Hc].
    intros n n' g L Hg. eapply up_bo; eassumption. }
  intros c1 n1 L1 Hc1.
  assert (F1 : Forall (bflow n1) (c_flows c)) by (eapply (up_Forall _ up_bflow); eassumption).
  eapply bd_bind with (Q := bcont).
  { apply (bd_mfold_items bflow); [exact up_bflow| |exact F1|exact Hc1].
    intros c0 f n2 Hc0 Hf. apply bd_lift_rec_f; [exact Hc0|exact (proj1 Hf)]. }
  intros c2 n2 L2 Hc2.
  assert (F2 : Forall (bflow n2) (c_flows c)) by (eapply (up_Forall _ up_bflow); eassumption).
  eapply bd_bind with (Q := bcont).
  { apply (bd_mfold_items bflow); [exact up_bflow| |exact F2|exact Hc2].
    intros c0 f n3 Hc0 Hf. apply (bd_mfold_items bnode); [exact up_bnode| |exact (proj2 Hf)|exact Hc0].
    intros c' a n4 Hc' Ha. apply bd_record_act; assumption. }
  intros c3 n3 L3 (_ & _ & D3 & G3).
  eapply bd_bind; [apply bd_gen_missing; exact D3|]. intros fd n4 L4 Hfd.
  eapply bd_bind; [apply bd_gen_missing; eapply up_bdict; eassumption|]. intros gd n5 L5 Hgd.
  assert (Hfd5 : bdict n5 fd) by (eapply up_bdict; eassumption).
  assert (F5 : Forall (bflow n5) (c_flows c)) by (eapply (up_Forall _ up_bflow); [|exact F2]; lia).
  assert (FL : Forall (bflow n5) (map (fun f => mkF (f_name f) (f_uuid f) (map (assign_act fd gd) (f_nodes f)) (f_scratch f)) (c_flows c))).
  { rewrite Forall_forall in *. intros f' HI. apply in_map_iff in HI. destruct HI as (f & <- & HI).
    destruct (F5 f HI) as [U1 U2]. split; cbn; [exact U1|].
    rewrite Forall_forall in *. intros a' Ha'. apply in_map_iff in Ha'. destruct Ha' as (a & <- & Ha).
    apply assign_b; [exact Hfd5|exact Hgd|apply U2, Ha]. }
  apply bd_ret.
  { intros n n' x L [A B]. split; [eapply up_bcont; eassumption|].
    destruct B as [B1 B2]. split; [|eapply up_bdict; eassumption].
    eapply Forall_impl; [|exact B1]. intros f [U1 U2]. split; [eapply up_bu; eassumption|eapply (up_Forall _ up_bnode); eassumption]. }
  split; cbn [fst snd].
  - repeat split; cbn; assumption.
  - split; cbn; [|exact Hgd]. rewrite Forall_forall in *. intros x HI. apply in_map_iff in HI.
    destruct HI as (f & <- & HI). cbn. exact (FL f HI).
Qed.

(* ------------------------------------------------------------------ the calls *)
Lemma bd_m_create_flows n0 tags w : bd n0 (m_create_flows tags w) brend.
Proof.
  unfold m_create_flows.
  eapply bd_bind; [apply bd_tags_ref|]. intros tr n1 _ _.
  eapply bd_bind; [apply bd_tagmatcher_init|]. intros tm n2 _ _.
  eapply bd_bind; [apply bd_cip_init|]. intros k n3 _ _.
  eapply bd_bind; [apply bd_parse_all_flows|]. intros c n4 _ Hc.
  eapply bd_bind; [apply bd_render; exact Hc|]. intros cr n5 _ [_ Hr].
  apply bd_ret; [|exact Hr].
  intros n n' x L [B1 B2]. split; [|eapply up_bdict; eassumption].
  eapply Forall_impl; [|exact B1]. intros f [U1 U2]. split; [eapply up_bu; eassumption|eapply (up_Forall _ up_bnode); eassumption].
Qed.

Lemma bd_m_save_data n0 tags hm w : bd n0 (m_save_data tags hm w) TT.
Proof.
  unfold m_save_data.
  apply bd_TT_bind; [apply bd_tags_ref|]. intros tr n1.
  apply bd_TT_bind; [apply bd_tagmatcher_init|]. intros tm n2.
  apply bd_TT_bind; [apply bd_cip_init|]. intros k n3.
  destruct hm; [apply bd_ret; [exact up_TT|exact I]|apply bd_throw].
Qed.

Lemma bd_m_parse_keep n0 w : bd n0 (m_parse_keep w) bcont.
Proof.
  unfold m_parse_keep.
  eapply bd_bind; [apply bd_tagmatcher_of_ref|]. intros tm n1 _ _.
  eapply bd_bind; [apply bd_cip_init|]. intros k n2 _ _. apply bd_parse_all_flows.
Qed.

(* ------------------------------------------------------------------ shifting *)
Lemma shift_bu k n u : bu n u -> is_fresh_in k (k + n) (shift_uuid k u) = true.
Proof.
  destruct u as [s|m]; cbn; [reflexivity|]. intros H.
  apply andb_true_iff. split; [apply Nat.leb_le; lia|apply Nat.ltb_lt; lia].
Qed.

Lemma shift_bu' k n u : bu n u -> bu (k + n) (shift_uuid k u).
Proof. destruct u as [s|m]; cbn; [auto|lia]. Qed.
Lemma shift_bo' k n o : bo n o -> bo (k + n) (option_map (shift_uuid k) o).
Proof. destruct o; cbn; [apply shift_bu'|auto]. Qed.
Lemma shift_bnode' k n x : bnode n x -> bnode (k + n) (shift_node k x).
Proof.
  intros [H1 H2]. split; cbn; [apply shift_bu', H1|].
  destruct (snd x) as [t|g o|f o]; cbn in *; [exact I|apply shift_bo', H2|apply shift_bo', H2].
Qed.
Lemma shift_bdict' k n d : bdict n d -> bdict (k + n) (shift_udict k d).
Proof.
  intros H. unfold shift_udict. apply Forall_forall. intros e HI. apply in_map_iff in HI.
  destruct HI as (e0 & <- & HI). cbn. apply shift_bo'. unfold bdict in H. rewrite Forall_forall in H. exact (H _ HI).
Qed.
Lemma shift_bcont' k n c : bcont n c -> bcont (k + n) (shift_cont k c).
Proof.
  intros (H1 & H2 & H3 & H4). repeat split; cbn; try (apply shift_bdict'; assumption).
  apply Forall_forall. intros f' HI. apply in_map_iff in HI. destruct HI as (f & <- & HI).
  rewrite Forall_forall in H1. destruct (H1 f HI) as [U1 U2]. split; cbn; [apply shift_bu', U1|].
  apply Forall_forall. intros a' Ha'. apply in_map_iff in Ha'. destruct Ha' as (a & <- & Ha).
  apply shift_bnode'. rewrite Forall_forall in U2. exact (U2 a Ha).
Qed.

(* in-range: Given, or Fresh within [lo, hi) *)
Definition inr (lo hi : nat) (u : uuid) : Prop := is_fresh_in lo hi u = true.

Lemma node_ids_inr lo hi (x : uuid * act) :
  inr lo hi (fst x) -> (forall u, In u (act_ids (snd x)) -> inr lo hi u) -> Forall (inr lo hi) (node_ids x).
Proof. intros H1 H2. unfold node_ids. constructor; [exact H1|]. apply Forall_forall. exact H2. Qed.

Lemma shift_node_ids k n x : bnode n x -> Forall (inr k (k + n)) (node_ids (shift_node k x)).
Proof.
  intros [H1 H2]. apply node_ids_inr; cbn [shift_node fst snd]; [apply shift_bu, H1|].
  intros u HI. destruct (snd x) as [t|g [o|]|f [o|]]; cbn in *; try contradiction;
    destruct HI as [<-|[]]; apply shift_bu; exact H2.
Qed.

Lemma shift_rendered_ids k n r : brend n r -> Forall (inr k (k + n)) (rendered_ids (shift_rendered k r)).
Proof.
  intros [H1 H2]. unfold rendered_ids, shift_rendered. cbn [r_flows r_groups]. apply Forall_app. split.
  - apply Forall_forall. intros u HI. apply in_flat_map in HI. destruct HI as (f' & Hf' & HI).
    apply in_map_iff in Hf'. destruct Hf' as (f & <- & Hf). rewrite Forall_forall in H1.
    destruct (H1 f Hf) as [U1 U2]. cbn [fst snd] in HI. destruct HI as [<-|HI]; [apply shift_bu, U1|].
    apply in_flat_map in HI. destruct HI as (a' & Ha' & HI). apply in_map_iff in Ha'. destruct Ha' as (a & <- & Ha).
    rewrite Forall_forall in U2. pose proof (shift_node_ids k n a (U2 a Ha)) as X. rewrite Forall_forall in X. exact (X u HI).
  - apply Forall_forall. intros u HI. apply in_flat_map in HI. destruct HI as (g' & Hg' & HI).
    apply in_map_iff in Hg'. destruct Hg' as (g & <- & Hg). unfold bdict in H2. rewrite Forall_forall in H2.
    pose proof (H2 g Hg) as X. cbn [snd] in HI. destruct (snd g) as [o|]; cbn in HI; [|contradiction].
    destruct HI as [<-|[]]. apply shift_bu. exact X.
Qed.

(* ------------------------------------------------------------------ steps *)
Lemma Forall_set_nth_b {T} (P : T -> Prop) x : forall l n, Forall P l -> P x -> Forall P (set_nth n x l).
Proof.
  induction l as [|y r IH]; intros n H Hx; destruct n; cbn; try exact H.
  - inversion H; subst. constructor; assumption.
  - inversion H; subst. constructor; [assumption|apply IH; assumption].
Qed.

Definition bhid (h : hidden) : Prop := Forall (bcont (h_fresh h)) (h_conts h).

Lemma enter0_next h : s_next (enter0 h) = 0.
Proof. reflexivity. Qed.

(* the counter never goes back, and every kept container only holds ids handed out so far *)
Lemma step_fresh h c : bhid h -> h_fresh h <= h_fresh (fst (step h c)) /\ bhid (fst (step h c)).
Proof.
  intros B. destruct c as [tags w|tags hm w|w|i|i j|ok]; cbn [step].
  - destruct (m_create_flows tags w (enter0 h)) as [s [r|e]]; cbn; (split; [lia|]);
      unfold bhid; cbn; (eapply (up_Forall _ up_bcont); [|exact B]; lia).
  - destruct (m_save_data tags hm w (enter0 h)) as [s [r|e]]; cbn; (split; [lia|]);
      unfold bhid; cbn; (eapply (up_Forall _ up_bcont); [|exact B]; lia).
  - pose proof (bd_m_parse_keep 0 w (enter0 h) (Nat.le_0_l _)) as [M1 P].
    destruct (m_parse_keep w (enter0 h)) as [s [c|e]]; cbn [fst snd] in *; cbn; (split; [lia|]); unfold bhid; cbn.
    + apply Forall_app. split; [eapply (up_Forall _ up_bcont); [|exact B]; lia|].
      constructor; [|constructor]. apply shift_bcont'. apply P. reflexivity.
    + eapply (up_Forall _ up_bcont); [|exact B]; lia.
  - destruct (nth_error (h_conts h) i) as [c|] eqn:N; [|cbn; split; [lia|exact B]].
    assert (Hc : bcont (h_fresh h) c) by (unfold bhid in B; rewrite Forall_forall in B; apply B; eapply nth_error_In; exact N).
    pose proof (bd_render (h_fresh h) c Hc (enter h) (le_n _)) as [M1 P].
    destruct (render c (enter h)) as [s [[c' r]|e]]; cbn [fst snd] in *; cbn [enter s_next] in M1; cbn; (split; [exact M1|]); unfold bhid; cbn.
    + destruct (P _ eq_refl) as [Pc _]. cbn in Pc.
      assert (X : Forall (bcont (s_next s)) (h_conts h)) by (eapply (up_Forall _ up_bcont); [|exact B]; exact M1).
      apply Forall_set_nth_b; assumption.
    + eapply (up_Forall _ up_bcont); [|exact B]; exact M1.
  - destruct (nth_error (h_conts h) i) as [c|] eqn:N; [|cbn; split; [lia|exact B]].
    destruct (nth_error (c_flows c) j) as [f|] eqn:F; [|cbn; split; [lia|exact B]].
    destruct (to_rows f) as [f' rows] eqn:Tf. cbn. split; [lia|]. unfold bhid. cbn.
    assert (Hc : bcont (h_fresh h) c) by (unfold bhid in B; rewrite Forall_forall in B; apply B; eapply nth_error_In; exact N).
    assert (Hf' : bflow (h_fresh h) f').
    { destruct Hc as (H1 & _). rewrite Forall_forall in H1. pose proof (H1 f (nth_error_In _ _ F)) as [U1 U2].
      replace f' with (fst (to_rows f)) by (rewrite Tf; reflexivity). split; cbn; assumption. }
    assert (Hc' : bcont (h_fresh h) (mkC (set_nth j f' (c_flows c)) (c_groups c) (c_fdict c) (c_gdict c))).
    { destruct Hc as (H1 & H2 & H3 & H4). repeat split; cbn; try assumption.
      apply Forall_set_nth_b; assumption. }
    apply Forall_set_nth_b; assumption.
  - cbn. split; [lia|exact B].
Qed.

Lemma reachable_bhid h : reachable h -> bhid h.
Proof. induction 1 as [|h c _ IH]; [constructor|apply step_fresh, IH]. Qed.

Lemma run_fresh_mono : forall cs h, bhid h -> h_fresh h <= h_fresh (fst (run h cs)) /\ bhid (fst (run h cs)).
Proof.
  induction cs as [|c r IH]; intros h B; cbn [run]; [cbn; split; [lia|exact B]|].
  destruct (step_fresh h c B) as [L1 B1]. destruct (step h c) as [h1 o]. cbn [fst] in *.
  destruct (IH h1 B1) as [L2 B2]. destruct (run h1 r) as [h2 os]. cbn [fst] in *. split; [lia|exact B2].
Qed.

(* 5a. the invented ids a compilation returns are exactly from the range of the counter that
   this call consumed: [h_fresh before, h_fresh after) *)
Theorem create_flows_ids_in_range h tags w :
  Forall (inr (h_fresh h) (h_fresh (fst (step h (CCreateFlows tags w)))))
         (outcome_ids (snd (step h (CCreateFlows tags w)))).
Proof.
  cbn [step]. pose proof (bd_m_create_flows 0 tags w (enter0 h) (Nat.le_0_l _)) as [_ P].
  destruct (m_create_flows tags w (enter0 h)) as [s [r|e]]; cbn [fst snd] in *; cbn [outcome_ids leave0 h_fresh]; [|constructor].
  apply shift_rendered_ids. apply P. reflexivity.
Qed.

(* 5b. a render / export of a kept container only shows ids handed out so far *)
Theorem kept_ids_bounded h c :
  reachable h -> Forall (bu (h_fresh (fst (step h c)))) (outcome_ids (snd (step h c))).
Proof.
  intros R. pose proof (reachable_bhid h R) as B.
  destruct c as [tags w|tags hm w|w|i|i j|ok].
  - eapply Forall_impl; [|apply create_flows_ids_in_range]. intros [s|m]; cbn; [auto|].
    unfold inr. cbn. intros H. apply andb_true_iff in H. destruct H as [_ H]. apply Nat.ltb_lt in H. exact H.
  - cbn [step]. destruct (m_save_data tags hm w (enter0 h)) as [s [r|e]]; constructor.
  - cbn [step]. destruct (m_parse_keep w (enter0 h)) as [s [r|e]]; constructor.
  - cbn [step]. destruct (nth_error (h_conts h) i) as [c|] eqn:N; [|constructor].
    assert (Hc : bcont (h_fresh h) c) by (unfold bhid in B; rewrite Forall_forall in B; apply B; eapply nth_error_In; exact N).
    pose proof (bd_render (h_fresh h) c Hc (enter h) (le_n _)) as [M1 P].
    destruct (render c (enter h)) as [s [[c' r]|e]]; cbn [fst snd] in *; cbn [outcome_ids leave h_fresh]; [|constructor].
    destruct (P _ eq_refl) as [_ [R1 R2]]. cbn [snd] in *. unfold rendered_ids. apply Forall_app. split.
    + apply Forall_forall. intros u HI. apply in_flat_map in HI. destruct HI as (f & Hf & HI).
      rewrite Forall_forall in R1. destruct (R1 f Hf) as [U1 U2]. destruct HI as [<-|HI]; [exact U1|].
      apply in_flat_map in HI. destruct HI as (a & Ha & HI). rewrite Forall_forall in U2. destruct (U2 a Ha) as [V1 V2].
      destruct HI as [<-|HI]; [exact V1|]. destruct (snd a) as [t|g [o|]|ff [o|]]; cbn in *; try contradiction;
        destruct HI as [<-|[]]; exact V2.
    + apply Forall_forall. intros u HI. apply in_flat_map in HI. destruct HI as (g & Hg & HI).
      unfold bdict in R2. rewrite Forall_forall in R2. pose proof (R2 g Hg) as X.
      destruct (snd g) as [o|]; cbn in HI; [|contradiction]. destruct HI as [<-|[]]. exact X.
  - cbn [step]. destruct (nth_error (h_conts h) i) as [c|] eqn:N; [|constructor].
    destruct (nth_error (c_flows c) j) as [f|] eqn:F; [|constructor].
    destruct (to_rows f) as [f' rows] eqn:Tf. cbn [fst snd outcome_ids h_fresh].
    assert (Hc : bcont (h_fresh h) c) by (unfold bhid in B; rewrite Forall_forall in B; apply B; eapply nth_error_In; exact N).
    destruct Hc as (H1 & _). rewrite Forall_forall in H1. destruct (H1 f (nth_error_In _ _ F)) as [_ U2].
    assert (ER : rows = filter (fun n => negb (existsb (uuid_eqb (fst n)) [])) (f_nodes f)).
    { replace rows with (snd (to_rows f)) by (rewrite Tf; reflexivity). reflexivity. }
    apply Forall_forall. intros u HI. apply in_flat_map in HI. destruct HI as (a & Ha & HI).
    rewrite ER in Ha. apply filter_In in Ha. destruct Ha as [Ha _].
    rewrite Forall_forall in U2. destruct (U2 a Ha) as [V1 V2].
    destruct HI as [<-|HI]; [exact V1|]. destruct (snd a) as [t|g [o|]|ff [o|]]; cbn in *; try contradiction;
      destruct HI as [<-|[]]; exact V2.
  - cbn [step]. destruct ok; constructor.
Qed.

(* 5. INVENTED IDS ARE NEVER REUSED BETWEEN RUNS: an id returned by a compilation and an id
   returned by a later compilation in the same process (any calls in between) are different
   unless they are the same GIVEN identifier *)
Theorem fresh_never_reused h t1 w1 cs t2 w2 :
  reachable h ->
  let h1 := fst (step h (CCreateFlows t1 w1)) in
  let h2 := fst (run h1 cs) in
  forall u, In u (outcome_ids (snd (step h (CCreateFlows t1 w1)))) ->
            In u (outcome_ids (snd (step h2 (CCreateFlows t2 w2)))) ->
            exists s, u = Given s.
Proof.
  intros R h1 h2 u I1 I2.
  pose proof (create_flows_ids_in_range h t1 w1) as A. rewrite Forall_forall in A. specialize (A u I1).
  pose proof (create_flows_ids_in_range h2 t2 w2) as B. rewrite Forall_forall in B. specialize (B u I2).
  destruct u as [s|m]; [eauto|]. exfalso.
  assert (Bh1 : bhid h1) by (apply (step_fresh h _ (reachable_bhid h R))).
  destruct (run_fresh_mono cs h1 Bh1) as [L _]. fold h2 in L. fold h1 in A.
  unfold inr in *. cbn in A, B. apply andb_true_iff in A, B. destruct A as [_ A], B as [B _].
  apply Nat.ltb_lt in A. apply Nat.leb_le in B. lia.
Qed.

Definition wb_two : workbook :=
  mkW (Some [mkI false [] (ICreateFlow [115]%N [])]) [([115]%N, [FSend [] (Lit [104]%N); FGroup [] [71]%N []])].

Example fresh_never_reused_nonvacuous :
  exists u, In u (outcome_ids (snd (step init (CCreateFlows None wb_two)))) /\ u = Fresh 0 /\
            In (Fresh 4) (outcome_ids (snd (step (fst (step init (CCreateFlows None wb_two))) (CCreateFlows None wb_two)))).
Proof. exists (Fresh 0). vm_compute. repeat split; auto 10. Qed.
