(* E9 / C14 — the SHAPE of a sheet does not matter: rows without content, however many and wherever
   they stand (a run of 1000 blank rows between two blocks, content far below the header, a long
   blank tail), leave what every format reads unchanged.  Facts only; the models are Csv.v /
   Sanitize.v, the agreement theorem is AgreeFacts.formats_agree_full_repaired (no bound on the number
   of rows, columns or sheets anywhere in it). *)
From Coq Require Import List NArith Bool Lia Arith.
From RPFT Require Import Base.Sexp Base.PyStr Base.Result Base.ODict Gen.Tables
  Io.Csv Io.Sanitize Io.TreeFlags Io.IoFacts Io.SanitizeFacts Io.AgreeFacts.
Import ListNotations.

(* a row of w cells without text *)
Definition blank_row (w : nat) : list str := repeat [] w.

(* the table with a run of n such rows put in front of its k-th row (k >= number of rows: after the last) *)
Definition with_gap (k n : nat) (t : table str str) : table str str :=
  mkT (hdr t) (firstn k (rws t) ++ repeat (blank_row (length (hdr t))) n ++ skipn k (rws t)).

(* two tables with the same headers and the same rows with content, in the same order *)
Definition same_content (t t' : table str str) : Prop :=
  hdr t = hdr t' /\ filter keep_row (rws t) = filter keep_row (rws t').

Definition wb_same_content (wb wb' : workbook (table str str)) : Prop :=
  Forall2 (fun p p' => fst p = fst p' /\ same_content (snd p) (snd p')) wb wb'.

Lemma keep_row_blank w : keep_row (blank_row w) = false.
Proof. unfold keep_row, blank_row. induction w as [|w IH]; [reflexivity|]. cbn [repeat existsb nonempty orb]. exact IH. Qed.

Lemma filter_blank_run w n : filter keep_row (repeat (blank_row w) n) = [].
Proof. induction n as [|n IH]; [reflexivity|]. cbn [repeat filter]. rewrite keep_row_blank. exact IH. Qed.

Lemma same_content_refl t : same_content t t.
Proof. split; reflexivity. Qed.

Lemma same_content_trans a b c : same_content a b -> same_content b c -> same_content a c.
Proof. intros [H1 H2] [H3 H4]. split; [rewrite H1; exact H3|rewrite H2; exact H4]. Qed.

Lemma with_gap_same_content k n t : same_content t (with_gap k n t).
Proof.
  split; [reflexivity|]. unfold with_gap. cbn [rws].
  rewrite !filter_app, filter_blank_run. cbn [app]. rewrite <- filter_app, firstn_skipn. reflexivity.
Qed.

Lemma same_content_drop t t' : same_content t t' -> drop_empty_rows t = drop_empty_rows t'.
Proof.
  intros [Hh Hr]. unfold drop_empty_rows. f_equal; [exact Hh|]. exact Hr.
Qed.

Lemma wb_same_content_drop wb wb' : wb_same_content wb wb' -> wb_map drop_empty_rows wb = wb_map drop_empty_rows wb'.
Proof.
  intros H. induction H as [|p p' l l' [Hn Hs] _ IH]; [reflexivity|].
  unfold wb_map in *. cbn [map]. rewrite IH, Hn, (same_content_drop _ _ Hs). reflexivity.
Qed.

(* the blank run keeps a table inside the property's domain: same headers, rectangular, every cell fits, no CR *)
Lemma fits_nil : fits [].
Proof. unfold fits. cbn [length]. apply N.le_0_l. Qed.

Lemma Forall_blank_row (P : str -> Prop) w : P [] -> Forall P (blank_row w).
Proof. intros H. unfold blank_row. induction w as [|w IH]; constructor; assumption. Qed.

Lemma Forall_repeat {X} (P : X -> Prop) x n : P x -> Forall P (repeat x n).
Proof. intros H. induction n as [|n IH]; constructor; assumption. Qed.

Lemma Forall_gap {X} (P : X -> Prop) k (l g : list X) : Forall P l -> Forall P g -> Forall P (firstn k l ++ g ++ skipn k l).
Proof.
  intros Hl Hg. rewrite <- (firstn_skipn k l) in Hl. apply Forall_app in Hl. destruct Hl as [H1 H2].
  apply Forall_app. split; [exact H1|]. apply Forall_app. split; assumption.
Qed.

Lemma with_gap_in_domain k n t : in_property_domain t -> in_property_domain (with_gap k n t).
Proof.
  intros [Hh [Hne [Hnd [Hr [Hf Hc]]]]]. unfold in_property_domain, with_gap. cbn [hdr].
  split; [exact Hh|]. split; [exact Hne|]. split; [exact Hnd|].
  unfold rect, cells_fit, cr_free, package_rows in *. cbn [hdr rws] in *.
  destruct (hdr t) as [|h0 hs] eqn:Eh; [congruence|].
  inversion Hf as [|? ? Hfh Hfr]; subst. inversion Hc as [|? ? Hch Hcr]; subst.
  split; [|split].
  - apply Forall_gap; [exact Hr|]. apply Forall_repeat. unfold blank_row. apply repeat_length.
  - constructor; [exact Hfh|]. apply Forall_gap; [exact Hfr|]. apply Forall_repeat, Forall_blank_row, fits_nil.
  - constructor; [exact Hch|]. apply Forall_gap; [exact Hcr|]. apply Forall_repeat, Forall_blank_row. reflexivity.
Qed.

(* one run per sheet, chosen by the sheet's name: g name = (position, length) *)
Definition wb_gaps (g : str -> nat * nat) (wb : workbook (table str str)) : workbook (table str str) :=
  map (fun p => (fst p, with_gap (fst (g (fst p))) (snd (g (fst p))) (snd p))) wb.

Lemma wb_gaps_same_content g wb : wb_same_content wb (wb_gaps g wb).
Proof.
  induction wb as [|p l IH]; [constructor|]. cbn [wb_gaps map]. constructor; [|exact IH].
  cbn [fst snd]. split; [reflexivity|apply with_gap_same_content].
Qed.

Lemma wb_gaps_in_domain g wb :
  Forall (fun p => in_property_domain (snd p)) wb -> Forall (fun p => in_property_domain (snd p)) (wb_gaps g wb).
Proof.
  intros H. induction H as [|p l Hp _ IH]; [constructor|]. cbn [wb_gaps map]. constructor; [|exact IH].
  cbn [snd]. apply with_gap_in_domain, Hp.
Qed.

Section Shapes.
Variables (X J : Type) (xl_write : workbook (table str str) -> X) (xl_load : X -> workbook (list (list xcell)))
          (json_dumps : workbook jsheet -> J) (json_loads : J -> workbook jsheet).
Hypothesis xl_roundtrip : forall wb, xl_load (xl_write wb) = wb_map xl_grid wb.
Hypothesis json_roundtrip : forall b, json_loads (json_dumps b) = b.
Variables (fl : reader_flags) (translated : bool).

Notation vcsv := (via_csv fl translated).
Notation vxlsx := (via_xlsx X xl_write xl_load).
Notation vjson := (via_json J json_dumps json_loads fl translated).
Notation vjsond := (via_json_direct J json_dumps json_loads fl).

(* Two workbooks of the property's domain with the same sheet names, the same headers and the same rows with
   content — however many rows WITHOUT content each has, and wherever — are read alike by every format (on a tree
   whose readers all omit such rows), and what is read is the content. *)
Theorem blank_rows_do_not_matter wb wb' :
  flags_repaired fl = true ->
  Forall (fun p => in_property_domain (snd p)) wb -> Forall (fun p => in_property_domain (snd p)) wb' ->
  wb_same_content wb wb' ->
  vcsv wb = vcsv wb' /\ vxlsx wb = vxlsx wb' /\ vjson wb = vjson wb' /\ vjsond wb = vjsond wb' /\
  vcsv wb' = Ok (wb_map drop_empty_rows wb) /\
  vxlsx wb' = Ok (wb_map lift_table (wb_map drop_empty_rows wb)).
Proof.
  intros Hfl Hd Hd' Hs.
  destruct (formats_agree_full_repaired X J xl_write xl_load json_dumps json_loads xl_roundtrip json_roundtrip
              fl translated wb Hfl Hd) as [E1 [E2 [E3 E4]]].
  destruct (formats_agree_full_repaired X J xl_write xl_load json_dumps json_loads xl_roundtrip json_roundtrip
              fl translated wb' Hfl Hd') as [F1 [F2 [F3 F4]]].
  rewrite E1, E2, E3, E4, F1, F2, F3, F4, (wb_same_content_drop _ _ Hs). repeat split; reflexivity.
Qed.

(* in particular a run of n rows without content in front of row k of each sheet, ANY n and k (n = 1000 and
   n = 1 alike), is not seen by any reader: the four reads of the workbook with the runs are the four reads of the
   workbook without them *)
Theorem blank_run_any_length g wb :
  flags_repaired fl = true -> Forall (fun p => in_property_domain (snd p)) wb ->
  vcsv (wb_gaps g wb) = vcsv wb /\ vxlsx (wb_gaps g wb) = vxlsx wb /\
  vjson (wb_gaps g wb) = vjson wb /\ vjsond (wb_gaps g wb) = vjsond wb.
Proof.
  intros Hfl Hd.
  destruct (blank_rows_do_not_matter wb (wb_gaps g wb) Hfl Hd (wb_gaps_in_domain g wb Hd) (wb_gaps_same_content g wb))
    as [H1 [H2 [H3 [H4 _]]]].
  repeat split; symmetry; assumption.
Qed.

End Shapes.

Local Open Scope N_scope.

(* non-vacuity: sheet "s", headers a, b; a row with content, then 1200 rows without, then a row with content — inside
   the domain, and every format reads the two rows with content *)
Definition ex_gap_base : workbook (table str str) := [([115], mkT [[97]; [98]] [[[120]; []]; [[]; [121; 44; 122]]])].
Definition ex_gap_wb : workbook (table str str) := wb_gaps (fun _ => (1, 1200)%nat) ex_gap_base.

Lemma ex_gap_base_in_domain : Forall (fun p => in_property_domain (snd p)) ex_gap_base.
Proof.
  constructor; [|constructor]. unfold in_property_domain, rect, cells_fit, cr_free. cbn [hdr rws package_rows snd].
  repeat dom_step.
Qed.

Example blank_run_nonvacuous :
  let xl_write := wb_map xl_grid in
  let xl_load := fun x : workbook (list (list xcell)) => x in
  let dumps := fun b : workbook jsheet => b in
  let loads := fun b : workbook jsheet => b in
  Forall (fun p => in_property_domain (snd p)) ex_gap_wb /\
  (exists t, ex_gap_wb = [([115], t)] /\ length (rws t) = 1202%nat /\ nth 1200%nat (rws t) [] = blank_row 2
             /\ nth 1201%nat (rws t) [] = [[]; [121; 44; 122]]) /\
  via_csv (flags_all true) load_csv_translated ex_gap_wb = Ok ex_gap_base /\
  via_xlsx _ xl_write xl_load ex_gap_wb = Ok (wb_map lift_table ex_gap_base) /\
  via_json _ dumps loads (flags_all true) load_csv_translated ex_gap_wb = Ok ex_gap_base /\
  via_json_direct _ dumps loads (flags_all true) ex_gap_wb = Ok ex_gap_base.
Proof.
  cbv zeta.
  assert (Hd : Forall (fun p => in_property_domain (snd p)) ex_gap_wb) by (apply wb_gaps_in_domain, ex_gap_base_in_domain).
  split; [exact Hd|]. split.
  - eexists. split; [reflexivity|]. split; [vm_compute; reflexivity|]. split; vm_compute; reflexivity.
  - destruct (blank_run_any_length _ _ (wb_map xl_grid) (fun x => x) (fun b => b) (fun b => b) (fun _ => eq_refl) (fun _ => eq_refl)
                (flags_all true) load_csv_translated (fun _ => (1, 1200)%nat) ex_gap_base eq_refl ex_gap_base_in_domain) as [H1 [H2 [H3 H4]]].
    fold ex_gap_wb in H1, H2, H3, H4.
    destruct (formats_agree_full_repaired _ _ (wb_map xl_grid) (fun x => x) (fun b => b) (fun b => b) (fun _ => eq_refl) (fun _ => eq_refl)
                (flags_all true) load_csv_translated ex_gap_base eq_refl ex_gap_base_in_domain) as [E1 [E2 [E3 E4]]].
    assert (Hb : wb_map drop_empty_rows ex_gap_base = ex_gap_base) by (vm_compute; reflexivity).
    rewrite Hb in E1, E2, E3, E4. rewrite H1, H2, H3, H4. repeat split; assumption.
Qed.
